package c11

import (
	"fmt"
	"math/big"
	"strings"

	"verifharness/internal/h"
	"verifharness/props/c11/bnref"
)

func be32(v *big.Int) []byte {
	b := new(big.Int).Mod(v, two256).Bytes()
	out := make([]byte, 32)
	copy(out[32-len(b):], b)
	return out
}

func cat(bs ...[]byte) []byte {
	var out []byte
	for _, b := range bs {
		out = append(out, b...)
	}
	return out
}

// randTwistPoint solves y² = x³ + 3/ξ for random x WITHOUT clearing the cofactor: a point of the
// twist that (with overwhelming probability) is outside the order-r subgroup.
func randTwistPoint(rng *h.Rng) bnref.P2 {
	for {
		x := bnref.F2{Im: rng.Big(bnref.P), Re: rng.Big(bnref.P)}
		rhs := bnref.F2Add(bnref.F2Mul(bnref.F2Mul(x, x), x), bnref.TwistB)
		if y, ok := bnref.F2Sqrt(rhs); ok {
			if rng.Bool() {
				y = bnref.F2Neg(y)
			}
			return bnref.P2{X: x, Y: y}
		}
	}
}

// randCurvePoint solves y² = x³ + 3 for random x (every such point is in G1: cofactor 1).
func randCurvePoint(rng *h.Rng) bnref.P1 {
	for {
		x := rng.Big(bnref.P)
		if y := bnref.Sqrt(bnref.Add(bnref.Mul(bnref.Mul(x, x), x), big.NewInt(3))); y != nil {
			if rng.Bool() {
				y = bnref.Neg(y)
			}
			return bnref.P1{X: x, Y: y}
		}
	}
}

func flip(b []byte, bit int) []byte {
	c := append([]byte{}, b...)
	c[bit/8] ^= 0x80 >> uint(bit%8)
	return c
}

func gen(tier string, rng *h.Rng, emit func(string)) {
	thorough := tier == "thorough"
	pick := func(q, t int) int {
		if thorough {
			return t
		}
		return q
	}
	r := bnref.Rn
	rm1 := new(big.Int).Sub(r, big.NewInt(1))
	special := []*big.Int{
		big.NewInt(0), big.NewInt(1), big.NewInt(2), big.NewInt(3), rm1, new(big.Int).Sub(r, big.NewInt(2)),
		new(big.Int).Rsh(rm1, 1), new(big.Int).Add(new(big.Int).Rsh(rm1, 1), big.NewInt(1)),
		new(big.Int).Set(r), new(big.Int).Add(r, big.NewInt(1)), new(big.Int).Sub(two256, big.NewInt(1)),
		new(big.Int).Lsh(big.NewInt(1), 128), bnref.P,
	}
	var ks []*big.Int
	ks = append(ks, special...)
	for i := 0; i < pick(24, 200); i++ {
		ks = append(ks, rng.Big(r))
	}
	for i := 0; i < pick(4, 40); i++ { // small and sparse scalars
		ks = append(ks, big.NewInt(int64(rng.Intn(1000))), new(big.Int).Lsh(big.NewInt(1), uint(rng.Intn(254))))
	}

	// ---- 1. elements reachable by scalar multiplication / addition, incl. identity ----------------
	for _, k := range ks {
		emit("g1mul " + k.String())
		emit("g2mul " + k.String())
		emit("scenc " + k.String())
	}
	pairs := [][2]*big.Int{}
	for i := 0; i < pick(20, 120); i++ {
		a := ks[rng.Intn(len(ks))]
		b := ks[rng.Intn(len(ks))]
		switch rng.Intn(4) {
		case 0: // a + b ≡ 0
			b = new(big.Int).Sub(r, new(big.Int).Mod(a, r))
		case 1: // doubling through Add
			b = a
		}
		pairs = append(pairs, [2]*big.Int{a, b})
	}
	for _, pr := range pairs {
		for _, g := range []string{"g1", "g2"} {
			emit(fmt.Sprintf("%sadd %s %s", g, pr[0], pr[1]))
			emit(fmt.Sprintf("%ssub %s %s", g, pr[0], pr[1]))
		}
	}
	for i := 0; i < pick(6, 40); i++ {
		a := ks[rng.Intn(len(ks))]
		emit("g1neg " + a.String())
		emit("g2neg " + a.String())
	}
	// equality: same element computed two ways / neighbouring elements
	for i := 0; i < pick(10, 80); i++ {
		a, b := rng.Big(r), rng.Big(r)
		s := new(big.Int).Add(a, b)
		c := rng.Big(r)
		d := new(big.Int).Sub(s, c)
		d.Mod(d, r)
		switch rng.Intn(3) {
		case 0: // different elements (off by one)
			d.Add(d, big.NewInt(1)).Mod(d, r)
		case 1: // both the identity
			b = new(big.Int).Sub(r, a)
			d = new(big.Int).Sub(r, c)
		}
		emit(fmt.Sprintf("g1eq %s %s %s %s", a, b, c, d))
		emit(fmt.Sprintf("g2eq %s %s %s %s", a, b, c, d))
	}

	// GT: the same pairing value computed from different arguments, and different values
	for i := 0; i < pick(16, 120); i++ {
		a, b := rng.Big(r), rng.Big(r)
		c := rng.Big(r)
		// d = a·b / c mod r
		d := new(big.Int).Mul(a, b)
		d.Mul(d, new(big.Int).ModInverse(c, r)).Mod(d, r)
		switch rng.Intn(4) {
		case 0:
			d.Add(d, big.NewInt(1)).Mod(d, r)
		case 1: // e(aG1, 0) = e(0, dG2) = 1
			b, c = big.NewInt(0), big.NewInt(0)
		case 2: // swapped roles e(aG1,bG2) = e(bG1,aG2)
			c, d = b, a
		}
		emit(fmt.Sprintf("gteq %s %s %s %s", a, b, c, d))
	}

	// ---- 2. G1 byte strings -----------------------------------------------------------------------
	for bi := 0; bi < pick(2, 6); bi++ {
		var P bnref.P1
		if bi == 0 {
			P = bnref.G1Gen()
		} else {
			P = randCurvePoint(rng)
		}
		E := bnref.Enc1(P)
		emit("g1dec " + h.Hex(E))
		// every length 0..2·size
		for n := 0; n <= 128; n++ {
			var s []byte
			if n <= 64 {
				s = E[:n]
			} else {
				s = cat(E, rng.Bytes(n-64))
			}
			emit("g1dec " + h.Hex(s))
		}
		// every single-bit flip
		for bit := 0; bit < 512; bit++ {
			if false {
				continue
			}
			emit("g1dec " + h.Hex(flip(E, bit)))
		}
		// swaps, negation, off-curve neighbours, non-canonical coordinates
		emit("g1dec " + h.Hex(cat(E[32:], E[:32])))
		emit("g1dec " + h.Hex(cat(E[:32], be32(bnref.Neg(P.Y)))))
		emit("g1dec " + h.Hex(cat(E[:32], be32(new(big.Int).Add(P.Y, big.NewInt(1))))))
		emit("g1dec " + h.Hex(cat(be32(new(big.Int).Add(P.X, big.NewInt(1))), E[32:])))
		for k := int64(1); k <= 5; k++ {
			kp := new(big.Int).Mul(big.NewInt(k), bnref.P)
			if x := new(big.Int).Add(P.X, kp); x.Cmp(two256) < 0 {
				emit("g1dec " + h.Hex(cat(be32(x), E[32:])))
			}
			if y := new(big.Int).Add(P.Y, kp); y.Cmp(two256) < 0 {
				emit("g1dec " + h.Hex(cat(E[:32], be32(y))))
			}
		}
		emit(fmt.Sprintf("g1into %s %s", rng.Big(r), h.Hex(E)))
		emit(fmt.Sprintf("g1into 0 %s", h.Hex(E)))
		emit(fmt.Sprintf("g1from %s", h.Hex(cat(E, rng.Bytes(rng.Intn(40))))))
		emit(fmt.Sprintf("g1from %s", h.Hex(E[:rng.Intn(64)])))
	}
	zero32 := make([]byte, 32)
	pb := be32(bnref.P)
	for _, s := range [][]byte{
		make([]byte, 64), make([]byte, 63), make([]byte, 65), cat(pb, zero32), cat(zero32, pb), cat(pb, pb),
		cat(zero32, be32(big.NewInt(1))), cat(be32(big.NewInt(1)), zero32), cat(be32(big.NewInt(1)), be32(big.NewInt(2)), []byte{0xff}),
		cat(be32(new(big.Int).Sub(two256, big.NewInt(1))), be32(new(big.Int).Sub(two256, big.NewInt(1)))),
		cat(be32(new(big.Int).Sub(bnref.P, big.NewInt(1))), be32(new(big.Int).Sub(bnref.P, big.NewInt(1)))),
	} {
		emit("g1dec " + h.Hex(s))
	}
	for i := 0; i < pick(1500, 8000); i++ { // random strings / random canonical coordinates (almost surely off-curve)
		if rng.Bool() {
			emit("g1dec " + h.Hex(rng.Bytes(rng.Intn(130))))
		} else {
			emit("g1dec " + h.Hex(cat(be32(rng.Big(bnref.P)), be32(rng.Big(bnref.P)))))
		}
	}
	for i := 0; i < pick(1000, 5000); i++ { // valid random points
		emit("g1dec " + h.Hex(bnref.Enc1(randCurvePoint(rng))))
	}

	// ---- 3. G2 byte strings -----------------------------------------------------------------------
	for bi := 0; bi < pick(2, 5); bi++ {
		var P bnref.P2
		if bi == 0 {
			P = bnref.G2Gen()
		} else {
			P = bnref.Mul2(rng.Big(r), bnref.G2Gen())
		}
		E := bnref.Enc2(P)
		emit("g2dec " + h.Hex(E))
		for n := 0; n <= 258; n++ {
			var s []byte
			if n <= 129 {
				s = E[:n]
			} else {
				s = cat(E, rng.Bytes(n-129))
			}
			if !thorough && n > 131 && n%8 != 0 { // longer than the element: decoded fully (subgroup test), sample
				continue
			}
			emit("g2dec " + h.Hex(s))
		}
		for bit := 0; bit < 1032; bit++ {
			if false {
				continue
			}
			emit("g2dec " + h.Hex(flip(E, bit)))
		}
		w := func(i int) []byte { return E[1+32*i : 33+32*i] }
		emit("g2dec " + h.Hex(cat(E[:1], w(1), w(0), w(3), w(2)))) // real part first
		emit("g2dec " + h.Hex(cat(E[:1], w(2), w(3), w(0), w(1)))) // y before x
		emit("g2dec " + h.Hex(cat(E[:1], w(1), w(0), w(2), w(3))))
		emit("g2dec " + h.Hex(bnref.Enc2(bnref.Neg2(P))))
		emit("g2dec " + h.Hex(E[1:])) // EVM form without the tag
		for _, tag := range []byte{0, 2, 3, 0x80, 0xff} {
			emit("g2dec " + h.Hex(cat([]byte{tag}, E[1:])))
		}
		for k := int64(1); k <= 5; k++ {
			kp := new(big.Int).Mul(big.NewInt(k), bnref.P)
			for i, c := range []*big.Int{P.X.Im, P.X.Re, P.Y.Im, P.Y.Re} {
				if v := new(big.Int).Add(c, kp); v.Cmp(two256) < 0 {
					ws := [][]byte{w(0), w(1), w(2), w(3)}
					ws[i] = be32(v)
					emit("g2dec " + h.Hex(cat(E[:1], ws[0], ws[1], ws[2], ws[3])))
				}
			}
		}
		emit(fmt.Sprintf("g2into %s %s", rng.Big(r), h.Hex(E)))
		emit(fmt.Sprintf("g2into 0 %s", h.Hex(E)))
		emit(fmt.Sprintf("g2into %s 00", rng.Big(r)))
		emit(fmt.Sprintf("g2from %s", h.Hex(cat(E, rng.Bytes(rng.Intn(40))))))
		emit(fmt.Sprintf("g2from %s", h.Hex(E[:rng.Intn(129)])))
	}
	for _, s := range [][]byte{
		{}, {0}, {1}, {2}, {0, 1, 2, 3}, cat([]byte{0}, rng.Bytes(128)), cat([]byte{0}, rng.Bytes(300)),
		cat([]byte{1}, make([]byte, 128)), cat([]byte{1}, make([]byte, 127)), cat([]byte{1}, pb, zero32, zero32, zero32),
		cat([]byte{1}, pb, pb, pb, pb), cat([]byte{1}, zero32, zero32, zero32, be32(big.NewInt(1))),
	} {
		emit("g2dec " + h.Hex(s))
		emit("g2from " + h.Hex(s))
	}
	// points of the twist outside the order-r subgroup (the subgroup test is the only thing rejecting them)
	for i := 0; i < pick(150, 600); i++ {
		emit("g2dec " + h.Hex(bnref.Enc2(randTwistPoint(rng))))
	}
	// a twist point outside the subgroup PLUS a subgroup point is still outside
	for i := 0; i < pick(5, 50); i++ {
		q := bnref.Add2(randTwistPoint(rng), bnref.Mul2(rng.Big(r), bnref.G2Gen()))
		emit("g2dec " + h.Hex(bnref.Enc2(q)))
	}
	for i := 0; i < pick(150, 600); i++ { // valid subgroup points
		emit("g2dec " + h.Hex(bnref.Enc2(bnref.Mul2(rng.Big(r), bnref.G2Gen()))))
	}
	for i := 0; i < pick(1500, 8000); i++ {
		switch rng.Intn(3) {
		case 0:
			emit("g2dec " + h.Hex(rng.Bytes(rng.Intn(260))))
		case 1:
			emit("g2dec " + h.Hex(cat([]byte{1}, rng.Bytes(128+rng.Intn(3)))))
		default:
			emit("g2dec " + h.Hex(cat([]byte{1}, be32(rng.Big(bnref.P)), be32(rng.Big(bnref.P)), be32(rng.Big(bnref.P)), be32(rng.Big(bnref.P)))))
		}
	}

	// ---- 4. GT: elements come from the library's own pairing (the model has no pairing) ----------
	for bi := 0; bi < pick(2, 5); bi++ {
		var E []byte
		g := suite.GT().Point()
		switch bi {
		case 0:
			g.Base()
		default:
			g = suite.Pair(elem("g1", rng.Big(r)), elem("g2", rng.Big(r)))
		}
		E, _ = g.MarshalBinary()
		emit("gtdec " + h.Hex(E))
		for n := 0; n <= 768; n++ {
			if !thorough && n > 8 && n < 376 && n%16 != 0 {
				continue
			}
			if !thorough && n > 392 && n%32 != 0 {
				continue
			}
			var s []byte
			if n <= 384 {
				s = E[:min(n, len(E))]
			} else {
				s = cat(E, rng.Bytes(n-384))
			}
			emit("gtdec " + h.Hex(s))
		}
		for bit := 0; bit < 3072; bit++ {
			if !thorough && bit%4 != (3*bi)%4 {
				continue
			}
			emit("gtdec " + h.Hex(flip(E, bit)))
		}
		for i := 0; i < 12; i++ { // coordinate + p, coordinate = p
			c := new(big.Int).SetBytes(E[32*i : 32*i+32])
			for _, v := range []*big.Int{new(big.Int).Add(c, bnref.P), bnref.P} {
				if v.Cmp(two256) < 0 {
					emit("gtdec " + h.Hex(cat(E[:32*i], be32(v), E[32*i+32:])))
				}
			}
		}
		emit(fmt.Sprintf("gtinto %s %s", rng.Big(r), h.Hex(E)))
		emit(fmt.Sprintf("gtinto 1 %s", h.Hex(E)))
		emit("gtfrom " + h.Hex(cat(E, rng.Bytes(rng.Intn(9)))))
		emit("gtfrom " + h.Hex(E[:rng.Intn(384)]))
	}
	{
		n := suite.GT().Point().Null()
		E, _ := n.MarshalBinary()
		emit("gtdec " + h.Hex(E))
		emit("gtdec " + h.Hex(make([]byte, 384)))
		emit("gtdec " + h.Hex(make([]byte, 383)))
	}
	for i := 0; i < pick(200, 1500); i++ {
		emit("gtdec " + h.Hex(rng.Bytes(rng.Intn(800))))
	}

	// ---- 4b. one receiver reused: special encodings into every prior state, sequences [P, identity, Q] ----
	{
		gtOne, _ := suite.GT().Point().Null().MarshalBinary()
		gtBase, _ := suite.GT().Point().Base().MarshalBinary()
		gtP, _ := suite.Pair(elem("g1", rng.Big(r)), elem("g2", rng.Big(r))).MarshalBinary()
		type grp struct {
			name    string
			special [][]byte
			valid   [][]byte
			bad     [][]byte
		}
		g1P, g1Q := bnref.Enc1(randCurvePoint(rng)), bnref.Enc1(bnref.G1Gen())
		g2P, g2Q := bnref.Enc2(bnref.Mul2(rng.Big(r), bnref.G2Gen())), bnref.Enc2(bnref.G2Gen())
		groups := []grp{
			{"g1", [][]byte{make([]byte, 64), make([]byte, 70)}, [][]byte{g1P, g1Q},
				[][]byte{cat(g1P[:32], be32(big.NewInt(5))), g1P[:40], cat(be32(bnref.P), g1P[32:])}},
			{"g2", [][]byte{{0}, cat([]byte{0}, rng.Bytes(7)), cat([]byte{0}, rng.Bytes(128)), cat([]byte{1}, make([]byte, 128))}, [][]byte{g2P, g2Q},
				[][]byte{cat(g2P[:97], be32(big.NewInt(5))), g2P[:100], {2}, bnref.Enc2(randTwistPoint(rng))}},
			{"gt", [][]byte{gtOne, make([]byte, 384)}, [][]byte{gtP, gtBase},
				[][]byte{gtP[:383], cat(be32(bnref.P), gtP[32:])}},
		}
		for _, g := range groups {
			k := rng.Big(r)
			prefixes := []string{"", "n", "b", "m" + k.String(), "m0"}
			for _, v := range g.valid {
				prefixes = append(prefixes, "d"+h.Hex(v), "f"+h.Hex(v))
			}
			for _, bd := range g.bad {
				prefixes = append(prefixes, "d"+h.Hex(bd), "m"+k.String()+",d"+h.Hex(bd), "f"+h.Hex(bd))
			}
			join := func(a, b string) string {
				if a == "" {
					return b
				}
				return a + "," + b
			}
			for _, sp := range g.special {
				for _, pre := range prefixes {
					emit(fmt.Sprintf("seq %s %s", g.name, join(pre, "d"+h.Hex(sp))))
					emit(fmt.Sprintf("seq %s %s", g.name, join(pre, "f"+h.Hex(sp))))
				}
				// [P, identity, Q] through one receiver, both APIs, and identity twice
				P, Q := g.valid[0], g.valid[1]
				for _, api := range []string{"d", "f"} {
					emit(fmt.Sprintf("seq %s %s%s,%s%s,%s%s", g.name, api, h.Hex(P), api, h.Hex(sp), api, h.Hex(Q)))
					emit(fmt.Sprintf("seq %s %s%s,%s%s,%s%s,%s%s", g.name, api, h.Hex(Q), api, h.Hex(sp), api, h.Hex(sp), api, h.Hex(P)))
				}
				emit(fmt.Sprintf("seq %s d%s,f%s,d%s,f%s,d%s", g.name, h.Hex(P), h.Hex(sp), h.Hex(g.bad[0]), h.Hex(sp), h.Hex(Q)))
			}
			// non-identity encodings into every prior state as well
			for _, pre := range prefixes {
				emit(fmt.Sprintf("seq %s %s", g.name, join(pre, "d"+h.Hex(g.valid[0]))))
			}
		}
	}

	genHistoriesC11(thorough, rng, emit)

	// ---- 5. scalars -------------------------------------------------------------------------------
	for _, v := range append(special, new(big.Int).Sub(two256, big.NewInt(2)), new(big.Int).Add(r, r)) {
		emit("scdec " + h.Hex(be32(v)))
	}
	sE := be32(rng.Big(r))
	for n := 0; n <= 64; n++ {
		if n <= 32 {
			emit("scdec " + h.Hex(sE[:n]))
		} else {
			emit("scdec " + h.Hex(cat(sE, rng.Bytes(n-32))))
		}
	}
	for bit := 0; bit < 256; bit++ {
		emit("scdec " + h.Hex(flip(sE, bit)))
		emit("scdec " + h.Hex(flip(be32(rm1), bit)))
	}
	for i := 0; i < pick(1000, 8000); i++ {
		if rng.Intn(4) == 0 {
			emit("scdec " + h.Hex(rng.Bytes(rng.Intn(70))))
		} else {
			emit("scdec " + h.Hex(rng.Bytes(32)))
		}
	}

	// ---- 6. streams: MarshalTo → UnmarshalFrom with trailing data ----------------------------------
	for i := 0; i < pick(8, 60); i++ {
		k := ks[rng.Intn(len(ks))]
		if i < 3 {
			k = big.NewInt(0) // the identity: 64 zero bytes for G1, the single byte 0x00 for G2
		}
		tail := rng.Bytes([]int{0, 1, 64, 128, 129, 200}[rng.Intn(6)])
		emit(fmt.Sprintf("g1strm %s %s", k, h.Hex(tail)))
		emit(fmt.Sprintf("g2strm %s %s", k, h.Hex(tail)))
	}

	// ---- 7. representatives: one element built along two different routes (no normalisation in between) ----
	for i := 0; i < pick(36, 300); i++ {
		a, b, c := rng.Big(r), rng.Big(r), rng.Big(r)
		if i%9 == 0 { // small scalars: short chains, z values that are small multiples
			a, b, c = big.NewInt(int64(1+rng.Intn(6))), big.NewInt(int64(1+rng.Intn(6))), big.NewInt(int64(1+rng.Intn(6)))
		}
		sum := new(big.Int).Add(a, b)
		sum.Mod(sum, r)
		prod := new(big.Int).Mul(a, b)
		prod.Mod(prod, r)
		na := new(big.Int).Sub(r, a)
		var e1, e2 string
		switch i % 12 {
		case 0:
			e1, e2 = fmt.Sprintf("k%s,k%s,+", a, b), fmt.Sprintf("k%s", sum)
		case 1:
			e1, e2 = fmt.Sprintf("k%s,d,k%s,+", a, c), fmt.Sprintf("k%s,k%s,+,k%s,+", c, a, a)
		case 2:
			e1, e2 = fmt.Sprintf("k%s,m%s", a, b), fmt.Sprintf("k%s", prod)
		case 3:
			e1, e2 = fmt.Sprintf("k%s,k%s,-,n", a, b), fmt.Sprintf("k%s,k%s,-", b, a)
		case 4: // a DECODED object (Clone = decode(encode)) against a Jacobian representative
			e1, e2 = fmt.Sprintf("k%s,k%s,+,c", a, b), fmt.Sprintf("k%s,k%s,+", b, a)
		case 5:
			e1, e2 = fmt.Sprintf("k%s,k%s,+,k%s,-", a, b, b), fmt.Sprintf("k%s", a)
		case 6: // both the identity: z = 0 reached by P + (−P), by r·P and by Null()
			e1, e2 = fmt.Sprintf("k%s,k%s,+", a, na), []string{"o", fmt.Sprintf("k%s,m%s", b, r), fmt.Sprintf("k%s,s,n,k%s,+", b, b)}[rng.Intn(3)]
		case 7:
			e1, e2 = fmt.Sprintf("k%s,c,d,c,k%s,+", a, c), fmt.Sprintf("k%s,k%s,k%s,+,+", a, c, a)
		case 8:
			e1, e2 = "b,d,d,b,+", "k5"
		case 9:
			e1, e2 = fmt.Sprintf("k%s,s,m%s,k%s,+", a, b, c), fmt.Sprintf("k%s,k%s,+", c, prod)
		case 10: // long chain, never normalised
			e1, e2 = fmt.Sprintf("k%s,d,d,k%s,+,d,k%s,-,n", a, b, c), fmt.Sprintf("k%s,k%s,m8,-,k%s,m2,-", c, a, b)
		default:
			e1, e2 = fmt.Sprintf("k%s,n,n", a), fmt.Sprintf("k%s,k%s,+,k%s,n,+", a, c, c)
		}
		if rng.Intn(3) == 0 { // DIFFERENT elements: off by one generator
			e2 += ",b,+"
		}
		emit("g1rep " + e1 + " " + e2)
		emit("g2rep " + e1 + " " + e2)
	}
	for i := 0; i < pick(16, 120); i++ {
		a, b, c := rng.Big(r), rng.Big(r), rng.Big(r)
		ac := new(big.Int).Add(a, c)
		ac.Mod(ac, r)
		ab := new(big.Int).Mul(a, b)
		ab.Mod(ab, r)
		bc := new(big.Int).Mul(b, c)
		bc.Mod(bc, r)
		var e1, e2 string
		switch i % 6 {
		case 0:
			e1, e2 = fmt.Sprintf("p%s:%s", a, b), fmt.Sprintf("k%s", ab)
		case 1:
			e1, e2 = fmt.Sprintf("p%s:%s,p%s:%s,+", a, b, c, b), fmt.Sprintf("p%s:%s", ac, b)
		case 2:
			e1, e2 = fmt.Sprintf("p%s:%s,n", a, b), fmt.Sprintf("p%s:%s", new(big.Int).Sub(r, a), b)
		case 3:
			e1, e2 = fmt.Sprintf("p%s:%s,m%s", a, b, c), fmt.Sprintf("p%s:%s", a, bc)
		case 4:
			e1, e2 = fmt.Sprintf("p%s:%s,c,p%s:%s,-", a, b, a, b), "o"
		default:
			e1, e2 = fmt.Sprintf("p%s:%s,p%s:%s,-", ac, b, c, b), fmt.Sprintf("p%s:%s,c", b, a)
		}
		if rng.Intn(3) == 0 {
			e2 += ",b,+"
		}
		emit("gtrep " + e1 + " " + e2)
	}

	// ---- 8. ONE shared object used by several goroutines at once (MarshalBinary / Equal / Pair) -------------
	for i := 0; i < pick(3, 12); i++ {
		a, b := rng.Big(r), rng.Big(r)
		n := []int{4, 8, 16}[rng.Intn(3)]
		rounds := pick(12, 40)
		emit(fmt.Sprintf("par g2 k%s,k%s,+ %d %d", a, b, n, rounds))
		emit(fmt.Sprintf("par g1 k%s,d,k%s,- %d %d", a, b, n, rounds))
		emit(fmt.Sprintf("par gt p%s:%s,p%s:%s,+ %d %d", a, b, b, a, n, pick(4, 12)))
	}
}

func min(a, b int) int {
	if a < b {
		return a
	}
	return b
}

// cubeRootOfUnity: ω ≠ 1 with ω³ = 1 in F_p (p ≡ 1 mod 3): (ωx, y) is on the curve / twist whenever (x, y) is
var omega = func() *big.Int {
	e := new(big.Int).Div(new(big.Int).Sub(bnref.P, big.NewInt(1)), big.NewInt(3))
	for g := int64(2); ; g++ {
		if w := new(big.Int).Exp(big.NewInt(g), e, bnref.P); w.Cmp(big.NewInt(1)) != 0 {
			return w
		}
	}
}()

// twistWithX: a point of the twist with the given x (either y), or false
func twistWithX(x bnref.F2, negY bool) (bnref.P2, bool) {
	rhs := bnref.F2Add(bnref.F2Mul(bnref.F2Mul(x, x), x), bnref.TwistB)
	y, ok := bnref.F2Sqrt(rhs)
	if !ok {
		return bnref.P2{}, false
	}
	if negY {
		y = bnref.F2Neg(y)
	}
	return bnref.P2{X: x, Y: y}, true
}

// genHistoriesC11: HISTORIES of calls in one process.
//   - decode histories (seeded C11f-2: the G2 subgroup check skipped when the first 32 bytes of x were seen in an
//     earlier successful decode): a valid decode first, then crafted RELATED encodings — same half-coordinate with
//     the other half changed (on the twist, outside the subgroup), same x with the other y / a wrong y, same y with
//     ωx, a shared prefix of 96 bytes — before and after the valid decode, into the same and into a fresh receiver,
//     through UnmarshalBinary and UnmarshalFrom; every decode is judged alone by the math/big reference;
//   - Equal histories (seeded C11f-1): identity operands after earlier comparisons of non-identity points.
func genHistoriesC11(thorough bool, rng *h.Rng, emit func(string)) {
	n2, n1 := 4, 4
	if thorough {
		n2, n1 = 30, 30
	}
	for i := 0; i < n2; i++ {
		k := rng.Big(bnref.Rn)
		if i == 0 {
			k = big.NewInt(1) // the generator: the key every node has seen
		}
		P := bnref.Mul2(k, bnref.G2Gen())
		E := bnref.Enc2(P)
		var crafted [][]byte
		// same x.im (bytes 1..32), other x.re: on the twist, outside the subgroup (about every second try has a root)
		for c := 0; c < 2; {
			if Q, ok := twistWithX(bnref.F2{Im: P.X.Im, Re: rng.Big(bnref.P)}, c == 1); ok {
				crafted = append(crafted, bnref.Enc2(Q))
				c++
			}
		}
		// same x.re (bytes 33..64), other x.im
		for c := 0; c < 1; {
			if Q, ok := twistWithX(bnref.F2{Im: rng.Big(bnref.P), Re: P.X.Re}, false); ok {
				crafted = append(crafted, bnref.Enc2(Q))
				c++
			}
		}
		// same x.im AND same y (bytes 65..128), other x.re: off the twist
		crafted = append(crafted, cat(E[:33], be32(rng.Big(bnref.P)), E[65:]))
		// same x: the other y (−P, valid), y+1 (off the twist), the halves of y swapped, 96 shared bytes
		crafted = append(crafted, bnref.Enc2(bnref.Neg2(P)))
		crafted = append(crafted, cat(E[:97], be32(bnref.Add(P.Y.Re, big.NewInt(1)))))
		crafted = append(crafted, cat(E[:65], E[97:129], E[65:97]))
		crafted = append(crafted, cat(E[:97], be32(rng.Big(bnref.P))))
		// same y, ωx and ω²x: on the twist (an endomorphism of the subgroup: valid)
		wx := bnref.F2{Im: bnref.Mul(P.X.Im, omega), Re: bnref.Mul(P.X.Re, omega)}
		crafted = append(crafted, bnref.Enc2(bnref.P2{X: wx, Y: P.Y}))
		// an outside-subgroup point PLUS P, and a random outside point (no relation): the controls
		crafted = append(crafted, bnref.Enc2(bnref.Add2(randTwistPoint(rng), P)))
		for j, Q := range crafted {
			if !thorough && i > 0 && j >= 3 && (i+j)%3 != 0 {
				continue
			}
			api := []string{"d", "f"}[(i+j)%2]
			// before the valid decode, the valid decode, after it (same receiver), a fresh receiver, the other API, again
			emit(fmt.Sprintf("seq g2 d%s,%s%s,d%s,r,d%s,f%s,d%s,d%s", h.Hex(Q), api, h.Hex(E), h.Hex(Q), h.Hex(Q), h.Hex(Q), h.Hex(E), h.Hex(Q)))
		}
		// all the crafted encodings one after the other behind ONE valid decode
		var all []string
		all = append(all, "d"+h.Hex(E))
		for _, Q := range crafted[:4] {
			all = append(all, "d"+h.Hex(Q))
		}
		emit("seq g2 " + strings.Join(all, ","))
	}
	for i := 0; i < n1; i++ {
		k := rng.Big(bnref.Rn)
		if i == 0 {
			k = big.NewInt(1)
		}
		P := bnref.Mul1(k, bnref.G1Gen())
		E := bnref.Enc1(P)
		crafted := [][]byte{
			bnref.Enc1(bnref.Neg1(P)),                         // same x, the other y: valid
			cat(E[:32], be32(bnref.Add(P.Y, big.NewInt(1)))),  // same x, wrong y
			cat(be32(bnref.Mul(P.X, omega)), E[32:]),          // ωx, same y: valid
			cat(be32(bnref.Add(P.X, big.NewInt(1))), E[32:]),  // x+1, same y: off the curve
			cat(E[:32], be32(rng.Big(bnref.P))),               // same x, random y
			cat(E[:32], be32(new(big.Int).Add(P.Y, bnref.P))), // same x, y+p: not canonical
		}
		for j, Q := range crafted {
			api := []string{"d", "f"}[(i+j)%2]
			emit(fmt.Sprintf("seq g1 d%s,%s%s,d%s,r,d%s,f%s", h.Hex(Q), api, h.Hex(E), h.Hex(Q), h.Hex(Q), h.Hex(Q)))
		}
	}
	// Equal histories: identity operands in every position after comparisons of non-identity points
	ne := 6
	if thorough {
		ne = 40
	}
	for _, g := range []string{"g1", "g2"} {
		for i := 0; i < ne; i++ {
			a, b := rng.Big(bnref.Rn), rng.Big(bnref.Rn)
			ab := new(big.Int).Add(a, b)
			idents := []string{"o", fmt.Sprintf("k%s,k%s,-", a, a), "k0", fmt.Sprintf("k%s", bnref.Rn), fmt.Sprintf("k%s,m0", a), "o,c", "b,b,n,+"}
			pick := func() string { return idents[rng.Intn(len(idents))] }
			A, B, S := "k"+a.String(), "k"+b.String(), fmt.Sprintf("k%s,k%s,+", a, b)
			hist := []string{
				A + "=" + B, pick() + "=" + pick(), A + "=" + A, pick() + "=" + A, B + "=" + pick(),
				S + "=k" + ab.String(), pick() + "=" + pick(), B + "=" + B, pick() + "=" + B, "o=" + pick(), A + "=" + pick(), pick() + "=o",
			}
			if i%2 == 1 { // a random order
				for j := len(hist) - 1; j > 0; j-- {
					k := rng.Intn(j + 1)
					hist[j], hist[k] = hist[k], hist[j]
				}
			}
			emit(fmt.Sprintf("eqh %s %s", g, strings.Join(hist, ";")))
		}
	}
}

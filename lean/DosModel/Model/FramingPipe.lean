/-
Round 5 extension of the framing model (`Model/Framing.lean`):

* `writeLoopX` — the loop of `writeTo` over a transport whose every `Write` is scripted: it accepts
  `k` bytes and returns a nil error (`k = 0`: the `Write` that returns `0, nil`; `k < len(p)`: a short
  write with a nil error, outside the `io.Writer` contract but handled by the loop), or accepts `k`
  bytes and returns an error;
* `sendPipe` / `readPipe` — the two loops of `p2p/client.go` that call `writeTo` / `readFrom`:
  `sendPipe` reports a failed `writeTo` and CONTINUES with the next frame; `readPipe` reports a failed
  `readFrom` and returns (the connection is never read again);
* `readFrameW` — `readFrom` with the width of Go's `int` explicit (`size` is a `uint32`; the content
  loop compares against `int(size)`, 32 bits on GOARCH=386);
* two writers on one connection (`mergeWrites`): what the wire carries when two goroutines call
  `writeTo` on the same connection and the transport takes their `Write`s in a given order.
Core Lean only (the driver links it).
-/
import DosModel.Model.Framing

namespace Dos.Framing
open Dos

/-- what one `conn.Write(buf)` does -/
inductive WAct where
  | acc (k : Nat)     -- returns `(min k |buf|, nil)`
  | fail (k : Nat)    -- returns `(min k |buf|, err)`
  deriving Repr, DecidableEq

structure WLoop where
  pieces : List Bytes      -- what the transport accepted, one entry per `Write` call
  err    : Bool            -- the loop ended with `err != nil`
  rest   : List WAct       -- the transport's script after the loop
  deriving Repr

/-- `for total < len(bytes) && err == nil { n, err = conn.Write(bytes[total:]); if err != nil { return }; total += n }`
One recursion step = one `Write`. An exhausted script = a transport that takes everything at once. -/
def writeLoopX : Bytes → List WAct → WLoop
  | bs, [] => if bs.isEmpty then ⟨[], false, []⟩ else ⟨[bs], false, []⟩
  | bs, a :: as =>
    if bs.isEmpty then ⟨[], false, a :: as⟩
    else match a with
      | .acc k =>
        let r := writeLoopX (bs.drop k) as
        ⟨bs.take k :: r.pieces, r.err, r.rest⟩
      | .fail k => ⟨[bs.take k], true, as⟩

/-- `writeTo` over a scripted transport: `none` = refused before any `Write` -/
def writeFrameX (limit : Nat) (p : Bytes) (as : List WAct) : Option WLoop :=
  match writeFrame limit p with
  | none => none
  | some s => some (writeLoopX s as)

/-- The `sendPipe` loop: one `writeTo` per payload, in order, on ONE connection; an error is reported and the
loop goes on with the next payload. `sticky`: a failed `Write` is final — every later `Write` of the
connection returns `(0, err)` (TCP without a write deadline); `broken`: that has happened.
Result: the pieces the transport accepted, and for each payload whether its `writeTo` returned an error. -/
def sendPipe (limit : Nat) (sticky : Bool) : Bool → List Bytes → List WAct → List Bytes × List Bool
  | _, [], _ => ([], [])
  | broken, p :: ps, as =>
    match writeFrame limit p with
    | none =>
      let r := sendPipe limit sticky broken ps as
      (r.1, true :: r.2)
    | some s =>
      if broken then
        let r := sendPipe limit sticky true ps as
        (r.1, true :: r.2)
      else
        let w := writeLoopX s as
        let r := sendPipe limit sticky (w.err && sticky) ps w.rest
        (w.pieces ++ r.1, w.err :: r.2)

/-- The `readPipe` loop: `readFrom` until the first error, then return (`defer close(out)`): the
connection is not read again. Every accepted frame consumes at least five bytes, so
`|stream| + 1` iterations always reach the error. -/
def readPipe (limit : Nat) (cs : List Bytes) : List (Except Err Bytes) × List Bytes :=
  readFrames limit (cs.flatten.length + 1) cs

/-! ### the width of `int` -/

/-- `int(x)` for `x : uint32` on a platform whose `int` has `w` bits (two's complement) -/
def intOfU32 (w : Nat) (x : BitVec 32) : Int := (x.setWidth w).toInt

/-- `readFrom` with the integer types of the code: `size` is the `uint32` decoded from the header, the
check `size > msgSizeLimit || size <= 0` is an unsigned comparison (the constant is converted to
`uint32`), `make([]byte, size)` has `size` bytes, and the content loop runs while
`totalContentBytesRead < int(size)` in `w`-bit signed arithmetic: with a negative `int(size)` it would
not run at all and the zero-filled buffer would be returned. -/
def readFrameW (w : Nat) (limit : Nat) (cs : List Bytes) : ReadResult :=
  match readN headerSize cs with
  | none => { out := .error .header, rest := [], req := headerSize }
  | some (h, cs1) =>
    let size : BitVec 32 := BitVec.ofNat 32 (beNat h)
    if size > BitVec.ofNat 32 limit ∨ size ≤ 0#32 then { out := .error .size, rest := cs1, req := headerSize }
    else
      let n : Int := intOfU32 w size
      match readN n.toNat cs1 with
      | none => { out := .error .body, rest := [], req := max headerSize size.toNat }
      | some (b, cs2) =>
        { out := .ok (b ++ List.replicate (size.toNat - b.length) 0), rest := cs2, req := max headerSize size.toNat }

/-! ### two goroutines calling `writeTo` on one connection -/

/-- the transport takes the writers' `Write` calls in the order `sch` (`true` = writer A); a token of a
writer that has nothing left is skipped; what is left when `sch` ends goes out A first -/
def mergeWrites : List Bool → List Bytes → List Bytes → List Bytes
  | [], a, b => a ++ b
  | true :: sch, x :: a, b => x :: mergeWrites sch a b
  | true :: sch, [], b => mergeWrites sch [] b
  | false :: sch, a, y :: b => y :: mergeWrites sch a b
  | false :: sch, a, [] => mergeWrites sch a []

/-! ### driver -/

def parseWAct (s : String) : Option WAct :=
  match s.toList with
  | 'e' :: ds => (String.ofList ds).toNat?.map WAct.fail
  | _ => s.toNat?.map WAct.acc

def parseScript (s : String) : Option (List WAct) :=
  if s == "-" then some [] else (s.splitOn ",").mapM parseWAct

/-- payload token: hex, `-` (empty) or `z<n>` (n zero bytes) -/
def parsePayload (s : String) : Option Bytes :=
  match s.toList with
  | 'z' :: ds => (String.ofList ds).toNat?.map (fun n => List.replicate n 0)
  | _ => ofHex s

def showFrames (rs : List (Except Err Bytes)) : String :=
  String.intercalate ";" (rs.map (fun r => match r with
    | .ok b => "ok:" ++ toHex b
    | .error e => "err:" ++ errName e))

def stepX (limit : Nat) (line : String) : String :=
  match words line with
  | ["wrx", n, a, b, script] =>
    match n.toNat?, a.toNat?, b.toNat?, parseScript script with
    | some n, some a, some b, some as =>
      match writeFrameX limit (synPayload n a b) as with
      | none => "err oversize"
      | some w =>
        let s := w.pieces.flatten
        if w.err then s!"err write len={s.length} adler={adler32 s} calls={w.pieces.length}"
        else s!"ok len={s.length} adler={adler32 s} hdr={toHex (s.take 4)} calls={w.pieces.length}"
    | _, _, _, _ => "bad-op"
  | ["pipe", sticky, payloads, script, sizes] =>
    match (payloads.splitOn ";").mapM parsePayload, parseScript script, csvNat sizes with
    | some ps, some as, some sz =>
      let (pieces, errs) := sendPipe limit (sticky == "1") false ps as
      let wire := pieces.flatten
      let sent := String.ofList (errs.map (fun e => if e then 'e' else 'o'))
      let (rs, _) := readPipe limit (chunkBy (2 * wire.length + 2) sz sz wire)
      s!"sent={sent} wire={wire.length}:{adler32 wire} got={showFrames rs}"
    | _, _, _ => "bad-op"
  | ["rpipe", hs, sizes] =>
    -- the real `readPipe` on an arbitrary stream
    match ofHex hs, csvNat sizes with
    | some bs, some sz =>
      let (rs, _) := readPipe limit (chunkBy (2 * bs.length + 2) sz sz bs)
      s!"got={showFrames rs}"
    | _, _ => "bad-op"
  | ["wr2", pa, pb, ka, kb, order] =>
    match ofHex pa, ofHex pb, csvNat ka, csvNat kb with
    | some pa, some pb, some ka, some kb =>
      match writeFrameX limit pa (ka.map .acc), writeFrameX limit pb (kb.map .acc) with
      | some wa, some wb =>
        let wire := (mergeWrites (order.toList.map (fun c => c == 'a')) wa.pieces wb.pieces).flatten
        let (rs, rest) := readFrames limit 2 [wire]
        s!"wire={toHex wire} read={showFrames rs} rest={toHex rest.flatten}"
      | _, _ => "err oversize"
    | _, _, _, _ => "bad-op"
  | ["rdzm", hs, sizes] =>
    -- `rdz` through the step machine (one `conn.Read` per step, zero-byte Reads included)
    match ofHex hs, csvNat sizes with
    | some bs, some sz =>
      let cs := chunkByZ ((bs.length + 2) * (sz.length + 2)) sz sz bs
      match readerResult (iterReader limit (2 * cs.length + 8) (initReader cs)) with
      | some r => showRead false r
      | none => "machine-not-finished"
    | _, _ => "bad-op"
  | _ => step limit line

end Dos.Framing

import DosModel.Model.P2PSym
import DosModel.Gen.P2PFlow
def main : IO Unit :=
  Dos.lineLoop (Dos.P2PSym.driverStep Dos.Gen.decodeChecksAnything Dos.Gen.runKeepsDrainingErrors)

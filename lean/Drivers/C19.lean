import DosModel.Model.ReqLoop
import DosModel.Model.Keccak
import DosModel.Model.CallData
/-!
Line-protocol driver for C19 (see go/props/c19/c19.go for the grammar).

  hr <o1,o2,…>                                   handleReq alone (hook), outcomes acc|closed|nonce|revert|funds|other|done|op
  seq <gasLimit> <gasPrice> <chainId> <call>…    real adaptor, each call = name/args/outcomes
  grp <n> <gid>                                  completed key generation of n real pdkg → real registerGroup stage → adaptor
  cc <k> <n0>                                    k concurrent calls on one adaptor: the nonces the endpoint accepted
  sig <sighex>                                   Signature.ToBigInt
  pk <marshalled G2 hex>                         decodePubKey
  sel                                            selectors of the ten queue methods (model signature, Lean Keccak)
  dec <method> <hex>                             go-ethereum's decoder on arbitrary argument bytes (model: Abi.unpack)

Every transaction of a `seq` line carries `data=`: the call data the MODEL predicts (`CallData.Call.data`:
selector by the Lean Keccak-256 ++ `Abi.encodeRaw`), compared byte for byte with `tx.Data()` of the raw
transaction the real adaptor handed to the endpoint.
-/
namespace Dos.C19Drv
open Dos Dos.ReqLoop Dos.Abi Dos.CallData

def synPayload (n a b : Nat) : Bytes :=
  (List.range n).map (fun i => UInt8.ofNat ((a * i + b) % 256))

def parseContent (s : String) : Option Bytes :=
  match s.splitOn "." with
  | ["syn", n, a, b] => do
    let n ← n.toNat?
    let a ← a.toNat?
    let b ← b.toNat?
    pure (synPayload n a b)
  | _ => ofHex s

/-- full-stack outcome token → (model outcome, does the raw transaction reach the endpoint) -/
def parseFs : String → Option (Outcome × Bool)
  | "acc" => some (.accept, true)
  | "conn" => some (.nonceErr, false)      -- connection dropped at the first RPC (account nonce)
  | "nonce" => some (.nonceErr, false)
  | "revert" => some (.revert, true)
  | "funds" => some (.insufficient, true)
  | "other" => some (.otherErr, true)
  | "closed" => some (.closedConn, true)
  | "hdr" => some (.otherErr, false)       -- error at eth_getBlockByNumber
  | "connsend" => some (.otherErr, false)  -- connection dropped at eth_sendRawTransaction
  | "lost" => some (.otherErr, true)       -- `acceptedReplyLost`: processed and accepted, connection cut before the reply
  | _ => none

def mod256 (v : Nat) : Nat := v % 2 ^ 256

def parseCall (name args : String) : Option Call :=
  let a := args.splitOn ";"
  match name, a with
  | "sg", [g] => do pure (.setGroupSize (← g.toNat?))
  | "ur", [sig] => do pure (.updateRandomness (← ofHex sig))
  | "dr", [sig, rid, idx, content] => do
    pure (.dataReturn (← ofHex sig) (← ofHex rid) (← idx.toNat?) (← parseContent content))
  | "rg", [d0, d1, d2, d3, d4] => do
    pure (.registerGroupPubKey (← d0.toNat?) (← d1.toNat?) (← d2.toNat?) (← d3.toNat?) (← d4.toNat?))
  | "rn", ["-"] => pure .registerNewNode
  | "un", ["-"] => pure .unRegisterNode
  | "su", [addr] => do
    let b ← ofHex addr
    if b.length ≠ 20 then none else pure (.signalUnregister b)
  | "sc", [a, b, c, d] => do
    pure (.startCommitReveal (← parseInt a) (← parseInt b) (← parseInt c) (← parseInt d))
  | "cm", [cid, h] => do
    let b ← ofHex h
    if b.length ≠ 32 then none else pure (.commit (← cid.toNat?) b)
  | "rv", [cid, sec] => do pure (.reveal (← cid.toNat?) (← sec.toNat?))
  | _, _ => none

/-- the decoded-argument rendering (as the harness prints what go-ethereum's decoder returns) -/
def showArg : AbiVal → String
  | .elem (.num v) => toString (mod256 v)
  | .elem (.fixed b) => toHex b
  | .arr l => String.intercalate "," (l.map (fun v => match v with | .num v => toString (mod256 v) | .fixed b => toHex b))
  | .blob c => s!"{c.length}:{adler32 c}"

/-- canonical contract + method + argument + call data rendering of one call -/
def renderCall (name args : String) : Option String := do
  let c ← parseCall name args
  let m := c.method
  let to := if m.contract == .proxy then "proxy" else "cr"
  let shown := c.args.map showArg
  let argText := match c, shown with
    | .signalUnregister addr, _ => toHex addr
    | _, [] => "-"
    | _, l => String.intercalate "," l
  pure s!"to={to} m={m.name} args={argText} data={dataText (c.data Keccak.keccak256)}"

def seqStep (cfg : Config) : List Nat → List EndpointView → List String → Option (List String)
  | _, _, [] => some []
  | dead, views, c :: rest =>
    match c.splitOn "/" with
    | [name, args, outs] => do
      let fs ← (outs.splitOn ",").mapM parseFs
      let os := fs.map (·.1)
      let (r, dead') := call true dead os
      let raw := r.contacted.filter (fun i => match fs[i]? with | some (_, b) => b | none => false)
      let cl ← parseCall name args
      let body ← renderCall name args
      let txs := raw.filterMap (fun i => (views[i]?).map (fun v =>
        let e := envelope cl.method cfg v
        s!"{i}:{body} nonce={e.nonce} gas={e.gas} price={e.price} chain={e.chainId} from=key"
          ++ (if e.value = 0 then "" else s!" value={e.value}")))
      let line := s!"err={callErrName r.err} contacted={natsCsv r.contacted} raw={natsCsv raw} tx={if txs.isEmpty then "-" else String.intercalate ";" txs}"
      -- an endpoint that accepted the transaction counts it as pending from now on
      let views' := match acceptedBy r os with
        | some i => bumpNonce views i
        | none => views
      -- … and so does one that accepted it although its reply was lost (`takenBy`)
      let toks := outs.splitOn ","
      let views' := (r.contacted.filter (fun i => toks[i]? == some "lost")).foldl bumpNonce views'
      let more ← seqStep cfg dead' views' rest
      pure (line :: more)
    | _ => none

/-- the endpoints as the harness places them: endpoint `i` reports pending nonce `7 + i` and suggests price `2·10^9 + i` -/
def startViews (k : Nat) : List EndpointView :=
  (List.range k).map (fun i => { pendingNonce := 7 + i, suggestedPrice := 2000000000 + i })

/-- `cfg` lines: a history of setters, reconnects and calls (RegisterNewNode) on one adaptor -/
def cfgStep : Adaptor → List String → Option (List String)
  | _, [] => some []
  | a, tok :: rest =>
    match tok.splitOn ":" with
    | ["gp", v] => do cfgStep (a.setGasPrice (← v.toNat?)) rest
    | ["gl", v] => do cfgStep (a.setGasLimit (← v.toNat?)) rest
    | ["re"] => cfgStep a.reconnect rest
    | ["tx", outs] => do
      let fs ← (outs.splitOn ",").mapM parseFs
      let (r, dead') := call true a.dead (fs.map (·.1))
      let raw := r.contacted.filter (fun i => match fs[i]? with | some (_, b) => b | none => false)
      let txs := raw.map (fun i =>
        s!"{i}:nonce={7 + i} gas={a.session.gasLimit} price={if a.session.gasPrice = 0 then 2000000000 + i else a.session.gasPrice} chain={a.session.chainId} from=key")
      let line := s!"err={callErrName r.err} contacted={natsCsv r.contacted} raw={natsCsv raw} tx={if txs.isEmpty then "-" else String.intercalate ";" txs}"
      let more ← cfgStep { a with dead := dead' } rest
      pure (line :: more)
    | _ => none

def step (line : String) : String :=
  match words line with
  | ["hr", os] =>
    match parseOutcomes os with
    | some os => showResult (run os)
    | none => "bad-op"
  | "seq" :: gl :: gp :: cid :: calls =>
    match gl.toNat?, gp.toNat?, cid.toNat? with
    | some gl, some gp, some cid =>
      match seqStep ⟨gl, gp, cid⟩ [] (startViews 8) calls with
      | some ls => String.intercalate " | " ls
      | none => "bad-op"
    | _, _, _ => "bad-op"
  | "cfg" :: gl :: gp :: cid :: ops =>
    match gl.toNat?, gp.toNat?, cid.toNat? with
    | some gl, some gp, some cid =>
      match cfgStep (Adaptor.start ⟨gl, gp, cid⟩) ops with
      | some ls => String.intercalate " | " ls
      | none => "bad-op"
    | _, _, _ => "bad-op"
  | ["cr", seed, cid] =>
    match seed.toNat?, cid.toNat? with
    | some seed, some cid =>
      -- the secret is drawn inside handleCR; with randSeed = 1 it is 0 and the commitment is determined
      let extra := if seed = 1 then " commitment=" ++ toHex (crCommitment Keccak.keccak256 0) else ""
      s!"txs=commit,reveal cid={cid % 2 ^ 256},{cid % 2 ^ 256} match=true" ++ extra
    | _, _ => "bad-op"
  | ["race", n] =>
    match n.toNat? with
    | some n =>
      -- A fails with a nonce error on every endpoint (each is cancelled); B already passed the
      -- isConnecting check, so it goes straight to handleReq with every endpoint context done
      let (a, dead) := call true [] (List.replicate n .nonceErr)
      let b := handleReq true (overlay dead (List.replicate n .accept))
      let be := match b.reply with
        | none => some CallErr.opCtx
        | some rep => rep.err.map CallErr.req
      s!"A={callErrName a.err} B={callErrName be} sent=0"
    | none => "bad-op"
  | ["sel"] =>
    String.intercalate " " (queueMethods.map (fun m => m.name ++ "=" ++ toHex (selector Keccak.keccak256 m.name m.types)))
  | ["sig", s] =>
    match ofHex s with
    | some b =>
      let (x, y) := toBigInt b
      s!"ok {x} {y}"
    | none => "bad-op"
  | ["grp", _, gid] =>
    -- a completed key generation, real registerGroup stage, real adaptor: ONE registerGroupPubKey transaction carrying the
    -- group id; the key itself is random — judged by the harness' oracle (sk·G2 from the members' shares)
    match gid.toNat? with
    | some g => s!"err=nil txs=1 m=registerGroupPubKey id={g} key=sk*G2"
    | none => "bad-op"
  | ["rgk", k] =>
    -- a group key chosen for the byte pattern of its encoding, decodePubKey → real registerGroup → adaptor: one transaction
    -- with the id; the four words are judged by the oracle (go-ethereum bn256 encoding of k·G2)
    match k.toNat? with
    | some k => s!"err=false txs=1 id={k % 2 ^ 256}"
    | none => "bad-op"
  | ["cc", k, n0] =>
    -- k concurrent callers, one endpoint that accepts everything: the queue serialises the requests, so the accepted
    -- nonces are those of the sequential history (`accepted_nonces_consecutive`): n0, n0+1, …
    match k.toNat?, n0.toNat? with
    | some k, some n0 => s!"nonces={natsCsv ((List.range k).map (· + n0))} errs=0"
    | _, _ => "bad-op"
  | "pk" :: s :: _ =>
    match ofHex s with
    | some b =>
      match decodePubKey b with
      | some v => "ok " ++ String.intercalate " " (v.map toString)
      | none => "err"      -- shorter than 129 bytes (the point at infinity marshals to ONE byte): an error since /repo ae5b22f
    | none => "bad-op"
  | _ => "bad-op"

end Dos.C19Drv

def main : IO Unit := Dos.lineLoop Dos.C19Drv.step

/-
The secure channel ACROSS connections: the connection-table model (`Model/ConnTable.lean`: which
connections exist, their session and signing keys, which end is still running) together with the
symbolic receiving pipeline (`Model/P2PSym.lean`) of every end of every connection.

`pack c atD …`  the end `atD` of connection `c` packs a message (signed with that end's key on that
                connection, sealed under that connection's session key); the frame is on record;
`wire c atD f`  frame `f` arrives at the end `atD` of connection `c` — put there by the network or
                by a man in the middle.

What the man in the middle may put on ANY connection (`AdvCan`): every frame that either end of
ANY connection — past or present — ever packed (recorded on one connection, injected into
another, in either direction), byte strings that are no Seal output, damaged framing, and frames
sealed under keys that are no connection's session key.  Core Lean only.
-/
import DosModel.Model.ConnTableDrv
import DosModel.Model.P2PSym

namespace Dos.ConnSym
open Dos Dos.P2PSym

structure SNet where
  net  : ConnTable.Net := {}
  sent : Nat → Bool → List Frame := fun _ _ => []     -- (connection, end: true = dialler) ↦ what that end packed
  rs   : Nat → Bool → RState := fun _ _ => {}         -- the receiving pipeline of that end

inductive SEv
  | tbl (e : ConnTable.Ev)
  | pack (c : Nat) (atD : Bool) (m : Msg) (nonce : Nat) (reply : Bool)
  | wire (c : Nat) (atD : Bool) (f : Frame)

/-- the signing key of one end of a connection -/
def skOf (x : ConnTable.Conn) (atD : Bool) : Nat := if atD then x.skD else x.skA

/-- the receiving end's view of its connection: session key, the key the OTHER end presented, its own -/
def view (checkAny drains : Bool) (x : ConnTable.Conn) (atD : Bool) : P2PSym.Conn :=
  { k := x.key, pk := skOf x (!atD), self := skOf x atD, known := knownType, checkAny := checkAny, drains := drains }

/-- that end exists and its pipeline runs -/
def live (x : ConnTable.Conn) (atD : Bool) : Bool := if atD then !x.clD else x.regA && !x.clA

def upd2 {α : Type} (f : Nat → Bool → α) (c : Nat) (d : Bool) (v : α) : Nat → Bool → α :=
  fun c' d' => if c' = c ∧ d' = d then v else f c' d'

def sstep (cfg : ConnTable.Cfg) (checkAny drains : Bool) (s : SNet) : SEv → SNet
  | .tbl e => { s with net := ConnTable.step cfg s.net e }
  | .pack c atD m nonce reply =>
    if c < s.net.nconn then
      let x := s.net.conns c
      { s with sent := upd2 s.sent c atD (s.sent c atD ++ [pack (skOf x atD) x.key [] m nonce reply]) }
    else s
  | .wire c atD f =>
    if c < s.net.nconn ∧ live (s.net.conns c) atD = true then
      { s with rs := upd2 s.rs c atD (rstep (view checkAny drains (s.net.conns c) atD) (s.rs c atD) f) }
    else s

def srun (cfg : ConnTable.Cfg) (checkAny drains : Bool) (s : SNet) (evs : List SEv) : SNet :=
  evs.foldl (sstep cfg checkAny drains) s

/-- what a man in the middle without any session or signing key can put on a wire, in state `s` -/
inductive AdvCan (s : SNet) : Frame → Prop
  | seen {f : Frame} (c : Nat) (d : Bool) : c < s.net.nconn → f ∈ s.sent c d → AdvCan s f
  | raw (n : Nat) : AdvCan s (.raw n)
  | broken : AdvCan s .broken
  | foreign {k : Nat} {pt : Plain} : (∀ c, c < s.net.nconn → k ≠ (s.net.conns c).key) → AdvCan s (.sealed k pt)

/-- every frame that arrives anywhere in the history is one the man in the middle could put there at that moment -/
def Valid (cfg : ConnTable.Cfg) (checkAny drains : Bool) : SNet → List SEv → Prop
  | _, [] => True
  | s, e :: es =>
    (match e with
     | .wire _ _ f => AdvCan s f
     | _ => True) ∧ Valid cfg checkAny drains (sstep cfg checkAny drains s e) es

/-! ### driver: `hist <script>` of go/props/c16 — node A (0) sends to node B (1) through a recording proxy -/

structure HSt where
  s     : SNet := {}
  fwd   : List (Nat × Frame) := []    -- recorded A→B frames: (connection, frame)
  back  : List (Nat × Frame) := []    -- recorded B→A frames
  res   : List String := []
  nmsg  : Nat := 0
  outB  : List Delivery := []         -- what B's subscribers got, in order (all incarnations)
  nA    : Nat := 0                    -- what A's subscribers got

def np : Nat := 1

def curConn (n : ConnTable.Net) : Option Nat :=
  if n.nconn = 0 then none else
  let c := n.nconn - 1
  if (n.conns c).up then some c else none

structure Env where
  cfg      : ConnTable.Cfg
  checkAny : Bool
  drains   : Bool

def Env.step (E : Env) (s : SNet) (e : SEv) : SNet := sstep E.cfg E.checkAny E.drains s e

def drainBoth (E : Env) (s : SNet) : SNet :=
  { s with net := ConnTable.drainAll E.cfg s.net np }

/-- frame `f` arrives at end `atD` of `c`; a first rejected frame makes `client.run` return there -/
def arrive (E : Env) (st : HSt) (c : Nat) (atD : Bool) (f : Frame) : HSt :=
  let before := st.s.rs c atD
  let s1 := E.step st.s (.wire c atD f)
  let after := s1.rs c atD
  let new := after.out.drop before.out.length
  let s2 := if before.errs = 0 ∧ after.errs > 0 then drainBoth E (E.step s1 (.tbl (.reject c atD))) else s1
  if atD then { st with s := s2, nA := st.nA + (new.filter (fun d => d.reply = false)).length }
  else { st with s := s2, outB := st.outB ++ new }

/-- A sends message `i` of type `t`: Request, B's application answers at once -/
def sendMsg (E : Env) (st : HSt) (t : Nat) : HSt :=
  let i := st.nmsg
  let g := st.s.net.nreq
  let s1 := E.step st.s (.tbl (.request 0 1 (some 1)))
  let st1 := { st with s := drainBoth E s1, nmsg := i + 1 }
  let r := st1.s.net.reqs g
  -- the frame leaves A only if dispatch registered the request on a connection whose wire is up
  match r.conn with
  | none => { st1 with res := st1.res ++ ["err"], s := E.step st1.s (.tbl (.expire g)) }
  | some c =>
    if (st1.s.net.conns c).reqQ.isEmpty then
      { st1 with res := st1.res ++ ["err"], s := E.step st1.s (.tbl (.expire g)) } else
    let x := st1.s.net.conns c
    let f := pack (skOf x true) x.key [] (msgOf i t) i false
    let s2 := E.step (E.step st1.s (.pack c true (msgOf i t) i false)) (.tbl (.deliverReq c))
    let st2 := arrive E { st1 with s := s2, fwd := st1.fwd ++ [(c, f)] } c false f
    -- B's application has the message iff its pipeline delivered it; it answers with Reply(sender, nonce, Pong{i})
    let delivered := st2.outB.length > st1.outB.length
    match ConnTable.heldIdx st2.s.net 1 g with
    | none => { st2 with res := st2.res ++ ["err"], s := E.step st2.s (.tbl (.expire g)) }
    | some k =>
      if !delivered then { st2 with res := st2.res ++ ["err"], s := E.step st2.s (.tbl (.expire g)) } else
      let s3 := E.step st2.s (.tbl (.appReply 1 k))
      -- where did the reply go?
      match (List.range s3.net.nconn).find? (fun c' => !(s3.net.conns c').repQ.isEmpty) with
      | none => { st2 with s := E.step s3 (.tbl (.expire g)), res := st2.res ++ ["err"] }
      | some c' =>
        let y := s3.net.conns c'
        let rf := pack (skOf y false) y.key [] { typ := 1, value := natBE 4 i } i true
        let s4 := E.step s3 (.pack c' false { typ := 1, value := natBE 4 i } i true)
        let st4 := arrive E { st2 with s := s4, back := st2.back ++ [(c', rf)] } c' true rf
        let okFrame := (st4.s.rs c' true).out.length > (s4.rs c' true).out.length
        let s5 := if okFrame then E.step st4.s (.tbl (.deliverReply c'))
                  else { st4.s with net := st4.s.net.setConn c' (fun y => { y with repQ := [] }) }
        let s6 := E.step s5 (.tbl (.expire g))
        let o := match (s6.net.reqs g).out with
          | .got m => if m = g then "ok" else s!"wrong:{m}"
          | _ => "err"
        { st4 with s := s6, res := st4.res ++ [o] }

def cutAll (E : Env) (s : SNet) : SNet :=
  drainBoth E ((List.range s.net.nconn).foldl (fun s c => E.step s (.tbl (.cut c))) s)

def histOp (E : Env) (st : HSt) (op : String) : Option HSt :=
  let kind := (op.take 1).toString
  let args := ((op.drop 1).toString.splitOn ":").filterMap String.toNat?
  match kind with
  | "s" => some (sendMsg E st (args.getD 0 0))
  | "c" => match curConn st.s.net with
    | some c => some { st with s := drainBoth E (E.step st.s (.tbl (.cut c))) }
    | none => some st
  | "j" => match st.fwd[args.getD 0 0]?, curConn st.s.net with      -- a recorded A→B frame, to B
    | some (_, f), some c => some (arrive E st c false f)
    | _, _ => some st
  | "b" => match st.back[args.getD 0 0]?, curConn st.s.net with     -- a recorded B→A frame, to A
    | some (_, f), some c => some (arrive E st c true f)
    | _, _ => some st
  | "r" => match st.fwd[args.getD 0 0]?, curConn st.s.net with      -- a recorded A→B frame reflected to A
    | some (_, f), some c => some (arrive E st c true f)
    | _, _ => some st
  | "v" => match st.back[args.getD 0 0]?, curConn st.s.net with     -- a recorded B→A frame reflected to B
    | some (_, f), some c => some (arrive E st c false f)
    | _, _ => some st
  | "x" => some { st with s := drainBoth E (E.step (cutAll E st.s) (.tbl (.reset 0))) }
  | "y" => some { st with s := drainBoth E (E.step (cutAll E st.s) (.tbl (.reset 1))) }
  | _ => none

def showB (ds : List Delivery) : String :=
  String.intercalate " " ((List.range nTypes).map fun t =>
    let ids := (toSubscriber t ds).map fun d => toString (beNat d.value)
    s!"t{t}=" ++ (if ids.isEmpty then "-" else String.intercalate "," ids))

def stepHist (E : Env) (script : String) : String :=
  let ops := if script == "-" then [] else script.splitOn ","
  match ops.foldl (fun (acc : Option HSt) op => acc.bind fun st => histOp E st op) (some {}) with
  | none => "bad-op"
  | some st =>
    -- the sentinel: the connection is cut, and one more Ping must come out at B over a new one
    let st0 := { st with s := cutAll E st.s }
    let st' := sendMsg E st0 0
    let res := if st.res.isEmpty then "-" else String.intercalate "," st.res
    s!"{showB st'.outB} a={st'.nA} res={res} conns={st'.s.net.nconn} alive=yes"

end Dos.ConnSym

/-
C10 — tower fields (layer 4), the hypotheses of `C10Tower.gfP6_invert` / `gfP12_invert` discharged over
the prime field F_p = ZMod Bn256.p of alt_bn128: ξ = i + 9 is neither a square nor a cube in
F_p² (norm to F_p is 82, Euler's criterion evaluated by the kernel with the verified `powMod`), hence the
norm x³ξ² + y³ξ + z³ − 3ξxyz that gfP6.Invert inverts is non-zero for every non-zero element of gfP6, τ is
not a square in gfP6, and the norm y² − τx² that gfP12.Invert inverts is non-zero for every non-zero
element of gfP12. Consequently `Fp6.invert` / `Fp12.invert` (the transcribed Go methods) are two-sided
inverses of EVERY non-zero element and the transcribed operations make `Fp6 (ZMod p)`, `Fp12 (ZMod p)` fields.
The same on the IMPLEMENTED representation (reduced Montgomery values, the types the driver runs):
`gfP6_invert_implemented`, `gfP12_invert_implemented`.
Only theorems; lemmas in Proofs/Bn256TowerField{2,6,12,Concrete}.lean.
-/
import DosModel.Proofs.Bn256TowerFieldConcrete

namespace Dos.Props.C10TowerField
open Dos.Bn256

/-- ξ = i + 9 = ⟨1, 9⟩ is neither a square nor a cube in F_p² -/
theorem xi_not_square_not_cube (c : Fp2 (ZMod Bn256.p)) :
    Fp2.mul c c ≠ ⟨1, 9⟩ ∧ Fp2.mul (Fp2.mul c c) c ≠ ⟨1, 9⟩ :=
  ⟨TowerField.xi_not_square c, TowerField.xi_not_cube c⟩

/-- non-vacuity: ξ is a non-zero element (so the statement is not about a degenerate constant),
and squares / cubes different from ξ do occur -/
example : (⟨1, 9⟩ : Fp2 (ZMod Bn256.p)) ≠ Fp2.zero := by
  intro h
  exact one_ne_zero (congrArg Fp2.x h)
example : Fp2.mul (⟨0, 3⟩ : Fp2 (ZMod Bn256.p)) ⟨0, 3⟩ = ⟨0, 9⟩ := by
  refine Fp2.ext' ?_ ?_ <;> simp only [Fp2.mul] <;> norm_num

/-- τ = ⟨0, 1, 0⟩ is not a square in gfP6 over F_p -/
theorem tau_not_square (c : Fp6 (ZMod Bn256.p)) : Fp6.mul c c ≠ ⟨0, 1, 0⟩ :=
  TowerField.tau_not_square c

example : Fp6.mul (⟨0, 1, 0⟩ : Fp6 (ZMod Bn256.p)) ⟨0, 1, 0⟩ = ⟨1, 0, 0⟩ := by
  rw [Fp6.mul_eq_spec]
  refine Fp6.ext' ?_ ?_ ?_ <;> simp only [Fp6.mulSpec] <;> ring

/-- **gfP6 over F_p is a field**: for every a ≠ 0 the norm F(a) inverted by gfP6.Invert is non-zero, the gfP2
inversion of it succeeds (the hypothesis `hF` of `C10Tower.gfP6_invert`), and Invert(a) is a two-sided inverse;
Invert(0) = 0; the transcribed operations are those of a `Field` instance. -/
theorem gfP6_over_Fp_is_field :
    (∀ a : Fp6 (ZMod Bn256.p), a ≠ Fp6.zero →
      Fp6.normF a ≠ Fp2.zero ∧
      Fp2.mul (Fp6.normF a) (Fp2.invert (Fp6.normF a)) = Fp2.one ∧
      Fp6.mul a (Fp6.invert a) = Fp6.one ∧ Fp6.mul (Fp6.invert a) a = Fp6.one) ∧
    Fp6.invert (Fp6.zero : Fp6 (ZMod Bn256.p)) = Fp6.zero ∧
    ∃ inst : Field (Fp6 (ZMod Bn256.p)),
      (∀ a b, inst.add a b = Fp6.add a b) ∧ (∀ a b, inst.mul a b = Fp6.mul a b) ∧
      (∀ a, inst.neg a = Fp6.neg a) ∧ (∀ a b, inst.sub a b = Fp6.sub a b) ∧
      inst.zero = Fp6.zero ∧ inst.one = Fp6.one ∧ (∀ a, inst.inv a = Fp6.invert a) := by
  refine ⟨fun a ha => ?_, TowerField.fp6_invert_zero,
    instFieldFp6, fun _ _ => rfl, fun _ _ => rfl, fun _ => rfl, fun _ _ => rfl, rfl, rfl, fun _ => rfl⟩
  have h := TowerField.fp6_invert_all a ha
  exact ⟨TowerField.normF_ne_zero a ha, fp2_invert_all _ (TowerField.normF_ne_zero a ha), h,
    (Fp6.mul_comm' _ _).trans h⟩

example : (⟨0, 1, 0⟩ : Fp6 (ZMod Bn256.p)) ≠ Fp6.zero := by
  intro h
  exact one_ne_zero (congrArg (fun a => a.y.y) h)

/-- **gfP12 over F_p is a field**: for every a ≠ 0 the norm y² − τx² handed to gfP6.Invert is non-zero, that
inversion succeeds (the hypothesis `hT` of `C10Tower.gfP12_invert`), and Invert(a) is a two-sided inverse;
Invert(0) = 0; the transcribed operations are those of a `Field` instance. -/
theorem gfP12_over_Fp_is_field :
    (∀ a : Fp12 (ZMod Bn256.p), a ≠ Fp12.zero →
      Fp12.normT a ≠ Fp6.zero ∧
      Fp6.mul (Fp12.normT a) (Fp6.invert (Fp12.normT a)) = Fp6.one ∧
      Fp12.mul a (Fp12.invert a) = Fp12.one ∧ Fp12.mul (Fp12.invert a) a = Fp12.one) ∧
    Fp12.invert (Fp12.zero : Fp12 (ZMod Bn256.p)) = Fp12.zero ∧
    ∃ inst : Field (Fp12 (ZMod Bn256.p)),
      (∀ a b, inst.add a b = Fp12.add a b) ∧ (∀ a b, inst.mul a b = Fp12.mul a b) ∧
      (∀ a, inst.neg a = Fp12.neg a) ∧ (∀ a b, inst.sub a b = Fp12.sub a b) ∧
      inst.zero = Fp12.zero ∧ inst.one = Fp12.one ∧ (∀ a, inst.inv a = Fp12.invert a) := by
  refine ⟨fun a ha => ?_, TowerField.fp12_invert_zero,
    instFieldFp12, fun _ _ => rfl, fun _ _ => rfl, fun _ => rfl, fun _ _ => rfl, rfl, rfl, fun _ => rfl⟩
  have h := TowerField.fp12_invert_all a ha
  exact ⟨TowerField.normT_ne_zero a ha, TowerField.fp6_invert_all _ (TowerField.normT_ne_zero a ha), h,
    (Fp12.mul_comm' _ _).trans h⟩

example : (⟨⟨0, 0, 1⟩, 0⟩ : Fp12 (ZMod Bn256.p)) ≠ Fp12.zero := by
  intro h
  exact one_ne_zero (congrArg (fun a => a.x.z.y) h)

/-- `C10Tower.gfP6_invert` without its hypothesis, for α = F_p -/
theorem gfP6_invert_Fp (a : Fp6 (ZMod Bn256.p)) (ha : a ≠ Fp6.zero) :
    Fp6.mul a (Fp6.invert a) = Fp6.one ∧
    Fp6.normF a = Fp2.xi * Fp2.xi * (a.x * a.x * a.x) + Fp2.xi * (a.y * a.y * a.y) + a.z * a.z * a.z
      - 3 * Fp2.xi * (a.x * a.y * a.z) :=
  ⟨TowerField.fp6_invert_all a ha, Fp6.normF_eq a⟩

example : Fp6.mul (⟨0, 1, 0⟩ : Fp6 (ZMod Bn256.p)) (Fp6.invert ⟨0, 1, 0⟩) = Fp6.one :=
  (gfP6_invert_Fp _ (by intro h; exact one_ne_zero (congrArg (fun a => a.y.y) h))).1

/-- `C10Tower.gfP12_invert` without its hypothesis, for α = F_p -/
theorem gfP12_invert_Fp (a : Fp12 (ZMod Bn256.p)) (ha : a ≠ Fp12.zero) :
    Fp12.mul a (Fp12.invert a) = Fp12.one :=
  TowerField.fp12_invert_all a ha

example : Fp12.mul (⟨⟨0, 0, 1⟩, 0⟩ : Fp12 (ZMod Bn256.p)) (Fp12.invert ⟨⟨0, 0, 1⟩, 0⟩) = Fp12.one :=
  gfP12_invert_Fp _ (by intro h; exact one_ne_zero (congrArg (fun a => a.x.z.y) h))

/-- **gfP6.Invert as implemented** (Montgomery limbs): on every reduced non-zero value the result is reduced, is
the inverse for the implemented Mul, and decodes to the field inverse in gfP6 over F_p -/
theorem gfP6_invert_implemented (x : F6) (hx : Red6 x) (h0 : x ≠ Fp6.zero) :
    Red6 (Fp6.invert x) ∧ Fp6.mul x (Fp6.invert x) = Fp6.one ∧
    TowerField.dec6 (Fp6.invert x) = Fp6.invert (TowerField.dec6 x) ∧
    Fp6.mul (TowerField.dec6 x) (TowerField.dec6 (Fp6.invert x)) = Fp6.one := by
  obtain ⟨r, m, d⟩ := TowerField.fp6_invert_concrete x hx h0
  refine ⟨r, m, d, ?_⟩
  exact (TowerField.mul6_dec x _ hx r).2.symm.trans (by rw [m]; exact TowerField.one6_dec.2)

example : Red6 (Fp6.one : F6) ∧ (Fp6.one : F6) ≠ Fp6.zero := ⟨TowerField.one6_dec.1, by decide⟩

/-- **gfP12.Invert as implemented** (Montgomery limbs): on every reduced non-zero value the result is reduced, is
the inverse for the implemented Mul, and decodes to the field inverse in gfP12 over F_p -/
theorem gfP12_invert_implemented (x : F12) (hx : Red12 x) (h0 : x ≠ Fp12.zero) :
    Red12 (Fp12.invert x) ∧ Fp12.mul x (Fp12.invert x) = Fp12.one ∧
    dec12 (Fp12.invert x) = Fp12.invert (dec12 x) ∧
    Fp12.mul (dec12 x) (dec12 (Fp12.invert x)) = Fp12.one := by
  obtain ⟨r, m, d⟩ := TowerField.fp12_invert_concrete x hx h0
  refine ⟨r, m, d, ?_⟩
  exact (mul_dec x _ hx r).2.symm.trans (by rw [m]; exact one_dec.2)

example : Red12 (Fp12.one : F12) ∧ (Fp12.one : F12) ≠ Fp12.zero := ⟨one_dec.1, by decide⟩

end Dos.Props.C10TowerField

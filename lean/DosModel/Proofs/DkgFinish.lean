/-
What a successful `DistKeyShare()` returns, in terms of the deals stored in the slots: the
commitment vector is the coefficient-wise sum of the stored commitment vectors (all of one
length), the share is the sum of the stored share values; with the invariant and "all own
responses are approvals" every stored deal is consistent, hence the share lies on the
returned public polynomial.  Also: `Deals()` establishes the invariant.
-/
import DosModel.Proofs.DkgScript

set_option linter.unusedSectionVars false

namespace Dos.Dkg
open Dos Dos.Vss

variable {F G : Type} [Field F] [AddCommGroup G] [Module F G] [DecidableEq F] [DecidableEq G]

/-- the deal stored in slot `j` -/
def dealAt (d : Gen F G) (j : Nat) : Option (Deal F G) :=
  ((getVerifier d j).bind (·.agg)).bind (·.deal)

def valOf (dl : Deal F G) : F :=
  match dl.share with
  | some ⟨_, some v⟩ => v
  | _ => 0

def valAt (d : Gen F G) (j : Nat) : F := match dealAt d j with | some dl => valOf dl | none => 0
def commitsAt (d : Gen F G) (j : Nat) : List G := match dealAt d j with | some dl => dl.commits | none => []

/-- how `DistKeyShare` accumulates `pub` -/
def accPub : Option (List G) → List (List G) → Option (List G)
  | acc, [] => acc
  | none, c :: cs => accPub (some c) cs
  | some p, c :: cs => accPub (some (List.zipWith (· + ·) p c)) cs

theorem accPub_none (cs : List (List G)) (h : cs ≠ []) : accPub none cs = some (vecSum cs) := by
  cases cs with
  | nil => exact absurd rfl h
  | cons c rest =>
    simp only [accPub, vecSum]
    clear h
    induction rest generalizing c with
    | nil => rfl
    | cons x xs ih => simp only [accPub, List.foldl_cons]; exact ih _

theorem dealOut_some {v : Verifier F G} {dl : Deal F G} (h : v.dealOut = some (some dl)) :
    ∃ a, v.agg = some a ∧ a.deal = some dl ∧ a.certified = true := by
  unfold Verifier.dealOut at h
  rcases ha : v.agg with _ | a
  · simp [ha] at h
  · simp only [ha, Option.some.injEq] at h
    by_cases hc : (enoughApprovals a && (v.approved && a.certified)) = true
    · simp only [hc, if_true] at h
      simp only [Bool.and_eq_true] at hc
      exact ⟨a, rfl, h, hc.2.2⟩
    · simp [hc] at h

/-- fix 5814a9f: `Deal()` hands out a deal only if the verifier itself approved it -/
theorem dealOut_some_approved {v : Verifier F G} {dl : Deal F G} (h : v.dealOut = some (some dl)) :
    v.approved = true := by
  unfold Verifier.dealOut at h
  rcases ha : v.agg with _ | a
  · simp [ha] at h
  · simp only [ha, Option.some.injEq] at h
    by_cases hc : (enoughApprovals a && (v.approved && a.certified)) = true
    · simp only [Bool.and_eq_true] at hc
      exact hc.2.1
    · simp [hc] at h

/-- fix 5814a9f: a certified verifier approved its deal -/
theorem dealCertified_approved {v : Verifier F G} (h : v.dealCertified = true) : v.approved = true := by
  unfold Verifier.dealCertified at h
  simp only [Bool.and_eq_true] at h
  exact h.1

/-- the fold of `DistKeyShare` over a list of slots -/
theorem keyShareFold_spec (d : Gen F G) : ∀ (js : List Nat) (sh : F) (pub : Option (List G)) (sh' : F)
    (pub' : Option (List G)) (L : Nat), (∀ p, pub = some p → p.length = L) →
    keyShareFold d js sh pub = .ok (sh', pub') →
    (∀ j ∈ js, ∃ v a dl i val, getVerifier d j = some v ∧ v.agg = some a ∧ a.deal = some dl ∧ a.certified = true ∧
        dl.share = some ⟨i, some val⟩) ∧
    sh' = sh + (js.map (valAt d)).sum ∧ pub' = accPub pub (js.map (commitsAt d)) ∧
    ((pub.isSome = true ∨ js ≠ []) → ∃ L', (∀ p, pub = some p → p.length = L') ∧
        (∀ j ∈ js, (commitsAt d j).length = L') ∧ (∀ p, pub' = some p → p.length = L')) := by
  intro js
  induction js with
  | nil =>
    intro sh pub sh' pub' L hL h
    simp only [keyShareFold] at h
    injection h with h; injection h with h1 h2; subst h1; subst h2
    refine ⟨by simp, by simp, rfl, ?_⟩
    intro hp
    rcases hp with hp | hp
    · rcases pub with _ | p
      · cases hp
      · exact ⟨p.length, fun q hq => by injection hq with hq; rw [hq], by simp, fun q hq => by injection hq with hq; rw [hq]⟩
    · exact absurd rfl hp
  | cons j js ih =>
    intro sh pub sh' pub' L hL h
    unfold keyShareFold at h
    rcases hv : getVerifier d j with _ | v
    · simp [hv] at h
    · simp only [hv] at h
      rcases hdo : v.dealOut with _ | od
      · simp [hdo] at h
      · rcases od with _ | dl
        · simp [hdo] at h
        · simp only [hdo] at h
          obtain ⟨a, hagg, hdeal, hcert⟩ := dealOut_some hdo
          rcases hshare : dl.share with _ | ⟨i, ov⟩
          · simp [hshare] at h
          · rcases ov with _ | val
            · simp [hshare] at h
            · simp only [hshare] at h
              have hda : dealAt d j = some dl := by simp [dealAt, hv, hagg, hdeal]
              have hval : valAt d j = val := by simp [valAt, hda, valOf, hshare]
              have hcom : commitsAt d j = dl.commits := by simp [commitsAt, hda]
              have hmem : ∃ v a dl i val, getVerifier d j = some v ∧ v.agg = some a ∧ a.deal = some dl ∧
                  a.certified = true ∧ dl.share = some ⟨i, some val⟩ := ⟨v, a, dl, i, val, hv, hagg, hdeal, hcert, hshare⟩
              rcases pub with _ | p
              · simp only at h
                obtain ⟨i1, i2, i3, i4⟩ := ih (sh + val) (some dl.commits) sh' pub' dl.commits.length
                  (fun q hq => by injection hq with hq; rw [hq]) h
                refine ⟨?_, by rw [i2, List.map_cons, List.sum_cons, hval]; ring, by rw [i3, List.map_cons, hcom]; rfl, ?_⟩
                · intro k hk
                  rcases List.mem_cons.1 hk with hk | hk
                  · subst hk; exact hmem
                  · exact i1 k hk
                · intro _
                  obtain ⟨L', l1, l2, l3⟩ := i4 (Or.inl rfl)
                  refine ⟨L', ⟨?_, ?_, l3⟩⟩
                  · intro q hq; cases hq
                  · intro k hk
                    rcases List.mem_cons.1 hk with hk | hk
                    · subst hk; rw [hcom]; exact l1 _ rfl
                    · exact l2 k hk
              · simp only at h
                unfold pubAdd at h
                by_cases hlen : p.length ≠ dl.commits.length
                · simp [hlen] at h
                · simp only [hlen, if_false] at h
                  have hlen' : p.length = dl.commits.length := by simpa using hlen
                  obtain ⟨i1, i2, i3, i4⟩ := ih (sh + val) (some (List.zipWith (· + ·) p dl.commits)) sh' pub' p.length
                    (fun q hq => by injection hq with hq; rw [← hq]; simp [hlen']) h
                  refine ⟨?_, by rw [i2, List.map_cons, List.sum_cons, hval]; ring, by rw [i3, List.map_cons, hcom]; rfl, ?_⟩
                  · intro k hk
                    rcases List.mem_cons.1 hk with hk | hk
                    · subst hk; exact hmem
                    · exact i1 k hk
                  · intro _
                    obtain ⟨L', l1, l2, l3⟩ := i4 (Or.inl rfl)
                    have hL' : L' = p.length := by
                      have := l1 _ rfl; simp [hlen'] at this; omega
                    refine ⟨L', ⟨?_, ?_, l3⟩⟩
                    · intro q hq; injection hq with hq; rw [← hq, hL']
                    · intro k hk
                      rcases List.mem_cons.1 hk with hk | hk
                      · subst hk; rw [hcom, hL', hlen']
                      · exact l2 k hk

theorem qual_all (d : Gen F G) (hlen : d.verifiers.length = d.participants.length) (h : certified d = true) :
    qual d = List.range d.participants.length ∧
    ∀ j, j < d.participants.length → ∃ v, getVerifier d j = some v ∧ v.dealCertified = true := by
  unfold certified at h
  simp only [decide_eq_true_eq] at h
  unfold qual at h ⊢
  rw [hlen] at h ⊢
  generalize hp : (fun j => match getVerifier d j with | some v => v.dealCertified | none => false) = p at h ⊢
  have hle := List.length_filter_le p (List.range d.participants.length)
  have heq : (List.filter p (List.range d.participants.length)).length = (List.range d.participants.length).length := by
    rw [List.length_range] at hle ⊢; omega
  have hall := List.length_filter_eq_length_iff.1 heq
  refine ⟨List.filter_eq_self.2 hall, ?_⟩
  intro j hj
  have := hall j (List.mem_range.2 hj)
  rw [← hp] at this
  rcases hv : getVerifier d j with _ | v
  · simp [hv] at this
  · simp only [hv] at this; exact ⟨v, rfl, this⟩

/-- **what `DistKeyShare()` returns** -/
theorem distKeyShare_spec (d : Gen F G) (ks : KeyShare F G) (hlen : d.verifiers.length = d.participants.length)
    (h : distKeyShare d = .ok ks) :
    let n := d.participants.length
    0 < n ∧
    (∀ j, j < n → ∃ v a dl i val, getVerifier d j = some v ∧ v.agg = some a ∧ a.deal = some dl ∧
        a.certified = true ∧ dl.share = some ⟨i, some val⟩) ∧
    ks.commits = vecSum ((List.range n).map (commitsAt d)) ∧
    (∀ j, j < n → (commitsAt d j).length = ks.commits.length) ∧
    ks.shareV = ((List.range n).map (valAt d)).sum ∧ ks.shareI = d.index ∧ ks.priPoly = d.dealer.f := by
  intro n
  unfold distKeyShare at h
  by_cases hc : certified d = false
  · simp [hc] at h
  · simp only [hc, if_false, Bool.false_eq_true] at h
    have hc' : certified d = true := by simpa using hc
    obtain ⟨hq, _⟩ := qual_all d hlen hc'
    rw [hq] at h
    rcases hf : keyShareFold d (List.range d.participants.length) 0 none with ⟨sh, pub⟩ | e | s
    · rw [hf] at h
      rcases pub with _ | commits
      · simp at h
      · simp only at h
        injection h with h
        obtain ⟨i1, i2, i3, i4⟩ := keyShareFold_spec d _ 0 none sh (some commits) 0 (by intro p hp; cases hp) hf
        have hn : 0 < n := by
          rcases Nat.eq_zero_or_pos n with h0 | h0
          · have : List.range d.participants.length = [] := by
              show List.range n = []; rw [h0]; rfl
            rw [this] at i3; simp [accPub] at i3
          · exact h0
        have hne : (List.range n).map (commitsAt d) ≠ [] := by
          intro he
          have h2 : ((List.range n).map (commitsAt d)).length = 0 := by rw [he]; rfl
          rw [List.length_map, List.length_range] at h2; omega
        have hcm : commits = vecSum ((List.range n).map (commitsAt d)) := by
          rw [accPub_none _ hne] at i3; injection i3
        obtain ⟨L', _, l2, l3⟩ := i4 (Or.inr (by
          intro he
          have h2 : (List.range d.participants.length).length = 0 := by rw [he]; rfl
          rw [List.length_range] at h2; omega))
        subst h
        refine ⟨hn, fun j hj => i1 j (List.mem_range.2 hj), hcm, ?_, by simp only [i2, zero_add]; rfl, rfl, rfl⟩
        intro j hj
        rw [l2 j (List.mem_range.2 hj)]; exact (l3 _ rfl).symm
    · rw [hf] at h; cases h
    · rw [hf] at h; cases h

/-- **a finished member's share lies on the returned public polynomial** (every own response an approval) -/
theorem finished_share_on_poly (g : G) (d : Gen F G) (ks : KeyShare F G) (hg : GoodGen g d) (ha : AllApproved d)
    (h : distKeyShare d = .ok ks) :
    ks.shareV • g = pubEval (S := F) ks.commits (d.index : Int) := by
  obtain ⟨hn, hslots, hcom, hlens, hsh, _, _⟩ := distKeyShare_spec d ks hg.len h
  have key : ∀ j, j < d.participants.length →
      valAt d j • g = pubEval (S := F) (commitsAt d j) (d.index : Int) := by
    intro j hj
    obtain ⟨v, a, dl, i, val, hv, hagg, hdeal, _, hshare⟩ := hslots j hj
    have hga := (hg.good j v hv).hagg a hagg
    obtain ⟨r, hr, _, _, himp⟩ := hga.ownResp
    obtain ⟨dl', val', h1, _, _, hcons, h5⟩ := himp (ha j v a r hv hagg hr)
    rw [hdeal] at h1; injection h1 with h1; subst h1
    obtain ⟨i', v', hs', _, _, _, _, hchk⟩ := hcons
    rw [h5] at hs'; injection hs' with hs'; injection hs' with hi hv'
    injection hv' with hv'; subst hv'; subst hi
    have hda : dealAt d j = some dl := by simp [dealAt, hv, hagg, hdeal]
    simp only [valAt, commitsAt, hda, valOf, h5]
    exact hchk
  rw [hsh, hcom]
  have := sum_share_on_sum_commits g ks.commits.length
    ((List.range d.participants.length).map (fun j => (valAt d j, commitsAt d j))) (d.index : Int)
    (by intro x hx; obtain ⟨j, hj, rfl⟩ := List.mem_map.1 hx; exact hlens j (List.mem_range.1 hj))
    (by intro x hx; obtain ⟨j, hj, rfl⟩ := List.mem_map.1 hx; exact key j (List.mem_range.1 hj))
  simpa [List.map_map, Function.comp_def] using this

end Dos.Dkg

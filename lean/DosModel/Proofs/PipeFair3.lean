/-
C14 fairness, part 3: every fair run in which the pipeline context is eventually done terminates
(`fair_run_terminates`): by induction on the W3 rank every pipeline goroutine stops running.
-/
import DosModel.Proofs.PipeFair2

namespace Dos.Pipe
variable {p : Pipeline}

/-- from some position on `g` is not a running pipeline goroutine -/
def Stops (r : Run p) (g : Gi) : Prop := Eventually (fun i => ¬ Running p (r.st i) g)

/-- a goroutine standing at its `exit` node returns (weak fairness) -/
theorem exit_node_returns {r : Run p} {g : Gi} (hw : WeakFairG r g) {pc : Pc} {j : Nat}
    (hat : (r.st j).gs[g]? = some (.at pc)) (hnd : p.node g pc = some .exit) :
    ∃ j', j ≤ j' ∧ (r.st j').gs[g]? = some .done := by
  apply Classical.byContradiction
  intro hno
  have hstay : ∀ d, (r.st (j + d)).gs[g]? = some (.at pc) := by
    intro d
    induction d with
    | zero => exact hat
    | succ d ih =>
      by_cases hm : r.movesAt g (j + d)
      · exfalso
        obtain ⟨e, he, hmv⟩ := hm
        obtain ⟨nd', hnd', hc⟩ := move_cases (r.step_of_ev he) ih hmv
        rw [hnd] at hnd'; cases hnd'
        rcases hc with ⟨_, _, hmem, _⟩ | ⟨_, _, _, hmem, _⟩ | ⟨_, _, _, hmem, _⟩ | ⟨_, _, hd⟩
        · simp [Node.edges] at hmem
        · simp [Node.edges] at hmem
        · simp [Node.edges] at hmem
        · exact hno ⟨j + d + 1, by omega, hd⟩
      · exact r.stay ih hm
  obtain ⟨i, hi, e, he, hmv⟩ := hw j (fun i hi => by
    obtain ⟨d, rfl⟩ := Nat.exists_eq_add_of_le hi
    exact ⟨_, _, Step.exit g pc (hstay d) hnd, by simp [Ev.moves]⟩)
  obtain ⟨d, rfl⟩ := Nat.exists_eq_add_of_le hi
  obtain ⟨nd', hnd', hc⟩ := move_cases (r.step_of_ev he) (hstay d) hmv
  rw [hnd] at hnd'; cases hnd'
  rcases hc with ⟨_, _, hmem, _⟩ | ⟨_, _, _, hmem, _⟩ | ⟨_, _, _, hmem, _⟩ | ⟨_, _, hd⟩
  · simp [Node.edges] at hmem
  · simp [Node.edges] at hmem
  · simp [Node.edges] at hmem
  · exact hno ⟨j + d + 1, by omega, hd⟩

theorem not_running_of_done {s : State} {g : Gi} (h : s.gs[g]? = some .done) : ¬ Running p s g := by
  rintro ⟨_, _, _, _, hat⟩
  rw [h] at hat; cases hat

/-- every pipeline goroutine stops running, by induction on its rank -/
theorem goroutine_stops (hlive : LiveOk p = true) (hsafe : NoCrash p) {r : Run p} (hf : Fair r)
    (hc : ∃ i, (r.st i).ctxDone 0 = true) : ∀ k g, rankOf p g = k → Stops r g := by
  obtain ⟨h0, hgs⟩ := liveOk_parts hlive
  obtain ⟨Tc, hTc⟩ := hc
  intro k
  induction k using Nat.strongRecOn with
  | _ k ih =>
    intro g hk
    apply Classical.byContradiction
    intro hns
    have hinf : InfOften (fun i => Running p (r.st i) g) :=
      (not_eventually hns).mono (fun i h => Classical.not_not.mp h)
    -- the goroutines of smaller rank have stopped
    have hlow : Eventually (fun i => ∀ g', g' < p.gs.length → rankOf p g' < rankOf p g →
        ¬ Running p (r.st i) g') := by
      apply eventually_all_lt (P := fun g' i => rankOf p g' < rankOf p g → ¬ Running p (r.st i) g')
      intro g' _
      by_cases hrk : rankOf p g' < rankOf p g
      · exact (ih (rankOf p g') (by omega) g' rfl).mono (fun i h _ => h)
      · exact ⟨0, fun i _ h => absurd h hrk⟩
    obtain ⟨T1, hT1⟩ := hlow
    obtain ⟨i1, hi1, gr, pc1, hg, hd, hat1⟩ := hinf (max Tc T1)
    obtain ⟨hnodes, hw4⟩ := hgs g gr hg hd
    -- from `i1` on `g` is running for ever
    have hrun : ∀ j, i1 ≤ j → ∃ pc, (r.st j).gs[g]? = some (.at pc) := by
      intro j hj
      rcases r.at_stable hat1 j hj with h | h
      · exact h
      · exfalso
        apply hns
        exact ⟨j, fun j' hj' => not_running_of_done (r.done_stable h j' hj')⟩
    have hmin : ∀ j, i1 ≤ j → ∀ g', Running p (r.st j) g' → rankOf p g ≤ rankOf p g' := by
      intro j hj g' hr'
      apply Classical.byContradiction
      intro hlt
      obtain ⟨gr', _, hg', _, _⟩ := hr'
      exact hT1 j (by omega) g' (List.getElem?_eq_some_iff.mp hg').1 (by omega) ⟨gr', _, hg', ‹_›, ‹_›⟩
    have H : EscHyp p r g gr Node.isExit (fun _ => true) i1 := by
      refine ⟨hg, ?_, fun j hj => r.ctxDone_stable hTc j (by omega), fun j hj => lower_done (r.reach j) (hmin j hj)⟩
      intro j hj
      obtain ⟨pc, hat⟩ := hrun j hj
      have hpc := at_in_range h0 hg (r.st j) (r.reach j) pc hat
      have hn : gr.nodes[pc]? = some gr.nodes[pc] := by simp [hpc]
      refine ⟨pc, gr.nodes[pc], hat, hn, rfl, ?_, hnodes _ (List.mem_of_getElem? hn)⟩
      cases hex : gr.nodes[pc].isExit with
      | false => rfl
      | true =>
        exfalso
        have hnode : gr.nodes[pc] = .exit := by
          generalize gr.nodes[pc] = nd at hex
          cases nd <;> simp [Node.isExit] at hex <;> rfl
        rw [hnode] at hn
        obtain ⟨j', hj', hdone⟩ := exit_node_returns (hf.weak g) hat (node_of hg hn)
        obtain ⟨pc', hat'⟩ := hrun j' (by omega)
        rw [hdone] at hat'; cases hat'
    unfold W4g at hw4
    exact fair_escape h0 hsafe hf H hw4

/-- **every fair run terminates.**  W0 ∧ LiveOk, no crash reachable: in every fair run in which the
pipeline context is eventually done, from some position on no pipeline goroutine runs and every
channel with a pipeline closer is closed — for ever. -/
theorem fair_run_terminates (hlive : LiveOk p = true) (hsafe : NoCrash p) {r : Run p} (hf : Fair r)
    (hc : ∃ i, (r.st i).ctxDone 0 = true) : r.Terminates := by
  have hall : Eventually (fun i => ∀ g, g < p.gs.length → ¬ Running p (r.st i) g) :=
    eventually_all_lt (P := fun g i => ¬ Running p (r.st i) g) p.gs.length
      (fun g _ => goroutine_stops hlive hsafe hf hc (rankOf p g) g rfl)
  obtain ⟨T, hT⟩ := hall
  refine ⟨T, fun i hi => ?_⟩
  have hq : Quiet p (r.st i) := by
    intro g hr
    obtain ⟨gr, pc, hg, hd, hat⟩ := hr
    exact hT i hi g (List.getElem?_eq_some_iff.mp hg).1 ⟨gr, pc, hg, hd, hat⟩
  exact ⟨hq, fun h gr c hg hst hdm hcl hin => quiet_closed (r.reach i) hq hg hst hdm hcl hin⟩

end Dos.Pipe

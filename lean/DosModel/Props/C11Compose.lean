/-
C11 (and C06) composed with C10 — the Montgomery layer.

`Props/C11.lean` `limb_level_roundtrip` and `Props/C06.lean` `emitted_coordinates_canonical` are about
`Bn256.redc / montEncode / montDecode` of `Model/Bn256.lean`; C10 proves `redc_correct` for
`Mont.redc p np` (`Model/Mont.lean`) and that the interpreted assembly of `gfpMul` stores
`Mont.mulM p np a b` for every machine state.  The two developments prove `redc < p` separately; these
theorems IDENTIFY the two definitions (so that a change to one is noticed) and re-derive the C11/C06
facts from C10's theorem:

* `redc_is_c10_redc`            — the two `redc` are the same function at the code's constants (by `rfl`);
* `constants_are_c10_constants` — `p`, `np`, `R` of `Model/Bn256.lean` are the numbers spelled by the limb
  lists `p2`, `np` regenerated from constants.go for C10 (`Gen/Bn256Consts.lean`), `r` its `Order`;
* `montEncode_is_gfpMul`, `montDecode_is_gfpMul` — what C11 calls `montEncode a` / `montDecode a` is
  exactly the value C10's `gfpMul_asm` shows the assembly to store for `(a, r2)` / `(a, 1)`;
* `redc_lt_from_c10` — C06/C11's `redc_lt` + `redc_spec` obtained by instantiating C10's `redc_correct`.

C10's curve / tower / field model files and `Model/Bn256.lean` both declare `Dos.Bn256.p`, `np`, `Fp2`, … —
they cannot be imported into one Lean environment (design/Compose.md), so C10's `g2_group_law` cannot be
applied to `Bn256.G2` directly.  The assumption stated at the end of design/C11.md ("the model's G2
operations preserve `G2.valid`") is discharged instead through Mathlib's group law itself
(`Proofs/ComposeCurve.lean`: the affine chord/tangent formulas ARE the addition of
`WeierstrassCurve.Affine.Point`; `Proofs/ComposeFp2.lean`: the model's `Fp2` computes in the field `F_p²`;
`Proofs/ComposeBn256Group.lean`): second half of this file —

* `g2_valid_closed`, `g2_reachable_valid`, `g2_reachable_roundtrip` — `G2.valid` (reduced ∧ on the twist ∧
  `r•P = O`) is preserved by neg / double / add / smul; every element reachable from the generator
  is valid and round-trips;
* `g1_group_laws`, `g2_group_laws` — on valid elements the MODEL's `add` is commutative and associative,
  `neg` is the inverse, `smul` is additive in the scalar and (G2, and G1 for reachable elements) depends
  only on the scalar modulo `r`;
* `g1_generator_order`, `g1_reachable_torsion` — `r • g₁ = O` by kernel evaluation, hence `r • P = O` for every
  reachable G1 element (no `#E(F_p) = r` assumption for them).
-/
import DosModel.Props.C11
import DosModel.Proofs.MontRedc
import DosModel.Gen.Bn256Consts
import DosModel.Proofs.ComposeBn256Group

namespace Dos.Props.C11Compose
open Dos Dos.Bn256 Dos.Codec

/-- **the two Montgomery reductions are one function**: C06/C11's `redc` (`Model/Bn256.lean`) is C10's
`Mont.redc` (`Model/Mont.lean`) at the modulus and `np` of the code — definitionally -/
theorem redc_is_c10_redc (T : Nat) : Bn256.redc T = Mont.redc Bn256.p Bn256.np T := rfl

/-- the constants of the codec model are the ones C10's field model is built from: the value of the
regenerated limb lists `p2`, `np` (what `Bn256Field.p`, `.np` are defined as), radix `2^256`, and the
decimal constants `P`, `Order` of constants.go -/
theorem constants_are_c10_constants :
    Bn256.p = (Mont.L4.ofList Gen.Bn256.p2).val ∧ Bn256.np = (Mont.L4.ofList Gen.Bn256.np).val
    ∧ Bn256.R = Mont.R ∧ Bn256.p = Gen.Bn256.P ∧ Bn256.r = Gen.Bn256.Order := by decide

/-- hypothesis `hnp` of C10 `redc_correct` for the codec's constants -/
theorem np_is_negated_inverse : (Bn256.np * Bn256.p + 1) % Mont.R = 0 := by decide

/-- **C06/C11's `redc_lt` and `redc_spec` are instances of C10's `redc_correct`** -/
theorem redc_lt_from_c10 (T : Nat) (hT : T < Bn256.R * Bn256.p) :
    Bn256.redc T < Bn256.p ∧ Bn256.redc T * Bn256.R ≡ T [MOD Bn256.p] :=
  Mont.redc_correct Bn256.p Bn256.np T np_is_negated_inverse hT

/-- `montDecode a` (what `MarshalBinary` writes for the limbs `a`) is the value C10 proves `gfpMul(c, a, 1)`
to store -/
theorem montDecode_is_gfpMul (a : Nat) (ha : a < Bn256.R) :
    montDecode a = Mont.mulM Bn256.p Bn256.np a 1 := by
  have hT : a * 1 < Bn256.R * Bn256.p := by
    rw [Nat.mul_one]; exact Nat.lt_of_lt_of_le ha (Nat.le_mul_of_pos_right _ (by decide))
  have hlt : Bn256.redc (a * 1) < Mont.R :=
    Nat.lt_trans (redc_lt_from_c10 _ hT).1 (by decide)
  show Bn256.redc (a * 1) = Mont.redc Bn256.p Bn256.np (a * 1) % Mont.R
  rw [← redc_is_c10_redc, Nat.mod_eq_of_lt hlt]

/-- `montEncode a` (what `UnmarshalBinary` stores for the word `a`) is the value C10 proves
`gfpMul(c, a, r2)` to store -/
theorem montEncode_is_gfpMul (a : Nat) (ha : a < Bn256.R) :
    montEncode a = Mont.mulM Bn256.p Bn256.np a Bn256.r2 := by
  have hT : a * Bn256.r2 < Bn256.R * Bn256.p :=
    Nat.mul_lt_mul_of_lt_of_le ha (by decide) (by decide)
  have hlt : Bn256.redc (a * Bn256.r2) < Mont.R :=
    Nat.lt_trans (redc_lt_from_c10 _ hT).1 (by decide)
  show Bn256.redc (a * Bn256.r2) = Mont.redc Bn256.p Bn256.np (a * Bn256.r2) % Mont.R
  rw [← redc_is_c10_redc, Nat.mod_eq_of_lt hlt]

/-- C06 `emitted_coordinates_canonical` re-derived through C10: every emitted word is `< p` and is the
Montgomery decoding `a·R⁻¹` -/
theorem emitted_word_canonical_from_c10 (a : Nat) (ha : a < Bn256.R) :
    montDecode a < Bn256.p ∧ montDecode a * Bn256.R ≡ a [MOD Bn256.p] := by
  have hT : a * 1 < Bn256.R * Bn256.p := by
    rw [Nat.mul_one]; exact Nat.lt_of_lt_of_le ha (Nat.le_mul_of_pos_right _ (by decide))
  obtain ⟨h1, h2⟩ := redc_lt_from_c10 (a * 1) hT
  exact ⟨h1, h2.trans (by rw [Nat.mul_one])⟩


/-! ## the group structure of the model's G1 / G2 -/

/-- **`G2.valid` is closed under the model's operations** (design/C11.md listed this as an assumption) -/
theorem g2_valid_closed (P Q : G2) (hP : G2.valid P = true) (hQ : G2.valid Q = true) (k : Nat) :
    G2.valid (G2.neg P) = true ∧ G2.valid (G2.double P) = true ∧ G2.valid (G2.add P Q) = true
      ∧ G2.valid (G2.smul k P) = true :=
  ⟨(Compose.valid2_neg P hP).1, (Compose.valid2_double P hP).1, (Compose.valid2_add P Q hP hQ).1,
    (Compose.valid2_smul k P hP).1⟩

set_option maxRecDepth 100000 in
/-- the generators: `g₂` is a valid element (on the twist AND of order dividing `r`: 254 doublings
evaluated by the kernel), `r • g₁ = O` -/
theorem generators_torsion : G2.valid g2gen = true ∧ G1.smul Bn256.r g1gen = .inf := by
  constructor <;> decide +kernel

/-- every G2 element obtained from the generator by the operations the library offers is valid … -/
theorem g2_reachable_valid (P : G2)
    (h : ∀ (S : G2 → Prop), S g2gen → S .inf → (∀ A, S A → S (G2.neg A)) →
      (∀ A B, S A → S B → S (G2.add A B)) → (∀ (k : Nat) A, S A → S (G2.smul k A)) → S P) :
    G2.valid P = true :=
  h (fun X => G2.valid X = true) generators_torsion.1 rfl
    (fun A hA => (Compose.valid2_neg A hA).1) (fun A B hA hB => (Compose.valid2_add A B hA hB).1)
    (fun k A hA => (Compose.valid2_smul k A hA).1)

/-- … and therefore round-trips through `MarshalBinary` / `UnmarshalBinary` (C11 `g2_roundtrip` with
its validity hypothesis discharged), e.g. every public key `x • g₂` and every sum of such keys -/
theorem g2_reachable_roundtrip (x y : Nat) (tail : Bytes) :
    unmarshalG2 (marshalG2 (G2.smul x g2gen) ++ tail) = .ok (G2.smul x g2gen) ∧
    unmarshalG2 (marshalG2 (G2.add (G2.smul x g2gen) (G2.neg (G2.smul y g2gen))) ++ tail)
      = .ok (G2.add (G2.smul x g2gen) (G2.neg (G2.smul y g2gen))) := by
  have hx := (Compose.valid2_smul x g2gen generators_torsion.1).1
  have hy := (Compose.valid2_smul y g2gen generators_torsion.1).1
  exact ⟨Props.C11.g2_roundtrip _ hx tail,
    Props.C11.g2_roundtrip _ (Compose.valid2_add _ _ hx (Compose.valid2_neg _ hy).1).1 tail⟩

/-- **group laws of the model's G2 on valid elements** (inherited from Mathlib's `AddCommGroup` on
`E'(F_p²)` through the injective map `pt2`): commutative, associative, `neg` inverts, `smul` is additive
and multiplicative in the scalar and only depends on it modulo `r` -/
theorem g2_group_laws (P Q R : G2) (hP : G2.valid P = true) (hQ : G2.valid Q = true)
    (hR : G2.valid R = true) (a b : Nat) :
    G2.add P Q = G2.add Q P ∧ G2.add (G2.add P Q) R = G2.add P (G2.add Q R)
    ∧ G2.add P (G2.neg P) = .inf
    ∧ G2.smul (a + b) P = G2.add (G2.smul a P) (G2.smul b P)
    ∧ G2.smul (a * b) P = G2.smul a (G2.smul b P)
    ∧ G2.smul a P = G2.smul (a % Bn256.r) P := by
  have vadd := fun A B hA hB => Compose.valid2_add A B hA hB
  have vsm := fun k A hA => Compose.valid2_smul k A hA
  have hrP : Bn256.r • Compose.pt2 P = 0 :=
    (Compose.inSubgroup_iff P ((Compose.valid2_iff P).1 hP).2.1).1 ((Compose.valid2_iff P).1 hP).2.2
  refine ⟨?_, ?_, ?_, ?_, ?_, ?_⟩
  · apply Compose.pt2_inj (vadd P Q hP hQ).1 (vadd Q P hQ hP).1
    rw [(vadd P Q hP hQ).2, (vadd Q P hQ hP).2, add_comm]
  · apply Compose.pt2_inj (vadd _ R (vadd P Q hP hQ).1 hR).1 (vadd P _ hP (vadd Q R hQ hR).1).1
    rw [(vadd _ R (vadd P Q hP hQ).1 hR).2, (vadd P Q hP hQ).2, (vadd P _ hP (vadd Q R hQ hR).1).2,
      (vadd Q R hQ hR).2, add_assoc]
  · have hn := Compose.valid2_neg P hP
    apply Compose.pt2_inj (vadd P _ hP hn.1).1 (by rfl)
    rw [(vadd P _ hP hn.1).2, hn.2, add_neg_cancel]; rfl
  · apply Compose.pt2_inj (vsm _ P hP).1 (vadd _ _ (vsm a P hP).1 (vsm b P hP).1).1
    rw [(vsm _ P hP).2, (vadd _ _ (vsm a P hP).1 (vsm b P hP).1).2, (vsm a P hP).2, (vsm b P hP).2, add_nsmul]
  · apply Compose.pt2_inj (vsm _ P hP).1 (vsm a _ (vsm b P hP).1).1
    rw [(vsm _ P hP).2, (vsm a _ (vsm b P hP).1).2, (vsm b P hP).2, mul_nsmul']
  · apply Compose.pt2_inj (vsm _ P hP).1 (vsm _ P hP).1
    rw [(vsm _ P hP).2, (vsm _ P hP).2]
    conv_lhs => rw [← Nat.div_add_mod a Bn256.r]
    rw [add_nsmul, mul_nsmul, hrP, nsmul_zero, zero_add]

/-- **group laws of the model's G1 on valid elements** (`valid_add` … of C11 give closure; the laws
come from `E(F_p)` through `pt1`) -/
theorem g1_group_laws (P Q R : G1) (hP : G1.valid P = true) (hQ : G1.valid Q = true)
    (hR : G1.valid R = true) (a b : Nat) :
    G1.add P Q = G1.add Q P ∧ G1.add (G1.add P Q) R = G1.add P (G1.add Q R)
    ∧ G1.add P (G1.neg P) = .inf
    ∧ G1.smul (a + b) P = G1.add (G1.smul a P) (G1.smul b P)
    ∧ G1.smul (a * b) P = G1.smul a (G1.smul b P) := by
  have va := fun A B hA hB => valid_add A B hA hB
  have vs := fun k A hA => valid_smul k A hA
  refine ⟨?_, ?_, ?_, ?_, ?_⟩
  · apply Compose.pt1_inj (va _ _ hP hQ) (va _ _ hQ hP)
    rw [Compose.pt1_add P Q hP hQ, Compose.pt1_add Q P hQ hP, add_comm]
  · apply Compose.pt1_inj (va _ _ (va _ _ hP hQ) hR) (va _ _ hP (va _ _ hQ hR))
    rw [Compose.pt1_add _ R (va _ _ hP hQ) hR, Compose.pt1_add P Q hP hQ,
      Compose.pt1_add P _ hP (va _ _ hQ hR), Compose.pt1_add Q R hQ hR, add_assoc]
  · apply Compose.pt1_inj (va _ _ hP (valid_neg P hP)) (by rfl)
    rw [Compose.pt1_add P _ hP (valid_neg P hP), Compose.pt1_neg P hP, add_neg_cancel]; rfl
  · apply Compose.pt1_inj (vs _ P hP) (va _ _ (vs a P hP) (vs b P hP))
    rw [Compose.pt1_smul _ P hP, Compose.pt1_add _ _ (vs a P hP) (vs b P hP), Compose.pt1_smul a P hP,
      Compose.pt1_smul b P hP, add_nsmul]
  · apply Compose.pt1_inj (vs _ P hP) (vs a _ (vs b P hP))
    rw [Compose.pt1_smul _ P hP, Compose.pt1_smul a _ (vs b P hP), Compose.pt1_smul b P hP, mul_nsmul']

/-- `r • P = O` for EVERY G1 element reachable from the generator (in particular every signature
`x • (h • g₁)`): for these no assumption on `#E(F_p)` is needed -/
theorem g1_reachable_torsion (P : G1) (h : G1.Reachable P) :
    G1.smul Bn256.r P = .inf ∧ ∀ k, G1.smul k P = G1.smul (k % Bn256.r) P := by
  have key : ∀ X, G1.Reachable X → Bn256.r • Compose.pt1 X = 0 := by
    intro X hX
    induction hX with
    | base =>
      rw [← Compose.pt1_smul Bn256.r g1gen (by decide), generators_torsion.2]; rfl
    | null => exact nsmul_zero _
    | neg hA ih => rw [Compose.pt1_neg _ (reachable_valid hA), neg_nsmul, ih, neg_zero]
    | add hA hB ihA ihB =>
      rw [Compose.pt1_add _ _ (reachable_valid hA) (reachable_valid hB), nsmul_add, ihA, ihB, add_zero]
    | smul k hA ih => rw [Compose.pt1_smul k _ (reachable_valid hA), nsmul_left_comm, ih, nsmul_zero]
  have hv := reachable_valid h
  constructor
  · apply Compose.pt1_inj (valid_smul _ P hv) (by rfl)
    rw [Compose.pt1_smul _ P hv, key P h]; rfl
  · intro k
    apply Compose.pt1_inj (valid_smul _ P hv) (valid_smul _ P hv)
    rw [Compose.pt1_smul _ P hv, Compose.pt1_smul _ P hv]
    conv_lhs => rw [← Nat.div_add_mod k Bn256.r]
    rw [add_nsmul, mul_nsmul, key P h, nsmul_zero, zero_add]

/-! non-vacuity -/
example : Bn256.redc (Bn256.R * Bn256.p - 1) = Mont.redc Bn256.p Bn256.np (Bn256.R * Bn256.p - 1) :=
  redc_is_c10_redc _
example : montEncode 2 = Mont.mulM Bn256.p Bn256.np 2 Bn256.r2 := montEncode_is_gfpMul 2 (by decide)
example : montDecode (montEncode 2) < Bn256.p :=
  (emitted_word_canonical_from_c10 _ (Nat.lt_trans (Dos.Bn256.montEncode_lt 2 (by decide)) (by decide))).1

example : G2.valid (G2.add (G2.smul 5 g2gen) (G2.neg g2gen)) = true :=
  (g2_valid_closed _ _ (g2_valid_closed g2gen g2gen generators_torsion.1 generators_torsion.1 5).2.2.2
    (g2_valid_closed g2gen g2gen generators_torsion.1 generators_torsion.1 0).1 0).2.2.1
example : G1.smul (Bn256.r + 7) g1gen = G1.smul 7 g1gen := by
  rw [(g1_reachable_torsion g1gen .base).2 (Bn256.r + 7)]
  congr 1

end Dos.Props.C11Compose

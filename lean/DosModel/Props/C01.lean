/-
C01 — a dispatched request is answered by exactly one on-chain-valid report.

Theorems about `Dos.Query` (`handleQuery` = C07 content functions + C13 collector
+ `recoverSign`), for every member list, request, event order at the collector and
every list of peer messages (Byzantine ones included), over ABSTRACT threshold BLS:

* `C.recover`, `C.verify` are parameters;
* hypotheses taken from the separately proved contracts
  - C03 `verify_iff`  (one direction):  `hC03 : C.verify c s = true → ContractEq c s`
    (`ContractEq` = the pairing equation the proxy contract evaluates under the group key);
  - C02 `recover_unique` + C03: `hrec`: a share list holding valid shares on `c` of ≥ t
    distinct members recovers a signature that verifies;
  - C02 `recover_total`: `htot`: `recover` does not panic
  (both hold for `tbls.Recover` since /repo 4404707, 3dee076, f036cda – C02's business);
* unforgeability is NOT needed any more for validity: since /repo cc9c5f7 the stage only
  uses the node's own content (finding F18: before, `report_valid` was false – a member that
  had been the submitter of another request could make an honest submitter report that
  request's content; replay corpus/C01/f18_foreign_content.txt).
-/
import DosModel.Proofs.Query
import DosModel.Props.C13
import DosModel.Gen.DosnodeConsts
import DosModel.Gen.QueryLoopFacts
import DosModel.Gen.ChainHandlerFacts

namespace Dos.Props.C01
open Dos Dos.Content Dos.Query

/-- the sizes / thresholds the theorems are instantiated with are the code's (regenerated) -/
theorem c01_constants : Gen.padSize = 32 ∧ Gen.stripLen = 20 ∧
    (∀ n, Gen.thresholdRecover n = threshold n ∧ Gen.thresholdDispatch n = threshold n) := by
  refine ⟨by decide, by decide, fun n => ?_⟩
  simp [Gen.thresholdRecover, Gen.thresholdDispatch, threshold]

/-- regenerated shape of the code the model mirrors: `recoverSign` recovers with the public
polynomial on `sign.Content`, verifies the result under the group key `pubPoly.Commit()` on the
same content, sends ONCE on `out` and returns; `reportQueryResult` calls `UpdateRandomness` for
system randomness and `DataReturn` otherwise.  (Removing the final `bls.Verify`, which the repaired
`tbls.Recover` makes unobservable by testing, breaks this obligation.) -/
theorem c01_stage_shape :
    Gen.recoverSignSteps = ["tbls.Recover(pubPoly,sign.Content)", "bls.Verify(pubPoly.Commit(),sign.Content)", "send:out", "return"]
    ∧ Gen.reportSteps = ["if:ok", "if:queryType==onchain.TrafficSystemRandom", "chain.UpdateRandomness", "chain.DataReturn", "if:err!=nil"] := by
  decide

/-- regenerated: the request id is the SAME expression on the wire and in the registration.
`handleQuery` puts `requestID.Bytes()` into every share message (`RequestId:`) with `Index: pType`,
hands `requestID.Bytes()` and `d.reqSignc` to `dispatchSign`, which registers
`string(requestID)` (its sixth parameter) with its own context and output channel; `queryLoop`
looks a share up under `string(content.RequestId)` (`Props.C13.c13_code_shape`).  This is what
`Request.ridBytes` stands for in `handleQuery` / `nodeRun` (own message, registration and the
honest peers' messages all carry it).  Padding or re-encoding one of them only breaks this. -/
theorem c01_request_id_shape :
    Gen.QueryLoopFacts.wireRequestId = "requestID.Bytes()" ∧ Gen.QueryLoopFacts.wireIndex = "pType"
    ∧ Gen.QueryLoopFacts.dispatchArg = "requestID.Bytes() via d.reqSignc"
    ∧ Gen.QueryLoopFacts.dispatchParams = ["ctx", "submitterc", "signc", "reqSignc", "p", "requestID", "threshold", "logger"]
    ∧ Gen.QueryLoopFacts.registeredRequestId = "string(requestID)"
    ∧ Gen.QueryLoopFacts.registeredReply = "out" ∧ Gen.QueryLoopFacts.registeredCtx = "ctx" :=
  ⟨rfl, rfl, rfl, rfl, rfl, rfl, rfl⟩

/-- **from the chain event to the pipeline** (regenerated from dosnode/dos_chain_handler.go,
go/extract/chainhandler) = what `Query.requestOf` / `Query.onEvent` transcribe:
* events reach `onchainLoop` from `d.chain.SubscribeEvent`;
* `LogUpdateRandom` ↦ `handleQuery(requestID := LastRandomness, lastRand := LastRandomness, useSeed := nil, TrafficSystemRandom)`,
  `LogRequestUserRandom` ↦ `(RequestId, LastSystemRandomness, UserSeed, TrafficUserRandom)`,
  `LogUrl` ↦ `(QueryId, Randomness, nil, DataSource, Selector, TrafficUserQuery)`;
* in all three the group id is `DispatchedGroupId` (hex text), the node acts only if
  `isMember(groupID)` = it holds a share for THAT group, and member list, public polynomial and own
  share are looked up under that same `groupID` (`groupInfo`; missing info ⇒ the event is skipped);
* nothing de-duplicates events here (a re-delivered event starts a second pipeline; the chain
  layer's `firstEvent`, C18, is what delivers each log once);
* the traffic types are 0, 1, 2 = `Kind.ptype`. -/
theorem c01_event_dispatch :
    Gen.ChainHandlerFacts.eventSource = [
      "d.onchainEvent, onchainEventErrc = d.chain.SubscribeEvent(subescriptions)",
      "case event, ok := <-d.onchainEvent"]
    ∧ Gen.ChainHandlerFacts.dispatch = [
      "switch content := event.(type)",
      "  case *onchain.LogGrouping",
      "    groupID := fmt.Sprintf(\"%x\", content.GroupId)",
      "    go d.handleGrouping(content.NodeId, groupID)",
      "  case *onchain.LogGroupDissolve",
      "    groupID := fmt.Sprintf(\"%x\", content.GroupId)",
      "    if d.isMember(groupID)",
      "      d.dkg.GroupDissolve(groupID)",
      "  case *onchain.LogPublicKeyAccepted",
      "    groupID := fmt.Sprintf(\"%x\", content.GroupId)",
      "    if d.isMember(groupID)",
      "  case *onchain.LogUpdateRandom",
      "    randSeed = content.LastRandomness",
      "    groupID := fmt.Sprintf(\"%x\", content.DispatchedGroupId)",
      "    if d.isMember(groupID)",
      "      groupID := fmt.Sprintf(\"%x\", content.DispatchedGroupId)",
      "      ids, pub, sec, err := d.groupInfo(groupID)",
      "      if err != nil",
      "        continue",
      "      go d.handleQuery(ids, pub, sec, groupID, content.LastRandomness, content.LastRandomness, nil, \"\", \"\", uint32(onchain.TrafficSystemRandom))",
      "  case *onchain.LogRequestUserRandom",
      "    randSeed = content.LastSystemRandomness",
      "    groupID := fmt.Sprintf(\"%x\", content.DispatchedGroupId)",
      "    if d.isMember(groupID)",
      "      groupID := fmt.Sprintf(\"%x\", content.DispatchedGroupId)",
      "      ids, pub, sec, err := d.groupInfo(groupID)",
      "      if err != nil",
      "        continue",
      "      go d.handleQuery(ids, pub, sec, groupID, content.RequestId, content.LastSystemRandomness, content.UserSeed, \"\", \"\", uint32(onchain.TrafficUserRandom))",
      "  case *onchain.LogUrl",
      "    randSeed = content.Randomness",
      "    groupID := fmt.Sprintf(\"%x\", content.DispatchedGroupId)",
      "    if d.isMember(groupID)",
      "      groupID := fmt.Sprintf(\"%x\", content.DispatchedGroupId)",
      "      ids, pub, sec, err := d.groupInfo(groupID)",
      "      if err != nil",
      "        continue",
      "      go d.handleQuery(ids, pub, sec, groupID, content.QueryId, content.Randomness, nil, content.DataSource, content.Selector, uint32(onchain.TrafficUserQuery))",
      "  case *onchain.LogStartCommitReveal",
      "    go d.handleCR(content, randSeed)"]
    ∧ Gen.ChainHandlerFacts.groupInfo = [
      "ids = d.dkg.GetGroupIDs(groupID)",
      "pubPoly = d.dkg.GetGroupPublicPoly(groupID)",
      "sec = d.dkg.GetShareSecurity(groupID)",
      "if len(ids) == 0 || pubPoly == nil || sec == nil",
      "  err = errors.New(\"No Group info\")",
      "return"]
    ∧ Gen.ChainHandlerFacts.isMember = [
      "return d.dkg.GetShareSecurity(groupID) != nil"]
    ∧ Gen.ChainHandlerFacts.handleQueryParams = [
      "ids",
      "pubPoly",
      "sec",
      "groupID",
      "requestID",
      "lastRand",
      "useSeed",
      "url",
      "selector",
      "pType"]
    ∧ Gen.ChainHandlerFacts.trafficSystemRandom = Kind.sys.ptype
    ∧ Gen.ChainHandlerFacts.trafficUserRandom = Kind.user.ptype
    ∧ Gen.ChainHandlerFacts.trafficUserQuery = Kind.url.ptype :=
  ⟨rfl, rfl, rfl, rfl, rfl, rfl, rfl, rfl⟩

/-- an event for a group the node holds no share of is ignored; otherwise the node runs
`handleQuery` on `requestOf` the event with THAT group's member list and keys -/
theorem event_non_member_ignored (p a : Nat) (me : Bytes) (groups : Nat → Option GroupEntry) (ev : Event)
    (fc : List (Option Msg)) (h : groups ev.gid = none) : onEvent p a me groups ev fc = none := by
  simp [onEvent, h]

theorem event_member_runs (p a : Nat) (me : Bytes) (groups : Nat → Option GroupEntry) (ev : Event)
    (fc : List (Option Msg)) (g : GroupEntry) (h : groups ev.gid = some g) (hn : g.ids.length ≠ 0) :
    onEvent p a me groups ev fc =
      some (handleQuery g.C p a { ids := g.ids, me := me, signOwn := g.signOwn } (requestOf ev) fc) := by
  simp [onEvent, h, hn]

/-- what is signed for each event, as a function of the event's fields only: system randomness –
32-byte big-endian `LastRandomness` ‖ submitter, submitter chosen by `LastRandomness`; user
randomness – `RequestId ‖ LastSystemRandomness ‖ UserSeed` (each as `big.Int.Bytes()`) ‖ submitter,
chosen by `LastSystemRandomness`; URL – selected document ‖ submitter, chosen by `Randomness`. -/
theorem event_content (addr : Bytes) (last q seed rand g : Nat) (parsed : Bytes) :
    contentFor 32 (requestOf (.updateRandom last g)) addr = some (natBE 32 last ++ addr)
    ∧ (requestOf (.updateRandom last g)).last = last ∧ (requestOf (.updateRandom last g)).rid = last
    ∧ contentFor 32 (requestOf (.requestUserRandom q last seed g)) addr
        = some (natBytes q ++ natBytes last ++ natBytes seed ++ addr)
    ∧ (requestOf (.requestUserRandom q last seed g)).last = last ∧ (requestOf (.requestUserRandom q last seed g)).rid = q
    ∧ contentFor 32 (requestOf (.url q (some parsed) rand g)) addr = some (parsed ++ addr)
    ∧ (requestOf (.url q (some parsed) rand g)).last = rand ∧ (requestOf (.url q (some parsed) rand g)).rid = q := by
  refine ⟨?_, rfl, rfl, ?_, rfl, rfl, rfl, rfl, rfl⟩
  · simp only [contentFor, requestOf, sysContent, sysContentRaw]
    rw [padOrTrim_eq_natBE, beNat_natBytes]
  · simp [contentFor, requestOf, userContent, userContentRaw]

/-- **1. only the derived submitter reports.**  Whatever reaches a member (any messages, any
number of valid shares), it reports only if its id is `ids[(lastRand mod 2^64) mod n]`. -/
theorem only_submitter_reports (C : Crypto) (p a : Nat) (mb : Member) (r : Request)
    (fc : List (Option Msg)) (h : (handleQuery C p a mb r fc).reports ≠ []) :
    submitter mb.ids r.last = some mb.me := by
  unfold handleQuery at h
  cases hs : submitter mb.ids r.last with
  | none => simp [hs] at h
  | some sub =>
    simp only [hs] at h
    by_cases hme : mb.me ≠ sub
    · simp [hme] at h
    · simp only [ne_eq, not_not] at hme; rw [hme]

/-- … a non-submitter sends exactly one message – its share on the content every member computes
(`contentFor`, a function of the request and the member list only) – to that same submitter,
never registers with the collector and never reports. -/
theorem non_submitter_forwards (C : Crypto) (p a : Nat) (mb : Member) (r : Request)
    (fc : List (Option Msg)) (sub : Bytes) (hs : submitter mb.ids r.last = some sub) (hme : mb.me ≠ sub) :
    (handleQuery C p a mb r fc).reports = [] ∧ (handleQuery C p a mb r fc).registered = false ∧
    (handleQuery C p a mb r fc).sent = [(sub, (contentFor p r sub).map (fun c =>
      { index := r.kind.ptype, rid := r.ridBytes, content := some c, sig := some (mb.signOwn c) }))] := by
  simp [handleQuery, hs, hme]

/-- **2. at most one report** – for every input sequence the stage emits at most once, and the
pipeline calls the chain adaptor at most once. -/
theorem stage_emits_at_most_once (C : Crypto) (t a : Nat) (ms : List (Option Msg)) :
    (recoverStage C t a ms).out.length ≤ 1 :=
  (safe_fold C t a ms _ (safe_init C a)).outLe

theorem at_most_one_report (C : Crypto) (p a : Nat) (mb : Member) (r : Request) (fc : List (Option Msg)) :
    (handleQuery C p a mb r fc).reports.length ≤ 1 := by
  unfold handleQuery
  cases hs : submitter mb.ids r.last with
  | none => simp
  | some sub =>
    by_cases hme : mb.me ≠ sub
    · simp [hme]
    · simp only [hme, if_false, List.length_take]; omega

/-- **3. every report is valid on chain.**  If the member computed its content `c0` (for a URL
request: its fetch and parse succeeded) and its id has the length of an address, then whatever it
reports – for EVERY sequence of peer messages – is `(result, sig)` with `result ++ own id = c0`,
`sig` verified against exactly that string (hence, by C03, the contract equation for
`result ‖ msg.sender` under the group key), and the request's own type. -/
theorem report_valid (ContractEq : Bytes → Bytes → Prop) (C : Crypto)
    (hC03 : ∀ c s, C.verify c s = true → ContractEq c s)
    (p a : Nat) (mb : Member) (r : Request) (fc : List (Option Msg)) (c0 : Bytes)
    (hc0 : contentFor p r mb.me = some c0) (hlen : mb.me.length = a) :
    ∀ rep ∈ (handleQuery C p a mb r fc).reports,
      rep.result ++ mb.me = c0 ∧ ContractEq (rep.result ++ mb.me) rep.sig ∧ rep.index = r.kind.ptype := by
  intro rep hrep
  have hsub := only_submitter_reports C p a mb r fc (List.ne_nil_of_mem hrep)
  unfold handleQuery at hrep
  simp only [hsub, ne_eq, not_true_eq_false, if_false, hc0, Option.map_some] at hrep
  have hrep' := List.mem_of_mem_take hrep
  -- the stage state after all inputs
  unfold recoverStage at hrep'
  rw [List.foldl_cons] at hrep'
  have hown := own_fold C (threshold mb.ids.length) a fc (r.kind.ptype, c0) _
    (first_own C (threshold mb.ids.length) a r.kind.ptype r.ridBytes c0 (mb.signOwn c0))
  have hsafe := safe_fold C (threshold mb.ids.length) a fc _
    (safe_step C (threshold mb.ids.length) a _
      (some ⟨r.kind.ptype, r.ridBytes, some c0, some (mb.signOwn c0)⟩) (safe_init C a))
  obtain ⟨c, hc, hver, hal, hres⟩ := hsafe.reports rep hrep'
  rw [hown] at hc
  simp only [Option.some.injEq, Prod.mk.injEq] at hc
  obtain ⟨hix, hcc⟩ := hc
  subst hcc
  obtain ⟨d, hd⟩ := contentFor_shape hc0
  have hres' : rep.result = d := by
    rw [hres, hd]; simp [hlen]
  have : rep.result ++ mb.me = c0 := by rw [hres', hd]
  exact ⟨this, by rw [this]; exact hC03 _ _ hver, hix.symm⟩

/-- for system randomness the verified string is exactly the 32-byte big-endian last randomness
(what the contract holds) followed by `msg.sender` -/
theorem report_valid_sys (ContractEq : Bytes → Bytes → Prop) (C : Crypto)
    (hC03 : ∀ c s, C.verify c s = true → ContractEq c s)
    (mb : Member) (r : Request) (fc : List (Option Msg)) (hk : r.kind = .sys) (hlen : mb.me.length = 20) :
    ∀ rep ∈ (handleQuery C 32 20 mb r fc).reports, ContractEq (natBE 32 r.last ++ mb.me) rep.sig := by
  intro rep hrep
  have hc0 : contentFor 32 r mb.me = some (natBE 32 r.last ++ mb.me) := by
    simp only [contentFor, hk, sysContent, sysContentRaw]
    rw [padOrTrim_eq_natBE, beNat_natBytes]
  have := report_valid ContractEq C hC03 32 20 mb r fc _ hc0 hlen rep hrep
  rw [← this.1]; exact this.2.1

/-- the report carries the request's own id: what reaches the stage through the collector was
registered for under that id (C13 `no_crossover`) -/
theorem report_rid (C : Crypto) (p a : Nat) (mb : Member) (r : Request) (msgOf : Nat → Option Msg)
    (es : List Collector.Ev) (h : Nat)
    (hcons : ∀ s, Collector.Ev.arrive s ∈ es → ∀ m, msgOf s.tag = some m → m.rid = s.rid)
    (honly : ∀ r', Collector.Ev.register h r' ∈ es → r' = r.ridBytes) :
    ∀ rep ∈ (nodeRun C p a mb r msgOf es h).reports, rep.rid = r.ridBytes := by
  intro rep hrep
  unfold nodeRun handleQuery at hrep
  cases hs : submitter mb.ids r.last with
  | none => simp [hs] at hrep
  | some sub =>
    simp only [hs] at hrep
    by_cases hme : mb.me ≠ sub
    · simp [hme] at hrep
    · simp only [hme, if_false] at hrep
      have hrep' := List.mem_of_mem_take hrep
      rcases rid_fold C _ a _ _ rep hrep' with h0 | ⟨msg, hm, hrid⟩
      · simp [StageSt.init] at h0
      · rw [hrid]
        simp only [List.mem_cons, List.mem_map] at hm
        rcases hm with hm | ⟨s, hs', hm⟩
        · cases hc : contentFor p r sub with
          | none => simp [hc] at hm
          | some c => simp only [hc, Option.map_some, Option.some.injEq] at hm; rw [hm]
        · obtain ⟨harr, hreg⟩ := delivered_origin es h s hs'
          rw [hcons s harr msg hm]
          exact honly _ hreg

/-- **4. liveness (model level): enough honest shares ⇒ exactly one report, whatever the
Byzantine messages are.**  The member is the submitter and computed `c0`; among the messages that
reach its stage (its own first) there are well-formed messages carrying valid shares on `c0` of at
least `t = n/2+1` distinct members (distinct byte strings).  Then – for every other content of
`fc`: junk, duplicates, re-encodings, other content, other type, nil – exactly one report is made.
Needs the C02/C03 contracts `hrec`, `htot` for `c0`. -/
theorem enough_honest_reports (Valid : Nat → Bytes → Bytes → Prop) (C : Crypto) (p a : Nat)
    (mb : Member) (r : Request) (fc : List (Option Msg)) (c0 : Bytes)
    (hsub : submitter mb.ids r.last = some mb.me)
    (hc0 : contentFor p r mb.me = some c0) (hlen : mb.me.length = a)
    (hrec : ∀ l, Enough Valid c0 (threshold mb.ids.length) l →
      ∃ sig, C.recover c0 l = .ok sig ∧ C.verify c0 sig = true)
    (htot : ∀ l, C.recover c0 l ≠ .panic)
    (gs : List (Nat × Bytes)) (hidx : (gs.map (·.1)).Nodup) (hbytes : (gs.map (·.2)).Nodup)
    (ht : threshold mb.ids.length ≤ gs.length)
    (hgood : ∀ q ∈ gs, Valid q.1 c0 q.2 ∧ ∃ rid, some (⟨r.kind.ptype, rid, some c0, some q.2⟩ : Msg) ∈
        some ⟨r.kind.ptype, r.ridBytes, some c0, some (mb.signOwn c0)⟩ :: fc) :
    (handleQuery C p a mb r fc).reports.length = 1 ∧ (handleQuery C p a mb r fc).stop = .none := by
  have ha : a ≤ c0.length := by
    obtain ⟨d, hd⟩ := contentFor_shape hc0
    rw [hd]; simp [hlen]
  let t := threshold mb.ids.length
  let m0 : Option Msg := some ⟨r.kind.ptype, r.ridBytes, some c0, some (mb.signOwn c0)⟩
  have hlive := live_fold C t a r.kind.ptype c0 ha hrec htot fc [m0] _
    (live_first C t a r.kind.ptype c0 r.ridBytes (mb.signOwn c0) ha hrec htot)
  -- the final state of the stage
  have hfin : (recoverStage C t a (m0 :: fc)).stop = some .reported := by
    have hst : recoverStage C t a (m0 :: fc) = fc.foldl (stageStep C t a) (stageStep C t a StageSt.init m0) := rfl
    rw [hst]
    cases hstop : (fc.foldl (stageStep C t a) (stageStep C t a StageSt.init m0)).stop with
    | some s =>
      cases s with
      | reported => rfl
      | panicRecover => exact absurd hstop hlive.noPanic
    | none =>
      exfalso
      obtain ⟨_, _, hmem, hnot⟩ := hlive.running hstop
      apply hnot
      have hall : ∀ q ∈ gs, q.2 ∈ (fc.foldl (stageStep C t a) (stageStep C t a StageSt.init m0)).shares := by
        intro q hq
        obtain ⟨_, rid, hin⟩ := hgood q hq
        exact hmem rid q.2 (by simpa [m0] using hin)
      refine ⟨⟨gs, hidx, ht, fun q hq => ⟨(hgood q hq).1, hall q hq⟩⟩, ?_⟩
      have hsubset : gs.map (·.2) ⊆ (fc.foldl (stageStep C t a) (stageStep C t a StageSt.init m0)).shares := by
        intro x hx
        simp only [List.mem_map] at hx
        obtain ⟨q, hq, rfl⟩ := hx
        exact hall q hq
      have := (List.subperm_of_subset hbytes hsubset).length_le
      simp only [List.length_map] at this
      exact Nat.le_trans ht this
  have hst : recoverStage C t a (m0 :: fc) = fc.foldl (stageStep C t a) (stageStep C t a StageSt.init m0) := rfl
  have hone : (recoverStage C t a (m0 :: fc)).out.length = 1 := by
    rw [hst]; exact hlive.reported (by rw [← hst]; exact hfin)
  unfold handleQuery
  simp only [hsub, ne_eq, not_true_eq_false, if_false, hc0, Option.map_some]
  refine ⟨?_, ?_⟩
  · rw [List.length_take]
    show min 1 (recoverStage C t a (m0 :: fc)).out.length = 1
    rw [hone]; rfl
  · show (if (recoverStage C t a (m0 :: fc)).stop = some Stop.panicRecover then NodeStop.panicRecover else NodeStop.none) = NodeStop.none
    rw [hfin]; simp

/-- **4'. … whatever the arrival / registration order** (composition with C13): the submitter's
instance `h` registers once for the request id, is not cancelled, and the good messages ARRIVE at
its collector at any time – before or after the registration, interleaved with anything else. -/
theorem enough_honest_reports_any_order (Valid : Nat → Bytes → Bytes → Prop) (C : Crypto) (p a : Nat)
    (mb : Member) (r : Request) (msgOf : Nat → Option Msg) (es₁ es₂ : List Collector.Ev) (h : Nat) (c0 : Bytes)
    (hsub : submitter mb.ids r.last = some mb.me)
    (hc0 : contentFor p r mb.me = some c0) (hlen : mb.me.length = a)
    (hrec : ∀ l, Enough Valid c0 (threshold mb.ids.length) l →
      ∃ sig, C.recover c0 l = .ok sig ∧ C.verify c0 sig = true)
    (htot : ∀ l, C.recover c0 l ≠ .panic)
    (hreg : ∀ h' r', Collector.Ev.register h' r' ∈ es₁ ++ es₂ → r' ≠ r.ridBytes ∧ h' ≠ h)
    (hcan : Collector.Ev.cancel h ∉ es₁ ++ es₂)
    (gs : List (Nat × Bytes)) (hidx : (gs.map (·.1)).Nodup) (hbytes : (gs.map (·.2)).Nodup)
    (ht : threshold mb.ids.length ≤ gs.length)
    (hgood : ∀ q ∈ gs, Valid q.1 c0 q.2 ∧ (q.2 = mb.signOwn c0 ∨
      ∃ s, Collector.Ev.arrive s ∈ es₁ ++ Collector.Ev.register h r.ridBytes :: es₂ ∧ s.rid = r.ridBytes ∧
        msgOf s.tag = some ⟨r.kind.ptype, r.ridBytes, some c0, some q.2⟩)) :
    (nodeRun C p a mb r msgOf (es₁ ++ Collector.Ev.register h r.ridBytes :: es₂) h).reports.length = 1 := by
  unfold nodeRun
  have hdel := Props.C13.delivered_eq_arrivals es₁ es₂ h r.ridBytes hreg hcan
  refine (enough_honest_reports Valid C p a mb r _ c0 hsub hc0 hlen hrec htot gs hidx hbytes ht ?_).1
  intro q hq
  obtain ⟨hv, hor⟩ := hgood q hq
  refine ⟨hv, ?_⟩
  rcases hor with hown | ⟨s, harr, hrid, hmsg⟩
  · exact ⟨r.ridBytes, by rw [hown]; simp⟩
  · refine ⟨r.ridBytes, List.mem_cons_of_mem _ ?_⟩
    rw [hdel]
    simp only [List.mem_map]
    exact ⟨s, arrivalsFor_of_mem _ harr hrid, hmsg⟩

/-! ### non-vacuity: a concrete group of three (symbolic BLS), Byzantine junk included -/

private def ids3 : List Bytes := [List.replicate 20 0xA1, List.replicate 20 0xB2, List.replicate 20 0xC3]
private def req3 : Request := { kind := .sys, rid := 7, last := 7, seed := 0, parsed := none }
private def c3 : Bytes := sysContent 32 7 (List.replicate 20 0xB2)      -- submitter = ids3[7 % 3] = member 1
private def C3 : Crypto := symCrypto [c3] 2 3
private def mb1 : Member := { ids := ids3, me := List.replicate 20 0xB2, signOwn := fun _ => [1, 1, 0] }
private def mb0 : Member := { ids := ids3, me := List.replicate 20 0xA1, signOwn := fun _ => [1, 0, 0] }
/-- junk (1 byte), a share on another content, then member 2's valid share -/
private def fc3 : List (Option Msg) :=
  [some { index := 0, rid := [7], content := some c3, sig := some [1] },
   some { index := 0, rid := [7], content := some [9, 9], sig := some [1, 2, 0] },
   some { index := 0, rid := [7], content := some c3, sig := some [1, 2, 0] }]

example : submitter ids3 7 = some (List.replicate 20 0xB2) := by decide
example : ((handleQuery C3 32 20 mb1 req3 fc3).reports.map (·.sig)) = [[9, 0]] := by decide
example : (handleQuery C3 32 20 mb0 req3 fc3).reports = [] := by decide
example : (handleQuery C3 32 20 mb1 req3 []).reports = [] := by decide

end Dos.Props.C01

package p2pflow

// Subscription-table facts (C16 round 5): "each message is delivered once to the subscriber OF ITS
// TYPE" rests on the key of `subscriptions map[string]chan P2PMessage` being computed the same way
// where a message is looked up (messageDispatch), where a subscription is filed (SubscribeMsg) and
// where one is removed (UnSubscribeMsg), and on that key separating every two message types.
// Regenerated: the statement skeleton of the three functions, the three key expressions in a
// normal form, every protobuf message type the repository registers (import path, package NAME,
// Go type name, proto name), and what the repository's own subscribers hand to SubscribeMsg.

import (
	"fmt"
	"go/ast"
	"os"
	"path/filepath"
	"sort"
	"strings"

	"verifharness/extract/ex"
)

const modulePath = "github.com/DOSNetwork/core"

type regType struct{ proto, path, pkg, name string }

func goFiles(repo string, want func(rel string) bool) ([]string, error) {
	var out []string
	err := filepath.Walk(repo, func(p string, info os.FileInfo, err error) error {
		if err != nil {
			return err
		}
		if info.IsDir() {
			n := info.Name()
			if n == "vendor" || n == ".git" || n == "node_modules" || n == "testdata" {
				return filepath.SkipDir
			}
			return nil
		}
		rel, _ := filepath.Rel(repo, p)
		if strings.HasSuffix(p, ".go") && want(filepath.ToSlash(rel)) {
			out = append(out, p)
		}
		return nil
	})
	sort.Strings(out)
	return out, err
}

func pkgPathOf(repo, file string) string {
	rel, _ := filepath.Rel(repo, filepath.Dir(file))
	rel = filepath.ToSlash(rel)
	if rel == "." {
		return modulePath
	}
	return modulePath + "/" + rel
}

var pkgNames = map[string]string{}

// pkgNameOf: the name in the package clause of a package of this module ("" for others)
func pkgNameOf(repo, importPath string) string {
	if n, ok := pkgNames[importPath]; ok {
		return n
	}
	n := ""
	if strings.HasPrefix(importPath, modulePath+"/") {
		dir := filepath.Join(repo, filepath.FromSlash(strings.TrimPrefix(importPath, modulePath+"/")))
		if ents, err := os.ReadDir(dir); err == nil {
			for _, e := range ents {
				if !e.IsDir() && strings.HasSuffix(e.Name(), ".go") && !strings.HasSuffix(e.Name(), "_test.go") {
					if _, f, err := ex.Parse(filepath.Join(dir, e.Name())); err == nil {
						n = f.Name.Name
						break
					}
				}
			}
		}
	}
	pkgNames[importPath] = n
	return n
}

func subTableFacts(repo string, sf *ast.File) (string, error) {
	md := ex.FuncDecl(sf, "server", "messageDispatch")
	sub := ex.FuncDecl(sf, "server", "SubscribeMsg")
	unsub := ex.FuncDecl(sf, "server", "UnSubscribeMsg")
	if md == nil || sub == nil || unsub == nil {
		return "", fmt.Errorf("messageDispatch / SubscribeMsg / UnSubscribeMsg not found in p2p/server.go")
	}
	var skel []string
	skel = append(skel, skeleton("messageDispatch", md.Body)...)
	skel = append(skel, skeleton("SubscribeMsg("+params(sub)+")", sub.Body)...)
	skel = append(skel, skeleton("UnSubscribeMsg("+params(unsub)+")", unsub.Body)...)

	// messageDispatch: the key a message is looked up with. `out := subscriptions[K]`; when K is a
	// variable, what it was defined as, and whether one leading '*' is cut off in between.
	dispKey := ""
	{
		k := ""
		ast.Inspect(md, func(x ast.Node) bool {
			if is, ok := x.(*ast.IfStmt); ok && is.Init != nil && k == "" {
				if a, ok := is.Init.(*ast.AssignStmt); ok && len(a.Rhs) == 1 {
					if ix, ok := a.Rhs[0].(*ast.IndexExpr); ok && txt(ix.X) == "subscriptions" {
						k = txt(ix.Index)
					}
				}
			}
			return true
		})
		dispKey = k
		if id := k; id != "" && !strings.ContainsAny(id, "(.[") { // an identifier: resolve its definition
			def, strip, defs := "", false, 0
			ast.Inspect(md, func(x ast.Node) bool {
				switch y := x.(type) {
				case *ast.AssignStmt:
					if len(y.Lhs) == 1 && txt(y.Lhs[0]) == id && len(y.Rhs) == 1 {
						if txt(y.Rhs[0]) == id+"[1:]" {
							return true // the strip itself, accounted for below
						}
						defs++
						def = txt(y.Rhs[0])
					}
				case *ast.IfStmt:
					if txt(y.Cond) == "len("+id+") > 0 && "+id+"[0] == '*'" && len(y.Body.List) == 1 &&
						txt(y.Body.List[0]) == id+" = "+id+"[1:]" && y.Else == nil {
						strip = true
					}
				}
				return true
			})
			if defs == 1 {
				dispKey = def
				if strip {
					dispKey += " [strip *]"
				}
			} else {
				dispKey = fmt.Sprintf("%s (%d definitions)", id, defs)
			}
		}
	}
	// SubscribeMsg: the msgType of the subscription it sends
	subKey := ""
	ast.Inspect(sub, func(x ast.Node) bool {
		if cl, ok := x.(*ast.CompositeLit); ok && txt(cl.Type) == "subscription" {
			for _, e := range cl.Elts {
				if kv, ok := e.(*ast.KeyValueExpr); ok && txt(kv.Key) == "msgType" {
					if subKey != "" {
						subKey += " / "
					}
					subKey += txt(kv.Value)
				}
			}
		}
		return true
	})
	// UnSubscribeMsg: what it sends on n.unscribeMsg
	unsubKey := ""
	ast.Inspect(unsub, func(x ast.Node) bool {
		if s, ok := x.(*ast.SendStmt); ok && txt(s.Chan) == "n.unscribeMsg" {
			if unsubKey != "" {
				unsubKey += " / "
			}
			unsubKey += txt(s.Value)
		}
		return true
	})

	// every registered protobuf message type of the repository
	pbs, err := goFiles(repo, func(rel string) bool { return strings.HasSuffix(rel, ".pb.go") })
	if err != nil {
		return "", err
	}
	var regs []regType
	for _, p := range pbs {
		_, f, err := ex.Parse(p)
		if err != nil {
			return "", err
		}
		ast.Inspect(f, func(x ast.Node) bool {
			c, ok := x.(*ast.CallExpr)
			if !ok || txt(c.Fun) != "proto.RegisterType" || len(c.Args) != 2 {
				return true
			}
			a := txt(c.Args[0]) // (*Name)(nil)
			if !strings.HasPrefix(a, "(*") || !strings.HasSuffix(a, ")(nil)") {
				return true
			}
			name := strings.TrimSuffix(strings.TrimPrefix(a, "(*"), ")(nil)")
			regs = append(regs, regType{proto: strings.Trim(txt(c.Args[1]), "\""), path: pkgPathOf(repo, p), pkg: f.Name.Name, name: name})
			return true
		})
	}
	sort.Slice(regs, func(i, j int) bool { return regs[i].proto+regs[i].path < regs[j].proto+regs[j].path })
	// which of these packages the node links: imported by some non-test file of the repository
	// (p2p/internal is a left-over nothing imports)
	all, err := goFiles(repo, func(rel string) bool { return !strings.HasSuffix(rel, "_test.go") })
	if err != nil {
		return "", err
	}
	imported := map[string]bool{}
	// what the repository's own code hands to SubscribeMsg / UnSubscribeMsg
	type handed struct{ path, name string }
	var subs []handed
	valuesOnly := true
	for _, p := range all {
		_, f, err := ex.Parse(p)
		if err != nil {
			return "", err
		}
		alias := map[string]string{}
		for _, im := range f.Imports {
			ip := strings.Trim(im.Path.Value, "\"")
			imported[ip] = true
			n := ip[strings.LastIndex(ip, "/")+1:]
			if im.Name != nil {
				n = im.Name.Name
			} else if pn := pkgNameOf(repo, ip); pn != "" {
				n = pn // the package NAME, which need not be the last element of the path
			}
			alias[n] = ip
		}
		rel, _ := filepath.Rel(repo, p)
		if filepath.ToSlash(rel) == "p2p/server.go" {
			continue
		}
		ast.Inspect(f, func(x ast.Node) bool {
			c, ok := x.(*ast.CallExpr)
			if !ok {
				return true
			}
			se, ok := c.Fun.(*ast.SelectorExpr)
			if !ok || (se.Sel.Name != "SubscribeMsg" && se.Sel.Name != "UnSubscribeMsg") {
				return true
			}
			args := c.Args
			if se.Sel.Name == "SubscribeMsg" && len(args) > 0 {
				args = args[1:]
			}
			if c.Ellipsis.IsValid() {
				valuesOnly = false
			}
			for _, a := range args {
				cl, ok := a.(*ast.CompositeLit)
				if !ok {
					valuesOnly = false
					subs = append(subs, handed{"?", txt(a)})
					continue
				}
				switch t := cl.Type.(type) {
				case *ast.Ident:
					subs = append(subs, handed{pkgPathOf(repo, p), t.Name})
				case *ast.SelectorExpr:
					subs = append(subs, handed{alias[txt(t.X)], t.Sel.Name})
				default:
					valuesOnly = false
					subs = append(subs, handed{"?", txt(a)})
				}
			}
			return true
		})
	}
	sort.Slice(subs, func(i, j int) bool { return subs[i].path+subs[i].name < subs[j].path+subs[j].name })

	s := "/-- statement skeleton (logging left out) of messageDispatch, SubscribeMsg, UnSubscribeMsg -/\n"
	s += "def subTableSkeleton : List String := " + lstr(skel) + "\n"
	str := func(doc, name, v string) {
		s += "/-- " + doc + " -/\n" + fmt.Sprintf("def %s : String := %s\n", name, ex.LeanStr(v))
	}
	str("messageDispatch: what the key a message is looked up with is computed as", "subDispatchKey", dispKey)
	str("SubscribeMsg: the msgType a subscription is filed under", "subSubscribeKey", subKey)
	str("UnSubscribeMsg: the key sent for deletion", "subUnsubscribeKey", unsubKey)
	s += "/-- every protobuf message type the repository registers: proto name, import path, package NAME, Go type name,\nand whether some non-test file of the repository imports the package (it is linked into the node) -/\n"
	var rows []string
	for _, r := range regs {
		rows = append(rows, fmt.Sprintf("  (%s, %s, %s, %s, %s)", ex.LeanStr(r.proto), ex.LeanStr(r.path), ex.LeanStr(r.pkg), ex.LeanStr(r.name), lb(imported[r.path])))
	}
	s += "def registeredTypes : List (String × String × String × String × Bool) := [\n" + strings.Join(rows, ",\n") + "]\n"
	s += "/-- what the repository's own callers hand to SubscribeMsg / UnSubscribeMsg: (import path, type name) of each composite literal -/\n"
	rows = nil
	for _, h := range subs {
		rows = append(rows, fmt.Sprintf("  (%s, %s)", ex.LeanStr(h.path), ex.LeanStr(h.name)))
	}
	s += "def subscribedTypes : List (String × String) := [\n" + strings.Join(rows, ",\n") + "]\n"
	s += "/-- every one of them is a struct VALUE (a composite literal, no `&`, no spread slice) -/\n"
	s += fmt.Sprintf("def subscribersHandValues : Bool := %s\n", lb(valuesOnly))
	return s, nil
}

/-
C12 — helper lemmas for the chain-event half (`Model/HandlersChain.lean`). Core Lean only.
-/
import DosModel.Model.HandlersChain
import DosModel.Proofs.Handlers

namespace Dos.Handlers
open Dos

@[simp] theorem all_bootReq : Cfg.all.bootReq = true := rfl
@[simp] theorem all_secNil : Cfg.all.secNil = true := rfl
@[simp] theorem all_feCast : Cfg.all.feCast = true := rfl
@[simp] theorem all_evFlow : Cfg.all.evFlow = true := rfl
@[simp] theorem all_groupInfoIds' : Cfg.all.groupInfoIds = true := rfl
@[simp] theorem all_crRand' : Cfg.all.crRand = true := rfl

/-- the loop is alive and its `randSeed` is a number -/
def EvInv (st : EvSt) : Prop := st.alive = true ∧ st.seed.isSome = true

/-- translated events carry no nil field -/
theorem translate_wf (ev : RawEv) (p : Payload) (h : translate Cfg.all ev = some p) : p.wf = true := by
  cases ev <;> simp [translate] at h <;> subst h <;> simp [Payload.wf]

theorem isMember_all (st : EvSt) (gid : BigF) : ∃ b, isMember Cfg.all st gid = .ok b := by
  unfold isMember
  cases findGroup gid st.groups with
  | none => exact ⟨false, rfl⟩
  | some g => cases g.hasSec <;> simp

theorem choseSubmitter_pos (r k : Nat) (hk : k ≠ 0) : ∃ i, choseSubmitter Cfg.all r k = .ok i := by
  simp [choseSubmitter, hk]

theorem handleQueryPre_total (rid last : Nat) (seed : Option BigF) (hs : seed ≠ some none) (nids : Nat) (hn : nids ≠ 0) (kind : String) :
    handleQueryPre Cfg.all (some rid) (some last) seed nids kind = .ok ("query " ++ kind) := by
  obtain ⟨i, hi⟩ := choseSubmitter_pos last nids hn
  unfold handleQueryPre
  cases seed with
  | none => simp [hi]
  | some s => cases s with
    | none => exact absurd rfl hs
    | some v => simp [hi]

theorem queryEvent_total (st : EvSt) (inv : EvInv st) (rid last : Nat) (seed : Option BigF) (hs : seed ≠ some none) (gid : BigF) (kind : String) :
    EvInv (queryEvent Cfg.all st (some rid) (some last) seed gid kind).1 ∧
    (queryEvent Cfg.all st (some rid) (some last) seed gid kind).2.isPanic = false ∧
    (queryEvent Cfg.all st (some rid) (some last) seed gid kind).1.nWs = st.nWs := by
  unfold queryEvent
  obtain ⟨b, hb⟩ := isMember_all { st with seed := some last } gid
  simp only [hb]
  cases b with
  | false => exact ⟨⟨inv.1, rfl⟩, rfl, rfl⟩
  | true =>
    simp only [all_groupInfoIds', Bool.true_and]
    by_cases hn : ((findGroup gid st.groups).map (·.nids)).getD 0 = 0
    · simp [hn]; exact ⟨inv.1, rfl⟩
    · simp only [hn, decide_false, Bool.false_eq_true, if_false]
      rw [handleQueryPre_total rid last seed hs _ hn kind]
      exact ⟨⟨inv.1, rfl⟩, rfl, rfl⟩

theorem handleCRev_total (seed start cdur rdur : Nat) : handleCR Cfg.all (some seed) (some start) (some cdur) (some rdur) = .ok "cr" := by
  unfold handleCR handleCRSeed
  simp only [all_crRand', Bool.true_and, Int.ofNat_eq_natCast]
  by_cases h : ((seed : Int) < 1) <;> simp [h]

/-- one delivered payload without nil fields: no panic site, the loop stays alive with a numeric seed -/
theorem payloadStep_total (me : Nat) (st : EvSt) (inv : EvInv st) (p : Payload) (hw : p.wf = true) :
    EvInv (payloadStep Cfg.all me st p).1 ∧ (payloadStep Cfg.all me st p).2.isPanic = false ∧
    (payloadStep Cfg.all me st p).1.nWs = st.nWs := by
  cases p with
  | grouping gid ids =>
    simp only [payloadStep]
    cases hm : ids.contains me with
    | true =>
      simp only [Bool.not_true, Bool.false_eq_true, if_false]
      cases findGroup gid st.groups with
      | none => exact ⟨inv, rfl, rfl⟩
      | some g => exact ⟨inv, rfl, rfl⟩
    | false => simp only [Bool.not_false, if_true]; exact ⟨inv, by first | rfl | trivial, by first | rfl | trivial⟩
  | dissolve gid =>
    simp only [payloadStep]
    obtain ⟨b, hb⟩ := isMember_all st gid
    rw [hb]; cases b <;> exact ⟨inv, rfl, rfl⟩
  | keyAccepted gid =>
    simp only [payloadStep]
    obtain ⟨b, hb⟩ := isMember_all st gid
    rw [hb]; cases b <;> exact ⟨inv, rfl, rfl⟩
  | updateRandom last gid =>
    cases last with
    | none => simp [Payload.wf] at hw
    | some l => exact queryEvent_total st inv l l none (by simp) gid "sys"
  | userRandom rid last seed gid =>
    cases rid with
    | none => simp [Payload.wf] at hw
    | some r => cases last with
      | none => simp [Payload.wf] at hw
      | some l => cases seed with
        | none => simp [Payload.wf] at hw
        | some s => exact queryEvent_total st inv r l (some (some s)) (by simp) gid "user"
  | url qid rand gid =>
    cases qid with
    | none => simp [Payload.wf] at hw
    | some q => cases rand with
      | none => simp [Payload.wf] at hw
      | some r => exact queryEvent_total st inv q r none (by simp) gid "url"
  | startCR cid start cdur rdur =>
    cases start with
    | none => simp [Payload.wf] at hw
    | some s => cases cdur with
      | none => simp [Payload.wf] at hw
      | some cd => cases rdur with
        | none => simp [Payload.wf] at hw
        | some rd =>
          obtain ⟨sd, hsd⟩ := Option.isSome_iff_exists.mp inv.2
          simp only [payloadStep, hsd]
          rw [handleCRev_total]
          exact ⟨inv, rfl, rfl⟩
  | other => exact ⟨inv, rfl, rfl⟩

theorem chainStep_total (me : Nat) (st : EvSt) (inv : EvInv st) (i : ChainIn) (hi : i.fromChain st.nWs = true) :
    EvInv (chainStep Cfg.all me st i).1 ∧ (chainStep Cfg.all me st i).2.isPanic = false ∧
    (chainStep Cfg.all me st i).1.nWs = st.nWs := by
  cases i with
  | junk =>
    simp only [chainStep, inv.1, Bool.not_true, Bool.false_eq_true, if_false, all_feCast, if_true]
    exact ⟨inv, by first | rfl | trivial, by first | rfl | trivial⟩
  | log ev removed ident =>
    have ha : (!st.alive) = false := by rw [inv.1]; rfl
    simp only [chainStep, ha, Bool.false_eq_true, if_false]
    cases ht : translate Cfg.all ev with
    | none => exact ⟨inv, by first | rfl | trivial, by first | rfl | trivial⟩
    | some p =>
      cases removed with
      | true => exact ⟨inv, by first | rfl | trivial, by first | rfl | trivial⟩
      | false =>
        cases hv : st.visited.contains ident with
        | true => simp only [Bool.false_eq_true, if_false, if_true]; exact ⟨inv, by first | rfl | trivial, by first | rfl | trivial⟩
        | false =>
          simp only [Bool.false_eq_true, if_false]
          exact payloadStep_total me { st with visited := ident :: st.visited } ⟨inv.1, inv.2⟩ p (translate_wf ev p ht)
  | direct p =>
    simp only [chainStep, inv.1, Bool.not_true, Bool.false_eq_true, if_false]
    exact payloadStep_total me st inv p (by simpa [ChainIn.fromChain] using hi)
  | errv e =>
    cases e with
    | plain =>
      simp only [chainStep, inv.1, Bool.not_true, Bool.false_eq_true, if_false]
      exact ⟨inv, by first | rfl | trivial, by first | rfl | trivial⟩
    | onchain idx =>
      have : idx < st.nWs := by simpa [ChainIn.fromChain] using hi
      simp only [chainStep, inv.1, Bool.not_true, Bool.false_eq_true, if_false, this, if_true]
      exact ⟨inv, by first | rfl | trivial, by first | rfl | trivial⟩
  | keygenDone gid =>
    have ha : (!st.alive) = false := by rw [inv.1]; rfl
    simp only [chainStep, ha, Bool.false_eq_true, if_false]
    exact ⟨⟨inv.1, inv.2⟩, by first | rfl | trivial, by first | rfl | trivial⟩

theorem chainRun_total (me : Nat) (ins : List ChainIn) : ∀ st, EvInv st → (∀ i ∈ ins, i.fromChain st.nWs = true) →
    EvInv (chainRun Cfg.all me st ins).1 ∧ (∀ o ∈ (chainRun Cfg.all me st ins).2, o.isPanic = false) := by
  induction ins with
  | nil => intro st inv _; exact ⟨inv, by simp [chainRun]⟩
  | cons i r ih =>
    intro st inv hi
    simp only [chainRun]
    have s1 := chainStep_total me st inv i (hi i List.mem_cons_self)
    have := ih _ s1.1 (fun j hj => by rw [s1.2.2]; exact hi j (List.mem_cons_of_mem _ hj))
    refine ⟨this.1, fun o ho => ?_⟩
    rcases List.mem_cons.mp ho with h | h
    · subst h; exact s1.2.1
    · exact this.2 o h

/-- the next request for a group whose key the node holds is served: a submitter is chosen and the query pipeline starts -/
theorem serves_query (me : Nat) (st : EvSt) (inv : EvInv st) (g q r ident : Nat) (rec : GroupRec)
    (hg : findGroup (some g) st.groups = some rec) (hsec : rec.hasSec = true) (hn : rec.nids ≠ 0)
    (hfresh : st.visited.contains ident = false) :
    (chainStep Cfg.all me st (.log (.url q r g) false ident)).2 = .ok "query url" := by
  unfold chainStep
  simp only [inv.1, Bool.not_true, Bool.false_eq_true, if_false, translate, all_evFlow, if_true, hfresh, payloadStep]
  unfold queryEvent isMember
  simp only [hg, hsec, if_true, all_groupInfoIds', Bool.true_and, Option.map_some, Option.getD_some, hn, decide_false,
    Bool.false_eq_true, if_false]
  rw [handleQueryPre_total q r none (by simp) _ hn "url"]
  rfl

/-- the next grouping event that names this node and a group id not in the table starts a key generation -/
theorem serves_grouping (me : Nat) (st : EvSt) (inv : EvInv st) (g ident : Nat) (ids : List Nat)
    (hme : ids.contains me = true) (hnew : findGroup (some g) st.groups = none) (hfresh : st.visited.contains ident = false) :
    (chainStep Cfg.all me st (.log (.grouping g ids) false ident)).2 = .ok s!"grouping {ids.length}" := by
  unfold chainStep
  simp only [inv.1, Bool.not_true, Bool.false_eq_true, if_false, translate, all_evFlow, if_true, hfresh, payloadStep, hme, hnew]

theorem getBootIps_total (u f : Bool) (k : Nat) : (getBootIps Cfg.all u f k).isPanic = false := by
  unfold getBootIps
  cases u <;> cases f <;> simp [Out.isPanic]

end Dos.Handlers

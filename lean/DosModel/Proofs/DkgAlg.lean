/-
Algebraic core of distributed key generation (C04 a): evaluation of private and public
polynomials is additive in the coefficient vector, so the sum of the dealers' shares lies on
the sum of the dealers' commitment vectors, and that vector is the commitment of the summed
polynomial.  Any field `F`, any `F`-module `G`.
-/
import DosModel.Proofs.VssSym
import DosModel.Model.Dkg
import Mathlib.Algebra.BigOperators.Group.List.Basic

set_option linter.unusedSectionVars false

namespace Dos.Dkg
open Dos Dos.Vss

variable {F G : Type} [Field F] [AddCommGroup G] [Module F G] [DecidableEq F] [DecidableEq G]

/-- coefficient-wise sum of vectors, the way `DistKeyShare` accumulates `pub` -/
def vecSum {α : Type} [Add α] : List (List α) → List α
  | [] => []
  | x :: rest => rest.foldl (List.zipWith (· + ·)) x

theorem pubEval_zipWith_add (p q : List G) (h : p.length = q.length) (i : Int) :
    pubEval (S := F) (List.zipWith (· + ·) p q) i = pubEval (S := F) p i + pubEval (S := F) q i := by
  induction p generalizing q with
  | nil => cases q <;> simp_all [pubEval_nil]
  | cons a p ih =>
    cases q with
    | nil => simp at h
    | cons b q =>
      simp only [List.length_cons, Nat.add_right_cancel_iff] at h
      simp only [List.zipWith_cons_cons, pubEval_cons, ih q h, smul_add]
      abel

theorem priEval_zipWith_add (p q : List F) (h : p.length = q.length) (i : Int) :
    priEval (List.zipWith (· + ·) p q) i = priEval p i + priEval q i := by
  induction p generalizing q with
  | nil => cases q <;> simp_all [priEval_nil]
  | cons a p ih =>
    cases q with
    | nil => simp at h
    | cons b q =>
      simp only [List.length_cons, Nat.add_right_cancel_iff] at h
      simp only [List.zipWith_cons_cons, priEval_cons, ih q h]
      ring

theorem commit_zipWith_add (g : G) (p q : List F) :
    commit g (List.zipWith (· + ·) p q) = List.zipWith (· + ·) (commit g p) (commit g q) := by
  induction p generalizing q with
  | nil => simp [commit]
  | cons a p ih =>
    cases q with
    | nil => simp [commit]
    | cons b q =>
      have := ih q
      simp only [commit] at this ⊢
      simp [this, add_smul]

theorem length_foldl_zipWith {α : Type} [Add α] (L : Nat) (rest : List (List α)) (x : List α)
    (hx : x.length = L) (hr : ∀ y ∈ rest, y.length = L) :
    (rest.foldl (List.zipWith (· + ·)) x).length = L := by
  induction rest generalizing x with
  | nil => simpa using hx
  | cons y rest ih =>
    simp only [List.foldl_cons]
    apply ih
    · simp [hx, hr y (by simp)]
    · intro z hz; exact hr z (by simp [hz])

/-- evaluating the accumulated commitment vector = sum of the evaluations -/
theorem pubEval_foldl (L : Nat) (rest : List (List G)) (x : List G) (hx : x.length = L)
    (hr : ∀ y ∈ rest, y.length = L) (i : Int) :
    pubEval (S := F) (rest.foldl (List.zipWith (· + ·)) x) i
      = pubEval (S := F) x i + (rest.map (fun y => pubEval (S := F) y i)).sum := by
  induction rest generalizing x with
  | nil => simp
  | cons y rest ih =>
    simp only [List.foldl_cons, List.map_cons, List.sum_cons]
    rw [ih (List.zipWith (· + ·) x y) (by simp [hx, hr y (by simp)]) (fun z hz => hr z (by simp [hz])),
      pubEval_zipWith_add x y (by rw [hx, hr y (by simp)])]
    abel

theorem priEval_foldl (L : Nat) (rest : List (List F)) (x : List F) (hx : x.length = L)
    (hr : ∀ y ∈ rest, y.length = L) (i : Int) :
    priEval (rest.foldl (List.zipWith (· + ·)) x) i = priEval x i + (rest.map (fun y => priEval y i)).sum := by
  induction rest generalizing x with
  | nil => simp
  | cons y rest ih =>
    simp only [List.foldl_cons, List.map_cons, List.sum_cons]
    rw [ih (List.zipWith (· + ·) x y) (by simp [hx, hr y (by simp)]) (fun z hz => hr z (by simp [hz])),
      priEval_zipWith_add x y (by rw [hx, hr y (by simp)])]
    ring

theorem commit_foldl (g : G) (rest : List (List F)) (x : List F) :
    commit g (rest.foldl (List.zipWith (· + ·)) x)
      = (rest.map (commit g)).foldl (List.zipWith (· + ·)) (commit g x) := by
  induction rest generalizing x with
  | nil => rfl
  | cons y rest ih => simp only [List.foldl_cons, List.map_cons, ih, commit_zipWith_add]

/-- **sum of commitments = commitment of the summed polynomial** -/
theorem vecSum_commit (g : G) (fs : List (List F)) :
    vecSum (fs.map (commit g)) = commit g (vecSum fs) := by
  cases fs with
  | nil => rfl
  | cons f rest => simp only [List.map_cons, vecSum, commit_foldl]

theorem pubEval_vecSum (L : Nat) (cs : List (List G)) (h : ∀ c ∈ cs, c.length = L) (i : Int) :
    pubEval (S := F) (vecSum cs) i = (cs.map (fun c => pubEval (S := F) c i)).sum := by
  cases cs with
  | nil => simp [vecSum, pubEval_nil]
  | cons c rest =>
    simp only [vecSum, List.map_cons, List.sum_cons]
    exact pubEval_foldl L rest c (h c (by simp)) (fun y hy => h y (by simp [hy])) i

theorem priEval_vecSum (L : Nat) (fs : List (List F)) (h : ∀ f ∈ fs, f.length = L) (i : Int) :
    priEval (vecSum fs) i = (fs.map (fun f => priEval f i)).sum := by
  cases fs with
  | nil => simp [vecSum, priEval_nil]
  | cons f rest =>
    simp only [vecSum, List.map_cons, List.sum_cons]
    exact priEval_foldl L rest f (h f (by simp)) (fun y hy => h y (by simp [hy])) i

theorem length_vecSum {α : Type} [Add α] (L : Nat) (xs : List (List α)) (hne : xs ≠ [])
    (h : ∀ x ∈ xs, x.length = L) : (vecSum xs).length = L := by
  cases xs with
  | nil => exact absurd rfl hne
  | cons x rest =>
    exact length_foldl_zipWith L rest x (h x (by simp)) (fun y hy => h y (by simp [hy]))

/-- **the summed share lies on the summed commitments**: if every dealer's share checks against
that dealer's commitments at index `i`, the sum of the shares checks against the
coefficient-wise sum of the commitment vectors (all of one length). -/
theorem sum_share_on_sum_commits (g : G) (L : Nat) (ds : List (F × List G)) (i : Int)
    (hlen : ∀ d ∈ ds, d.2.length = L) (hchk : ∀ d ∈ ds, d.1 • g = pubEval (S := F) d.2 i) :
    (ds.map (·.1)).sum • g = pubEval (S := F) (vecSum (ds.map (·.2))) i := by
  rw [pubEval_vecSum L _ (by intro c hc; obtain ⟨d, hd, rfl⟩ := List.mem_map.1 hc; exact hlen d hd)]
  induction ds with
  | nil => simp
  | cons d ds ih =>
    simp only [List.map_cons, List.sum_cons, add_smul]
    rw [hchk d (by simp), ih (fun x hx => hlen x (by simp [hx])) (fun x hx => hchk x (by simp [hx]))]

end Dos.Dkg

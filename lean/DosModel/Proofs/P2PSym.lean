import DosModel.Model.P2PSym

namespace Dos.P2PSym
open Dos

/-- exactly which frames are delivered, and as what -/
theorem recvFrame_deliver (c : Conn) (f : Frame) (d : Delivery) :
    recvFrame c f = .deliver d ↔
      ∃ p a, f = .sealed c.k (.pkg p) ∧ p.any = some a ∧ p.sig = .good c.pk a.value ∧
        c.known a.typ = true ∧ a.wf = true ∧
        d = { typ := a.typ, value := a.value, sender := p.sender, nonce := p.nonce, reply := p.reply } := by
  constructor
  · intro h
    cases f with
    | broken => simp [recvFrame] at h
    | raw n => simp [recvFrame] at h
    | sealed k' pt =>
      unfold recvFrame at h
      by_cases hk : k' = c.k
      · subst hk
        simp only [ne_eq, not_true_eq_false, if_false] at h
        cases pt with
        | empty => simp at h
        | junk n => simp at h
        | pkg p =>
          simp only at h
          cases ha : p.any with
          | none => rw [ha] at h; simp only at h; split at h <;> simp at h
          | some a =>
            rw [ha] at h
            simp only at h
            by_cases hs : p.sig = .good c.pk a.value
            · by_cases hkn : c.known a.typ = false ∨ a.wf = false
              · simp [hs, hkn] at h
              · simp only [hs, ne_eq, not_true_eq_false, if_false, hkn] at h
                injection h with h
                refine ⟨p, a, rfl, ha, hs, ?_, ?_, h.symm⟩
                · cases hh : c.known a.typ <;> simp_all
                · cases hh : a.wf <;> simp_all
            · simp [hs] at h
      · simp [hk] at h
  · rintro ⟨p, a, rfl, ha, hs, hk, hw, rfl⟩
    simp [recvFrame, ha, hs, hk, hw]

theorem recvFrame_pack (c : Conn) (sender : Bytes) (m : Msg) (nonce : Nat) (reply : Bool)
    (hk : c.known m.typ = true) :
    recvFrame c (pack c.pk c.k sender m nonce reply) = .deliver (delivered sender m nonce reply) := by
  rw [recvFrame_deliver]
  exact ⟨_, _, rfl, rfl, rfl, hk, rfl, rfl⟩

/-- one step either leaves the delivered list alone or appends the delivery of that very frame -/
theorem rstep_out (c : Conn) (st : RState) (f : Frame) :
    (rstep c st f).out = st.out ∨ ∃ d, recvFrame c f = .deliver d ∧ (rstep c st f).out = st.out ++ [d] := by
  unfold rstep
  by_cases hs : st.stalled = true ∨ st.crashed = true
  · simp [hs]
  · simp only [hs, if_false]
    cases h : recvFrame c f with
    | deliver d => right; exact ⟨d, rfl, rfl⟩
    | skip => left; rfl
    | panic s => left; rfl
    | err e => left; simp only; split <;> (try split) <;> rfl

theorem foldl_out (c : Conn) : ∀ (fs : List Frame) (st : RState) (d : Delivery),
    d ∈ (fs.foldl (rstep c) st).out → d ∈ st.out ∨ ∃ f ∈ fs, recvFrame c f = .deliver d := by
  intro fs
  induction fs with
  | nil => intro st d h; left; exact h
  | cons f fs ih =>
    intro st d h
    simp only [List.foldl_cons] at h
    rcases ih _ d h with h1 | ⟨g, hg, hd⟩
    · rcases rstep_out c st f with e | ⟨d', hd', e⟩
      · rw [e] at h1; left; exact h1
      · rw [e] at h1
        rcases List.mem_append.mp h1 with h2 | h2
        · left; exact h2
        · right
          have : d = d' := by simpa using h2
          subst this
          exact ⟨f, by simp, hd'⟩
    · right; exact ⟨g, by simp [hg], hd⟩

/-- a frame this endpoint packed itself, sent back to it: it opens (same key, same nonce) but the
payload signature is its OWN, and it is verified under the REMOTE endpoint's handshake key -/
theorem recvFrame_reflected (c : Conn) (hne : c.self ≠ c.pk) (sender : Bytes) (m : Msg) (nonce : Nat)
    (reply : Bool) : recvFrame c (pack c.self c.k sender m nonce reply) = .err .sig := by
  have : Sig.good c.self m.value ≠ Sig.good c.pk m.value := by
    intro h; injection h with h _; exact hne h
  simp [recvFrame, pack, this]

/-- the frames this endpoint sent on the connection were packed by it, with its own key -/
def OwnPacked (c : Conn) (own : List Frame) : Prop :=
  ∀ f ∈ own, ∃ sender m nonce reply, f = pack c.self c.k sender m nonce reply

/-- a frame the man in the middle made himself, or bounced back, is never delivered -/
theorem forged_not_delivered (c : Conn) (hne : c.self ≠ c.pk) (sent own : List Frame)
    (hown : OwnPacked c own) (f : Frame) (hd : Derivable c.k sent own f)
    (hn : f ∉ sent) : ∀ d, recvFrame c f ≠ .deliver d := by
  intro d h
  cases hd with
  | copy hm => exact hn hm
  | reflect hm =>
    obtain ⟨sender, m, nonce, reply, rfl⟩ := hown f hm
    rw [recvFrame_reflected c hne] at h; simp at h
  | raw n => simp [recvFrame] at h
  | broken => simp [recvFrame] at h
  | otherKey hk => simp [recvFrame, hk] at h

/-- the honest run: state after receiving the packed messages -/
theorem recvAll_honest (c : Conn) (sender : Bytes) :
    ∀ (ms : List (Msg × Nat × Bool)) (st : RState), st.stalled = false → st.crashed = false →
      (∀ m ∈ ms, c.known m.1.typ = true) →
      (ms.map fun m => pack c.pk c.k sender m.1 m.2.1 m.2.2).foldl (rstep c) st =
        { st with out := st.out ++ ms.map fun m => delivered sender m.1 m.2.1 m.2.2 } := by
  intro ms
  induction ms with
  | nil => intro st _ _ _; simp
  | cons m ms ih =>
    intro st hs hc hk
    simp only [List.map_cons, List.foldl_cons]
    have h1 : rstep c st (pack c.pk c.k sender m.1 m.2.1 m.2.2) =
        { st with out := st.out ++ [delivered sender m.1 m.2.1 m.2.2] } := by
      unfold rstep
      simp [hs, hc, recvFrame_pack c sender m.1 m.2.1 m.2.2 (hk m (by simp))]
    rw [h1]
    have := ih { st with out := st.out ++ [delivered sender m.1 m.2.1 m.2.2] } hs hc
      (fun x hx => hk x (by simp [hx]))
    rw [this]
    simp

/-- with the error channel drained, only damage to the framing (or a crash) stops a connection:
as long as no frame is `broken` and none panics, the receiver never stalls and delivers exactly
the deliverable frames, in order -/
theorem recvAll_no_stall (c : Conn) (hd : c.drains = true) :
    ∀ (fs : List Frame) (st : RState), st.stalled = false → st.crashed = false →
      (∀ f ∈ fs, recvFrame c f ≠ .err .framing ∧ ∀ s, recvFrame c f ≠ .panic s) →
      (fs.foldl (rstep c) st).stalled = false ∧ (fs.foldl (rstep c) st).crashed = false ∧
      (fs.foldl (rstep c) st).out = st.out ++ fs.filterMap (fun f =>
        match recvFrame c f with
        | .deliver d => some d
        | _ => none) := by
  intro fs
  induction fs with
  | nil => intro st h1 h2 _; simp [h1, h2]
  | cons f fs ih =>
    intro st h1 h2 hf
    have hf0 := hf f (by simp)
    simp only [List.foldl_cons]
    have hstep : (rstep c st f).stalled = false ∧ (rstep c st f).crashed = false ∧
        (rstep c st f).out = st.out ++ (match recvFrame c f with
          | .deliver d => [d]
          | _ => []) := by
      unfold rstep
      simp only [h1, h2, Bool.false_eq_true, or_self, if_false]
      cases hr : recvFrame c f with
      | deliver d => simp [h1, h2]
      | skip => simp [h1, h2]
      | panic s => exact absurd hr (hf0.2 s)
      | err e =>
        have he : e ≠ .framing := by intro h; subst h; exact hf0.1 hr
        simp [he, hd, h1, h2]
    obtain ⟨a, b, c'⟩ := ih (rstep c st f) hstep.1 hstep.2.1 (fun g hg => hf g (by simp [hg]))
    refine ⟨a, b, ?_⟩
    rw [c', hstep.2.2]
    cases hr : recvFrame c f <;> simp [List.filterMap_cons, hr]

end Dos.P2PSym

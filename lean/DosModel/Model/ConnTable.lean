/-
Server-level connection state machine of p2p/server.go, as STATE ACROSS CONNECTIONS
(Listen's accept goroutine, receiveHandler, callHandler, handleCallReq, runClient,
DisConnectTo; client.send / dispatch / close as far as they matter between connections).

A network of nodes that all run this code (`ideal n = false`) plus harness endpoints
(`ideal n = true`: as ACCEPTORS they have no table and no duplicate guard — they accept every
connection and answer on the connection a request came in on; as diallers they behave like a
node: one current connection per peer, forgotten when it ends).  Per node: callHandler's table `out` (outbound clients), receiveHandler's
table `inb` (inbound clients), the removals reported by `runClient` goroutines that the
handlers have not taken yet (`rm`), and the requests its application holds (`held`).
Per connection (one record for both ends): who dialled whom, the id announced to the
dialler, the session key and the two signing keys, whether the wire is up, per end whether
`client.run` has returned (then `runClient` reported the removal) and whether `c.ctx` is
cancelled, the dialler's `dispatch` state (counter, table nonce ↦ request) and the frames
in flight in both directions.

What the code does and the model keeps (asymmetries included):
* callHandler looks a Request's connection up under the requested id, stores a dialled client
  under the DIALLED id and (f4bcda2) refuses one that announced another id; receiveHandler
  stores an accepted client under the ANNOUNCED id and closes a second one from the same id
  (duplicate guard);
* `runClient` reports `c.remoteID` to the table of whoever started it — decided by its
  PARAMETER (`newClient` is given `inBound = true` on both paths, the field is never read);
* a reported removal, and `DisConnectTo`, delete the entry under that id whichever connection
  it is, and close nothing: the connection stays up (orphan) until its idle timer;
* `client.run` returns on the first reported error (EOF, or a rejected frame while the
  connection lives on): removal reported, pending requests NOT failed (they run into their
  deadline); `close()` (idle timer) fails them;
* `Reply` picks the connection by peer id when the application replies; the requester matches
  a reply by nonce alone on the connection it arrives on; nonces of a connection count up from
  a per-connection random base (2071f1f; before: from 0 on every connection).

Which of these the code has is REGENERATED (`Gen/P2PFlow.lean`) and enters through `Cfg`;
the theorems are about `Cfg.good` and `Props` pins `Cfg` of the code to it.
Core Lean only.
-/
import DosModel.Model.Util

namespace Dos.ConnTable
open Dos

/-- the ids a table operation can be keyed by -/
inductive KeyId | remote | localId | dialled | other
  deriving DecidableEq, Repr

def keyIdOfExpr (s : String) : KeyId :=
  if s == "string(c.remoteID)" || s == "c.remoteID" then .remote
  else if s == "string(c.localID)" || s == "c.localID" then .localId
  else if s == "string(req.id)" then .dialled
  else .other

structure Cfg where
  keyPerConn  : Bool    -- newClient draws a key pair per connection; session key derived from it in the handshake
  nonceBase   : Bool    -- request nonces start at a per-connection random base
  idMatch     : Bool    -- callHandler refuses a connection announcing another id than the dialled one
  inGuard     : KeyId   -- receiveHandler: key the duplicate guard looks up
  guardCloses : Bool    -- … and it closes the new client and skips the store
  inStore     : KeyId   -- receiveHandler: key an accepted client is stored under
  outStore    : KeyId   -- callHandler: key a dialled client is stored under
  reports     : KeyId   -- runClient: the id it reports
  outEndsOut  : Bool    -- a client started by callHandler is reported to callHandler
  inEndsIn    : Bool    -- a client started by receiveHandler is reported to receiveHandler
  deriving DecidableEq, Repr

def Cfg.good : Cfg :=
  { keyPerConn := true, nonceBase := true, idMatch := true, inGuard := .remote, guardCloses := true,
    inStore := .remote, outStore := .dialled, reports := .remote, outEndsOut := true, inEndsIn := true }

/-- an id that is nobody's -/
def noId : Nat := 1000000007

def keyVal (k : KeyId) (loc rem dial : Nat) : Nat :=
  match k with
  | .remote => rem
  | .localId => loc
  | .dialled => dial
  | .other => noId

structure Nonce where
  space : Nat
  idx   : Nat
  deriving DecidableEq, Repr

inductive Outcome
  | waiting
  | got (m : Nat)     -- Request returned a reply whose payload names request `m`
  | err
  deriving DecidableEq, Repr

structure Req where
  src   : Nat := 0
  dst   : Nat := 0
  conn  : Option Nat := none       -- the connection whose dispatch registered it
  nonce : Option Nonce := none
  out   : Outcome := .waiting
  deriving DecidableEq, Repr

structure Conn where
  d    : Nat := 0          -- dialling node
  a    : Nat := 0          -- accepting node
  ann  : Nat := 0          -- id announced to the dialler (its c.remoteID)
  key  : Nat := 0          -- session key
  skD  : Nat := 0          -- the dialler's signing key on this connection
  skA  : Nat := 0          -- the acceptor's
  up   : Bool := false     -- the wire
  regA : Bool := false     -- the accepting end was registered and runs
  retD : Bool := false     -- client.run returned at the dialler (runClient reported)
  retA : Bool := false
  clD  : Bool := false     -- c.ctx cancelled at the dialler
  clA  : Bool := false
  next : Nat := 0          -- dispatch's counter (relative to the base)
  pend : List (Nonce × Nat) := []   -- dispatch's table: nonce ↦ request
  reqQ : List (Nonce × Nat) := []   -- request frames in flight, dialler → acceptor: (nonce, request)
  repQ : List (Nonce × Nat) := []   -- reply frames in flight, acceptor → dialler: (nonce, payload)
  deriving Repr

structure Held where
  conn   : Nat
  sender : Nat
  nonce  : Nonce
  g      : Nat
  deriving DecidableEq, Repr

structure Node where
  out  : Nat → Option Nat := fun _ => none   -- callHandler's clients
  inb  : Nat → Option Nat := fun _ => none   -- receiveHandler's clients
  rm   : List (Bool × Nat) := []             -- reported, not yet taken: (true = on removeCallingC, id)
  held : List Held := []                     -- messages the application has not answered yet

structure Net where
  ideal   : Nat → Bool := fun _ => false
  nodes   : Nat → Node := fun _ => {}
  nconn   : Nat := 0
  conns   : Nat → Conn := fun _ => {}
  nreq    : Nat := 0
  reqs    : Nat → Req := fun _ => {}
  nextKey : Nat := 1

inductive Ev
  /-- node `a` calls Request for `b`; `dial` is what a dial would meet: `none` refused / handshake
  failure, `some x` an endpoint announcing id `x` -/
  | request (a b : Nat) (dial : Option Nat)
  | deliverReq (c : Nat)          -- the oldest request frame in flight on `c` reaches the acceptor's application
  | appReply (b k : Nat)          -- node `b`'s application answers the `k`-th message it holds
  | deliverReply (c : Nat)        -- the oldest reply frame in flight on `c` reaches the dialler's dispatch
  | cut (c : Nat)                 -- the wire of `c` goes down (peer hang-up, network): both ends read EOF
  | reject (c : Nat) (atD : Bool) -- a rejected frame at one end: run returns, the connection lives on
  | close (c : Nat) (atD : Bool)  -- `c.close()` at one end (idle timer): context cancelled
  | procRm (n k : Nat)            -- node `n`'s handler takes the `k`-th reported removal
  | disconnect (a b : Nat)        -- DisConnectTo
  | expire (i : Nat)              -- request `i`'s context ends (5 s deadline, cancel)
  | reset (n : Nat)               -- node `n` restarts: tables, application state and every client of it gone
  deriving DecidableEq, Repr

def Net.setNode (s : Net) (n : Nat) (f : Node → Node) : Net :=
  { s with nodes := fun m => if m = n then f (s.nodes m) else s.nodes m }

def Net.setConn (s : Net) (c : Nat) (f : Conn → Conn) : Net :=
  { s with conns := fun e => if e = c then f (s.conns e) else s.conns e }

def Net.setReq (s : Net) (i : Nat) (f : Req → Req) : Net :=
  { s with reqs := fun j => if j = i then f (s.reqs j) else s.reqs j }

def setTab (t : Nat → Option Nat) (k : Nat) (v : Option Nat) : Nat → Option Nat :=
  fun j => if j = k then v else t j

def lookupN (p : List (Nonce × Nat)) (ν : Nonce) : Option Nat :=
  match p.find? (fun e => e.1 == ν) with
  | some e => some e.2
  | none => none

def eraseN (p : List (Nonce × Nat)) (ν : Nonce) : List (Nonce × Nat) :=
  p.filter (fun e => !(e.1 == ν))

/-- what `runClient` of the dialling end of `x` sends, and on which channel -/
def reportD (cfg : Cfg) (x : Conn) : Bool × Nat := (cfg.outEndsOut, keyVal cfg.reports x.d x.ann x.a)
/-- … of the accepting end -/
def reportA (cfg : Cfg) (x : Conn) : Bool × Nat := (!cfg.inEndsIn, keyVal cfg.reports x.a x.d x.d)

/-- `client.run` returns at the dialling end of `c` (if it has not yet): runClient reports -/
def retAtD (cfg : Cfg) (s : Net) (c : Nat) : Net :=
  let x := s.conns c
  if x.retD then s else
  (s.setConn c (fun x => { x with retD := true })).setNode x.d (fun n => { n with rm := n.rm ++ [reportD cfg x] })

def retAtA (cfg : Cfg) (s : Net) (c : Nat) : Net :=
  let x := s.conns c
  if x.retA || !x.regA then s else
  (s.setConn c (fun x => { x with retA := true })).setNode x.a (fun n => { n with rm := n.rm ++ [reportA cfg x] })

def spaceOf (cfg : Cfg) (c : Nat) : Nat := if cfg.nonceBase then c + 1 else 0

/-- `go c.send(req)` + dispatch's peerSend branch for request `i` on connection `c` -/
def hand (cfg : Cfg) (s : Net) (i c : Nat) : Net :=
  let x := s.conns c
  if x.clD then s else            -- client.send: c.ctx done, the request is dropped silently
  let ν : Nonce := ⟨spaceOf cfg c, x.next⟩
  let s1 := s.setConn c (fun x => { x with next := x.next + 1, pend := (ν, i) :: x.pend,
                                            reqQ := if x.up then x.reqQ ++ [(ν, i)] else x.reqQ })
  s1.setReq i (fun r => { r with conn := some c, nonce := some ν })

/-- session / signing keys of a new connection between `a` and `b` -/
def staticKey (a b : Nat) : Nat := 3000000 + (if a ≤ b then 1000 * a + b else 1000 * b + a)
def nodeKey (a : Nat) : Nat := 2000000 + a

def failAll (p : List (Nonce × Nat)) (reqs : Nat → Req) : Nat → Req :=
  fun j => if (p.map Prod.snd).contains j ∧ (reqs j).out = .waiting then { reqs j with out := .err } else reqs j

/-- `NewP2pRequest`: request number `s.nreq` -/
def newReq (s : Net) (a b : Nat) : Net :=
  { s with nreq := s.nreq + 1, reqs := fun j => if j = s.nreq then { src := a, dst := b } else s.reqs j }

/-- the handler answers the request with an error (dial / handshake failure, other id announced) -/
def failReq (s : Net) (i : Nat) : Net := s.setReq i (fun r => { r with out := .err })

/-- receiveHandler of node `b` finds an entry under the key its duplicate guard looks up, and closes the new client -/
def refused (cfg : Cfg) (s : Net) (a b : Nat) : Bool :=
  !s.ideal b && ((s.nodes b).inb (keyVal cfg.inGuard b a a)).isSome && cfg.guardCloses

def mkConn (cfg : Cfg) (s : Net) (a b x : Nat) : Conn :=
  { d := a, a := b, ann := x,
    key := if cfg.keyPerConn || s.ideal a || s.ideal b then s.nextKey else staticKey a b,
    skD := if cfg.keyPerConn || s.ideal a then s.nextKey + 1 else nodeKey a,
    skA := if cfg.keyPerConn || s.ideal b then s.nextKey + 2 else nodeKey b,
    up := !refused cfg s a b, regA := !refused cfg s a b, clA := refused cfg s a b }

/-- dial + handshake of `a` with `b` (which announces `x`) succeeded: connection number `s.nconn`; the
accepting side registers it (or its duplicate guard closes it), the dialling side registers it -/
def openConn (cfg : Cfg) (s : Net) (a b x : Nat) : Net :=
  let c := s.nconn
  let s1 : Net := { s with nconn := c + 1, nextKey := s.nextKey + 3,
                           conns := fun e => if e = c then mkConn cfg s a b x else s.conns e }
  let s2 := if s.ideal b || refused cfg s a b then s1 else
    s1.setNode b (fun n => { n with inb := setTab n.inb (keyVal cfg.inStore b a a) (some c) })
  s2.setNode a (fun n => { n with out := setTab n.out (keyVal cfg.outStore a x b) (some c) })

def step (cfg : Cfg) (s : Net) : Ev → Net
  | .request a b dial =>
    let i := s.nreq
    let s0 := newReq s a b
    match (s.nodes a).out b with
    | some c => hand cfg s0 i c
    | none =>
      match dial with
      | none => failReq s0 i
      | some x =>
        if cfg.idMatch && x != b then failReq s0 i else
        let s4 := hand cfg (openConn cfg s0 a b x) i s.nconn
        -- a client closed by the other side's guard: the dialler reads EOF, run returns
        if refused cfg s0 a b then retAtD cfg s4 s.nconn else s4
  | .deliverReq c =>
    if c < s.nconn then
      let x := s.conns c
      match x.reqQ with
      | [] => s
      | (ν, g) :: rest =>
        let s1 := s.setConn c (fun x => { x with reqQ := rest })
        if x.regA && !x.clA then
          s1.setNode x.a (fun n => { n with held := n.held ++ [{ conn := c, sender := x.d, nonce := ν, g := g }] })
        else s1
    else s
  | .appReply b k =>
    match (s.nodes b).held[k]? with
    | none => s
    | some h =>
      let s1 := s.setNode b (fun n => { n with held := n.held.eraseIdx k })
      let target : Option Nat := if s.ideal b then some h.conn else (s.nodes b).inb h.sender
      match target with
      | none => s1                              -- "can't find client"
      | some c' =>
        let y := s.conns c'
        if y.clA || !y.up then s1               -- client.send on a cancelled client / write on a dead wire
        else s1.setConn c' (fun y => { y with repQ := y.repQ ++ [(h.nonce, h.g)] })
  | .deliverReply c =>
    if c < s.nconn then
      let x := s.conns c
      match x.repQ with
      | [] => s
      | (ν, m) :: rest =>
        let s1 := s.setConn c (fun x => { x with repQ := rest })
        if x.clD then s1 else
        match lookupN x.pend ν with
        | none => s1
        | some i =>
          let s2 := s1.setConn c (fun x => { x with pend := eraseN x.pend ν })
          if (s.reqs i).out = .waiting then s2.setReq i (fun r => { r with out := .got m }) else s2
    else s
  | .cut c =>
    if c < s.nconn then
      let s1 := s.setConn c (fun x => { x with up := false, reqQ := [], repQ := [] })
      retAtA cfg (retAtD cfg s1 c) c
    else s
  | .reject c atD =>
    if c < s.nconn then
      if atD then (if (s.conns c).clD then s else retAtD cfg s c)
      else (if (s.conns c).clA then s else retAtA cfg s c)
    else s
  | .close c atD =>
    if c < s.nconn then
      if atD then
        if (s.conns c).clD then s else
        let x := s.conns c
        let s1 : Net := { s with reqs := failAll x.pend s.reqs }
        let s2 := s1.setConn c (fun x => { x with clD := true, pend := [] })
        retAtD cfg s2 c
      else
        if (s.conns c).clA || !(s.conns c).regA then s else
        let s1 := s.setConn c (fun x => { x with clA := true })
        retAtA cfg s1 c
    else s
  | .procRm n k =>
    match (s.nodes n).rm[k]? with
    | none => s
    | some (isCall, id) =>
      s.setNode n (fun nd =>
        if isCall then { nd with rm := nd.rm.eraseIdx k, out := setTab nd.out id none }
        else { nd with rm := nd.rm.eraseIdx k, inb := setTab nd.inb id none })
  | .disconnect a b =>
    s.setNode a (fun nd => { nd with out := setTab nd.out b none })
  | .expire i =>
    if i < s.nreq ∧ (s.reqs i).out = .waiting then s.setReq i (fun r => { r with out := .err }) else s
  | .reset n =>
    { s with
      nodes := fun m => if m = n then {} else s.nodes m,
      conns := fun c =>
        let x := s.conns c
        if x.d = n ∨ x.a = n then
          { x with up := false, reqQ := [], repQ := [], pend := if x.d = n then [] else x.pend,
                   retD := x.retD || x.d = n, clD := x.clD || x.d = n,
                   retA := x.retA || x.a = n, clA := x.clA || x.a = n }
        else x,
      reqs := fun j => if (s.reqs j).src = n ∧ (s.reqs j).out = .waiting then { s.reqs j with out := .err } else s.reqs j }

def run (cfg : Cfg) (s : Net) (evs : List Ev) : Net := evs.foldl (step cfg) s

def init (ideal : Nat → Bool := fun _ => false) : Net := { ideal := ideal }

end Dos.ConnTable

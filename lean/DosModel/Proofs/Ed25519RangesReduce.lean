/-
C20 (round 2) — scReduce (64-byte input, used by SetBytes-style reductions of hashes): interval analysis, value
argument and the assembled byte-level result  leNat (scReduce s) = leNat s mod ℓ  for ALL 64-byte inputs.
-/
import DosModel.Proofs.Ed25519RangesFinal
import DosModel.Proofs.Ed25519RangesLoad64

set_option exponentiation.threshold 600

namespace Dos.Ed25519
open Dos Dos.IntervalProg Dos.IntervalProg.ScProg Dos.Gen.Ed25519Sc Dos.Gen.Ed25519ScProg List

theorem scReduce_rangeCheck : rangeCheck scReduce_prog [64] = true := by decide +kernel

theorem scReduce_tail_value (st : L24) :
    value (runBlocks shrI (scReduce_blocks.drop (scReduce_blocks.length - 2)) st) = value st - st.s12 * (ell : Int) := by
  unfold_gen
  simp only [List.length_cons, List.length_nil, Nat.reduceAdd, Nat.reduceSub, List.drop_succ_cons, List.drop_zero,
    runBlocks, List.foldl]
  unfold_gen
  simp only [value, shl, ell]
  ring

theorem scReduce_limbs_eq (s : Bytes) :
    toL24 (limbsW id scReduce_prog (loadW id scReduce_prog (scReduce_prog.rawVals [s])))
      = app24 (scReduce_limbs shrI) (scReduce_load shrI s) := by
  rw [scReduce_tie_load, scReduce_tie_limbs]

/-- ranges of the result limbs and overflow freedom, for all 64-byte inputs -/
theorem scReduce_ranges (s : Bytes) (hs : s.length = 64) :
    scReduce_prog.SafeFrom (scReduce_prog.rawVals [s])
    ∧ 0 ≤ (app24 (scReduce_limbs shrI) (scReduce_load shrI s)).s11
    ∧ (app24 (scReduce_limbs shrI) (scReduce_load shrI s)).s11 ≤ 2097152
    ∧ 0 ≤ value (app24 (scReduce_limbs shrI) (scReduce_load shrI s))
    ∧ value (app24 (scReduce_limbs shrI) (scReduce_load shrI s)) < (ell : Int) := by
  have hlens : [s].map List.length = [64] := by simp [hs]
  have hd : Digits11 (toL24 (limbsW id scReduce_prog (loadW id scReduce_prog (scReduce_prog.rawVals [s])))) := by
    rw [scReduce_limbs_eq]; exact scReduce_final _ _ _ _ _ _ _ _ _ _ _ _ _ _ _ _ _ _ _ _ _ _ _ _
  have hz : HiZero (toL24 (limbsW id scReduce_prog (loadW id scReduce_prog (scReduce_prog.rawVals [s])))) := by
    rw [scReduce_limbs_eq]; exact scReduce_hiZero shrI _ _ _ _ _ _ _ _ _ _ _ _ _ _ _ _ _ _ _ _ _ _ _ _
  have h := routine_ranges scReduce_tie_blocks scReduce_tail_value [s] (by rw [hlens]; exact scReduce_rangeCheck) hd hz
  rw [scReduce_limbs_eq] at h
  exact h

theorem scReduce_congr (shr : Shr) (l : List Int) :
    value (app24 (scReduce_limbs shr) l) % (ell : Int) = value (toL24 l) % (ell : Int) := by
  unfold app24
  have h := emod_eq_of_dvd_sub (runBlocks_preserves shr _ scReduce_blocks_preserve
    (scReduce_init (l.getD 0 0) (l.getD 1 0) (l.getD 2 0) (l.getD 3 0) (l.getD 4 0) (l.getD 5 0) (l.getD 6 0) (l.getD 7 0) (l.getD 8 0) (l.getD 9 0) (l.getD 10 0) (l.getD 11 0) (l.getD 12 0) (l.getD 13 0) (l.getD 14 0) (l.getD 15 0) (l.getD 16 0) (l.getD 17 0) (l.getD 18 0) (l.getD 19 0) (l.getD 20 0) (l.getD 21 0) (l.getD 22 0) (l.getD 23 0)))
  rw [scReduce_init_value] at h
  exact h

/-- **scReduce, complete**: the output bytes spell exactly the input value modulo ℓ -/
theorem scReduce_full (s : Bytes) (hs : s.length = 64) :
    (leNat (scReduce shrI s) : Int) = (leNat s : Int) % (ell : Int) := by
  obtain ⟨_, r0, r1, r2, r3⟩ := scReduce_ranges s hs
  have hd : Digits11 (app24 (scReduce_limbs shrI) (scReduce_load shrI s)) := scReduce_final _ _ _ _ _ _ _ _ _ _ _ _ _ _ _ _ _ _ _ _ _ _ _ _
  have hz : HiZero (app24 (scReduce_limbs shrI) (scReduce_load shrI s)) := scReduce_hiZero shrI _ _ _ _ _ _ _ _ _ _ _ _ _ _ _ _ _ _ _ _ _ _ _ _
  have hpk := packed_value _ hd hz ⟨r0, by omega⟩
  rw [scReduce_eq_app, scReduce_store_eq, hpk]
  apply eq_emod_of_range r2 r3
  rw [scReduce_congr, scReduce_load_value s hs]

end Dos.Ed25519

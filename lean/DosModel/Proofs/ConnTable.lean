import DosModel.Model.ConnTable

/-! Basic facts about the connection-table model: how the state-update helpers act on each
component, and that an outcome, once there, is never changed. -/
set_option linter.unusedSimpArgs false
namespace Dos.ConnTable
open Dos

variable (cfg : Cfg)

@[simp] theorem setConn_reqs (s : Net) (c : Nat) (f : Conn → Conn) : (s.setConn c f).reqs = s.reqs := rfl
@[simp] theorem setConn_nodes (s : Net) (c : Nat) (f : Conn → Conn) : (s.setConn c f).nodes = s.nodes := rfl
@[simp] theorem setConn_nreq (s : Net) (c : Nat) (f : Conn → Conn) : (s.setConn c f).nreq = s.nreq := rfl
@[simp] theorem setConn_nconn (s : Net) (c : Nat) (f : Conn → Conn) : (s.setConn c f).nconn = s.nconn := rfl
@[simp] theorem setConn_ideal (s : Net) (c : Nat) (f : Conn → Conn) : (s.setConn c f).ideal = s.ideal := rfl
@[simp] theorem setConn_nextKey (s : Net) (c : Nat) (f : Conn → Conn) : (s.setConn c f).nextKey = s.nextKey := rfl
theorem setConn_conns (s : Net) (c : Nat) (f : Conn → Conn) (e : Nat) :
    (s.setConn c f).conns e = if e = c then f (s.conns e) else s.conns e := rfl
@[simp] theorem setConn_conns_same (s : Net) (c : Nat) (f : Conn → Conn) : (s.setConn c f).conns c = f (s.conns c) := by
  simp [setConn_conns]
theorem setConn_conns_ne (s : Net) (c : Nat) (f : Conn → Conn) (e : Nat) (h : e ≠ c) : (s.setConn c f).conns e = s.conns e := by
  simp [setConn_conns, h]

@[simp] theorem setNode_reqs (s : Net) (n : Nat) (f : Node → Node) : (s.setNode n f).reqs = s.reqs := rfl
@[simp] theorem setNode_conns (s : Net) (n : Nat) (f : Node → Node) : (s.setNode n f).conns = s.conns := rfl
@[simp] theorem setNode_nreq (s : Net) (n : Nat) (f : Node → Node) : (s.setNode n f).nreq = s.nreq := rfl
@[simp] theorem setNode_nconn (s : Net) (n : Nat) (f : Node → Node) : (s.setNode n f).nconn = s.nconn := rfl
@[simp] theorem setNode_ideal (s : Net) (n : Nat) (f : Node → Node) : (s.setNode n f).ideal = s.ideal := rfl
@[simp] theorem setNode_nextKey (s : Net) (n : Nat) (f : Node → Node) : (s.setNode n f).nextKey = s.nextKey := rfl
theorem setNode_nodes (s : Net) (n : Nat) (f : Node → Node) (m : Nat) :
    (s.setNode n f).nodes m = if m = n then f (s.nodes m) else s.nodes m := rfl
@[simp] theorem setNode_nodes_same (s : Net) (n : Nat) (f : Node → Node) : (s.setNode n f).nodes n = f (s.nodes n) := by
  simp [setNode_nodes]
theorem setNode_nodes_ne (s : Net) (n : Nat) (f : Node → Node) (m : Nat) (h : m ≠ n) : (s.setNode n f).nodes m = s.nodes m := by
  simp [setNode_nodes, h]

@[simp] theorem setReq_conns (s : Net) (i : Nat) (f : Req → Req) : (s.setReq i f).conns = s.conns := rfl
@[simp] theorem setReq_nodes (s : Net) (i : Nat) (f : Req → Req) : (s.setReq i f).nodes = s.nodes := rfl
@[simp] theorem setReq_nreq (s : Net) (i : Nat) (f : Req → Req) : (s.setReq i f).nreq = s.nreq := rfl
@[simp] theorem setReq_nconn (s : Net) (i : Nat) (f : Req → Req) : (s.setReq i f).nconn = s.nconn := rfl
@[simp] theorem setReq_ideal (s : Net) (i : Nat) (f : Req → Req) : (s.setReq i f).ideal = s.ideal := rfl
@[simp] theorem setReq_nextKey (s : Net) (i : Nat) (f : Req → Req) : (s.setReq i f).nextKey = s.nextKey := rfl
theorem setReq_reqs (s : Net) (i : Nat) (f : Req → Req) (j : Nat) :
    (s.setReq i f).reqs j = if j = i then f (s.reqs j) else s.reqs j := rfl
@[simp] theorem setReq_reqs_same (s : Net) (i : Nat) (f : Req → Req) : (s.setReq i f).reqs i = f (s.reqs i) := by
  simp [setReq_reqs]
theorem setReq_reqs_ne (s : Net) (i : Nat) (f : Req → Req) (j : Nat) (h : j ≠ i) : (s.setReq i f).reqs j = s.reqs j := by
  simp [setReq_reqs, h]

/-! `retAtD` / `retAtA`: only the `ret` flag of that connection and the `rm` list of one node change -/

@[simp] theorem retAtD_reqs (s : Net) (c : Nat) : (retAtD cfg s c).reqs = s.reqs := by
  simp only [retAtD]; split <;> rfl
@[simp] theorem retAtD_nreq (s : Net) (c : Nat) : (retAtD cfg s c).nreq = s.nreq := by
  simp only [retAtD]; split <;> rfl
@[simp] theorem retAtD_nconn (s : Net) (c : Nat) : (retAtD cfg s c).nconn = s.nconn := by
  simp only [retAtD]; split <;> rfl
@[simp] theorem retAtD_ideal (s : Net) (c : Nat) : (retAtD cfg s c).ideal = s.ideal := by
  simp only [retAtD]; split <;> rfl
@[simp] theorem retAtD_nextKey (s : Net) (c : Nat) : (retAtD cfg s c).nextKey = s.nextKey := by
  simp only [retAtD]; split <;> rfl
theorem retAtD_conns (s : Net) (c e : Nat) :
    (retAtD cfg s c).conns e = if e = c ∧ (s.conns c).retD = false then { s.conns e with retD := true } else s.conns e := by
  simp only [retAtD]
  by_cases h : (s.conns c).retD = true
  · simp [h]
  · simp only [h, Bool.false_eq_true, if_false]
    by_cases he : e = c
    · subst he; simp [setConn_conns]
    · simp [setConn_conns, he]
theorem retAtD_nodes (s : Net) (c m : Nat) :
    (retAtD cfg s c).nodes m =
      if m = (s.conns c).d ∧ (s.conns c).retD = false then { s.nodes m with rm := (s.nodes m).rm ++ [reportD cfg (s.conns c)] }
      else s.nodes m := by
  simp only [retAtD]
  by_cases h : (s.conns c).retD = true
  · simp [h]
  · simp only [h, Bool.false_eq_true, if_false]
    by_cases hm : m = (s.conns c).d
    · subst hm; simp [setNode_nodes]
    · simp [setNode_nodes, hm]

@[simp] theorem retAtA_reqs (s : Net) (c : Nat) : (retAtA cfg s c).reqs = s.reqs := by
  simp only [retAtA]; split <;> rfl
@[simp] theorem retAtA_nreq (s : Net) (c : Nat) : (retAtA cfg s c).nreq = s.nreq := by
  simp only [retAtA]; split <;> rfl
@[simp] theorem retAtA_nconn (s : Net) (c : Nat) : (retAtA cfg s c).nconn = s.nconn := by
  simp only [retAtA]; split <;> rfl
@[simp] theorem retAtA_ideal (s : Net) (c : Nat) : (retAtA cfg s c).ideal = s.ideal := by
  simp only [retAtA]; split <;> rfl
@[simp] theorem retAtA_nextKey (s : Net) (c : Nat) : (retAtA cfg s c).nextKey = s.nextKey := by
  simp only [retAtA]; split <;> rfl
theorem retAtA_conns (s : Net) (c e : Nat) :
    (retAtA cfg s c).conns e =
      if e = c ∧ (s.conns c).retA = false ∧ (s.conns c).regA = true then { s.conns e with retA := true } else s.conns e := by
  simp only [retAtA]
  by_cases h : ((s.conns c).retA || !(s.conns c).regA) = true
  · have : ¬ ((s.conns c).retA = false ∧ (s.conns c).regA = true) := by
      intro ⟨h1, h2⟩; simp [h1, h2] at h
    simp [h, this]
  · have h' : (s.conns c).retA = false ∧ (s.conns c).regA = true := by
      cases h1 : (s.conns c).retA <;> cases h2 : (s.conns c).regA <;> simp [h1, h2] at h ⊢
    simp only [h, Bool.false_eq_true, if_false]
    by_cases he : e = c
    · subst he; simp [setConn_conns, h']
    · simp [setConn_conns, he]
theorem retAtA_nodes (s : Net) (c m : Nat) :
    (retAtA cfg s c).nodes m =
      if m = (s.conns c).a ∧ (s.conns c).retA = false ∧ (s.conns c).regA = true
      then { s.nodes m with rm := (s.nodes m).rm ++ [reportA cfg (s.conns c)] }
      else s.nodes m := by
  simp only [retAtA]
  by_cases h : ((s.conns c).retA || !(s.conns c).regA) = true
  · have : ¬ ((s.conns c).retA = false ∧ (s.conns c).regA = true) := by
      intro ⟨h1, h2⟩; simp [h1, h2] at h
    simp [h, this]
  · have h' : (s.conns c).retA = false ∧ (s.conns c).regA = true := by
      cases h1 : (s.conns c).retA <;> cases h2 : (s.conns c).regA <;> simp [h1, h2] at h ⊢
    simp only [h, Bool.false_eq_true, if_false]
    by_cases hm : m = (s.conns c).a
    · subst hm; simp [setNode_nodes, h']
    · simp [setNode_nodes, hm]

/-! `hand`: the request gets the connection's next nonce; nothing else of the request changes -/

theorem hand_closed (s : Net) (i c : Nat) (h : (s.conns c).clD = true) : hand cfg s i c = s := by
  simp [hand, h]

/-- the nonce the next request handed to connection `c` gets -/
def nonceFor (s : Net) (c : Nat) : Nonce := { space := spaceOf cfg c, idx := (s.conns c).next }

/-- what dispatch does to the connection record when it takes request `i` -/
def handF (s : Net) (i c : Nat) : Conn → Conn := fun x =>
  { x with next := x.next + 1, pend := (nonceFor cfg s c, i) :: x.pend,
           reqQ := if x.up then x.reqQ ++ [(nonceFor cfg s c, i)] else x.reqQ }

@[simp] theorem handF_next (s : Net) (i c : Nat) (x : Conn) : (handF cfg s i c x).next = x.next + 1 := rfl
@[simp] theorem handF_pend (s : Net) (i c : Nat) (x : Conn) : (handF cfg s i c x).pend = (nonceFor cfg s c, i) :: x.pend := rfl
@[simp] theorem handF_reqQ (s : Net) (i c : Nat) (x : Conn) :
    (handF cfg s i c x).reqQ = if x.up then x.reqQ ++ [(nonceFor cfg s c, i)] else x.reqQ := rfl
@[simp] theorem handF_repQ (s : Net) (i c : Nat) (x : Conn) : (handF cfg s i c x).repQ = x.repQ := rfl

theorem hand_open (s : Net) (i c : Nat) (h : (s.conns c).clD = false) :
    hand cfg s i c =
      (s.setConn c (handF cfg s i c)).setReq i
        (fun r => { r with conn := some c, nonce := some (nonceFor cfg s c) }) := by
  simp only [hand, h, Bool.false_eq_true, if_false, nonceFor]
  rfl

@[simp] theorem hand_nreq (s : Net) (i c : Nat) : (hand cfg s i c).nreq = s.nreq := by
  cases h : (s.conns c).clD <;> simp [hand_open, hand_closed, h]
@[simp] theorem hand_nconn (s : Net) (i c : Nat) : (hand cfg s i c).nconn = s.nconn := by
  cases h : (s.conns c).clD <;> simp [hand_open, hand_closed, h]
@[simp] theorem hand_nodes (s : Net) (i c : Nat) : (hand cfg s i c).nodes = s.nodes := by
  cases h : (s.conns c).clD <;> simp [hand_open, hand_closed, h]
@[simp] theorem hand_ideal (s : Net) (i c : Nat) : (hand cfg s i c).ideal = s.ideal := by
  cases h : (s.conns c).clD <;> simp [hand_open, hand_closed, h]
@[simp] theorem hand_nextKey (s : Net) (i c : Nat) : (hand cfg s i c).nextKey = s.nextKey := by
  cases h : (s.conns c).clD <;> simp [hand_open, hand_closed, h]
theorem hand_out (s : Net) (i c j : Nat) : ((hand cfg s i c).reqs j).out = (s.reqs j).out := by
  cases h : (s.conns c).clD
  · rw [hand_open cfg s i c h]; simp only [setReq_reqs]; split <;> simp
  · rw [hand_closed cfg s i c h]
theorem hand_reqs_ne (s : Net) (i c j : Nat) (hj : j ≠ i) : (hand cfg s i c).reqs j = s.reqs j := by
  cases h : (s.conns c).clD
  · rw [hand_open cfg s i c h]; simp [setReq_reqs, hj]
  · rw [hand_closed cfg s i c h]
theorem hand_conns_ne (s : Net) (i c e : Nat) (he : e ≠ c) : (hand cfg s i c).conns e = s.conns e := by
  cases h : (s.conns c).clD
  · rw [hand_open cfg s i c h]; simp [setConn_conns, he]
  · rw [hand_closed cfg s i c h]

theorem failAll_out (p : List (Nonce × Nat)) (reqs : Nat → Req) (j : Nat) :
    (failAll p reqs j) = reqs j ∨ ((reqs j).out = .waiting ∧ failAll p reqs j = { reqs j with out := .err }) := by
  unfold failAll; split
  · rename_i h; exact Or.inr ⟨h.2, rfl⟩
  · exact Or.inl rfl

theorem failAll_nonce (p : List (Nonce × Nat)) (reqs : Nat → Req) (j : Nat) :
    (failAll p reqs j).nonce = (reqs j).nonce ∧ (failAll p reqs j).conn = (reqs j).conn ∧
    (failAll p reqs j).src = (reqs j).src ∧ (failAll p reqs j).dst = (reqs j).dst := by
  rcases failAll_out p reqs j with h | ⟨_, h⟩ <;> rw [h] <;> simp

/-! `newReq`, `failReq`, `openConn` -/

@[simp] theorem newReq_nreq (s : Net) (a b : Nat) : (newReq s a b).nreq = s.nreq + 1 := rfl
@[simp] theorem newReq_nconn (s : Net) (a b : Nat) : (newReq s a b).nconn = s.nconn := rfl
@[simp] theorem newReq_nodes (s : Net) (a b : Nat) : (newReq s a b).nodes = s.nodes := rfl
@[simp] theorem newReq_conns (s : Net) (a b : Nat) : (newReq s a b).conns = s.conns := rfl
@[simp] theorem newReq_ideal (s : Net) (a b : Nat) : (newReq s a b).ideal = s.ideal := rfl
@[simp] theorem newReq_nextKey (s : Net) (a b : Nat) : (newReq s a b).nextKey = s.nextKey := rfl
theorem newReq_reqs (s : Net) (a b j : Nat) :
    (newReq s a b).reqs j = if j = s.nreq then { src := a, dst := b } else s.reqs j := rfl

@[simp] theorem failReq_nreq (s : Net) (i : Nat) : (failReq s i).nreq = s.nreq := rfl
@[simp] theorem failReq_nconn (s : Net) (i : Nat) : (failReq s i).nconn = s.nconn := rfl
@[simp] theorem failReq_nodes (s : Net) (i : Nat) : (failReq s i).nodes = s.nodes := rfl
@[simp] theorem failReq_conns (s : Net) (i : Nat) : (failReq s i).conns = s.conns := rfl
@[simp] theorem failReq_ideal (s : Net) (i : Nat) : (failReq s i).ideal = s.ideal := rfl
@[simp] theorem failReq_nextKey (s : Net) (i : Nat) : (failReq s i).nextKey = s.nextKey := rfl
theorem failReq_reqs (s : Net) (i j : Nat) :
    (failReq s i).reqs j = if j = i then { s.reqs j with out := .err } else s.reqs j := rfl

@[simp] theorem openConn_nreq (s : Net) (a b x : Nat) : (openConn cfg s a b x).nreq = s.nreq := by
  simp only [openConn]; split <;> rfl
@[simp] theorem openConn_reqs (s : Net) (a b x : Nat) : (openConn cfg s a b x).reqs = s.reqs := by
  simp only [openConn]; split <;> rfl
@[simp] theorem openConn_nconn (s : Net) (a b x : Nat) : (openConn cfg s a b x).nconn = s.nconn + 1 := by
  simp only [openConn]; split <;> rfl
@[simp] theorem openConn_ideal (s : Net) (a b x : Nat) : (openConn cfg s a b x).ideal = s.ideal := by
  simp only [openConn]; split <;> rfl
@[simp] theorem openConn_nextKey (s : Net) (a b x : Nat) : (openConn cfg s a b x).nextKey = s.nextKey + 3 := by
  simp only [openConn]; split <;> rfl
theorem openConn_conns (s : Net) (a b x e : Nat) :
    (openConn cfg s a b x).conns e = if e = s.nconn then mkConn cfg s a b x else s.conns e := by
  simp only [openConn]; split <;> rfl
/-- the tables after a connection was opened: the acceptor's inbound table (unless it is a harness endpoint
or its guard fired), then the dialler's outbound table -/
theorem openConn_nodes (s : Net) (a b x m : Nat) :
    (openConn cfg s a b x).nodes m =
      let n1 := if m = b ∧ (s.ideal b || refused cfg s a b) = false then
          { s.nodes m with inb := setTab (s.nodes m).inb (keyVal cfg.inStore b a a) (some s.nconn) } else s.nodes m
      if m = a then { n1 with out := setTab n1.out (keyVal cfg.outStore a x b) (some s.nconn) } else n1 := by
  simp only [openConn]
  cases hb : (s.ideal b || refused cfg s a b)
  · simp only [Bool.false_eq_true, if_false, and_true]
    by_cases hma : m = a <;> by_cases hmb : m = b <;> simp [setNode_nodes, hma, hmb]
  · simp only [if_true]
    by_cases hma : m = a <;> simp [setNode_nodes, hma]
theorem openConn_held (s : Net) (a b x m : Nat) : ((openConn cfg s a b x).nodes m).held = (s.nodes m).held := by
  rw [openConn_nodes]; simp only []; split <;> split <;> rfl
theorem openConn_rm (s : Net) (a b x m : Nat) : ((openConn cfg s a b x).nodes m).rm = (s.nodes m).rm := by
  rw [openConn_nodes]; simp only []; split <;> split <;> rfl

/-! ### an outcome, once there, stays -/

theorem step_nreq_mono (s : Net) (e : Ev) : s.nreq ≤ (step cfg s e).nreq := by
  cases e <;> simp only [step]
  case request a b dial =>
    split
    · simp
    · split
      · simp
      · split
        · simp
        · split <;> simp
  case deliverReq c => split <;> (try split) <;> (try split) <;> simp
  case appReply b k => split <;> (try split) <;> (try split) <;> simp
  case deliverReply c =>
    split
    · split
      · simp
      · split
        · simp
        · split
          · simp
          · split <;> simp
    · simp
  case cut c => split <;> simp
  case reject c atD => split <;> (try split) <;> (try split) <;> simp
  case close c atD => split <;> (try split) <;> (try split) <;> simp
  case procRm n k => split <;> simp
  case disconnect a b => simp
  case expire i => split <;> simp
  case reset n => simp

/-- what an event can do to a request that exists already: nothing but give it an outcome while it waits -/
def SameButOutcome (r r' : Req) : Prop :=
  r'.nonce = r.nonce ∧ r'.conn = r.conn ∧ r'.src = r.src ∧ r'.dst = r.dst ∧ (r.out ≠ .waiting → r'.out = r.out)

theorem SameButOutcome.rfl' (r : Req) : SameButOutcome r r := ⟨rfl, rfl, rfl, rfl, fun _ => rfl⟩

theorem SameButOutcome.setOut (r : Req) (o : Outcome) (h : r.out = .waiting) : SameButOutcome r { r with out := o } :=
  ⟨rfl, rfl, rfl, rfl, fun hn => absurd h hn⟩

local macro "same_req" : tactic =>
  `(tactic| first | exact SameButOutcome.rfl' _ | (simp; exact SameButOutcome.rfl' _))

theorem step_reqs_old (s : Net) (e : Ev) (j : Nat) (hj : j < s.nreq) :
    SameButOutcome (s.reqs j) ((step cfg s e).reqs j) := by
  have hne : j ≠ s.nreq := Nat.ne_of_lt hj
  cases e <;> simp only [step]
  case request a b dial =>
    split
    · rw [hand_reqs_ne _ _ _ _ _ hne, newReq_reqs, if_neg hne]; exact .rfl' _
    · split
      · rw [failReq_reqs, if_neg hne, newReq_reqs, if_neg hne]; exact .rfl' _
      · split
        · rw [failReq_reqs, if_neg hne, newReq_reqs, if_neg hne]; exact .rfl' _
        · split
          · rw [retAtD_reqs, hand_reqs_ne _ _ _ _ _ hne, openConn_reqs, newReq_reqs, if_neg hne]; exact .rfl' _
          · rw [hand_reqs_ne _ _ _ _ _ hne, openConn_reqs, newReq_reqs, if_neg hne]; exact .rfl' _
  case deliverReq c =>
    split
    · split
      · exact .rfl' _
      · split <;> exact .rfl' _
    · exact .rfl' _
  case appReply b k =>
    split
    · exact .rfl' _
    · split
      · exact .rfl' _
      · split <;> exact .rfl' _
  case deliverReply c =>
    split
    · split
      · exact .rfl' _
      · split
        · exact .rfl' _
        · split
          · exact .rfl' _
          · split
            · rename_i i _ hw
              simp only [setReq_reqs, setConn_reqs]
              split
              · rename_i hji; subst hji; exact .setOut _ _ hw
              · exact .rfl' _
            · exact .rfl' _
    · exact .rfl' _
  case cut c => split <;> same_req
  case reject c atD => split <;> (try split) <;> (try split) <;> same_req
  case close c atD =>
    split
    · split
      · split
        · exact .rfl' _
        · simp only [retAtD_reqs, setConn_reqs]
          rcases failAll_out (s.conns c).pend s.reqs j with h | ⟨hw, h⟩
          · rw [h]; exact .rfl' _
          · rw [h]; exact .setOut _ _ hw
      · split <;> same_req
    · exact .rfl' _
  case procRm n k => split <;> same_req
  case disconnect a b => same_req
  case expire i =>
    split
    · rename_i h
      simp only [setReq_reqs]
      split
      · rename_i hji; subst hji; exact .setOut _ _ h.2
      · exact .rfl' _
    · exact .rfl' _
  case reset n =>
    split
    · rename_i h; exact .setOut _ _ h.2
    · exact .rfl' _

theorem run_nreq_mono (s : Net) (evs : List Ev) : s.nreq ≤ (run cfg s evs).nreq := by
  induction evs generalizing s with
  | nil => exact Nat.le_refl _
  | cons e es ih => exact Nat.le_trans (step_nreq_mono cfg s e) (ih (step cfg s e))

/-- once a call has returned (a reply or an error) no later event changes what it returned -/
theorem run_out_stable (s : Net) (evs : List Ev) (j : Nat) (hj : j < s.nreq) (h : (s.reqs j).out ≠ .waiting) :
    ((run cfg s evs).reqs j).out = (s.reqs j).out := by
  induction evs generalizing s with
  | nil => rfl
  | cons e es ih =>
    have h1 := (step_reqs_old cfg s e j hj).2.2.2.2 h
    have := ih (step cfg s e) (Nat.lt_of_lt_of_le hj (step_nreq_mono cfg s e)) (by rw [h1]; exact h)
    simp only [run, List.foldl_cons] at this ⊢
    rw [this, h1]

end Dos.ConnTable

/-
The subscription-table model's configuration as the CODE has it: the three key computations and
the universe of message types, computed from the facts regenerated out of p2p/server.go and the
repository's *.pb.go files on every run (`Gen/P2PFlow.lean`).
-/
import DosModel.Model.P2PSub
import DosModel.Gen.P2PFlow

namespace Dos.P2PSub

/-- normal forms the extractor prints for the key expressions (go/extract/p2pflow/subtable.go);
anything else is `other` -/
def keyFnOfExpr : String → KeyFn
  | "reflect.TypeOf(msg.Msg.Message).String() [strip *]" => .strStrip
  | "reflect.TypeOf(msg.Msg.Message).String()" => .str
  | "reflect.TypeOf(m).String() [strip *]" => .strStrip
  | "reflect.TypeOf(m).String()" => .str
  | "reflect.TypeOf(msg.Msg.Message).Elem().Name()" => .bare
  | "reflect.TypeOf(m).Name()" => .bare
  | _ => .other

def Cfg.code : Cfg :=
  { dispatch    := keyFnOfExpr Gen.subDispatchKey,
    subscribe   := keyFnOfExpr Gen.subSubscribeKey,
    unsubscribe := keyFnOfExpr Gen.subUnsubscribeKey }

/-- proto name ↦ Go type, for every message type the repository registers -/
def registry : List (String × TypeId) :=
  Gen.registeredTypes.map fun (p, path, pkg, name, _) => (p, ⟨path, pkg, name⟩)

def regTypes : List TypeId := registry.map (·.2)

end Dos.P2PSub

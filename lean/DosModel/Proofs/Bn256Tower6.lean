/-
C10 layer 4 — gfP6 (gfp6.go) over gfP2 over ANY commutative ring α is the ring
(α[i]/(i²+1))[τ]/(τ³ − ξ), ξ = i + 9: the Karatsuba `Mul`, the `Square`, `MulTau`,
`MulScalar`, `MulGFP` are multiplication in that ring (`ring` over the commutative ring
gfP2 of Proofs/Bn256Tower2.lean), the operations form a commutative ring, and `Invert` is
the inverse whenever the gfP2-inversion of the norm F succeeds.
-/
import DosModel.Proofs.Bn256Tower2

namespace Dos.Bn256
namespace Fp6

@[ext] theorem ext' {α : Type} {a b : Fp6 α} (hx : a.x = b.x) (hy : a.y = b.y) (hz : a.z = b.z) : a = b := by
  cases a; cases b; simp_all

section ring
variable {α : Type} [CommRing α]
open Fp2 (xi)

/-- the schoolbook product of xτ² + yτ + z and x'τ² + y'τ + z' reduced by τ³ = ξ -/
def mulSpec (a b : Fp6 α) : Fp6 α :=
  ⟨a.x * b.z + a.y * b.y + a.z * b.x,
   a.y * b.z + a.z * b.y + xi * (a.x * b.x),
   a.z * b.z + xi * (a.x * b.y + a.y * b.x)⟩

theorem mul_eq_spec (a b : Fp6 α) : Fp6.mul a b = mulSpec a b := by
  refine Fp6.ext' ?_ ?_ ?_ <;> simp only [Fp6.mul, mulSpec, Fp2.mul_eq, Fp2.add_eq, Fp2.sub_eq, Fp2.mulXi_eq] <;> ring

theorem square_eq_mul (a : Fp6 α) : Fp6.square a = Fp6.mul a a := by
  rw [mul_eq_spec]
  refine Fp6.ext' ?_ ?_ ?_ <;> simp only [Fp6.square, mulSpec, Fp2.square_eq, Fp2.add_eq, Fp2.sub_eq, Fp2.mulXi_eq] <;> ring

/-- the element τ -/
def tau : Fp6 α := ⟨0, 1, 0⟩
/-- embedding of gfP2 -/
def ofBase (c : Fp2 α) : Fp6 α := ⟨0, 0, c⟩

theorem mulTau_eq (a : Fp6 α) : Fp6.mulTau a = Fp6.mul tau a := by
  rw [mul_eq_spec]
  refine Fp6.ext' ?_ ?_ ?_ <;> simp only [Fp6.mulTau, mulSpec, tau, Fp2.mulXi_eq] <;> ring

theorem mulScalar_eq (a : Fp6 α) (c : Fp2 α) : Fp6.mulScalar a c = Fp6.mul a (ofBase c) := by
  rw [mul_eq_spec]
  refine Fp6.ext' ?_ ?_ ?_ <;> simp only [Fp6.mulScalar, mulSpec, ofBase, Fp2.mul_eq] <;> ring

theorem mulGFP_eq (a : Fp6 α) (c : α) : Fp6.mulGFP a c = Fp6.mul a (ofBase (Fp2.ofBase c)) := by
  rw [mul_eq_spec]
  refine Fp6.ext' ?_ ?_ ?_ <;> simp only [Fp6.mulGFP, mulSpec, ofBase, Fp2.mulScalar_eq] <;> ring

/-- τ³ = ξ -/
theorem tau_cubed : Fp6.mul tau (Fp6.mul tau tau) = (ofBase xi : Fp6 α) := by
  simp only [mul_eq_spec]
  refine Fp6.ext' ?_ ?_ ?_ <;> simp only [mulSpec, tau, ofBase] <;> ring

theorem add_assoc' (a b c : Fp6 α) : Fp6.add (Fp6.add a b) c = Fp6.add a (Fp6.add b c) := by
  refine Fp6.ext' ?_ ?_ ?_ <;> simp only [Fp6.add, Fp2.add_eq] <;> ring
theorem zero_add' (a : Fp6 α) : Fp6.add Fp6.zero a = a := by
  refine Fp6.ext' ?_ ?_ ?_ <;> simp only [Fp6.add, Fp6.zero, Fp2.add_eq, Fp2.zero_eq] <;> ring
theorem add_zero' (a : Fp6 α) : Fp6.add a Fp6.zero = a := by
  refine Fp6.ext' ?_ ?_ ?_ <;> simp only [Fp6.add, Fp6.zero, Fp2.add_eq, Fp2.zero_eq] <;> ring
theorem add_comm' (a b : Fp6 α) : Fp6.add a b = Fp6.add b a := by
  refine Fp6.ext' ?_ ?_ ?_ <;> simp only [Fp6.add, Fp2.add_eq] <;> ring
theorem neg_add_cancel' (a : Fp6 α) : Fp6.add (Fp6.neg a) a = Fp6.zero := by
  refine Fp6.ext' ?_ ?_ ?_ <;> simp only [Fp6.add, Fp6.neg, Fp6.zero, Fp2.add_eq, Fp2.neg_eq, Fp2.zero_eq] <;> ring
theorem sub_eq_add_neg' (a b : Fp6 α) : Fp6.sub a b = Fp6.add a (Fp6.neg b) := by
  refine Fp6.ext' ?_ ?_ ?_ <;> simp only [Fp6.add, Fp6.neg, Fp6.sub, Fp2.add_eq, Fp2.neg_eq, Fp2.sub_eq] <;> ring
theorem mul_assoc' (a b c : Fp6 α) : Fp6.mul (Fp6.mul a b) c = Fp6.mul a (Fp6.mul b c) := by
  simp only [mul_eq_spec]; refine Fp6.ext' ?_ ?_ ?_ <;> simp only [mulSpec] <;> ring
theorem one_mul' (a : Fp6 α) : Fp6.mul Fp6.one a = a := by
  simp only [mul_eq_spec]; refine Fp6.ext' ?_ ?_ ?_ <;> simp only [mulSpec, Fp6.one, Fp2.zero_eq, Fp2.one_eq] <;> ring
theorem mul_one' (a : Fp6 α) : Fp6.mul a Fp6.one = a := by
  simp only [mul_eq_spec]; refine Fp6.ext' ?_ ?_ ?_ <;> simp only [mulSpec, Fp6.one, Fp2.zero_eq, Fp2.one_eq] <;> ring
theorem left_distrib' (a b c : Fp6 α) : Fp6.mul a (Fp6.add b c) = Fp6.add (Fp6.mul a b) (Fp6.mul a c) := by
  simp only [mul_eq_spec]; refine Fp6.ext' ?_ ?_ ?_ <;> simp only [mulSpec, Fp6.add, Fp2.add_eq] <;> ring
theorem right_distrib' (a b c : Fp6 α) : Fp6.mul (Fp6.add a b) c = Fp6.add (Fp6.mul a c) (Fp6.mul b c) := by
  simp only [mul_eq_spec]; refine Fp6.ext' ?_ ?_ ?_ <;> simp only [mulSpec, Fp6.add, Fp2.add_eq] <;> ring
theorem zero_mul' (a : Fp6 α) : Fp6.mul Fp6.zero a = Fp6.zero := by
  simp only [mul_eq_spec]; refine Fp6.ext' ?_ ?_ ?_ <;> simp only [mulSpec, Fp6.zero, Fp2.zero_eq] <;> ring
theorem mul_zero' (a : Fp6 α) : Fp6.mul a Fp6.zero = Fp6.zero := by
  simp only [mul_eq_spec]; refine Fp6.ext' ?_ ?_ ?_ <;> simp only [mulSpec, Fp6.zero, Fp2.zero_eq] <;> ring
theorem mul_comm' (a b : Fp6 α) : Fp6.mul a b = Fp6.mul b a := by
  simp only [mul_eq_spec]; refine Fp6.ext' ?_ ?_ ?_ <;> simp only [mulSpec] <;> ring

/-- the commutative ring whose operations are the transcribed gfP6 functions -/
instance instCommRing : CommRing (Fp6 α) where
  add := Fp6.add
  zero := Fp6.zero
  neg := Fp6.neg
  sub := Fp6.sub
  mul := Fp6.mul
  one := Fp6.one
  nsmul := nsmulRec
  zsmul := zsmulRec
  add_assoc := add_assoc'
  zero_add := zero_add'
  add_zero := add_zero'
  add_comm := add_comm'
  neg_add_cancel := neg_add_cancel'
  sub_eq_add_neg := sub_eq_add_neg'
  mul_assoc := mul_assoc'
  one_mul := one_mul'
  mul_one := mul_one'
  left_distrib := left_distrib'
  right_distrib := right_distrib'
  zero_mul := zero_mul'
  mul_zero := mul_zero'
  mul_comm := mul_comm'

theorem add_eq (a b : Fp6 α) : Fp6.add a b = a + b := rfl
theorem sub_eq (a b : Fp6 α) : Fp6.sub a b = a - b := rfl
theorem neg_eq (a : Fp6 α) : Fp6.neg a = -a := rfl
theorem mul_eq (a b : Fp6 α) : Fp6.mul a b = a * b := rfl
theorem zero_eq : (Fp6.zero : Fp6 α) = 0 := rfl
theorem one_eq : (Fp6.one : Fp6 α) = 1 := rfl
theorem square_eq (a : Fp6 α) : Fp6.square a = a * a := square_eq_mul a
theorem mulTau_eq' (a : Fp6 α) : Fp6.mulTau a = tau * a := mulTau_eq a

/-- the value F whose gfP2-inverse gfP6.Invert takes: the norm x³ξ² + y³ξ + z³ − 3ξxyz -/
def normF (a : Fp6 α) : Fp2 α :=
  xi * ((a.y * a.y - a.x * a.z) * a.y) + (a.z * a.z - xi * (a.x * a.y)) * a.z +
    xi * ((xi * (a.x * a.x) - a.y * a.z) * a.x)

theorem normF_eq (a : Fp6 α) :
    normF a = xi * xi * (a.x * a.x * a.x) + xi * (a.y * a.y * a.y) + a.z * a.z * a.z
      - 3 * xi * (a.x * a.y * a.z) := by
  simp only [normF]; ring

end ring

section inv
variable {α : Type} [Field α]

/-- **gfP6.Invert**: if the gfP2 inversion of the norm succeeded (F · Invert(F) = 1), the result
is the inverse. (Over bn256's gfP2 the norm of a non-zero element is non-zero, as τ³ − ξ is irreducible.) -/
theorem mul_invert (a : Fp6 α) (hF : normF a * Fp2.invert (normF a) = 1) :
    Fp6.mul a (Fp6.invert a) = Fp6.one := by
  rw [mul_eq_spec]
  have key : ∀ (Fi : Fp2 α), normF a * Fi = 1 →
      (⟨a.x * ((a.z * a.z - Fp2.xi * (a.x * a.y)) * Fi) + a.y * ((Fp2.xi * (a.x * a.x) - a.y * a.z) * Fi)
          + a.z * ((a.y * a.y - a.x * a.z) * Fi),
        a.y * ((a.z * a.z - Fp2.xi * (a.x * a.y)) * Fi) + a.z * ((Fp2.xi * (a.x * a.x) - a.y * a.z) * Fi)
          + Fp2.xi * (a.x * ((a.y * a.y - a.x * a.z) * Fi)),
        a.z * ((a.z * a.z - Fp2.xi * (a.x * a.y)) * Fi)
          + Fp2.xi * (a.x * ((Fp2.xi * (a.x * a.x) - a.y * a.z) * Fi) + a.y * ((a.y * a.y - a.x * a.z) * Fi))⟩
        : Fp6 α) = Fp6.one := by
    intro Fi h
    refine Fp6.ext' ?_ ?_ ?_
    · simp only [Fp6.one, Fp2.zero_eq]; ring
    · simp only [Fp6.one, Fp2.zero_eq]; ring
    · simp only [Fp6.one, Fp2.one_eq]
      have : a.z * ((a.z * a.z - Fp2.xi * (a.x * a.y)) * Fi)
          + Fp2.xi * (a.x * ((Fp2.xi * (a.x * a.x) - a.y * a.z) * Fi) + a.y * ((a.y * a.y - a.x * a.z) * Fi))
          = normF a * Fi := by simp only [normF]; ring
      rw [this, h]
  have hinv : Fp6.invert a = ⟨(a.y * a.y - a.x * a.z) * Fp2.invert (normF a),
      (Fp2.xi * (a.x * a.x) - a.y * a.z) * Fp2.invert (normF a),
      (a.z * a.z - Fp2.xi * (a.x * a.y)) * Fp2.invert (normF a)⟩ := by
    simp only [Fp6.invert, normF, Fp2.mul_eq, Fp2.add_eq, Fp2.sub_eq, Fp2.mulXi_eq, Fp2.square_eq]
  rw [hinv]
  simpa only [mulSpec] using key _ hF

end inv
end Fp6
end Dos.Bn256

/-
C10 layer 6 — `finalExponentiation` (optate.go) is MULTIPLICATIVE over every field, as soon as the
seven Frobenius constants satisfy their defining relations (`FrobConsts.Good`, six polynomial
identities that the regenerated constants are checked to satisfy): every building block —
Conjugate, Invert (through the gfP6 / gfP2 norms and adjugates), the p- and p²-Frobenius maps
with their constant twists, Exp, Mul, Square — maps products to products. Hence PairingCheck's
"one final exponentiation of the product of the Miller values" decides whether the product of
the pairings is one, for the implemented final exponentiation and ANY Miller function.
-/
import Mathlib.Tactic.Ring
import Mathlib.Tactic.LinearCombination
import Mathlib.Algebra.Field.Basic
import DosModel.Model.Bn256TFrob
import DosModel.Proofs.Bn256Tower12
import DosModel.Proofs.Bn256CurveMul

namespace Dos.Bn256

section
variable {K : Type} [Field K]

/-- the defining relations of the constants: with c₁ = ξ^((p−1)/3), c₂ = ξ^((2p−2)/3), c₆ = ξ^((p−1)/6),
d₁ = ξ^((p²−1)/3), d₂ = ξ^((2p²−2)/3), e₆ = ξ^((p²−1)/6) and ξ̄ = ξ^p the conjugate of ξ -/
structure FrobConsts.Good (cs : FrobConsts K) : Prop where
  h1 : cs.xiToPMinus1Over3 * cs.xiToPMinus1Over3 = cs.xiTo2PMinus2Over3
  h3 : Fp2.xi * (cs.xiToPMinus1Over3 * cs.xiTo2PMinus2Over3) = Fp2.conjugate Fp2.xi
  h4 : cs.xiToPMinus1Over6 * cs.xiToPMinus1Over6 = cs.xiToPMinus1Over3
  d1 : cs.xiToPSquaredMinus1Over3 * cs.xiToPSquaredMinus1Over3 = cs.xiTo2PSquaredMinus2Over3
  d12 : cs.xiToPSquaredMinus1Over3 * cs.xiTo2PSquaredMinus2Over3 = 1
  e6 : cs.xiToPSquaredMinus1Over6 * cs.xiToPSquaredMinus1Over6 = cs.xiToPSquaredMinus1Over3

/-! ### gfP2 -/
namespace Fp2

theorem ofBase_mul (c d : K) : (ofBase (c * d) : Fp2 K) = ofBase c * ofBase d := by
  rw [← mul_eq]; ext <;> simp only [ofBase, Fp2.mul] <;> ring
theorem ofBase_one : (ofBase (1 : K) : Fp2 K) = 1 := by rw [← one_eq]; rfl
theorem conjugate_one : Fp2.conjugate (1 : Fp2 K) = 1 := by
  rw [← one_eq]; ext <;> simp [Fp2.conjugate, Fp2.one]
theorem conjugate_zero : Fp2.conjugate (0 : Fp2 K) = 0 := by
  rw [← zero_eq]; ext <;> simp [Fp2.conjugate, Fp2.zero]

/-- the norm x² + y² is multiplicative -/
theorem norm_mul (a b : Fp2 K) :
    (a * b).x * (a * b).x + (a * b).y * (a * b).y = (a.x * a.x + a.y * a.y) * (b.x * b.x + b.y * b.y) := by
  obtain ⟨hx, hy⟩ := mul_coords a b
  rw [hx, hy]; ring

theorem invert_mul (a b : Fp2 K) : Fp2.invert (a * b) = Fp2.invert a * Fp2.invert b := by
  have hn := norm_mul a b
  obtain ⟨hx, hy⟩ := mul_coords a b
  obtain ⟨gx, gy⟩ := mul_coords (Fp2.invert a) (Fp2.invert b)
  ext
  · rw [gx]
    show -(a * b).x * ((a * b).x * (a * b).x + (a * b).y * (a * b).y)⁻¹ = _
    rw [hn, mul_inv, hx]; simp only [Fp2.invert]; ring
  · rw [gy]
    show (a * b).y * ((a * b).x * (a * b).x + (a * b).y * (a * b).y)⁻¹ = _
    rw [hn, mul_inv, hy]; simp only [Fp2.invert]; ring

theorem invert_one : Fp2.invert (1 : Fp2 K) = 1 := by
  rw [← one_eq]; ext <;> simp [Fp2.invert, Fp2.one]

end Fp2

/-! ### gfP6 -/
namespace Fp6
open Fp2 (xi)

theorem mul_coords (a b : Fp6 K) : (a * b).x = a.x * b.z + a.y * b.y + a.z * b.x ∧
    (a * b).y = a.y * b.z + a.z * b.y + xi * (a.x * b.x) ∧
    (a * b).z = a.z * b.z + xi * (a.x * b.y + a.y * b.x) := by
  rw [← mul_eq, mul_eq_spec]; exact ⟨rfl, rfl, rfl⟩

theorem add_coords (a b : Fp6 K) : (a + b).x = a.x + b.x ∧ (a + b).y = a.y + b.y ∧ (a + b).z = a.z + b.z :=
  ⟨rfl, rfl, rfl⟩

theorem ofBase_mul (c d : Fp2 K) : (ofBase (c * d) : Fp6 K) = ofBase c * ofBase d := by
  obtain ⟨hx, hy, hz⟩ := mul_coords (ofBase c) (ofBase d)
  refine Fp6.ext' ?_ ?_ ?_
  · rw [hx]; simp only [ofBase]; ring
  · rw [hy]; simp only [ofBase]; ring
  · rw [hz]; simp only [ofBase]; ring

/-- the adjugate (C, B, A) that gfP6.Invert multiplies by the inverted norm -/
def adj (a : Fp6 K) : Fp6 K :=
  ⟨a.y * a.y - a.x * a.z, xi * (a.x * a.x) - a.y * a.z, a.z * a.z - xi * (a.x * a.y)⟩

theorem invert_eq (a : Fp6 K) : Fp6.invert a = adj a * ofBase (Fp2.invert (normF a)) := by
  obtain ⟨hx, hy, hz⟩ := mul_coords (adj a) (ofBase (Fp2.invert (normF a)))
  refine Fp6.ext' ?_ ?_ ?_
  · rw [hx]
    simp only [Fp6.invert, adj, ofBase, normF, Fp2.mul_eq, Fp2.add_eq, Fp2.sub_eq, Fp2.mulXi_eq, Fp2.square_eq]
    ring
  · rw [hy]
    simp only [Fp6.invert, adj, ofBase, normF, Fp2.mul_eq, Fp2.add_eq, Fp2.sub_eq, Fp2.mulXi_eq, Fp2.square_eq]
    ring
  · rw [hz]
    simp only [Fp6.invert, adj, ofBase, normF, Fp2.mul_eq, Fp2.add_eq, Fp2.sub_eq, Fp2.mulXi_eq, Fp2.square_eq]
    ring

theorem adj_mul (a b : Fp6 K) : adj (a * b) = adj a * adj b := by
  obtain ⟨hx, hy, hz⟩ := mul_coords a b
  obtain ⟨gx, gy, gz⟩ := mul_coords (adj a) (adj b)
  refine Fp6.ext' ?_ ?_ ?_
  · rw [gx]; simp only [adj, hx, hy, hz]; ring
  · rw [gy]; simp only [adj, hx, hy, hz]; ring
  · rw [gz]; simp only [adj, hx, hy, hz]; ring

theorem normF_mul (a b : Fp6 K) : normF (a * b) = normF a * normF b := by
  obtain ⟨hx, hy, hz⟩ := mul_coords a b
  simp only [normF, hx, hy, hz]; ring

theorem invert_mul (a b : Fp6 K) : Fp6.invert (a * b) = Fp6.invert a * Fp6.invert b := by
  rw [invert_eq, invert_eq a, invert_eq b, adj_mul, normF_mul, Fp2.invert_mul, ofBase_mul]; ring

theorem invert_one : Fp6.invert (1 : Fp6 K) = 1 := by
  rw [invert_eq]
  have hn : normF (1 : Fp6 K) = 1 := by
    rw [← one_eq]; simp only [normF, Fp6.one, Fp2.zero_eq, Fp2.one_eq]; ring
  have ha : adj (1 : Fp6 K) = 1 := by
    rw [← one_eq]
    refine Fp6.ext' ?_ ?_ ?_ <;> simp only [adj, Fp6.one, Fp2.zero_eq, Fp2.one_eq] <;> ring
  rw [hn, ha, Fp2.invert_one, one_mul]
  rw [← one_eq]; rfl

variable (cs : FrobConsts K)

theorem frobeniusG_coords (a : Fp6 K) :
    Fp6.frobeniusG cs a = ⟨Fp2.conjugate a.x * cs.xiTo2PMinus2Over3, Fp2.conjugate a.y * cs.xiToPMinus1Over3,
      Fp2.conjugate a.z⟩ := rfl

theorem frobeniusG_add (a b : Fp6 K) :
    Fp6.frobeniusG cs (a + b) = Fp6.frobeniusG cs a + Fp6.frobeniusG cs b := by
  obtain ⟨hx, hy, hz⟩ := add_coords a b
  obtain ⟨gx, gy, gz⟩ := add_coords (Fp6.frobeniusG cs a) (Fp6.frobeniusG cs b)
  refine Fp6.ext' ?_ ?_ ?_
  · rw [gx]; simp only [frobeniusG_coords, hx, Fp2.conjugate_add]; ring
  · rw [gy]; simp only [frobeniusG_coords, hy, Fp2.conjugate_add]; ring
  · rw [gz]; simp only [frobeniusG_coords, hz, Fp2.conjugate_add]

theorem frobeniusG_mul (hg : cs.Good) (a b : Fp6 K) :
    Fp6.frobeniusG cs (a * b) = Fp6.frobeniusG cs a * Fp6.frobeniusG cs b := by
  obtain ⟨hx, hy, hz⟩ := mul_coords a b
  obtain ⟨gx, gy, gz⟩ := mul_coords (Fp6.frobeniusG cs a) (Fp6.frobeniusG cs b)
  have h1 := hg.h1
  have h3 := hg.h3
  refine Fp6.ext' ?_ ?_ ?_
  · rw [gx]
    simp only [frobeniusG_coords, hx, Fp2.conjugate_add, Fp2.conjugate_mul]
    linear_combination (-(Fp2.conjugate a.y * Fp2.conjugate b.y)) * h1
  · rw [gy]
    simp only [frobeniusG_coords, hy, Fp2.conjugate_add, Fp2.conjugate_mul]
    linear_combination (-(Fp2.conjugate a.x * Fp2.conjugate b.x * cs.xiToPMinus1Over3)) * h3 +
      (Fp2.conjugate a.x * Fp2.conjugate b.x * xi * cs.xiTo2PMinus2Over3) * h1
  · rw [gz]
    simp only [frobeniusG_coords, hz, Fp2.conjugate_add, Fp2.conjugate_mul]
    linear_combination (-(Fp2.conjugate a.x * Fp2.conjugate b.y + Fp2.conjugate a.y * Fp2.conjugate b.x)) * h3

theorem frobeniusG_tau (cs : FrobConsts K) :
    Fp6.frobeniusG cs (tau : Fp6 K) = tau * ofBase cs.xiToPMinus1Over3 := by
  obtain ⟨gx, gy, gz⟩ := mul_coords (tau : Fp6 K) (ofBase cs.xiToPMinus1Over3)
  refine Fp6.ext' ?_ ?_ ?_
  · rw [gx]; simp only [frobeniusG_coords, tau, ofBase, Fp2.conjugate_zero, Fp2.conjugate_one]; ring
  · rw [gy]; simp only [frobeniusG_coords, tau, ofBase, Fp2.conjugate_zero, Fp2.conjugate_one]; ring
  · rw [gz]; simp only [frobeniusG_coords, tau, ofBase, Fp2.conjugate_zero, Fp2.conjugate_one]; ring

theorem frobeniusG_one : Fp6.frobeniusG cs (1 : Fp6 K) = 1 := by
  rw [← one_eq]
  refine Fp6.ext' ?_ ?_ ?_ <;>
    simp only [frobeniusG_coords, Fp6.one, Fp2.zero_eq, Fp2.one_eq, Fp2.conjugate_zero, Fp2.conjugate_one] <;> ring

theorem frobeniusP2G_coords (a : Fp6 K) :
    Fp6.frobeniusP2G cs a = ⟨a.x * Fp2.ofBase cs.xiTo2PSquaredMinus2Over3,
      a.y * Fp2.ofBase cs.xiToPSquaredMinus1Over3, a.z⟩ := by
  simp only [Fp6.frobeniusP2G, Fp2.mulScalar_eq]

theorem frobeniusP2G_add (a b : Fp6 K) :
    Fp6.frobeniusP2G cs (a + b) = Fp6.frobeniusP2G cs a + Fp6.frobeniusP2G cs b := by
  obtain ⟨hx, hy, hz⟩ := add_coords a b
  obtain ⟨gx, gy, gz⟩ := add_coords (Fp6.frobeniusP2G cs a) (Fp6.frobeniusP2G cs b)
  refine Fp6.ext' ?_ ?_ ?_
  · rw [gx]; simp only [frobeniusP2G_coords, hx]; ring
  · rw [gy]; simp only [frobeniusP2G_coords, hy]; ring
  · rw [gz]; simp only [frobeniusP2G_coords, hz]

theorem frobeniusP2G_mul (hg : cs.Good) (a b : Fp6 K) :
    Fp6.frobeniusP2G cs (a * b) = Fp6.frobeniusP2G cs a * Fp6.frobeniusP2G cs b := by
  obtain ⟨hx, hy, hz⟩ := mul_coords a b
  obtain ⟨gx, gy, gz⟩ := mul_coords (Fp6.frobeniusP2G cs a) (Fp6.frobeniusP2G cs b)
  have d1 : Fp2.ofBase cs.xiToPSquaredMinus1Over3 * Fp2.ofBase cs.xiToPSquaredMinus1Over3 =
      Fp2.ofBase cs.xiTo2PSquaredMinus2Over3 := by rw [← Fp2.ofBase_mul, hg.d1]
  have d12 : Fp2.ofBase cs.xiToPSquaredMinus1Over3 * Fp2.ofBase cs.xiTo2PSquaredMinus2Over3 = 1 := by
    rw [← Fp2.ofBase_mul, hg.d12, Fp2.ofBase_one]
  refine Fp6.ext' ?_ ?_ ?_
  · rw [gx]
    simp only [frobeniusP2G_coords, hx]
    linear_combination (-(a.y * b.y)) * d1
  · rw [gy]
    simp only [frobeniusP2G_coords, hy]
    linear_combination (xi * a.x * b.x * Fp2.ofBase cs.xiTo2PSquaredMinus2Over3) * d1 +
      (-(xi * a.x * b.x * Fp2.ofBase cs.xiToPSquaredMinus1Over3)) * d12
  · rw [gz]
    simp only [frobeniusP2G_coords, hz]
    linear_combination (-(xi * (a.x * b.y + a.y * b.x))) * d12

theorem frobeniusP2G_tau :
    Fp6.frobeniusP2G cs (tau : Fp6 K) = tau * ofBase (Fp2.ofBase cs.xiToPSquaredMinus1Over3) := by
  obtain ⟨gx, gy, gz⟩ := mul_coords (tau : Fp6 K) (ofBase (Fp2.ofBase cs.xiToPSquaredMinus1Over3))
  refine Fp6.ext' ?_ ?_ ?_
  · rw [gx]; simp only [frobeniusP2G_coords, tau, ofBase]; ring
  · rw [gy]; simp only [frobeniusP2G_coords, tau, ofBase]; ring
  · rw [gz]; simp only [frobeniusP2G_coords, tau, ofBase]; ring

theorem frobeniusP2G_one : Fp6.frobeniusP2G cs (1 : Fp6 K) = 1 := by
  rw [← one_eq]
  refine Fp6.ext' ?_ ?_ ?_ <;> simp only [frobeniusP2G_coords, Fp6.one, Fp2.zero_eq, Fp2.one_eq] <;> ring

end Fp6

/-! ### gfP12 -/
namespace Fp12
open Fp6 (tau)

theorem mul_coords (a b : Fp12 K) :
    (a * b).x = a.x * b.y + a.y * b.x ∧ (a * b).y = a.y * b.y + tau * (a.x * b.x) := by
  rw [← mul_eq, mul_eq_spec]; exact ⟨rfl, rfl⟩

theorem ofBase_mul (c d : Fp6 K) : (ofBase (c * d) : Fp12 K) = ofBase c * ofBase d := by
  obtain ⟨hx, hy⟩ := mul_coords (ofBase c) (ofBase d)
  refine Fp12.ext' ?_ ?_
  · rw [hx]; simp only [ofBase]; ring
  · rw [hy]; simp only [ofBase]; ring

theorem conjugate_mul' (a b : Fp12 K) : Fp12.conjugate (a * b) = Fp12.conjugate a * Fp12.conjugate b :=
  conjugate_mul a b

theorem conjugate_one : Fp12.conjugate (1 : Fp12 K) = 1 := by
  rw [← one_eq]; refine Fp12.ext' ?_ ?_ <;> simp [Fp12.conjugate, Fp12.one, Fp6.neg_eq, Fp6.zero_eq]

theorem normT_mul (a b : Fp12 K) : normT (a * b) = normT a * normT b := by
  obtain ⟨hx, hy⟩ := mul_coords a b
  simp only [normT, hx, hy]; ring

theorem invert_eq (a : Fp12 K) : Fp12.invert a = Fp12.conjugate a * ofBase (Fp6.invert (normT a)) := by
  obtain ⟨hx, hy⟩ := mul_coords (Fp12.conjugate a) (ofBase (Fp6.invert (normT a)))
  refine Fp12.ext' ?_ ?_
  · rw [hx]
    simp only [Fp12.invert, Fp12.mulScalarRecv, Fp12.conjugate, ofBase, normT, Fp6.mul_eq, Fp6.sub_eq, Fp6.neg_eq,
      Fp6.square_eq, Fp6.mulTau_eq']
    ring
  · rw [hy]
    simp only [Fp12.invert, Fp12.mulScalarRecv, Fp12.conjugate, ofBase, normT, Fp6.mul_eq, Fp6.sub_eq, Fp6.neg_eq,
      Fp6.square_eq, Fp6.mulTau_eq']
    ring

theorem invert_mul (a b : Fp12 K) : Fp12.invert (a * b) = Fp12.invert a * Fp12.invert b := by
  rw [invert_eq, invert_eq a, invert_eq b, conjugate_mul', normT_mul, Fp6.invert_mul, ofBase_mul]; ring

theorem invert_one : Fp12.invert (1 : Fp12 K) = 1 := by
  rw [invert_eq, conjugate_one]
  have hn : normT (1 : Fp12 K) = 1 := by
    rw [← one_eq]; simp only [normT, Fp12.one, Fp6.zero_eq, Fp6.one_eq]; ring
  rw [hn, Fp6.invert_one, one_mul]
  rw [← one_eq]; rfl

variable (cs : FrobConsts K)

theorem frobeniusG_coords (a : Fp12 K) :
    Fp12.frobeniusG cs a = ⟨Fp6.frobeniusG cs a.x * Fp6.ofBase cs.xiToPMinus1Over6, Fp6.frobeniusG cs a.y⟩ := by
  simp only [Fp12.frobeniusG, Fp6.mulScalar_eq, Fp6.mul_eq]

theorem frobeniusG_mul (hg : cs.Good) (a b : Fp12 K) :
    Fp12.frobeniusG cs (a * b) = Fp12.frobeniusG cs a * Fp12.frobeniusG cs b := by
  obtain ⟨hx, hy⟩ := mul_coords a b
  obtain ⟨gx, gy⟩ := mul_coords (Fp12.frobeniusG cs a) (Fp12.frobeniusG cs b)
  have h4 : Fp6.ofBase cs.xiToPMinus1Over6 * Fp6.ofBase cs.xiToPMinus1Over6 = Fp6.ofBase cs.xiToPMinus1Over3 := by
    rw [← Fp6.ofBase_mul, hg.h4]
  refine Fp12.ext' ?_ ?_
  · rw [gx]
    simp only [frobeniusG_coords, hx, Fp6.frobeniusG_add, Fp6.frobeniusG_mul cs hg]; ring
  · rw [gy]
    simp only [frobeniusG_coords, hy, Fp6.frobeniusG_add, Fp6.frobeniusG_mul cs hg, Fp6.frobeniusG_tau]
    linear_combination (-(tau * Fp6.frobeniusG cs a.x * Fp6.frobeniusG cs b.x)) * h4

theorem frobeniusG_one : Fp12.frobeniusG cs (1 : Fp12 K) = 1 := by
  rw [← one_eq]
  have h0 : Fp6.frobeniusG cs (0 : Fp6 K) = 0 := by
    rw [← Fp6.zero_eq]
    refine Fp6.ext' ?_ ?_ ?_ <;>
      simp only [Fp6.frobeniusG_coords, Fp6.zero, Fp2.zero_eq, Fp2.conjugate_zero] <;> ring
  refine Fp12.ext' ?_ ?_
  · simp only [frobeniusG_coords, Fp12.one, Fp6.zero_eq, Fp6.one_eq, h0]; ring
  · simp only [frobeniusG_coords, Fp12.one, Fp6.zero_eq, Fp6.one_eq, Fp6.frobeniusG_one]

theorem frobeniusP2G_coords (a : Fp12 K) :
    Fp12.frobeniusP2G cs a = ⟨Fp6.frobeniusP2G cs a.x * Fp6.ofBase (Fp2.ofBase cs.xiToPSquaredMinus1Over6),
      Fp6.frobeniusP2G cs a.y⟩ := by
  simp only [Fp12.frobeniusP2G, Fp6.mulGFP_eq, Fp6.mul_eq]

theorem frobeniusP2G_mul (hg : cs.Good) (a b : Fp12 K) :
    Fp12.frobeniusP2G cs (a * b) = Fp12.frobeniusP2G cs a * Fp12.frobeniusP2G cs b := by
  obtain ⟨hx, hy⟩ := mul_coords a b
  obtain ⟨gx, gy⟩ := mul_coords (Fp12.frobeniusP2G cs a) (Fp12.frobeniusP2G cs b)
  have h6 : Fp6.ofBase (Fp2.ofBase cs.xiToPSquaredMinus1Over6) * Fp6.ofBase (Fp2.ofBase cs.xiToPSquaredMinus1Over6) =
      Fp6.ofBase (Fp2.ofBase cs.xiToPSquaredMinus1Over3) := by
    rw [← Fp6.ofBase_mul, ← Fp2.ofBase_mul, hg.e6]
  refine Fp12.ext' ?_ ?_
  · rw [gx]
    simp only [frobeniusP2G_coords, hx, Fp6.frobeniusP2G_add, Fp6.frobeniusP2G_mul cs hg]; ring
  · rw [gy]
    simp only [frobeniusP2G_coords, hy, Fp6.frobeniusP2G_add, Fp6.frobeniusP2G_mul cs hg, Fp6.frobeniusP2G_tau]
    linear_combination (-(tau * Fp6.frobeniusP2G cs a.x * Fp6.frobeniusP2G cs b.x)) * h6

theorem frobeniusP2G_one : Fp12.frobeniusP2G cs (1 : Fp12 K) = 1 := by
  rw [← one_eq]
  have h0 : Fp6.frobeniusP2G cs (0 : Fp6 K) = 0 := by
    rw [← Fp6.zero_eq]
    refine Fp6.ext' ?_ ?_ ?_ <;> simp only [Fp6.frobeniusP2G_coords, Fp6.zero, Fp2.zero_eq] <;> ring
  refine Fp12.ext' ?_ ?_
  · simp only [frobeniusP2G_coords, Fp12.one, Fp6.zero_eq, Fp6.one_eq, h0]; ring
  · simp only [frobeniusP2G_coords, Fp12.one, Fp6.zero_eq, Fp6.one_eq, Fp6.frobeniusP2G_one]

theorem exp_mul (a b : Fp12 K) (k : Nat) : Fp12.exp (a * b) k = Fp12.exp a k * Fp12.exp b k := by
  simp only [exp_eq_pow, mul_pow]

theorem exp_one (k : Nat) : Fp12.exp (1 : Fp12 K) k = 1 := by simp only [exp_eq_pow, one_pow]

end Fp12

/-! ### the final exponentiation -/

theorem finalExp_unfold (cs : FrobConsts K) (u : Nat) (x : Fp12 K) :
    finalExponentiationG cs u x =
      (let t1 := Fp12.conjugate x * Fp12.invert x
       let t1 := t1 * Fp12.frobeniusP2G cs t1
       let fp := Fp12.frobeniusG cs t1
       let fp2 := Fp12.frobeniusP2G cs t1
       let fp3 := Fp12.frobeniusG cs fp2
       let fu := Fp12.exp t1 u
       let fu2 := Fp12.exp fu u
       let fu3 := Fp12.exp fu2 u
       let y3 := Fp12.conjugate (Fp12.frobeniusG cs fu)
       let fu2p := Fp12.frobeniusG cs fu2
       let fu3p := Fp12.frobeniusG cs fu3
       let y2 := Fp12.frobeniusP2G cs fu2
       let y0 := fp * fp2 * fp3
       let y1 := Fp12.conjugate t1
       let y5 := Fp12.conjugate fu2
       let y4 := Fp12.conjugate (fu * fu2p)
       let y6 := Fp12.conjugate (fu3 * fu3p)
       let t0 := y6 * y6 * y4 * y5
       let t1' := y3 * y5 * t0
       let t0 := t0 * y2
       let t1' := (t1' * t1' * t0) * (t1' * t1' * t0)
       let t0 := t1' * y1
       let t1' := t1' * y0
       t0 * t0 * t1') := by
  simp only [finalExponentiationG, Fp12.mul_eq, Fp12.square_eq]
  rfl

/-- **finalExponentiation is multiplicative** -/
theorem finalExp_mul (cs : FrobConsts K) (hg : cs.Good) (u : Nat) (x y : Fp12 K) :
    finalExponentiationG cs u (x * y) = finalExponentiationG cs u x * finalExponentiationG cs u y := by
  simp only [finalExp_unfold, Fp12.conjugate_mul', Fp12.invert_mul, Fp12.frobeniusG_mul cs hg,
    Fp12.frobeniusP2G_mul cs hg, Fp12.exp_mul]
  ring

theorem finalExp_one (cs : FrobConsts K) (u : Nat) : finalExponentiationG cs u (1 : Fp12 K) = 1 := by
  simp only [finalExp_unfold, Fp12.conjugate_one, Fp12.invert_one, Fp12.frobeniusG_one, Fp12.frobeniusP2G_one,
    Fp12.exp_one, mul_one]

/-- the final exponentiation as a monoid homomorphism -/
def finalExpHom (cs : FrobConsts K) (hg : cs.Good) (u : Nat) : Fp12 K →* Fp12 K where
  toFun := finalExponentiationG cs u
  map_one' := finalExp_one cs u
  map_mul' := finalExp_mul cs hg u

end
end Dos.Bn256

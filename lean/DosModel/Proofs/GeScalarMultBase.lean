/-
C20 (round 4) — `geScalarMultBase` of ge.go computes k • B, GIVEN that the precomputed table `base` (const.go,
regenerated as Gen.Ed25519GeTable.c_base) holds the multiples it is documented to hold:

    BaseTableOK B :  base[i][j] represents (j + 1)·256^i • B     (i < 32, j < 8)

(the table itself is checked elsewhere).  The code: h = Σ_k e[2k+1]·256^k • B (32 selectPreComputed/MixedAdd rounds on
the odd digits, row k), h ← 16·h (extended.Double, three ToProjective/Double, ToExtended), then h += Σ_k e[2k]·256^k • B
(32 rounds on the even digits).  Σ e[2k+1]·256^k·16 + Σ e[2k]·256^k = Σ e[i]·16^i = leNat a.
-/
import Mathlib.Tactic.Abel
import DosModel.Proofs.GeScalarMult

set_option exponentiation.threshold 600

namespace Dos.Ge
open Dos Dos.Ed25519 Dos.FeProg Dos.FeOps Dos.GeProg Dos.Ed25519Prime Dos.Edwards Dos.Gen.Ed25519Ge

/-- the documented content of the table `base`: entry (i, j) is (j + 1)·256^i times the base point -/
def BaseTableOK (basePt : Pt) : Prop :=
  ∀ i j, i < 32 → j < 8 →
    GoodPre (preOf ((Gen.Ed25519GeTable.c_base.getD i []).getD j [])) (((j + 1) * 256 ^ i) • basePt)

theorem tab_entry (B : Pt) (j k : ℕ) : ((j + 1) * 256 ^ k) • B = (j + 1) • (((256 : ℤ) ^ k) • B) := by
  have h : (256 ^ k : ℕ) • B = ((256 : ℤ) ^ k) • B := by
    rw [← natCast_zsmul]
    push_cast
    rfl
  rw [mul_smul, h]

/-- one round `selectPreComputed(&t, k, e); r.MixedAdd(h, &t); r.ToExtended(h)` on table row k -/
theorem baseRound {B : Pt} (htab : BaseTableOK B) {h : Ext} {s : Int} (hh : GoodExt h (s • B)) (k : Nat) (hk : k < 32)
    (b : Int) (hb : -8 ≤ b ∧ b ≤ 8) :
    GoodExt (complToExt (complMixedAdd h (selectPreComputed k b))) ((s + b * 256 ^ k) • B) := by
  have hsel := selectPreComputed_spec k (((256 : ℤ) ^ k) • B)
    (fun j hj => by rw [← tab_entry]; exact htab k j hk hj) b hb
  have := complToExt_spec (complMixedAdd_spec hh hsel)
  rw [add_smul, mul_smul]
  exact this

/-- `h.Double(&r)`, three `r.ToProjective(&s); s.Double(&r)`, `r.ToExtended(h)` -/
theorem baseMul16 {h : Ext} {Q : Pt} (hh : GoodExt h Q) :
    GoodExt (complToExt (projDouble (complToProj (projDouble (complToProj (projDouble (complToProj (extDouble h))))))))
      ((16 : Int) • Q) := by
  have h1 := complToExt_spec (projDouble_spec (complToProj_spec (projDouble_spec (complToProj_spec (projDouble_spec
    (complToProj_spec (extDouble_spec hh)))))))
  have e : (16 : Int) • Q = (Q + Q + (Q + Q) + (Q + Q + (Q + Q))) + (Q + Q + (Q + Q) + (Q + Q + (Q + Q))) := by abel
  rw [e]; exact h1

theorem geScalarMultBase_eq (a : Bytes) :
    geScalarMultBase a = (List.range 32).foldl
      (fun h k => complToExt (complMixedAdd h (selectPreComputed (2 * k / 2) ((recode (nybbles a)).getD (2 * k) 0))))
      (complToExt (projDouble (complToProj (projDouble (complToProj (projDouble (complToProj (extDouble
        ((List.range 32).foldl
          (fun h k => complToExt (complMixedAdd h
            (selectPreComputed ((2 * k + 1) / 2) ((recode (nybbles a)).getD (2 * k + 1) 0)))) extZero))))))))) := rfl

/-- Σ e[i]·16^i over 64 digits = 16 · Σ e[2k+1]·256^k + Σ e[2k]·256^k -/
theorem digits_even_odd (e : List Int) (hl : e.length = 64) :
    digitsVal e = 16 * sumTo (fun k => e.getD (2 * k + 1) 0 * 256 ^ k) 32 + sumTo (fun k => e.getD (2 * k) 0 * 256 ^ k) 32 := by
  have ho : sumTo (fun k => e.getD (2 * k + 1) 0 * 16 ^ (2 * k + 1)) 32
      = sumTo (fun k => 16 * (e.getD (2 * k + 1) 0 * 256 ^ k)) 32 := by
    apply sumTo_congr
    intro k _
    rw [pow_succ, pow_mul]
    norm_num
    ring
  have he : sumTo (fun k => e.getD (2 * k) 0 * 16 ^ (2 * k)) 32 = sumTo (fun k => e.getD (2 * k) 0 * 256 ^ k) 32 := by
    apply sumTo_congr
    intro k _
    rw [pow_mul]
    norm_num
  rw [digitsVal_eq_sumTo, hl, show 64 = 2 * 32 from rfl, sumTo_even_odd, ho, he, sumTo_mul, add_comm]

/-- **geScalarMultBase computes k • B** (precondition of the Go code: a[31] ≤ 127), given the table -/
theorem geScalarMultBase_spec {basePt : Pt} (htab : BaseTableOK basePt) (a : Bytes) (hlen : a.length = 32)
    (h31 : (a.getD 31 0).toNat ≤ 127) : GoodExt (geScalarMultBase a) (leNat a • basePt) := by
  obtain ⟨hl, hr, hv⟩ := recode_spec a hlen h31
  rw [geScalarMultBase_eq]
  generalize recode (nybbles a) = e at hl hr hv
  -- odd digits
  have k1 := foldl_range_inv
    (fun h k => complToExt (complMixedAdd h (selectPreComputed ((2 * k + 1) / 2) (e.getD (2 * k + 1) 0))))
    (fun n h => GoodExt h (sumTo (fun k => e.getD (2 * k + 1) 0 * 256 ^ k) n • basePt))
    extZero 32
    (by
      show GoodExt extZero ((0 : Int) • basePt)
      rw [zero_smul]; exact extZero_spec)
    (fun k t hk ht => by
      show GoodExt (complToExt (complMixedAdd t (selectPreComputed ((2 * k + 1) / 2) (e.getD (2 * k + 1) 0)))) _
      have : (2 * k + 1) / 2 = k := by omega
      rw [this]
      exact baseRound htab ht k hk _ (hr _ (by omega)))
  have k2 := baseMul16 k1
  rw [← mul_smul] at k2
  -- even digits
  have k3 := foldl_range_inv
    (fun h k => complToExt (complMixedAdd h (selectPreComputed (2 * k / 2) (e.getD (2 * k) 0))))
    (fun n h => GoodExt h ((16 * sumTo (fun k => e.getD (2 * k + 1) 0 * 256 ^ k) 32
      + sumTo (fun k => e.getD (2 * k) 0 * 256 ^ k) n) • basePt))
    _ 32
    (by
      show GoodExt _ ((16 * sumTo (fun k => e.getD (2 * k + 1) 0 * 256 ^ k) 32 + 0) • basePt)
      rw [add_zero]; exact k2)
    (fun k t hk ht => by
      show GoodExt (complToExt (complMixedAdd t (selectPreComputed (2 * k / 2) (e.getD (2 * k) 0)))) _
      have : 2 * k / 2 = k := by omega
      rw [this]
      have := baseRound htab ht k hk _ (hr (2 * k) (by omega))
      rw [add_assoc] at this
      exact this)
  rw [← digits_even_odd e hl, hv, natCast_zsmul] at k3
  exact k3

/-- the same, taking also the representation of the base point by the constant `baseExt` (not needed: the table
entry (0, 0) already pins `basePt`) -/
theorem geScalarMultBase_spec' {basePt : Pt} (_hB : GoodExt baseExt basePt) (htab : BaseTableOK basePt) (a : Bytes)
    (hlen : a.length = 32) (h31 : (a.getD 31 0).toNat ≤ 127) : GoodExt (geScalarMultBase a) (leNat a • basePt) :=
  geScalarMultBase_spec htab a hlen h31

/-- `P.Mul(s, A)` of point.go (A = nil: the base point) -/
theorem ptMul_spec {basePt : Pt} (htab : BaseTableOK basePt) (a : Bytes) (hlen : a.length = 32)
    (h31 : (a.getD 31 0).toNat ≤ 127) :
    GoodExt (ptMul a none) (leNat a • basePt)
      ∧ ∀ (q : Ext) (Q : Pt), GoodExt q Q → GoodExt (ptMul a (some q)) (leNat a • Q) := by
  have hm : mulScalar a = a := by unfold mulScalar; rw [if_neg (by omega)]
  exact ⟨by show GoodExt (geScalarMultBase (mulScalar a)) _; rw [hm]; exact geScalarMultBase_spec htab a hlen h31,
    fun q _ hq => by show GoodExt (geScalarMult (mulScalar a) q) _; rw [hm]; exact geScalarMult_spec a hlen h31 hq⟩

end Dos.Ge

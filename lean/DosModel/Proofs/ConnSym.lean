import DosModel.Proofs.ConnTable
import DosModel.Proofs.P2PSym
import DosModel.Model.ConnSym

/-! Session and signing keys of the connection-table model: no table event ever changes the keys of a
connection that exists, and with a key pair drawn per connection all keys are pairwise different. -/
set_option linter.unusedSimpArgs false
namespace Dos.ConnTable
open Dos

def SameKeys (x y : Conn) : Prop := y.key = x.key ∧ y.skD = x.skD ∧ y.skA = x.skA

theorem SameKeys.refl (x : Conn) : SameKeys x x := ⟨rfl, rfl, rfl⟩
theorem SameKeys.trans {x y z : Conn} (h1 : SameKeys x y) (h2 : SameKeys y z) : SameKeys x z :=
  ⟨h2.1.trans h1.1, h2.2.1.trans h1.2.1, h2.2.2.trans h1.2.2⟩

theorem retAtD_keys (cfg : Cfg) (s : Net) (c e : Nat) : SameKeys (s.conns e) ((retAtD cfg s c).conns e) := by
  rw [retAtD_conns]; split <;> exact ⟨rfl, rfl, rfl⟩
theorem retAtA_keys (cfg : Cfg) (s : Net) (c e : Nat) : SameKeys (s.conns e) ((retAtA cfg s c).conns e) := by
  rw [retAtA_conns]; split <;> exact ⟨rfl, rfl, rfl⟩
theorem hand_keys (cfg : Cfg) (s : Net) (i c e : Nat) : SameKeys (s.conns e) ((hand cfg s i c).conns e) := by
  cases h : (s.conns c).clD
  · rw [hand_open cfg s i c h]; simp only [setReq_conns]; rw [setConn_conns]; split <;> exact ⟨rfl, rfl, rfl⟩
  · rw [hand_closed cfg s i c h]; exact .refl _
theorem setConn_keys (s : Net) (c : Nat) (f : Conn → Conn) (hf : SameKeys (s.conns c) (f (s.conns c))) (e : Nat) :
    SameKeys (s.conns e) ((s.setConn c f).conns e) := by
  rw [setConn_conns]; split
  · rename_i h; subst h; exact hf
  · exact .refl _

/-- how an event changes the set of connections: none is added, or exactly one (number `s.nconn`) -/
theorem step_conns (cfg : Cfg) (s : Net) (e : Ev) :
    ((step cfg s e).nconn = s.nconn ∧ (step cfg s e).nextKey = s.nextKey ∧
        ∀ c, SameKeys (s.conns c) ((step cfg s e).conns c)) ∨
    (∃ a b x, (step cfg s e).nconn = s.nconn + 1 ∧ (step cfg s e).nextKey = s.nextKey + 3 ∧
        SameKeys (mkConn cfg (newReq s a b) a b x) ((step cfg s e).conns s.nconn) ∧
        ∀ c, c ≠ s.nconn → SameKeys (s.conns c) ((step cfg s e).conns c)) := by
  cases e <;> simp only [step]
  case request a b dial =>
    split
    · left; exact ⟨by simp, by simp, fun c => hand_keys cfg _ _ _ c⟩
    · split
      · left; exact ⟨by simp, by simp, fun c => .refl _⟩
      · rename_i x
        split
        · left; exact ⟨by simp, by simp, fun c => .refl _⟩
        · right
          have hnew : ∀ c, (openConn cfg (newReq s a b) a b x).conns c =
              if c = s.nconn then mkConn cfg (newReq s a b) a b x else s.conns c := by
            intro c; rw [openConn_conns]; rfl
          refine ⟨a, b, x, ?_⟩
          split
          · refine ⟨by simp, by simp, ?_, ?_⟩
            · refine .trans ?_ (retAtD_keys cfg _ _ _)
              refine .trans ?_ (hand_keys cfg _ _ _ _)
              rw [hnew, if_pos rfl]; exact .refl _
            · intro c hc
              refine .trans ?_ (retAtD_keys cfg _ _ _)
              refine .trans ?_ (hand_keys cfg _ _ _ _)
              rw [hnew, if_neg hc]; exact .refl _
          · refine ⟨by simp, by simp, ?_, ?_⟩
            · refine .trans ?_ (hand_keys cfg _ _ _ _)
              rw [hnew, if_pos rfl]; exact .refl _
            · intro c hc
              refine .trans ?_ (hand_keys cfg _ _ _ _)
              rw [hnew, if_neg hc]; exact .refl _
  case deliverReq c =>
    left
    split
    · split
      · exact ⟨rfl, rfl, fun _ => .refl _⟩
      · split
        · exact ⟨by simp, by simp, fun e => by simp only [setNode_conns]; exact setConn_keys _ _ _ ⟨rfl, rfl, rfl⟩ e⟩
        · exact ⟨by simp, by simp, fun e => setConn_keys _ _ _ ⟨rfl, rfl, rfl⟩ e⟩
    · exact ⟨rfl, rfl, fun _ => .refl _⟩
  case appReply b k =>
    left
    split
    · exact ⟨rfl, rfl, fun _ => .refl _⟩
    · split
      · exact ⟨by simp, by simp, fun _ => .refl _⟩
      · split
        · exact ⟨by simp, by simp, fun _ => .refl _⟩
        · exact ⟨by simp, by simp, fun e => setConn_keys _ _ _ ⟨rfl, rfl, rfl⟩ e⟩
  case deliverReply c =>
    left
    split
    · split
      · exact ⟨rfl, rfl, fun _ => .refl _⟩
      · split
        · exact ⟨by simp, by simp, fun e => setConn_keys _ _ _ ⟨rfl, rfl, rfl⟩ e⟩
        · split
          · exact ⟨by simp, by simp, fun e => setConn_keys _ _ _ ⟨rfl, rfl, rfl⟩ e⟩
          · split
            · refine ⟨by simp, by simp, fun e => ?_⟩
              simp only [setReq_conns]
              exact .trans (setConn_keys _ _ _ ⟨rfl, rfl, rfl⟩ e) (setConn_keys _ _ _ ⟨rfl, rfl, rfl⟩ e)
            · refine ⟨by simp, by simp, fun e => ?_⟩
              exact .trans (setConn_keys _ _ _ ⟨rfl, rfl, rfl⟩ e) (setConn_keys _ _ _ ⟨rfl, rfl, rfl⟩ e)
    · exact ⟨rfl, rfl, fun _ => .refl _⟩
  case cut c =>
    left
    split
    · refine ⟨by simp, by simp, fun e => ?_⟩
      exact .trans (.trans (setConn_keys _ _ _ ⟨rfl, rfl, rfl⟩ e) (retAtD_keys cfg _ _ e)) (retAtA_keys cfg _ _ e)
    · exact ⟨rfl, rfl, fun _ => .refl _⟩
  case reject c atD =>
    left
    split
    · split
      · split
        · exact ⟨rfl, rfl, fun _ => .refl _⟩
        · exact ⟨by simp, by simp, fun e => retAtD_keys cfg _ _ e⟩
      · split
        · exact ⟨rfl, rfl, fun _ => .refl _⟩
        · exact ⟨by simp, by simp, fun e => retAtA_keys cfg _ _ e⟩
    · exact ⟨rfl, rfl, fun _ => .refl _⟩
  case close c atD =>
    left
    split
    · split
      · split
        · exact ⟨rfl, rfl, fun _ => .refl _⟩
        · refine ⟨by simp, by simp, fun e => ?_⟩
          refine .trans ?_ (retAtD_keys cfg _ _ e)
          exact setConn_keys ({ s with reqs := failAll (s.conns c).pend s.reqs } : Net) c _ ⟨rfl, rfl, rfl⟩ e
      · split
        · exact ⟨rfl, rfl, fun _ => .refl _⟩
        · refine ⟨by simp, by simp, fun e => ?_⟩
          exact .trans (setConn_keys _ _ _ ⟨rfl, rfl, rfl⟩ e) (retAtA_keys cfg _ _ e)
    · exact ⟨rfl, rfl, fun _ => .refl _⟩
  case procRm n k => left; split <;> exact ⟨by simp, by simp, fun _ => .refl _⟩
  case disconnect a b => left; exact ⟨by simp, by simp, fun _ => .refl _⟩
  case expire i => left; split <;> exact ⟨by simp, by simp, fun _ => .refl _⟩
  case reset n =>
    left
    refine ⟨?_, ?_, fun c => ?_⟩
    · trivial
    · trivial
    · split <;> exact ⟨rfl, rfl, rfl⟩

/-- with a key pair per connection: connection `c` has session key `3c+1` and signing keys `3c+2`, `3c+3` — any
numbering would do, the point is that all of them differ -/
structure KeyInv (s : Net) : Prop where
  next : s.nextKey = 3 * s.nconn + 1
  keys : ∀ c, c < s.nconn → (s.conns c).key = 3 * c + 1 ∧ (s.conns c).skD = 3 * c + 2 ∧ (s.conns c).skA = 3 * c + 3

theorem KeyInv.init (ideal : Nat → Bool) : KeyInv (init ideal) :=
  ⟨rfl, fun c h => absurd h (Nat.not_lt_zero c)⟩

theorem step_keyInv (cfg : Cfg) (hk : cfg.keyPerConn = true) {s : Net} (hK : KeyInv s) (e : Ev) : KeyInv (step cfg s e) := by
  rcases step_conns cfg s e with ⟨h1, h2, h3⟩ | ⟨a, b, x, h1, h2, h3, h4⟩
  · refine ⟨by rw [h1, h2]; exact hK.next, fun c hc => ?_⟩
    rw [h1] at hc
    obtain ⟨k1, k2, k3⟩ := h3 c
    rw [k1, k2, k3]; exact hK.keys c hc
  · refine ⟨by rw [h1, h2, hK.next]; omega, fun c hc => ?_⟩
    rw [h1] at hc
    by_cases hcn : c = s.nconn
    · subst hcn
      obtain ⟨k1, k2, k3⟩ := h3
      rw [k1, k2, k3]
      have e1 : (mkConn cfg (newReq s a b) a b x).key = s.nextKey := by simp [mkConn, hk]
      have e2 : (mkConn cfg (newReq s a b) a b x).skD = s.nextKey + 1 := by simp [mkConn, hk]
      have e3 : (mkConn cfg (newReq s a b) a b x).skA = s.nextKey + 2 := by simp [mkConn, hk]
      rw [e1, e2, e3, hK.next]
      omega
    · obtain ⟨k1, k2, k3⟩ := h4 c hcn
      rw [k1, k2, k3]; exact hK.keys c (by omega)

end Dos.ConnTable

namespace Dos.ConnSym
open Dos Dos.P2PSym

/-- a delivered frame that was packed by somebody was sealed under the receiver's session key and signed with
the key the receiver verifies under -/
theorem deliver_pack_keys (v : P2PSym.Conn) (sk k : Nat) (sender : Bytes) (m : Msg) (nonce : Nat) (reply : Bool)
    (d : Delivery) (h : recvFrame v (pack sk k sender m nonce reply) = .deliver d) : k = v.k ∧ sk = v.pk := by
  rw [recvFrame_deliver] at h
  obtain ⟨p, a, hf, ha, hs, _, _, _⟩ := h
  simp only [pack, Frame.sealed.injEq, Plain.pkg.injEq] at hf
  obtain ⟨hk, hp⟩ := hf
  subst hp
  simp only [Option.some.injEq] at ha
  subst ha
  simp only [Sig.good.injEq] at hs
  exact ⟨hk, hs.1⟩

theorem view_sameKeys (ca dr : Bool) {x y : ConnTable.Conn} (h : ConnTable.SameKeys x y) (d : Bool) :
    view ca dr y d = view ca dr x d ∧ skOf y d = skOf x d := by
  obtain ⟨h1, h2, h3⟩ := h
  cases d <;> simp [view, skOf, h1, h2, h3]

structure SInv (ca dr : Bool) (s : SNet) : Prop where
  keys : ConnTable.KeyInv s.net
  sent : ∀ c d f, f ∈ s.sent c d → c < s.net.nconn ∧
          ∃ m nonce reply, f = pack (skOf (s.net.conns c) d) (s.net.conns c).key [] m nonce reply
  out  : ∀ c d dl, dl ∈ (s.rs c d).out → ∃ f, f ∈ s.sent c (!d) ∧ recvFrame (view ca dr (s.net.conns c) d) f = .deliver dl

theorem SInv.init (ca dr : Bool) (ideal : Nat → Bool) : SInv ca dr { net := ConnTable.init ideal } where
  keys := ConnTable.KeyInv.init ideal
  sent := by intro c d f h; simp at h
  out := by intro c d dl h; simp at h

theorem sstep_inv (cfg : ConnTable.Cfg) (hk : cfg.keyPerConn = true) (ca dr : Bool) {s : SNet} (hS : SInv ca dr s)
    (e : SEv) (hadv : match e with
      | .wire _ _ f => AdvCan s f
      | _ => True) : SInv ca dr (sstep cfg ca dr s e) := by
  cases e with
  | tbl e =>
    simp only [sstep]
    -- connections that exist keep their keys
    have hsame : ∀ c, c < s.net.nconn → ConnTable.SameKeys (s.net.conns c) ((ConnTable.step cfg s.net e).conns c) := by
      intro c hc
      rcases ConnTable.step_conns cfg s.net e with ⟨_, _, h3⟩ | ⟨_, _, _, _, _, _, h4⟩
      · exact h3 c
      · exact h4 c (Nat.ne_of_lt hc)
    have hmono : s.net.nconn ≤ (ConnTable.step cfg s.net e).nconn := by
      rcases ConnTable.step_conns cfg s.net e with ⟨h1, _, _⟩ | ⟨_, _, _, h1, _, _, _⟩ <;> omega
    refine ⟨ConnTable.step_keyInv cfg hk hS.keys e, ?_, ?_⟩
    · intro c d f hf
      obtain ⟨hc, m, nonce, reply, hfe⟩ := hS.sent c d f hf
      obtain ⟨_, hsk⟩ := view_sameKeys ca dr (hsame c hc) d
      refine ⟨Nat.lt_of_lt_of_le hc hmono, m, nonce, reply, ?_⟩
      rw [hsk, (hsame c hc).1]; exact hfe
    · intro c d dl hdl
      obtain ⟨f, hf, hr⟩ := hS.out c d dl hdl
      obtain ⟨hc, _⟩ := hS.sent c (!d) f hf
      obtain ⟨hv, _⟩ := view_sameKeys ca dr (hsame c hc) d
      exact ⟨f, hf, by rw [hv]; exact hr⟩
  | pack c d m nonce reply =>
    simp only [sstep]
    split
    · rename_i hc
      refine ⟨hS.keys, ?_, ?_⟩
      · intro c' d' f hf
        simp only [upd2] at hf
        split at hf
        · rename_i h; obtain ⟨h1, h2⟩ := h; subst h1 h2
          simp only [List.mem_append, List.mem_singleton] at hf
          rcases hf with hf | hf
          · exact hS.sent c' d' f hf
          · exact ⟨hc, m, nonce, reply, hf⟩
        · exact hS.sent c' d' f hf
      · intro c' d' dl hdl
        obtain ⟨f, hf, hr⟩ := hS.out c' d' dl hdl
        refine ⟨f, ?_, hr⟩
        simp only [upd2]
        split
        · rename_i h; obtain ⟨h1, h2⟩ := h; subst h1; rw [← h2]
          exact List.mem_append_left _ hf
        · exact hf
    · exact hS
  | wire c d f =>
    simp only [sstep]
    split
    · rename_i hlive
      obtain ⟨hc, _⟩ := hlive
      refine ⟨hS.keys, hS.sent, ?_⟩
      intro c' d' dl hdl
      simp only [upd2] at hdl
      split at hdl
      · rename_i h; obtain ⟨h1, h2⟩ := h; subst h1 h2
        rcases rstep_out (view ca dr (s.net.conns c') d') (s.rs c' d') f with ho | ⟨dl', hr, ho⟩
        · rw [ho] at hdl; exact hS.out c' d' dl hdl
        · rw [ho] at hdl
          simp only [List.mem_append, List.mem_singleton] at hdl
          rcases hdl with hdl | hdl
          · exact hS.out c' d' dl hdl
          · subst hdl
            -- the frame that was just delivered: where can the man in the middle have it from?
            refine ⟨f, ?_, hr⟩
            cases hadv with
            | seen c2 d2 hc2 hmem =>
              obtain ⟨_, m, nonce, reply, hfe⟩ := hS.sent c2 d2 f hmem
              rw [hfe] at hr
              obtain ⟨hkk, hss⟩ := deliver_pack_keys _ _ _ _ _ _ _ _ hr
              have k1 := hS.keys.keys c2 hc2
              have k2 := hS.keys.keys c' hc
              simp only [view] at hkk hss
              have hcc : c2 = c' := by rw [k1.1, k2.1] at hkk; omega
              subst hcc
              have hdd : d2 = !d' := by
                cases d2 <;> cases d' <;> simp only [skOf, Bool.not_true, Bool.not_false, Bool.false_eq_true, if_false, if_true] at hss ⊢
                · rw [k1.2.2, k1.2.1] at hss; omega
                · rw [k1.2.1, k1.2.2] at hss; omega
              rw [← hdd]; exact hmem
            | raw n => simp [recvFrame] at hr
            | broken => simp [recvFrame] at hr
            | foreign hk' =>
              have := hk' c' hc
              simp [recvFrame, view, this] at hr
      · exact hS.out c' d' dl hdl
    · exact hS

theorem srun_inv (cfg : ConnTable.Cfg) (hk : cfg.keyPerConn = true) (ca dr : Bool) {s : SNet} (hS : SInv ca dr s)
    (evs : List SEv) (hv : Valid cfg ca dr s evs) : SInv ca dr (srun cfg ca dr s evs) := by
  induction evs generalizing s with
  | nil => exact hS
  | cons e es ih =>
    obtain ⟨h1, h2⟩ := hv
    exact ih (sstep_inv cfg hk ca dr hS e h1) h2

end Dos.ConnSym

package c02

// History cases: a sequence of calls inside ONE Exec that share mutable message buffers, the way a
// long-running node reuses a receive buffer. The functions under test are pure in the message VALUE:
// the verdict of each call is evaluated (and predicted by the Lean model) from the bytes the buffer
// holds at call time. A share / signature made for m1 must never count or verify for m2.
//
//	hist <t> <n> <coeffs> <step>/<step>/…
//	  w:<b>:<h>:<msghex>   overwrite buffer b IN PLACE with the message (same backing array when it fits)
//	  s:<b>:<i>            tbls.Sign(share i, buf b)
//	  bs:<b>               bls.Sign(secret, buf b)
//	  v:<b>:<sighex>       tbls.Verify(pub, buf b, sig)
//	  bv:<b>:<sighex>      bls.Verify(group key, buf b, sig)
//	  r:<b>:<entries>      tbls.Recover(pub, buf b, entries, t, n)
//	  rr:<b>:<entries>     tbls.Recover twice on the SAME [][]byte (the first call compacts it in place)

import (
	"bytes"
	"fmt"
	"math/big"
	"strings"

	"github.com/DOSNetwork/core/sign/bls"
	"github.com/DOSNetwork/core/sign/tbls"

	"verifharness/internal/h"
)

func execHist(w []string) (res h.Result) {
	t, n, coeffs := h.Atoi(w[1]), h.Atoi(w[2]), CSV(w[3])
	pri, pub := Polys(coeffs)
	secret := new(big.Int)
	if len(coeffs) > 0 {
		secret = coeffs[0]
	}
	bufs := map[string][]byte{}
	hs := map[string]*big.Int{}
	var outs []string
	fail := func(k int, s string) {
		if res.Oracle == "" {
			sig, detail := s, ""
			if j := strings.Index(s, ":"); j >= 0 {
				sig, detail = s[:j], s[j+1:]
			}
			res.Oracle = fmt.Sprintf("%s: history step %d (%s):%s", sig, k, strings.SplitN(w[4], "/", k+2)[k][:1], detail)
		}
	}
	for k, st := range strings.Split(w[4], "/") {
		f := strings.Split(st, ":")
		b := ""
		if len(f) > 1 {
			b = f[1]
		}
		if f[0] != "w" && bufs[b] == nil && hs[b] == nil {
			panic("bad case line: buffer used before it was written")
		}
		switch f[0] {
		case "w":
			m := h.UnHex(f[3])
			if HashScalar(m).Cmp(h.BigDec(f[2])) != 0 {
				panic("bad case line: h is not keccak256(msg) mod r")
			}
			if old, ok := bufs[b]; ok && cap(old) >= len(m) {
				nb := old[:len(m)]
				copy(nb, m) // in place: every alias of the old buffer now reads the new message
				bufs[b] = nb
			} else {
				nb := make([]byte, len(m), len(m)+8)
				copy(nb, m)
				bufs[b] = nb
			}
			hs[b] = h.BigDec(f[2])
			outs = append(outs, "w")
		case "s":
			i := h.Atoi(f[2])
			sig, err := tbls.Sign(Suite(), pri.Eval(i), bufs[b])
			if err != nil {
				outs = append(outs, "err "+ErrKind(err))
				fail(k, "sign-failed: "+err.Error())
				break
			}
			outs = append(outs, "ok "+h.Hex(sig))
			if !bytes.Equal(sig, ValidShare(coeffs, hs[b], i)) {
				fail(k, "sign-wrong-share: not index ‖ x_i·H(m) for the message in the buffer")
			}
		case "bs":
			sig, err := bls.Sign(Suite(), Scalar(secret), bufs[b])
			if err != nil {
				outs = append(outs, "err "+ErrKind(err))
				fail(k, "blssign-failed: "+err.Error())
				break
			}
			outs = append(outs, "ok "+h.Hex(sig))
			if !bytes.Equal(sig, G1Bytes(new(big.Int).Mul(secret, hs[b]))) {
				fail(k, "blssign-wrong: not x·H(m) for the message in the buffer")
			}
		case "v":
			sig := h.UnHex(f[2])
			o := catch(func() string {
				if err := tbls.Verify(Suite(), pub, bufs[b], sig); err != nil {
					return "err " + ErrKind(err)
				}
				return "ok"
			})
			outs = append(outs, o)
			c, _ := Classify(coeffs, hs[b], 1<<16, sig)
			switch {
			case strings.HasPrefix(o, "panic"):
				fail(k, "verify-panics: "+o)
			case c == "valid" && o != "ok":
				fail(k, "valid-share-rejected: "+o)
			case c == "invalid" && o == "ok":
				fail(k, "invalid-share-accepted: tbls.Verify accepted an entry that is not index ‖ x_i·H(m) for the message in the buffer")
			}
		case "bv":
			sig := h.UnHex(f[2])
			o := catch(func() string {
				if err := bls.Verify(Suite(), pub.Commit(), bufs[b], sig); err != nil {
					return "err " + ErrKind(err)
				}
				return "ok"
			})
			outs = append(outs, o)
			good := G1Bytes(new(big.Int).Mul(secret, hs[b]))
			isGood := len(sig) >= 64 && bytes.Equal(sig[:64], good)
			canon := len(sig) >= 64 && new(big.Int).SetBytes(sig[:32]).Cmp(P) < 0 && new(big.Int).SetBytes(sig[32:64]).Cmp(P) < 0
			switch {
			case strings.HasPrefix(o, "panic"):
				fail(k, "verify-panics: "+o)
			case isGood && o != "ok":
				fail(k, "valid-signature-rejected: "+o)
			case !isGood && canon && o == "ok":
				fail(k, "forged-signature-accepted: bls.Verify accepted bytes that are not x·H(m) for the message in the buffer")
			}
		case "r":
			es := Entries(f[2])
			cp := make([][]byte, len(es))
			for i, e := range es {
				cp[i] = append([]byte{}, e...)
			}
			o := catch(func() string {
				sig, err := tbls.Recover(Suite(), pub, bufs[b], cp, t, n)
				if err != nil {
					return "err " + ErrKind(err)
				}
				return "ok " + h.Hex(sig)
			})
			outs = append(outs, o)
			// the verdict must not go through the (possibly stateful) library with the shared buffer:
			// hand Verdict a private copy of the message
			if v, _, _ := Verdict(o, coeffs, hs[b], append([]byte{}, bufs[b]...), pub, es, t, n); v != "" {
				fail(k, v)
			}
		case "rr":
			es := Entries(f[2])
			cp := make([][]byte, len(es))
			for i, e := range es {
				cp[i] = append([]byte{}, e...)
			}
			call := func() string {
				return catch(func() string {
					sig, err := tbls.Recover(Suite(), pub, bufs[b], cp, t, n) // same slice object both times
					if err != nil {
						return "err " + ErrKind(err)
					}
					return "ok " + h.Hex(sig)
				})
			}
			o1 := call()
			o2 := call()
			outs = append(outs, o1+"+"+o2)
			for _, o := range []string{o1, o2} {
				if v, _, _ := Verdict(o, coeffs, hs[b], append([]byte{}, bufs[b]...), pub, es, t, n); v != "" {
					fail(k, v)
				}
			}
		default:
			panic("bad case line")
		}
	}
	res.Impl = strings.Join(outs, "/")
	res.Class = "hist"
	res.Nontrivial = true
	return
}

// History builds one history line. pattern selects the call sequence.
func History(rng *h.Rng, pattern int) string {
	n := 3 + rng.Intn(5)
	t := n/2 + 1
	coeffs := RandPoly(rng, t, 4+rng.Intn(2))
	L := 1 + rng.Intn(24)
	m1, m2 := rng.Bytes(L), rng.Bytes(L)
	if pattern%5 == 4 { // m2 differs from m1 in one bit only
		m2 = append([]byte{}, m1...)
		m2[rng.Intn(L)] ^= 1 << uint(rng.Intn(8))
	}
	h1, h2 := HashScalar(m1), HashScalar(m2)
	members := rng.Perm(n)[:t]
	set := func(hs *big.Int, k int) string {
		var es [][]byte
		for _, i := range members[:k] {
			es = append(es, ValidShare(coeffs, hs, i))
		}
		return EntriesOf(es)
	}
	sh := func(hs *big.Int, i int) string { return h.Hex(ValidShare(coeffs, hs, i)) }
	gs := func(hs *big.Int) string { return h.Hex(G1Bytes(new(big.Int).Mul(coeffs[0], hs))) }
	w := func(b int, hs *big.Int, m []byte) string { return fmt.Sprintf("w:%d:%s:%s", b, hs, h.Hex(m)) }
	i0 := members[0]
	var st []string
	switch pattern % 4 {
	case 0: // verify on the buffer, overwrite it in place, verify the OLD share / signature again
		st = []string{w(0, h1, m1), "v:0:" + sh(h1, i0), "bv:0:" + gs(h1), w(0, h2, m2),
			"v:0:" + sh(h1, i0), "bv:0:" + gs(h1), "v:0:" + sh(h2, i0), "bv:0:" + gs(h2)}
	case 1: // recover for m1, overwrite, recover again from the m1 shares (zero valid m2 shares), then from m2 shares
		st = []string{w(0, h1, m1), "r:0:" + set(h1, t), w(0, h2, m2), "r:0:" + set(h1, t),
			"bv:0:" + gs(h1), "r:0:" + set(h2, t), "bv:0:" + gs(h2)}
	case 2: // sign on the buffer, overwrite, sign again; the second share must be for m2
		st = []string{w(0, h1, m1), fmt.Sprintf("s:0:%d", i0), "bs:0", w(0, h2, m2), fmt.Sprintf("s:0:%d", i0), "bs:0",
			"v:0:" + sh(h1, i0), "v:0:" + sh(h2, i0)}
	case 3: // two buffers interleaved, then swapped in place
		st = []string{w(0, h1, m1), w(1, h2, m2), "v:0:" + sh(h1, i0), "v:1:" + sh(h1, i0), "v:1:" + sh(h2, i0),
			"v:0:" + sh(h2, i0), w(0, h2, m2), w(1, h1, m1), "v:0:" + sh(h1, i0), "v:0:" + sh(h2, i0),
			"v:1:" + sh(h1, i0), "r:1:" + set(h1, t), "r:0:" + set(h1, t-1+rng.Intn(2))}
	}
	return fmt.Sprintf("hist %d %d %s %s", t, n, CSVOf(coeffs), strings.Join(st, "/"))
}

// LargeGroup builds a rec line for a big group with a small threshold: members at the indices
// around 64 (a machine word of flags) and 256 (second index byte), replays in other encodings,
// k valid distinct members (k may be below t).
func LargeGroup(rng *h.Rng, qualifying bool) string {
	n := []int{65, 100, 255, 256, 257, 300}[rng.Intn(6)]
	t := 2 + rng.Intn(3)
	coeffs := RandPoly(rng, t, 4+rng.Intn(2))
	msgTok := MsgTok(rng.Bytes(1 + rng.Intn(16)))
	hs := HashScalar(Msg(msgTok))
	var pool []int
	for _, i := range []int{0, 1, 62, 63, 64, 65, 66, 127, 128, 254, 255, 256, 257, 299, n - 1} {
		if i < n {
			pool = append(pool, i)
		}
	}
	p := rng.Perm(len(pool))
	k := t
	if !qualifying {
		k = 1 + rng.Intn(t-1)
	} else if rng.Intn(2) == 0 {
		k = t + rng.Intn(2)
	}
	var members []int
	for _, j := range p {
		if len(members) < k {
			members = append(members, pool[j])
		}
	}
	// make sure a high index is among them most of the time
	if rng.Intn(4) != 0 && n > 64 {
		hi := []int{64, 65, n - 1}[rng.Intn(3)]
		dup := false
		for _, m := range members {
			dup = dup || m == hi
		}
		if !dup {
			members[rng.Intn(len(members))] = hi
		}
	}
	var es [][]byte
	for _, i := range members {
		v := ValidShare(coeffs, hs, i)
		es = append(es, v)
	}
	// replays: each member's share again under up to t+1 different encodings (trailing bytes)
	for _, i := range members {
		reps := rng.Intn(t + 2)
		if i >= 64 {
			reps = t + 1
		}
		for r := 0; r < reps; r++ {
			tail := rng.Bytes(1 + r)
			if rng.Intn(4) == 0 {
				tail = Tail(rng)
			}
			es = append(es, append(ValidShare(coeffs, hs, i), tail...))
		}
	}
	// below-threshold padding
	for j := rng.Intn(4); j > 0; j-- {
		es = append(es, Junk(rng, rng.Intn(NJunk), coeffs, hs, n, pool[rng.Intn(len(pool))]))
	}
	switch rng.Intn(3) {
	case 0: // replays first
		for a, b := 0, len(es)-1; a < b; a, b = a+1, b-1 {
			es[a], es[b] = es[b], es[a]
		}
	case 1:
		q := rng.Perm(len(es))
		sh := make([][]byte, len(es))
		for a, b := range q {
			sh[a] = es[b]
		}
		es = sh
	}
	return recLine(t, n, coeffs, msgTok, es)
}

// CollidingLists: a list A of t distinct member numbers < n and a DIFFERENT list B of t distinct member
// numbers < n whose decimal digits concatenate to the same string ((1,12) / (11,2), (1,2,13) / (12,1,3)).
func CollidingLists(rng *h.Rng, t, n int) (a, b []int, ok bool) {
	for try := 0; try < 200; try++ {
		a = rng.Perm(n)[:t]
		str := ""
		for _, i := range a {
			str += fmt.Sprint(i)
		}
		var all [][]int
		var rec func(pos int, cur []int)
		rec = func(pos int, cur []int) {
			if len(all) > 64 {
				return
			}
			if len(cur) == t {
				if pos == len(str) {
					all = append(all, append([]int{}, cur...))
				}
				return
			}
			for l := 1; l <= 3 && pos+l <= len(str); l++ {
				tok := str[pos : pos+l]
				if l > 1 && tok[0] == '0' {
					break
				}
				v := h.Atoi(tok)
				dup := v >= n
				for _, c := range cur {
					dup = dup || c == v
				}
				if !dup {
					rec(pos+l, append(cur, v))
				}
			}
		}
		rec(0, nil)
		var others [][]int
		for _, c := range all {
			same := true
			for k := range c {
				same = same && c[k] == a[k]
			}
			if !same {
				others = append(others, c)
			}
		}
		if len(others) > 0 {
			return a, others[rng.Intn(len(others))], true
		}
	}
	return nil, nil, false
}

// RecoverHistory builds a history of several tbls.Recover calls in ONE process over different member
// sequences in arrival order (n > 10, pairs of sequences whose decimal digits concatenate identically,
// repeated and extended lists, a second message in between): every call must return the group signature
// of the message in its buffer – recovery is a function of its arguments, not of what was recovered before.
func RecoverHistory(rng *h.Rng, k int) string {
	n := 11 + rng.Intn(30)
	if k%5 == 4 {
		n = 101 + rng.Intn(60)
	}
	t := 2 + rng.Intn(3)
	coeffs := RandPoly(rng, t, 4+rng.Intn(2))
	m1, m2 := rng.Bytes(1+rng.Intn(16)), rng.Bytes(1+rng.Intn(16))
	h1, h2 := HashScalar(m1), HashScalar(m2)
	a, b, ok := CollidingLists(rng, t, n)
	if !ok {
		a, b = rng.Perm(n)[:t], rng.Perm(n)[:t]
	}
	set := func(hs *big.Int, members []int) string {
		var es [][]byte
		for _, i := range members {
			es = append(es, ValidShare(coeffs, hs, i))
		}
		return EntriesOf(es)
	}
	w := func(bf int, hs *big.Int, m []byte) string { return fmt.Sprintf("w:%d:%s:%s", bf, hs, h.Hex(m)) }
	var st []string
	switch k % 4 {
	case 0:
		st = []string{w(0, h1, m1), "r:0:" + set(h1, a), "r:0:" + set(h1, b)}
	case 1:
		st = []string{w(0, h1, m1), w(1, h2, m2), "r:0:" + set(h1, b), "r:1:" + set(h2, a), "r:0:" + set(h1, a), "r:1:" + set(h2, b)}
	case 2:
		ext := append(append([]int{}, b...), rng.Perm(n)[:2]...)
		dup := append(append(append([]int{}, a[:1]...), a...), a[0]) // exact duplicates: compacted in place by the first call
		st = []string{w(0, h1, m1), "r:0:" + set(h1, a), "r:0:" + set(h1, a), "r:0:" + set(h1, b), "r:0:" + set(h1, ext), "r:0:" + set(h1, b[:t-1]),
			"rr:0:" + set(h1, dup), "rr:0:" + set(h1, append(append([]int{}, b[:t-1]...), b[:t-1]...))}
	case 3:
		st = []string{w(0, h1, m1), "r:0:" + set(h1, a)}
		for j := 3 + rng.Intn(4); j > 0; j-- {
			sel := rng.Perm(n)[:t+rng.Intn(2)]
			if j%3 == 0 {
				sel = b
			}
			st = append(st, "r:0:"+set(h1, sel))
		}
	}
	return fmt.Sprintf("hist %d %d %s %s", t, n, CSVOf(coeffs), strings.Join(st, "/"))
}

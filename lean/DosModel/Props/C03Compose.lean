/-
C03 composed — part A (the pairing equation, `verify_iff`) and part B (the byte-level model of
`tbls.Verify` / `tbls.Recover`, which decides verification by point equality) of `Props/C03.lean`
JOINED, and the primality hypothesis of the scalar field closed by `Proofs/Primes.lean`.

`Props/C03.lean` justifies modelling `bls.Verify` by `s = x • H(m)` through `verify_iff`, but no theorem
there states the byte-level verdicts in terms of the pairing equation itself.  These do, for EVERY
bilinear pairing non-degenerate at `g₂` (`pr : Pairing F G G2 GT` — the one assumption that remains,
C10 has differential evidence only), any field, module, codec, polynomial, entries:

* `blsVerify_iff_pairing`  — `bls.Verify(x•g₂, m, sig)` answers ok ⇔ `sig` parses to `S` with
  `e(−S, g₂)·e(H(m), x•g₂) = 1`;
* `tblsVerify_iff_pairing` — `tbls.Verify` answers ok ⇔ index `i` parses, the value parses to `S`, and the
  equation holds under the member key `public.Eval(i)` computed from the COMMITMENTS `fⱼ•g₂` (C09 `pubEval`);
* `counts_iff_pairing`, `recover_ok_pairing` — what `Recover` counts / returns, in pairing terms.
-/
import DosModel.Props.C03
import DosModel.Proofs.ComposePrimes
import DosModel.Proofs.ComposePairing

set_option linter.unusedSectionVars false

namespace Dos.Props.C03Compose
open Dos Dos.Share Dos.Tbls Dos.Compose

variable {F : Type} [Field F] [DecidableEq F]
variable {G : Type} [AddCommGroup G] [Module F G] [DecidableEq G]
variable {G2 GT : Type} [AddCommGroup G2] [Module F G2] [CommGroup GT]

/-- **`bls.Verify` at byte level = the pairing equation** -/
theorem blsVerify_iff_pairing (pr : Pairing F G G2 GT) (cd : Codec G) (x : F) (hm : G) (sig : Bytes) :
    blsVerifyR cd x hm sig = .ok
      ↔ ∃ S : G, cd.decode sig = some S ∧ pr.verifyEq (x • pr.g2) hm S := by
  rw [blsVerifyR_ok_iff]
  constructor
  · intro h; exact ⟨_, h, (Props.C03.verify_iff pr x hm _).2 rfl⟩
  · rintro ⟨S, hS, he⟩; rw [hS, (Props.C03.verify_iff pr x hm S).1 he]

/-- **`tbls.Verify` at byte level = the pairing equation under the member's public share key**, the key
being evaluated from the commitments of the public polynomial (`PubPoly.Eval`, C09) -/
theorem tblsVerify_iff_pairing [DecidableEq G2] (pr : Pairing F G G2 GT) (cd : Codec G) (f : List F)
    (hm : G) (sig : Bytes) :
    tblsVerifyR cd f hm sig = .ok
      ↔ ∃ (i : Nat) (S : G), sigIndex sig = some i ∧ cd.decode (sigValue sig) = some S
          ∧ pr.verifyEq (pubEval F (f.map (fun c => c • pr.g2)) (i : Int)) hm S := by
  rw [Props.C03.tblsVerify_iff]
  constructor
  · rintro ⟨i, hi, hd⟩
    exact ⟨i, _, hi, hd, (Props.C03.share_verify_iff pr f i hm _).2 rfl⟩
  · rintro ⟨i, S, hi, hd, he⟩
    exact ⟨i, hi, by rw [hd, (Props.C03.share_verify_iff pr f i hm S).1 he]⟩

/-- an entry counts toward the threshold iff its index is a member's and its value satisfies the
pairing equation under THAT member's key -/
theorem counts_iff_pairing [DecidableEq G2] (pr : Pairing F G G2 GT) (cd : Codec G) (f : List F)
    (hm : G) (n : Nat) (e : Bytes) (i : Nat) :
    validIdx cd f hm n e = some i
      ↔ sigIndex e = some i ∧ i < n ∧ ∃ S : G, cd.decode (sigValue e) = some S
          ∧ pr.verifyEq (pubEval F (f.map (fun c => c • pr.g2)) (i : Int)) hm S := by
  rw [Props.C03.counts_iff]
  constructor
  · rintro ⟨h1, h2, h3⟩
    exact ⟨h1, h2, _, h3, (Props.C03.share_verify_iff pr f i hm _).2 rfl⟩
  · rintro ⟨h1, h2, S, h3, he⟩
    exact ⟨h1, h2, by rw [h3, (Props.C03.share_verify_iff pr f i hm S).1 he]⟩

/-- **whatever `Recover` returns satisfies the contract's equation under the group key**
`f(0)•g₂ = pubPoly.Commit()`, and at least `t` distinct members contributed -/
theorem recover_ok_pairing (pr : Pairing F G G2 GT) (cd : Codec G)
    (hcd : ∀ p, cd.decode (cd.encode p) = some p) (f : List F) (hm : G) (t n : Nat) (ht : 0 < t)
    (hc : CharGt F n) (sigs : List Bytes) (s : Bytes)
    (h : recover cd f hm sigs t n = .ok s) :
    t ≤ (members cd f hm n sigs).card
      ∧ ∃ S : G, cd.decode s = some S ∧ pr.verifyEq (f.headD 0 • pr.g2) hm S := by
  obtain ⟨h1, _, h3⟩ := Props.C03.recover_ok_verifies cd hcd f hm t n ht hc sigs s h
  exact ⟨h1, (blsVerify_iff_pairing pr cd (f.headD 0) hm s).1 h3⟩

/-- the group key the contract holds is the first commitment of the public polynomial -/
theorem group_key_is_first_commit (pr : Pairing F G G2 GT) (p : PriPoly F) :
    (commit p pr.g2).commits.headD 0 = p.coeffs.headD 0 • pr.g2 := by
  cases h : p.coeffs with
  | nil => simp [commit, h]
  | cons c cs => simp [commit, h]

/-! ### the bn256 scalars `Zq r` (a field by `Proofs/Primes.lean`): no primality / `CharGt` hypothesis -/

section bn256
variable {G : Type} [AddCommGroup G] [Module (Zq Share.bn256Order) G] [DecidableEq G]

theorem recover_ok_verifies_bn256 (cd : Codec G) (hcd : ∀ p, cd.decode (cd.encode p) = some p)
    (f : List (Zq Share.bn256Order)) (hm : G) (t n : Nat) (ht : 0 < t)
    (hn : n < 2 ^ 63) (sigs : List Bytes) (s : Bytes) (h : recover cd f hm sigs t n = .ok s) :
    t ≤ (members cd f hm n sigs).card ∧ s = cd.encode (f.headD 0 • hm)
      ∧ blsVerifyR cd (f.headD 0) hm s = .ok :=
  Props.C03.recover_ok_verifies cd hcd f hm t n ht
    (Props.C09.zq_charGt Share.bn256Order n (Nat.lt_trans hn (by decide))) sigs s h

theorem padding_irrelevant_bn256 (cd : Codec G) (f : List (Zq Share.bn256Order)) (hm : G)
    (t n : Nat) (ht : 0 < t) (hn : n < 2 ^ 63) (s₁ s₂ : List Bytes)
    (h : ∀ e, validIdx cd f hm n e ≠ none → (e ∈ s₁ ↔ e ∈ s₂)) :
    recover cd f hm s₁ t n = recover cd f hm s₂ t n :=
  Props.C03.padding_irrelevant cd f hm t n ht
    (Props.C09.zq_charGt Share.bn256Order n (Nat.lt_trans hn (by decide))) s₁ s₂ h

end bn256

/-! ### non-vacuity (`Zq 11`, C02's toy codec, `e(a,b) = a·b`) -/

open C02 in
example : ∃ S, toyCodec.decode [4, 77] = some S ∧
    (mulPairing (Zq 11)).verifyEq ((2 : Zq 11) • (mulPairing (Zq 11)).g2) 2 S :=
  (blsVerify_iff_pairing (mulPairing (Zq 11)) toyCodec 2 2 [4, 77]).1 (by decide)

open C02 in
example : ¬ ∃ (i : Nat) (S : Zq 11), sigIndex [0, 2, 5] = some i ∧ toyCodec.decode (sigValue [0, 2, 5]) = some S
    ∧ (mulPairing (Zq 11)).verifyEq
        (pubEval (Zq 11) (([4, 3] : List (Zq 11)).map (fun c => c • (mulPairing (Zq 11)).g2)) (i : Int)) 2 S :=
  fun h => by
    have := (tblsVerify_iff_pairing (mulPairing (Zq 11)) toyCodec [(4 : Zq 11), 3] 2 [0, 2, 5]).2 h
    revert this; decide

open C02 in
example : ∃ S, toyCodec.decode (blsSign toyCodec (4 : Zq 11) 2) = some S ∧
    (mulPairing (Zq 11)).verifyEq (([(4 : Zq 11), 3]).headD 0 • (mulPairing (Zq 11)).g2) 2 S :=
  (recover_ok_pairing (mulPairing (Zq 11)) toyCodec toyCodec_roundtrip [(4 : Zq 11), 3] 2 2 3 (by decide)
    (C09.zq_charGt 11 3 (by decide))
    [[0, 9, 200], [0, 2, 4], [0, 2, 4, 77], [5], [0, 0, 8], [0, 0, 3]] _ (by decide)).2

end Dos.Props.C03Compose

import DosModel.Proofs.ConnTableOwn

/-! The table invariant, for the configuration the code has (`Cfg.good`): what an entry of either
table points to, that an entry whose connection has ended has its removal on the way (no stale
entry), and where a reported removal comes from. -/
set_option linter.unusedSimpArgs false
namespace Dos.ConnTable
open Dos

structure TabInv (s : Net) : Prop where
  o1 : ∀ n k c, (s.nodes n).out k = some c →
        c < s.nconn ∧ (s.conns c).d = n ∧ (s.conns c).a = k ∧ (s.conns c).ann = k
  o2 : ∀ n k c, (s.nodes n).out k = some c → (s.conns c).retD = true → (true, k) ∈ (s.nodes n).rm
  i1 : ∀ n k c, (s.nodes n).inb k = some c →
        c < s.nconn ∧ (s.conns c).a = n ∧ (s.conns c).d = k ∧ (s.conns c).regA = true
  i2 : ∀ n k c, (s.nodes n).inb k = some c → (s.conns c).retA = true → (false, k) ∈ (s.nodes n).rm
  r1 : ∀ n t id, (t, id) ∈ (s.nodes n).rm → ∃ c, c < s.nconn ∧
        ((t = true ∧ (s.conns c).d = n ∧ (s.conns c).ann = id) ∨ (t = false ∧ (s.conns c).a = n ∧ (s.conns c).d = id))

theorem TabInv.init (ideal : Nat → Bool) : TabInv (init ideal) where
  o1 := by intro n k c h; simp [ConnTable.init] at h
  o2 := by intro n k c h; simp [ConnTable.init] at h
  i1 := by intro n k c h; simp [ConnTable.init] at h
  i2 := by intro n k c h; simp [ConnTable.init] at h
  r1 := by intro n t id h; simp [ConnTable.init] at h

/-- the fields that say what a connection IS -/
def SameId (x y : Conn) : Prop := y.d = x.d ∧ y.a = x.a ∧ y.ann = x.ann ∧ y.regA = x.regA

/-- an event that opens no connection, takes no removal and resets nobody: identities stay, tables and
reported removals stay, and a `ret` flag that goes up has its report in `rm` -/
theorem TabInv.frame {s s' : Net} (hT : TabInv s)
    (hn : s'.nconn = s.nconn)
    (hid : ∀ c, SameId (s.conns c) (s'.conns c))
    (hout : ∀ n, (s'.nodes n).out = (s.nodes n).out) (hinb : ∀ n, (s'.nodes n).inb = (s.nodes n).inb)
    (hrm : ∀ n x, x ∈ (s.nodes n).rm → x ∈ (s'.nodes n).rm)
    (hrm' : ∀ n x, x ∈ (s'.nodes n).rm → x ∈ (s.nodes n).rm ∨
        ∃ c, c < s.nconn ∧ ((x = (true, (s.conns c).ann) ∧ (s.conns c).d = n) ∨ (x = (false, (s.conns c).d) ∧ (s.conns c).a = n)))
    (hretD : ∀ c, (s'.conns c).retD = true → (s.conns c).retD = true ∨ (true, (s.conns c).ann) ∈ (s'.nodes (s.conns c).d).rm)
    (hretA : ∀ c, (s'.conns c).retA = true → (s.conns c).retA = true ∨ (false, (s.conns c).d) ∈ (s'.nodes (s.conns c).a).rm) :
    TabInv s' where
  o1 := by
    intro n k c h; rw [hout] at h
    obtain ⟨h1, h2, h3, h4⟩ := hT.o1 n k c h
    obtain ⟨e1, e2, e3, _⟩ := hid c
    exact ⟨by rw [hn]; exact h1, by rw [e1]; exact h2, by rw [e2]; exact h3, by rw [e3]; exact h4⟩
  o2 := by
    intro n k c h hr; rw [hout] at h
    obtain ⟨_, h2, _, h4⟩ := hT.o1 n k c h
    rcases hretD c hr with h' | h'
    · exact hrm n _ (hT.o2 n k c h h')
    · rw [h2, h4] at h'; exact h'
  i1 := by
    intro n k c h; rw [hinb] at h
    obtain ⟨h1, h2, h3, h4⟩ := hT.i1 n k c h
    obtain ⟨e1, e2, _, e4⟩ := hid c
    exact ⟨by rw [hn]; exact h1, by rw [e2]; exact h2, by rw [e1]; exact h3, by rw [e4]; exact h4⟩
  i2 := by
    intro n k c h hr; rw [hinb] at h
    obtain ⟨_, h2, h3, _⟩ := hT.i1 n k c h
    rcases hretA c hr with h' | h'
    · exact hrm n _ (hT.i2 n k c h h')
    · rw [h2, h3] at h'; exact h'
  r1 := by
    intro n t id h
    have key : ∀ c, c < s.nconn → ((t = true ∧ (s.conns c).d = n ∧ (s.conns c).ann = id) ∨ (t = false ∧ (s.conns c).a = n ∧ (s.conns c).d = id)) →
        ∃ c, c < s'.nconn ∧ ((t = true ∧ (s'.conns c).d = n ∧ (s'.conns c).ann = id) ∨ (t = false ∧ (s'.conns c).a = n ∧ (s'.conns c).d = id)) := by
      intro c hc hx
      obtain ⟨e1, e2, e3, _⟩ := hid c
      exact ⟨c, by rw [hn]; exact hc, by rw [e1, e2, e3]; exact hx⟩
    rcases hrm' n _ h with h' | ⟨c, hc, h'⟩
    · obtain ⟨c, hc, hx⟩ := hT.r1 n t id h'
      exact key c hc hx
    · apply key c hc
      rcases h' with ⟨hx, hd⟩ | ⟨hx, ha⟩
      · simp only [Prod.mk.injEq] at hx; exact Or.inl ⟨hx.1, hd, hx.2.symm⟩
      · simp only [Prod.mk.injEq] at hx; exact Or.inr ⟨hx.1, ha, hx.2.symm⟩

theorem reportD_good (x : Conn) : reportD Cfg.good x = (true, x.ann) := rfl
theorem reportA_good (x : Conn) : reportA Cfg.good x = (false, x.d) := rfl

theorem TabInv.retAtD {s : Net} (hT : TabInv s) (c : Nat) (hc : c < s.nconn) : TabInv (retAtD Cfg.good s c) := by
  refine hT.frame (by simp) ?_ ?_ ?_ ?_ ?_ ?_ ?_
  · intro e; rw [retAtD_conns]; split <;> exact ⟨rfl, rfl, rfl, rfl⟩
  · intro n; rw [retAtD_nodes]; split <;> rfl
  · intro n; rw [retAtD_nodes]; split <;> rfl
  · intro n x hx; rw [retAtD_nodes]; split
    · exact List.mem_append_left _ hx
    · exact hx
  · intro n x hx; rw [retAtD_nodes] at hx; split at hx
    · rename_i h
      simp only [List.mem_append, List.mem_singleton] at hx
      rcases hx with hx | hx
      · exact Or.inl hx
      · right; exact ⟨c, hc, Or.inl ⟨by rw [hx, reportD_good], h.1.symm⟩⟩
    · exact Or.inl hx
  · intro e hr; rw [retAtD_conns] at hr; split at hr
    · rename_i h; obtain ⟨he, hf⟩ := h; subst he
      right; rw [retAtD_nodes, if_pos ⟨rfl, hf⟩]
      simp [reportD_good]
    · exact Or.inl hr
  · intro e hr; rw [retAtD_conns] at hr; split at hr <;> exact Or.inl hr

theorem TabInv.retAtA {s : Net} (hT : TabInv s) (c : Nat) (hc : c < s.nconn) : TabInv (retAtA Cfg.good s c) := by
  refine hT.frame (by simp) ?_ ?_ ?_ ?_ ?_ ?_ ?_
  · intro e; rw [retAtA_conns]; split <;> exact ⟨rfl, rfl, rfl, rfl⟩
  · intro n; rw [retAtA_nodes]; split <;> rfl
  · intro n; rw [retAtA_nodes]; split <;> rfl
  · intro n x hx; rw [retAtA_nodes]; split
    · exact List.mem_append_left _ hx
    · exact hx
  · intro n x hx; rw [retAtA_nodes] at hx; split at hx
    · rename_i h
      simp only [List.mem_append, List.mem_singleton] at hx
      rcases hx with hx | hx
      · exact Or.inl hx
      · right; exact ⟨c, hc, Or.inr ⟨by rw [hx, reportA_good], h.1.symm⟩⟩
    · exact Or.inl hx
  · intro e hr; rw [retAtA_conns] at hr; split at hr <;> exact Or.inl hr
  · intro e hr; rw [retAtA_conns] at hr; split at hr
    · rename_i h; obtain ⟨he, hf⟩ := h; subst he
      right; rw [retAtA_nodes, if_pos ⟨rfl, hf⟩]
      simp [reportA_good]
    · exact Or.inl hr

/-- a change of one connection record that leaves identity and `ret` flags alone -/
theorem TabInv.setConn_same {s : Net} (hT : TabInv s) (c : Nat) (f : Conn → Conn)
    (hid : SameId (s.conns c) (f (s.conns c)))
    (hD : (f (s.conns c)).retD = (s.conns c).retD) (hA : (f (s.conns c)).retA = (s.conns c).retA) :
    TabInv (s.setConn c f) := by
  refine hT.frame (by simp) ?_ (by intro n; simp) (by intro n; simp) (by intro n x h; simpa using h)
    (by intro n x h; left; simpa using h) ?_ ?_
  · intro e; rw [setConn_conns]; split
    · rename_i h; subst h; exact hid
    · exact ⟨rfl, rfl, rfl, rfl⟩
  · intro e hr; left; rw [setConn_conns] at hr; split at hr
    · rename_i h; subst h; rw [hD] at hr; exact hr
    · exact hr
  · intro e hr; left; rw [setConn_conns] at hr; split at hr
    · rename_i h; subst h; rw [hA] at hr; exact hr
    · exact hr

theorem TabInv.setReqs {s : Net} (hT : TabInv s) (rq : Nat → Req) : TabInv { s with reqs := rq } :=
  ⟨hT.o1, hT.o2, hT.i1, hT.i2, hT.r1⟩

theorem TabInv.setNreq {s : Net} (hT : TabInv s) (k : Nat) (rq : Nat → Req) : TabInv { s with nreq := k, reqs := rq } :=
  ⟨hT.o1, hT.o2, hT.i1, hT.i2, hT.r1⟩

theorem TabInv.hand {s : Net} (hT : TabInv s) (i c : Nat) : TabInv (hand Cfg.good s i c) := by
  cases hcl : (s.conns c).clD
  · rw [hand_open _ s i c hcl]
    have := hT.setConn_same c (handF Cfg.good s i c) ⟨rfl, rfl, rfl, rfl⟩ rfl rfl
    exact ⟨this.o1, this.o2, this.i1, this.i2, this.r1⟩
  · rw [hand_closed _ s i c hcl]; exact hT

/-- a change of one node's held messages only -/
theorem TabInv.setHeld {s : Net} (hT : TabInv s) (n : Nat) (f : Node → Node)
    (ho : (f (s.nodes n)).out = (s.nodes n).out) (hi : (f (s.nodes n)).inb = (s.nodes n).inb)
    (hr : (f (s.nodes n)).rm = (s.nodes n).rm) : TabInv (s.setNode n f) := by
  have hnode : ∀ m, ((s.setNode n f).nodes m).out = (s.nodes m).out ∧ ((s.setNode n f).nodes m).inb = (s.nodes m).inb ∧
      ((s.setNode n f).nodes m).rm = (s.nodes m).rm := by
    intro m; rw [setNode_nodes]; split
    · rename_i h; subst h; exact ⟨ho, hi, hr⟩
    · exact ⟨rfl, rfl, rfl⟩
  refine hT.frame (by simp) (fun c => ⟨rfl, rfl, rfl, rfl⟩) (fun m => (hnode m).1) (fun m => (hnode m).2.1)
    (by intro m x h; rw [(hnode m).2.2]; exact h) (by intro m x h; left; rw [(hnode m).2.2] at h; exact h)
    (fun c h => Or.inl h) (fun c h => Or.inl h)

theorem mem_eraseIdx_of_ne {α : Type} {l : List α} {k : Nat} {x y : α} (hx : x ∈ l) (hk : l[k]? = some y) (hne : x ≠ y) :
    x ∈ l.eraseIdx k := by
  rw [List.mem_eraseIdx_iff_getElem?]
  obtain ⟨i, hi⟩ := List.getElem?_of_mem hx
  refine ⟨i, ?_, hi⟩
  intro hik; subst hik; rw [hk] at hi; simp only [Option.some.injEq] at hi; exact hne hi.symm

theorem ite_inb_out (P : Prop) [Decidable P] (n : Node) (t : Nat → Option Nat) :
    (if P then { n with inb := t } else n).out = n.out := by split <;> rfl
theorem ite_inb_inb (P : Prop) [Decidable P] (n : Node) (t : Nat → Option Nat) :
    (if P then { n with inb := t } else n).inb = if P then t else n.inb := by split <;> rfl
theorem ite_out_out (P : Prop) [Decidable P] (n : Node) (t : Nat → Option Nat) :
    (if P then { n with out := t } else n).out = if P then t else n.out := by split <;> rfl
theorem ite_out_inb (P : Prop) [Decidable P] (n : Node) (t : Nat → Option Nat) :
    (if P then { n with out := t } else n).inb = n.inb := by split <;> rfl

theorem openConn_good_out (s : Net) (a b x m : Nat) :
    ((openConn Cfg.good s a b x).nodes m).out = if m = a then setTab (s.nodes m).out b (some s.nconn) else (s.nodes m).out := by
  rw [openConn_nodes]
  have hk2 : keyVal Cfg.good.outStore a x b = b := rfl
  simp only [hk2, ite_out_out, ite_inb_out]

theorem openConn_good_inb (s : Net) (a b x m : Nat) :
    ((openConn Cfg.good s a b x).nodes m).inb =
      if m = b ∧ (s.ideal b || refused Cfg.good s a b) = false then setTab (s.nodes m).inb a (some s.nconn)
      else (s.nodes m).inb := by
  rw [openConn_nodes]
  have hk1 : keyVal Cfg.good.inStore b a a = a := rfl
  simp only [hk1]
  by_cases hc : (m = b ∧ (s.ideal b || refused Cfg.good s a b) = false)
  · simp only [if_pos hc]; split <;> rfl
  · simp only [if_neg hc]; split <;> rfl

theorem TabInv.openConn {s : Net} (hT : TabInv s) (a x : Nat) : TabInv (openConn Cfg.good s a x x) := by
  have hcn : ∀ e, e < s.nconn → (ConnTable.openConn Cfg.good s a x x).conns e = s.conns e := by
    intro e he; rw [openConn_conns]; simp [Nat.ne_of_lt he]
  have hnew : (ConnTable.openConn Cfg.good s a x x).conns s.nconn = mkConn Cfg.good s a x x := by
    rw [openConn_conns]; simp
  constructor
  · intro n k c h
    rw [openConn_good_out] at h; simp only [openConn_nconn]
    have old : (s.nodes n).out k = some c → c < s.nconn + 1 ∧ ((ConnTable.openConn Cfg.good s a x x).conns c).d = n ∧
        ((ConnTable.openConn Cfg.good s a x x).conns c).a = k ∧ ((ConnTable.openConn Cfg.good s a x x).conns c).ann = k := by
      intro h'
      obtain ⟨p1, p2, p3, p4⟩ := hT.o1 n k c h'
      rw [hcn c p1]; exact ⟨Nat.lt_succ_of_lt p1, p2, p3, p4⟩
    split at h
    · rename_i hna; subst hna
      simp only [setTab] at h
      split at h
      · rename_i hk; subst hk
        simp only [Option.some.injEq] at h; subst h
        rw [hnew]; exact ⟨Nat.lt_succ_self _, rfl, rfl, rfl⟩
      · exact old h
    · exact old h
  · intro n k c h hr
    rw [openConn_rm]
    rw [openConn_good_out] at h
    have old : (s.nodes n).out k = some c → (true, k) ∈ (s.nodes n).rm := by
      intro h'
      obtain ⟨p1, _⟩ := hT.o1 n k c h'
      rw [hcn c p1] at hr; exact hT.o2 n k c h' hr
    split at h
    · simp only [setTab] at h
      split at h
      · simp only [Option.some.injEq] at h; subst h
        rw [hnew] at hr; simp [mkConn] at hr
      · exact old h
    · exact old h
  · intro n k c h
    rw [openConn_good_inb] at h; simp only [openConn_nconn]
    have old : (s.nodes n).inb k = some c →
        c < s.nconn + 1 ∧ ((ConnTable.openConn Cfg.good s a x x).conns c).a = n ∧
        ((ConnTable.openConn Cfg.good s a x x).conns c).d = k ∧
        ((ConnTable.openConn Cfg.good s a x x).conns c).regA = true := by
      intro h'
      obtain ⟨p1, p2, p3, p4⟩ := hT.i1 n k c h'
      rw [hcn c p1]; exact ⟨Nat.lt_succ_of_lt p1, p2, p3, p4⟩
    split at h
    · rename_i hc; obtain ⟨hnx, hnr⟩ := hc
      simp only [setTab] at h
      split at h
      · rename_i hk
        simp only [Option.some.injEq] at h; subst h
        rw [hnew]
        refine ⟨Nat.lt_succ_self _, by simp [mkConn, hnx], by simp [mkConn, hk], ?_⟩
        simp only [mkConn]
        cases hr : refused Cfg.good s a x
        · rfl
        · simp [hr] at hnr
      · exact old h
    · exact old h
  · intro n k c h hr
    rw [openConn_rm]
    rw [openConn_good_inb] at h
    have old : (s.nodes n).inb k = some c → (false, k) ∈ (s.nodes n).rm := by
      intro h'
      obtain ⟨p1, _⟩ := hT.i1 n k c h'
      rw [hcn c p1] at hr; exact hT.i2 n k c h' hr
    split at h
    · simp only [setTab] at h
      split at h
      · simp only [Option.some.injEq] at h; subst h
        rw [hnew] at hr; simp [mkConn] at hr
      · exact old h
    · exact old h
  · intro n t id h
    rw [openConn_rm] at h
    obtain ⟨c, hc, hx⟩ := hT.r1 n t id h
    exact ⟨c, by simp only [openConn_nconn]; exact Nat.lt_succ_of_lt hc, by rw [hcn c hc]; exact hx⟩

theorem step_tabInv {s : Net} (hT : TabInv s) (e : Ev) : TabInv (step Cfg.good s e) := by
  cases e <;> simp only [step]
  case request a b dial =>
    have h0 : TabInv (newReq s a b) := hT.setNreq _ _
    split
    · exact h0.hand _ _
    · rename_i hnone
      split
      · exact h0.setReqs _
      · rename_i x
        split
        · exact h0.setReqs _
        · rename_i hx
          have hxb : x = b := by
            simp only [Cfg.good, Bool.true_and, bne_iff_ne, ne_eq, Decidable.not_not] at hx; exact hx
          subst hxb
          have h1 : TabInv (openConn Cfg.good (newReq s a x) a x x) := h0.openConn a x
          have h2 := h1.hand s.nreq s.nconn
          split
          · exact h2.retAtD s.nconn (by simp)
          · exact h2
  case deliverReq c =>
    split
    · split
      · exact hT
      · have h1 := hT.setConn_same c (fun x => { x with reqQ := ‹List (Nonce × Nat)› }) ⟨rfl, rfl, rfl, rfl⟩ rfl rfl
        split
        · exact h1.setHeld _ _ rfl rfl rfl
        · exact h1
    · exact hT
  case appReply b k =>
    split
    · exact hT
    · have h1 : TabInv (s.setNode b (fun n => { n with held := n.held.eraseIdx k })) := hT.setHeld _ _ rfl rfl rfl
      split
      · exact h1
      · split
        · exact h1
        · exact h1.setConn_same _ _ ⟨rfl, rfl, rfl, rfl⟩ rfl rfl
  case deliverReply c =>
    split
    · split
      · exact hT
      · have h1 := hT.setConn_same c (fun x => { x with repQ := ‹List (Nonce × Nat)› }) ⟨rfl, rfl, rfl, rfl⟩ rfl rfl
        split
        · exact h1
        · split
          · exact h1
          · have h2 := h1.setConn_same c (fun x => { x with pend := eraseN x.pend ‹Nonce› }) ⟨rfl, rfl, rfl, rfl⟩ rfl rfl
            split
            · exact ⟨h2.o1, h2.o2, h2.i1, h2.i2, h2.r1⟩
            · exact h2
    · exact hT
  case cut c =>
    split
    · rename_i hc
      have h1 := hT.setConn_same c (fun x => { x with up := false, reqQ := [], repQ := [] }) ⟨rfl, rfl, rfl, rfl⟩ rfl rfl
      exact (h1.retAtD c (by simpa using hc)).retAtA c (by simpa using hc)
    · exact hT
  case reject c atD =>
    split
    · rename_i hc
      split
      · split
        · exact hT
        · exact hT.retAtD c hc
      · split
        · exact hT
        · exact hT.retAtA c hc
    · exact hT
  case close c atD =>
    split
    · rename_i hc
      split
      · split
        · exact hT
        · have h1 : TabInv { s with reqs := failAll (s.conns c).pend s.reqs } := hT.setReqs _
          have h2 := h1.setConn_same c (fun x => { x with clD := true, pend := [] }) ⟨rfl, rfl, rfl, rfl⟩ rfl rfl
          exact h2.retAtD c (by simpa using hc)
      · split
        · exact hT
        · have h1 := hT.setConn_same c (fun x => { x with clA := true }) ⟨rfl, rfl, rfl, rfl⟩ rfl rfl
          exact h1.retAtA c (by simpa using hc)
    · exact hT
  case procRm n k =>
    split
    · exact hT
    · rename_i isCall id hk
      have hnode : ∀ m, m ≠ n → (((s.setNode n fun nd =>
          if isCall = true then { nd with rm := nd.rm.eraseIdx k, out := setTab nd.out id none }
          else { nd with rm := nd.rm.eraseIdx k, inb := setTab nd.inb id none }).nodes m) = s.nodes m) := by
        intro m hm; rw [setNode_nodes_ne _ _ _ _ hm]
      constructor
      · intro m k' c h
        simp only [setNode_conns, setNode_nconn]
        by_cases hm : m = n
        · subst hm; rw [setNode_nodes_same] at h
          apply hT.o1 m k' c
          split at h
          · exact setTab_none_sub _ _ _ _ h
          · exact h
        · rw [hnode m hm] at h; exact hT.o1 m k' c h
      · intro m k' c h hr
        simp only [setNode_conns] at hr
        by_cases hm : m = n
        · subst hm; rw [setNode_nodes_same] at h ⊢
          cases hic : isCall
          · simp only [hic, Bool.false_eq_true, if_false] at h ⊢
            exact mem_eraseIdx_of_ne (hT.o2 m k' c h hr) hk (by simp [hic])
          · simp only [hic, if_true] at h ⊢
            have hne : k' ≠ id := by
              intro he; subst he; simp [setTab] at h
            have h' := setTab_none_sub _ _ _ _ h
            exact mem_eraseIdx_of_ne (hT.o2 m k' c h' hr) hk (by simp [hic, hne])
        · rw [hnode m hm] at h ⊢; exact hT.o2 m k' c h hr
      · intro m k' c h
        simp only [setNode_conns, setNode_nconn]
        by_cases hm : m = n
        · subst hm; rw [setNode_nodes_same] at h
          apply hT.i1 m k' c
          split at h
          · exact h
          · exact setTab_none_sub _ _ _ _ h
        · rw [hnode m hm] at h; exact hT.i1 m k' c h
      · intro m k' c h hr
        simp only [setNode_conns] at hr
        by_cases hm : m = n
        · subst hm; rw [setNode_nodes_same] at h ⊢
          cases hic : isCall
          · simp only [hic, Bool.false_eq_true, if_false] at h ⊢
            have hne : k' ≠ id := by
              intro he; subst he; simp [setTab] at h
            have h' := setTab_none_sub _ _ _ _ h
            exact mem_eraseIdx_of_ne (hT.i2 m k' c h' hr) hk (by simp [hic, hne])
          · simp only [hic, if_true] at h ⊢
            exact mem_eraseIdx_of_ne (hT.i2 m k' c h hr) hk (by simp [hic])
        · rw [hnode m hm] at h ⊢; exact hT.i2 m k' c h hr
      · intro m t id' h
        simp only [setNode_conns, setNode_nconn]
        by_cases hm : m = n
        · subst hm; rw [setNode_nodes_same] at h
          apply hT.r1 m t id'
          split at h <;> exact List.mem_of_mem_eraseIdx h
        · rw [hnode m hm] at h; exact hT.r1 m t id' h
  case disconnect a b =>
    constructor
    · intro m k c h
      simp only [setNode_conns, setNode_nconn]
      rw [setNode_nodes] at h; split at h
      · rename_i hm; subst hm; exact hT.o1 m k c (setTab_none_sub _ _ _ _ h)
      · exact hT.o1 m k c h
    · intro m k c h hr
      simp only [setNode_conns] at hr
      rw [setNode_nodes] at h ⊢; split at h
      · rename_i hm; subst hm; simp only [if_true]; exact hT.o2 m k c (setTab_none_sub _ _ _ _ h) hr
      · rename_i hm; simp only [hm, if_false]; exact hT.o2 m k c h hr
    · intro m k c h
      simp only [setNode_conns, setNode_nconn]
      rw [setNode_nodes] at h; split at h
      · rename_i hm; subst hm; exact hT.i1 m k c h
      · exact hT.i1 m k c h
    · intro m k c h hr
      simp only [setNode_conns] at hr
      rw [setNode_nodes] at h ⊢; split at h
      · rename_i hm; subst hm; simp only [if_true]; exact hT.i2 m k c h hr
      · rename_i hm; simp only [hm, if_false]; exact hT.i2 m k c h hr
    · intro m t id h
      simp only [setNode_conns, setNode_nconn]
      rw [setNode_nodes] at h; split at h
      · rename_i hm; subst hm; exact hT.r1 m t id h
      · exact hT.r1 m t id h
  case expire i =>
    split
    · exact hT.setReqs _
    · exact hT
  case reset n =>
    have hid : ∀ c, SameId (s.conns c) ((step Cfg.good s (.reset n)).conns c) := by
      intro c; simp only [step]; split <;> exact ⟨rfl, rfl, rfl, rfl⟩
    simp only [step] at hid
    constructor
    · intro m k c h
      simp only [] at h ⊢
      split at h
      · simp at h
      · obtain ⟨p1, p2, p3, p4⟩ := hT.o1 m k c h
        obtain ⟨e1, e2, e3, _⟩ := hid c
        exact ⟨p1, by rw [e1]; exact p2, by rw [e2]; exact p3, by rw [e3]; exact p4⟩
    · intro m k c h hr
      simp only [] at h hr ⊢
      split at h
      · simp at h
      · rename_i hm
        simp only [hm, if_false]
        obtain ⟨_, p2, _, _⟩ := hT.o1 m k c h
        apply hT.o2 m k c h
        split at hr
        · simp only [Bool.or_eq_true, decide_eq_true_eq] at hr
          rcases hr with hr | hr
          · exact hr
          · rw [p2] at hr; exact absurd hr hm
        · exact hr
    · intro m k c h
      simp only [] at h ⊢
      split at h
      · simp at h
      · obtain ⟨p1, p2, p3, p4⟩ := hT.i1 m k c h
        obtain ⟨e1, e2, _, e4⟩ := hid c
        exact ⟨p1, by rw [e2]; exact p2, by rw [e1]; exact p3, by rw [e4]; exact p4⟩
    · intro m k c h hr
      simp only [] at h hr ⊢
      split at h
      · simp at h
      · rename_i hm
        simp only [hm, if_false]
        obtain ⟨_, p2, _, _⟩ := hT.i1 m k c h
        apply hT.i2 m k c h
        split at hr
        · simp only [Bool.or_eq_true, decide_eq_true_eq] at hr
          rcases hr with hr | hr
          · exact hr
          · rw [p2] at hr; exact absurd hr hm
        · exact hr
    · intro m t id h
      simp only [] at h ⊢
      split at h
      · simp at h
      · obtain ⟨c, hc, hx⟩ := hT.r1 m t id h
        obtain ⟨e1, e2, e3, _⟩ := hid c
        exact ⟨c, hc, by rw [e1, e2, e3]; exact hx⟩

theorem run_tabInv {s : Net} (hT : TabInv s) (evs : List Ev) : TabInv (run Cfg.good s evs) := by
  induction evs generalizing s with
  | nil => exact hT
  | cons e es ih => exact ih (step_tabInv hT e)

end Dos.ConnTable

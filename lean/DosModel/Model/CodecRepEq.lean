/-
Representation-level `MarshalBinary` / `Equal` of G1 and G2 at the number-level Montgomery functions of
`Model/Bn256.lean` (review 4-B finding 10): the operands are the OBJECTS the Go code has — Jacobian quadruples
`x, y, z, t` of Montgomery limb values, never normalised by the caller —, `MarshalBinary` is the generic
transcription `CodecRep.marshalG1/G2` (copy, `MakeAffine` on the copy, `IsInfinity`, `montDecode` + big-endian
words), `Equal` compares the two encodings.  `MakeAffine` is transcribed at the VALUE level (x/z², y/z³ computed
on the decoded numbers and re-encoded; that `gfpMul`/`Invert` on limbs compute these is C10's subject).
The element a representation denotes is `Rep1.toG1` / `Rep2.toG2` of `Model/Codec.lean`.  Core Lean only.
-/
import DosModel.Model.Codec

namespace Dos.Codec
open Dos Dos.Bn256

/-- `curvePoint.MakeAffine` (curve.go): `z = 1` untouched; `z = 0`: (0, 1, z, 0); else x/z², y/z³, z = t = 1 -/
def makeAffine1 (g : Rep1) : Rep1 :=
  if g.z == montEncode 1 then g
  else if g.z == 0 then ⟨0, montEncode 1, g.z, 0⟩
  else
    match g.toG1 with
    | .inf => g   -- unreachable: z ≠ 0
    | .aff x y => ⟨montEncode x, montEncode y, montEncode 1, montEncode 1⟩

/-- `twistPoint.MakeAffine` (twist.go): `z.IsOne()` untouched; `z.IsZero()`: (0, 1, z, 0); else x/z², y/z³, z = t = 1 -/
def makeAffine2 (g : Rep2) : Rep2 :=
  if g.z.1 == 0 && g.z.2 == montEncode 1 then g
  else if g.z.1 == 0 && g.z.2 == 0 then ⟨(0, 0), (0, montEncode 1), g.z, (0, 0)⟩
  else
    match g.toG2 with
    | .inf => g
    | .aff x y => repOfG2 (.aff x y)

/-- `pointG1.MarshalBinary` on a representation -/
def marshalRep1 (g : Rep1) : Bytes := CodecRep.marshalG1 natFld makeAffine1 g
/-- `pointG2.MarshalBinary` on a representation -/
def marshalRep2 (g : Rep2) : Bytes := CodecRep.marshalG2 natFld makeAffine2 g

/-- `pointG1.Equal` / `pointG2.Equal` on two representations: `subtle.ConstantTimeCompare` of the encodings -/
def equalRep1 (g h : Rep1) : Bool := CodecRep.equalBy marshalRep1 g h
def equalRep2 (g h : Rep2) : Bool := CodecRep.equalBy marshalRep2 g h

/-- limbs are 256-bit numbers -/
def Rep1.wf (g : Rep1) : Prop := g.x < R ∧ g.y < R ∧ g.z < R
def Rep2.wf (g : Rep2) : Prop := g.x.1 < R ∧ g.x.2 < R ∧ g.y.1 < R ∧ g.y.2 < R ∧ g.z.1 < R ∧ g.z.2 < R

/-- a Jacobian representative (z = λ, not 0 or 1) of the affine point (x, y): (x·λ², y·λ³, λ, λ²) in Montgomery form -/
def jacOf1 (x y lam : Nat) : Rep1 :=
  let l2 := fmul lam lam
  ⟨montEncode (fmul x l2), montEncode (fmul y (fmul lam l2)), montEncode lam, montEncode l2⟩

end Dos.Codec

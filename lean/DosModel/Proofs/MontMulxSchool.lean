/-
C10 layer 2/3 — arithmetic of the MULX (BMI2) path of gfpMul, for ALL word operands:
`mulx8` (the `mulBMI2` macro with its interleaved carry chains) is the full 512-bit product,
`redMX` is (T mod 2^256)·np mod 2^256, and the limb model of the whole path is `mulM`.
-/
import Mathlib.Tactic.Ring
import DosModel.Proofs.MontMulxStruct
import DosModel.Proofs.MontMulRedc

namespace Dos.Mont

theorem two_R_le_W5 : R + R ≤ W5 := by decide

/-- accRow when both the accumulator and the addend are below 2^256 -/
theorem accRow_small (r : L5) (s1 s2 s3 s4 : Nat) (hr : r.ok) (h1 : s1 < W) (h2 : s2 < W) (h3 : s3 < W)
    (h4 : s4 < W) (hV : r.val < R) :
    (accRow r s1 s2 s3 s4).val = r.val + v4 s1 s2 s3 s4 ∧ (accRow r s1 s2 s3 s4).ok := by
  have := v4_lt h1 h2 h3 h4
  exact accRow_val r s1 s2 s3 s4 hr h1 h2 h3 h4 (by have := two_R_le_W5; omega)

theorem row0_tele {lo0 lo1 lo2 lo3 hi0 hi1 hi2 hi3 p0 p1 p2 p3 : Nat}
    (m0 : lo0 + W * hi0 = p0) (m1 : lo1 + W * hi1 = p1) (m2 : lo2 + W * hi2 = p2) (m3 : lo3 + W * hi3 = p3) :
    lo0 + W * (hi0 + W * hi1 + W * W * hi2 + W * W * W * hi3 + W * W * W * W * 0 + v4 lo1 lo2 lo3 0) =
      p0 + W * p1 + W * W * p2 + W * W * W * p3 := by
  simp only [v4, W] at *; omega

theorem lt_of_split {t V X : Nat} (h : t + W * V = X) (hX : X < W5) : V < R := by
  simp only [W5, W, R] at *; omega

theorem xB_lt {x B : Nat} (hx : x < W) (hB : B < R) : x * B < W5 := by
  have h : x * B ≤ (W - 1) * (R - 1) :=
    Nat.mul_le_mul (by simp only [W] at *; omega) (by simp only [R] at *; omega)
  have e : (W - 1) * (R - 1) < W5 := by decide
  omega

/-- row 0: lo(a0·b0) + W·(R9..R13) = a0·b -/
theorem mulxRow0_val (x : Nat) (b : L4) (hx : x < W) (hb : b.ok) :
    mulLo x b.l0 + W * (mulxRow0 x b).val = x * b.val ∧ (mulxRow0 x b).ok ∧ (mulxRow0 x b).val < R := by
  have hB := L4.val_lt b hb
  obtain ⟨b0, b1, b2, b3⟩ := b
  obtain ⟨hb0, hb1, hb2, hb3⟩ := hb
  simp only at hb0 hb1 hb2 hb3
  obtain ⟨m0, l0, k0⟩ := mul_spec x b0 hx hb0
  obtain ⟨m1, l1, k1⟩ := mul_spec x b1 hx hb1
  obtain ⟨m2, l2, k2⟩ := mul_spec x b2 hx hb2
  obtain ⟨m3, l3, k3⟩ := mul_spec x b3 hx hb3
  simp only [mulxRow0]
  generalize mulLo x b0 = lo0 at *
  generalize mulHi x b0 = hi0 at *
  generalize mulLo x b1 = lo1 at *
  generalize mulHi x b1 = hi1 at *
  generalize mulLo x b2 = lo2 at *
  generalize mulHi x b2 = hi2 at *
  generalize mulLo x b3 = lo3 at *
  generalize mulHi x b3 = hi3 at *
  have hh0 : hi0 < W := by simp only [W] at *; omega
  have hh1 : hi1 < W := by simp only [W] at *; omega
  have hh2 : hi2 < W := by simp only [W] at *; omega
  have hh3 : hi3 < W := by simp only [W] at *; omega
  have hok : (L5.mk hi0 hi1 hi2 hi3 0).ok := ⟨hh0, hh1, hh2, hh3, (by decide : (0:Nat) < W)⟩
  have hV : (L5.mk hi0 hi1 hi2 hi3 0).val < R := by
    have := v4_lt hh0 hh1 hh2 hh3
    simp only [L5.val, v4] at *; omega
  obtain ⟨hv, ho⟩ := accRow_small _ lo1 lo2 lo3 0 hok l1 l2 l3 (by decide) hV
  have key : lo0 + W * (accRow ⟨hi0, hi1, hi2, hi3, 0⟩ lo1 lo2 lo3 0).val = x * (L4.mk b0 b1 b2 b3).val := by
    rw [hv]
    simp only [L5.val]
    rw [row0_tele m0 m1 m2 m3, L4.val_eq]
    simp only [v4]; ring
  exact ⟨key, ho, lt_of_split key (xB_lt hx hB)⟩

theorem rowAB_tele {a0 V lo0 hi0 lo1 hi1 lo2 hi2 lo3 hi3 p0 p1 p2 p3 Aval Bval C : Nat}
    (m0 : lo0 + W * hi0 = p0) (m1 : lo1 + W * hi1 = p1) (m2 : lo2 + W * hi2 = p2) (m3 : lo3 + W * hi3 = p3)
    (hA : Aval = V + v4 lo0 hi0 lo2 hi2) (hsplit : Aval = a0 + W * C) (hB : Bval = C + v4 lo1 hi1 lo3 hi3) :
    a0 + W * Bval = V + (p0 + W * p1 + W * W * p2 + W * W * W * p3) := by
  simp only [v4, W] at *; omega

theorem lt_of_row {t V X Y : Nat} (h : t + W * V = X + Y) (hX : X < R) (hY : Y < W5) (hle : Y ≤ (W - 1) * (R - 1)) :
    V < R := by
  simp only [W5, W, R] at *; omega

theorem xB_le {x B : Nat} (hx : x < W) (hB : B < R) : x * B ≤ (W - 1) * (R - 1) :=
  Nat.mul_le_mul (by simp only [W] at *; omega) (by simp only [R] at *; omega)

/-- rows 1, 2: the two chains add x·b to the accumulator; one more result word comes out at the bottom -/
theorem mulxRowAB_val (acc : L5) (x : Nat) (b : L4) (hacc : acc.ok) (hV : acc.val < R) (hx : x < W) (hb : b.ok) :
    (mulxRowA acc x b).l0 + W * (mulxRowB (mulxRowA acc x b) x b).val = acc.val + x * b.val ∧
    (mulxRowA acc x b).l0 < W ∧ (mulxRowB (mulxRowA acc x b) x b).ok ∧
    (mulxRowB (mulxRowA acc x b) x b).val < R := by
  have hB := L4.val_lt b hb
  obtain ⟨b0, b1, b2, b3⟩ := b
  obtain ⟨hb0, hb1, hb2, hb3⟩ := hb
  simp only at hb0 hb1 hb2 hb3
  obtain ⟨m0, l0, k0⟩ := mul_spec x b0 hx hb0
  obtain ⟨m1, l1, k1⟩ := mul_spec x b1 hx hb1
  obtain ⟨m2, l2, k2⟩ := mul_spec x b2 hx hb2
  obtain ⟨m3, l3, k3⟩ := mul_spec x b3 hx hb3
  simp only [mulxRowA, mulxRowB]
  generalize mulLo x b0 = lo0 at *
  generalize mulHi x b0 = hi0 at *
  generalize mulLo x b1 = lo1 at *
  generalize mulHi x b1 = hi1 at *
  generalize mulLo x b2 = lo2 at *
  generalize mulHi x b2 = hi2 at *
  generalize mulLo x b3 = lo3 at *
  generalize mulHi x b3 = hi3 at *
  have hh0 : hi0 < W := by simp only [W] at *; omega
  have hh1 : hi1 < W := by simp only [W] at *; omega
  have hh2 : hi2 < W := by simp only [W] at *; omega
  have hh3 : hi3 < W := by simp only [W] at *; omega
  obtain ⟨hvA, hoA⟩ := accRow_small acc lo0 hi0 lo2 hi2 hacc l0 hh0 l2 hh2 hV
  generalize accRow acc lo0 hi0 lo2 hi2 = A at *
  have hokB : (L5.mk A.l1 A.l2 A.l3 A.l4 0).ok := ⟨hoA.2.1, hoA.2.2.1, hoA.2.2.2.1, hoA.2.2.2.2, (by decide : (0:Nat) < W)⟩
  have hVB : (L5.mk A.l1 A.l2 A.l3 A.l4 0).val < R := by
    have := v4_lt hoA.2.1 hoA.2.2.1 hoA.2.2.2.1 hoA.2.2.2.2
    simp only [L5.val, v4] at *; omega
  obtain ⟨hvB, hoB⟩ := accRow_small _ lo1 hi1 lo3 hi3 hokB l1 hh1 l3 hh3 hVB
  have hB' : (accRow ⟨A.l1, A.l2, A.l3, A.l4, 0⟩ lo1 hi1 lo3 hi3).val =
      v4 A.l1 A.l2 A.l3 A.l4 + v4 lo1 hi1 lo3 hi3 := by
    rw [hvB]; simp only [L5.val, v4]; ring
  have key := rowAB_tele m0 m1 m2 m3 hvA (L5.split A) hB'
  have hprod : x * b0 + W * (x * b1) + W * W * (x * b2) + W * W * W * (x * b3) = x * (L4.mk b0 b1 b2 b3).val := by
    rw [L4.val_eq]; simp only [v4]; ring
  rw [hprod] at key
  exact ⟨key, hoA.1, hoB, lt_of_row key hV (xB_lt hx hB) (xB_le hx hB)⟩

theorem add4_tele {x0 x1 x2 x3 y0 y1 y2 y3 n0 n1 n2 n3 c0 c1 c2 c3 : Nat}
    (e0 : n0 + W * c0 = x0 + y0) (e1 : n1 + W * c1 = x1 + y1 + c0) (e2 : n2 + W * c2 = x2 + y2 + c1)
    (e3 : n3 + W * c3 = x3 + y3 + c2) :
    v4 n0 n1 n2 n3 + R * c3 = v4 x0 x1 x2 x3 + v4 y0 y1 y2 y3 := by
  simp only [v4, W, R] at *; omega

theorem add4_agg {N X c : Nat} (h : N + R * c = X) (hX : X < R) : N = X := by
  simp only [R] at *; omega

theorem add4_val (x0 x1 x2 x3 y0 y1 y2 y3 : Nat) (hx0 : x0 < W) (hx1 : x1 < W) (hx2 : x2 < W) (hx3 : x3 < W)
    (hy0 : y0 < W) (hy1 : y1 < W) (hy2 : y2 < W) (hy3 : y3 < W)
    (hfit : v4 x0 x1 x2 x3 + v4 y0 y1 y2 y3 < R) :
    (add4 x0 x1 x2 x3 y0 y1 y2 y3).val = v4 x0 x1 x2 x3 + v4 y0 y1 y2 y3 ∧ (add4 x0 x1 x2 x3 y0 y1 y2 y3).ok := by
  simp only [add4, L4.val_eq, L4.ok]
  obtain ⟨e0, n0, j0⟩ := add_spec x0 y0 hx0 hy0
  generalize addLo x0 y0 = z0 at *
  generalize addC x0 y0 = c0 at *
  obtain ⟨e1, n1, j1⟩ := adc_spec x1 y1 c0 hx1 hy1 j0
  generalize adcLo x1 y1 c0 = z1 at *
  generalize adcC x1 y1 c0 = c1 at *
  obtain ⟨e2, n2, j2⟩ := adc_spec x2 y2 c1 hx2 hy2 j1
  generalize adcLo x2 y2 c1 = z2 at *
  generalize adcC x2 y2 c1 = c2 at *
  obtain ⟨e3, n3, _⟩ := adc_spec x3 y3 c2 hx3 hy3 j2
  generalize adcLo x3 y3 c2 = z3 at *
  generalize adcC x3 y3 c2 = c3 at *
  exact ⟨add4_agg (add4_tele e0 e1 e2 e3) hfit, n0, n1, n2, n3⟩

/-- row 3: the second chain has only four words, and the total still fits -/
theorem mulxRowAB4_val (acc : L5) (x : Nat) (b : L4) (hacc : acc.ok) (hV : acc.val < R) (hx : x < W) (hb : b.ok) :
    (mulxRowA acc x b).l0 + W * (mulxRowB4 (mulxRowA acc x b) x b).val = acc.val + x * b.val ∧
    (mulxRowA acc x b).l0 < W ∧ (mulxRowB4 (mulxRowA acc x b) x b).ok := by
  have hB := L4.val_lt b hb
  obtain ⟨b0, b1, b2, b3⟩ := b
  obtain ⟨hb0, hb1, hb2, hb3⟩ := hb
  simp only at hb0 hb1 hb2 hb3
  obtain ⟨m0, l0, k0⟩ := mul_spec x b0 hx hb0
  obtain ⟨m1, l1, k1⟩ := mul_spec x b1 hx hb1
  obtain ⟨m2, l2, k2⟩ := mul_spec x b2 hx hb2
  obtain ⟨m3, l3, k3⟩ := mul_spec x b3 hx hb3
  simp only [mulxRowA, mulxRowB4]
  generalize mulLo x b0 = lo0 at *
  generalize mulHi x b0 = hi0 at *
  generalize mulLo x b1 = lo1 at *
  generalize mulHi x b1 = hi1 at *
  generalize mulLo x b2 = lo2 at *
  generalize mulHi x b2 = hi2 at *
  generalize mulLo x b3 = lo3 at *
  generalize mulHi x b3 = hi3 at *
  have hh0 : hi0 < W := by simp only [W] at *; omega
  have hh1 : hi1 < W := by simp only [W] at *; omega
  have hh2 : hi2 < W := by simp only [W] at *; omega
  have hh3 : hi3 < W := by simp only [W] at *; omega
  obtain ⟨hvA, hoA⟩ := accRow_small acc lo0 hi0 lo2 hi2 hacc l0 hh0 l2 hh2 hV
  generalize accRow acc lo0 hi0 lo2 hi2 = A at *
  have hprod : x * b0 + W * (x * b1) + W * W * (x * b2) + W * W * W * (x * b3) = x * (L4.mk b0 b1 b2 b3).val := by
    rw [L4.val_eq]; simp only [v4]; ring
  -- the sum fits four words because the whole product fits
  have hfit : v4 A.l1 A.l2 A.l3 A.l4 + v4 lo1 hi1 lo3 hi3 < R := by
    have key := rowAB_tele m0 m1 m2 m3 hvA (L5.split A) (rfl : v4 A.l1 A.l2 A.l3 A.l4 + v4 lo1 hi1 lo3 hi3 = _)
    rw [hprod] at key
    exact lt_of_row key hV (xB_lt hx hB) (xB_le hx hB)
  obtain ⟨hv4, ho4⟩ := add4_val A.l1 A.l2 A.l3 A.l4 lo1 hi1 lo3 hi3 hoA.2.1 hoA.2.2.1 hoA.2.2.2.1 hoA.2.2.2.2
    l1 hh1 l3 hh3 hfit
  have key := rowAB_tele m0 m1 m2 m3 hvA (L5.split A) hv4
  rw [hprod] at key
  exact ⟨key, hoA.1, ho4⟩

/-- **the `mulBMI2` macro is the full product** -/
theorem mulx8_val (a b : L4) (ha : a.ok) (hb : b.ok) : (mulx8 a b).val = a.val * b.val ∧ (mulx8 a b).ok := by
  obtain ⟨ha0, ha1, ha2, ha3⟩ := ha
  obtain ⟨e0, o0, V0⟩ := mulxRow0_val a.l0 b ha0 hb
  obtain ⟨e1, t1, o1, V1⟩ := mulxRowAB_val _ a.l1 b o0 V0 ha1 hb
  obtain ⟨e2, t2, o2, V2⟩ := mulxRowAB_val _ a.l2 b o1 V1 ha2 hb
  obtain ⟨e3, t3, o3⟩ := mulxRowAB4_val _ a.l3 b o2 V2 ha3 hb
  have hl0 : mulLo a.l0 b.l0 < W := Nat.mod_lt _ (by decide)
  simp only [mulx8]
  generalize mulxRow0 a.l0 b = X0 at *
  generalize mulxRowA X0 a.l1 b = A1 at *
  generalize mulxRowB A1 a.l1 b = B1 at *
  generalize mulxRowA B1 a.l2 b = A2 at *
  generalize mulxRowB A2 a.l2 b = B2 at *
  generalize mulxRowA B2 a.l3 b = A3 at *
  generalize mulxRowB4 A3 a.l3 b = B3 at *
  refine ⟨?_, hl0, t1, t2, t3, o3.1, o3.2.1, o3.2.2.1, o3.2.2.2⟩
  have e1' : A1.l0 + W * B1.val = a.l1 * b.val + X0.val := by rw [e1, Nat.add_comm]
  have e2' : A2.l0 + W * B2.val = a.l2 * b.val + B1.val := by rw [e2, Nat.add_comm]
  have e3' : A3.l0 + W * B3.val = a.l3 * b.val + B2.val := by rw [e3, Nat.add_comm]
  have key := mul8_tele e0 e1' e2' e3'.symm.symm
  have hv : (L8.mk (mulLo a.l0 b.l0) A1.l0 A2.l0 A3.l0 B3.l0 B3.l1 B3.l2 B3.l3).val =
      mulLo a.l0 b.l0 + W * A1.l0 + W * W * A2.l0 + W * W * W * (A3.l0 + W * B3.val) := by
    simp only [L8.val, L4.val_eq, v4, R, W]; ring
  rw [hv, key, L4.val_eq a]
  simp only [v4]; ring

end Dos.Mont

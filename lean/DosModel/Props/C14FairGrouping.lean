/-
C14, round 4, continued — the key-generation pipeline (`handleGrouping` + `pdkg.Grouping` +
`pdkg.Loop`, regenerated on every run): every fair run terminates; `pdkg.Loop` closes the reply
channels it was handed; no channel without a receiver.  (Separate file: kernel evaluation on the
350-node IR; Lake checks it in parallel.)  Definitions and the general theorems: Props/C14Fair.lean.
-/
import DosModel.Props.C14Grouping
import DosModel.Props.C14Fair
import DosModel.Proofs.PipeFairGen

namespace Dos.Props.C14
open Dos Dos.Pipe Dos.Gen.Pipes

/-- the key-generation pipeline: in every fair run in which the session's deadline fires (or it is
cancelled), from some position on no goroutine of the session runs and every stage channel is
closed, for ever -/
theorem grouping_every_fair_run_terminates (r : Run grouping) (hf : Fair r)
    (hc : ∃ i, (r.st i).ctxDone 0 = true) : r.Terminates :=
  pipeline_every_fair_run_terminates _ grouping_wf r hf hc

/-- non-vacuity: the hypotheses hold of the regenerated IR, which has ten or more pipeline
goroutines with a channel they close on every path -/
example : (W0 grouping = true ∧ SafeOk grouping = true ∧ LiveOk grouping = true) ∧
    10 ≤ (grouping.gs.filter (fun gr => gr.static && !gr.daemon &&
      (List.range grouping.chans.length).any (fun c => gr.hasClose c && closesOnAllPaths gr c))).length :=
  ⟨wf_of_no_violation _ (benign_of_subset grouping_wf known_findings_are_benign), by decide +kernel⟩

/-- `askMembers` (three instances: deals, responses, justifications… of a session) hands its reply
channel to `pdkg.Loop`; once Loop has taken the registration it closes the reply channel in every
fair run in which the session's context ends (its expiry ticker brings it to the check) — or the
node shuts down -/
theorem grouping_collector_closes_reply_channels :
    (handoffs grouping).length = 3 ∧
    ∀ (r : Run grouping), Fair r → (∃ i, (r.st i).ctxDone 0 = true) →
      ∀ x ∈ handoffs grouping, ∀ gd, grouping.gs[x.1]? = some gd → ∀ i0 pc0,
        (r.st i0).gs[x.1]? = some (.at pc0) → mark (ownD gd x.2.1 x.2.2) pc0 = true →
        ∃ j, i0 ≤ j ∧ ((∀ j', j ≤ j' → (r.st j').closed x.2.1 = true) ∨ (r.st j).gs[x.1]? = some .done) :=
  ⟨(collectorsCheck_parts grouping_collectors_check).1,
   fun r hf hc => collectors_eventually_close _ grouping_wf (collectorsCheck_parts grouping_collectors_check).2 r hf hc⟩

/-- non-vacuity: three hand-offs, each passing `CollectorOk` (kernel evaluation in Proofs/PipeFairGen.lean) -/
example : (handoffs grouping).length = 3 ∧ CollectorsOk grouping = true :=
  collectorsCheck_parts grouping_collectors_check

/-- no channel of the key-generation pipeline that somebody sends on is without a receiver (W6) -/
theorem grouping_has_receivers :
    ∀ c, c < grouping.chans.length → ∀ gr ∈ grouping.gs, gr.hasSend c = true → ¬ Receiverless grouping c := by
  intro c hc gr hgr hsend
  have h : W6 grouping = true := by decide +kernel
  exact W6_not_receiverless h hc hgr hsend

example : 10 ≤ ((List.range grouping.chans.length).filter (fun c => grouping.gs.any (fun gr => gr.hasSend c))).length := by
  decide +kernel

end Dos.Props.C14

/-
C10 layer 4 — gfP2 (gfp2.go, transcribed in Model/Bn256Tower.lean) over ANY commutative
ring α is the ring α[i]/(i²+1): the transcribed operations satisfy the commutative-ring
axioms (instance below, every field IS the transcribed function), i² = −1,
Square = Mul(a,a), MulXi = multiplication by ξ = i+9, Conjugate is the non-trivial
automorphism, and over a field Invert is the inverse whenever the norm x²+y² ≠ 0.
-/
import Mathlib.Tactic.Ring
import Mathlib.Algebra.Field.Basic
import DosModel.Model.Bn256Tower

namespace Dos.Bn256
namespace Fp2

@[ext] theorem ext' {α : Type} {a b : Fp2 α} (hx : a.x = b.x) (hy : a.y = b.y) : a = b := by
  cases a; cases b; simp_all

section ring
variable {α : Type} [CommRing α]

theorem add_assoc' (a b c : Fp2 α) : Fp2.add (Fp2.add a b) c = Fp2.add a (Fp2.add b c) := by
  ext <;> simp only [Fp2.add] <;> ring
theorem zero_add' (a : Fp2 α) : Fp2.add Fp2.zero a = a := by ext <;> simp only [Fp2.add, Fp2.zero] <;> ring
theorem add_zero' (a : Fp2 α) : Fp2.add a Fp2.zero = a := by ext <;> simp only [Fp2.add, Fp2.zero] <;> ring
theorem add_comm' (a b : Fp2 α) : Fp2.add a b = Fp2.add b a := by ext <;> simp only [Fp2.add] <;> ring
theorem neg_add_cancel' (a : Fp2 α) : Fp2.add (Fp2.neg a) a = Fp2.zero := by
  ext <;> simp only [Fp2.add, Fp2.neg, Fp2.zero] <;> ring
theorem sub_eq_add_neg' (a b : Fp2 α) : Fp2.sub a b = Fp2.add a (Fp2.neg b) := by
  ext <;> simp only [Fp2.add, Fp2.neg, Fp2.sub] <;> ring
theorem mul_assoc' (a b c : Fp2 α) : Fp2.mul (Fp2.mul a b) c = Fp2.mul a (Fp2.mul b c) := by
  ext <;> simp only [Fp2.mul] <;> ring
theorem one_mul' (a : Fp2 α) : Fp2.mul Fp2.one a = a := by ext <;> simp only [Fp2.mul, Fp2.one] <;> ring
theorem mul_one' (a : Fp2 α) : Fp2.mul a Fp2.one = a := by ext <;> simp only [Fp2.mul, Fp2.one] <;> ring
theorem left_distrib' (a b c : Fp2 α) : Fp2.mul a (Fp2.add b c) = Fp2.add (Fp2.mul a b) (Fp2.mul a c) := by
  ext <;> simp only [Fp2.mul, Fp2.add] <;> ring
theorem right_distrib' (a b c : Fp2 α) : Fp2.mul (Fp2.add a b) c = Fp2.add (Fp2.mul a c) (Fp2.mul b c) := by
  ext <;> simp only [Fp2.mul, Fp2.add] <;> ring
theorem zero_mul' (a : Fp2 α) : Fp2.mul Fp2.zero a = Fp2.zero := by ext <;> simp only [Fp2.mul, Fp2.zero] <;> ring
theorem mul_zero' (a : Fp2 α) : Fp2.mul a Fp2.zero = Fp2.zero := by ext <;> simp only [Fp2.mul, Fp2.zero] <;> ring
theorem mul_comm' (a b : Fp2 α) : Fp2.mul a b = Fp2.mul b a := by ext <;> simp only [Fp2.mul] <;> ring

/-- the commutative ring structure whose operations are the transcribed gfP2 functions -/
instance instCommRing : CommRing (Fp2 α) where
  add := Fp2.add
  zero := Fp2.zero
  neg := Fp2.neg
  sub := Fp2.sub
  mul := Fp2.mul
  one := Fp2.one
  nsmul := nsmulRec
  zsmul := zsmulRec
  add_assoc := add_assoc'
  zero_add := zero_add'
  add_zero := add_zero'
  add_comm := add_comm'
  neg_add_cancel := neg_add_cancel'
  sub_eq_add_neg := sub_eq_add_neg'
  mul_assoc := mul_assoc'
  one_mul := one_mul'
  mul_one := mul_one'
  left_distrib := left_distrib'
  right_distrib := right_distrib'
  zero_mul := zero_mul'
  mul_zero := mul_zero'
  mul_comm := mul_comm'

theorem add_eq (a b : Fp2 α) : Fp2.add a b = a + b := rfl
theorem sub_eq (a b : Fp2 α) : Fp2.sub a b = a - b := rfl
theorem neg_eq (a : Fp2 α) : Fp2.neg a = -a := rfl
theorem mul_eq (a b : Fp2 α) : Fp2.mul a b = a * b := rfl
theorem zero_eq : (Fp2.zero : Fp2 α) = 0 := rfl
theorem one_eq : (Fp2.one : Fp2 α) = 1 := rfl

/-- coordinates of a product: multiplication of x·i + y modulo i² = −1 -/
theorem mul_coords (a b : Fp2 α) :
    (a * b).x = a.x * b.y + a.y * b.x ∧ (a * b).y = a.y * b.y - a.x * b.x := by
  rw [← mul_eq]; constructor <;> simp only [Fp2.mul] <;> ring

/-- the element i -/
def i : Fp2 α := ⟨1, 0⟩
/-- ξ = i + 9 -/
def xi : Fp2 α := ⟨1, 9⟩
/-- embedding of the base ring -/
def ofBase (c : α) : Fp2 α := ⟨0, c⟩

theorem i_sq : (i : Fp2 α) * i = -1 := by
  rw [← mul_eq, ← one_eq, ← neg_eq]; ext <;> simp only [i, Fp2.mul, Fp2.neg, Fp2.one] <;> ring

theorem decompose (a : Fp2 α) : a = ofBase a.x * i + ofBase a.y := by
  rw [← mul_eq, ← add_eq]; ext <;> simp only [ofBase, i, Fp2.mul, Fp2.add] <;> ring

theorem square_eq (a : Fp2 α) : Fp2.square a = a * a := by
  rw [← mul_eq]; ext <;> simp only [Fp2.square, Fp2.mul] <;> ring

theorem mulXi_eq (a : Fp2 α) : Fp2.mulXi a = xi * a := by
  rw [← mul_eq]; ext <;> simp only [Fp2.mulXi, xi, Fp2.mul] <;> ring

theorem mulScalar_eq (a : Fp2 α) (c : α) : Fp2.mulScalar a c = a * ofBase c := by
  rw [← mul_eq]; ext <;> simp only [Fp2.mulScalar, ofBase, Fp2.mul] <;> ring

/-- Conjugate is a ring automorphism fixing the base ring and sending i to −i -/
theorem conjugate_mul (a b : Fp2 α) : Fp2.conjugate (a * b) = Fp2.conjugate a * Fp2.conjugate b := by
  rw [← mul_eq, ← mul_eq]; ext <;> simp only [Fp2.conjugate, Fp2.mul] <;> ring
theorem conjugate_add (a b : Fp2 α) : Fp2.conjugate (a + b) = Fp2.conjugate a + Fp2.conjugate b := by
  rw [← add_eq, ← add_eq]; ext <;> simp only [Fp2.conjugate, Fp2.add] <;> ring
theorem conjugate_i : Fp2.conjugate (i : Fp2 α) = -i := by
  rw [← neg_eq]; ext <;> simp [Fp2.conjugate, i, Fp2.neg]
theorem mul_conjugate (a : Fp2 α) : a * Fp2.conjugate a = ofBase (a.x * a.x + a.y * a.y) := by
  rw [← mul_eq]; ext <;> simp only [Fp2.conjugate, ofBase, Fp2.mul] <;> ring

end ring

section field
variable {α : Type} [Field α]

/-- Invert is the inverse as soon as the norm x² + y² is invertible (for bn256: always for a ≠ 0,
because −1 is not a square modulo p ≡ 3 (mod 4)) -/
theorem mul_invert (a : Fp2 α) (hn : a.x * a.x + a.y * a.y ≠ 0) : a * Fp2.invert a = 1 := by
  rw [← mul_eq, ← one_eq]
  ext
  · simp only [Fp2.invert, Fp2.mul, Fp2.one]; ring
  · simp only [Fp2.invert, Fp2.mul, Fp2.one]
    have e : a.y * (a.y * (a.x * a.x + a.y * a.y)⁻¹) - a.x * (-a.x * (a.x * a.x + a.y * a.y)⁻¹) =
        (a.x * a.x + a.y * a.y) * (a.x * a.x + a.y * a.y)⁻¹ := by ring
    rw [e, mul_inv_cancel₀ hn]

end field
end Fp2
end Dos.Bn256

/-
Helper lemmas for the history semantics of `Model/BlsHist.lean` (C06): an implementation whose every
call returns the one-shot outcome of the values at call time — whatever hidden state it keeps — produces
the pointwise outcome list; the model (`pureImpl`) is such an implementation; histories compose and calls
leave the caller's memory alone.  Also: `memoImpl`, the model of an implementation that REMEMBERS THE
CALLER'S SLICE of the last message together with its hash point (the seeded hash memo), used in
`Props/C06Hist.lean` to show that the history semantics does distinguish such an implementation.
Core Lean only.
-/
import DosModel.Model.BlsHist
import DosModel.Proofs.Bls

namespace Dos.BlsHist
open Dos Dos.Codec Dos.Bls

variable {P1 P2 PT : Type}

theorem runWith_pointwise {σ : Type} (o : BlsOps P1 P2 PT) (k : KeyOps P2) (I : Impl σ P2)
    (hI : ∀ s st c, (I.call s st c).1 = evalCall o k st c) :
    ∀ (steps : List (Step P2)) (s : σ) (st : Store P2),
      runWith I s st steps = (argsAt o k st steps).map (outcomeOf o k) := by
  intro steps
  induction steps with
  | nil => intro s st; rfl
  | cons x rest ih =>
    intro s st
    cases x with
    | upd m => simp only [runWith, argsAt]; exact ih s _
    | call c dst =>
      simp only [runWith, argsAt, List.map_cons]
      rw [hI s st c, ih]
      congr 1

theorem runHist_pointwise (o : BlsOps P1 P2 PT) (k : KeyOps P2) (st : Store P2) (steps : List (Step P2)) :
    runHist o k st steps = (argsAt o k st steps).map (outcomeOf o k) :=
  runWith_pointwise o k (pureImpl o k) (fun _ _ _ => rfl) steps () st

theorem runHist_append (o : BlsOps P1 P2 PT) (k : KeyOps P2) :
    ∀ (pre post : List (Step P2)) (st : Store P2),
      runHist o k st (pre ++ post) = runHist o k st pre ++ runHist o k (storeAfter o k st pre) post := by
  intro pre
  induction pre with
  | nil => intro post st; rfl
  | cons x rest ih =>
    intro post st
    cases x with
    | upd m =>
      simp only [List.cons_append, runHist, runWith, storeAfter]
      exact ih post _
    | call c dst =>
      simp only [List.cons_append, runHist, runWith, storeAfter, pureImpl]
      exact congrArg _ (ih post _)

theorem capture_none (st : Store P2) (out : Outcome) : capture st out none = st := by
  cases out <;> rfl

theorem runHist_call_none (o : BlsOps P1 P2 PT) (k : KeyOps P2) (st : Store P2) (c : Call)
    (post : List (Step P2)) :
    runHist o k st (.call c none :: post) = evalCall o k st c :: runHist o k st post := by
  simp only [runHist, runWith, pureImpl, capture_none]

theorem storeAfter_append (o : BlsOps P1 P2 PT) (k : KeyOps P2) :
    ∀ (pre post : List (Step P2)) (st : Store P2),
      storeAfter o k st (pre ++ post) = storeAfter o k (storeAfter o k st pre) post := by
  intro pre
  induction pre with
  | nil => intro post st; rfl
  | cons x rest ih =>
    intro post st
    cases x <;> simp only [List.cons_append, storeAfter] <;> exact ih post _

/-! ### the caller's memory: what a refill does (`write` then `read`), on well-formed stores -/

/-- every slice variable lies inside its backing array -/
def Store.WF (st : Store P2) : Prop :=
  ∀ b s, st.bufs.lookup b = some s →
    ∃ a, st.arrays[s.arr]? = some a ∧ s.off + s.cap ≤ a.length ∧ s.len ≤ s.cap

theorem overwrite_length (a : Bytes) (off : Nat) (bs : Bytes) (h : off + bs.length ≤ a.length) :
    (overwrite a off bs).length = a.length := by
  simp only [overwrite, List.length_append, List.length_take, List.length_drop]
  omega

theorem overwrite_read (a : Bytes) (off : Nat) (bs : Bytes) (h : off + bs.length ≤ a.length) :
    ((overwrite a off bs).drop off).take bs.length = bs := by
  have h1 : (a.take off).length = off := by rw [List.length_take]; omega
  unfold overwrite
  rw [List.append_assoc, List.drop_append_of_le_length (by omega)]
  have : (a.take off).drop off = [] := by
    apply List.drop_of_length_le; omega
  rw [this, List.nil_append, List.take_append_of_le_length (by omega), List.take_of_length_le (by omega)]

theorem lookup_cons_self {α : Type} (b : Nat) (v : α) (l : List (Nat × α)) :
    List.lookup b ((b, v) :: l) = some v := by
  simp [List.lookup]

/-- **a refilled buffer reads back what was written** (in place or freshly allocated) -/
theorem read_write (st : Store P2) (hwf : st.WF) (b : Nat) (bytes : Bytes) :
    (st.apply (.write b bytes)).read b = some bytes := by
  have halloc : ∀ cap, (st.alloc b cap bytes).read b = some bytes := by
    intro cap
    simp only [Store.read, Store.alloc, lookup_cons_self, readSlice]
    rw [List.getElem?_append_right (Nat.le_refl _)]
    simp
  cases hb : st.bufs.lookup b with
  | none => simp only [Store.apply, hb]; exact halloc 0
  | some s =>
    obtain ⟨a, ha, hlen, _⟩ := hwf b s hb
    simp only [Store.apply, hb]
    split
    · rename_i hfit
      simp only [ha]
      simp only [Store.read, lookup_cons_self, readSlice]
      have hidx : s.arr < st.arrays.length := by
        rcases List.getElem?_eq_some_iff.mp ha with ⟨h, _⟩; exact h
      rw [List.getElem?_set_self hidx]
      simp only
      rw [overwrite_read a s.off bytes (by omega)]
    · exact halloc 0

/-! ### an implementation with hidden state that aliases the caller's memory -/

/-- `Verify` with the hash point handed in -/
def verifyHM (o : BlsOps P1 P2 PT) (X : P2) (HM : P1) (sig : Bytes) : Verdict :=
  match o.unmarshal1 sig with
  | .err e => .rejectParse e
  | .panic s => .panic s
  | .ok s =>
    match pairingCheck o.toPairingOps [o.neg1 s, HM] [o.base2, X] with
    | .ok true => .accept
    | .ok false => .rejectPairing
    | .err _ => .panic "unreachable"
    | .panic st => .panic st

theorem verify_eq_verifyHM (o : BlsOps P1 P2 PT) (X : P2) (msg sig : Bytes) :
    verify o X msg sig = verifyHM o X (hashToPoint o msg) sig := rfl

/-- a one-entry hash memo whose key is THE CALLER'S SLICE (header), not a copy of its bytes: a hit is
"the remembered slice now reads the same bytes as the message" -/
def memoImpl (o : BlsOps P1 P2 PT) (k : KeyOps P2) : Impl (Option (Slice × P1)) P2 where
  init := none
  call := fun s st c =>
    match c with
    | .verify kk m sg =>
      match st.keys.lookup kk, st.bufs.lookup m, st.read m, st.read sg with
      | some X, some sl, some msg, some sig =>
        let hit : Option P1 :=
          match s with
          | some (sl0, pt) => if readSlice st.arrays sl0 = some msg then some pt else none
          | none => none
        match hit with
        | some pt => (.verdict (verifyHM o X pt sig), s)
        | none =>
          let pt := hashToPoint o msg
          (.verdict (verifyHM o X pt sig), some (sl, pt))
      | _, _, _, _ => (.badRef, s)
    | c => (evalCall o k st c, s)

/-- toy instance whose hash depends on the message CONTENT (ℤ, e(a,b) = a·b) -/
def toyOps : BlsOps Int Int Int :=
  { intOps with hashScalar := fun m => m.foldl (fun a b => a + b.toNat) 0 + 1 }

def toyKeyOps : KeyOps Int := ⟨0, fun a b => a + b, fun k a => (k : Int) * a⟩

end Dos.BlsHist

package c06

// HISTORY cases: a sequence of bls.Sign / bls.Verify / tbls.Verify calls inside ONE Exec on SHARED,
// MUTABLE caller objects, the way a long-running node reuses a receive / assembly buffer:
// message, signature and key byte slices overwritten in place (same length, other length), sub-slices of
// one backing array, append into spare capacity, the same kyber.Point / kyber.Scalar objects set again
// between calls, interleaved with calls on other messages.
//
// Every call's outcome is compared with
//   (i)  the Lean model `BlsHist.runHist` (the model has no hidden state: theorem `hist_is_pointwise` —
//        every outcome is the one-shot function of the byte VALUES at call time), through the Impl line;
//   (ii) the EVM predicate (precompiles 0x07/0x08) on independent copies of the values taken just before
//        the call, the key encoding recomputed with math/big from the secret the harness knows.
// Also: a call writes to no caller memory (every backing array compared before/after), leaves the key /
// scalar object's value alone, and emitted signatures do not change later.
//
//	hist <tag> <step>/<step>/…
//	  n:<b>:<cap>:<hex>        b = make([]byte, len, max(cap,len)); copy
//	  w:<b>:<hex>              refill IN PLACE if cap(b) suffices (b = b[:len]; copy), else a fresh array
//	  p:<b>:<off>:<hex>        copy(b[off:], bytes)
//	  a:<b>:<hex>              append: into the spare capacity if it fits, else a new array of cap 2·len
//	  sl:<dst>:<src>:<lo>:<hi> dst = src[lo:hi]   (hi ≤ cap(src))
//	  k:<id>:<sk>:<mode>       key object id := sk·G2, the SAME kyber.Point object when it exists
//	                           (mode mul: X.Mul(s,nil); sum: X.Add(a·G2,(sk−a)·G2); unm: X.UnmarshalBinary; set: X.Set)
//	  kb:<id>:<b>:<sk>         write the encoding of sk·G2 into buffer b (as w), then X.UnmarshalBinary(b)
//	  x:<id>:<dec>             scalar object id .SetBytes(big-endian dec), dec < 2^256 (may be ≥ r)
//	  v:<k>:<m>:<s>            bls.Verify(suite, key k, buf m, buf s)
//	  s:<x>:<m>[:<dst>]        bls.Sign(suite, scalar x, buf m); dst: the caller keeps the returned slice as buffer dst
//	  tv:<k,k,…>:<m>:<s>       tbls.Verify(suite, PubPoly over THESE key objects, buf m, buf s = index‖signature)
//
//	par <rounds> <call>/<call>/…   the calls run concurrently (one goroutine each, released together), each on
//	  v:<sk>:<msghex>:<sighex> | s:<sk>:<msghex>      fresh objects of its own; every round must give the one-shot outcomes

import (
	"bytes"
	"fmt"
	"math/big"
	"strings"
	"sync"

	"github.com/DOSNetwork/core/share"
	"github.com/DOSNetwork/core/sign/bls"
	"github.com/DOSNetwork/core/sign/tbls"
	"github.com/dedis/kyber"

	"verifharness/internal/h"
	"verifharness/props/c11/bnref"
)

// slices: the buffer part of the caller's memory (real Go slices); shared by executor and generator
type slices map[int][]byte

func atoi(s string) int { return h.Atoi(s) }

// applyBuf performs a buffer step; reports whether f was one
func (bs slices) applyBuf(f []string) bool {
	switch f[0] {
	case "n":
		m := h.UnHex(f[3])
		c := atoi(f[2])
		if c < len(m) {
			c = len(m)
		}
		nb := make([]byte, len(m), c)
		copy(nb, m)
		bs[atoi(f[1])] = nb
	case "w":
		bs.write(atoi(f[1]), h.UnHex(f[2]))
	case "p":
		b, off, m := atoi(f[1]), atoi(f[2]), h.UnHex(f[3])
		if old, ok := bs[b]; ok && off <= len(old) {
			copy(old[off:], m)
		}
	case "a":
		b, m := atoi(f[1]), h.UnHex(f[2])
		old, ok := bs[b]
		switch {
		case !ok:
			bs.write(b, m)
		case len(old)+len(m) <= cap(old):
			nb := old[:len(old)+len(m)]
			copy(nb[len(old):], m)
			bs[b] = nb
		default:
			nb := make([]byte, len(old)+len(m), 2*(len(old)+len(m)))
			copy(nb, old)
			copy(nb[len(old):], m)
			bs[b] = nb
		}
	case "sl":
		dst, src, lo, hi := atoi(f[1]), atoi(f[2]), atoi(f[3]), atoi(f[4])
		if s, ok := bs[src]; ok && lo <= hi && hi <= cap(s) {
			bs[dst] = s[lo:hi]
		}
	default:
		return false
	}
	return true
}

func (bs slices) write(b int, m []byte) {
	if old, ok := bs[b]; ok && len(m) <= cap(old) {
		nb := old[:len(m)]
		copy(nb, m) // in place: every alias of the backing array now reads the new bytes
		bs[b] = nb
		return
	}
	nb := make([]byte, len(m), len(m))
	copy(nb, m)
	bs[b] = nb
}

// snapshot: every named slice extended to its full capacity
func (bs slices) snapshot() map[int][]byte {
	out := map[int][]byte{}
	for k, b := range bs {
		out[k] = append([]byte{}, b[:cap(b)]...)
	}
	return out
}

func (bs slices) diff(snap map[int][]byte) string {
	for k, b := range bs {
		if !bytes.Equal(b[:cap(b)], snap[k]) {
			return fmt.Sprintf("buffer %d (len %d, cap %d) was %s, is %s", k, len(b), cap(b), h.Hex(snap[k]), h.Hex(b[:cap(b)]))
		}
	}
	return ""
}

type keptSig struct {
	step int
	sig  []byte // the slice the library returned
	was  []byte
}

func identMode(sk *big.Int, err error) {
	if sk.Sign() != 0 {
		panic("bad case line: identity key mode with a non-zero secret")
	}
	if err != nil {
		panic("bad case line: identity key encoding rejected: " + err.Error())
	}
}

func verdictOf(err error) string {
	if err == nil {
		return "accept"
	}
	return "reject " + errKind(err)
}

func guarded(f func() string) (out string) {
	defer func() {
		if e := recover(); e != nil {
			out = "panic " + h.OneLine(fmt.Sprint(e))
		}
	}()
	return f()
}

// evmVerdict: what the EVM says about (key sk·G2, msg, sig), from math/big encodings only: the signature must
// parse (canonical, on the curve) and the precompile predicate must hold
func evmVerdict(skr *big.Int, msg, sig []byte) (bool, string) {
	r1 := refSig(sig)
	if r1 == nil {
		return false, ""
	}
	evm, e := evmPredicate(r1, bnref.Enc2EVM(bnref.Mul2(skr, bnref.G2Gen())), msg)
	if e != "" {
		return evm, e
	}
	// the precompile on amd64 is go-ethereum's cloudflare code, of the same lineage as group/bn256: also ask the
	// pairing-free definition S == (sk·h)·G1 (math/big only; exact because the harness knows the secret)
	k := new(big.Int).Mul(skr, hashScalar(msg))
	if def := bytes.Equal(r1, bnref.Enc1(bnref.Mul1(k.Mod(k, bnref.Rn), bnref.G1Gen()))); def != evm {
		return evm, fmt.Sprintf("c06-oracles-disagree: ecPairing precompile says %v, S == sk·H(m) by math/big is %v", evm, def)
	}
	return evm, ""
}

var flushMsg = []byte("c06 history: a call on a private message before every history")
var flushSig = bnref.Enc1(validSig(big.NewInt(5), flushMsg))

// flush: one Verify and one Sign on private, never modified values before a history starts, so that whatever
// one-entry state an implementation may keep is the same at the start of every history (a replay of the
// line alone in a fresh process then behaves as it did inside the run)
func flush() {
	x := scalar(big.NewInt(5))
	bls.Verify(suite, suite.G2().Point().Mul(x, nil), append([]byte{}, flushMsg...), append([]byte{}, flushSig...))
	bls.Sign(suite, x, append([]byte{}, flushMsg...))
}

func execHist(w []string) (res h.Result) {
	res.Class = "hist-" + w[1]
	res.Nontrivial = true
	flush()
	bufs := slices{}
	keys, keySk := map[int]kyber.Point{}, map[int]*big.Int{}
	scal, scalV := map[int]kyber.Scalar{}, map[int]*big.Int{}
	var kept []keptSig
	var outs []string
	steps := strings.Split(w[2], "/")
	fail := func(k int, sig, detail string) {
		if res.Oracle == "" {
			res.Oracle = fmt.Sprintf("%s: history step %d (%s) %s", sig, k, strings.SplitN(steps[k], ":", 2)[0], detail)
		}
	}
	keyCheck := func(k int, id int) {
		// a copy is encoded: MarshalBinary normalises its receiver and would hide the object's state from later calls
		enc, err := suite.G2().Point().Set(keys[id]).MarshalBinary()
		if want := bnref.Enc2(bnref.Mul2(keySk[id], bnref.G2Gen())); err != nil || !bytes.Equal(enc, want) {
			fail(k, "c06-hist-call-modified-key", fmt.Sprintf("key object %d encodes to %s, an independent copy of %s·G2 to %s", id, h.Hex(enc), keySk[id], h.Hex(want)))
		}
	}
	for k, st := range steps {
		f := strings.Split(st, ":")
		if bufs.applyBuf(f) {
			continue
		}
		switch f[0] {
		case "k":
			id, sk, mode := atoi(f[1]), new(big.Int).Mod(h.BigDec(f[2]), bnref.Rn), f[3]
			X, ok := keys[id]
			if !ok {
				X = suite.G2().Point()
				keys[id] = X
			}
			switch mode {
			case "mul":
				X.Mul(scalar(sk), nil)
			case "sum":
				a := big.NewInt(int64(11 + k))
				b := new(big.Int).Sub(sk, a)
				X.Add(suite.G2().Point().Mul(scalar(a), nil), suite.G2().Point().Mul(scalar(b.Mod(b, bnref.Rn)), nil))
			case "unm":
				if err := X.UnmarshalBinary(bnref.Enc2(bnref.Mul2(sk, bnref.G2Gen()))); err != nil {
					panic("bad case line: key encoding rejected: " + err.Error())
				}
			case "set":
				X.Set(suite.G2().Point().Mul(scalar(sk), nil))
			// the other encodings / constructions of the IDENTITY key the library accepts (sk must be 0):
			case "unz": // 0x01 ‖ 128 zero bytes
				identMode(sk, X.UnmarshalBinary(append([]byte{1}, make([]byte, 128)...)))
			case "unj": // 0x00 ‖ junk: the tag alone decides
				identMode(sk, X.UnmarshalBinary(append([]byte{0}, bytes.Repeat([]byte{0xa5, byte(k)}, 64)...)))
			case "null":
				identMode(sk, nil)
				X.Null()
			case "sub": // P − P computed on the object itself
				identMode(sk, nil)
				X.Mul(scalar(big.NewInt(int64(13+k))), nil)
				X.Sub(X, suite.G2().Point().Set(X))
			default:
				panic("bad case line: key mode")
			}
			keySk[id] = sk
		case "kb":
			id, b, sk := atoi(f[1]), atoi(f[2]), new(big.Int).Mod(h.BigDec(f[3]), bnref.Rn)
			bufs.write(b, bnref.Enc2(bnref.Mul2(sk, bnref.G2Gen())))
			X, ok := keys[id]
			if !ok {
				X = suite.G2().Point()
				keys[id] = X
			}
			if err := X.UnmarshalBinary(bufs[b]); err != nil {
				panic("bad case line: key encoding rejected: " + err.Error())
			}
			keySk[id] = sk
		case "x":
			id, v := atoi(f[1]), h.BigDec(f[2])
			if v.Cmp(two256) >= 0 {
				panic("bad case line: scalar bytes")
			}
			S, ok := scal[id]
			if !ok {
				S = suite.G1().Scalar()
				scal[id] = S
			}
			S.SetBytes(v.Bytes())
			scalV[id] = new(big.Int).Mod(v, bnref.Rn)
		case "v":
			id, mi, si := atoi(f[1]), atoi(f[2]), atoi(f[3])
			X, okk := keys[id]
			msg, okm := bufs[mi]
			sig, oks := bufs[si]
			if !okk || !okm || !oks {
				outs = append(outs, "bad")
				continue
			}
			msg0, sig0, snap := append([]byte{}, msg...), append([]byte{}, sig...), bufs.snapshot()
			o := guarded(func() string { return verdictOf(bls.Verify(suite, X, msg, sig)) })
			outs = append(outs, o)
			evm, e1 := evmVerdict(keySk[id], msg0, sig0)
			switch {
			case strings.HasPrefix(o, "panic"):
				fail(k, "c06-hist-verify-panics", o)
			case e1 != "":
				fail(k, "c06-evm-rejects-canonical-encoding", e1)
			case (o == "accept") != evm:
				fail(k, "c06-hist-verify-differs-from-evm", fmt.Sprintf("bls.Verify says %q for key %s·G2, message %s, signature %s (the values at call time); the EVM predicate says %v",
					o, keySk[id], h.Hex(msg0), h.Hex(sig0), evm))
			}
			if d := bufs.diff(snap); d != "" {
				fail(k, "c06-hist-call-wrote-to-caller-memory", d)
			}
			keyCheck(k, id)
		case "tv":
			mi, si := atoi(f[2]), atoi(f[3])
			var commits []kyber.Point
			var coeffs []*big.Int
			okk := true
			var ids []int
			for _, s := range strings.Split(f[1], ",") {
				id := atoi(s)
				X, ok := keys[id]
				okk = okk && ok
				commits, coeffs, ids = append(commits, X), append(coeffs, keySk[id]), append(ids, id)
			}
			msg, okm := bufs[mi]
			sig, oks := bufs[si]
			if !okk || !okm || !oks {
				outs = append(outs, "bad")
				continue
			}
			msg0, sig0, snap := append([]byte{}, msg...), append([]byte{}, sig...), bufs.snapshot()
			pub := share.NewPubPoly(suite.G2(), suite.G2().Point().Base(), commits)
			o := guarded(func() string {
				err := tbls.Verify(suite, pub, msg, sig)
				if err != nil && len(sig) < 2 {
					return "err index"
				}
				return verdictOf(err)
			})
			outs = append(outs, o)
			if len(sig0) >= 2 {
				// the member's key: f(i+1) mod r with math/big
				xi := big.NewInt(int64(sig0[0])*256 + int64(sig0[1]) + 1)
				sk := new(big.Int)
				for j := len(coeffs) - 1; j >= 0; j-- {
					sk.Mul(sk, xi).Add(sk, coeffs[j]).Mod(sk, bnref.Rn)
				}
				evm, e1 := evmVerdict(sk, msg0, sig0[2:])
				switch {
				case strings.HasPrefix(o, "panic"):
					fail(k, "c06-hist-verify-panics", o)
				case e1 != "":
					fail(k, "c06-evm-rejects-canonical-encoding", e1)
				case (o == "accept") != evm:
					fail(k, "c06-hist-tverify-differs-from-evm", fmt.Sprintf("tbls.Verify says %q for member key %s·G2, message %s, share %s (the values at call time); the EVM predicate says %v",
						o, sk, h.Hex(msg0), h.Hex(sig0), evm))
				}
			} else if o != "err index" {
				fail(k, "c06-hist-tverify-short-share", o)
			}
			if d := bufs.diff(snap); d != "" {
				fail(k, "c06-hist-call-wrote-to-caller-memory", d)
			}
			for _, id := range ids {
				keyCheck(k, id)
			}
		case "s":
			xi, mi := atoi(f[1]), atoi(f[2])
			S, okx := scal[xi]
			msg, okm := bufs[mi]
			if !okx || !okm {
				outs = append(outs, "bad")
				continue
			}
			msg0, snap := append([]byte{}, msg...), bufs.snapshot()
			var sig []byte
			o := guarded(func() string {
				s, err := bls.Sign(suite, S, msg)
				if err != nil {
					return "err sign"
				}
				sig = s
				return "ok " + h.Hex(s)
			})
			outs = append(outs, o)
			if d := bufs.diff(snap); d != "" {
				fail(k, "c06-hist-call-wrote-to-caller-memory", d)
			}
			if enc, err := S.MarshalBinary(); err != nil || !bytes.Equal(enc, be32(scalV[xi])) {
				fail(k, "c06-hist-call-modified-scalar", fmt.Sprintf("scalar object %d now holds %s, was %s", xi, h.Hex(enc), scalV[xi]))
			}
			if sig == nil {
				fail(k, "c06-hist-sign-failed", o)
				continue
			}
			kk := new(big.Int).Mul(scalV[xi], hashScalar(msg0))
			want := bnref.Enc1(bnref.Mul1(kk.Mod(kk, bnref.Rn), bnref.G1Gen()))
			if !bytes.Equal(sig, want) {
				fail(k, "c06-hist-sign-wrong-message", fmt.Sprintf("bls.Sign(%s, %s) emitted %s; x·(keccak256(m) mod r)·G1 for the message in the buffer at call time is %s",
					scalV[xi], h.Hex(msg0), h.Hex(sig), h.Hex(want)))
			} else if ok, e := evmVerdict(scalV[xi], msg0, sig); !ok {
				fail(k, "c06-evm-rejects-emitted-signature", fmt.Sprintf("pairing=%v %s", ok, e))
			}
			if len(f) > 3 {
				bufs[atoi(f[3])] = sig[:len(sig):len(sig)] // the caller keeps the returned slice itself
			} else {
				kept = append(kept, keptSig{k, sig, append([]byte{}, sig...)})
			}
		default:
			panic("bad case line: step " + st)
		}
	}
	for _, ks := range kept {
		if !bytes.Equal(ks.sig, ks.was) {
			fail(ks.step, "c06-hist-emitted-signature-changed-later", fmt.Sprintf("the slice bls.Sign returned held %s, after the rest of the history %s", h.Hex(ks.was), h.Hex(ks.sig)))
		}
	}
	if len(outs) == 0 {
		res.Impl = "-"
	} else {
		res.Impl = strings.Join(outs, "/")
	}
	return
}

// par <rounds> <call>/<call>/…
func execPar(w []string) (res h.Result) {
	rounds := atoi(w[1])
	calls := strings.Split(w[2], "/")
	res.Class = fmt.Sprintf("par-n%d", len(calls))
	res.Nontrivial = true
	type pc struct {
		sign     bool
		sk       *big.Int
		msg, sig []byte
		want     string // outcome expected from math/big + EVM
	}
	var cs []pc
	for _, c := range calls {
		f := strings.Split(c, ":")
		p := pc{sk: new(big.Int).Mod(h.BigDec(f[1]), bnref.Rn), msg: h.UnHex(f[2])}
		switch f[0] {
		case "s":
			p.sign = true
			p.want = "ok " + h.Hex(bnref.Enc1(validSig(p.sk, p.msg)))
		case "v":
			p.sig = h.UnHex(f[3])
			evm, e1 := evmVerdict(p.sk, p.msg, p.sig)
			if e1 != "" {
				res.Oracle = "c06-evm-rejects-canonical-encoding: " + e1
			}
			if evm {
				p.want = "accept"
			} else {
				p.want = "reject"
			}
		default:
			panic("bad case line: par call " + c)
		}
		cs = append(cs, p)
	}
	var first []string
	for r := 0; r < rounds; r++ {
		outs := make([]string, len(cs))
		start := make(chan struct{})
		var wg sync.WaitGroup
		for g := range cs {
			wg.Add(1)
			go func(g int) {
				defer wg.Done()
				p := cs[g]
				msg := append([]byte{}, p.msg...)
				x := scalar(p.sk)
				var X kyber.Point
				var sig []byte
				if !p.sign {
					X = suite.G2().Point().Mul(x, nil)
					sig = append([]byte{}, p.sig...)
				}
				<-start
				outs[g] = guarded(func() string {
					if p.sign {
						s, err := bls.Sign(suite, x, msg)
						if err != nil {
							return "err sign"
						}
						return "ok " + h.Hex(s)
					}
					return verdictOf(bls.Verify(suite, X, msg, sig))
				})
			}(g)
		}
		close(start)
		wg.Wait()
		for g, o := range outs {
			okk := o == cs[g].want || (cs[g].want == "reject" && strings.HasPrefix(o, "reject "))
			if !okk && res.Oracle == "" {
				res.Oracle = fmt.Sprintf("c06-par-outcome-differs: round %d of %d, goroutine %d of %d concurrent calls (%s): the library says %q, math/big + the EVM predicate say %q",
					r, rounds, g, len(cs), calls[g], o, cs[g].want)
			}
		}
		if first == nil {
			first = outs
		} else if strings.Join(first, "/") != strings.Join(outs, "/") {
			res.Impl = fmt.Sprintf("mixed: round 0 %s, round %d %s", strings.Join(first, "/"), r, strings.Join(outs, "/"))
			return
		}
	}
	res.Impl = strings.Join(first, "/")
	return
}

// shrink: drop one step (or one concurrent call) at a time
func shrinkLine(line string) []string {
	w := strings.Fields(line)
	if len(w) != 3 || (w[0] != "hist" && w[0] != "par") {
		return nil
	}
	st := strings.Split(w[2], "/")
	var out []string
	for i := len(st) - 1; i >= 0 && len(st) > 1; i-- {
		c := append(append([]string{}, st[:i]...), st[i+1:]...)
		out = append(out, w[0]+" "+w[1]+" "+strings.Join(c, "/"))
	}
	return out
}

// ---------------------------------------------------------------------------------------------
// generator

type hb struct {
	steps []string
	bufs  slices // the generator runs the buffer steps itself, so it knows what every buffer holds
}

func newHB() *hb { return &hb{bufs: slices{}} }
func (b *hb) add(format string, a ...interface{}) {
	st := fmt.Sprintf(format, a...)
	b.steps = append(b.steps, st)
	b.bufs.applyBuf(strings.Split(st, ":"))
}
func (b *hb) line(tag string) string { return "hist " + tag + " " + strings.Join(b.steps, "/") }
func (b *hb) sigFor(sk *big.Int, buf int) []byte {
	return bnref.Enc1(validSig(sk, b.bufs[buf]))
}

func genHistories(thorough bool, rng *h.Rng, emit func(string), sks []*big.Int) {
	rm1 := new(big.Int).Sub(bnref.Rn, big.NewInt(1))
	rk := func() *big.Int { return sks[4+rng.Intn(len(sks)-4)] }
	reps := 2
	if thorough {
		reps = 12
	}
	for rep := 0; rep < reps; rep++ {
		L := 1 + rng.Intn(40)
		if rep%3 == 1 {
			L = 130 + rng.Intn(12) // around the Keccak rate
		}
		m1, m2 := rng.Bytes(L), rng.Bytes(L)
		if rep%2 == 1 { // one bit apart
			m2 = append([]byte{}, m1...)
			m2[rng.Intn(L)] ^= 1 << uint(rng.Intn(8))
		}
		sk, sk2 := rk(), rk()
		for sk2.Cmp(sk) == 0 {
			sk2 = rng.Big(bnref.Rn)
		}
		s11, s12 := bnref.Enc1(validSig(sk, m1)), bnref.Enc1(validSig(sk, m2))

		// 0. one message buffer refilled in place, same length; the signature buffer refilled too
		for _, inter := range []bool{false, true} {
			b := newHB()
			b.add("n:0:%d:%s", L, h.Hex(m1))
			b.add("k:0:%s:mul", sk)
			b.add("n:1:64:%s", h.Hex(s11))
			if inter {
				b.add("n:7:0:%s", h.Hex(rng.Bytes(1+rng.Intn(20))))
				b.add("n:8:64:%s", h.Hex(b.sigFor(sk, 7)))
			}
			other := func() {
				if inter { // a call on another message in between
					b.add("v:0:7:8")
				}
			}
			b.add("v:0:0:1")
			b.add("w:0:%s", h.Hex(m2))
			b.add("v:0:0:1") // the signature of the OLD content
			other()
			b.add("w:1:%s", h.Hex(s12))
			b.add("v:0:0:1")
			b.add("w:0:%s", h.Hex(m1))
			other()
			b.add("v:0:0:1")
			b.add("w:1:%s", h.Hex(s11))
			b.add("v:0:0:1")
			b.add("p:0:%d:%s", rng.Intn(L), h.Hex([]byte{byte(1 + rng.Intn(255))})) // one byte poked
			if rng.Bool() {
				b.add("v:0:0:1")
			}
			b.add("w:1:%s", h.Hex(b.sigFor(sk, 0)))
			b.add("v:0:0:1")
			if inter {
				emit(b.line("refill-interleaved"))
			} else {
				emit(b.line("refill-same-len"))
			}
		}

		// 1. other lengths: shorter, longer within the capacity, beyond the capacity, empty
		{
			b := newHB()
			b.add("n:0:%d:%s", L+16, h.Hex(m1))
			b.add("k:0:%s:mul", sk)
			b.add("n:1:64:%s", h.Hex(s11))
			b.add("v:0:0:1")
			for _, m := range [][]byte{m1[:L/2], append(append([]byte{}, m2...), rng.Bytes(1+rng.Intn(15))...), m1, nil, rng.Bytes(L + 17 + rng.Intn(8)), m2} {
				b.add("w:0:%s", h.Hex(m))
				b.add("v:0:0:1") // the previous content's signature
				b.add("w:1:%s", h.Hex(b.sigFor(sk, 0)))
				b.add("v:0:0:1")
			}
			emit(b.line("refill-other-len"))
		}

		// 2. one receive buffer m1‖m2‖sig1‖sig2, the arguments are sub-slices of it
		{
			b := newHB()
			b.add("n:0:%d:%s", 2*L+128+8, h.Hex(cat(m1, m2, s11, s12)))
			b.add("sl:1:0:0:%d", L)
			b.add("sl:2:0:%d:%d", L, 2*L)
			b.add("sl:3:0:%d:%d", 2*L, 2*L+64)
			b.add("sl:4:0:%d:%d", 2*L+64, 2*L+128)
			b.add("k:0:%s:sum", sk)
			b.add("v:0:1:3")
			b.add("v:0:2:4")
			b.add("v:0:1:4")
			b.add("v:0:2:3")
			b.add("p:0:0:%s", h.Hex(m2)) // the first message region now holds m2 as well
			b.add("v:0:1:3")
			b.add("v:0:1:4")
			b.add("p:0:%d:%s", L, h.Hex(m1)) // swapped
			b.add("v:0:2:3")
			b.add("v:0:2:4")
			b.add("p:0:%d:%s", 2*L, h.Hex(s12)) // both signature regions hold sig(m2)
			b.add("v:0:1:3")
			b.add("v:0:2:3")
			emit(b.line("subslices"))
		}

		// 3. append into the spare capacity of a shared backing array
		{
			t1, t2 := rng.Bytes(1+rng.Intn(6)), rng.Bytes(1+rng.Intn(6))
			for len(t2) != len(t1) || bytes.Equal(t1, t2) {
				t2 = rng.Bytes(len(t1))
			}
			b := newHB()
			b.add("n:0:%d:%s", L+16, h.Hex(m1))
			b.add("sl:1:0:0:%d", L)
			b.add("k:0:%s:mul", sk)
			b.add("n:2:64:%s", h.Hex(s11))
			b.add("v:0:1:2")
			b.add("a:0:%s", h.Hex(t1)) // buffer 0 = m1‖t1, buffer 1 still m1
			b.add("v:0:1:2")
			b.add("n:3:64:%s", h.Hex(b.sigFor(sk, 0)))
			b.add("v:0:0:3")
			b.add("a:1:%s", h.Hex(t2)) // written over t1 in the shared array: buffer 0 = m1‖t2 too
			b.add("v:0:0:3")
			b.add("v:0:1:3")
			b.add("w:3:%s", h.Hex(b.sigFor(sk, 1)))
			b.add("v:0:0:3")
			b.add("v:0:1:3")
			b.add("sl:4:1:0:%d", L+16) // re-sliced up to the capacity
			b.add("v:0:4:3")
			b.add("a:0:%s", h.Hex(rng.Bytes(24))) // does not fit: a new array, buffer 1 keeps the old one
			b.add("p:1:0:%s", h.Hex(m2))
			b.add("v:0:0:3")
			b.add("w:3:%s", h.Hex(b.sigFor(sk, 0)))
			b.add("v:0:0:3")
			b.add("v:0:1:3")
			emit(b.line("append-spare-cap"))
		}

		// 4. the same key object set again; key bytes in a reused buffer
		{
			b := newHB()
			b.add("n:0:%d:%s", L, h.Hex(m1))
			b.add("n:1:64:%s", h.Hex(s11))
			b.add("n:2:64:%s", h.Hex(bnref.Enc1(validSig(sk2, m1))))
			modes := []string{"mul", "sum", "unm", "set"}
			b.add("k:0:%s:%s", sk, modes[rng.Intn(4)])
			b.add("v:0:0:1")
			b.add("v:0:0:1") // the same (by now normalised?) object again
			b.add("v:0:0:2")
			b.add("k:0:%s:%s", sk2, modes[rng.Intn(4)])
			b.add("v:0:0:1")
			b.add("v:0:0:2")
			b.add("kb:0:5:%s", sk)
			b.add("v:0:0:1")
			b.add("kb:1:5:%s", sk2) // the key bytes buffer refilled in place: key object 0 must still be sk
			b.add("v:0:0:1")
			b.add("v:1:0:2")
			b.add("v:1:0:1")
			b.add("kb:0:5:0") // the identity key (1 byte)
			b.add("v:0:0:1")
			b.add("w:1:%s", h.Hex(make([]byte, 64)))
			b.add("v:0:0:1")
			// the identity key through every other accepted encoding / construction, into an object that held a key
			for _, im := range []string{"unz", "unj", "null", "sub"} {
				b.add("k:0:%s:%s", sk2, modes[rng.Intn(4)])
				b.add("k:0:0:%s", im)
				b.add("v:0:0:1") // the all-zero signature: accepted under the identity key
				b.add("v:0:0:2") // a real signature: rejected
			}
			b.add("k:0:%s:mul", rm1)
			b.add("v:0:0:1")
			b.add("w:1:%s", h.Hex(bnref.Enc1(validSig(rm1, m1))))
			b.add("v:0:0:1")
			emit(b.line("key-object-reuse"))
		}

		// 5. the signature buffer refilled in place with mutations
		{
			S := validSig(sk, m1)
			b := newHB()
			b.add("n:0:%d:%s", L, h.Hex(m1))
			b.add("k:0:%s:mul", sk)
			b.add("n:1:%d:%s", 64+8, h.Hex(s11))
			b.add("v:0:0:1")
			flip := append([]byte{}, s11...)
			flip[rng.Intn(64)] ^= 1 << uint(rng.Intn(8))
			for _, sg := range [][]byte{bnref.Enc1(bnref.Neg1(S)), s11, make([]byte, 64), s11[:63], s11, cat(s11, []byte{7, 7}), flip, s12, bnref.Enc1(randCurvePoint(rng)), s11} {
				b.add("w:1:%s", h.Hex(sg))
				b.add("v:0:0:1")
			}
			emit(b.line("sig-buffer-reuse"))
		}

		// 6. Sign from a refilled buffer with a scalar object that is set again; emitted signatures kept
		{
			big2 := new(big.Int).Add(sk2, bnref.Rn) // ≥ r, < 2^256: SetBytes reduces
			b := newHB()
			b.add("x:0:%s", sk)
			b.add("k:0:%s:mul", sk)
			b.add("k:1:%s:mul", sk2)
			b.add("n:0:%d:%s", L+8, h.Hex(m1))
			b.add("s:0:0:2")
			b.add("v:0:0:2")
			b.add("w:0:%s", h.Hex(m2))
			b.add("v:0:0:2")
			b.add("s:0:0:3")
			b.add("s:0:0")
			b.add("v:0:0:3")
			b.add("v:0:0:2")
			b.add("x:0:%s", big2)
			b.add("s:0:0:4")
			b.add("v:1:0:4")
			b.add("v:0:0:4")
			b.add("w:0:%s", h.Hex(m1[:L/2]))
			b.add("s:0:0:5")
			b.add("v:1:0:5")
			b.add("v:1:0:4")
			b.add("x:0:0")
			b.add("s:0:0") // the identity
			b.add("x:0:%s", new(big.Int).Sub(two256, big.NewInt(1)))
			b.add("s:0:0")
			b.add("x:0:%s", sk)
			b.add("w:0:%s", h.Hex(m1))
			b.add("s:0:0")
			b.add("v:0:0:2")
			emit(b.line("sign-refilled"))
		}

		// 7. tbls.Verify over reused key objects, message and share buffers refilled
		{
			c0, c1 := rk(), rk()
			i := rng.Intn(6)
			if rep%2 == 1 {
				i = 255 + rng.Intn(3)
			}
			member := func(idx int) *big.Int {
				v := new(big.Int).Mul(c1, big.NewInt(int64(idx+1)))
				return v.Add(v, c0).Mod(v, bnref.Rn)
			}
			shareOf := func(idx int, m []byte) []byte {
				return cat([]byte{byte(idx >> 8), byte(idx)}, bnref.Enc1(validSig(member(idx), m)))
			}
			b := newHB()
			b.add("k:0:%s:mul", c0)
			b.add("k:1:%s:sum", c1)
			b.add("n:0:%d:%s", L, h.Hex(m1))
			b.add("n:1:80:%s", h.Hex(shareOf(i, m1)))
			b.add("tv:0,1:0:1")
			b.add("tv:0,1:0:1")
			b.add("w:0:%s", h.Hex(m2))
			b.add("tv:0,1:0:1")
			b.add("w:1:%s", h.Hex(shareOf(i, m2)))
			b.add("tv:0,1:0:1")
			b.add("w:1:%s", h.Hex(shareOf(i+1, m2)))
			b.add("tv:0,1:0:1")
			b.add("p:1:0:%s", h.Hex([]byte{byte(i >> 8), byte(i)})) // member i+1's signature under index i
			b.add("tv:0,1:0:1")
			b.add("n:2:64:%s", h.Hex(bnref.Enc1(validSig(c0, m2))))
			b.add("v:0:0:2") // the group key object itself
			b.add("k:1:%s:mul", c0)
			b.add("tv:0,1:0:1")
			b.add("w:1:01")
			b.add("tv:0,1:0:1")
			emit(b.line("tbls-shared-keys"))
		}
	}

	// 7b. RE-FRAMING after an accepted triple (seeded C06f: a memo of accepted triples keyed by the unframed
	// concatenation pk‖msg‖sig; pointG1.UnmarshalBinary reads the first 64 bytes of a longer buffer): after an
	// ACCEPTED (key, msg, sig) every other split of the same byte string msg‖sig between the two arguments, and the
	// trailing-byte variants, must be judged on their own.  The honest message ends in the encoding T of a G1 point,
	// so that the re-split (m0, T‖S) PARSES (to T, which is not the signature on m0).
	genResplit(thorough, rng, emit, rk)

	// 8. random walks over a small pool: two message buffers (one possibly an alias of the other), one
	// signature buffer, two key objects, one scalar object
	nw := 10
	if thorough {
		nw = 120
	}
	for wk := 0; wk < nw; wk++ {
		L := 1 + rng.Intn(24)
		pool := [][]byte{rng.Bytes(L), rng.Bytes(L), rng.Bytes(L + 1 + rng.Intn(4)), rng.Bytes(1 + rng.Intn(L))}
		ksk := []*big.Int{rk(), rk()}
		if wk%5 == 4 {
			ksk[1] = big.NewInt(0)
		}
		b := newHB()
		b.add("n:0:%d:%s", L+8, h.Hex(pool[0]))
		if wk%2 == 0 {
			b.add("n:1:%d:%s", L+8, h.Hex(pool[1]))
		} else {
			b.add("sl:1:0:0:%d", L)
		}
		b.add("k:0:%s:mul", ksk[0])
		b.add("k:1:%s:sum", ksk[1])
		b.add("x:0:%s", ksk[0])
		xsk := ksk[0]
		b.add("n:2:64:%s", h.Hex(b.sigFor(ksk[0], 0)))
		prev := map[int][]byte{0: pool[0], 1: b.bufs[1]}
		calls := 0
		for calls < 10 {
			mb := rng.Intn(2)
			switch rng.Intn(10) {
			case 0, 1, 2:
				prev[mb] = append([]byte{}, b.bufs[mb]...)
				b.add("w:%d:%s", mb, h.Hex(pool[rng.Intn(len(pool))]))
			case 3:
				if len(b.bufs[mb]) > 0 {
					prev[mb] = append([]byte{}, b.bufs[mb]...)
					b.add("p:%d:%d:%s", mb, rng.Intn(len(b.bufs[mb])), h.Hex([]byte{byte(rng.Intn(256))}))
				}
			case 4:
				ki := rng.Intn(2)
				if rng.Bool() {
					ksk[ki] = rk()
				}
				b.add("k:%d:%s:%s", ki, ksk[ki], []string{"mul", "sum", "unm", "set"}[rng.Intn(4)])
			case 5:
				xsk = ksk[rng.Intn(2)]
				b.add("x:0:%s", xsk)
			case 6:
				b.add("s:0:%d:2", mb) // the emitted signature becomes the signature buffer
				calls++
			default:
				ki := rng.Intn(2)
				var sg []byte
				switch rng.Intn(8) {
				case 0, 1, 2:
					sg = b.sigFor(ksk[ki], mb)
				case 3, 4:
					sg = bnref.Enc1(validSig(ksk[ki], prev[mb])) // signature of what the buffer held before
				case 5:
					sg = b.sigFor(ksk[1-ki], mb)
				case 6:
					sg = nil // keep what the signature buffer holds
				default:
					sg = bnref.Enc1(bnref.Neg1(validSig(ksk[ki], b.bufs[mb])))
				}
				if sg != nil {
					b.add("w:2:%s", h.Hex(sg))
				}
				b.add("v:%d:%d:2", ki, mb)
				calls++
			}
		}
		emit(b.line("random-walk"))
	}

	// 9. concurrent calls on different values
	np := 3
	if thorough {
		np = 12
	}
	for i := 0; i < np; i++ {
		var cs []string
		for g := 0; g < 8; g++ {
			sk := rk()
			m := rng.Bytes(1 + rng.Intn(40))
			if i == 1 { // messages one bit apart
				m = []byte{byte(g), 0x55, 0xaa}
			}
			switch g % 4 {
			case 0:
				cs = append(cs, fmt.Sprintf("s:%s:%s", sk, h.Hex(m)))
			case 3:
				cs = append(cs, fmt.Sprintf("v:%s:%s:%s", sk, h.Hex(m), h.Hex(bnref.Enc1(validSig(sk, append([]byte{9}, m...))))))
			default:
				cs = append(cs, fmt.Sprintf("v:%s:%s:%s", sk, h.Hex(m), h.Hex(bnref.Enc1(validSig(sk, m)))))
			}
		}
		rounds := 30
		if thorough {
			rounds = 100
		}
		emit(fmt.Sprintf("par %d %s", rounds, strings.Join(cs, "/")))
	}
}

// genResplit: see 7b in genHistories
func genResplit(thorough bool, rng *h.Rng, emit func(string), rk func() *big.Int) {
	reps := 3
	if thorough {
		reps = 20
	}
	for rep := 0; rep < reps; rep++ {
		sk := rk()
		L := 1 + rng.Intn(24)
		m0 := rng.Bytes(L)
		var T []byte
		switch rep % 3 {
		case 0:
			T = bnref.Enc1(randCurvePoint(rng)) // an arbitrary point of the curve
		case 1:
			T = bnref.Enc1(validSig(rk(), m0)) // another key's signature on m0
		default:
			T = make([]byte, 64) // the identity's encoding
		}
		msg := cat(m0, T)
		S := bnref.Enc1(validSig(sk, msg))
		tot := L + 128
		// (a) ONE backing array holds msg‖S (a receive buffer); the arguments are sub-slices of it
		{
			b := newHB()
			b.add("k:0:%s:%s", sk, []string{"mul", "sum", "unm"}[rng.Intn(3)])
			b.add("n:0:%d:%s", tot+8, h.Hex(cat(msg, S)))
			b.add("sl:1:0:0:%d", L)       // m0
			b.add("sl:2:0:%d:%d", L, tot) // T‖S
			b.add("v:0:1:2")              // the forgery BEFORE the honest call
			b.add("sl:3:0:0:%d", L+64)    // m0‖T
			b.add("sl:4:0:%d:%d", L+64, tot)
			b.add("v:0:3:4") // the honest triple: accepted
			b.add("v:0:1:2") // the same bytes, split 64 bytes earlier
			b.add("v:0:3:4")
			// every other split point of msg‖S that leaves at least 64 bytes for the signature, and a few that do not
			js := []int{0, 1, L - 1, L + 1, L + 32, L + 63, L + 65, L + 96, L + 127, tot}
			for i := 0; i < 4; i++ {
				js = append(js, rng.Intn(tot+1))
			}
			id := 10
			for _, j := range js {
				if j < 0 || j > tot || j == L || j == L+64 {
					continue
				}
				b.add("sl:%d:0:0:%d", id, j)
				b.add("sl:%d:0:%d:%d", id+1, j, tot)
				b.add("v:0:%d:%d", id, id+1)
				id += 2
			}
			// trailing-byte variants of the accepted triple (spare capacity of the same array)
			b.add("sl:%d:0:%d:%d", id, L+64, tot+3) // S‖3 more bytes: parses to S, accepted
			b.add("v:0:3:%d", id)
			b.add("sl:%d:0:0:%d", id+1, L+65) // message one byte longer (first byte of S)
			b.add("sl:%d:0:%d:%d", id+2, L+65, tot+1)
			b.add("v:0:%d:%d", id+1, id+2)
			emit(b.line("resplit-one-array"))
		}
		// (b) fresh buffers for every call (no aliasing): only the VALUES coincide
		{
			b := newHB()
			b.add("k:0:%s:mul", sk)
			b.add("n:1:0:%s", h.Hex(msg))
			b.add("n:2:0:%s", h.Hex(S))
			b.add("v:0:1:2") // accepted
			b.add("n:3:0:%s", h.Hex(m0))
			b.add("n:4:0:%s", h.Hex(cat(T, S)))
			b.add("v:0:3:4") // m0 with T‖S: T is not the signature on m0
			b.add("n:5:0:%s", h.Hex(cat(S, T)))
			b.add("v:0:1:5") // S‖T on the honest message: accepted (trailing bytes)
			b.add("n:6:0:%s", h.Hex(cat(msg, S[:1])))
			b.add("n:7:0:%s", h.Hex(cat(S[1:], []byte{0})))
			b.add("v:0:6:7")
			b.add("n:8:0:%s", h.Hex(m0[:L-1]))
			b.add("n:9:0:%s", h.Hex(cat(m0[L-1:], T, S)))
			b.add("v:0:8:9")
			// the same key object set again to the same key, then the re-split once more
			b.add("k:0:%s:unm", sk)
			b.add("v:0:3:4")
			// another key object with the same key
			b.add("k:1:%s:sum", sk)
			b.add("v:1:3:4")
			b.add("v:1:1:2")
			emit(b.line("resplit-fresh"))
		}
		// (c) through tbls.Verify (index‖signature) and back: an accepted share, then the re-split through bls.Verify
		// under the member key and through tbls.Verify again
		{
			c0, c1 := rk(), rk()
			i := rng.Intn(5)
			v := new(big.Int).Mul(c1, big.NewInt(int64(i+1)))
			member := v.Add(v, c0).Mod(v, bnref.Rn)
			Si := bnref.Enc1(validSig(member, msg))
			idx := []byte{byte(i >> 8), byte(i)}
			b := newHB()
			b.add("k:0:%s:mul", c0)
			b.add("k:1:%s:mul", c1)
			b.add("k:2:%s:mul", member)
			b.add("n:1:0:%s", h.Hex(msg))
			b.add("n:2:0:%s", h.Hex(cat(idx, Si)))
			b.add("tv:0,1:1:2") // accepted
			b.add("n:3:0:%s", h.Hex(m0))
			b.add("n:4:0:%s", h.Hex(cat(idx, T, Si)))
			b.add("tv:0,1:3:4") // index ‖ T ‖ S on m0
			b.add("n:5:0:%s", h.Hex(cat(T, Si)))
			b.add("v:2:3:5") // the member key directly
			b.add("n:6:0:%s", h.Hex(Si))
			b.add("v:2:1:6") // the honest pair under the member key: accepted
			b.add("v:2:3:5")
			b.add("tv:0,1:3:4")
			emit(b.line("resplit-tbls"))
		}
	}
}

/-
C20 (round 5) — HISTORY semantics for `sign/schnorr` over the bundled Ed25519 suite: sequences of `schnorr.Sign` /
`schnorr.Verify` calls in ONE process on SHARED, MUTABLE caller objects — one private `kyber.Scalar` object whose value
is changed in place between calls (`x.Add(x, one)`, `x.Pick(rnd)`, `x.SetBytes(b)`, `x.Set(y)`), one public `kyber.Point`
object that is recomputed in place, message / signature buffers that are overwritten in place.

The model of the code as it is has NO hidden state: every call's outcome is the one-shot function (`Schnorr.sign`,
`Schnorr.verify`) of the VALUES its arguments hold at call time (`pureImpl`).  The semantics `runWith` is written for
an arbitrary implementation with hidden state `σ` that is even handed the caller's memory at every call (so it may look
again at an object it remembered), so that "the model is pointwise" (`Props/C20Hist.lean` `sign_is_pointwise`,
`no_hidden_state`) says something: the seeded "last key" cache, which keeps the caller's scalar OBJECT (not a clone)
with its public point, is expressible (`cacheImpl`) and is NOT pointwise.

Objects are named by numbers; two uses of one number are two uses of one Go object.  The correspondence run executes
the same step lists on the real code with real kyber objects and Go slices (`go/props/c20/hist.go`) and compares every
outcome with `runHist` on the driver's group and with crypto/ed25519.  Core Lean only.
-/
import DosModel.Model.Schnorr

namespace Dos.SchnorrHist
open Dos Dos.Ed25519 Dos.Schnorr

/-- the caller's memory: scalar objects (the natural number their 32 bytes spell, as `point.Mul` and `scMul` read
them), point objects, byte buffers -/
structure Store (G : Type) where
  scalars : List (Nat × Nat) := []
  points : List (Nat × G) := []
  bufs : List (Nat × Bytes) := []

/-- mutations the CALLER performs between calls, on objects that calls may have seen before -/
inductive Mut (G : Type) where
  /-- scalar object `i` now holds the 32 bytes spelling `v` (`UnmarshalBinary`, `SetBytes`, `Pick`, `SetInt64`,
  `Zero`, `One`: the harness knows the value; a fresh object when `i` is new) -/
  | scSet (i v : Nat)
  /-- `s_i.Add(s_a, s_b)` — `i` may be `a` or `b`: the in-place change `x.Add(x, one)` -/
  | scAdd (i a b : Nat)
  | scSub (i a b : Nat)
  | scMul (i a b : Nat)
  /-- `s_i.Neg(s_a)` -/
  | scNeg (i a : Nat)
  /-- `s_i.Set(s_a)` (in place) or `s_i = s_a.Clone()` (a new object): the same VALUE either way -/
  | scCopy (i a : Nat)
  /-- point object `i` is set to the point `P` (`UnmarshalBinary` of an accepted encoding, `Base`, `Null`) -/
  | ptSet (i : Nat) (P : G)
  /-- `P_i.Mul(s_s, nil)` — recomputing a public key object in place -/
  | ptMulBase (i s : Nat)
  /-- `P_i.Mul(s_s, P_a)` -/
  | ptMul (i s a : Nat)
  /-- `P_i.Add(P_a, P_b)` -/
  | ptAdd (i a b : Nat)
  /-- `P_i.Set(P_a)` / `Clone` -/
  | ptCopy (i a : Nat)
  /-- buffer `i` is refilled: `b = b[:n]; copy(b, bytes)` in place when the capacity suffices -/
  | bufWrite (i : Nat) (bytes : Bytes)
  /-- `copy(b[off:], bytes)`, clipped to `len(b)` -/
  | bufPoke (i off : Nat) (bytes : Bytes)

def Store.setScalar {G : Type} (st : Store G) (i v : Nat) : Store G := { st with scalars := (i, v) :: st.scalars }
def Store.setPoint {G : Type} (st : Store G) (i : Nat) (P : G) : Store G := { st with points := (i, P) :: st.points }
def Store.setBuf {G : Type} (st : Store G) (i : Nat) (b : Bytes) : Store G := { st with bufs := (i, b) :: st.bufs }

/-- `copy(a[off:], bs)` clipped to `len a` -/
def overwrite (a : Bytes) (off : Nat) (bs : Bytes) : Bytes :=
  a.take off ++ bs.take (a.length - off) ++ a.drop (off + (bs.take (a.length - off)).length)

/-- the value a mutation leaves; a mutation naming an object that does not exist changes nothing.  Scalar results are
reduced modulo ℓ (Props/C20Ranges.lean: scAdd/scSub/scMul return the canonical value for ALL 32-byte operands). -/
def Store.apply {G : Type} (g : Grp G) (st : Store G) : Mut G → Store G
  | .scSet i v => st.setScalar i v
  | .scAdd i a b =>
    match st.scalars.lookup a, st.scalars.lookup b with
    | some x, some y => st.setScalar i ((x + y) % ell)
    | _, _ => st
  | .scSub i a b =>
    match st.scalars.lookup a, st.scalars.lookup b with
    | some x, some y => st.setScalar i ((x % ell + (ell - y % ell)) % ell)
    | _, _ => st
  | .scMul i a b =>
    match st.scalars.lookup a, st.scalars.lookup b with
    | some x, some y => st.setScalar i (x * y % ell)
    | _, _ => st
  | .scNeg i a =>
    match st.scalars.lookup a with
    | some x => st.setScalar i ((ell - x % ell) % ell)
    | none => st
  | .scCopy i a =>
    match st.scalars.lookup a with
    | some x => st.setScalar i x
    | none => st
  | .ptSet i P => st.setPoint i P
  | .ptMulBase i s =>
    match st.scalars.lookup s with
    | some x => st.setPoint i (g.smul x g.base)
    | none => st
  | .ptMul i s a =>
    match st.scalars.lookup s, st.points.lookup a with
    | some x, some P => st.setPoint i (g.smul x P)
    | _, _ => st
  | .ptAdd i a b =>
    match st.points.lookup a, st.points.lookup b with
    | some P, some Q => st.setPoint i (g.add P Q)
    | _, _ => st
  | .ptCopy i a =>
    match st.points.lookup a with
    | some P => st.setPoint i P
    | none => st
  | .bufWrite i bytes => st.setBuf i bytes
  | .bufPoke i off bytes =>
    match st.bufs.lookup i with
    | some b => st.setBuf i (overwrite b off bytes)
    | none => st

/-- a call names the caller's objects; the nonce `k` is what the suite's random stream yields at this call -/
inductive Call where
  /-- `schnorr.Sign(suite, scalar x, buf m)` -/
  | sign (x m k : Nat)
  /-- `schnorr.Verify(suite, point p, buf m, buf s)` -/
  | verify (p m s : Nat)
  deriving DecidableEq, Repr

/-- the VALUES a call's arguments hold at call time -/
inductive Args (G : Type) where
  | sign (x k : Nat) (msg : Bytes)
  | verify (A : G) (msg sig : Bytes)

inductive Outcome where
  | signature (s : Bytes)
  /-- `none`: accepted (`Verify` returned nil) -/
  | verdict (e : Option VErr)
  /-- the call names an object that was never made (malformed case line) -/
  | badRef
  deriving DecidableEq, Repr

def Store.resolve {G : Type} (st : Store G) : Call → Option (Args G)
  | .sign x m k =>
    match st.scalars.lookup x, st.bufs.lookup m with
    | some v, some msg => some (.sign v k msg)
    | _, _ => none
  | .verify p m s =>
    match st.points.lookup p, st.bufs.lookup m, st.bufs.lookup s with
    | some A, some msg, some sig => some (.verify A msg sig)
    | _, _, _ => none

def verdictOf : Except VErr Unit → Option VErr
  | .ok _ => none
  | .error e => some e

/-- **the one-shot functions**: what a call computes from the values of its arguments -/
def oneShot {G : Type} (g : Grp G) (H : Bytes → Bytes) : Args G → Outcome
  | .sign x k msg => .signature (sign g H x k msg)
  | .verify A msg sig => .verdict (verdictOf (verify g H A msg sig))

def outcomeOf {G : Type} (g : Grp G) (H : Bytes → Bytes) : Option (Args G) → Outcome
  | none => .badRef
  | some a => oneShot g H a

def evalCall {G : Type} (g : Grp G) (H : Bytes → Bytes) (st : Store G) (c : Call) : Outcome :=
  outcomeOf g H (st.resolve c)

/-- an implementation with hidden state `σ`; it is handed the caller's memory at every call (so it may read what
an object it remembered holds NOW) -/
structure Impl (σ G : Type) where
  call : σ → Store G → Call → Outcome × σ

inductive Step (G : Type) where
  | upd (m : Mut G)
  /-- a call; `dst`: the caller copies the emitted signature into buffer `dst` (in place) -/
  | call (c : Call) (dst : Option Nat)

/-- the caller stores an emitted signature -/
def capture {G : Type} (st : Store G) : Outcome → Option Nat → Store G
  | .signature s, some b => st.setBuf b s
  | _, _ => st

/-- run a history against an implementation with hidden state -/
def runWith {σ G : Type} (g : Grp G) (I : Impl σ G) : σ → Store G → List (Step G) → List Outcome
  | _, _, [] => []
  | s, st, .upd m :: rest => runWith g I s (st.apply g m) rest
  | s, st, .call c dst :: rest =>
    let r := I.call s st c
    r.1 :: runWith g I r.2 (capture st r.1 dst) rest

/-- the model of the code as it is: no state -/
def pureImpl {G : Type} (g : Grp G) (H : Bytes → Bytes) : Impl Unit G := ⟨fun _ st c => (evalCall g H st c, ())⟩

/-- **the model of a history** -/
def runHist {G : Type} (g : Grp G) (H : Bytes → Bytes) (st : Store G) (steps : List (Step G)) : List Outcome :=
  runWith g (pureImpl g H) () st steps

/-- the caller's memory after a history (signatures captured with the one-shot functions) -/
def storeAfter {G : Type} (g : Grp G) (H : Bytes → Bytes) : Store G → List (Step G) → Store G
  | st, [] => st
  | st, .upd m :: rest => storeAfter g H (st.apply g m) rest
  | st, .call c dst :: rest => storeAfter g H (capture st (evalCall g H st c) dst) rest

/-- the argument VALUES of every call of a history, in order -/
def argsAt {G : Type} (g : Grp G) (H : Bytes → Bytes) : Store G → List (Step G) → List (Option (Args G))
  | _, [] => []
  | st, .upd m :: rest => argsAt g H (st.apply g m) rest
  | st, .call c dst :: rest => st.resolve c :: argsAt g H (capture st (evalCall g H st c) dst) rest

/-! ### the seeded "last key" cache -/

/-- `Sign` with the public point handed in (what the seeded `publicOf` returns) -/
def signWith {G : Type} (g : Grp G) (H : Bytes → Bytes) (A : G) (x k : Nat) (msg : Bytes) : Bytes :=
  let R := g.smul k g.base
  let h := challenge g H A R msg
  g.enc R ++ natLE 32 ((k + x * h % ell) % ell)

/-- the seeded change: `lastKey` keeps the caller's scalar OBJECT `j` and the public point computed from the value it
had then; a later `Sign` reuses the point when `lastKey.private.Equal(private)` — the comparison reads the remembered
object's PRESENT value, so the same object compared with itself always hits -/
def cacheImpl {G : Type} (g : Grp G) (H : Bytes → Bytes) : Impl (Option (Nat × G)) G :=
  ⟨fun s st c =>
    match c with
    | .sign x m k =>
      match st.scalars.lookup x, st.bufs.lookup m with
      | some v, some msg =>
        let hit : Option G :=
          match s with
          | some (j, A) => if st.scalars.lookup j = some v then some A else none
          | none => none
        match hit with
        | some A => (.signature (signWith g H A v k msg), s)
        | none => (.signature (signWith g H (g.smul v g.base) v k msg), some (x, g.smul v g.base))
      | _, _ => (.badRef, s)
    | c => (evalCall g H st c, s)⟩

/-- a small decidable group record for the non-vacuity examples: Z/ℓ written additively, B = 1, 32-byte encodings -/
def toyGrp : Grp Nat :=
  { add := fun a b => (a + b) % ell
    smul := fun n a => n * a % ell
    base := 1
    enc := fun a => natLE 32 a
    dec := fun b => if b.length = 32 then some (leNat b % ell) else none }

/-- a toy hash that reads every byte: a polynomial checksum, eight bytes -/
def toyH (b : Bytes) : Bytes := natLE 8 (b.foldl (fun acc x => (acc * 257 + x.toNat + 1) % 2 ^ 61) 7)

/-- the key holder's signature over a commitment shifted by a point T (seeded C20g-1: T a torsion point):
R′ = k•B + T, h′ = H(R′‖A‖m), S = k + h′·x -/
def shiftedSign {G : Type} (g : Grp G) (H : Bytes → Bytes) (x k : Nat) (T : G) (msg : Bytes) : Bytes :=
  let R := g.add (g.smul k g.base) T
  g.enc R ++ natLE 32 ((k + x * challenge g H (g.smul x g.base) R msg % ell) % ell)

end Dos.SchnorrHist

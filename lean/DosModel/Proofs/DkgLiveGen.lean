/-
Liveness of honest key generation, first stage: from the genuine public keys of all other members
(in any order) `exchangePub`/`genDistKeyGenerator` build the generator over the honest participant
list, and `Deals()` leaves it in the honest state with only the own slot, sending genuine deals.
-/
import DosModel.Proofs.DkgLiveBatch

set_option linter.unusedSectionVars false

namespace Dos.Dkg
open Dos Dos.Vss

variable {F G : Type} [Field F] [AddCommGroup G] [Module F G] [DecidableEq F] [DecidableEq G]

/-- member `j`'s genuine public-key message -/
def Cfg.pkMsg (c : Cfg F G) (j : Nat) : PkMsg G := ⟨j, some ((c.longs.getD j 0) • c.g), j⟩

theorem mapM_id_map_some {α : Type} (l : List α) : ((l.map some).mapM id : Option (List α)) = some l := by
  induction l with
  | nil => rfl
  | cons a l ih => simp [List.mapM_cons, ih]

/-- `place` writes every key at its index -/
theorem place_spec (n : Nat) (key : Nat → G) (hinj : ∀ a b, a < n → b < n → key a = key b → a = b) :
    ∀ (ms : List (PkMsg G)) (acc : List (Option G)),
    acc.length = n → (∀ m ∈ ms, m.index < n ∧ m.key = some (key m.index) ∧ m.sender = m.index) → (ms.map (·.index)).Nodup →
    (∀ m ∈ ms, (acc[m.index]?).join = none) →
    (∀ m ∈ ms, ∀ k : Nat, acc[k]? = some (some (key m.index)) → False) →
    ∃ acc', buildGen.place n ms acc = some acc' ∧ acc'.length = n ∧
      ∀ k, acc'[k]? = if k ∈ ms.map (·.index) then some (some (key k)) else acc[k]? := by
  intro ms
  induction ms with
  | nil => intro acc hl _ _ _ _; exact ⟨acc, by simp [buildGen.place], hl, by simp⟩
  | cons m ms ih =>
    intro acc hl hm hnd hfree hfresh
    obtain ⟨hlt, hkey, hsender⟩ := hm m (by simp)
    simp only [List.map_cons, List.nodup_cons] at hnd
    have hfm := hfree m (by simp)
    have hnex : ∀ x ∈ ms, m.index ≠ x.index := by
      intro x hx he; exact hnd.1 (by rw [he]; exact List.mem_map.2 ⟨x, hx, rfl⟩)
    obtain ⟨acc', h1, h2, h3⟩ := ih (acc.set m.index (some (key m.index))) (by simp [hl])
      (fun x hx => hm x (by simp [hx])) hnd.2 (by
        intro x hx
        rw [List.getElem?_set_ne (hnex x hx)]
        exact hfree x (by simp [hx])) (by
        intro x hx k hk
        rw [List.getElem?_set] at hk
        by_cases hmk : m.index = k
        · simp only [hmk, if_true] at hk
          rw [if_pos (by omega)] at hk
          injection hk with hk; injection hk with hk
          exact hnex x hx (hinj _ _ hlt (hm x (by simp [hx])).1 (by rw [hmk]; exact hk))
        · simp only [hmk, if_false] at hk
          exact hfresh x (by simp [hx]) k hk)
    refine ⟨acc', ?_, h2, ?_⟩
    · rw [buildGen.place]
      simp only [hkey]
      have : ¬ (m.index ≥ n) := by omega
      have hnc : acc.contains (some (key m.index)) = false := by
        rcases hc : acc.contains (some (key m.index)) with _ | _
        · rfl
        · obtain ⟨k, hk⟩ := List.mem_iff_getElem?.1 (List.contains_iff_mem.1 hc)
          exact absurd hk (fun h => hfresh m (by simp) k h)
      simp only [this, if_false, hfm, Option.isSome_none, Bool.false_eq_true, hsender, ne_eq, not_true_eq_false, hnc]
      exact h1
    · intro k
      rw [h3 k]
      simp only [List.map_cons, List.mem_cons]
      by_cases hk : k ∈ ms.map (·.index)
      · simp [hk]
      · simp only [hk, if_false, or_false]
        by_cases hkm : k = m.index
        · subst hkm; simp [hl, hlt]
        · rw [List.getElem?_set_ne (Ne.symm hkm)]; simp [hkm]

/-- **the generator is built over the honest participant list** from the own key and the genuine keys
of all other members, in any order -/
theorem buildGen_genuine (c : Cfg F G) (ephs : List (List F)) (hw : WellFormed c ephs) (i : Nat) (hi : i < c.n)
    (batch : List (PkMsg G)) (hb : ∀ m ∈ batch, m.index < c.n ∧ m.index ≠ i ∧ m = c.pkMsg m.index)
    (hnd : (batch.map (·.index)).Nodup) (hall : ∀ j, j < c.n → j ≠ i → j ∈ batch.map (·.index)) :
    ∃ d, buildGen c.g c.n (c.longs.getD i 0) (c.polys.getD i []) (c.pkMsg i) batch = some d ∧
      newGen c.g (c.longs.getD i 0) c.pubs (c.polys.getD i []) = .ok d := by
  have hplace := place_spec c.n (fun j => (c.longs.getD j 0) • c.g) (by
      intro a b ha hb' he
      have h1 := c.pubs_get a ha
      have h2 := c.pubs_get b hb'
      have halt : a < c.pubs.length := by rw [c.pubs_length]; exact ha
      have hblt : b < c.pubs.length := by rw [c.pubs_length]; exact hb'
      rw [List.getElem?_eq_getElem halt] at h1
      rw [List.getElem?_eq_getElem hblt] at h2
      injection h1 with e1; injection h2 with e2
      exact hw.nodup.getElem_inj_iff.1 (by rw [e1, e2]; exact he))
    (c.pkMsg i :: batch) (List.replicate c.n none)
    (by simp) (by
      intro m hm
      rcases List.mem_cons.1 hm with hm | hm
      · subst hm; exact ⟨hi, rfl, rfl⟩
      · obtain ⟨h1, _, h3⟩ := hb m hm; exact ⟨h1, by rw [h3]; rfl, by rw [h3]; rfl⟩)
    (by
      simp only [List.map_cons, List.nodup_cons]
      refine ⟨?_, hnd⟩
      intro hin
      obtain ⟨x, hx, hxe⟩ := List.mem_map.1 hin
      exact (hb x hx).2.1 hxe)
    (by intro m _; by_cases h : m.index < c.n <;> simp [h])
    (by intro m _ k hk; by_cases h : k < c.n <;> simp [h] at hk)
  obtain ⟨slots, hp, hlen, hget⟩ := hplace
  have hslots : slots = c.pubs.map some := by
    apply List.ext_getElem?
    intro k
    rw [hget k]
    by_cases hk : k < c.n
    · have hin : k ∈ (c.pkMsg i :: batch).map (·.index) := by
        simp only [List.map_cons, List.mem_cons]
        by_cases hki : k = i
        · left; rw [hki]; rfl
        · right; exact hall k hk hki
      simp only [hin, if_true, List.getElem?_map, c.pubs_get k hk, Option.map_some]
    · have hnin : k ∉ (c.pkMsg i :: batch).map (·.index) := by
        intro hin
        simp only [List.map_cons, List.mem_cons] at hin
        rcases hin with hin | hin
        · have : k = i := hin; omega
        · obtain ⟨x, hx, hxe⟩ := List.mem_map.1 hin
          have := (hb x hx).1; omega
      have hkp : c.pubs.length ≤ k := by rw [c.pubs_length]; omega
      rw [if_neg hnin, List.getElem?_eq_none (by simp; omega), List.getElem?_eq_none (by simp [c.pubs_length]; omega)]
  -- `newGen` on the honest list
  have hfind : findIndex ((c.longs.getD i 0) • c.g) c.pubs 0 = some i := by
    have hex : ∀ (l : List G) (k : Nat), (c.longs.getD i 0) • c.g ∈ l → ∃ x, findIndex ((c.longs.getD i 0) • c.g) l k = some x := by
      intro l
      induction l with
      | nil => intro k h; cases h
      | cons p ps ih =>
        intro k h
        unfold findIndex
        by_cases hp : p = (c.longs.getD i 0) • c.g
        · exact ⟨k, by simp [hp]⟩
        · simp only [hp, if_false]
          rcases List.mem_cons.1 h with h | h
          · exact absurd h.symm hp
          · exact ih (k + 1) h
    have hmem : (c.longs.getD i 0) • c.g ∈ c.pubs := List.mem_of_getElem? (c.pubs_get i hi)
    obtain ⟨x, hx⟩ := hex c.pubs 0 hmem
    have hxg := findIndex_get _ c.pubs 0 x hx
    have hxlt := (findIndex_lt _ c.pubs 0 x hx).2
    simp only [Nat.sub_zero, Nat.zero_add] at hxg hxlt
    have h2 := c.pubs_get i hi
    have hilt : i < c.pubs.length := by rw [c.pubs_length]; exact hi
    rw [List.getElem?_eq_getElem hxlt] at hxg
    rw [List.getElem?_eq_getElem hilt] at h2
    injection hxg with e1; injection h2 with e2
    have : x = i := hw.nodup.getElem_inj_iff.1 (by rw [e1, e2])
    rw [hx, this]
  have hfl : (c.polys.getD i []).length = c.t := by
    have hj' : i < c.polys.length := by rw [hw.polys_len]; exact hi
    have : c.polys.getD i [] = c.polys[i] := by simp [List.getD_eq_getElem?_getD, List.getElem?_eq_getElem hj']
    rw [this]; exact hw.poly_len _ (List.getElem_mem hj')
  have hvt : validT (c.polys.getD i []).length c.pubs.length = true := by rw [hfl]; exact validT_t c hw.three
  have hng : ∃ d, newGen c.g (c.longs.getD i 0) c.pubs (c.polys.getD i []) = .ok d := by
    simp only [newGen, hfind, newDealer, hvt, Bool.true_eq_false, if_false]
    exact ⟨_, rfl⟩
  obtain ⟨d, hd⟩ := hng
  refine ⟨d, ?_, hd⟩
  simp only [buildGen, hp, hslots, mapM_id_map_some, hd]

theorem sealDeal_some (g : G) (long : F) (L : List G) (i : Nat) (hi : i < L.length) (eph : F) (rnd : Nat)
    (pt : Plain F G) : ∃ e, sealDeal g long L i eph rnd pt = some e := by
  simp [sealDeal, List.getElem?_eq_getElem hi]

/-- the deal message `Deals()` produces for member `tgt` -/
def Cfg.dealMsg (c : Cfg F G) (ephs : List (List F)) (j tgt : Nat) : DkgDeal F G :=
  ⟨j, sealDeal c.g (c.longs.getD j 0) c.pubs tgt ((ephs.getD j []).getD tgt 0) 0 (.deal (c.deal j tgt))⟩

/-- **`Deals()` of an honest member**: the own deal is approved, the generator is in the honest state
with only the own slot, and the deals for the others are the genuine ones -/
theorem deals_genuine (c : Cfg F G) (ephs : List (List F)) (hw : WellFormed c ephs) (i : Nat) (hi : i < c.n)
    (d0 : Gen F G) (hng : newGen c.g (c.longs.getD i 0) c.pubs (c.polys.getD i []) = .ok d0) :
    ∃ d1, deals c.g d0 (ephs.getD i []) = .ok (d1, (List.range c.n).filterMap (fun tgt =>
        if tgt = i then none else some (tgt, c.dealMsg ephs i tgt))) ∧
      HState c i (DOf i []) (ROf i []) (RDOf i []) d1 := by
  have hfl : (c.polys.getD i []).length = c.t := by
    have hj' : i < c.polys.length := by rw [hw.polys_len]; exact hi
    have : c.polys.getD i [] = c.polys[i] := by simp [List.getD_eq_getElem?_getD, List.getElem?_eq_getElem hj']
    rw [this]; exact hw.poly_len _ (List.getElem_mem hj')
  have hel : (ephs.getD i []).length = c.n := by
    have hj' : i < ephs.length := by rw [hw.ephs_len]; exact hi
    have : ephs.getD i [] = ephs[i] := by simp [List.getD_eq_getElem?_getD, List.getElem?_eq_getElem hj']
    rw [this]; exact (hw.eph_len _ (List.getElem_mem hj')).1
  obtain ⟨h0, hempty, hp, hl, _⟩ := newGen_good0 hng
  -- the fields of the fresh generator
  have hfields : d0.index = i ∧ d0.verifiers.length = c.n ∧ d0.dealer.long = c.longs.getD i 0 ∧ d0.dealer.vs = c.pubs ∧
      d0.dealer.deals = (List.range c.pubs.length).map (fun k => honestDeal c.g (c.longs.getD i 0) c.pubs (c.polys.getD i []) k) ∧
      d0.dealer.agg = newAgg ((c.longs.getD i 0) • c.g) c.pubs (commit c.g (c.polys.getD i [])) (c.polys.getD i []).length
        (.h ((c.longs.getD i 0) • c.g) c.pubs (commit c.g (c.polys.getD i [])) (c.polys.getD i []).length) := by
    unfold newGen at hng
    split at hng
    · cases hng
    · rename_i idx hf
      split at hng
      · cases hng
      · rename_i dl hnd'
        injection hng with hng; subst hng
        unfold newDealer at hnd'
        simp only at hnd'
        split at hnd'
        · cases hnd'
        · injection hnd' with hnd'; subst hnd'
          refine ⟨?_, by simp [c.pubs_length], rfl, rfl, rfl, rfl⟩
          -- the index found is `i` (keys are pairwise distinct)
          have hxg := findIndex_get _ c.pubs 0 idx hf
          have hxlt := (findIndex_lt _ c.pubs 0 idx hf).2
          simp only [Nat.sub_zero, Nat.zero_add] at hxg hxlt
          have h2 := c.pubs_get i hi
          have hilt : i < c.pubs.length := by rw [c.pubs_length]; exact hi
          rw [List.getElem?_eq_getElem hxlt] at hxg
          rw [List.getElem?_eq_getElem hilt] at h2
          injection hxg with e1; injection h2 with e2
          exact hw.nodup.getElem_inj_iff.1 (by rw [e1, e2])
  obtain ⟨hidx, hvlen, hdlong, hdvs, hddeals, hdagg⟩ := hfields
  have hst0 : HState c i (fun _ => False) (fun _ _ => False) (fun _ => False) d0 := by
    refine ⟨hp, hidx, hl, hvlen, by rw [← hidx]; exact h0.idx, fun j hj => absurd hj id, fun j _ => hempty j, ?_, ?_⟩
    · rw [hdagg]
      refine ⟨rfl, by simp only [newAgg, Cfg.sid, hfl], by simp only [newAgg, hfl], rfl, by simp [newAgg, c.pubs_length], fun k hk => absurd hk id, ?_⟩
      intro k _
      simp only [getResponse, newAgg]
      by_cases hk : k < c.pubs.length <;> simp [hk]
    · rw [hdagg]; rfl
  have hilt : i < c.pubs.length := by rw [c.pubs_length]; exact hi
  obtain ⟨e, hseal⟩ := sealDeal_some c.g (c.longs.getD i 0) c.pubs i hilt ((ephs.getD i []).getD i 0) 0 (.deal (c.deal i i))
  -- the encrypted deals `Deals()` computes
  have heds : ∀ tgt, tgt < c.n → ((encryptedDeals c.g d0.dealer (ephs.getD i []))[tgt]?).join =
      sealDeal c.g (c.longs.getD i 0) c.pubs tgt ((ephs.getD i []).getD tgt 0) 0 (.deal (c.deal i tgt)) := by
    intro tgt hto
    have htl : tgt < c.pubs.length := by rw [c.pubs_length]; exact hto
    have hte : tgt < (ephs.getD i []).length := by rw [hel]; exact hto
    unfold encryptedDeals
    rw [hdvs, hddeals, hdlong]
    have he : (ephs.getD i [])[tgt]? = some ((ephs.getD i []).getD tgt 0) := by
      simp only [List.getD_eq_getElem?_getD] at hte ⊢
      rw [List.getElem?_eq_getElem hte]; rfl
    simp only [List.getElem?_map, List.getElem?_range htl, Option.map_some, Option.join_some, he]
    rfl
  obtain ⟨hres, hst1⟩ := processDeal_genuine_ok c ephs hw i hi _ _ _ d0 hst0 i hi (fun h => h) _ 0 e hseal
  have hown : ({ index := d0.index, deal := ((encryptedDeals c.g d0.dealer (ephs.getD i []))[d0.index]?).join } : DkgDeal F G)
      = ⟨i, some e⟩ := by rw [hidx, heds i hi, hseal]
  refine ⟨(processDeal c.g d0 ⟨i, some e⟩).1, ?_, ?_⟩
  · unfold deals
    simp only [hempty d0.index, Option.isSome_none, Bool.false_eq_true, if_false, hown]
    rcases hpd : processDeal c.g d0 ⟨i, some e⟩ with ⟨d1, res⟩
    rw [hpd] at hres
    simp only at hres
    subst hres
    simp only [Cfg.resp, if_true, hp, c.pubs_length, hidx]
    congr 2
    apply List.filterMap_congr
    intro tgt hto
    have htn := List.mem_range.1 hto
    by_cases hti : tgt = i
    · simp [hti]
    · simp only [hti, if_false, Cfg.dealMsg, heds tgt htn]
  · refine HState.congr ?_ ?_ (fun y => by simp [RDOf]) hst1
    · intro x; simp [DOf]
    · intro x y hDx
      have hx : x = i := by rcases hDx with h | h; exact absurd h id; exact h
      simp [hx, ROf]

end Dos.Dkg

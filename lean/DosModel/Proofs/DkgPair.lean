/-
The session layer of `pdkg.Loop` for one message kind (`handlePeerMsg` / `handleRequest` of
`Model/DkgSession.lean`), with de-duplication by a key: if the request for `k` messages is
registered exactly once and messages with `k` distinct keys arrive – before or after the
registration, in any order, each any number of times – the request fires, exactly once, with one
message per key.  (This is what fails without de-duplication: F11.)
-/
import DosModel.Model.DkgSession
import Mathlib.Data.List.Nodup
import Mathlib.Data.List.Perm.Subperm

set_option linter.unusedSectionVars false

namespace Dos.Dkg

variable {M κ : Type} [DecidableEq κ]

/-- an event at one (buffer, request) pair -/
inductive PEv (M : Type) where
  | reg (k : Nat)
  | msg (m : M)

/-- pair and reply channel (capacity 1: the first batch handed over stays there) -/
def pairStep (dup : M → M → Bool) (st : Pair M × Option (List M)) : PEv M → Pair M × Option (List M)
  | .reg k => let r := handleRequest st.1 k; (r.1, orElse st.2 r.2)
  | .msg m => let r := handlePeerMsg dup st.1 m; (r.1, orElse st.2 r.2)

def pairRun (dup : M → M → Bool) (evs : List (PEv M)) : Pair M × Option (List M) :=
  evs.foldl (pairStep dup) (⟨[], none⟩, none)

def regCount : List (PEv M) → Nat
  | [] => 0
  | .reg _ :: es => regCount es + 1
  | .msg _ :: es => regCount es

def msgKeys (key : M → κ) : List (PEv M) → List κ
  | [] => []
  | .reg _ :: es => msgKeys key es
  | .msg m :: es => key m :: msgKeys key es

/-- invariant of the pair while nothing has been handed over yet -/
structure PairInv (P : M → Prop) (key : M → κ) (K : List κ) (k : Nat) (seen : List κ) (registered : Bool)
    (st : Pair M × Option (List M)) : Prop where
  open_ : st.2 = none → (st.1.buf.map key).Nodup ∧ (∀ x, x ∈ st.1.buf.map key ↔ x ∈ seen) ∧
      (registered = true → st.1.req = some k ∧ st.1.buf.length < k) ∧ (registered = false → st.1.req = none) ∧
      (∀ x ∈ st.1.buf, P x)
  fired : ∀ b, st.2 = some b → (b.map key).Nodup ∧ b.length = k ∧ (∀ x ∈ b.map key, x ∈ K) ∧ registered = true ∧
      (∀ x ∈ b, P x) ∧ st.1.req = none

theorem nodup_subset_length_le {l K : List κ} (hl : l.Nodup) (hsub : ∀ x ∈ l, x ∈ K) : l.length ≤ K.length :=
  (List.subperm_of_subset hl hsub).length_le

/-- a duplicate-free list inside `K` of the length of the duplicate-free `K` contains all of `K` -/
theorem nodup_full {l K : List κ} (hl : l.Nodup) (hsub : ∀ x ∈ l, x ∈ K) (hlen : l.length = K.length) :
    ∀ x ∈ K, x ∈ l := by
  intro x hx
  by_contra hnx
  have hsub' : ∀ y ∈ l, y ∈ K.erase x := by
    intro y hy
    have hne : y ≠ x := by intro he; rw [he] at hy; exact hnx hy
    exact (List.mem_erase_of_ne hne).2 (hsub y hy)
  have := nodup_subset_length_le hl hsub'
  rw [hlen, List.length_erase_of_mem hx] at this
  have hpos : 0 < K.length := List.length_pos_of_mem hx
  omega

theorem pair_step_inv (P : M → Prop) (dup : M → M → Bool) (key : M → κ)
    (hdup : ∀ a b, P a → P b → dup a b = decide (key a = key b))
    (K : List κ) (k : Nat) (hK : K.length = k) (seen : List κ) (registered : Bool)
    (st : Pair M × Option (List M)) (hseen : ∀ x ∈ seen, x ∈ K)
    (h : PairInv P key K k seen registered st) (e : PEv M)
    (he : match e with | .reg k' => k' = k ∧ registered = false | .msg m => key m ∈ K ∧ P m) :
    PairInv P key K k (match e with | .reg _ => seen | .msg m => key m :: seen)
      (match e with | .reg _ => true | .msg _ => registered) (pairStep dup st e) := by
  rcases hbox : st.2 with _ | b0
  · obtain ⟨hnd, hmem, hreg, hnreg, hP⟩ := h.open_ hbox
    have hlen_le : st.1.buf.length ≤ k := by
      have := nodup_subset_length_le hnd (fun x hx => hseen x ((hmem x).1 hx))
      simpa [hK] using this
    cases e with
    | reg k' =>
      obtain ⟨hk', hr⟩ := he
      subst hk'
      by_cases hl : st.1.buf.length = k'
      · have hstep : pairStep dup st (.reg k') = (⟨[], none⟩, some st.1.buf) := by
          simp [pairStep, handleRequest, hbox, orElse, hl]
        rw [hstep]
        refine ⟨fun h => (by cases h), fun b hb => ?_⟩
        injection hb with hb; subst hb
        exact ⟨hnd, hl, fun x hx => hseen x ((hmem x).1 hx), rfl, hP, rfl⟩
      · have hstep : pairStep dup st (.reg k') = (⟨st.1.buf, some k'⟩, none) := by
          simp [pairStep, handleRequest, hbox, orElse, hl]
        rw [hstep]
        refine ⟨fun _ => ⟨hnd, hmem, fun _ => ⟨rfl, (by show st.1.buf.length < k'; omega)⟩, fun h => (by cases h), hP⟩,
          fun b hb => (by cases hb)⟩
    | msg m =>
      obtain ⟨hmK, hmP⟩ := he
      have hany : (st.1.buf.any fun x => dup x m) = true ↔ key m ∈ st.1.buf.map key := by
        simp only [List.any_eq_true, List.mem_map]
        constructor
        · rintro ⟨x, hx, hd⟩
          rw [hdup x m (hP x hx) hmP] at hd
          exact ⟨x, hx, by simpa using hd⟩
        · rintro ⟨x, hx, hxe⟩
          exact ⟨x, hx, by rw [hdup x m (hP x hx) hmP]; simpa using hxe⟩
      simp only [pairStep, handlePeerMsg, hbox, orElse]
      by_cases hdupm : (st.1.buf.any fun x => dup x m) = true
      · simp only [hdupm, if_true]
        have hin := hany.1 hdupm
        refine ⟨fun _ => ⟨hnd, fun x => ?_, hreg, hnreg, hP⟩, fun b hb => (by cases hb)⟩
        constructor
        · intro hx; exact List.mem_cons_of_mem _ ((hmem x).1 hx)
        · intro hx
          rcases List.mem_cons.1 hx with hx | hx
          · rw [hx]; exact hin
          · exact (hmem x).2 hx
      · simp only [hdupm, if_false, Bool.false_eq_true]
        have hnin : key m ∉ st.1.buf.map key := fun hin => hdupm (hany.2 hin)
        have hnd' : ((st.1.buf ++ [m]).map key).Nodup := by
          rw [List.map_append, List.map_singleton]
          exact List.Nodup.append hnd (List.nodup_singleton _) (by
            intro x hx hx'; simp only [List.mem_singleton] at hx'; subst hx'; exact hnin hx)
        have hmem' : ∀ x, x ∈ (st.1.buf ++ [m]).map key ↔ x ∈ key m :: seen := by
          intro x
          simp only [List.map_append, List.map_singleton, List.mem_append, List.mem_singleton, List.mem_cons]
          rw [hmem x]; tauto
        have hP' : ∀ x ∈ st.1.buf ++ [m], P x := by
          intro x hx
          rcases List.mem_append.1 hx with hx | hx
          · exact hP x hx
          · simp only [List.mem_singleton] at hx; rw [hx]; exact hmP
        have hlen' : (st.1.buf ++ [m]).length ≤ k := by
          have := nodup_subset_length_le hnd' (fun x hx => by
            rcases List.mem_cons.1 ((hmem' x).1 hx) with h | h
            · rw [h]; exact hmK
            · exact hseen x h)
          simpa [hK] using this
        rcases hq : st.1.req with _ | kk
        · simp only
          refine ⟨fun _ => ⟨hnd', hmem', fun hr => ?_, fun _ => rfl, hP'⟩, fun b hb => (by cases hb)⟩
          have := (hreg hr).1; rw [hq] at this; cases this
        · simp only
          have hregd : registered = true := by
            cases registered with
            | true => rfl
            | false => have := hnreg rfl; rw [hq] at this; cases this
          have hkk : kk = k := by have := (hreg hregd).1; rw [hq] at this; injection this
          subst hkk
          by_cases hfire : (st.1.buf ++ [m]).length = kk
          · simp only [hfire, if_true]
            refine ⟨fun h => (by cases h), fun b hb => ?_⟩
            injection hb with hb; subst hb
            refine ⟨hnd', hfire, fun x hx => ?_, hregd, hP', rfl⟩
            rcases List.mem_cons.1 ((hmem' x).1 hx) with h | h
            · rw [h]; exact hmK
            · exact hseen x h
          · simp only [hfire, if_false]
            refine ⟨fun _ => ⟨hnd', hmem', fun _ => ⟨rfl, (by show (st.1.buf ++ [m]).length < kk; omega)⟩,
              fun h => (by rw [hregd] at h; cases h), hP'⟩, fun b hb => (by cases hb)⟩
  · -- already handed over: the reply channel keeps the first batch, no request is registered any more
    obtain ⟨h1, h2, h3, h4, h5, h6⟩ := h.fired b0 hbox
    have hkeep : (pairStep dup st e).2 = some b0 ∧ (pairStep dup st e).1.req = none := by
      cases e with
      | reg k' => rw [h4] at he; exact absurd he.2 (by simp)
      | msg m =>
        simp only [pairStep, hbox, orElse, handlePeerMsg]
        by_cases hd : (st.1.buf.any fun x => dup x m) = true
        · simp [hd, h6]
        · simp [hd, h6]
    refine ⟨fun h => (by rw [hkeep.1] at h; cases h), fun b hb => ?_⟩
    rw [hkeep.1] at hb; injection hb with hb; subst hb
    refine ⟨h1, h2, h3, ?_, h5, hkeep.2⟩
    cases e <;> simp [h4]

/-- the event list is admissible from a state that is (not) registered: every message key is in `K`,
a registration asks for `k` messages and happens only while unregistered -/
def OkEvs (P : M → Prop) (key : M → κ) (K : List κ) (k : Nat) : Bool → List (PEv M) → Prop
  | _, [] => True
  | r, .reg k' :: es => k' = k ∧ r = false ∧ OkEvs P key K k true es
  | r, .msg m :: es => (key m ∈ K ∧ P m) ∧ OkEvs P key K k r es

def endsRegistered : Bool → List (PEv M) → Bool
  | r, [] => r
  | _, .reg _ :: es => endsRegistered true es
  | r, .msg _ :: es => endsRegistered r es

theorem pair_run_inv (P : M → Prop) (dup : M → M → Bool) (key : M → κ)
    (hdup : ∀ a b, P a → P b → dup a b = decide (key a = key b)) (K : List κ) (k : Nat) (hK : K.length = k) :
    ∀ (evs : List (PEv M)) (seen : List κ) (registered : Bool) (st : Pair M × Option (List M)),
      (∀ x ∈ seen, x ∈ K) → PairInv P key K k seen registered st → OkEvs P key K k registered evs →
      PairInv P key K k ((msgKeys key evs).reverse ++ seen) (endsRegistered registered evs)
        (evs.foldl (pairStep dup) st) := by
  intro evs
  induction evs with
  | nil => intro seen registered st _ h _; simpa [msgKeys, endsRegistered] using h
  | cons e es ih =>
    intro seen registered st hseen h hok
    cases e with
    | reg k' =>
      obtain ⟨hk', hr, hrest⟩ := hok
      have := pair_step_inv P dup key hdup K k hK seen registered st hseen h (.reg k') ⟨hk', hr⟩
      simp only at this
      have := ih seen true _ hseen this hrest
      simpa [msgKeys, endsRegistered, List.foldl_cons] using this
    | msg m =>
      obtain ⟨hm, hrest⟩ := hok
      have := pair_step_inv P dup key hdup K k hK seen registered st hseen h (.msg m) hm
      simp only at this
      have := ih (key m :: seen) registered _ (by
        intro x hx; rcases List.mem_cons.1 hx with hx | hx
        · rw [hx]; exact hm.1
        · exact hseen x hx) this hrest
      simpa [msgKeys, endsRegistered, List.foldl_cons, List.reverse_cons, List.append_assoc] using this

/-- **the request fires with one message per key** once it is registered and every key has arrived -/
theorem pair_complete (P : M → Prop) (dup : M → M → Bool) (key : M → κ)
    (hdup : ∀ a b, P a → P b → dup a b = decide (key a = key b))
    (K : List κ) (hKnd : K.Nodup) (evs : List (PEv M))
    (hok : OkEvs P key K K.length false evs) (hreg : endsRegistered false evs = true)
    (hall : ∀ x ∈ K, x ∈ msgKeys key evs) :
    ∃ b, (pairRun dup evs).2 = some b ∧ (b.map key).Nodup ∧
      b.length = K.length ∧ (∀ x ∈ b.map key, x ∈ K) ∧ (∀ x ∈ K, x ∈ b.map key) ∧ (∀ x ∈ b, P x) := by
  have h0 : PairInv P key K K.length [] false ((⟨[], none⟩ : Pair M), (none : Option (List M))) := by
    refine ⟨fun _ => ⟨by simp, by simp, fun h => (by cases h), fun _ => rfl, by simp⟩, fun b hb => (by cases hb)⟩
  have hinv := pair_run_inv P dup key hdup K K.length rfl evs [] false _ (by simp) h0 hok
  rw [hreg] at hinv
  simp only [List.append_nil] at hinv
  rcases hbox : (pairRun dup evs).2 with _ | b
  · exfalso
    obtain ⟨hnd, hmem, hr, _, _⟩ := hinv.open_ hbox
    have hlt := (hr rfl).2
    have hsub : ∀ x ∈ K, x ∈ (pairRun dup evs).1.buf.map key := by
      intro x hx; exact (hmem x).2 (List.mem_reverse.2 (hall x hx))
    have := nodup_subset_length_le hKnd hsub
    simp only [List.length_map] at this
    unfold pairRun at this hlt
    omega
  · obtain ⟨h1, h2, h3, _, h5, _⟩ := hinv.fired b hbox
    exact ⟨b, rfl, h1, h2, h3, nodup_full h1 h3 (by rw [List.length_map, h2]), h5⟩

end Dos.Dkg

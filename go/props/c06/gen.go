package c06

import (
	"fmt"
	"math/big"

	"verifharness/internal/h"
	"verifharness/props/c11/bnref"
)

func validSig(sk *big.Int, msg []byte) bnref.P1 {
	k := new(big.Int).Mul(new(big.Int).Mod(sk, bnref.Rn), hashScalar(msg))
	return bnref.Mul1(k.Mod(k, bnref.Rn), bnref.G1Gen())
}

func cat(bs ...[]byte) []byte {
	var out []byte
	for _, b := range bs {
		out = append(out, b...)
	}
	return out
}

func randCurvePoint(rng *h.Rng) bnref.P1 {
	for {
		x := rng.Big(bnref.P)
		if y := bnref.Sqrt(bnref.Add(bnref.Mul(bnref.Mul(x, x), x), big.NewInt(3))); y != nil {
			return bnref.P1{X: x, Y: y}
		}
	}
}

func gen(tier string, rng *h.Rng, emit func(string)) {
	thorough := tier == "thorough"
	pick := func(q, t int) int {
		if thorough {
			return t
		}
		return q
	}
	r := bnref.Rn
	rm1 := new(big.Int).Sub(r, big.NewInt(1))
	sks := []*big.Int{big.NewInt(0), big.NewInt(1), rm1, big.NewInt(2)}
	for i := 0; i < pick(8, 40); i++ {
		sks = append(sks, rng.Big(r))
	}
	// messages: descriptor strings
	msgs := []string{"-", "00", "616263", fmt.Sprintf("syn:%d:%d:%d", 1<<20, 1+rng.Intn(250), rng.Intn(256))}
	nLow, nHigh := 0, 0
	for i := 0; nLow < pick(2, 6) || nHigh < pick(2, 6) || i < pick(6, 40); i++ {
		m := rng.Bytes(1 + rng.Intn(80))
		if i%7 == 3 {
			m = rng.Bytes(135 + rng.Intn(4)) // around the Keccak rate (136)
		}
		if new(big.Int).SetBytes(cryptoKeccak(m)).Cmp(r) >= 0 {
			nHigh++ // the hash needs the reduction mod r
		} else {
			nLow++
		}
		msgs = append(msgs, h.Hex(m))
	}
	emit("keccak -")
	for _, m := range msgs {
		emit("keccak " + m)
		emit("sign 1 " + m) // the signature under key 1 IS hashToPoint(m)
	}
	for _, sk := range sks {
		for j := 0; j < pick(3, 8); j++ {
			emit(fmt.Sprintf("sign %s %s", sk, msgs[rng.Intn(len(msgs))]))
		}
	}
	// the coordinate splitters on what is NOT a well-formed emitted value (review 4-C06 #5): short and over-long
	// signatures for ToBigInt, identity keys in every accepted form for decodePubKey
	{
		E := bnref.Enc1(validSig(sks[4], []byte("split")))
		for _, n := range []int{0, 1, 31, 32, 33, 63, 64, 65, 96} {
			emit("split " + h.Hex(cat(E, E)[:n]))
		}
		for i := 0; i < pick(6, 30); i++ {
			emit("split " + h.Hex(rng.Bytes(rng.Intn(100))))
		}
		for _, how := range []string{"mul", "fresh", "sum", "unm", "null", "sub", "unz", "unj", "new"} {
			emit("dpk 0 " + how)
		}
		for _, how := range []string{"mul", "fresh", "sum", "unm"} {
			emit(fmt.Sprintf("dpk %s %s", sks[rng.Intn(len(sks)-1)+1], how))
			emit(fmt.Sprintf("dpk %s %s", rm1, how))
		}
		// key pairs as the library makes them (bls.NewKeyPair on a seeded stream)
		for i := 0; i < pick(6, 40); i++ {
			emit(fmt.Sprintf("kp %s %s", h.Hex(rng.Bytes(1+rng.Intn(16))), msgs[rng.Intn(3)]))
		}
	}
	// verification: valid signatures and their mutations
	big1MiB := 0
	for _, sk := range sks {
		for j := 0; j < pick(3, 6); j++ {
			mi := rng.Intn(len(msgs))
			if mi == 3 { // the 1 MiB message: a few cases only (the model's Keccak is slow)
				if big1MiB >= pick(1, 3) {
					mi = 2
				}
				big1MiB++
			}
			ms := msgs[mi]
			msg := msgOf(ms)
			S := validSig(sk, msg)
			E := bnref.Enc1(S)
			v := func(sig []byte) { emit(fmt.Sprintf("verify %s %s %s", sk, ms, h.Hex(sig))) }
			v(E)
			v(bnref.Enc1(bnref.Neg1(S)))
			v(make([]byte, 64))
			v(cat(E[32:], E[:32]))
			v(cat(E, rng.Bytes(1+rng.Intn(5)))) // trailing bytes are ignored by UnmarshalBinary
			v(E[:63])
			v(E[:rng.Intn(63)])
			v(bnref.Enc1(bnref.Add1(S, bnref.G1Gen())))
			v(bnref.Enc1(randCurvePoint(rng)))
			if !S.Inf {
				v(cat(E[:32], be32(new(big.Int).Add(S.Y, big.NewInt(1))))) // off the curve
				if x := new(big.Int).Add(S.X, bnref.P); x.Cmp(two256) < 0 {
					v(cat(be32(x), E[32:]))
				}
				if y := new(big.Int).Add(S.Y, bnref.P); y.Cmp(two256) < 0 {
					v(cat(E[:32], be32(y)))
				}
			}
			// other key / other message
			sk2 := sks[rng.Intn(len(sks))]
			v(bnref.Enc1(validSig(sk2, msg)))
			v(bnref.Enc1(validSig(sk, append(append([]byte{}, msg...), 1))))
			if len(msg) < 4096 {
				// one bit flipped in every byte of the signature
				for i := 0; i < 64; i++ {
					if !thorough && j > 0 && i%8 != j%8 {
						continue
					}
					c := append([]byte{}, E...)
					c[i] ^= 1 << uint(rng.Intn(8))
					v(c)
				}
			}
		}
	}
	// call histories on shared mutable objects (hist.go)
	genHistories(thorough, rng, emit, sks)
	// concurrent use of one key object (bls.Verify must not write to its arguments)
	for i := 0; i < pick(6, 16); i++ {
		sk := sks[4+rng.Intn(len(sks)-4)]
		if i == 3 {
			sk = rm1
		}
		ms := msgs[4+rng.Intn(len(msgs)-4)]
		S := validSig(sk, msgOf(ms))
		sig, mode, rounds, n := bnref.Enc1(S), "mul", pick(200, 600), 8
		switch i {
		case 1:
			mode, rounds = "sum", pick(100, 300)
		case 2: // a rejected signature: every goroutine must reject
			sig, rounds = bnref.Enc1(bnref.Neg1(S)), pick(60, 200)
		case 3: // single goroutine: inputs and key unmodified
			rounds, n = 20, 1
		case 4: // other goroutines marshal / Equal / decodePubKey the shared key meanwhile
			mode, rounds, n = "mul+m", pick(150, 500), 5
		case 5:
			mode, rounds, n = "sum+m", pick(100, 300), 5
		}
		emit(fmt.Sprintf("conc %s %s %s %s %d %d", sk, ms, h.Hex(sig), mode, rounds, n))
	}
	// identity public key / identity signature / hash of the empty message with every special key
	for _, sk := range sks[:4] {
		emit(fmt.Sprintf("verify %s - %s", sk, h.Hex(make([]byte, 64))))
		emit(fmt.Sprintf("verify %s - %s", sk, h.Hex(bnref.Enc1(validSig(sk, nil)))))
		emit(fmt.Sprintf("verify %s - -", sk))
	}
}

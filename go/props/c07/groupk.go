package c07

// The member list AFTER a completed key generation (round 5, review H #1).
//
//	grpk <n> <gid> <id;id;…> <lastRand>
//
// n members, each with a REAL pdkg on the in-memory network of go/internal/dkgnet (used as a library,
// as C04 runs it), run pdkg.Grouping(ctx, gid, ids) – every member is handed its own copy of the
// announced list, unsorted – until every member's key generation is certified (genGroup has run, the
// member holds a share). THEN every member's list (pdkg.GetGroupIDs, what groupInfo hands to
// handleQuery) is compared with the announcement, element for element, and goes to the real
// choseSubmitter. Printed per member: "<k>:n=<len> id <submitter>", or "<k>:unfinished".
// The `grp` cases only reach the bookkeeping BEFORE the key generation (block time 0).

import (
	"context"
	"fmt"
	"strings"
	"time"

	dkg "github.com/DOSNetwork/core/share/dkg/pedersen"

	"verifharness/internal/dkgnet"
	"verifharness/internal/h"
)

func execGrpK(w []string) (res h.Result) {
	quietOnce.Do(dkgnet.Quiet)
	res.Nontrivial = true
	n, gid, ids, r := h.Atoi(w[1]), gidKey(w[2]), splitIDs(w[3]), h.BigDec(w[4])
	if len(ids) != n {
		panic("bad grpk line")
	}
	res.Class = fmt.Sprintf("grpk n=%d (completed key generation)", n)
	nw := dkgnet.NewNet(ids)
	ctx, cancel := context.WithTimeout(context.Background(), 90*time.Second)
	defer cancel()
	pd := make([]dkg.PDKGInterface, n)
	handed := make([][][]byte, n)
	for k := 0; k < n; k++ {
		pd[k] = dkg.NewPDKG(nw.Node(k, ids), suite)
		go pd[k].Loop()
	}
	done := make(chan [2]int, n)
	for k := 0; k < n; k++ {
		handed[k] = copyIDs(ids)
		go func(k int) {
			outc, errc, err := pd[k].Grouping(ctx, gid, handed[k])
			if err != nil {
				done <- [2]int{k, 0}
				return
			}
			for outc != nil || errc != nil {
				select {
				case _, ok := <-outc:
					if ok {
						done <- [2]int{k, 1}
						return
					}
					outc = nil
				case _, ok := <-errc:
					if !ok {
						errc = nil
					}
				case <-ctx.Done():
					done <- [2]int{k, 0}
					return
				}
			}
			done <- [2]int{k, 0}
		}(k)
	}
	fin := make([]bool, n)
	for c := 0; c < n; c++ {
		d := <-done
		fin[d[0]] = d[1] == 1
	}
	var parts, o []string
	for k := 0; k < n; k++ {
		if !fin[k] || pd[k].GetShareSecurity(gid) == nil {
			parts = append(parts, fmt.Sprintf("%d:unfinished", k))
			o = append(o, fmt.Sprintf("keygen-unfinished: member %d did not finish a key generation nobody disturbed", k))
			continue
		}
		got := pd[k].GetGroupIDs(gid)
		if !sameIDs(got, ids) {
			o = append(o, fmt.Sprintf("member-list: after the key generation member %d holds [%.200s] for group %s, announced on chain was [%.200s]", k, joinIDs(got), gid, joinIDs(ids)))
		}
		if !sameIDs(handed[k], ids) {
			o = append(o, "input-modified: the member list of the announcement was changed by the key generation")
		}
		sub, tag := stageSubmitter(r, got)
		if tag != "" {
			parts = append(parts, fmt.Sprintf("%d:%s", k, tag))
		} else {
			parts = append(parts, fmt.Sprintf("%d:n=%d id %s", k, len(got), h.Hex(sub)))
		}
		if ws := wantSubmitter(ids, r); tag != "" || !bytesEq(sub, ws) {
			o = append(o, fmt.Sprintf("submitter-index: member %d chose %s; entry (lastRand mod 2^64) mod %d of the list announced on chain is %s", k, h.Hex(sub), n, h.Hex(ws)))
		}
	}
	cancel()
	res.Impl = strings.Join(parts, " ")
	res.Oracle = pick(o, "member-list", "submitter-index", "input-modified", "keygen-unfinished")
	return
}

func bytesEq(a, b []byte) bool { return string(a) == string(b) }

func genGrpK(tier string, rng *h.Rng, emit func(string)) {
	rs := rands(rng, false)
	k := 3
	if tier == "thorough" {
		k = 12
	}
	for i := 0; i < k; i++ {
		n := 3
		if i%3 == 2 {
			n = 4
		}
		ids := idList(rng, n, 0)
		// every residue is hit over the cases: the submitter is not always member 0
		r := rs[rng.Intn(60)]
		emit(fmt.Sprintf("grpk %d %d %s %s", n, 1+rng.Intn(1000), joinIDs(ids), r))
	}
}

/-
C10 — the group law for the CONCRETE Montgomery model of G1: `Jac.add` / `Jac.double` / `curveMul`
over `GFp` (the functions the driver runs, compared limb for limb with curve.go on every check run)
compute, on reduced inputs, the group operations of E(F_p) : y² = x³ + b in Mathlib's
`WeierstrassCurve.Affine.Point` after Montgomery decoding. Route: reduced values form a type `GFpR`
on which the assembly's operations are closed; "forget reducedness" (GFpR → GFp) and "decode"
(GFpR → ZMod p) both preserve every operation and are injective (`gfP_is_prime_field`), the
transcribed code is natural in such maps (Proofs/Bn256Natural.lean), and over the field ZMod p it is the
group law (Proofs/Bn256CurveGroup.lean).
-/
import DosModel.Proofs.Bn256FieldIso
import DosModel.Proofs.Bn256Natural
import DosModel.Proofs.Bn256CurveGroup

namespace Dos.Bn256
open Dos.Mont

/-- reduced base-field values (what every gfP holds after any of the four primitives) -/
def GFpR : Type := { x : GFp // x.v < p }

instance : DecidableEq GFpR := inferInstanceAs (DecidableEq { x : GFp // x.v < p })

namespace GFpR
instance : Add GFpR := ⟨fun a b => ⟨a.1 + b.1, (dec_add a.1 b.1 a.2 b.2).1⟩⟩
instance : Sub GFpR := ⟨fun a b => ⟨a.1 - b.1, (dec_sub a.1 b.1 a.2 b.2).1⟩⟩
instance : Neg GFpR := ⟨fun a => ⟨-a.1, (dec_neg a.1 a.2).1⟩⟩
instance : Mul GFpR := ⟨fun a b => ⟨a.1 * b.1, (dec_mul a.1 b.1 a.2 b.2).1⟩⟩
instance : Zero GFpR := ⟨⟨0, by decide⟩⟩
instance : One GFpR := ⟨⟨1, dec_one.1⟩⟩
instance : Inv GFpR := ⟨fun a => ⟨a.1⁻¹, (dec_inv a.1 a.2).1⟩⟩
instance : Sq GFpR := ⟨fun a => a * a⟩
end GFpR

/-- ZMod p with x ↦ x·x as the squaring operation -/
instance instSqZMod : Sq (ZMod p) := ⟨fun a => a * a⟩

/-- forgetting reducedness preserves every operation (definitionally) -/
theorem valHom : OpsHom (fun (x : GFpR) => x.1) where
  map_add _ _ := rfl
  map_sub _ _ := rfl
  map_neg _ := rfl
  map_mul _ _ := rfl
  map_zero := rfl
  map_one := rfl
  map_inv _ := rfl
  map_sq _ := rfl
  inj := Subtype.val_injective

/-- Montgomery decoding of reduced values into the prime field -/
def decR (x : GFpR) : ZMod p := dec x.1

theorem decHom : OpsHom decR where
  map_add a b := (dec_add a.1 b.1 a.2 b.2).2
  map_sub a b := (dec_sub a.1 b.1 a.2 b.2).2
  map_neg a := (dec_neg a.1 a.2).2
  map_mul a b := (dec_mul a.1 b.1 a.2 b.2).2
  map_zero := dec_zero
  map_one := dec_one.2
  map_inv a := (dec_inv a.1 a.2).2
  map_sq a := (dec_mul a.1 a.1 a.2 a.2).2
  inj a b h := Subtype.ext (dec_injective a.1 b.1 a.2 b.2 h)

/-- all four coordinates are reduced -/
def Jac.Reduced (a : Jac GFp) : Prop := a.x.v < p ∧ a.y.v < p ∧ a.z.v < p ∧ a.t.v < p

def Jac.lift (a : Jac GFp) (h : Jac.Reduced a) : Jac GFpR :=
  ⟨⟨a.x, h.1⟩, ⟨a.y, h.2.1⟩, ⟨a.z, h.2.2.1⟩, ⟨a.t, h.2.2.2⟩⟩

/-- Montgomery decoding of a Jacobian triple -/
def Jac.decJ (a : Jac GFp) : Jac (ZMod p) := Jac.map dec a

theorem Jac.val_lift (a : Jac GFp) (h : Jac.Reduced a) : Jac.map (fun (x : GFpR) => x.1) (Jac.lift a h) = a := rfl
theorem Jac.dec_lift (a : Jac GFp) (h : Jac.Reduced a) : Jac.map decR (Jac.lift a h) = Jac.decJ a := rfl

theorem Jac.reduced_of_map (x : Jac GFpR) : Jac.Reduced (Jac.map (fun (y : GFpR) => y.1) x) :=
  ⟨x.x.2, x.y.2, x.z.2, x.t.2⟩

theorem Jac.decJ_map_val (x : Jac GFpR) : Jac.decJ (Jac.map (fun (y : GFpR) => y.1) x) = Jac.map decR x := rfl

theorem two_ne_zero_Fp : (2 : ZMod p) ≠ 0 := by
  have h : ((2 : ℕ) : ZMod p) ≠ 0 := by
    rw [Ne, ZMod.natCast_eq_zero_iff]
    intro hd
    have : p ≤ 2 := Nat.le_of_dvd (by decide) hd
    exact absurd this (by decide)
  simpa using h

theorem hsqFp : ∀ a : ZMod p, Sq.sq a = a * a := fun _ => rfl

/-- **G1, concrete**: for reduced Montgomery triples whose decodings are valid points of y² = x³ + bb over F_p,
and ANY reduced receiver, `Jac.add` over GFp returns a reduced triple whose decoding is the SUM in Mathlib's
elliptic-curve group; likewise Double and (for every scalar k) curvePoint.Mul -/
theorem g1_add_concrete (bb : ZMod p) (c a b : Jac GFp) (hc : Jac.Reduced c) (ha : Jac.Reduced a) (hb : Jac.Reduced b)
    (va : Valid bb (Jac.decJ a)) (vb : Valid bb (Jac.decJ b)) :
    Jac.Reduced (Jac.add c a b) ∧ Valid bb (Jac.decJ (Jac.add c a b)) ∧
    toPoint bb (Jac.decJ (Jac.add c a b)) = toPoint bb (Jac.decJ a) + toPoint bb (Jac.decJ b) := by
  have e : Jac.add c a b = Jac.map (fun (x : GFpR) => x.1) (Jac.add (Jac.lift c hc) (Jac.lift a ha) (Jac.lift b hb)) := by
    rw [Jac.map_add valHom, Jac.val_lift, Jac.val_lift, Jac.val_lift]
  rw [e, Jac.decJ_map_val, Jac.map_add decHom, Jac.dec_lift, Jac.dec_lift, Jac.dec_lift]
  obtain ⟨h1, h2⟩ := add_point hsqFp two_ne_zero_Fp bb (Jac.decJ c) (Jac.decJ a) (Jac.decJ b) va vb
  exact ⟨Jac.reduced_of_map _, h1, h2⟩

theorem g1_double_concrete (bb : ZMod p) (c a : Jac GFp) (hc : Jac.Reduced c) (ha : Jac.Reduced a)
    (va : Valid bb (Jac.decJ a)) :
    Jac.Reduced (Jac.double c a) ∧ Valid bb (Jac.decJ (Jac.double c a)) ∧
    toPoint bb (Jac.decJ (Jac.double c a)) = toPoint bb (Jac.decJ a) + toPoint bb (Jac.decJ a) := by
  have e : Jac.double c a = Jac.map (fun (x : GFpR) => x.1) (Jac.double (Jac.lift c hc) (Jac.lift a ha)) := by
    rw [Jac.map_double valHom, Jac.val_lift, Jac.val_lift]
  rw [e, Jac.decJ_map_val, Jac.map_double decHom, Jac.dec_lift, Jac.dec_lift]
  obtain ⟨h1, h2⟩ := double_point hsqFp two_ne_zero_Fp bb (Jac.decJ c) (Jac.decJ a) va
  exact ⟨Jac.reduced_of_map _, h1, h2⟩

theorem g1_mul_concrete (bb : ZMod p) (a : Jac GFp) (ha : Jac.Reduced a) (va : Valid bb (Jac.decJ a)) (k : Nat) :
    Jac.Reduced (Jac.curveMul a k) ∧ toPoint bb (Jac.decJ (Jac.curveMul a k)) = k • toPoint bb (Jac.decJ a) := by
  have e : Jac.curveMul a k = Jac.map (fun (x : GFpR) => x.1) (Jac.curveMul (Jac.lift a ha) k) := by
    rw [Jac.map_curveMul valHom, Jac.val_lift]
  rw [e, Jac.decJ_map_val, Jac.map_curveMul decHom, Jac.dec_lift]
  exact ⟨Jac.reduced_of_map _, (mul_point hsqFp two_ne_zero_Fp bb (Jac.decJ a) va k).1⟩

end Dos.Bn256

package chaindouble

import (
	"crypto/ecdsa"
	"errors"
	"fmt"
	"math/big"
	"strings"
	"sync"
	"time"

	"github.com/DOSNetwork/core/configuration"
	"github.com/DOSNetwork/core/onchain"
	"github.com/DOSNetwork/core/onchain/dosbridge"
	"github.com/ethereum/go-ethereum/accounts/abi"
	"github.com/ethereum/go-ethereum/accounts/keystore"
	"github.com/ethereum/go-ethereum/common"
	"github.com/ethereum/go-ethereum/crypto"
)

// RecLogger satisfies the adaptor's logger interface and records what it is told.
type RecLogger struct {
	mu     sync.Mutex
	Events []string // "<name> <OnchainURL>" for connection events, "<name>" otherwise
	Errors []string
}

func (l *RecLogger) Info(msg string) {}
func (l *RecLogger) Error(err error) {
	l.mu.Lock()
	l.Errors = append(l.Errors, fmt.Sprint(err))
	l.mu.Unlock()
}
func (l *RecLogger) TimeTrack(start time.Time, e string, info map[string]interface{}) {}
func (l *RecLogger) Event(e string, info map[string]interface{}) {
	l.mu.Lock()
	if u, ok := info["OnchainURL"].(string); ok {
		e = e + " " + u
	}
	l.Events = append(l.Events, e)
	l.mu.Unlock()
}
func (l *RecLogger) urls(prefix string) []string {
	l.mu.Lock()
	defer l.mu.Unlock()
	var r []string
	for _, e := range l.Events {
		if strings.HasPrefix(e, prefix+" ") {
			r = append(r, strings.TrimPrefix(e, prefix+" "))
		}
	}
	return r
}

// FixedKey derives a keystore key from a seed byte (no scrypt, nothing on disk).
func FixedKey(seed byte) *keystore.Key {
	b := make([]byte, 32)
	for i := range b {
		b[i] = seed + byte(i)*7 + 1
	}
	priv, err := crypto.ToECDSA(b)
	if err != nil {
		panic(err)
	}
	return &keystore.Key{Address: crypto.PubkeyToAddress(priv.PublicKey), PrivateKey: priv}
}

// BridgeCallFn answers the three DOSAddressBridge getters Connect uses.
func BridgeCallFn(bridge, proxy, cr common.Address, bootURL string) CallFn {
	ab, err := abi.JSON(strings.NewReader(dosbridge.DosbridgeABI))
	if err != nil {
		panic(err)
	}
	return func(to common.Address, in []byte) ([]byte, error) {
		if to != bridge || len(in) < 4 {
			return nil, errors.New("chaindouble: unexpected eth_call")
		}
		m, err := ab.MethodById(in[:4])
		if err != nil {
			return nil, err
		}
		switch m.Name {
		case "getProxyAddress":
			return m.Outputs.Pack(proxy)
		case "getCommitRevealAddress":
			return m.Outputs.Pack(cr)
		case "getBootStrapUrl":
			return m.Outputs.Pack(bootURL)
		}
		return nil, errors.New("chaindouble: eth_call " + m.Name + " not scripted")
	}
}

// Stack is a real onchain adaptor connected (through its own Connect) to scripted endpoints.
type Stack struct {
	RPC       []*Endpoint // in the adaptor's endpoint order (index = position in ethAdaptor.ctxes)
	WS        []*Endpoint // in the adaptor's websocket order
	Adaptor   onchain.ProxyAdapter
	Key       *keystore.Key
	Bridge    common.Address
	Proxy     common.Address
	CR        common.Address
	ChainID   *big.Int
	GasLimit  uint64
	GasPrice  uint64
	Log       *RecLogger
	all       []*Endpoint
	connected bool
	urls      []string
	byURL     map[string]*Endpoint
	nRPC, nWS int
}

// NewStack starts nRPC+nWS endpoints and connects a real adaptor to them.
// The order in which Connect registered the endpoints (it depends on which dial finished
// first) is read back from the adaptor's own connection events.
func NewStack(nRPC, nWS int, chainID *big.Int, gasLimit, gasPrice uint64, key *ecdsa.PrivateKey) (*Stack, error) {
	s := &Stack{ChainID: chainID, GasLimit: gasLimit, GasPrice: gasPrice, Log: &RecLogger{}}
	if key == nil {
		s.Key = FixedKey(1)
	} else {
		s.Key = &keystore.Key{Address: crypto.PubkeyToAddress(key.PublicKey), PrivateKey: key}
	}
	s.Bridge = common.HexToAddress("0x00000000000000000000000000000000000b41d9")
	s.Proxy = common.HexToAddress("0x1111111111111111111111111111111111111111")
	s.CR = common.HexToAddress("0x2222222222222222222222222222222222222222")
	call := BridgeCallFn(s.Bridge, s.Proxy, s.CR, "")
	var urls []string
	byURL := map[string]*Endpoint{}
	for i := 0; i < nRPC; i++ {
		e := New(fmt.Sprintf("rpc%d", i), chainID)
		e.SetCallFn(call)
		s.all = append(s.all, e)
		urls = append(urls, e.HTTP())
		byURL[e.HTTP()] = e
	}
	for i := 0; i < nWS; i++ {
		e := New(fmt.Sprintf("ws%d", i), chainID)
		e.SetCallFn(call)
		s.all = append(s.all, e)
		urls = append(urls, e.WS())
		byURL[e.WS()] = e
	}
	cfg := &configuration.Config{
		ChainID: chainID.String(), ChainType: onchain.ETH, BlockTime: "1",
		DOSAddressBridgeAddress: s.Bridge.Hex(),
		EthGasLimit:             fmt.Sprint(gasLimit), EthGasPrice: fmt.Sprint(gasPrice),
	}
	a, err := onchain.NewEthAdaptor(s.Key, cfg, s.Log)
	if err != nil {
		s.Close()
		return nil, err
	}
	s.Adaptor = a
	s.urls, s.byURL, s.nRPC, s.nWS = urls, byURL, nRPC, nWS
	if err := s.connect(); err != nil {
		s.Close()
		return nil, err
	}
	return s, nil
}

// connect runs the adaptor's Connect and reads the endpoint order back from its connection events.
func (s *Stack) connect() error {
	s.Log.mu.Lock()
	s.Log.Events = nil
	s.Log.mu.Unlock()
	if err := s.Adaptor.Connect(s.urls, time.Now().Add(60*time.Second)); err != nil {
		return err
	}
	s.connected = true
	s.RPC, s.WS = nil, nil
	for _, u := range s.Log.urls("RPC_ConnToOnchain") {
		s.RPC = append(s.RPC, s.byURL[u])
	}
	for _, u := range s.Log.urls("WS_ConnToOnchain") {
		s.WS = append(s.WS, s.byURL[u])
	}
	if len(s.RPC) != s.nRPC || len(s.WS) != s.nWS {
		return fmt.Errorf("chaindouble: adaptor connected %d/%d rpc and %d/%d ws endpoints (%v)", len(s.RPC), s.nRPC, len(s.WS), s.nWS, s.Log.Errors)
	}
	for _, e := range s.all {
		e.ResetCalls()
	}
	return nil
}

// Reconnect is what the node does when the chain connection is lost: DisconnectAll, then Connect to the same
// URLs.  The endpoint order (s.RPC, s.WS) is re-read: it may differ from the previous connection.
func (s *Stack) Reconnect() error {
	if s.connected {
		s.Adaptor.DisconnectAll()
		s.connected = false
	}
	for _, e := range s.all {
		e.ClearScript()
	}
	return s.connect()
}

// Close disconnects the adaptor and stops every endpoint.
func (s *Stack) Close() {
	if s.connected {
		s.Adaptor.DisconnectAll()
		s.connected = false
	}
	for _, e := range s.all {
		e.Close()
	}
}

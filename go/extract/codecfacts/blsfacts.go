package codecfacts

import (
	"bytes"
	"fmt"
	"go/ast"
	"go/printer"
	"go/token"
	"io/ioutil"
	"path/filepath"
	"sort"
	"strings"

	"verifharness/extract/ex"
	"verifharness/extract/pkgvars"
)

// srcLines: the function's signature and body as gofmt prints them (comments dropped), one trimmed
// non-empty line per element — the exact text a hand model transcribes
func srcLines(fset *token.FileSet, fd *ast.FuncDecl) []string {
	if fd == nil {
		return nil
	}
	cp := *fd
	cp.Doc = nil
	var buf bytes.Buffer
	if err := (&printer.Config{Mode: printer.RawFormat}).Fprint(&buf, fset, &cp); err != nil {
		return []string{"<print error: " + err.Error() + ">"}
	}
	var out []string
	for _, l := range strings.Split(buf.String(), "\n") {
		if t := strings.Join(strings.Fields(l), " "); t != "" {
			out = append(out, t)
		}
	}
	return out
}

// pkgFacts: package-level variables, imports and function names of every non-test .go file of a directory
func pkgFacts(dir string) (vars, imports, funcs []string, err error) {
	fis, err := ioutil.ReadDir(dir)
	if err != nil {
		return nil, nil, nil, err
	}
	for _, fi := range fis {
		n := fi.Name()
		if !strings.HasSuffix(n, ".go") || strings.HasSuffix(n, "_test.go") || strings.HasPrefix(n, "zz_verif") {
			continue
		}
		_, f, perr := ex.Parse(filepath.Join(dir, n))
		if perr != nil {
			return nil, nil, nil, perr
		}
		for _, im := range f.Imports {
			imports = append(imports, strings.Trim(im.Path.Value, "\""))
		}
		for _, d := range f.Decls {
			switch x := d.(type) {
			case *ast.GenDecl:
				if x.Tok == token.VAR {
					for _, sp := range x.Specs {
						for _, id := range sp.(*ast.ValueSpec).Names {
							vars = append(vars, id.Name)
						}
					}
				}
			case *ast.FuncDecl:
				name := x.Name.Name
				if x.Recv != nil && len(x.Recv.List) > 0 {
					t := x.Recv.List[0].Type
					if st, ok := t.(*ast.StarExpr); ok {
						t = st.X
					}
					if id, ok := t.(*ast.Ident); ok {
						name = id.Name + "." + name
					}
				}
				funcs = append(funcs, name)
			}
		}
	}
	sort.Strings(vars)
	sort.Strings(imports)
	sort.Strings(funcs)
	return
}

func init() { ex.Register(&ex.Extractor{Name: "BlsFacts", Run: runBls}) }

// litArgs returns, for the call to method `name` in fd, the elements of each composite-literal argument
func litArgs(fd *ast.FuncDecl, name string) [][]string {
	var out [][]string
	if fd == nil {
		return out
	}
	ast.Inspect(fd.Body, func(n ast.Node) bool {
		c, ok := n.(*ast.CallExpr)
		if !ok {
			return true
		}
		s, ok := c.Fun.(*ast.SelectorExpr)
		if !ok || s.Sel.Name != name {
			return true
		}
		for _, a := range c.Args {
			var el []string
			if cl, ok := a.(*ast.CompositeLit); ok {
				for _, e := range cl.Elts {
					el = append(el, sel(e))
				}
			}
			out = append(out, el)
		}
		return false
	})
	return out
}

func runBls(repo string) (string, error) {
	bfs, bf, err := ex.Parse(filepath.Join(repo, "sign", "bls", "bls.go"))
	if err != nil {
		return "", err
	}
	pfs, pf, err := ex.Parse(filepath.Join(repo, "group", "bn256", "point.go"))
	if err != nil {
		return "", err
	}
	var b strings.Builder
	b.WriteString(ex.Header("BlsFacts", "sign/bls/bls.go, group/bn256/point.go (PairingCheck)"))
	b.WriteString("namespace Dos.Gen.Bls\n")
	for _, fn := range []string{"hashToPoint", "Verify", "Sign"} {
		fd := ex.FuncDecl(bf, "", fn)
		if fd == nil {
			return "", fmt.Errorf("bls.go: func %s not found", fn)
		}
		fmt.Fprintf(&b, "def %s_calls : List String := %s\n", fn, leanList(calls(fd)))
	}
	la := litArgs(ex.FuncDecl(bf, "", "Verify"), "PairingCheck")
	if len(la) != 2 {
		return "", fmt.Errorf("bls.go Verify: PairingCheck call with two slice literals not found")
	}
	fmt.Fprintf(&b, "def Verify_pairing_g1 : List String := %s\n", leanList(la[0]))
	fmt.Fprintf(&b, "def Verify_pairing_g2 : List String := %s\n", leanList(la[1]))
	pc := ex.FuncDecl(pf, "pointGT", "PairingCheck")
	if pc == nil {
		return "", fmt.Errorf("point.go: pointGT.PairingCheck not found")
	}
	fmt.Fprintf(&b, "def PairingCheck_calls : List String := %s\n", leanList(calls(pc)))
	// the skip: an `if` whose condition is `ap.IsInfinity() || bp.IsInfinity()` and whose body is `continue`
	skip := false
	ast.Inspect(pc.Body, func(n ast.Node) bool {
		if i, ok := n.(*ast.IfStmt); ok && len(i.Body.List) == 1 {
			if br, ok := i.Body.List[0].(*ast.BranchStmt); ok && br.Tok.String() == "continue" {
				if be, ok := i.Cond.(*ast.BinaryExpr); ok && be.Op.String() == "||" &&
					sel(be.X) == "ap.IsInfinity()" && sel(be.Y) == "bp.IsInfinity()" {
					skip = true
				}
			}
		}
		return true
	})
	fmt.Fprintf(&b, "def PairingCheck_skipsIdentityPairs : Bool := %s\n", leanBool(skip))
	// ---- the exact source text the hand model Model/Bls.lean (+ BlsHist: tbls.Verify) transcribes ----
	src := func(name string, fset *token.FileSet, fd *ast.FuncDecl) error {
		if fd == nil {
			return fmt.Errorf("%s not found", name)
		}
		fmt.Fprintf(&b, "def %s_src : List String := %s\n", name, leanList(srcLines(fset, fd)))
		return nil
	}
	for _, fn := range []string{"hashToPoint", "Verify", "Sign"} {
		if err := src("bls_"+fn, bfs, ex.FuncDecl(bf, "", fn)); err != nil {
			return "", err
		}
	}
	if err := src("pointGT_PairingCheck", pfs, pc); err != nil {
		return "", err
	}
	for _, m := range []struct{ recv, fn string }{{"pointG1", "Mul"}, {"pointG1", "Neg"}, {"pointG1", "Base"}, {"pointG2", "Base"}, {"pointG2", "Mul"}} {
		if err := src(m.recv+"_"+m.fn, pfs, ex.FuncDecl(pf, m.recv, m.fn)); err != nil {
			return "", err
		}
	}
	sfs, sf, err := ex.Parse(filepath.Join(repo, "group", "bn256", "suite.go"))
	if err != nil {
		return "", err
	}
	for _, fn := range []string{"G1", "G2", "GT", "PairingCheck"} {
		if err := src("Suite_"+fn, sfs, ex.FuncDecl(sf, "Suite", fn)); err != nil {
			return "", err
		}
	}
	if err := src("NewSuite", sfs, ex.FuncDecl(sf, "", "NewSuite")); err != nil {
		return "", err
	}
	gfs, gf, err := ex.Parse(filepath.Join(repo, "group", "bn256", "group.go"))
	if err != nil {
		return "", err
	}
	for _, m := range []struct{ recv, fn string }{{"groupG1", "Point"}, {"groupG2", "Point"}, {"common", "Scalar"}} {
		if err := src(m.recv+"_"+m.fn, gfs, ex.FuncDecl(gf, m.recv, m.fn)); err != nil {
			return "", err
		}
	}
	tfs, tf, err := ex.Parse(filepath.Join(repo, "sign", "tbls", "tbls.go"))
	if err != nil {
		return "", err
	}
	if err := src("tbls_Verify", tfs, ex.FuncDecl(tf, "", "Verify")); err != nil {
		return "", err
	}
	if err := src("SigShare_Index", tfs, ex.FuncDecl(tf, "SigShare", "Index")); err != nil {
		return "", err
	}
	if err := src("SigShare_Value", tfs, ex.FuncDecl(tf, "SigShare", "Value")); err != nil {
		return "", err
	}
	shfs, shf, err := ex.Parse(filepath.Join(repo, "share", "poly.go"))
	if err != nil {
		return "", err
	}
	if err := src("PubPoly_Eval", shfs, ex.FuncDecl(shf, "PubPoly", "Eval")); err != nil {
		return "", err
	}
	// ---- the emitters / splitters the contract calls go through (review 4-C06 #5, #9) ----
	if err := src("bls_NewKeyPair", bfs, ex.FuncDecl(bf, "", "NewKeyPair")); err != nil {
		return "", err
	}
	dfs, df, err := ex.Parse(filepath.Join(repo, "share", "dkg", "pedersen", "pdkg.go"))
	if err != nil {
		return "", err
	}
	if err := src("dkg_decodePubKey", dfs, ex.FuncDecl(df, "", "decodePubKey")); err != nil {
		return "", err
	}
	vfs, vf, err := ex.Parse(filepath.Join(repo, "share", "vss", "pedersen", "vss.go"))
	if err != nil {
		return "", err
	}
	if err := src("Signature_ToBigInt", vfs, ex.FuncDecl(vf, "Signature", "ToBigInt")); err != nil {
		return "", err
	}
	// ---- group/bn256 HAS package-level variables (constants, generators, reflect types): the complete list,
	// with "written outside init" (assigned, ++, &x, a method called on it) as go/extract/pkgvars decides it ----
	bnVars, err := pkgvars.Collect(repo, filepath.Join("group", "bn256"))
	if err != nil {
		return "", err
	}
	b.WriteString("def bn256_package_vars : List (String × String × Bool) := [")
	for i, v := range bnVars {
		if i > 0 {
			b.WriteString(", ")
		}
		fmt.Fprintf(&b, "(%s, %s, %s)", ex.LeanStr(v.File), ex.LeanStr(v.Name), leanBool(v.Written))
	}
	b.WriteString("]\n")
	// ---- no hidden state: the packages declare no package-level variable; their imports and functions ----
	for _, pk := range []string{"bls", "tbls"} {
		vars, imports, funcs, err := pkgFacts(filepath.Join(repo, "sign", pk))
		if err != nil {
			return "", err
		}
		fmt.Fprintf(&b, "def %s_package_vars : List String := %s\n", pk, leanList(vars))
		fmt.Fprintf(&b, "def %s_imports : List String := %s\n", pk, leanList(imports))
		fmt.Fprintf(&b, "def %s_funcs : List String := %s\n", pk, leanList(funcs))
	}
	b.WriteString("end Dos.Gen.Bls\n")
	return b.String(), nil
}

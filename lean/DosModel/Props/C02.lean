/-
C02 — threshold recovery returns the unique group signature for any qualifying set.

Theorems about `Model/Tbls.lean` (byte-level model of `tbls.Recover` as repaired in /repo by
4404707, 3dee076, f036cda, 3cdfff8 on top of `share.RecoverCommit` as repaired by 2d8b40a), for an
ARBITRARY field `F` of scalars, `F`-module `G` of signature points, codec, public polynomial `f`
(ANY number of coefficients: a threshold `t` below it is refused by the code itself), hashed
message point `hm = H(m)`, share count `n` with `1..n ≠ 0` in `F`, and ARBITRARY list of byte
strings `sigs`.

`members cd f hm n sigs` is the set of member numbers `i < n` for which SOME entry of the list
carries index `i` and verifies (`= f(i+1) • H(m)` after decoding – any encoding, any position,
any multiplicity).  Everything else in the list (short entries, undecodable points, wrong index,
other message, other polynomial, index ≥ n) is junk.
-/
import DosModel.Proofs.Tbls
import DosModel.Proofs.ShareZq
import DosModel.Model.TblsDrv
import DosModel.Gen.PkgVars

set_option linter.unusedSectionVars false

namespace Dos.Props.C02
open Dos Dos.Share Dos.Tbls

variable {F : Type} [Field F] [DecidableEq F]
variable {G : Type} [AddCommGroup G] [Module F G] [DecidableEq G]

/-- regenerated from /repo: the share index is a 2-byte big-endian prefix (`SigShare.Index`), the
curve constants are the alt_bn128 ones. -/
theorem c02_code_facts :
    Gen.tblsIndexBytes = 2 ∧ Gen.tblsIndexBigEndian = true
    ∧ G1.p = 21888242871839275222246405745257275088696311157297823662689037894645226208583
    ∧ G1.r = 21888242871839275222246405745257275088548364400416034343698204186575808495617 := by
  decide

/-- **the code the model transcribes, statement by statement** (regenerated from `sign/tbls/tbls.go`,
`sign/bls/bls.go`, `share/poly.go` on every run, go/printer text with nesting depth): the index prefix
(`binary.Read` of a `uint16`, big-endian; `Value` = `[2:]`), `Sign`, `Verify`, `sliceUniqMap`, the whole loop
of `Recover` (threshold guard of 3cdfff8, skip on index error, `dup || i >= n`, skip on failed verification,
`return nil, err` on the second decode, `seen[i]`, `len(pubShares) >= t` / `break`), `bls.Sign` / `bls.Verify`
/ `hashToPoint`, and what `Recover` calls in `share/poly.go`. ANY edit breaks this obligation. -/
theorem c02_code_shape :
    Gen.TblsShape.sigShareIndex = [
      "0| func (s SigShare) Index() (int, error)",
      "1| var index uint16",
      "1| buf := bytes.NewReader(s)",
      "1| err := binary.Read(buf, binary.BigEndian, &index)",
      "1| if err != nil",
      "2| return -1, err",
      "1| return int(index), nil"
    ] ∧
    Gen.TblsShape.sigShareValue = [
      "0| func (s *SigShare) Value() []byte",
      "1| return []byte(*s)[2:]"
    ] ∧
    Gen.TblsShape.tblsSign = [
      "0| func Sign(suite suites.Suite, private *share.PriShare, msg []byte) ([]byte, error)",
      "1| buf := new(bytes.Buffer)",
      "1| if err := binary.Write(buf, binary.BigEndian, uint16(private.I)); err != nil",
      "2| return nil, err",
      "1| s, err := bls.Sign(suite, private.V, msg)",
      "1| if err != nil",
      "2| return nil, err",
      "1| if err := binary.Write(buf, binary.BigEndian, s); err != nil",
      "2| return nil, err",
      "1| return buf.Bytes(), nil"
    ] ∧
    Gen.TblsShape.tblsVerify = [
      "0| func Verify(suite suites.Suite, public *share.PubPoly, msg, sig []byte) error",
      "1| s := SigShare(sig)",
      "1| i, err := s.Index()",
      "1| if err != nil",
      "2| return err",
      "1| return bls.Verify(suite, public.Eval(i).V, msg, s.Value())"
    ] ∧
    Gen.TblsShape.sliceUniqMap = [
      "0| func sliceUniqMap(s [][]byte) [][]byte",
      "1| seen := make(map[string]struct{}, len(s))",
      "1| j := 0",
      "1| for _, v := range s",
      "2| if _, ok := seen[string(v)]; ok",
      "3| continue",
      "2| seen[string(v)] = struct{}{}",
      "2| s[j] = v",
      "2| j++",
      "1| return s[:j]"
    ] ∧
    Gen.TblsShape.tblsRecover = [
      "0| func Recover(suite suites.Suite, public *share.PubPoly, msg []byte, sigs [][]byte, t, n int) ([]byte, error)",
      "1| if t < public.Threshold()",
      "2| return nil, errors.New(\"tbls: threshold smaller than the threshold of the public polynomial\")",
      "1| pubShares := make([]*share.PubShare, 0)",
      "1| sigs = sliceUniqMap(sigs)",
      "1| seen := make(map[int]struct{})",
      "1| for _, sig := range sigs",
      "2| s := SigShare(sig)",
      "2| i, err := s.Index()",
      "2| if err != nil",
      "3| continue",
      "2| if _, dup := seen[i]; dup || i >= n",
      "3| continue",
      "2| if err = bls.Verify(suite, public.Eval(i).V, msg, s.Value()); err != nil",
      "3| continue",
      "2| point := suite.G1().Point()",
      "2| if err := point.UnmarshalBinary(s.Value()); err != nil",
      "3| return nil, err",
      "2| seen[i] = struct{}{}",
      "2| pubShares = append(pubShares, &share.PubShare{I: i, V: point})",
      "2| if len(pubShares) >= t",
      "3| break",
      "1| commit, err := share.RecoverCommit(suite.G1(), pubShares, t, n)",
      "1| if err != nil",
      "2| return nil, err",
      "1| sig, err := commit.MarshalBinary()",
      "1| if err != nil",
      "2| return nil, err",
      "1| return sig, nil"
    ] ∧
    Gen.TblsShape.blsSign = [
      "0| func Sign(suite suites.Suite, x kyber.Scalar, msg []byte) ([]byte, error)",
      "1| HM := hashToPoint(suite, msg)",
      "1| xHM := HM.Mul(x, HM)",
      "1| s, err := xHM.MarshalBinary()",
      "1| if err != nil",
      "2| return nil, err",
      "1| return s, nil"
    ] ∧
    Gen.TblsShape.blsVerify = [
      "0| func Verify(suite suites.Suite, X kyber.Point, msg, sig []byte) error",
      "1| HM := hashToPoint(suite, msg)",
      "1| s := suite.G1().Point()",
      "1| if err := s.UnmarshalBinary(sig); err != nil",
      "2| return err",
      "1| s.Neg(s)",
      "1| if !suite.PairingCheck([]kyber.Point{s, HM}, []kyber.Point{suite.G2().Point().Base(), X})",
      "2| return errors.New(\"bls: invalid signature\")",
      "1| return nil"
    ] ∧
    Gen.TblsShape.hashToPoint = [
      "0| func hashToPoint(suite suites.Suite, msg []byte) kyber.Point",
      "1| hash := sha3.NewLegacyKeccak256()",
      "1| var buf []byte",
      "1| hash.Write(msg)",
      "1| buf = hash.Sum(buf)",
      "1| x := suite.G1().Scalar().SetBytes(buf)",
      "1| point := suite.G1().Point().Mul(x, nil)",
      "1| return point"
    ] ∧
    Gen.TblsShape.recoverCommit = [
      "0| func RecoverCommit(g kyber.Group, shares []*PubShare, t, n int) (kyber.Point, error)",
      "1| x := make(map[int]kyber.Scalar)",
      "1| seen := make(map[int]struct{})",
      "1| for i, s := range shares",
      "2| if s == nil || s.V == nil || s.I < 0 || n <= s.I",
      "3| continue",
      "2| if _, dup := seen[s.I]; dup",
      "3| continue",
      "2| seen[s.I] = struct{}{}",
      "2| x[i] = g.Scalar().SetInt64(1 + int64(s.I))",
      "1| if len(x) < t",
      "2| return nil, errors.New(\"share: not enough good public shares to reconstruct secret commitment\")",
      "1| num := g.Scalar()",
      "1| den := g.Scalar()",
      "1| tmp := g.Scalar()",
      "1| Acc := g.Point().Null()",
      "1| Tmp := g.Point()",
      "1| for i, xi := range x",
      "2| num.One()",
      "2| den.One()",
      "2| for j, xj := range x",
      "3| if i == j",
      "4| continue",
      "3| num.Mul(num, xj)",
      "3| den.Mul(den, tmp.Sub(xj, xi))",
      "2| Tmp.Mul(num.Div(num, den), shares[i].V)",
      "2| Acc.Add(Acc, Tmp)",
      "1| return Acc, nil"
    ] ∧
    Gen.TblsShape.pubEval = [
      "0| func (p *PubPoly) Eval(i int) *PubShare",
      "1| xi := p.g.Scalar().SetInt64(1 + int64(i))",
      "1| v := p.g.Point().Null()",
      "1| for j := p.Threshold() - 1; j >= 0; j--",
      "2| v.Mul(xi, v)",
      "2| v.Add(v, p.commits[j])",
      "1| return &PubShare{i, v}"
    ] ∧
    Gen.TblsShape.pubThreshold = [
      "0| func (p *PubPoly) Threshold() int",
      "1| return len(p.commits)"
    ] ∧
    Gen.TblsShape.pubCommit = [
      "0| func (p *PubPoly) Commit() kyber.Point",
      "1| return p.commits[0]"
    ] :=
  ⟨rfl, rfl, rfl, rfl, rfl, rfl, rfl, rfl, rfl, rfl, rfl, rfl, rfl⟩

/-- **no state is carried from one call to the next** (regenerated from /repo on every run by
`go/extract/pkgvars`: ALL package-level `var` declarations): `sign/tbls` and `sign/bls` have none, `share`
has the two error values only and nothing outside `init` writes them. A memo table / pool / cache added to
one of the three packages breaks this obligation; it is what justifies modelling a sequence of calls by the
models of the calls. -/
theorem c02_no_package_state :
    Gen.PkgVars.signTbls = [] ∧ Gen.PkgVars.signBls = []
    ∧ Gen.PkgVars.share.map (fun v => (v.file, v.name)) = [("poly.go", "errorGroups"), ("poly.go", "errorCoeffs")]
    ∧ Gen.PkgVars.share.all (fun v => !v.written) = true := by decide

/-- **in a call history (`hist` lines, what `drv_c02` executes) only an explicit buffer write changes the
state**: `Recover`, `Verify`, `Sign` steps leave it as it is, so what a later call answers is a function of
its own arguments (and of the bytes its message buffer holds then) – never of the member sequences, shares
or results of earlier recoveries. -/
theorem hist_only_writes_change_state (t n : Nat) (f : List Fr) (bufs : List (Nat × Fr))
    (toks : List String) (h : toks.head? ≠ some "w") : (histTok t n f bufs toks).1 = bufs := by
  unfold histTok
  split
  · simp at h
  all_goals (first | rfl | (simp only []; split <;> rfl))

/-- **1. Lagrange at zero in the signature group** (the algebra behind recovery): for distinct
nodes `L` and a polynomial of degree `< |L|`,
`Σₐ ((Π_{b≠a} b) / Π_{b≠a} (b − a)) • (p(a) • H) = p(0) • H`. -/
theorem lagrange_zero (L : List F) (hL : L.Nodup) (p : Polynomial F) (hdeg : p.degree < L.length)
    (H : G) :
    (L.map fun a => ((1 * ((L.filter (· ≠ a)).map id).prod)
        * (((L.filter (· ≠ a)).map (fun b => b - a)).prod)⁻¹) • (p.eval a • H)).sum
      = p.eval 0 • H :=
  Lagrange.list_numden_smul_at_zero L hL p hdeg H

/-- **2. the unique group signature.** If the list contains valid shares of at least `t` distinct
members – in any order, with exact duplicates, alternative encodings, malformed, invalid,
re-indexed, foreign entries mixed in – `Recover` returns the encoding of `f(0) • H(m)`:
the ordinary BLS signature under the shared secret. -/
theorem recover_unique (cd : Codec G) (f : List F) (hm : G) (t n : Nat) (ht : 0 < t)
    (hf : f.length ≤ t) (hc : CharGt F n) (sigs : List Bytes)
    (hq : t ≤ (members cd f hm n sigs).card) :
    recover cd f hm sigs t n = .ok (blsSign cd (f.headD 0) hm) := by
  rw [recover_eq cd f hm t n ht hf hc sigs, if_pos hq]; rfl

/-- **subset / order independence**: any two qualifying lists give the same bytes. -/
theorem recover_subset_order_independent (cd : Codec G) (f : List F) (hm : G) (t n : Nat)
    (ht : 0 < t) (hf : f.length ≤ t) (hc : CharGt F n) (s₁ s₂ : List Bytes)
    (h₁ : t ≤ (members cd f hm n s₁).card) (h₂ : t ≤ (members cd f hm n s₂).card) :
    recover cd f hm s₁ t n = recover cd f hm s₂ t n := by
  rw [recover_unique cd f hm t n ht hf hc s₁ h₁, recover_unique cd f hm t n ht hf hc s₂ h₂]

/-- qualifying is about the SET of members with a valid entry: permuting the list, repeating
entries or inserting junk never changes it. -/
theorem members_perm_junk (cd : Codec G) (f : List F) (hm : G) (n : Nat) (s₁ s₂ : List Bytes)
    (h : ∀ e, validIdx cd f hm n e ≠ none → (e ∈ s₁ ↔ e ∈ s₂)) :
    members cd f hm n s₁ = members cd f hm n s₂ := by
  ext i
  simp only [members, List.mem_toFinset, List.mem_filterMap]
  constructor
  · rintro ⟨e, he, hv⟩; exact ⟨e, (h e (by simp [hv])).1 he, hv⟩
  · rintro ⟨e, he, hv⟩; exact ⟨e, (h e (by simp [hv])).2 he, hv⟩

/-- an alternative encoding of a valid share (anything that decodes to the same point under the
same index, e.g. trailing bytes) is again a valid share of the same member. -/
theorem reencoding_valid (cd : Codec G) (f : List F) (hm : G) (n : Nat) (e e' : Bytes) (i : Nat)
    (hv : validIdx cd f hm n e = some i) (hi : sigIndex e' = sigIndex e)
    (hd : cd.decode (sigValue e') = cd.decode (sigValue e)) :
    validIdx cd f hm n e' = some i := by
  unfold validIdx at hv ⊢
  rw [hi]
  cases hidx : sigIndex e with
  | none => simp [hidx] at hv
  | some j =>
    simp only [hidx] at hv ⊢
    have : blsVerify cd (priEval f (j : Int)) hm (sigValue e')
        = blsVerify cd (priEval f (j : Int)) hm (sigValue e) := by
      unfold blsVerify blsVerifyR; rw [hd]
    rw [this]; exact hv

/-- **3. it never panics**, for any public polynomial whatsoever and any entries. -/
theorem recover_total (cd : Codec G) (f : List F) (hm : G) (t n : Nat) (ht : 0 < t)
    (hc : CharGt F n) (sigs : List Bytes) :
    ∀ s, recover cd f hm sigs t n ≠ .panic s := by
  intro s
  rcases Tbls.recover_total cd f hm t n ht hc sigs with h | h | ⟨r, h⟩ <;> rw [h] <;> simp

/-- **the guard of /repo 3cdfff8**: a threshold smaller than the number of coefficients of the
public polynomial is refused, whatever the list holds (before the repair `t` shares of a polynomial
with more than `t` coefficients were interpolated into bytes that are not the group signature). -/
theorem recover_threshold_guard (cd : Codec G) (f : List F) (hm : G) (t n : Nat) (sigs : List Bytes)
    (hlt : t < f.length) : recover cd f hm sigs t n = .errThreshold :=
  recover_guard cd f hm t n sigs hlt

/-- **the complete case distinction, NO hypothesis on the polynomial**: refused if `t` is below the
number of coefficients; otherwise the group signature if `≥ t` members qualify, else "not enough
shares". -/
theorem recover_characterised (cd : Codec G) (f : List F) (hm : G) (t n : Nat) (ht : 0 < t)
    (hc : CharGt F n) (sigs : List Bytes) :
    recover cd f hm sigs t n
      = if t < f.length then .errThreshold
        else if t ≤ (members cd f hm n sigs).card then .ok (blsSign cd (f.headD 0) hm)
        else .errFew :=
  recover_eq_full cd f hm t n ht hc sigs

/-- **whatever `Recover` returns is the group signature** – no hypothesis relating `t` to the
polynomial: the guard supplies `len f ≤ t`. -/
theorem recover_ok_is_group_signature (cd : Codec G) (f : List F) (hm : G) (t n : Nat) (ht : 0 < t)
    (hc : CharGt F n) (sigs : List Bytes) (s : Bytes) (h : recover cd f hm sigs t n = .ok s) :
    s = blsSign cd (f.headD 0) hm ∧ f.length ≤ t ∧ t ≤ (members cd f hm n sigs).card := by
  rw [recover_characterised cd f hm t n ht hc sigs] at h
  split_ifs at h with h1 h2
  · injection h with h
    exact ⟨h.symm, Nat.le_of_not_lt h1, h2⟩

/-- **`Recover` compacts the caller's slice in place** (`sliceUniqMap` writes `s[j] = v`); what is left in it
is the same SET of entries, so a second `Recover` on the same slice object answers what the first did. -/
theorem recover_after_in_place_compaction (cd : Codec G) (f : List F) (hm : G) (t n : Nat) (ht : 0 < t)
    (hc : CharGt F n) (sigs : List Bytes) :
    recover cd f hm (uniqInPlace sigs) t n = recover cd f hm sigs t n := by
  rw [recover_eq_full cd f hm t n ht hc, recover_eq_full cd f hm t n ht hc sigs, members_uniqInPlace]

/-- a share produced by `tbls.Sign` for member `i < n` is valid (given a codec that round-trips
and an index that fits the 2-byte prefix) -/
theorem signed_share_valid (cd : Codec G) (hcd : ∀ p, cd.decode (cd.encode p) = some p)
    (f : List F) (hm : G) (n i : Nat) (hi : i < n) (h16 : i < 65536) :
    validIdx cd f hm n (tblsSign cd f hm i) = some i := by
  have hidx : sigIndex (tblsSign cd f hm i) = some i := by
    simp only [tblsSign, natBE, List.cons_append, sigIndex, List.nil_append]
    simp only [UInt8.toNat_ofNat']
    congr 1; omega
  have hval : sigValue (tblsSign cd f hm i) = blsSign cd (priEval f (i : Int)) hm := by
    simp [tblsSign, sigValue, natBE]
  unfold validIdx
  rw [hidx]
  simp only [hval]
  have : blsVerify cd (priEval f (i : Int)) hm (blsSign cd (priEval f (i : Int)) hm) = true := by
    rw [blsVerify_iff]; exact hcd _
  simp [hi, this]

/-- **the wire format of a share has a 2-byte index**: for ANY member number `i` (also `i ≥ 2^16`) what
`tbls.Sign` emits carries index `i mod 2^16` (`uint16(private.I)`) in front of `x_i • H(m)`. The format
therefore addresses members `0 … 65535` only – a declared limit of the format (the same in dedis/kyber),
not a defect of recovery: a share of member `i ≥ 2^16` is labelled with another member's number and is then
an "other index" share, which `Verify` / `Recover` never count (`C03.oversize_member_share_never_counts`). -/
theorem signed_share_index_truncated (cd : Codec G) (f : List F) (hm : G) (i : Nat) :
    sigIndex (tblsSign cd f hm i) = some (i % 65536)
    ∧ sigValue (tblsSign cd f hm i) = blsSign cd (priEval f (i : Int)) hm := by
  constructor
  · simp only [tblsSign, natBE, List.cons_append, sigIndex, List.nil_append]
    simp only [UInt8.toNat_ofNat']
    congr 1; omega
  · simp [tblsSign, sigValue, natBE]

/-! ### the driver's instance: scalars `Zq r` (a field for prime `r`) -/

theorem zqCharGt (q : Nat) [Fact q.Prime] (n : Nat) (hn : n < q) : CharGt (Zq q) n := by
  intro k hk hkn h0
  have h1 : Zq.toZMod ((k : Nat) : Zq q) = 0 := by rw [h0]; exact Zq.toZMod_zero
  rw [Zq.toZMod_natCast, ZMod.natCast_eq_zero_iff] at h1
  exact absurd (Nat.le_of_dvd hk h1) (by omega)

theorem recover_unique_driver_scalars (q : Nat) [Fact q.Prime] {G : Type} [AddCommGroup G]
    [Module (Zq q) G] [DecidableEq G] (cd : Codec G) (f : List (Zq q)) (hm : G) (t n : Nat)
    (ht : 0 < t) (hf : f.length ≤ t) (hn : n < q) (sigs : List Bytes)
    (hq : t ≤ (members cd f hm n sigs).card) :
    recover cd f hm sigs t n = .ok (blsSign cd (f.headD 0) hm) :=
  recover_unique cd f hm t n ht hf (zqCharGt q n hn) sigs hq

/-! ### non-vacuity (dlog representation `G := Zq 11`, identity-like codec on one byte) -/

instance : Fact (Nat.Prime 11) := ⟨by decide⟩

/-- toy codec: a point of `Zq 11` is one byte; longer input is accepted (tail ignored) -/
def toyCodec : Codec (Zq 11) :=
  ⟨fun b => match b with
    | x :: _ => if h : x.toNat < 11 then some ⟨x.toNat, h⟩ else none
    | [] => none,
   fun p => [UInt8.ofNat p.val]⟩

/-- `f = 4 + 3x`, `H = 2`: shares of members 0,1,2 are `7•2=3, 10•2=9, 13•2=4 (mod 11)`.
The list: junk, member 2, member 2 re-encoded with a trailing byte, a too-short entry, member 0
with a wrong value, member 0 – two members qualify for `t = 2`. -/
example : recover toyCodec [(4 : Zq 11), 3] 2
    [[0, 9, 200], [0, 2, 4], [0, 2, 4, 77], [5], [0, 0, 8], [0, 0, 3]] 2 3
    = .ok (blsSign toyCodec (4 : Zq 11) 2) := by decide

example : (members toyCodec [(4 : Zq 11), 3] 2 3
    [[0, 9, 200], [0, 2, 4], [0, 2, 4, 77], [5], [0, 0, 8], [0, 0, 3]]).card = 2 := by decide

example : recover toyCodec [(4 : Zq 11), 3] 2 [[0, 2, 4], [0, 2, 4, 77], [5], [0, 0, 8]] 2 3
    = .errFew := by decide

theorem toyCodec_roundtrip : ∀ p : Zq 11, toyCodec.decode (toyCodec.encode p) = some p := by
  rintro ⟨v, hv⟩
  have h : (UInt8.ofNat v).toNat = v := by
    simp only [UInt8.toNat_ofNat']; omega
  simp [toyCodec, h, hv]

/-- the hypotheses of `recover_unique` hold for that list (members 0 and 2 qualify) -/
example : recover toyCodec [(4 : Zq 11), 3] 2
    [[0, 9, 200], [0, 2, 4], [0, 2, 4, 77], [5], [0, 0, 8], [0, 0, 3]] 2 3
    = .ok (blsSign toyCodec (4 : Zq 11) 2) :=
  recover_unique_driver_scalars 11 toyCodec [(4 : Zq 11), 3] 2 2 3 (by decide) (by decide)
    (by decide) _ (by decide)

example : validIdx toyCodec [(4 : Zq 11), 3] 2 3 (tblsSign toyCodec [(4 : Zq 11), 3] 2 1) = some 1 :=
  signed_share_valid toyCodec toyCodec_roundtrip _ _ 3 1 (by decide) (by decide)

/-- `recover_subset_order_independent`: members {0,2} with junk and a re-encoding vs members {1,2}
in another order -/
example : recover toyCodec [(4 : Zq 11), 3] 2
    [[0, 9, 200], [0, 2, 4], [0, 2, 4, 77], [5], [0, 0, 8], [0, 0, 3]] 2 3
    = recover toyCodec [(4 : Zq 11), 3] 2 [[0, 2, 4, 1, 2, 3], [], [0, 1, 9], [0, 2, 4]] 2 3 :=
  recover_subset_order_independent toyCodec [(4 : Zq 11), 3] 2 2 3 (by decide) (by decide)
    (zqCharGt 11 3 (by decide)) _ _ (by decide) (by decide)

/-- `members_perm_junk`: reversed, one entry repeated, junk replaced by other junk -/
example : members toyCodec [(4 : Zq 11), 3] 2 3 [[0, 9, 200], [0, 2, 4], [5], [0, 0, 3]]
    = members toyCodec [(4 : Zq 11), 3] 2 3 [[0, 0, 3], [0, 0, 3], [7, 7], [0, 2, 4]] := by decide

/-- `reencoding_valid`: member 2's share with three trailing bytes -/
example : validIdx toyCodec [(4 : Zq 11), 3] 2 3 [0, 2, 4, 9, 9, 9] = some 2 :=
  reencoding_valid toyCodec [(4 : Zq 11), 3] 2 3 [0, 2, 4] [0, 2, 4, 9, 9, 9] 2 (by decide)
    (by decide) (by decide)

/-- `recover_total`: a list that used to panic (member 2 under two encodings, F1) -/
example : recover toyCodec [(4 : Zq 11), 3] 2 [[0, 2, 4], [0, 2, 4, 77], [0, 0, 3]] 2 3
    ≠ .panic .div0 :=
  recover_total toyCodec [(4 : Zq 11), 3] 2 2 3 (by decide) (zqCharGt 11 3 (by decide)) _ .div0

/-- `recover_threshold_guard`: the input of the repaired defect (coefficients 4,3,1, `t = 2`,
shares of members 0 and 1): refused -/
example : recover toyCodec [(4 : Zq 11), 3, 1] 2 [[0, 0, 5], [0, 1, 6]] 2 3 = .errThreshold :=
  recover_threshold_guard toyCodec [(4 : Zq 11), 3, 1] 2 2 3 _ (by decide)

example : recover toyCodec [(4 : Zq 11), 3, 1] 2 [[0, 0, 5], [0, 1, 6]] 2 3 = .errThreshold := by
  decide

/-- `recover_ok_is_group_signature` on the qualifying list -/
example : blsSign toyCodec (4 : Zq 11) 2 = blsSign toyCodec (([(4 : Zq 11), 3]).headD 0) 2
    ∧ ([(4 : Zq 11), 3]).length ≤ 2 ∧ 2 ≤ (members toyCodec [(4 : Zq 11), 3] 2 3
        [[0, 9, 200], [0, 2, 4], [0, 2, 4, 77], [5], [0, 0, 8], [0, 0, 3]]).card :=
  recover_ok_is_group_signature toyCodec [(4 : Zq 11), 3] 2 2 3 (by decide)
    (zqCharGt 11 3 (by decide)) _ _ (by decide)

/-- `hist_only_writes_change_state`: a `Recover` step over two entries leaves the buffer table alone -/
example : (histTok 2 3 [(4 : Fr), 3] [(0, 5)] ["r", "0", "0000aa;0001bb"]).1 = [(0, 5)] :=
  hist_only_writes_change_state 2 3 _ _ _ (by decide)

/-- `signed_share_index_truncated`: member 65538's share is labelled 2 -/
example : sigIndex (tblsSign toyCodec [(4 : Zq 11), 3] 2 65538) = some 2 :=
  (signed_share_index_truncated toyCodec [(4 : Zq 11), 3] 2 65538).1

/-- `recover_after_in_place_compaction`: `[a, a, b]` is `[a, b, b]` in the caller's slice afterwards -/
example : uniqInPlace [[0, 2, 4], [0, 2, 4], [0, 0, 3]] = [[0, 2, 4], [0, 0, 3], [0, 0, 3]] := by decide

example : recover toyCodec [(4 : Zq 11), 3] 2 (uniqInPlace [[0, 2, 4], [0, 2, 4], [0, 0, 3]]) 2 3
    = recover toyCodec [(4 : Zq 11), 3] 2 [[0, 2, 4], [0, 2, 4], [0, 0, 3]] 2 3 :=
  recover_after_in_place_compaction toyCodec _ 2 2 3 (by decide) (zqCharGt 11 3 (by decide)) _

end Dos.Props.C02

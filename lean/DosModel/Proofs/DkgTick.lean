/-
Helper lemmas for the watchdog theorems of `Props/C04.lean`: `expire` leaves a session without a
registered request alone, a member that has not called `Grouping` has no request registered, and a
tick at which no context is done changes nothing.
-/
import DosModel.Model.DkgTick
import DosModel.Proofs.DkgLiveGlobal

set_option linter.unusedSectionVars false

namespace Dos.Dkg
open Dos Dos.Vss

variable {F G : Type} [Field F] [AddCommGroup G] [Module F G] [DecidableEq F] [DecidableEq G]

theorem expire_unregistered {M : Type} (p : Pair M) (done : Bool) (h : p.req = none) : expire p done = (p, false) := by
  unfold expire; rw [h]

theorem expire_false {M : Type} (p : Pair M) : expire p false = (p, false) := by
  unfold expire; cases p.req <;> rfl

/-- no request of this member is registered with its `Loop` -/
def Unregistered (m : Member F G) : Prop := m.pkP.req = none ∧ m.dlP.req = none ∧ m.rsP.req = none

theorem tick_unregistered (m : Member F G) (done : Bool) (h : Unregistered m) : m.tick done = m := by
  obtain ⟨h1, h2, h3⟩ := h
  unfold Member.tick Member.tickWith
  simp only [expire_unregistered _ done h1, expire_unregistered _ done h2, expire_unregistered _ done h3,
    Bool.or_self, Bool.false_eq_true, if_false]

theorem tick_false (m : Member F G) : m.tick false = m := by
  unfold Member.tick Member.tickWith
  simp only [expire_false, Bool.or_self, Bool.false_eq_true, if_false]

theorem handlePeerMsg_unregistered {M : Type} (dup : M → M → Bool) (p : Pair M) (x : M) (h : p.req = none) :
    (handlePeerMsg dup p x).1.req = none ∧ (handlePeerMsg dup p x).2 = none ∧
    (∀ y, y ∈ p.buf → y ∈ (handlePeerMsg dup p x).1.buf) := by
  unfold handlePeerMsg
  by_cases hd : p.buf.any (fun y => dup y x) = true
  · simp [hd, h]
  · simp only [hd, Bool.false_eq_true, if_false, h]
    exact ⟨by trivial, by trivial, fun y hy => List.mem_append_left _ hy⟩

/-- a member that has not called `Grouping` yet: stage `idle`, nothing registered -/
def BeforeStart (m : Member F G) : Prop := m.stage = .idle ∧ Unregistered m

theorem advance_idle (g : G) (fuel : Nat) (m : Member F G) (h : m.stage = .idle) : Member.advance g fuel m = m := by
  cases fuel with
  | zero => rfl
  | succ k => unfold Member.advance; simp [h]

theorem beforeStart_init (n index : Nat) (long : F) (f ephs : List F) :
    BeforeStart (Member.init (S := F) (P := G) n index long f ephs) := ⟨rfl, rfl, rfl, rfl⟩

theorem beforeStart_recvPk (g : G) (m : Member F G) (x : PkMsg G) (h : BeforeStart m) :
    BeforeStart (m.recvPk g x) ∧ ∀ y, y ∈ m.pkP.buf → y ∈ (m.recvPk g x).pkP.buf := by
  obtain ⟨hs, h1, h2, h3⟩ := h
  obtain ⟨a, _, c⟩ := handlePeerMsg_unregistered dupPk m.pkP x h1
  unfold Member.recvPk
  rcases hh : handlePeerMsg dupPk m.pkP x with ⟨p, b⟩
  rw [hh] at a c
  simp only at a c ⊢
  rw [advance_idle g 4 { m with pkP := p, pkBox := orElse m.pkBox b } hs]
  exact ⟨⟨hs, a, h2, h3⟩, c⟩

theorem beforeStart_recvDeal (g : G) (m : Member F G) (x : DkgDeal F G) (h : BeforeStart m) :
    BeforeStart (m.recvDeal g x) ∧ ∀ y, y ∈ m.dlP.buf → y ∈ (m.recvDeal g x).dlP.buf := by
  obtain ⟨hs, h1, h2, h3⟩ := h
  obtain ⟨a, _, c⟩ := handlePeerMsg_unregistered dupDeal m.dlP x h2
  unfold Member.recvDeal
  rcases hh : handlePeerMsg dupDeal m.dlP x with ⟨p, b⟩
  rw [hh] at a c
  simp only at a c ⊢
  rw [advance_idle g 4 { m with dlP := p, dlBox := orElse m.dlBox b } hs]
  exact ⟨⟨hs, h1, a, h3⟩, c⟩

theorem beforeStart_recvResp (g : G) (m : Member F G) (x : DkgResp F G) (h : BeforeStart m) :
    BeforeStart (m.recvResp g x) ∧ ∀ y, y ∈ m.rsP.buf → y ∈ (m.recvResp g x).rsP.buf := by
  obtain ⟨hs, h1, h2, h3⟩ := h
  obtain ⟨a, _, c⟩ := handlePeerMsg_unregistered dupResp m.rsP x h3
  unfold Member.recvResp
  rcases hh : handlePeerMsg dupResp m.rsP x with ⟨p, b⟩
  rw [hh] at a c
  simp only at a c ⊢
  rw [advance_idle g 4 { m with rsP := p, rsBox := orElse m.rsBox b } hs]
  exact ⟨⟨hs, h1, h2, a⟩, c⟩

theorem modify_id' {α : Type} (f : α → α) (hf : ∀ x, f x = x) (l : List α) (i : Nat) : l.modify i f = l := by
  have : f = id := funext hf
  rw [this, List.modify_id]

theorem stepEvT_tick_false (g : G) (s : Sys F G) (i : Nat) : stepEvT g s (.tick i false) = s := by
  show ({ s with ms := s.ms.modify i (fun m => m.tick false) } : Sys F G) = s
  rw [modify_id' _ (fun m => tick_false m)]

/-- ticks at which no context is done are invisible: the run is the run of the schedule without them -/
theorem runEventsT_dropTicks (g : G) : ∀ (evs : List EvT) (s : Sys F G),
    (∀ i d, EvT.tick i d ∈ evs → d = false) → evs.foldl (stepEvT g) s = (dropTicks evs).foldl (stepEv g) s
  | [], _, _ => rfl
  | .ev e :: r, s, h => by
    simp only [List.foldl_cons, dropTicks, stepEvT]
    exact runEventsT_dropTicks g r _ (fun i d hm => h i d (List.mem_cons_of_mem _ hm))
  | .tick i d :: r, s, h => by
    have hd : d = false := h i d (List.mem_cons_self ..)
    subst hd
    simp only [List.foldl_cons, dropTicks, stepEvT_tick_false]
    exact runEventsT_dropTicks g r _ (fun i d hm => h i d (List.mem_cons_of_mem _ hm))

/-- what can happen at a member before its own `Grouping` call: arrivals and watchdog ticks -/
inductive PreEv (F G : Type) where
  | pk (x : PkMsg G)
  | deal (x : DkgDeal F G)
  | resp (x : DkgResp F G)
  | tick (done : Bool)

def preStep (g : G) (m : Member F G) : PreEv F G → Member F G
  | .pk x => m.recvPk g x
  | .deal x => m.recvDeal g x
  | .resp x => m.recvResp g x
  | .tick done => m.tick done

/-- the same history with the ticks left out -/
def preStepNoTick (g : G) (m : Member F G) : PreEv F G → Member F G
  | .tick _ => m
  | e => preStep g m e

theorem preStep_beforeStart (g : G) (m : Member F G) (e : PreEv F G) (h : BeforeStart m) :
    BeforeStart (preStep g m e) ∧ preStep g m e = preStepNoTick g m e := by
  cases e with
  | pk x => exact ⟨(beforeStart_recvPk g m x h).1, rfl⟩
  | deal x => exact ⟨(beforeStart_recvDeal g m x h).1, rfl⟩
  | resp x => exact ⟨(beforeStart_recvResp g m x h).1, rfl⟩
  | tick done =>
    have := tick_unregistered m done h.2
    exact ⟨by simp only [preStep, this]; exact h, by simp only [preStep, preStepNoTick, this]⟩

theorem pre_fold (g : G) : ∀ (evs : List (PreEv F G)) (m : Member F G), BeforeStart m →
    evs.foldl (preStep g) m = evs.foldl (preStepNoTick g) m ∧ BeforeStart (evs.foldl (preStep g) m)
  | [], _, h => ⟨rfl, h⟩
  | e :: r, m, h => by
    obtain ⟨h1, h2⟩ := preStep_beforeStart g m e h
    simp only [List.foldl_cons]
    rw [← h2]
    exact pre_fold g r _ h1

end Dos.Dkg

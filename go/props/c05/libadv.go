package c05

import (
	"fmt"
	"strings"

	"verifharness/internal/dkgnet"
	"verifharness/internal/h"
)

// libadv lines (language: dkgnet.RunLibLine): the LIBRARY-level adversarial family (round 5, review C finding 1).
// Real DistKeyGenerators of all members are driven directly – ProcessDeal / ProcessResponse / ProcessJustification –
// so nothing but the library itself stands between a fault and Certified()/QUAL()/DistKeyShare(), the observation
// point the property names. The Byzantine seat b deals ONE consistent polynomial of its own to everybody (so that the
// other members' approvals fit the victim's aggregator) except for the deviation under test.

func execLib(w []string) (res h.Result) {
	impl, l := dkgnet.RunLibLine(w[:5])
	res.Impl = impl
	res.Nontrivial = true
	outs := l.Outcomes()
	nfin := 0
	for k := 0; k < l.N; k++ {
		if k != l.B && outs[k].Finished {
			nfin++
		}
	}
	res.Class = fmt.Sprintf("libadv-n%d-honestfin%d", l.N, nfin)
	res.Oracle = l.Oracle()
	return
}

// deal variants of the catalogue for the victim (polynomial 7 of the sealer is the one everybody else is dealt)
var libDealVariants = []string{
	"bad7", "good8", "xw7_8", "xw8_7", "T0p7", "T1p7", "TN1p7", "T4294967295p7", "Tx0p7", "Tx1p7", "TxN1p7",
	"Tc0p6", "Tc1p6", "Tc2p6", "TcN1p6", "TcNNp6", "idx0p7", "idx1p7", "idx-1p7", "idxP32p7", "idxM32p7", "idxP62p7",
	"clen1p7", "clenN1p7", "nilshare7", "nilv7", "sidraw7", "junk", "nil",
}

func libVariant(v string, n, i int) string {
	v = strings.ReplaceAll(strings.ReplaceAll(v, "N1", fmt.Sprint(n+1)), "NN", fmt.Sprint(2*n))
	return wideIndex(v, i)
}

// libRun assembles a run: deals (b's replaced per recipient by dealOf), then responses (b's about dealer js replaced
// by respOf), then extra events; order: "canon", "respfirst" (everything for member `first` in reverse phase order),
// "shuffle" (seeded permutation of all events), "twice" (everything delivered twice).
func libRun(rng *h.Rng, n, b int, dealOf func(i int) string, respOf func(js, i int) []string, extra []string, order string) string {
	var ds, rs []string
	for i := 0; i < n; i++ {
		for j := 0; j < n; j++ {
			if j == i {
				continue
			}
			if j == b && i != b && dealOf != nil {
				if v := dealOf(i); v != "" {
					ds = append(ds, fmt.Sprintf("D.%d.%d.%d.%s@%d", b, b, i, libVariant(v, n, i), i))
					continue
				}
			}
			ds = append(ds, fmt.Sprintf("d%d.%d", j, i))
		}
	}
	for k := 0; k < n; k++ {
		for j := 0; j < n; j++ {
			if j == k {
				continue
			}
			for i := 0; i < n; i++ {
				if i == k {
					continue
				}
				if k == b && i != b && respOf != nil {
					if sp := respOf(j, i); sp != nil {
						for _, x := range sp {
							rs = append(rs, fmt.Sprintf("%s@%d", x, i))
						}
						continue
					}
				}
				rs = append(rs, fmt.Sprintf("r%d.%d.%d", k, j, i))
			}
		}
	}
	var ev []string
	switch order {
	case "respfirst":
		ev = append(append(append([]string{}, rs...), ds...), rs...)
	case "shuffle":
		all := append(append([]string{}, ds...), rs...)
		for _, q := range rng.Perm(len(all)) {
			ev = append(ev, all[q])
		}
		// what could not be delivered yet (a response before it existed) is delivered once more, in order
		ev = append(append(ev, ds...), rs...)
	case "twice":
		ev = append(append(append(append([]string{}, ds...), rs...), ds...), rs...)
	default:
		ev = append(append([]string{}, ds...), rs...)
	}
	ev = append(ev, extra...)
	return fmt.Sprintf("libadv %d %d %d %s", rng.U64()>>1, n, b, strings.Join(ev, ","))
}

func genLib(tier string, rng *h.Rng, emit func(string)) {
	thorough := tier == "thorough"
	for n := 3; n <= 5; n++ {
		bs := []int{n - 1}
		if n == 3 {
			bs = append(bs, 0)
		}
		for _, b := range bs {
			var hon []int
			for k := 0; k < n; k++ {
				if k != b {
					hon = append(hon, k)
				}
			}
			keep := func(den int) bool {
				if n == 3 && b == n-1 {
					den = 2
				} else if n == 5 {
					den *= 4
				} else {
					den *= 2
				}
				return thorough || rng.Intn(den) == 0
			}
			// quick tier: sub-sampling of the secondary dimensions (orders, justification variants) for every n
			some := func(den int) bool {
				if n == 5 {
					den *= 2
				}
				return thorough || rng.Intn(den) == 0
			}
			orders := []string{"canon", "shuffle"}
			if thorough {
				orders = []string{"canon", "respfirst", "shuffle", "shuffle", "twice"}
			}
			// 0. nobody deviates; b deals a consistent polynomial of its own to everybody
			for q, o := range []string{"canon", "respfirst", "shuffle", "twice"} {
				if q == 0 || some(2) {
					emit(libRun(rng, n, b, nil, nil, nil, o))
					emit(libRun(rng, n, b, func(int) string { return "good7" }, nil, nil, o))
				}
			}
			// 1. one victim is dealt a deviation, everybody else the consistent polynomial 7; then: nothing / a valid /
			//    an invalid / a foreign-index justification to the victim / to everybody
			for _, victim := range hon {
				for _, variant := range libDealVariants {
					if !keep(4) {
						continue
					}
					dealOf := func(i int) string {
						if i == victim {
							return variant
						}
						return "good7"
					}
					for q, o := range orders {
						if q == 0 || some(4) {
							emit(libRun(rng, n, b, dealOf, nil, nil, o))
						}
					}
					other := hon[(indexOf(hon, victim)+1)%len(hon)]
					for _, js := range [][]string{
						{fmt.Sprintf("J.%d.%d.%d.good7@%d", b, victim, b, victim)},
						{fmt.Sprintf("J.%d.%d.%d.bad7@%d", b, victim, b, victim)},
						{fmt.Sprintf("J.%d.%d.%d.good7@%d", b, victim, b, victim), fmt.Sprintf("J.%d.%d.%d.good7@%d", b, victim, b, other)},
						{fmt.Sprintf("J.%d.%d.%d.good7@%d", b, other, b, victim)}, // the valid deal of ANOTHER index as justification
						{fmt.Sprintf("J.%d.%d.%d.good8@%d", b, victim, b, victim)},
					} {
						if !some(8) {
							continue
						}
						var extra []string
						extra = append(extra, js...)
						// after the justification everything is delivered once more
						emit(libRun(rng, n, b, dealOf, nil, extra, "canon"))
						emit(libRun(rng, n, b, dealOf, nil, js, "twice"))
					}
				}
			}
			// 2. everybody is dealt a deviation
			for _, variant := range []string{"bad7", "Tc1p9", "TcN1p9", "Tc2p6", "idxP32p7", "clenN1p8", "T1p7"} {
				emit(libRun(rng, n, b, func(int) string { return variant }, nil, nil, "canon"))
			}
			emit(libRun(rng, n, b, func(i int) string { return fmt.Sprintf("good%d", 10+i) }, nil, nil, "canon"))
			emit(libRun(rng, n, b, func(i int) string { return fmt.Sprintf("xw%d_%d", 10+i, 10+(i+1)%n) }, nil, nil, "canon"))
			// 3. b's response about an honest dealer js is forged / a complaint; the dealer's justification is then
			//    delivered to nobody / to everybody
			respVariants := []func(js int) []string{
				func(js int) []string { return []string{fmt.Sprintf("R.%d.%d.cur%d.a.junk", js, b, js)} },
				func(js int) []string { return []string{fmt.Sprintf("R.%d.%d.cur%d.a.none", js, b, js)} },
				func(js int) []string { return []string{fmt.Sprintf("R.%d.%d.raw.a.%d", js, b, b)} },
				func(js int) []string { return []string{fmt.Sprintf("R.%d.%d.cur%d.a.%d", js, b, (js+1)%n, b)} },
				func(js int) []string { return []string{fmt.Sprintf("R.%d.%d.cur%d.c.%d", js, b, js, b)} },
				func(js int) []string { return []string{fmt.Sprintf("RN.%d", js)} },
				func(js int) []string { return []string{fmt.Sprintf("R.%d.%d.cur%d.a.%d", js, n+2, js, b)} },
				func(js int) []string { return []string{fmt.Sprintf("R.%d.%d.cur%d.a.%d", js, (b+1)%n, js, b)} },
				func(js int) []string { // complaint first, approval second (duplicate slot)
					return []string{fmt.Sprintf("R.%d.%d.cur%d.c.%d", js, b, js, b), fmt.Sprintf("R.%d.%d.cur%d.a.%d", js, b, js, b)}
				},
			}
			for _, jstar := range hon {
				for _, rv := range respVariants {
					if !some(5) {
						continue
					}
					respOf := func(js, i int) []string {
						if js == jstar {
							return rv(js)
						}
						return nil
					}
					emit(libRun(rng, n, b, func(int) string { return "good7" }, respOf, nil, "canon"))
					var extra []string
					for _, i := range hon {
						if i != jstar {
							extra = append(extra, fmt.Sprintf("j%d.%d.%d", jstar, b, i))
						}
					}
					emit(libRun(rng, n, b, func(int) string { return "good7" }, respOf, extra, "canon"))
					emit(libRun(rng, n, b, func(int) string { return "good7" }, respOf, extra, "shuffle"))
				}
			}
			// 4. two deviations: a deal variant for one victim and a response fault about another dealer
			np := 6
			if thorough {
				np = 150
			}
			for c := 0; c < np; c++ {
				victim := hon[rng.Intn(len(hon))]
				variant := libDealVariants[rng.Intn(len(libDealVariants))]
				jstar := hon[rng.Intn(len(hon))]
				rv := respVariants[rng.Intn(len(respVariants))]
				dealOf := func(i int) string {
					if i == victim {
						return variant
					}
					return "good7"
				}
				respOf := func(js, i int) []string {
					if js == jstar {
						return rv(js)
					}
					return nil
				}
				extra := []string{fmt.Sprintf("J.%d.%d.%d.good7@%d", b, victim, b, victim)}
				emit(libRun(rng, n, b, dealOf, respOf, extra, []string{"canon", "shuffle", "twice"}[rng.Intn(3)]))
			}
		}
	}
}

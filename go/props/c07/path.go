package c07

// The signed content on its way to the chain (round 4).
//
//	path sys <lastRand> <addr>
//	path user <reqId> <lastRand> <seed> <addr>
//	path url <doc> <addr>                 (empty selector: the result is the document)
//
// The real content stage of the kind, then the real genSign (1-of-1 group: this node's share is the
// whole group), the real recoverSign and the real reportQueryResult on a recording chain double.
// Printed: "rand <result>" (UpdateRandomness) / "data <result>" (DataReturn) / "skipped" (content
// shorter than an address: nothing is reported). Oracle: the kind of call fits the request kind;
// the reported result is the signed string without its last 20 bytes; the reported signature
// verifies under the group key for result ‖ addr (what the contract checks); the request id and
// type of the report are the request's.

import (
	"bytes"
	"context"
	"fmt"
	"math/big"
	"time"

	"github.com/DOSNetwork/core/dosnode"
	vss "github.com/DOSNetwork/core/share/vss/pedersen"
	"github.com/DOSNetwork/core/sign/bls"

	"verifharness/internal/doubles"
	"verifharness/internal/h"
)

func execPath(w []string) (res h.Result) {
	res.Nontrivial = true
	res.Class = "path " + w[1]
	var content []byte
	var tag string
	var ptype uint32
	var rid []byte
	var addr []byte
	switch w[1] {
	case "sys":
		r := h.BigDec(w[2])
		addr = exact(h.UnHex(w[3]))
		content, tag = stageSys(r.Bytes(), addr)
		ptype, rid = 0, r.Bytes()
	case "user":
		q, r, s := h.BigDec(w[2]), h.BigDec(w[3]), h.BigDec(w[4])
		addr = exact(h.UnHex(w[5]))
		content, tag = stageUser(q.Bytes(), r.Bytes(), s.Bytes(), addr)
		ptype, rid = 1, q.Bytes()
	case "url":
		doc := exact(h.UnHex(w[2]))
		addr = exact(h.UnHex(w[3]))
		url := docURL(doc)
		content, tag = stageQuery(url, "", addr)
		ptype, rid = 2, big.NewInt(77).Bytes()
	default:
		panic("bad path line")
	}
	if tag != "" {
		res.Impl = "no content: " + tag
		res.Oracle = "path-content: the content stage produced nothing"
		return
	}
	signed := exact(content) // what the member signs
	g := oneOfOne()
	ctx, cancel := context.WithTimeout(context.Background(), 20*time.Second)
	defer cancel()
	contentc := make(chan []byte, 1)
	contentc <- content
	close(contentc)
	sign := &vss.Signature{Index: ptype, RequestId: rid}
	signc, errc1 := dosnode.VerifGenSign(ctx, contentc, g.sec, suite, sign, quiet)
	recovered, errc2 := dosnode.VerifRecoverSign(ctx, signc, suite, g.pub, 1, 1, quiet)
	chain := &doubles.Chain{}
	errc3 := dosnode.VerifReportQueryResult(ctx, chain, ptype, recovered)
	go func() {
		for range errc1 {
		}
	}()
	go func() {
		for range errc2 {
		}
	}()
	for range errc3 { // closed when the report stage is through (an error = "no signature": nothing to report)
	}
	reps := chain.Reports()
	var o []string
	switch {
	case len(reps) == 0:
		res.Impl = "skipped"
		if len(signed) >= 20 {
			o = append(o, "path-report: a signed content of at least 20 bytes was not reported")
		}
	case len(reps) > 1:
		res.Impl = fmt.Sprintf("%d reports", len(reps))
		o = append(o, "path-report: more than one report for one request")
	default:
		rp := reps[0]
		res.Impl = rp.Kind + " " + h.Hex(rp.Sig.Content)
		if (w[1] == "sys") != (rp.Kind == "rand") {
			o = append(o, "path-kind: request kind "+w[1]+" was reported with the "+rp.Kind+" call")
		}
		if len(signed) < 20 || !bytes.Equal(rp.Sig.Content, signed[:len(signed)-20]) {
			o = append(o, fmt.Sprintf("strip: the reported result (%d bytes) is not the signed message (%d bytes) without its last 20 bytes", len(rp.Sig.Content), len(signed)))
		}
		if rp.Sig.Index != ptype || !bytes.Equal(rp.Sig.RequestId, rid) {
			o = append(o, "path-id: the report does not carry the request's id and type")
		}
		// what the contract checks: the group signature over result ‖ msg.sender
		if len(addr) == 20 {
			msg := append(exact(rp.Sig.Content), addr...)
			if err := bls.Verify(suite, g.pub.Commit(), msg, rp.Sig.Signature); err != nil {
				o = append(o, "path-signature: the reported signature does not verify for result || submitter under the group key")
			}
		}
	}
	if !bytes.Equal(content, signed) {
		o = append(o, "result-aliased: the signed content changed on its way through genSign / recoverSign / reportQueryResult")
	}
	res.Oracle = pick(o, "strip", "path-")
	return
}

func genPath(tier string, rng *h.Rng, emit func(string)) {
	n := 12
	if tier == "thorough" {
		n = 120
	}
	rs := rands(rng, false)
	pickR := func() *big.Int { return rs[rng.Intn(60)] } // the boundary values and the leading-zero family
	for i := 0; i < n; i++ {
		emit(fmt.Sprintf("path sys %s %s", pickR(), h.Hex(randAddr(rng))))
		emit(fmt.Sprintf("path user %s %s %s %s", pickR(), pickR(), pickR(), h.Hex(randAddr(rng))))
		doc := rng.Bytes(rng.Intn(120))
		if i == 0 {
			doc = nil // the result is empty: the signed string is exactly the address
		}
		emit(fmt.Sprintf("path url %s %s", h.Hex(doc), h.Hex(randAddr(rng))))
	}
	// the stages do not check the address length: a content shorter than an address is not reported
	emit(fmt.Sprintf("path user 0 0 0 %s", h.Hex(rng.Bytes(19))))
	emit(fmt.Sprintf("path url - %s", h.Hex(rng.Bytes(5))))
	emit(fmt.Sprintf("path sys 5 %s", h.Hex(rng.Bytes(21))))
}

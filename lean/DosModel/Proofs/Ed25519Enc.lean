/-
C20 — little-endian encodings: `leNat` / `natLE` are mutually inverse, the scalar API model
(`scUnmarshal`, `scMarshal`, `scCanonical`) round-trips exactly on canonical 32-byte values.
Core Lean + omega only.
-/
import DosModel.Model.Ed25519Scalar

namespace Dos.Ed25519
open Dos

theorem natLE_length (k n : Nat) : (natLE k n).length = k := by
  induction k generalizing n with
  | zero => rfl
  | succ k ih => simp [natLE, ih]

theorem leNat_lt (b : Bytes) : leNat b < 256 ^ b.length := by
  induction b with
  | nil => simp [leNat]
  | cons x xs ih =>
    have hx : x.toNat < 256 := x.toNat_lt
    simp only [leNat, List.length_cons, Nat.pow_succ]
    omega

theorem leNat_natLE (k n : Nat) : leNat (natLE k n) = n % 256 ^ k := by
  induction k generalizing n with
  | zero => simp [natLE, leNat, Nat.mod_one]
  | succ k ih =>
    simp only [natLE, leNat, UInt8.toNat_ofNat', ih, Nat.pow_succ]
    have h1 : n % (256 ^ k * 256) = n % 256 + 256 * (n / 256 % 256 ^ k) := by
      rw [Nat.mul_comm (256 ^ k) 256, Nat.mod_mul]
    omega

theorem leNat_natLE_of_lt (k n : Nat) (h : n < 256 ^ k) : leNat (natLE k n) = n := by
  rw [leNat_natLE, Nat.mod_eq_of_lt h]

theorem natLE_leNat (b : Bytes) : natLE b.length (leNat b) = b := by
  induction b with
  | nil => rfl
  | cons x xs ih =>
    have hx : x.toNat < 256 := x.toNat_lt
    have h1 : (x.toNat + 256 * leNat xs) % 256 = x.toNat := by omega
    have h2 : (x.toNat + 256 * leNat xs) / 256 = leNat xs := by omega
    simp only [List.length_cons, natLE, leNat, h1, h2, ih]
    congr 1
    exact UInt8.ofNat_toNat

theorem leNat_append (a b : Bytes) : leNat (a ++ b) = leNat a + 256 ^ a.length * leNat b := by
  induction a with
  | nil => simp [leNat]
  | cons x xs ih =>
    simp only [List.cons_append, leNat, ih, List.length_cons, Nat.pow_succ]
    rw [Nat.mul_add, ← Nat.mul_assoc, Nat.mul_comm 256 (256 ^ xs.length)]
    omega

/-- two byte strings of the same length with the same value are equal -/
theorem leNat_inj (a b : Bytes) (hl : a.length = b.length) (h : leNat a = leNat b) : a = b := by
  rw [← natLE_leNat a, ← natLE_leNat b, hl, h]

theorem ell_lt : ell < 256 ^ 32 := by decide

theorem scMarshal_length (v : Bytes) : (scMarshal v).length = 32 := natLE_length _ _

theorem leNat_scMarshal (v : Bytes) : leNat (scMarshal v) = leNat v % ell := by
  unfold scMarshal
  rw [leNat_natLE_of_lt]
  exact Nat.lt_trans (Nat.mod_lt _ (by decide)) ell_lt

/-- marshal after unmarshal is the identity exactly on canonical values -/
theorem scMarshal_eq_self_iff (b : Bytes) : scMarshal b = b ↔ b.length = 32 ∧ leNat b < ell := by
  constructor
  · intro h
    have hl : b.length = 32 := by rw [← h]; exact scMarshal_length b
    have hv := leNat_scMarshal b
    rw [h] at hv
    refine ⟨hl, ?_⟩
    rw [hv]; exact Nat.mod_lt _ (by decide)
  · intro ⟨hl, hv⟩
    apply leNat_inj _ _ (by rw [scMarshal_length, hl])
    rw [leNat_scMarshal, Nat.mod_eq_of_lt hv]

theorem scCanonical_iff (b : Bytes) : scCanonical b = true ↔ b.length = 32 ∧ leNat b < ell := by
  unfold scCanonical
  rw [beq_iff_eq]
  exact scMarshal_eq_self_iff b

theorem scCanonical_natLE (s : Nat) (h : s < ell) : scCanonical (natLE 32 s) = true := by
  rw [scCanonical_iff, natLE_length, leNat_natLE_of_lt 32 s (Nat.lt_trans h ell_lt)]
  exact ⟨rfl, h⟩

end Dos.Ed25519

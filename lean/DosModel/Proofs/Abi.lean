/-
Helper lemmas for the ABI layer (C18 / C19): lengths of encodings, decoding of an encoding.
-/
import DosModel.Model.Abi
import DosModel.Proofs.ReqLoopMarshal
import Mathlib.Tactic.Ring

namespace Dos.Abi
open Dos Dos.ReqLoop

/-! ### lists -/

theorem drop_of_drop_append {α : Type} {B X Y : List α} {i : Nat} (h : B.drop i = X ++ Y) :
    B.drop (i + X.length) = Y := by
  rw [← List.drop_drop, h, List.drop_left]

theorem length_of_drop_eq {α : Type} {B X : List α} {i : Nat} (h : B.drop i = X) (hx : 0 < X.length) :
    i + X.length = B.length := by
  have := congrArg List.length h
  rw [List.length_drop] at this
  omega

theorem take_of_drop_append {α : Type} {B X Y : List α} {i : Nat} (h : B.drop i = X ++ Y) :
    (B.drop i).take X.length = X := by
  rw [h, List.take_left]

/-! ### words -/

theorem two_pow_256 : (256 : Nat) ^ 32 = 2 ^ 256 := by norm_num

theorem encEVal_length {e : Elem} {v : EVal} (hw : e.wf = true) (hv : v.wt e = true) : (encEVal v).length = 32 := by
  cases v with
  | num n => simp [encEVal, natBE_len]
  | fixed bs =>
    cases e <;> simp [EVal.wt] at hv
    rename_i k
    simp [Elem.wf] at hw
    simp [encEVal]
    omega

theorem encWords_length {e : Elem} (hw : e.wf = true) :
    ∀ {l : List EVal}, (l.all (EVal.wt e) = true) → (encWords l).length = 32 * l.length := by
  intro l
  induction l with
  | nil => simp [encWords]
  | cons v vs ih =>
    intro h
    simp only [List.all_cons, Bool.and_eq_true] at h
    have := ih h.2
    simp only [encWords] at this ⊢
    simp only [List.map_cons, List.flatten_cons, List.length_append, List.length_cons, this, encEVal_length hw h.1]
    ring

/-! ### slices and words of a buffer -/

theorem slice_ok {site : String} {bs : Bytes} {a b : Nat} (h1 : a ≤ b) (h2 : b ≤ bs.length) :
    slice site bs a b = .ok ((bs.drop a).take (b - a)) := by
  simp [slice, h1, h2]

theorem len_of_drop {B X Y : Bytes} {i : Nat} (h : B.drop i = X ++ Y) (hx : 0 < X.length) :
    i + X.length + Y.length = B.length := by
  have := congrArg List.length h
  rw [List.length_drop, List.length_append] at this
  omega

theorem wordAt_eq {B w rest : Bytes} {i : Nat} (h : B.drop i = w ++ rest) (hw : w.length = 32) :
    wordAt B i = .ok w := by
  have hl := len_of_drop h (by omega)
  have h1 : ¬ (i + 32 > B.length) := by omega
  simp only [wordAt, h1, if_false]
  rw [slice_ok (by omega) (by omega), h]
  have : i + 32 - i = w.length := by omega
  rw [this, List.take_left]

theorem decElem_encEVal {e : Elem} {v : EVal} (hw : e.wf = true) (hv : v.wt e = true) :
    decElem e (encEVal v) = .ok v := by
  cases e with
  | uint b =>
    cases v with
    | fixed bs => simp [EVal.wt] at hv
    | num n =>
      simp only [EVal.wt, decide_eq_true_eq] at hv
      simp only [Elem.wf, Bool.or_eq_true, beq_iff_eq] at hw
      have hb : b ≤ 256 := by omega
      have hn : n < 256 ^ 32 := by
        rw [two_pow_256]; exact Nat.lt_of_lt_of_le hv (Nat.pow_le_pow_right (by omega) hb)
      simp only [decElem, encEVal, beNat_natBE_of_lt 32 n hn, Nat.mod_eq_of_lt hv]
      split <;> rfl
  | address =>
    cases v with
    | fixed bs => simp [EVal.wt] at hv
    | num n =>
      simp only [EVal.wt, decide_eq_true_eq] at hv
      have hn : n < 256 ^ 32 := by
        rw [two_pow_256]; exact Nat.lt_of_lt_of_le hv (Nat.pow_le_pow_right (by omega) (by omega))
      simp only [decElem, encEVal, beNat_natBE_of_lt 32 n hn, Nat.mod_eq_of_lt hv]
  | bool =>
    cases v with
    | fixed bs => simp [EVal.wt] at hv
    | num n =>
      simp only [EVal.wt, decide_eq_true_eq] at hv
      have hn : n < 256 ^ 32 := by
        rw [two_pow_256]; exact Nat.lt_of_lt_of_le hv (by decide)
      simp only [decElem, encEVal, beNat_natBE_of_lt 32 n hn]
      have : n = 0 ∨ n = 1 := by omega
      rcases this with h | h <;> simp [h]
  | fixedBytes k =>
    cases v with
    | num n => simp [EVal.wt] at hv
    | fixed bs =>
      simp only [EVal.wt, beq_iff_eq] at hv
      simp only [Elem.wf, Bool.and_eq_true, decide_eq_true_eq] at hw
      simp only [decElem, encEVal]
      rw [slice_ok (by omega) (by simp; omega)]
      simp only [List.drop_zero, Nat.sub_zero, bind, Except.bind, pure, Except.pure]
      rw [← hv, List.take_left]

theorem encWords_cons (v : EVal) (l : List EVal) : encWords (v :: l) = encEVal v ++ encWords l := by
  simp [encWords]

theorem decWords_encWords {e : Elem} (hw : e.wf = true) :
    ∀ (l : List EVal) (sub rest : Bytes) (start : Nat), l.all (EVal.wt e) = true →
      sub.drop start = encWords l ++ rest → decWords e sub l.length start = .ok l := by
  intro l
  induction l with
  | nil => intro sub rest start _ _; simp [decWords]
  | cons v vs ih =>
    intro sub rest start hall hd
    simp only [List.all_cons, Bool.and_eq_true] at hall
    rw [encWords_cons, List.append_assoc] at hd
    have hlen := encEVal_length hw hall.1
    have h1 := wordAt_eq hd hlen
    have h2 := decElem_encEVal hw hall.1
    have hd' : sub.drop (start + 32) = encWords vs ++ rest := by
      have := drop_of_drop_append hd
      rwa [hlen] at this
    have h3 := ih sub rest (start + 32) hall.2 hd'
    simp [decWords, h1, h2, h3, bind, Except.bind, pure, Except.pure]

theorem forEach_encWords {e : Elem} (hw : e.wf = true) {l : List EVal} {sub rest : Bytes}
    (hall : l.all (EVal.wt e) = true) (hd : sub = encWords l ++ rest) :
    forEach e sub l.length = .ok l := by
  have hl : sub.length = 32 * l.length + rest.length := by
    rw [hd, List.length_append, encWords_length hw hall]
  have : ¬ (32 * l.length > sub.length) := by omega
  simp only [forEach, this, if_false]
  exact decWords_encWords hw l sub rest 0 hall (by simpa using hd)

/-- the length prefix of a tail that sits at `off` and is pointed to by the head word at `i` -/
theorem lengthPrefix_eq {B hrest trest : Bytes} {i off len : Nat}
    (hh : B.drop i = natBE 32 off ++ hrest) (ht : B.drop off = natBE 32 len ++ trest)
    (hlen : len ≤ trest.length) (hB : B.length < 2 ^ 63) :
    lengthPrefix B i = .ok (off + 32, len) := by
  have l1 := len_of_drop hh (by simp [natBE_len])
  have l2 := len_of_drop ht (by simp [natBE_len])
  simp only [natBE_len] at l1 l2
  have hoff : off < 256 ^ 32 := by
    rw [two_pow_256]; exact Nat.lt_trans (by omega) (Nat.lt_of_lt_of_le hB (Nat.pow_le_pow_right (by omega) (by omega)))
  have hlen' : len < 256 ^ 32 := by
    rw [two_pow_256]; exact Nat.lt_trans (by omega) (Nat.lt_of_lt_of_le hB (Nat.pow_le_pow_right (by omega) (by omega)))
  have hw1 : (B.drop i).take (i + 32 - i) = natBE 32 off := by
    rw [hh]; have : i + 32 - i = (natBE 32 off).length := by simp [natBE_len]
    rw [this, List.take_left]
  have hw2 : (B.drop (off + 32 - 32)).take (off + 32 - (off + 32 - 32)) = natBE 32 len := by
    have e1 : off + 32 - 32 = off := by omega
    rw [e1, ht]; have : off + 32 - off = (natBE 32 len).length := by simp [natBE_len]
    rw [this, List.take_left]
  simp only [lengthPrefix]
  rw [slice_ok (by omega) (by omega)]
  simp only [bind, Except.bind, hw1, beNat_natBE_of_lt 32 off hoff]
  have c1 : ¬ (off + 32 > B.length) := by omega
  have c2 : ¬ (off + 32 ≥ 2 ^ 63) := by omega
  simp only [c1, c2, if_false]
  rw [slice_ok (by omega) (by omega)]
  simp only [hw2, beNat_natBE_of_lt 32 len hlen']
  have c3 : ¬ (off + 32 + len ≥ 2 ^ 63) := by omega
  have c4 : ¬ (off + 32 + len > B.length) := by omega
  rw [if_neg c3, if_neg c4]; rfl

theorem slice_to_end {site : String} {B : Bytes} {i : Nat} (h : i ≤ B.length) :
    slice site B i B.length = .ok (B.drop i) := by
  rw [slice_ok h (Nat.le_refl _)]
  congr 1
  apply List.take_of_length_le
  simp

theorem headSize_pos (t : AbiType) (hw : t.wf = true) : 32 ≤ t.headSize := by
  cases t <;> simp [AbiType.headSize]
  rename_i e n
  simp [AbiType.wf] at hw
  omega

theorem encStatic_length {t : AbiType} {v : AbiVal} (hw : t.wf = true) (hv : v.wt t = true)
    (hs : t.isDynamic = false) : (encStatic v).length = t.headSize := by
  cases t with
  | elem e =>
    cases v <;> simp [AbiVal.wt] at hv
    simp only [AbiType.wf] at hw
    simp [encStatic, AbiType.headSize, encEVal_length hw hv]
  | sarray e n =>
    cases v <;> simp [AbiVal.wt] at hv
    rename_i l
    simp only [AbiType.wf, Bool.and_eq_true] at hw
    have hall : (List.all l (EVal.wt e)) = true := by simpa using hv.2
    simp [encStatic, AbiType.headSize, encWords_length hw.1 hall, hv.1]
  | darray e => simp [AbiType.isDynamic] at hs
  | bytes => simp [AbiType.isDynamic] at hs
  | string => simp [AbiType.isDynamic] at hs

theorem decOne_static {t : AbiType} {v : AbiVal} {B rest : Bytes} {i : Nat} (hw : t.wf = true)
    (hv : v.wt t = true) (hs : t.isDynamic = false) (hd : B.drop i = encStatic v ++ rest) :
    decOne t B i = .ok v := by
  have hlen := encStatic_length hw hv hs
  have hpos := headSize_pos t hw
  have hl := len_of_drop hd (by omega)
  have c0 : ¬ (i + 32 > B.length) := by omega
  cases t with
  | elem e =>
    cases v <;> simp [AbiVal.wt] at hv
    rename_i ev
    simp only [AbiType.wf] at hw
    simp only [encStatic] at hd
    simp only [decOne, c0, if_false, wordAt_eq hd (encEVal_length hw hv), decElem_encEVal hw hv, bind, Except.bind,
      pure, Except.pure]
  | sarray e n =>
    cases v <;> simp [AbiVal.wt] at hv
    rename_i l
    simp only [AbiType.wf, Bool.and_eq_true] at hw
    have hall : (List.all l (EVal.wt e)) = true := by simpa using hv.2
    simp only [encStatic] at hd
    have := forEach_encWords hw.1 hall hd
    rw [hv.1] at this
    simp only [decOne, c0, if_false, slice_to_end (show i ≤ B.length by omega), this, bind, Except.bind, pure, Except.pure]
  | darray e => simp [AbiType.isDynamic] at hs
  | bytes => simp [AbiType.isDynamic] at hs
  | string => simp [AbiType.isDynamic] at hs

theorem pad32_eq (bs : Bytes) : pad32 bs = bs ++ zeros ((bs.length + 31) / 32 * 32 - bs.length) := rfl

theorem decOne_dynamic {t : AbiType} {v : AbiVal} {B hrest trest : Bytes} {i off : Nat} (hw : t.wf = true)
    (hv : v.wt t = true) (hdyn : t.isDynamic = true)
    (hh : B.drop i = natBE 32 off ++ hrest) (ht : B.drop off = encTail v ++ trest) (hB : B.length < 2 ^ 63) :
    decOne t B i = .ok v := by
  have l1 := len_of_drop hh (by simp [natBE_len])
  simp only [natBE_len] at l1
  have c0 : ¬ (i + 32 > B.length) := by omega
  cases t with
  | elem e => simp [AbiType.isDynamic] at hdyn
  | sarray e n => simp [AbiType.isDynamic] at hdyn
  | darray e =>
    cases v <;> simp [AbiVal.wt] at hv
    rename_i l
    simp only [AbiType.wf] at hw
    have hall : (List.all l (EVal.wt e)) = true := by simpa using hv
    simp only [encTail, List.append_assoc] at ht
    have hsub := drop_of_drop_append ht
    simp only [natBE_len] at hsub
    have l2 := len_of_drop ht (by simp [natBE_len])
    simp only [natBE_len, List.length_append, encWords_length hw hall] at l2
    have hp := lengthPrefix_eq hh ht (by simp [encWords_length hw hall]; omega) hB
    have hf := forEach_encWords hw hall hsub
    simp only [decOne, c0, if_false, hp, slice_to_end (show off + 32 ≤ B.length by omega), hf, bind, Except.bind,
      pure, Except.pure]
  | bytes =>
    cases v <;> simp [AbiVal.wt] at hv
    rename_i bs
    simp only [encTail, pad32_eq, List.append_assoc] at ht
    have hsub := drop_of_drop_append ht
    simp only [natBE_len] at hsub
    have l2 := len_of_drop ht (by simp [natBE_len])
    simp only [natBE_len, List.length_append] at l2
    have hp := lengthPrefix_eq hh ht (by simp) hB
    have e1 : off + 32 + bs.length - (off + 32) = bs.length := by omega
    simp only [decOne, c0, if_false, hp, slice_ok (show off + 32 ≤ off + 32 + bs.length by omega)
      (show off + 32 + bs.length ≤ B.length by omega), hsub, e1, List.take_left, bind, Except.bind, pure, Except.pure]
  | string =>
    cases v <;> simp [AbiVal.wt] at hv
    rename_i bs
    simp only [encTail, pad32_eq, List.append_assoc] at ht
    have hsub := drop_of_drop_append ht
    simp only [natBE_len] at hsub
    have l2 := len_of_drop ht (by simp [natBE_len])
    simp only [natBE_len, List.length_append] at l2
    have hp := lengthPrefix_eq hh ht (by simp) hB
    have e1 : off + 32 + bs.length - (off + 32) = bs.length := by omega
    simp only [decOne, c0, if_false, hp, slice_ok (show off + 32 ≤ off + 32 + bs.length by omega)
      (show off + 32 + bs.length ≤ B.length by omega), hsub, e1, List.take_left, bind, Except.bind, pure, Except.pure]

/-! ### argument lists -/

theorem headSize_dynamic {t : AbiType} (h : t.isDynamic = true) : t.headSize = 32 := by
  cases t <;> simp [AbiType.isDynamic] at h <;> rfl

theorem headLen_cons (t : AbiType) (ts : List AbiType) : headLen (t :: ts) = t.headSize + headLen ts := by
  simp [headLen]

theorem encGo_fst_length : ∀ (tys : List AbiType) (vs : List AbiVal) (off : Nat),
    tysWf tys = true → wtArgs tys vs = true → (encGo off tys vs).1.length = headLen tys := by
  intro tys
  induction tys with
  | nil => intro vs off _ _; cases vs <;> simp [encGo, headLen]
  | cons t ts ih =>
    intro vs off hw hv
    cases vs with
    | nil => simp [wtArgs] at hv
    | cons v vs =>
      simp only [wtArgs, Bool.and_eq_true] at hv
      simp only [tysWf, List.all_cons, Bool.and_eq_true] at hw
      rw [headLen_cons]
      by_cases hd : t.isDynamic = true
      · simp only [encGo, hd, if_true, List.length_append, natBE_len, headSize_dynamic hd]
        rw [ih vs _ hw.2 hv.2]
      · have hs : t.isDynamic = false := by simpa using hd
        simp only [encGo, hs, Bool.false_eq_true, if_false, List.length_append, encStatic_length hw.1 hv.1 hs]
        rw [ih vs _ hw.2 hv.2]

theorem decGo_encGo : ∀ (tys : List AbiType) (vs : List AbiVal) (i off : Nat) (B mid post : Bytes),
    tysWf tys = true → wtArgs tys vs = true → B.length < 2 ^ 63 →
    B.drop i = (encGo off tys vs).1 ++ mid ++ (encGo off tys vs).2 ++ post →
    off = i + (encGo off tys vs).1.length + mid.length →
    decGo i tys B = .ok vs := by
  intro tys
  induction tys with
  | nil =>
    intro vs i off B mid post _ hv _ _ _
    cases vs <;> simp [wtArgs] at hv
    simp [decGo]
  | cons t ts ih =>
    intro vs i off B mid post hw hv hB hd hoff
    cases vs with
    | nil => simp [wtArgs] at hv
    | cons v vs =>
      simp only [wtArgs, Bool.and_eq_true] at hv
      simp only [tysWf, List.all_cons, Bool.and_eq_true] at hw
      by_cases hdy : t.isDynamic = true
      · simp only [encGo, hdy, if_true] at hd hoff
        simp only [List.append_assoc] at hd
        simp only [List.length_append, natBE_len] at hoff
        have h1 := drop_of_drop_append hd
        simp only [natBE_len] at h1
        have h2 := drop_of_drop_append h1
        have h3 := drop_of_drop_append h2
        have ht : B.drop off = encTail v ++ ((encGo (off + (encTail v).length) ts vs).2 ++ post) := by
          have e : i + 32 + (encGo (off + (encTail v).length) ts vs).1.length + mid.length = off := by omega
          rw [e] at h3; exact h3
        have hone := decOne_dynamic hw.1 hv.1 hdy hd ht hB
        have hrec := ih vs (i + 32) (off + (encTail v).length) B (mid ++ encTail v) post hw.2 hv.2 hB
          (by rw [h1]; simp [List.append_assoc]) (by simp only [List.length_append]; omega)
        simp only [decGo, hone, headSize_dynamic hdy, hrec, bind, Except.bind, pure, Except.pure]
      · have hs : t.isDynamic = false := by simpa using hdy
        simp only [encGo, hs] at hd hoff
        simp only [Bool.false_eq_true, if_false, List.append_assoc] at hd
        simp only [Bool.false_eq_true, if_false, List.length_append] at hoff
        have hlen := encStatic_length hw.1 hv.1 hs
        have hone := decOne_static hw.1 hv.1 hs hd
        have h1 := drop_of_drop_append hd
        rw [hlen] at h1
        have hrec := ih vs (i + t.headSize) off B mid post hw.2 hv.2 hB
          (by rw [h1]; simp [List.append_assoc]) (by omega)
        simp only [decGo, hone, hrec, bind, Except.bind, pure, Except.pure]

/-- decoding an encoding gives the values back -/
theorem decode_encode (tys : List AbiType) (vs : List AbiVal) (hw : tysWf tys = true) (hv : wtArgs tys vs = true)
    (hB : (encodeRaw tys vs).length < 2 ^ 63) : decodeArgs tys (encodeRaw tys vs) = .ok vs := by
  apply decGo_encGo tys vs 0 (headLen tys) (encodeRaw tys vs) [] [] hw hv hB
  · simp [encodeRaw]
  · simp [encGo_fst_length tys vs _ hw hv]

end Dos.Abi

/-
C10 — the group law for the CONCRETE Montgomery model of G2 (twist.go over gfP2): same route as
Proofs/Bn256Concrete.lean one level up. `Fp2.map f` preserves the transcribed gfP2 operations whenever f
preserves the gfP operations; gfP2 over ZMod p is a field (p ≡ 3 mod 4); hence `Jac.add`, `Jac.double`,
`twistMul` over `Fp2 GFp` compute the group operations of E'(F_p²) after decoding.
-/
import DosModel.Proofs.Bn256Concrete

namespace Dos.Bn256

section maps
variable {K L : Type}
variable [Add K] [Sub K] [Neg K] [Mul K] [Zero K] [One K] [Inv K] [Sq K] [DecidableEq K]
variable [Add L] [Sub L] [Neg L] [Mul L] [Zero L] [One L] [Inv L] [Sq L] [DecidableEq L]

def Fp2.map (f : K → L) (a : Fp2 K) : Fp2 L := ⟨f a.x, f a.y⟩

/-- `Fp2.map f` preserves the transcribed gfP2 operations (Add, Sub, Neg, Mul, SetZero, SetOne, Invert, Square) -/
theorem Fp2.mapHom {f : K → L} (h : OpsHom f) : OpsHom (Fp2.map f) where
  map_add a b := by
    show Fp2.map f (Fp2.add a b) = Fp2.add (Fp2.map f a) (Fp2.map f b)
    simp only [Fp2.map, Fp2.add, h.map_add]
  map_sub a b := by
    show Fp2.map f (Fp2.sub a b) = Fp2.sub (Fp2.map f a) (Fp2.map f b)
    simp only [Fp2.map, Fp2.sub, h.map_sub]
  map_neg a := by
    show Fp2.map f (Fp2.neg a) = Fp2.neg (Fp2.map f a)
    simp only [Fp2.map, Fp2.neg, h.map_neg]
  map_mul a b := by
    show Fp2.map f (Fp2.mul a b) = Fp2.mul (Fp2.map f a) (Fp2.map f b)
    simp only [Fp2.map, Fp2.mul, h.map_add, h.map_sub, h.map_mul]
  map_zero := by
    show Fp2.map f Fp2.zero = Fp2.zero
    simp only [Fp2.map, Fp2.zero, h.map_zero]
  map_one := by
    show Fp2.map f Fp2.one = Fp2.one
    simp only [Fp2.map, Fp2.one, h.map_zero, h.map_one]
  map_inv a := by
    show Fp2.map f (Fp2.invert a) = Fp2.invert (Fp2.map f a)
    simp only [Fp2.map, Fp2.invert, h.map_add, h.map_mul, h.map_neg, h.map_inv]
  map_sq a := by
    show Fp2.map f (Fp2.square a) = Fp2.square (Fp2.map f a)
    simp only [Fp2.map, Fp2.square, h.map_add, h.map_sub, h.map_mul]
  inj a b hab := by
    have hx : f a.x = f b.x := congrArg Fp2.x hab
    have hy : f a.y = f b.y := congrArg Fp2.y hab
    cases a; cases b
    simp only [Fp2.mk.injEq]
    exact ⟨h.inj hx, h.inj hy⟩

end maps

/-- gfP2 over the base field of bn256 is a FIELD whose operations are the transcribed functions -/
noncomputable instance instFieldFp2 : Field (Fp2 (ZMod p)) where
  toCommRing := Fp2.instCommRing
  inv := Fp2.invert
  exists_pair_ne := ⟨0, 1, by
    intro h
    have : (0 : Fp2 (ZMod p)).y = (1 : Fp2 (ZMod p)).y := congrArg Fp2.y h
    exact zero_ne_one this⟩
  mul_inv_cancel a ha := fp2_invert_all a ha
  inv_zero := by
    show Fp2.invert (Fp2.zero : Fp2 (ZMod p)) = Fp2.zero
    simp [Fp2.invert, Fp2.zero]
  nnqsmul := _
  qsmul := _

theorem hsqFp2 : ∀ a : Fp2 (ZMod p), Sq.sq a = a * a := fun a => Fp2.square_eq a

theorem two_ne_zero_Fp2 : (2 : Fp2 (ZMod p)) ≠ 0 := by
  intro h
  have e : (2 : Fp2 (ZMod p)) = 1 + 1 := by norm_num
  rw [e] at h
  have : ((1 : Fp2 (ZMod p)) + 1).y = (0 : Fp2 (ZMod p)).y := congrArg Fp2.y h
  have h2 : (1 : ZMod p) + 1 = 0 := this
  have : (2 : ZMod p) = 0 := by rw [← h2]; norm_num
  exact two_ne_zero_Fp this

/-- all eight gfP coordinates of a G2 triple are reduced -/
def Jac.Reduced2 (a : Jac (Fp2 GFp)) : Prop :=
  (a.x.x.v < p ∧ a.x.y.v < p) ∧ (a.y.x.v < p ∧ a.y.y.v < p) ∧ (a.z.x.v < p ∧ a.z.y.v < p) ∧
    (a.t.x.v < p ∧ a.t.y.v < p)

def Jac.lift2 (a : Jac (Fp2 GFp)) (h : Jac.Reduced2 a) : Jac (Fp2 GFpR) :=
  ⟨⟨⟨a.x.x, h.1.1⟩, ⟨a.x.y, h.1.2⟩⟩, ⟨⟨a.y.x, h.2.1.1⟩, ⟨a.y.y, h.2.1.2⟩⟩,
   ⟨⟨a.z.x, h.2.2.1.1⟩, ⟨a.z.y, h.2.2.1.2⟩⟩, ⟨⟨a.t.x, h.2.2.2.1⟩, ⟨a.t.y, h.2.2.2.2⟩⟩⟩

/-- Montgomery decoding of a G2 triple -/
def Jac.decJ2 (a : Jac (Fp2 GFp)) : Jac (Fp2 (ZMod p)) := Jac.map (Fp2.map dec) a

abbrev val2 : Fp2 GFpR → Fp2 GFp := Fp2.map (fun (x : GFpR) => x.1)
abbrev dec2 : Fp2 GFpR → Fp2 (ZMod p) := Fp2.map decR

theorem Jac.val_lift2 (a : Jac (Fp2 GFp)) (h : Jac.Reduced2 a) : Jac.map val2 (Jac.lift2 a h) = a := rfl
theorem Jac.dec_lift2 (a : Jac (Fp2 GFp)) (h : Jac.Reduced2 a) : Jac.map dec2 (Jac.lift2 a h) = Jac.decJ2 a := rfl
theorem Jac.reduced2_of_map (x : Jac (Fp2 GFpR)) : Jac.Reduced2 (Jac.map val2 x) :=
  ⟨⟨x.x.x.2, x.x.y.2⟩, ⟨x.y.x.2, x.y.y.2⟩, ⟨x.z.x.2, x.z.y.2⟩, ⟨x.t.x.2, x.t.y.2⟩⟩
theorem Jac.decJ2_map_val (x : Jac (Fp2 GFpR)) : Jac.decJ2 (Jac.map val2 x) = Jac.map dec2 x := rfl

/-- **G2, concrete** -/
theorem g2_add_concrete (bb : Fp2 (ZMod p)) (c a b : Jac (Fp2 GFp)) (hc : Jac.Reduced2 c) (ha : Jac.Reduced2 a)
    (hb : Jac.Reduced2 b) (va : Valid bb (Jac.decJ2 a)) (vb : Valid bb (Jac.decJ2 b)) :
    Jac.Reduced2 (Jac.add c a b) ∧ Valid bb (Jac.decJ2 (Jac.add c a b)) ∧
    toPoint bb (Jac.decJ2 (Jac.add c a b)) = toPoint bb (Jac.decJ2 a) + toPoint bb (Jac.decJ2 b) := by
  have e : Jac.add c a b = Jac.map val2 (Jac.add (Jac.lift2 c hc) (Jac.lift2 a ha) (Jac.lift2 b hb)) := by
    rw [Jac.map_add (Fp2.mapHom valHom), Jac.val_lift2, Jac.val_lift2, Jac.val_lift2]
  rw [e, Jac.decJ2_map_val, Jac.map_add (Fp2.mapHom decHom), Jac.dec_lift2, Jac.dec_lift2, Jac.dec_lift2]
  obtain ⟨h1, h2⟩ := add_point hsqFp2 two_ne_zero_Fp2 bb (Jac.decJ2 c) (Jac.decJ2 a) (Jac.decJ2 b) va vb
  exact ⟨Jac.reduced2_of_map _, h1, h2⟩

theorem g2_mul_concrete (bb : Fp2 (ZMod p)) (a : Jac (Fp2 GFp)) (ha : Jac.Reduced2 a)
    (va : Valid bb (Jac.decJ2 a)) (k : Nat) :
    Jac.Reduced2 (Jac.twistMul a k) ∧ toPoint bb (Jac.decJ2 (Jac.twistMul a k)) = k • toPoint bb (Jac.decJ2 a) := by
  have e : Jac.twistMul a k = Jac.map val2 (Jac.twistMul (Jac.lift2 a ha) k) := by
    rw [Jac.map_twistMul (Fp2.mapHom valHom), Jac.val_lift2]
  rw [e, Jac.decJ2_map_val, Jac.map_twistMul (Fp2.mapHom decHom), Jac.dec_lift2]
  exact ⟨Jac.reduced2_of_map _, (mul_point hsqFp2 two_ne_zero_Fp2 bb (Jac.decJ2 a) va k).2⟩

end Dos.Bn256

/-
C10 layer 5 — bridge to Mathlib's group law. For any field K of characteristic ≠ 2 and any b,
let W be the curve y² = x³ + b and `toPoint` the map from Jacobian triples to Mathlib's
`W.Point` (identity for z = 0, the affine point (X/Z², Y/Z³) otherwise). On valid triples
(identity, or finite with a nonsingular affine image) the transcribed `Jac.add` and
`Jac.double` ARE Mathlib's addition: `toPoint (add c a b) = toPoint a + toPoint b`, for every
receiver, every pair of representatives and every branch of the code (identity, P+P, P+(−P),
general). Since `W.Point` is an `AddCommGroup` (Mathlib), the code's G1 / G2 addition is
associative, commutative, has inverses — for ALL points — and the Mul loops compute k • P.
-/
import Mathlib.AlgebraicGeometry.EllipticCurve.Affine.Point
import DosModel.Proofs.Bn256Curve
import DosModel.Proofs.Bn256CurveMul

namespace Dos.Bn256
open WeierstrassCurve WeierstrassCurve.Affine

section
variable {K : Type} [Field K] [DecidableEq K] [Sq K]
set_option linter.unusedSectionVars false

/-- the curve y² = x³ + b -/
def shortW (b : K) : WeierstrassCurve.Affine K := ⟨0, 0, 0, 0, b⟩

/-- identity, or finite with a nonsingular affine image on y² = x³ + b -/
def Valid (b : K) (a : Jac K) : Prop := a.z = 0 ∨ (shortW b).Nonsingular (Jac.ax a) (Jac.ay a)

open Classical in
/-- the point of Mathlib's group that a Jacobian triple denotes -/
noncomputable def toPoint (b : K) (a : Jac K) : (shortW b).Point :=
  if a.z = 0 then 0
  else if h : (shortW b).Nonsingular (Jac.ax a) (Jac.ay a) then Point.some _ _ h else 0

theorem toPoint_inf (b : K) (a : Jac K) (hz : a.z = 0) : toPoint b a = 0 := by
  simp [toPoint, hz]

theorem toPoint_fin (b : K) (a : Jac K) (hz : a.z ≠ 0) (h : (shortW b).Nonsingular (Jac.ax a) (Jac.ay a)) :
    toPoint b a = Point.some _ _ h := by
  simp [toPoint, hz, h]

theorem some_congr (b : K) {x y x' y' : K} (h : (shortW b).Nonsingular x y) (hx : x = x') (hy : y = y') :
    ∃ h' : (shortW b).Nonsingular x' y', Point.some x y h = Point.some x' y' h' := by
  subst hx; subst hy; exact ⟨h, rfl⟩

theorem negY_short (b x y : K) : (shortW b).negY x y = -y := by
  simp [negY, shortW]

/-- **Double is doubling in the group** -/
theorem double_point (hsq : ∀ a : K, Sq.sq a = a * a) (h2 : (2 : K) ≠ 0) (b : K) (c a : Jac K)
    (ha : Valid b a) :
    Valid b (Jac.double c a) ∧ toPoint b (Jac.double c a) = toPoint b a + toPoint b a := by
  by_cases hz : a.z = 0
  · have hdz : (Jac.double c a).z = 0 := by
      rw [(Jac.double_formulas hsq c a).2.2.1, hz]; ring
    exact ⟨Or.inl hdz, by rw [toPoint_inf b _ hdz, toPoint_inf b _ hz, add_zero]⟩
  · have hn := ha.resolve_left hz
    rw [toPoint_fin b a hz hn]
    by_cases hy : a.y = 0
    · have hdz : (Jac.double c a).z = 0 := Jac.double_order_two hsq c a hy
      refine ⟨Or.inl hdz, ?_⟩
      rw [toPoint_inf b _ hdz]
      have hay : Jac.ay a = (shortW b).negY (Jac.ax a) (Jac.ay a) := by
        rw [negY_short]; simp [Jac.ay, hy]
      exact (Point.add_self_of_Y_eq hay).symm
    · obtain ⟨hdz, hx, hyy⟩ := Jac.double_affine_tangent hsq c a hz hy h2
      have hay0 : Jac.ay a ≠ 0 := by
        simp only [Jac.ay]; exact div_ne_zero hy (pow_ne_zero _ hz)
      have hne : Jac.ay a ≠ (shortW b).negY (Jac.ax a) (Jac.ay a) := by
        rw [negY_short]
        intro h
        have : (2 : K) * Jac.ay a = 0 := by linear_combination h
        rcases mul_eq_zero.mp this with h | h
        · exact h2 h
        · exact hay0 h
      rw [Point.add_self_of_Y_ne hne]
      have hsl : (shortW b).slope (Jac.ax a) (Jac.ax a) (Jac.ay a) (Jac.ay a) =
          3 * Jac.ax a ^ 2 / (2 * Jac.ay a) := by
        rw [slope_of_Y_ne rfl hne, negY_short]
        simp only [shortW]
        congr 1 <;> ring
      have hX : (shortW b).addX (Jac.ax a) (Jac.ax a)
          ((shortW b).slope (Jac.ax a) (Jac.ax a) (Jac.ay a) (Jac.ay a)) = Jac.ax (Jac.double c a) := by
        rw [hsl, hx]; simp only [addX, shortW]; ring
      have hY : (shortW b).addY (Jac.ax a) (Jac.ax a) (Jac.ay a)
          ((shortW b).slope (Jac.ax a) (Jac.ax a) (Jac.ay a) (Jac.ay a)) = Jac.ay (Jac.double c a) := by
        rw [hyy, addY, negY_short, negAddY, hX, hsl]; ring
      obtain ⟨h', e⟩ := some_congr b (nonsingular_add hn hn fun hxy => hne hxy.right) hX hY
      exact ⟨Or.inr h', by rw [toPoint_fin b _ hdz h', e]⟩

/-- **Add is addition in the group**, in every branch of the code -/
theorem add_point (hsq : ∀ a : K, Sq.sq a = a * a) (h2 : (2 : K) ≠ 0) (bb : K) (c a b : Jac K)
    (ha : Valid bb a) (hb : Valid bb b) :
    Valid bb (Jac.add c a b) ∧ toPoint bb (Jac.add c a b) = toPoint bb a + toPoint bb b := by
  by_cases hza : a.z = 0
  · rw [Jac.add_inf_left c a b hza, toPoint_inf bb a hza, zero_add]; exact ⟨hb, rfl⟩
  by_cases hzb : b.z = 0
  · rw [Jac.add_inf_right c a b hza hzb, toPoint_inf bb b hzb, add_zero]; exact ⟨ha, rfl⟩
  have hna := ha.resolve_left hza
  have hnb := hb.resolve_left hzb
  by_cases hH : Jac.H a b = 0
  · by_cases hN : Jac.N a b = 0
    · -- same affine point: the code doubles a
      rw [Jac.add_same hsq c a b hza hzb hH hN]
      obtain ⟨hv, hp⟩ := double_point hsq h2 bb c a ha
      refine ⟨hv, ?_⟩
      obtain ⟨ex, ey⟩ := (Jac.same_affine_iff a b hza hzb).mp ⟨hH, hN⟩
      have : toPoint bb b = toPoint bb a := by
        rw [toPoint_fin bb a hza hna, toPoint_fin bb b hzb hnb]
        obtain ⟨h', e⟩ := some_congr bb hnb ex.symm ey.symm
        rw [e]
      rw [hp, this]
    · -- opposite points
      have hz : (Jac.add c a b).z = 0 := Jac.add_opposite hsq c a b hza hzb hH hN
      refine ⟨Or.inl hz, ?_⟩
      rw [toPoint_inf bb _ hz, toPoint_fin bb a hza hna, toPoint_fin bb b hzb hnb]
      have hx : Jac.ax a = Jac.ax b := by
        have := Jac.ax_sub a b hza hzb; rw [hH, zero_div] at this; exact (sub_eq_zero.mp this).symm
      have hyne : Jac.ay a ≠ Jac.ay b := by
        intro h
        exact hN ((Jac.same_affine_iff a b hza hzb).mpr ⟨hx, h⟩).2
      have hy : Jac.ay a = (shortW bb).negY (Jac.ax b) (Jac.ay b) :=
        (Y_eq_of_X_eq hna.1 hnb.1 hx).resolve_left hyne
      exact (Point.add_of_Y_eq hx hy).symm
  · -- chord
    obtain ⟨hz, hx, hy⟩ := Jac.add_affine_chord hsq c a b hza hzb hH h2
    have hxne : Jac.ax a ≠ Jac.ax b := by
      intro h
      have := Jac.ax_sub a b hza hzb
      rw [h, sub_self] at this
      have hd : a.z ^ 2 * b.z ^ 2 ≠ 0 := mul_ne_zero (pow_ne_zero _ hza) (pow_ne_zero _ hzb)
      exact hH ((div_eq_zero_iff.mp this.symm).resolve_right hd)
    rw [toPoint_fin bb a hza hna, toPoint_fin bb b hzb hnb, Point.add_of_X_ne hxne]
    have hsl : (shortW bb).slope (Jac.ax a) (Jac.ax b) (Jac.ay a) (Jac.ay b) =
        (Jac.ay b - Jac.ay a) / (Jac.ax b - Jac.ax a) := by
      rw [slope_of_X_ne hxne, ← neg_sub (Jac.ay b), ← neg_sub (Jac.ax b), neg_div_neg_eq]
    have hX : (shortW bb).addX (Jac.ax a) (Jac.ax b)
        ((shortW bb).slope (Jac.ax a) (Jac.ax b) (Jac.ay a) (Jac.ay b)) = Jac.ax (Jac.add c a b) := by
      rw [hsl, hx]; simp only [addX, shortW]; ring
    have hY : (shortW bb).addY (Jac.ax a) (Jac.ax b) (Jac.ay a)
        ((shortW bb).slope (Jac.ax a) (Jac.ax b) (Jac.ay a) (Jac.ay b)) = Jac.ay (Jac.add c a b) := by
      rw [hy, addY, negY_short, negAddY, hX, hsl]; ring
    obtain ⟨h', e⟩ := some_congr bb (nonsingular_add hna hnb fun hxy => hxne hxy.left) hX hY
    exact ⟨Or.inr h', by rw [toPoint_fin bb _ hz h', e]⟩

/-- **Neg is negation in the group** (whatever is put in the `t` field) -/
theorem neg_point (b : K) (a : Jac K) (ha : Valid b a) (t : K := a.t) :
    Valid b (Jac.neg a t) ∧ toPoint b (Jac.neg a t) = -toPoint b a := by
  by_cases hz : a.z = 0
  · have : (Jac.neg a t).z = 0 := hz
    exact ⟨Or.inl this, by rw [toPoint_inf b _ this, toPoint_inf b _ hz, neg_zero]⟩
  · have hn := ha.resolve_left hz
    have hz' : (Jac.neg a t).z ≠ 0 := hz
    have hx : Jac.ax (Jac.neg a t) = Jac.ax a := rfl
    have hy : Jac.ay (Jac.neg a t) = (shortW b).negY (Jac.ax a) (Jac.ay a) := by
      rw [negY_short]; simp only [Jac.ay, Jac.neg]; ring
    have hn' : (shortW b).Nonsingular (Jac.ax (Jac.neg a t)) (Jac.ay (Jac.neg a t)) := by
      rw [hx, hy]; exact (nonsingular_neg ..).mpr hn
    refine ⟨Or.inr hn', ?_⟩
    rw [toPoint_fin b _ hz' hn', toPoint_fin b a hz hn, Point.neg_some]
    obtain ⟨h', e⟩ := some_congr b hn' hx hy
    rw [e]

/-- **the Mul loops compute k • P in Mathlib's group**, for every scalar -/
theorem mul_point (hsq : ∀ a : K, Sq.sq a = a * a) (h2 : (2 : K) ≠ 0) (b : K) (a : Jac K) (ha : Valid b a)
    (k : Nat) :
    toPoint b (Jac.curveMul a k) = k • toPoint b a ∧ toPoint b (Jac.twistMul a k) = k • toPoint b a := by
  have hinf : Valid b (Jac.infinity : Jac K) ∧ toPoint b (Jac.infinity : Jac K) = 0 :=
    ⟨Or.inl rfl, toPoint_inf b _ rfl⟩
  have hzero : Valid b (Jac.zeroValue : Jac K) ∧ toPoint b (Jac.zeroValue : Jac K) = 0 :=
    ⟨Or.inl rfl, toPoint_inf b _ rfl⟩
  exact ⟨(mulLoop_smul (Valid b) (toPoint b) (fun c a h => double_point hsq h2 b c a h)
      (fun c x y hx hy => add_point hsq h2 b c x y hx hy) a ha k _ _ hinf.1 hinf.2).2,
    (mulLoop_smul (Valid b) (toPoint b) (fun c a h => double_point hsq h2 b c a h)
      (fun c x y hx hy => add_point hsq h2 b c x y hx hy) a ha k _ _ hzero.1 hzero.2).2⟩

end
end Dos.Bn256

package c20

// CALL HISTORIES on shared mutable objects (round 5): one line is a whole sequence of schnorr.Sign / schnorr.Verify
// calls in this process on kyber.Scalar / kyber.Point objects and byte buffers that are CHANGED IN PLACE between the
// calls (x.Add(x, one), x.Pick(rnd), x.SetBytes(b), x.Set(y), P.Mul(x, nil) on the old point object, copy into the
// old message / signature buffer). The model (Model/SchnorrHist.lean, theorems Props/C20Hist.lean) is pure: every
// call is the one-shot function of the VALUES at call time. A cache keyed by a caller's object (seeded
// C20e-sign-pubkey-cache-aliases-private-scalar) shows as a signature that crypto/ed25519 rejects for the key of the
// value the scalar holds at that call.
//
//	hist <tag> <step> <step> …        objects are named by small numbers, one number = one Go object
//	  su:i:HEX32   s_i.UnmarshalBinary(raw bytes)      sb:i:HEX   s_i.SetBytes          sp:i:K   s_i.Pick(stream K)
//	  s1:i / s0:i  One() / Zero()                      sa|ss|sm:i:a:b  s_i.Add|Sub|Mul(s_a, s_b)     sn:i:a  Neg
//	  sc:i:a       s_i.Set(s_a) (in place)             sk:i:a     s_i = s_a.Clone() (a NEW object)
//	  pu:i:HEX32   P_i.UnmarshalBinary                 pb:i:s     P_i.Mul(s_s, nil)      pm:i:s:a  P_i.Mul(s_s, P_a)
//	  pa:i:a:b     P_i.Add(P_a, P_b)                   pc:i:a     P_i.Set(P_a)           pk:i:a    P_i = P_a.Clone()
//	  bw:i:MSG     refill buffer i in place (b = b[:n]; copy) when the capacity suffices      bn:i:MSG  a fresh buffer
//	  bp:i:off:HEX copy(b_i[off:], bytes)
//	  S:x:m:K:d    sig = schnorr.Sign(suite(nonce K), s_x, b_m); d = buffer that receives a copy (in place) or -
//	  V:p:m:s      schnorr.Verify(suite, P_p, b_m, b_s)
//	an object that does not exist yet is created by the first step that writes it.
//
// Output: one token per call: sig=<hex> | ok | rej:<kind> | badref.
// Oracles, independent of the repository: the harness keeps a shadow of every object (math/big scalars, affine
// math/big points, byte copies). Every signature Sign emits must verify under crypto/ed25519 for the key
// (shadow value)*B computed with math/big, and under a fresh bundled Verify; every Verify verdict must equal
// crypto/ed25519.Verify on the shadow values (canonical R); no call may change an object of the caller.

import (
	"bytes"
	"crypto/ed25519"
	"fmt"
	"math/big"
	"strings"

	"github.com/DOSNetwork/core/sign/schnorr"
	"github.com/dedis/kyber"

	"verifharness/internal/h"
)

type histState struct {
	sc  map[int]kyber.Scalar
	pt  map[int]kyber.Point
	buf map[int][]byte
	// shadows
	scv  map[int]*big.Int // raw value of the 32 bytes
	ptv  map[int]apt
	bufv map[int][]byte
}

func pickValue(k []byte) *big.Int {
	kv := new(big.Int).SetBytes(k)
	kv.And(kv, new(big.Int).Sub(pow2(253), big.NewInt(1)))
	if kv.Sign() == 0 || kv.Cmp(ell) >= 0 {
		kv = big.NewInt(1) // the fixed stream continues with 00…01
	}
	return kv
}

func (st *histState) scalar(i int) kyber.Scalar {
	if st.sc[i] == nil {
		st.sc[i] = suite.Scalar()
	}
	return st.sc[i]
}

func (st *histState) point(i int) kyber.Point {
	if st.pt[i] == nil {
		st.pt[i] = suite.Point()
	}
	return st.pt[i]
}

func (st *histState) refill(i int, data []byte, fresh bool) {
	b, ok := st.buf[i]
	if ok && !fresh && cap(b) >= len(data) {
		b = b[:len(data)]
		copy(b, data)
	} else {
		b = make([]byte, len(data), len(data)+32)
		copy(b, data)
	}
	st.buf[i] = b
	st.bufv[i] = append([]byte{}, data...)
}

// intact: every object of the caller still holds its shadow value
func (st *histState) intact() string {
	for i, s := range st.sc {
		b, _ := s.MarshalBinary()
		if !bytes.Equal(b, le32(new(big.Int).Mod(st.scv[i], ell))) {
			return fmt.Sprintf("scalar object %d holds %s, expected %s", i, h.Hex(b), h.Hex(le32(new(big.Int).Mod(st.scv[i], ell))))
		}
	}
	for i, p := range st.pt {
		b, _ := p.MarshalBinary()
		if !bytes.Equal(b, bigEncode(st.ptv[i].x, st.ptv[i].y)) {
			return fmt.Sprintf("point object %d holds %s, expected %s", i, h.Hex(b), h.Hex(bigEncode(st.ptv[i].x, st.ptv[i].y)))
		}
	}
	for i, b := range st.buf {
		if !bytes.Equal(b, st.bufv[i]) {
			return fmt.Sprintf("buffer %d holds %s, expected %s", i, h.Hex(b), h.Hex(st.bufv[i]))
		}
	}
	return ""
}

func execHist(w []string, res *h.Result) {
	st := &histState{sc: map[int]kyber.Scalar{}, pt: map[int]kyber.Point{}, buf: map[int][]byte{},
		scv: map[int]*big.Int{}, ptv: map[int]apt{}, bufv: map[int][]byte{}}
	res.Class = "hist-" + w[1]
	res.Nontrivial = true
	var outs []string
	fail := func(sig, format string, a ...interface{}) {
		if res.Oracle == "" {
			res.Oracle = sig + ": " + fmt.Sprintf(format, a...)
		}
	}
	ncall := 0
	for _, tok := range w[2:] {
		f := strings.Split(tok, ":")
		n := func(k int) int { return h.Atoi(f[k]) }
		hasS := func(ks ...int) bool {
			for _, k := range ks {
				if st.sc[n(k)] == nil {
					return false
				}
			}
			return true
		}
		hasP := func(ks ...int) bool {
			for _, k := range ks {
				if st.pt[n(k)] == nil {
					return false
				}
			}
			return true
		}
		switch f[0] {
		case "su":
			b := h.UnHex(f[2])
			if err := st.scalar(n(1)).UnmarshalBinary(b); err != nil {
				panic("hist: su wants 32 bytes")
			}
			st.scv[n(1)] = le(b)
		case "sb":
			b := h.UnHex(f[2])
			st.scalar(n(1)).SetBytes(b)
			st.scv[n(1)] = new(big.Int).Mod(le(b), ell)
		case "sp":
			k := h.UnHex(f[2])
			st.scalar(n(1)).Pick(&fixedStream{buf: append([]byte{}, k...)})
			st.scv[n(1)] = pickValue(k)
		case "s1":
			st.scalar(n(1)).One()
			st.scv[n(1)] = big.NewInt(1)
		case "s0":
			st.scalar(n(1)).Zero()
			st.scv[n(1)] = big.NewInt(0)
		case "sa", "ss", "sm":
			if !hasS(2, 3) {
				continue
			}
			a, b := st.sc[n(2)], st.sc[n(3)]
			av, bv := st.scv[n(2)], st.scv[n(3)]
			r := st.scalar(n(1))
			var v *big.Int
			switch f[0] {
			case "sa":
				r.Add(a, b)
				v = new(big.Int).Add(av, bv)
			case "ss":
				r.Sub(a, b)
				v = new(big.Int).Sub(av, bv)
			default:
				r.Mul(a, b)
				v = new(big.Int).Mul(av, bv)
			}
			st.scv[n(1)] = v.Mod(v, ell)
		case "sn":
			if !hasS(2) {
				continue
			}
			av := st.scv[n(2)]
			st.scalar(n(1)).Neg(st.sc[n(2)])
			v := new(big.Int).Neg(av)
			st.scv[n(1)] = v.Mod(v, ell)
		case "sc":
			if !hasS(2) {
				continue
			}
			av := st.scv[n(2)]
			st.scalar(n(1)).Set(st.sc[n(2)])
			st.scv[n(1)] = new(big.Int).Set(av)
		case "sk":
			if !hasS(2) {
				continue
			}
			av := st.scv[n(2)]
			st.sc[n(1)] = st.sc[n(2)].Clone()
			st.scv[n(1)] = new(big.Int).Set(av)
		case "pu":
			b := h.UnHex(f[2])
			x, y, _, ok := bigDecode(b)
			if err := st.point(n(1)).UnmarshalBinary(b); err != nil || !ok {
				panic("hist: pu wants the encoding of a curve point")
			}
			st.ptv[n(1)] = apt{x, y}
		case "pb":
			if !hasS(2) {
				continue
			}
			st.point(n(1)).Mul(st.sc[n(2)], nil)
			st.ptv[n(1)] = bigMul(new(big.Int).Mod(st.scv[n(2)], ell), bigBase)
		case "pm":
			if !hasS(2) || !hasP(3) {
				continue
			}
			a := st.ptv[n(3)]
			st.point(n(1)).Mul(st.sc[n(2)], st.pt[n(3)])
			st.ptv[n(1)] = bigMul(new(big.Int).Mod(st.scv[n(2)], ell), a) // all points of a history are multiples of B
		case "pa":
			if !hasP(2, 3) {
				continue
			}
			a, b := st.ptv[n(2)], st.ptv[n(3)]
			st.point(n(1)).Add(st.pt[n(2)], st.pt[n(3)])
			st.ptv[n(1)] = bigAdd(a, b)
		case "pc":
			if !hasP(2) {
				continue
			}
			a := st.ptv[n(2)]
			st.point(n(1)).Set(st.pt[n(2)])
			st.ptv[n(1)] = a
		case "pk":
			if !hasP(2) {
				continue
			}
			a := st.ptv[n(2)]
			st.pt[n(1)] = st.pt[n(2)].Clone()
			st.ptv[n(1)] = a
		case "bw", "bn":
			st.refill(n(1), msgOf(f[2]), f[0] == "bn")
		case "bp":
			b, ok := st.buf[n(1)]
			off, data := n(2), h.UnHex(f[3])
			if ok && off <= len(b) {
				copy(b[off:], data)
				copy(st.bufv[n(1)][off:], data)
			}
		case "S":
			ncall++
			x, m := n(1), n(2)
			if st.sc[x] == nil || st.buf[m] == nil {
				outs = append(outs, "badref")
				continue
			}
			sig, err := schnorr.Sign(suiteWithNonce(h.UnHex(f[3])), st.sc[x], st.buf[m])
			if err != nil {
				outs = append(outs, "signerr")
				fail("hist-sign-error", "call %d (%s): %s", ncall, tok, h.OneLine(err.Error()))
				continue
			}
			outs = append(outs, "sig="+h.Hex(sig))
			A := bigMul(new(big.Int).Mod(st.scv[x], ell), bigBase)
			pub := bigEncode(A.x, A.y)
			msg := st.bufv[m]
			if !ed25519.Verify(ed25519.PublicKey(pub), msg, sig) {
				fail("hist-sign-rejected-by-std", "call %d (%s): the scalar object holds %s at this call, key %s, message %s: crypto/ed25519 rejects %s",
					ncall, tok, h.Hex(le32(st.scv[x])), h.Hex(pub), h.Hex(msg), h.Hex(sig))
			} else {
				fresh := suite.Point()
				if err := fresh.UnmarshalBinary(pub); err != nil {
					fail("hist-key-decode", "call %d (%s): key %s refused", ncall, tok, h.Hex(pub))
				} else if v := verdict(schnorr.Verify(suite, fresh, append([]byte{}, msg...), append([]byte{}, sig...))); v != "ok" {
					fail("hist-sign-rejected-by-bundled", "call %d (%s): key %s message %s signature %s: %s", ncall, tok, h.Hex(pub), h.Hex(msg), h.Hex(sig), v)
				}
			}
			if f[4] != "-" {
				st.refill(h.Atoi(f[4]), sig, false)
			}
			if d := st.intact(); d != "" {
				fail("hist-argument-modified", "after call %d (%s): %s", ncall, tok, d)
			}
		case "V":
			ncall++
			p, m, s := n(1), n(2), n(3)
			if st.pt[p] == nil || st.buf[m] == nil || st.buf[s] == nil {
				outs = append(outs, "badref")
				continue
			}
			v := verdict(schnorr.Verify(suite, st.pt[p], st.buf[m], st.buf[s]))
			outs = append(outs, v)
			pub := bigEncode(st.ptv[p].x, st.ptv[p].y)
			msg, sig := st.bufv[m], st.bufv[s]
			std := ed25519.Verify(ed25519.PublicKey(pub), msg, sig)
			canonR := false
			if len(sig) == 64 {
				_, _, canonR, _ = bigDecode(sig[:32])
			}
			if (v == "ok") != std && (canonR || len(sig) != 64 || std) {
				fail("hist-verify-differs-from-std", "call %d (%s): bundled %s, crypto/ed25519 %v for key %s message %s signature %s", ncall, tok, v, std, h.Hex(pub), h.Hex(msg), h.Hex(sig))
			}
			if d := st.intact(); d != "" {
				fail("hist-argument-modified", "after call %d (%s): %s", ncall, tok, d)
			}
		default:
			panic("hist: bad step " + tok)
		}
	}
	if len(outs) == 0 {
		outs = []string{"-"}
	}
	res.Impl = strings.Join(outs, " ")
}

// ---------- generation ----------

func genHist(rng *h.Rng, thorough bool, emit func(string)) {
	one := big.NewInt(1)
	rawScalars := func() []*big.Int {
		x := rng.Big(pow2(248))
		return []*big.Int{rng.Big(ell), rng.Big(ell), big.NewInt(0), one, new(big.Int).Sub(ell, one), new(big.Int).Set(ell),
			new(big.Int).Sub(pow2(253), one), new(big.Int).Sub(pow2(255), one),
			new(big.Int).Add(x, new(big.Int).Lsh(big.NewInt(0x88), 248)), new(big.Int).Sub(pow2(256), one)}
	}
	msgTok := func() string {
		switch rng.Intn(4) {
		case 0:
			return "x-"
		case 1:
			return fmt.Sprintf("s%d,%d,%d", 100+rng.Intn(400), 1+rng.Intn(250), rng.Intn(256))
		}
		return "x" + h.Hex(rng.Bytes(1+rng.Intn(40)))
	}
	// in-place changes of the private scalar object 0 (helper objects 8, 9)
	changes := func() [][]string {
		return [][]string{
			{"s1:9", "sa:0:0:9"}, // x.Add(x, one)
			{"sp:0:" + nonce(rng)},
			{"sb:0:" + h.Hex(rng.Bytes(64))},
			{"su:0:" + hx32(rng.Big(ell))},
			{"su:8:" + hx32(rng.Big(ell)), "sc:0:8"},
			{"su:8:" + hx32(rng.Big(ell)), "sm:0:0:8"},
			{"sn:0:0"},
			{"su:8:" + hx32(rng.Big(ell)), "ss:0:8:0"},
			{"s1:0"},
		}
	}
	reps := 1
	if thorough {
		reps = 8
	}
	for r := 0; r < reps; r++ {
		// 1. the private scalar object is changed in place between Sign calls; each signature is also verified with
		// the public point object 3 recomputed IN PLACE from the scalar object
		for xi, x := range rawScalars() {
			for ci, ch := range changes() {
				if !thorough && (ci+xi)%3 != 0 && ci > 1 {
					continue
				}
				m := msgTok()
				st := []string{"su:0:" + hx32(x), "bw:1:" + m, "S:0:1:" + nonce(rng) + ":2", "pb:3:0", "V:3:1:2"}
				for g := 0; g < 2; g++ {
					if g == 1 {
						ch = changes()[rng.Intn(9)]
					}
					st = append(st, ch...)
					st = append(st, "S:0:1:"+nonce(rng)+":2", "V:3:1:2", "pb:3:0", "V:3:1:2")
				}
				emit("hist key-inplace " + strings.Join(st, " "))
			}
		}
		// 2. the message buffer is overwritten in place; old signatures against the new content
		for i := 0; i < 6; i++ {
			x := rawScalars()[rng.Intn(2)]
			m1, m2 := "x"+h.Hex(rng.Bytes(24)), "x"+h.Hex(rng.Bytes(1+rng.Intn(24)))
			st := []string{"su:0:" + hx32(x), "pb:3:0", "bw:1:" + m1, "S:0:1:" + nonce(rng) + ":2", "V:3:1:2",
				"bw:1:" + m2, "V:3:1:2", "S:0:1:" + nonce(rng) + ":4", "V:3:1:4", "V:3:1:2",
				"bp:1:0:" + h.Hex(rng.Bytes(1)), "V:3:1:4", "S:0:1:" + nonce(rng) + ":2", "V:3:1:2", "bw:1:" + m1, "V:3:1:2"}
			emit("hist msg-inplace " + strings.Join(st, " "))
		}
		// 3. the signature buffer is re-used and poked
		for i := 0; i < 6; i++ {
			x := rng.Big(ell)
			st := []string{"su:0:" + hx32(x), "pb:3:0", "bw:1:" + msgTok(), "S:0:1:" + nonce(rng) + ":2", "V:3:1:2"}
			off := rng.Intn(64)
			st = append(st, fmt.Sprintf("bp:2:%d:%s", off, h.Hex(rng.Bytes(1))), "V:3:1:2", "S:0:1:"+nonce(rng)+":2", "V:3:1:2",
				"bw:2:x"+h.Hex(rng.Bytes(63)), "V:3:1:2", "S:0:1:"+nonce(rng)+":2", "V:3:1:2")
			emit("hist sig-inplace " + strings.Join(st, " "))
		}
		// 4. two keys, objects alternating: A B A, same value in another object, same object and value repeated
		for i := 0; i < 6; i++ {
			x, y := rng.Big(ell), rng.Big(ell)
			m := msgTok()
			st := []string{"su:0:" + hx32(x), "su:5:" + hx32(y), "bw:1:" + m, "pb:3:0", "pb:6:5",
				"S:0:1:" + nonce(rng) + ":2", "V:3:1:2", "V:6:1:2", "S:5:1:" + nonce(rng) + ":2", "V:6:1:2", "V:3:1:2",
				"S:0:1:" + nonce(rng) + ":2", "V:3:1:2", "S:0:1:" + nonce(rng) + ":2", "V:3:1:2",
				"sk:7:0", "S:7:1:" + nonce(rng) + ":2", "V:3:1:2",
				"sc:0:5", "S:0:1:" + nonce(rng) + ":2", "V:6:1:2", "V:3:1:2", "S:7:1:" + nonce(rng) + ":2", "V:3:1:2",
				"pc:3:6", "V:3:1:2", "pk:4:3", "pb:3:7", "V:4:1:2", "V:3:1:2"}
			emit("hist two-keys " + strings.Join(st, " "))
		}
		// 5. standard signatures in a re-used buffer, the key object decoded in place
		for i := 0; i < 4; i++ {
			var st []string
			m := rng.Bytes(1 + rng.Intn(30))
			st = append(st, "bw:1:x"+h.Hex(m))
			for j := 0; j < 3; j++ {
				priv := ed25519.NewKeyFromSeed(rng.Bytes(32))
				st = append(st, "pu:3:"+h.Hex(priv[32:]), "bw:2:x"+h.Hex(ed25519.Sign(priv, m)), "V:3:1:2")
				if j == 1 {
					m = rng.Bytes(len(m))
					st = append(st, "bw:1:x"+h.Hex(m), "V:3:1:2", "bw:2:x"+h.Hex(ed25519.Sign(priv, m)), "V:3:1:2")
				}
			}
			emit("hist std-inplace " + strings.Join(st, " "))
		}
		// 6. random histories over two scalar, two point, two message and two signature objects
		nr := 40
		for i := 0; i < nr; i++ {
			st := []string{"su:0:" + hx32(rng.Big(ell)), "sb:1:" + h.Hex(rng.Bytes(40)), "bw:10:" + msgTok(), "bw:11:" + msgTok(),
				"pb:20:0", "pb:21:1", "S:0:10:" + nonce(rng) + ":30", "S:1:11:" + nonce(rng) + ":31"}
			for k := 0; k < 8+rng.Intn(8); k++ {
				s, s2 := rng.Intn(2), rng.Intn(2)
				switch rng.Intn(14) {
				case 0:
					st = append(st, "s1:9", fmt.Sprintf("sa:%d:%d:9", s, s))
				case 1:
					st = append(st, fmt.Sprintf("sp:%d:%s", s, nonce(rng)))
				case 2:
					st = append(st, fmt.Sprintf("sm:%d:%d:%d", s, s, s2))
				case 3:
					st = append(st, fmt.Sprintf("sc:%d:%d", s, s2))
				case 4:
					st = append(st, fmt.Sprintf("bw:%d:%s", 10+s, msgTok()))
				case 5:
					st = append(st, fmt.Sprintf("pb:%d:%d", 20+s, s2))
				case 6:
					st = append(st, fmt.Sprintf("pa:%d:%d:%d", 20+s, 20+s, 20+s2))
				case 7:
					st = append(st, fmt.Sprintf("pm:%d:%d:%d", 20+s, s2, 20+s))
				case 8:
					st = append(st, fmt.Sprintf("bp:%d:%d:%s", 30+s, rng.Intn(64), h.Hex(rng.Bytes(1))))
				case 9, 10, 11:
					st = append(st, fmt.Sprintf("S:%d:%d:%s:%d", s, 10+s2, nonce(rng), 30+rng.Intn(2)))
				default:
					st = append(st, fmt.Sprintf("V:%d:%d:%d", 20+s, 10+s2, 30+rng.Intn(2)))
				}
				if rng.Intn(3) == 0 {
					st = append(st, fmt.Sprintf("pb:%d:%d", 20+s, s), fmt.Sprintf("V:%d:%d:%d", 20+s, 10+s2, 30+rng.Intn(2)))
				}
			}
			emit("hist random " + strings.Join(st, " "))
		}
	}
	emit("hist badref S:0:1:" + nonce(rng) + ":- V:3:1:2 su:0:" + hx32(one) + " S:0:1:" + nonce(rng) + ":-")
}

/-
C02 / C03 composed with the elliptic-curve group law — the theorems of `Props/C02.lean`, `Props/C03.lean`
(stated for an abstract field and module) TRANSPORTED to the concrete instance the drivers `drv_c02` /
`drv_c03` execute and the correspondence run compares with the real `tbls.Recover`: scalars `Zq r`,
points `G1.Pt` (`Model/TblsG1.lean`), codec `g1Codec` (`Model/TblsDrv.lean`).

design/C02.md: "No theorem is stated for the concrete `G1.Pt` instance: the chord/tangent formulas are a
group only on the curve … a sound bridge needs the on-curve subtype or a refinement map into an abstract
module".  The refinement map is `φ : G1.Pt → E(F_p)` into Mathlib's group of the curve `y² = x³ + 3`
(`Proofs/ComposeTblsG1.lean`: `add`, `neg` of the driver ARE the group operations on valid points, `p`
prime by `Proofs/Primes.lean`), and `Proofs/ComposeNatural.lean` (naturality of the `Recover` model).

`Proofs/ComposeTblsG1Mul.lean` proves that the driver's Jacobian double-and-add `G1.mul` (doubling
"dbl-2009-l", mixed addition, final inversion) computes `k • P` in that group.

The ONE hypothesis that remains, explicit in every statement that needs it:
* `hr : ∀ P : E, r • P = 0` — `#E(F_p) = r` (the curve group has exponent `r`); needed for `E(F_p)` to
  be a `Z/r`-module at all.  Not provable here (no point counting in Mathlib).
-/
import DosModel.Proofs.ComposeTblsG1Module

set_option linter.unusedSectionVars false
set_option linter.style.haveILetI false

namespace Dos.Props.C02ComposeG1
open Dos Dos.G1 Dos.Share Dos.Tbls Dos.Compose.TG1 Dos.Compose.Curve

/-- the driver's G1 addition and negation are the group operations of `E(F_p)` on valid points
(closure included), the map `φ` is injective there, and what the decoder accepts is valid -/
theorem g1_driver_group_law (P Q : Pt) (hP : Valid P) (hQ : Valid Q) :
    (Valid (G1.add P Q) ∧ φ (G1.add P Q) = φ P + φ Q) ∧ (Valid (G1.neg P) ∧ φ (G1.neg P) = -φ P)
    ∧ (φ P = φ Q → P = Q) ∧ (∀ b R, G1.decode b = some R → Valid R) :=
  ⟨valid_add P Q hP hQ, valid_neg P hP, φ_inj hP hQ, decode_valid⟩

/-- **the driver's scalar multiplication is `k •` of the group** (no hypothesis besides validity): the
Jacobian double-and-add of `Model/TblsG1.lean` stays on the curve and computes the `k`-fold sum -/
theorem g1_driver_mul_is_scalar_multiple (k : Nat) (P : Pt) (hP : Valid P) :
    Valid (G1.mul k P) ∧ φ (G1.mul k P) = k • φ P := mulBridge k P hP

/-- hence the driver's addition is commutative and associative on valid points -/
theorem g1_driver_add_laws (P Q R : Pt) (hP : Valid P) (hQ : Valid Q) (hR : Valid R) :
    G1.add P Q = G1.add Q P ∧ G1.add (G1.add P Q) R = G1.add P (G1.add Q R) := by
  have va : ∀ A B, Valid A → Valid B → Valid (G1.add A B) ∧ φ (G1.add A B) = φ A + φ B :=
    fun A B hA hB => valid_add A B hA hB
  constructor
  · apply φ_inj (va P Q hP hQ).1 (va Q P hQ hP).1
    rw [(va P Q hP hQ).2, (va Q P hQ hP).2, add_comm]
  · apply φ_inj (va _ R (va P Q hP hQ).1 hR).1 (va P _ hP (va Q R hQ hR).1).1
    rw [(va _ R (va P Q hP hQ).1 hR).2, (va P Q hP hQ).2, (va P _ hP (va Q R hQ hR).1).2,
      (va Q R hQ hR).2, add_assoc]

/-- **C02 `recover_unique` for the functions the driver runs.**  `hm` a valid point (the hashed
message), `signers` distinct member numbers `< n`, at least `t` of them, each with SOME entry in the list
carrying its index and decoding to its share `f(i+1) • H(m)` computed by the driver's own `G1.mul` — in
any order, with anything else in the list.  Then the driver's `recover` returns the encoding of
`f(0) • H(m)`. -/
theorem recover_unique_g1 (hr : ∀ P : E, G1.r • P = 0) (f : List (Zq G1.r))
    (hm : Pt) (hv : Valid hm) (t n : Nat) (ht : 0 < t) (hf : f.length ≤ t) (hn : n < 2 ^ 63)
    (sigs : List Bytes) (signers : List Nat) (hnd : signers.Nodup) (hcount : t ≤ signers.length)
    (hgood : ∀ i ∈ signers, i < n ∧ ∃ e ∈ sigs, sigIndex e = some i ∧
      G1.decode (sigValue e) = some (G1.mul (priEval f (i : Int)).val hm)) :
    recover g1Codec f hm sigs t n = .ok (G1.encode (G1.mul (f.headD 0).val hm)) := by
  have hmul := mulBridge
  letI := moduleE hr
  rw [← recover_eq_abstract hr hmul f hm hv sigs t n]
  have hq : t ≤ (members codecE f (φ hm) n sigs).card := by
    have hsub : signers.toFinset ⊆ members codecE f (φ hm) n sigs := by
      intro i hi
      rw [List.mem_toFinset] at hi
      obtain ⟨hin, e, he, hidx, hdec⟩ := hgood i hi
      simp only [members, List.mem_toFinset, List.mem_filterMap]
      refine ⟨e, he, (Props.C03.counts_iff codecE f (φ hm) n e i).2 ⟨hidx, hin, ?_⟩⟩
      show (G1.decode (sigValue e)).map φ = _
      rw [hdec, Option.map_some, (hmul _ hm hv).2]
      rfl
    calc t ≤ signers.length := hcount
      _ = signers.toFinset.card := (List.toFinset_card_of_nodup hnd).symm
      _ ≤ _ := Finset.card_le_card hsub
  rw [Props.C02.recover_unique codecE f (φ hm) t n ht hf
    (Props.C09.zq_charGt G1.r n (Nat.lt_trans hn (by decide))) sigs hq]
  show Res.ok (G1.encode (ψ ((f.headD 0).val • φ hm))) = _
  rw [← (hmul _ hm hv).2, ψ_φ _ (hmul _ hm hv).1]

/-- **C02 `recover_total` for the driver**: never a panic, any polynomial, any entries -/
theorem recover_total_g1 (hr : ∀ P : E, G1.r • P = 0) (f : List (Zq G1.r))
    (hm : Pt) (hv : Valid hm) (t n : Nat) (ht : 0 < t) (hn : n < 2 ^ 63) (sigs : List Bytes) :
    ∀ s, recover g1Codec f hm sigs t n ≠ .panic s := by
  have hmul := mulBridge
  letI := moduleE hr
  rw [← recover_eq_abstract hr hmul f hm hv sigs t n]
  exact Props.C02.recover_total codecE f (φ hm) t n ht
    (Props.C09.zq_charGt G1.r n (Nat.lt_trans hn (by decide))) sigs

/-- **C03 `recover_ok_verifies` for the driver**: whatever the driver's `recover` returns is the
encoding of `f(0) • H(m)` and passes the driver's `bls.Verify` under the group key – ANY public
polynomial (the guard of /repo 3cdfff8 refuses `t < len f`) -/
theorem recover_ok_verifies_g1 (hr : ∀ P : E, G1.r • P = 0) (f : List (Zq G1.r))
    (hm : Pt) (hv : Valid hm) (t n : Nat) (ht : 0 < t) (hn : n < 2 ^ 63)
    (sigs : List Bytes) (s : Bytes) (h : recover g1Codec f hm sigs t n = .ok s) :
    s = G1.encode (G1.mul (f.headD 0).val hm) ∧ blsVerifyR g1Codec (f.headD 0) hm s = .ok := by
  have hmul := mulBridge
  letI := moduleE hr
  rw [← recover_eq_abstract hr hmul f hm hv sigs t n] at h
  obtain ⟨_, h2, h3⟩ := Props.C03.recover_ok_verifies codecE codecE_roundtrip f (φ hm) t n ht
    (Props.C09.zq_charGt G1.r n (Nat.lt_trans hn (by decide))) sigs s h
  have hs : s = G1.encode (G1.mul (f.headD 0).val hm) := by
    rw [h2]
    show G1.encode (ψ ((f.headD 0).val • φ hm)) = _
    rw [← (hmul _ hm hv).2, ψ_φ _ (hmul _ hm hv).1]
  refine ⟨hs, ?_⟩
  rw [← Compose.Natural.blsVerifyR_nat (hom hr hmul) codecHom (f.headD 0) hm hv s]
  exact h3

/-- **C03 `below_threshold_errors` for the driver**: fewer than `t` members with a countable entry ⇒
an error ("not enough shares", or the refusal of a threshold below the polynomial's), whatever else is
in the list (no `hr`-free shortcut: the statement is transported
through the same module structure) -/
theorem below_threshold_errors_g1 (hr : ∀ P : E, G1.r • P = 0) (f : List (Zq G1.r))
    (hm : Pt) (hv : Valid hm) (t n : Nat) (ht : 0 < t) (sigs : List Bytes)
    (hfew : ∀ signers : List Nat, signers.Nodup →
      (∀ i ∈ signers, i < n ∧ ∃ e ∈ sigs, sigIndex e = some i ∧
        G1.decode (sigValue e) = some (G1.mul (priEval f (i : Int)).val hm)) → signers.length < t) :
    recover g1Codec f hm sigs t n = if t < f.length then .errThreshold else .errFew := by
  have hmul := mulBridge
  letI := moduleE hr
  rw [← recover_eq_abstract hr hmul f hm hv sigs t n]
  apply Props.C03.below_threshold_errors codecE f (φ hm) t n ht sigs
  have := hfew (members codecE f (φ hm) n sigs).toList (Finset.nodup_toList _) (by
    intro i hi
    rw [Finset.mem_toList] at hi
    simp only [members, List.mem_toFinset, List.mem_filterMap] at hi
    obtain ⟨e, he, hval⟩ := hi
    obtain ⟨h1, h2, h3⟩ := (Props.C03.counts_iff codecE f (φ hm) n e i).1 hval
    refine ⟨h2, e, he, h1, ?_⟩
    have h3' : (G1.decode (sigValue e)).map φ = some (priEval f (i : Int) • φ hm) := h3
    cases hd : G1.decode (sigValue e) with
    | none => rw [hd] at h3'; cases h3'
    | some s =>
      rw [hd, Option.map_some] at h3'
      have hs := decode_valid _ _ hd
      have : φ s = φ (G1.mul (priEval f (i : Int)).val hm) := by
        rw [(hmul _ hm hv).2]; exact Option.some.inj h3'
      rw [φ_inj hs (hmul _ hm hv).1 this])
  rwa [Finset.length_toList] at this

/-! non-vacuity: the base point and its multiples are valid, the driver's operations on them obey the
group laws (evaluated by the kernel), and a decoded share is valid -/

theorem base_valid : Valid G1.base := by
  show 1 < G1.p ∧ 2 < G1.p ∧ G1.onCurve 1 2 = true
  decide

example : G1.add (G1.add G1.base G1.base) (G1.neg G1.base) = G1.base := by decide +kernel
example : Valid (G1.mul 12345 G1.base) := (g1_driver_mul_is_scalar_multiple 12345 G1.base base_valid).1
example : G1.add G1.base (G1.mul 5 G1.base) = G1.add (G1.mul 5 G1.base) G1.base :=
  (g1_driver_add_laws _ _ G1.base base_valid (g1_driver_mul_is_scalar_multiple 5 _ base_valid).1 base_valid).1
example : φ (G1.mul 7 G1.base) = 7 • φ G1.base := (g1_driver_mul_is_scalar_multiple 7 G1.base base_valid).2

end Dos.Props.C02ComposeG1

// Package c06: bls.Verify / bls.Sign of the real code against
//   (a) the Lean driver drv_c06 (generic Verify model on the point-equation instance, Lean Keccak),
//   (b) the EVM: go-ethereum core/vm precompiles 0x07 (ecMul) and 0x08 (ecPairing) fed with the
//       library's canonical encodings,
//   (c) go-ethereum crypto/bn256/google (pure big.Int pairing) and math/big (bnref) for the
//       expected signature / key bytes.
package c06

import (
	"bytes"
	"fmt"
	"math/big"
	"sort"
	"strings"
	"sync"

	dkg "github.com/DOSNetwork/core/share/dkg/pedersen"
	vss "github.com/DOSNetwork/core/share/vss/pedersen"
	"github.com/DOSNetwork/core/sign/bls"
	"github.com/DOSNetwork/core/suites"
	"github.com/dedis/kyber"
	"github.com/ethereum/go-ethereum/common"
	"github.com/ethereum/go-ethereum/core/vm"
	"github.com/ethereum/go-ethereum/crypto"
	gbn "github.com/ethereum/go-ethereum/crypto/bn256/google"

	"verifharness/internal/h"
	"verifharness/props/c11/bnref"
)

func init() {
	h.Register(&h.Prop{
		ID: "C06",
		Rule: "cases: verify <sk> <msg> <sig> with sk in {0,1,r-1,random}, msg in {empty, 1 MiB, random, short} (keccak ≥ r and < r both occur), sig = valid signature or a mutation " +
			"(one bit flipped in every byte, −S, identity, off-curve, swapped coordinates, signature of another key / another message, x+p and y+p re-encodings, trailing bytes, truncated, S+G, random on-curve point); " +
			"sign <sk> <msg> (emitted signature and public key are canonical EVM encodings); conc <sk> <msg> <sig> <mul|sum> <rounds> <n> (per round a fresh non-normalised key object shared by n goroutines released together: every verdict = the EVM verdict, the key afterwards encodes as an independent copy, inputs unmodified); " +
			"hist <tag> <steps> (call HISTORIES on shared mutable caller objects: message/signature/key byte buffers refilled in place with the same or another length, sub-slices of one backing array, append into spare capacity, " +
			"the same kyber.Point / kyber.Scalar objects set again, interleaved calls on other messages, tbls.Verify over shared key objects, random walks: every call's outcome = the model's outcome for the VALUES at call time (no hidden state) " +
			"and = the EVM predicate on copies taken before the call; a call writes to no caller memory); par <rounds> <calls> (concurrent Sign/Verify calls on different values). non-trivial = every verify case with a non-empty signature, every sign case; distinct = distinct case line",
		Gen:    gen,
		Exec:   exec,
		Shrink: shrinkLine,
	})
}

var suite = suites.MustFind("bn256")
var two256 = new(big.Int).Lsh(big.NewInt(1), 256)

func scalar(k *big.Int) kyber.Scalar {
	return suite.G1().Scalar().SetBytes(new(big.Int).Mod(k, bnref.Rn).Bytes())
}

func msgOf(s string) []byte {
	if strings.HasPrefix(s, "syn:") {
		var n, a, b int
		if _, err := fmt.Sscanf(s, "syn:%d:%d:%d", &n, &a, &b); err != nil {
			panic("bad message descriptor " + s)
		}
		m := make([]byte, n)
		for i := range m {
			m[i] = byte((a*i + b) % 256)
		}
		return m
	}
	return h.UnHex(s)
}

func precompile(n byte, in []byte) ([]byte, error) {
	return vm.PrecompiledContractsIstanbul[common.BytesToAddress([]byte{n})].Run(in)
}

func be32(v *big.Int) []byte {
	b := new(big.Int).Mod(v, two256).Bytes()
	out := make([]byte, 32)
	copy(out[32-len(b):], b)
	return out
}

func isZero(b []byte) bool {
	for _, x := range b {
		if x != 0 {
			return false
		}
	}
	return true
}

// negEVM: (x, p − y) computed with math/big on a canonical 64-byte encoding (identity stays zeros)
func negEVM(enc []byte) []byte {
	if isZero(enc) {
		return make([]byte, 64)
	}
	y := new(big.Int).SetBytes(enc[32:64])
	return append(append([]byte{}, enc[:32]...), be32(bnref.Neg(y))...)
}

func pkEVM(X kyber.Point) ([]byte, error) {
	enc, err := X.MarshalBinary()
	if err != nil {
		return nil, err
	}
	if len(enc) == 1 && enc[0] == 0 {
		return make([]byte, 128), nil
	}
	if len(enc) != 129 || enc[0] != 1 {
		return nil, fmt.Errorf("public key encoding has %d bytes, tag %x", len(enc), enc[:1])
	}
	return enc[1:], nil
}

var g1genEVM = append(be32(big.NewInt(1)), be32(big.NewInt(2))...)
var g2genEVM = bnref.Enc2EVM(bnref.G2Gen())

// evmPredicate: e(−S, G2gen)·e(keccak256(msg)·G1gen, pk) == 1 by precompiles 0x07 and 0x08
func evmPredicate(sigCanon, pk128, msg []byte) (bool, string) {
	kec := crypto.Keccak256(msg)
	H, err := precompile(7, append(append([]byte{}, g1genEVM...), kec...))
	if err != nil {
		return false, "ecMul: " + err.Error()
	}
	in := append([]byte{}, negEVM(sigCanon)...)
	in = append(in, g2genEVM...)
	in = append(in, H...)
	in = append(in, pk128...)
	out, err := precompile(8, in)
	if err != nil {
		return false, "ecPairing: " + err.Error()
	}
	return len(out) == 32 && out[31] == 1 && isZero(out[:31]), ""
}

func googlePredicate(sigCanon, pk128, msg []byte) (bool, string) {
	S, X := new(gbn.G1), new(gbn.G2)
	if _, err := S.Unmarshal(negEVM(sigCanon)); err != nil {
		return false, "google G1: " + err.Error()
	}
	if _, err := X.Unmarshal(pk128); err != nil {
		return false, "google G2: " + err.Error()
	}
	hs := new(big.Int).SetBytes(crypto.Keccak256(msg))
	H := new(gbn.G1).ScalarBaseMult(hs.Mod(hs, bnref.Rn))
	B := new(gbn.G2).ScalarBaseMult(big.NewInt(1))
	return gbn.PairingCheck([]*gbn.G1{S, H}, []*gbn.G2{B, X}), ""
}

func errKind(err error) string {
	s := err.Error()
	switch {
	case strings.Contains(s, "not enough data"):
		return "parse:short"
	case strings.Contains(s, "malformed point"):
		return "parse:malformed"
	case strings.Contains(s, "exceeds modulus"):
		return "parse:noncanon"
	case strings.Contains(s, "invalid signature"):
		return "pairing"
	}
	return "other:" + h.OneLine(s)
}

func hashScalar(msg []byte) *big.Int {
	v := new(big.Int).SetBytes(crypto.Keccak256(msg))
	return v.Mod(v, bnref.Rn)
}

func exec(line string) (res h.Result) {
	w := strings.Fields(line)
	res.Class = w[0]
	res.Nontrivial = true
	switch w[0] {
	case "hist":
		return execHist(w)
	case "par":
		return execPar(w)
	case "verify":
		sk, msg, sig := h.BigDec(w[1]), msgOf(w[2]), h.UnHex(w[3])
		X := suite.G2().Point().Mul(scalar(sk), nil)
		err := bls.Verify(suite, X, msg, sig)
		accept := err == nil
		if accept {
			res.Impl = "accept"
		} else {
			res.Impl = "reject " + errKind(err)
		}
		res.Class = "verify-" + strings.Replace(res.Impl, " ", "-", -1)
		res.Nontrivial = len(sig) > 0
		// does the library parse the signature?
		S := suite.G1().Point()
		if perr := S.UnmarshalBinary(sig); perr != nil {
			if accept {
				res.Oracle = "c06-unparsable-accepted: UnmarshalBinary says " + perr.Error()
			}
			return
		}
		canon, _ := S.MarshalBinary()
		pk, perr := pkEVM(X)
		if perr != nil {
			res.Oracle = "c06-pk-encoding: " + perr.Error()
			return
		}
		evm, e1 := evmPredicate(canon, pk, msg)
		if e1 != "" {
			res.Oracle = "c06-evm-rejects-canonical-encoding: " + e1
			return
		}
		if evm != accept {
			res.Oracle = fmt.Sprintf("c06-verify-differs-from-evm: bls.Verify accept=%v, ecPairing precompile says %v", accept, evm)
			return
		}
		goo, e2 := googlePredicate(canon, pk, msg)
		if e2 != "" {
			res.Oracle = "c06-google-rejects-canonical-encoding: " + e2
			return
		}
		if goo != accept {
			res.Oracle = fmt.Sprintf("c06-verify-differs-from-google: bls.Verify accept=%v, bn256/google says %v", accept, goo)
			return
		}
		// what the secrets say: accept ⇔ S = (sk·h)•G1
		k := new(big.Int).Mul(new(big.Int).Mod(sk, bnref.Rn), hashScalar(msg))
		want := bytes.Equal(canon, bnref.Enc1(bnref.Mul1(k.Mod(k, bnref.Rn), bnref.G1Gen())))
		if want != accept {
			res.Oracle = fmt.Sprintf("c06-verify-differs-from-definition: accept=%v but S == sk·H(m) is %v", accept, want)
		}
	case "sign":
		sk, msg := h.BigDec(w[1]), msgOf(w[2])
		x := scalar(sk)
		X := suite.G2().Point().Mul(x, nil)
		sig, err := bls.Sign(suite, x, msg)
		if err != nil {
			res.Impl = "err sign"
			res.Oracle = "c06-sign-error: " + err.Error()
			return
		}
		pkenc, _ := X.MarshalBinary()
		res.Impl = fmt.Sprintf("ok %s pk=%s", h.Hex(sig), h.Hex(pkenc))
		ident := new(big.Int).Mod(sk, bnref.Rn).Sign() == 0
		// canonical EVM encodings
		if len(sig) != 64 {
			res.Oracle = fmt.Sprintf("c06-emitted-signature-length: %d", len(sig))
			return
		}
		for i := 0; i < 2; i++ {
			if new(big.Int).SetBytes(sig[32*i:32*i+32]).Cmp(bnref.P) >= 0 {
				res.Oracle = "c06-emitted-coordinate-not-canonical: signature word " + fmt.Sprint(i)
				return
			}
		}
		k := new(big.Int).Mul(new(big.Int).Mod(sk, bnref.Rn), hashScalar(msg))
		if want := bnref.Enc1(bnref.Mul1(k.Mod(k, bnref.Rn), bnref.G1Gen())); !bytes.Equal(sig, want) {
			res.Oracle = "c06-emitted-signature-differs: expected sk·(keccak256(m) mod r)·G1 = " + h.Hex(want)
			return
		}
		if want := bnref.Enc2(bnref.Mul2(new(big.Int).Mod(sk, bnref.Rn), bnref.G2Gen())); !bytes.Equal(pkenc, want) {
			res.Oracle = "c06-emitted-pubkey-differs: expected 0x01‖x.im‖x.re‖y.im‖y.re = " + h.Hex(want)
			return
		}
		pk, perr := pkEVM(X)
		if perr != nil {
			res.Oracle = "c06-pk-encoding: " + perr.Error()
			return
		}
		// the EVM reads the emitted key and signature: ecAdd(sig, 0) parses it; the pairing predicate holds
		if out, err := precompile(6, append(append([]byte{}, sig...), make([]byte, 64)...)); err != nil || !bytes.Equal(out, sig) {
			res.Oracle = fmt.Sprintf("c06-evm-rejects-emitted-signature: ecAdd err=%v", err)
			return
		}
		if ok, e := evmPredicate(sig, pk, msg); e != "" || !ok {
			res.Oracle = fmt.Sprintf("c06-evm-rejects-emitted-signature: pairing=%v %s", ok, e)
			return
		}
		if err := bls.Verify(suite, X, msg, sig); err != nil {
			res.Oracle = "c06-own-signature-rejected: " + err.Error()
			return
		}
		// the coordinate splitters used for the contract calls invert the encodings
		sx, sy := (&vss.Signature{Signature: sig}).ToBigInt()
		if !bytes.Equal(be32(sx), sig[:32]) || !bytes.Equal(be32(sy), sig[32:]) {
			res.Oracle = "c06-ToBigInt-differs"
			return
		}
		if !ident {
			c, err := dkg.VerifDecodePubKey(X)
			if err != nil {
				res.Oracle = "c06-decodePubKey-error: " + err.Error()
				return
			}
			for i := 0; i < 4; i++ {
				if !bytes.Equal(be32(c[i]), pk[32*i:32*i+32]) || c[i].Cmp(bnref.P) >= 0 {
					res.Oracle = fmt.Sprintf("c06-decodePubKey-differs: word %d", i)
					return
				}
			}
		}
	case "conc":
		// conc <sk> <msg> <sig> <keymode> <rounds> <n>: per round a FRESH, not yet normalised key object
		// (Jacobian result of Mul / Add), n goroutines released together, each bls.Verify with the shared
		// key object and the shared message / signature slices.
		sk, msg, sig := h.BigDec(w[1]), msgOf(w[2]), h.UnHex(w[3])
		keymode, rounds, n := w[4], h.Atoi(w[5]), h.Atoi(w[6])
		skr := new(big.Int).Mod(sk, bnref.Rn)
		wantKey := bnref.Enc2(bnref.Mul2(skr, bnref.G2Gen())) // independent copy of the key's encoding
		pk128 := bnref.Enc2EVM(bnref.Mul2(skr, bnref.G2Gen()))
		msg0, sig0 := append([]byte{}, msg...), append([]byte{}, sig...)
		// the EVM verdict, from independently computed encodings
		evm, parsed := false, false
		if r1 := refSig(sig); r1 != nil {
			parsed = true
			var e1 string
			evm, e1 = evmPredicate(r1, pk128, msg)
			if e1 != "" {
				res.Oracle = "c06-evm-rejects-canonical-encoding: " + e1
			}
		}
		counts := map[string]int{}
		for r := 0; r < rounds && res.Oracle == ""; r++ {
			var X kyber.Point
			switch keymode {
			case "mul":
				X = suite.G2().Point().Mul(scalar(sk), nil)
			default: // "sum": a·G2 + (sk−a)·G2, as PubPoly.Commit()/Eval build keys
				a := big.NewInt(int64(7 + r))
				b := new(big.Int).Sub(skr, a)
				X = suite.G2().Point().Add(suite.G2().Point().Mul(scalar(a), nil), suite.G2().Point().Mul(scalar(b.Mod(b, bnref.Rn)), nil))
			}
			verdicts := make([]string, n)
			start := make(chan struct{})
			var wg sync.WaitGroup
			for g := 0; g < n; g++ {
				wg.Add(1)
				go func(g int) {
					defer wg.Done()
					defer func() {
						if e := recover(); e != nil {
							verdicts[g] = "panic"
						}
					}()
					<-start
					if err := bls.Verify(suite, X, msg, sig); err != nil {
						verdicts[g] = "reject " + errKind(err)
					} else {
						verdicts[g] = "accept"
					}
				}(g)
			}
			close(start)
			wg.Wait()
			for _, v := range verdicts {
				counts[v]++
				if (v == "accept") != (parsed && evm) && res.Oracle == "" {
					res.Oracle = fmt.Sprintf("c06-concurrent-verdict-differs: round %d of %d, %d goroutines sharing one key object: bls.Verify says %q, the EVM predicate says %v", r, rounds, n, v, parsed && evm)
				}
			}
			after, err := X.MarshalBinary()
			if res.Oracle == "" && (err != nil || !bytes.Equal(after, wantKey)) {
				res.Oracle = fmt.Sprintf("c06-verify-modified-key: after round %d the shared key encodes to %s, an independent copy to %s", r, h.Hex(after), h.Hex(wantKey))
			}
			if res.Oracle == "" && (!bytes.Equal(msg, msg0) || !bytes.Equal(sig, sig0)) {
				res.Oracle = "c06-verify-modified-inputs: message or signature bytes changed"
			}
		}
		var ks []string
		for k := range counts {
			ks = append(ks, k)
		}
		sort.Strings(ks)
		if len(ks) == 1 {
			res.Impl = fmt.Sprintf("all=%s rounds=%d n=%d", ks[0], rounds, n)
		} else {
			res.Impl = "mixed"
			for _, k := range ks {
				res.Impl += fmt.Sprintf(" %s×%d", k, counts[k])
			}
		}
		res.Class = fmt.Sprintf("conc-%s-n%d", keymode, n)
	case "keccak":
		res.Impl = h.Hex(crypto.Keccak256(msgOf(w[1])))
	default:
		panic("bad case line: " + line)
	}
	return
}

func cryptoKeccak(m []byte) []byte { return crypto.Keccak256(m) }

// refSig: the canonical 64 bytes of a signature the library would parse (math/big decision), or nil
func refSig(sig []byte) []byte {
	if len(sig) < 64 {
		return nil
	}
	x, y := new(big.Int).SetBytes(sig[:32]), new(big.Int).SetBytes(sig[32:64])
	if x.Cmp(bnref.P) >= 0 || y.Cmp(bnref.P) >= 0 {
		return nil
	}
	if x.Sign() == 0 && y.Sign() == 0 {
		return make([]byte, 64)
	}
	if !bnref.OnCurve1(x, y) {
		return nil
	}
	return append([]byte{}, sig[:64]...)
}

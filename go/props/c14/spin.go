package c14

// `spin` lines: the counter-run's shape (design/C14.md "EF, not AF"; Props/C14Fair.lean
// weak_fairness_is_not_enough) on the REAL fan-ins.
//
//	spin p=helper.<fn> at=<µs> reps=<n>
//
// Both upstream feeders keep offering values for ever — they do NOT look at the context — and the
// consumer keeps draining the merged channel; after `at` microseconds of streaming the pipeline
// context is cancelled.  From then on every `select { case out <- n: case <-ctx.Done(): }` of the
// fan-in has both alternatives ready at every execution, and every `range` has a value waiting:
// the run in which it keeps choosing the communication is the weakly fair run that never exits.
// Go chooses uniformly at random, so the real goroutines leave after a few more items (the `cancel`
// clause of the fairness hypothesis of all_fair_runs_terminate).  Observed: the merged channel is
// closed (all forwarding goroutines returned, the closer ran) within the grace period although
// producers and consumer never stopped; measured: how many items were still forwarded after the
// cancellation, and how long the closing took.  Only then the feeders are released and the usual
// leak accounting (goroutine dump) runs.  The model's answer for the line is `exits` iff the
// regenerated IR of the pipeline has no violation of W0–W5 (pipeline_every_fair_run_terminates).

import (
	"bufio"
	"bytes"
	"context"
	"fmt"
	"os"
	"os/exec"
	"reflect"
	"sort"
	"strings"
	"sync/atomic"
	"time"

	"verifharness/internal/h"
)

const spinGrace = 3 * time.Second

type spinLine struct {
	p, fn string
	at    time.Duration
	reps  int
	raw   string
}

func parseSpin(line string) spinLine {
	m := map[string]string{}
	for _, w := range strings.Fields(line)[1:] {
		if i := strings.Index(w, "="); i > 0 {
			m[w[:i]] = w[i+1:]
		}
	}
	s := spinLine{p: m["p"], fn: strings.TrimPrefix(m["p"], "helper."), at: time.Duration(h.Atoi(m["at"])) * time.Microsecond, reps: 10, raw: line}
	if r := m["reps"]; r != "" {
		s.reps = h.Atoi(r)
	}
	return s
}

// one repetition, in the child process: outcome, measurements
func runSpinOnce(sp spinLine) (string, string, error) {
	initOnce.Do(func() { initChild() })
	self := selfID()
	baseline := map[int]bool{}
	for _, g := range dump() {
		baseline[g.id] = true
	}
	w, ok := wires[sp.p+"|"+sp.fn]
	if !ok {
		return "", "", fmt.Errorf("no wiring for %s", sp.p)
	}
	ctx, cancel := context.WithCancel(context.Background())
	inst, err := w(&scen{p: sp.p, keep: sp.fn, pick: map[string]int{}}, ctx, cancel)
	if err != nil {
		return "", "", err
	}
	var out reflect.Value
	for k, ch := range inst.chans {
		if !strings.HasPrefix(k, "env.in#") {
			out = ch
		}
	}
	stop := make(chan struct{})
	stopCase := reflect.SelectCase{Dir: reflect.SelectRecv, Chan: reflect.ValueOf(stop)}
	var sent, recvd int64
	for _, name := range []string{"env.in#0", "env.in#1"} {
		ch, name := inst.chans[name], name
		go func() { // an upstream stage that never looks at the context
			for k := 0; ; k++ {
				chosen, _, _ := reflect.Select([]reflect.SelectCase{{Dir: reflect.SelectSend, Chan: ch, Send: inst.value(name, k)}, stopCase})
				if chosen == 1 {
					ch.Close()
					return
				}
				atomic.AddInt64(&sent, 1)
			}
		}()
	}
	closedAt := make(chan time.Time, 1)
	go func() { // the caller keeps draining
		for {
			if _, ok := out.Recv(); !ok {
				closedAt <- time.Now()
				return
			}
			atomic.AddInt64(&recvd, 1)
		}
	}()
	time.Sleep(sp.at)
	before := atomic.LoadInt64(&recvd)
	t0 := time.Now()
	cancel()
	outcome, detail := "exits", ""
	select {
	case t := <-closedAt:
		detail = fmt.Sprintf("after=%d us=%d before=%d", atomic.LoadInt64(&recvd)-before, t.Sub(t0).Microseconds(), before)
	case <-time.After(spinGrace):
		outcome = "stuck"
		detail = fmt.Sprintf("after=%d before=%d", atomic.LoadInt64(&recvd)-before, before)
	}
	// what is still there of the code under test while producers and consumer are still going
	watch := map[string]bool{}
	for _, b := range inst.watch {
		watch[b] = true
	}
	left := func() string {
		count := map[string]int{}
		for _, g := range dump() {
			if baseline[g.id] || g.id == self || isHarness(g) {
				continue
			}
			if b := entryBase(g); watch[b] {
				count[b]++
			}
		}
		var ls []string
		for b, n := range count {
			ls = append(ls, fmt.Sprintf("%s*%d", b, n))
		}
		sort.Strings(ls)
		return strings.Join(ls, ",")
	}
	if outcome == "stuck" {
		outcome = "stuck leak=" + left()
	}
	close(stop)
	if inst.cleanup != nil {
		inst.cleanup()
	}
	if outcome == "exits" {
		settle(self)
		if l := left(); l != "" {
			outcome = "leak=" + l
		}
	}
	return outcome, detail, nil
}

func bucketUs(us int) string {
	switch {
	case us < 100:
		return "<0.1ms"
	case us < 1000:
		return "<1ms"
	case us < 10000:
		return "<10ms"
	case us < 100000:
		return "<100ms"
	}
	return ">=100ms"
}

// parent: repetitions in child processes; Impl = the set of outcomes, Class = the measured distribution
func execSpin(line string) h.Result {
	sp := parseSpin(line)
	outs := map[string]int{}
	after := map[string]int{}
	lat := map[string]int{}
	maxAfter := 0
	remaining := sp.reps
	for tries := 0; remaining > 0 && tries < 3; tries++ {
		ctx, cancel := context.WithTimeout(context.Background(), time.Duration(20+5*remaining)*time.Second)
		cmd := exec.CommandContext(ctx, os.Args[0], "exec", "C14")
		var in bytes.Buffer
		for i := 0; i < remaining; i++ {
			in.WriteString("child " + line + "\n")
		}
		cmd.Stdin = &in
		var out, errb bytes.Buffer
		cmd.Stdout, cmd.Stderr = &out, &errb
		runErr := cmd.Run()
		timedOut := ctx.Err() != nil
		cancel()
		sc := bufio.NewScanner(&out)
		for sc.Scan() {
			f := strings.SplitN(sc.Text(), "\t", 2)
			outs[f[0]]++
			remaining--
			if f[0] == "exits" && len(f) == 2 {
				var a, us, b int
				fmt.Sscanf(f[1], "after=%d us=%d before=%d", &a, &us, &b)
				k := fmt.Sprint(a)
				if a >= 4 {
					k = "4+"
				}
				after[k]++
				if a > maxAfter {
					maxAfter = a
				}
				lat[bucketUs(us)]++
			}
		}
		if timedOut {
			outs["harness-timeout"]++
			break
		}
		if runErr != nil {
			outs[crashOutcome(errb.String())]++
			remaining--
		}
	}
	var os_ []string
	for o := range outs {
		os_ = append(os_, o)
	}
	sort.Strings(os_)
	res := h.Result{Impl: strings.Join(os_, " | "), Nontrivial: true}
	hist := func(m map[string]int, keys []string) string {
		var ps []string
		for _, k := range keys {
			if m[k] > 0 {
				ps = append(ps, fmt.Sprintf("%s:%d", k, m[k]))
			}
		}
		return strings.Join(ps, " ")
	}
	res.Class = fmt.Sprintf("spin %s (upstream and caller never stop): items forwarded after cancel %s (max %d); merged channel closed within %s",
		sp.p, hist(after, []string{"0", "1", "2", "3", "4+"}), maxAfter, hist(lat, []string{"<0.1ms", "<1ms", "<10ms", "<100ms", ">=100ms"}))
	for _, o := range os_ {
		switch {
		case strings.HasPrefix(o, "stuck"), strings.HasPrefix(o, "leak="):
			b := sp.fn
			if i := strings.Index(o, "leak="); i >= 0 {
				if l := strings.SplitN(strings.Split(o[i+5:], ",")[0], "*", 2)[0]; l != "" {
					b = l
				}
			}
			res.Oracle = "leak@" + b + ": the fan-in did not return within " + spinGrace.String() + " of the cancellation while upstream and caller kept going: " + o + " in " + line
		case strings.HasPrefix(o, "crash="):
			res.Oracle = strings.TrimPrefix(o, "crash=") + ": " + o + " in " + line
		case o != "exits":
			res.Oracle = "harness-" + strings.SplitN(o, ":", 2)[0] + ": " + o + " in " + line
		}
		if res.Oracle != "" {
			break
		}
	}
	return res
}

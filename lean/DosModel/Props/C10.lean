/-
C10 — bn256 field arithmetic (layers 1–3): regenerated constants, Montgomery reduction,
and the interpreted assembly of gfp.s. Tower fields are in Props/C10Tower.lean, curve,
scalar multiplication and the pairing-check logic in Props/C10Curve.lean.
Only theorems here; lemmas are in Proofs/Mont*.lean, Proofs/Asm*.lean.

`p` is the modulus the assembly reads (package variable `p2`), `np` the package variable
`np`, `R = 2^256`; all three come from the regenerated Gen/Bn256Consts.lean.
-/
import DosModel.Proofs.AsmField
import DosModel.Proofs.MontLimbs
import DosModel.Proofs.MontRedc
import DosModel.Proofs.MontInvert
import DosModel.Proofs.AsmMul
import DosModel.Proofs.MontMulxRedc
import DosModel.Proofs.Bn256Prime
import DosModel.Proofs.Bn256FieldIso
import DosModel.Model.AsmBn256
import DosModel.Model.Bn256Field

namespace Dos.Props.C10
open Dos Dos.Mont Dos.Asm Dos.Bn256

/-! ## 1. constants (E1, kernel arithmetic on the regenerated literals) -/

/-- the little-endian words `p2` are the prime `P`, and `P`, `Order` are the BN polynomials in `u` -/
theorem consts_p2_is_P : Bn256.p = Gen.Bn256.P ∧ Bn256.p < R ∧
    Gen.Bn256.P = 36 * Gen.Bn256.u ^ 4 + 36 * Gen.Bn256.u ^ 3 + 24 * Gen.Bn256.u ^ 2 + 6 * Gen.Bn256.u + 1 ∧
    Gen.Bn256.Order = 36 * Gen.Bn256.u ^ 4 + 36 * Gen.Bn256.u ^ 3 + 18 * Gen.Bn256.u ^ 2 + 6 * Gen.Bn256.u + 1 := by
  decide

/-- `np` is the negated inverse of p modulo 2^256 (the hypothesis of `redc_correct`) -/
theorem consts_np : (Bn256.np * Bn256.p + 1) % R = 0 ∧ Bn256.np < R := by decide

/-- r2 = R² mod p, r3 = R³ mod p, rN1 = R⁻¹ mod p (all reduced) -/
theorem consts_montgomery : GFp.r2.v = R * R % Bn256.p ∧ GFp.r3.v = R * R * R % Bn256.p ∧
    GFp.rN1.v * R % Bn256.p = 1 ∧ GFp.rN1.v < Bn256.p := by decide

/-- the exponent table of gfP.Invert is p − 2 -/
theorem consts_invert_exponent : limbsVal Gen.Bn256.invertBits = Bn256.p - 2 := by decide

/-- the signed digits of `sixuPlus2NAF` are in {−1,0,1}, never adjacent, and sum to 6u+2 -/
theorem consts_naf :
    (Gen.Bn256.sixuPlus2NAF.foldr (fun d acc => d + 2 * acc) 0 = 6 * (Gen.Bn256.u : Int) + 2) ∧
    (Gen.Bn256.sixuPlus2NAF.all fun d => d = -1 ∨ d = 0 ∨ d = 1) = true := by decide +kernel

/-! ## 2. Montgomery arithmetic, for every operand -/

/-- **redc_correct** (all T below R·p, any modulus with np·p ≡ −1 mod R) -/
theorem redc_correct (p np T : Nat) (hnp : (np * p + 1) % R = 0) (hT : T < R * p) :
    redc p np T < p ∧ redc p np T * R ≡ T [MOD p] := Mont.redc_correct p np T hnp hT

theorem one_subtraction_suffices (p np T : Nat) (hnp : (np * p + 1) % R = 0) (hT : T < R * p) :
    redcU p np T < 2 * p := Mont.one_subtraction_suffices p np T hnp hT

/-- gfpMul at the code's constants: for a·b < R·p — in particular `a` ANY 256-bit value and
`b` reduced (Montgomery encoding of unreduced input), or both reduced — the stored value is
reduced and is a·b·R⁻¹ mod p -/
theorem mul_correct_at_code_constants (a b : Nat) (hab : a * b < R * Bn256.p) :
    mulM Bn256.p Bn256.np a b < Bn256.p ∧ mulM Bn256.p Bn256.np a b * R ≡ a * b [MOD Bn256.p] :=
  Mont.mulM_correct _ _ a b consts_np.1 consts_p2_is_P.2.1 hab

theorem encode_any_256bit (a : Nat) (ha : a < R) :
    (GFp.montEncode ⟨a⟩).v < Bn256.p ∧ (GFp.montEncode ⟨a⟩).v ≡ a * R [MOD Bn256.p] := by
  have hr2 : GFp.r2.v < Bn256.p := by decide
  have hab : a * GFp.r2.v < R * Bn256.p := Nat.mul_lt_mul'' ha hr2
  obtain ⟨h1, h2⟩ := mul_correct_at_code_constants a GFp.r2.v hab
  refine ⟨h1, ?_⟩
  -- (enc · R ≡ a · R²) and R invertible mod p
  have hR2 : GFp.r2.v ≡ R * R [MOD Bn256.p] := by
    have := consts_montgomery.1
    rw [this]; exact Nat.mod_modEq _ _
  have h3 : (GFp.montEncode ⟨a⟩).v * R ≡ a * R * R [MOD Bn256.p] := by
    have : a * GFp.r2.v ≡ a * (R * R) [MOD Bn256.p] := hR2.mul_left a
    rw [Nat.mul_assoc]; exact h2.trans this
  have hcop : Nat.Coprime Bn256.p R := by decide +kernel
  exact Nat.ModEq.cancel_right_of_coprime hcop h3

/-- what happens outside the precondition: both operands arbitrary 256-bit values -/
theorem mul_unreduced_both (a b : Nat) (ha : a < R) (hb : b < R) :
    mulM Bn256.p Bn256.np a b < R ∧ mulM Bn256.p Bn256.np a b * R ≡ a * b [MOD Bn256.p] :=
  Mont.mulM_unreduced _ _ a b consts_np.1 (by decide) consts_p2_is_P.2.1 ha hb

/-- … and it really can leave the range [0,p): the witness (2^256−1)² -/
theorem mul_unreduced_witness : ¬ mulM Bn256.p Bn256.np (R - 1) (R - 1) < Bn256.p := by decide

theorem add_sub_neg_reduced (a b : Nat) (ha : a < Bn256.p) (hb : b < Bn256.p) :
    addM Bn256.p a b = (a + b) % Bn256.p ∧ subM Bn256.p a b = (a + (Bn256.p - b)) % Bn256.p ∧
    negM Bn256.p a = (Bn256.p - a) % Bn256.p :=
  ⟨addM_correct _ a b consts_p2_is_P.2.1 ha hb, subM_correct _ a b consts_p2_is_P.2.1 ha hb,
   negM_correct _ a consts_p2_is_P.2.1 ha⟩

/-- **invert_correct**: gfP.Invert (square-and-multiply over the `bits` table from rN1, fixed up by r3)
returns a reduced value whose decoding is the (p−2)-th power of the decoded argument — for every reduced
argument, no primality used -/
theorem invert_correct (f : GFp) (hf : f.v < Bn256.p) :
    (GFp.invert f).v < Bn256.p ∧
    (GFp.invert f).v * GFp.rN1.v ≡ (f.v * GFp.rN1.v) ^ (Bn256.p - 2) [MOD Bn256.p] := invert_pow f hf

/-- the base-field modulus P and the group order r (regenerated literals) are PRIME: Pratt certificates
checked by Lean (Lucas' test with complete factorisations of n − 1, recursively) -/
theorem consts_primes : Nat.Prime Gen.Bn256.P ∧ Nat.Prime Gen.Bn256.Order :=
  ⟨Dos.Prime.P_prime, Dos.Prime.Order_prime⟩

/-- … hence gfP.Invert IS the field inverse in Montgomery form, for every reduced non-zero element:
decode(Invert f) · decode(f) ≡ 1 (mod p) -/
theorem invert_is_inverse (f : GFp) (hf : f.v < Bn256.p) (hf0 : f.v ≠ 0) :
    ((GFp.invert f).v * GFp.rN1.v) * (f.v * GFp.rN1.v) ≡ 1 [MOD Bn256.p] :=
  invert_inverse (consts_p2_is_P.1 ▸ Dos.Prime.P_prime) f hf hf0

/-- **gfP with the operations of the assembly is the prime field**: Montgomery decoding `dec x = x·R⁻¹` into
`ZMod p` (a field, since p is prime) is injective on reduced values, every operation keeps values reduced, and
gfpAdd / gfpSub / gfpNeg / gfpMul / gfP{0} / newGFp(1) / gfP.Invert are +, −, unary −, ·, 0, 1, ⁻¹ of the field.
(The tower, curve and scalar-multiplication theorems of Props/C10Tower.lean and Props/C10Curve.lean hold over
every field, in particular over this one.) -/
theorem gfP_is_prime_field (a b : GFp) (ha : a.v < Bn256.p) (hb : b.v < Bn256.p) :
    ((a + b).v < Bn256.p ∧ dec (a + b) = dec a + dec b) ∧
    ((a - b).v < Bn256.p ∧ dec (a - b) = dec a - dec b) ∧
    ((-a).v < Bn256.p ∧ dec (-a) = -dec a) ∧
    ((a * b).v < Bn256.p ∧ dec (a * b) = dec a * dec b) ∧
    ((a⁻¹).v < Bn256.p ∧ dec a⁻¹ = (dec a)⁻¹) ∧
    dec 0 = 0 ∧ ((1 : GFp).v < Bn256.p ∧ dec 1 = 1) ∧ (dec a = dec b → a = b) :=
  ⟨dec_add a b ha hb, dec_sub a b ha hb, dec_neg a ha, dec_mul a b ha hb, dec_inv a ha, dec_zero, dec_one,
   dec_injective a b ha hb⟩

/-- over that field gfP2 = F_p[i]/(i²+1) is a field too (p ≡ 3 mod 4, so the norm x² + y² of a non-zero element
is non-zero): gfP2.Invert inverts EVERY non-zero element -/
theorem gfP2_over_Fp_is_field (a : Fp2 (ZMod Bn256.p)) (ha : a ≠ 0) :
    Bn256.p % 4 = 3 ∧ a * Fp2.invert a = 1 := ⟨p_mod_four, fp2_invert_all a ha⟩

/-! ## 3. the interpreted assembly (regenerated listing of gfp.s) -/

/-- **gfpAdd**: for EVERY machine state (registers, flags, memory, aliasing of c/a/b) whose
operand blocks hold words, running the interpreted listing under the code's `p2` terminates
at RET without fault, stores in block c the 4 words of `addM p a b`, and changes nothing else -/
theorem gfpAdd_asm (s : State) (junk : Nat) (bmi2 : Bool)
    (ha : (load4 s.mem (s.alias .a)).ok) (hb : (load4 s.mem (s.alias .b)).ok) :
    ∃ s', call (codeEnv bmi2) Gen.Bn256Asm.gfpAdd s junk = .ok s' ∧ s'.alias = s.alias ∧
      (load4 s'.mem (s.alias .c)).val =
        addM Bn256.p (load4 s.mem (s.alias .a)).val (load4 s.mem (s.alias .b)).val ∧
      (load4 s'.mem (s.alias .c)).ok ∧ ∀ k i, k ≠ s.alias .c → s'.mem k i = s.mem k i := by
  obtain ⟨regs, cf, zf, frame, h⟩ := gfpAdd_interp (codeEnv bmi2) s junk
  have hp : (envP (codeEnv bmi2)).ok := by cases bmi2 <;> (unfold L4.ok; decide)
  have hpv : (envP (codeEnv bmi2)).val = Bn256.p := by cases bmi2 <;> rfl
  obtain ⟨hv, hok⟩ := addLimbs_val (envP (codeEnv bmi2)) _ _ hp ha hb
  refine ⟨_, h, rfl, ?_, ?_, ?_⟩
  · simp only [load4_store4_same]; rw [hv, hpv]
  · simp only [load4_store4_same]; exact hok
  · intro k i hk; exact store4_other _ _ _ _ hk i

theorem gfpSub_asm (s : State) (junk : Nat) (bmi2 : Bool)
    (ha : (load4 s.mem (s.alias .a)).ok) (hb : (load4 s.mem (s.alias .b)).ok) :
    ∃ s', call (codeEnv bmi2) Gen.Bn256Asm.gfpSub s junk = .ok s' ∧ s'.alias = s.alias ∧
      (load4 s'.mem (s.alias .c)).val =
        subM Bn256.p (load4 s.mem (s.alias .a)).val (load4 s.mem (s.alias .b)).val ∧
      (load4 s'.mem (s.alias .c)).ok ∧ ∀ k i, k ≠ s.alias .c → s'.mem k i = s.mem k i := by
  obtain ⟨regs, cf, zf, frame, h⟩ := gfpSub_interp (codeEnv bmi2) s junk
  have hp : (envP (codeEnv bmi2)).ok := by cases bmi2 <;> (unfold L4.ok; decide)
  have hpv : (envP (codeEnv bmi2)).val = Bn256.p := by cases bmi2 <;> rfl
  obtain ⟨hv, hok⟩ := subLimbs_val (envP (codeEnv bmi2)) _ _ hp ha hb
  refine ⟨_, h, rfl, ?_, ?_, ?_⟩
  · simp only [load4_store4_same]; rw [hv, hpv]
  · simp only [load4_store4_same]; exact hok
  · intro k i hk; exact store4_other _ _ _ _ hk i

theorem gfpNeg_asm (s : State) (junk : Nat) (bmi2 : Bool)
    (ha : (load4 s.mem (s.alias .a)).ok) :
    ∃ s', call (codeEnv bmi2) Gen.Bn256Asm.gfpNeg s junk = .ok s' ∧ s'.alias = s.alias ∧
      (load4 s'.mem (s.alias .c)).val = negM Bn256.p (load4 s.mem (s.alias .a)).val ∧
      (load4 s'.mem (s.alias .c)).ok ∧ ∀ k i, k ≠ s.alias .c → s'.mem k i = s.mem k i := by
  obtain ⟨regs, cf, zf, frame, h⟩ := gfpNeg_interp (codeEnv bmi2) s junk
  have hp : (envP (codeEnv bmi2)).ok := by cases bmi2 <;> (unfold L4.ok; decide)
  have hpv : (envP (codeEnv bmi2)).val = Bn256.p := by cases bmi2 <;> rfl
  obtain ⟨hv, hok⟩ := negLimbs_val (envP (codeEnv bmi2)) _ hp ha
  refine ⟨_, h, rfl, ?_, ?_, ?_⟩
  · simp only [load4_store4_same]; rw [hv, hpv]
  · simp only [load4_store4_same]; exact hok
  · intro k i hk; exact store4_other _ _ _ _ hk i

/-- **gfpMul, both code paths**: for EVERY machine state whose operand blocks hold words, and for hasBMI2 = false
(MULQ path: `mul` + `gfpReduce`, 312 instructions) as well as hasBMI2 = true (MULX path: `mulBMI2` +
`gfpReduceBMI2`, 187 instructions), the interpreted listing runs to RET without fault, stores in block c exactly
the four words of `mulM p np a b` — Montgomery REDC of a·b with one conditional subtraction — and changes nothing
else. Chain: interpreter = flat limb model (kernel-checked unfolding) = composition of the macro blocks
(kernel-checked) = number model (schoolbook product, truncated m, 512-bit add, gfpCarry; `omega`/`ring`). -/
theorem gfpMul_asm (s : State) (junk : Nat) (bmi2 : Bool)
    (ha : (load4 s.mem (s.alias .a)).ok) (hb : (load4 s.mem (s.alias .b)).ok) :
    ∃ mem', (call (codeEnv bmi2) Gen.Bn256Asm.gfpMul s junk).final = some (s.alias, mem') ∧
      (load4 mem' (s.alias .c)).val =
        mulM Bn256.p Bn256.np (load4 s.mem (s.alias .a)).val (load4 s.mem (s.alias .b)).val ∧
      (load4 mem' (s.alias .c)).ok ∧ ∀ k i, k ≠ s.alias .c → mem' k i = s.mem k i := by
  have hp : (envP (codeEnv bmi2)).ok := by cases bmi2 <;> (unfold L4.ok; decide)
  have hpv : (envP (codeEnv bmi2)).val = Bn256.p := by cases bmi2 <;> rfl
  have hn : (L4.mk ((codeEnv bmi2).np 0) ((codeEnv bmi2).np 1) ((codeEnv bmi2).np 2) ((codeEnv bmi2).np 3)).ok := by
    cases bmi2 <;> (unfold L4.ok; decide)
  have hnv : (L4.mk ((codeEnv bmi2).np 0) ((codeEnv bmi2).np 1) ((codeEnv bmi2).np 2) ((codeEnv bmi2).np 3)).val
      = Bn256.np := by cases bmi2 <;> rfl
  cases bmi2
  · obtain ⟨hv, hok⟩ := mulLimbsMULQ_val _ _ _ _ hp hn ha hb
    refine ⟨_, gfpMul_interp_mulq _ _ s junk, ?_, ?_, ?_⟩
    · simp only [load4_store4_same]; exact hv.trans (by rw [hpv, hnv])
    · simp only [load4_store4_same]; exact hok
    · intro k i hk; exact store4_other _ _ _ _ hk i
  · obtain ⟨hv, hok⟩ := mulLimbsMULX_val _ _ _ _ hp hn ha hb
    refine ⟨_, gfpMul_interp_mulx _ _ s junk, ?_, ?_, ?_⟩
    · simp only [load4_store4_same]; exact hv.trans (by rw [hpv, hnv])
    · simp only [load4_store4_same]; exact hok
    · intro k i hk; exact store4_other _ _ _ _ hk i

/-- the statement of the property for Montgomery multiplication on both assembly paths: whenever
a·b < R·p (both operands reduced, or one of them an ARBITRARY 256-bit value), the interpreted assembly stores
a reduced value r with r·R ≡ a·b (mod p), i.e. r = a·b·R⁻¹ mod p -/
theorem gfpMul_asm_field (s : State) (junk : Nat) (bmi2 : Bool)
    (ha : (load4 s.mem (s.alias .a)).ok) (hb : (load4 s.mem (s.alias .b)).ok)
    (hab : (load4 s.mem (s.alias .a)).val * (load4 s.mem (s.alias .b)).val < R * Bn256.p) :
    ∃ mem', (call (codeEnv bmi2) Gen.Bn256Asm.gfpMul s junk).final = some (s.alias, mem') ∧
      (load4 mem' (s.alias .c)).val < Bn256.p ∧
      (load4 mem' (s.alias .c)).val * R ≡
        (load4 s.mem (s.alias .a)).val * (load4 s.mem (s.alias .b)).val [MOD Bn256.p] := by
  obtain ⟨mem', h, hv, _, _⟩ := gfpMul_asm s junk bmi2 ha hb
  obtain ⟨h1, h2⟩ := mul_correct_at_code_constants _ _ hab
  exact ⟨mem', h, by rw [hv]; exact h1, by rw [hv]; exact h2⟩

/-- the statement of the property for the three linear primitives: interpreted assembly =
integer arithmetic modulo p on every pair of reduced operands, under every aliasing -/
theorem gfpAdd_asm_field (s : State) (junk : Nat) (bmi2 : Bool)
    (ha : (load4 s.mem (s.alias .a)).ok) (hb : (load4 s.mem (s.alias .b)).ok)
    (hap : (load4 s.mem (s.alias .a)).val < Bn256.p) (hbp : (load4 s.mem (s.alias .b)).val < Bn256.p) :
    ∃ s', call (codeEnv bmi2) Gen.Bn256Asm.gfpAdd s junk = .ok s' ∧
      (load4 s'.mem (s.alias .c)).val =
        ((load4 s.mem (s.alias .a)).val + (load4 s.mem (s.alias .b)).val) % Bn256.p := by
  obtain ⟨s', h, _, hv, _⟩ := gfpAdd_asm s junk bmi2 ha hb
  exact ⟨s', h, by rw [hv, (add_sub_neg_reduced _ _ hap hbp).1]⟩

/-! non-vacuity: concrete instances -/
-- a machine state satisfying the hypotheses of the assembly theorems (operands p−1 and 2^256−1, c aliased to a)
example : (load4 (initState (fun | .c => .a | k => k) (L4.ofNat (Bn256.p - 1)) (L4.ofNat (R - 1))).mem .a).ok ∧
    (load4 (initState (fun | .c => .a | k => k) (L4.ofNat (Bn256.p - 1)) (L4.ofNat (R - 1))).mem .b).ok ∧
    (load4 (initState (fun | .c => .a | k => k) (L4.ofNat (Bn256.p - 1)) (L4.ofNat (R - 1))).mem .a).val *
      (load4 (initState (fun | .c => .a | k => k) (L4.ofNat (Bn256.p - 1)) (L4.ofNat (R - 1))).mem .b).val
      < R * Bn256.p := by
  refine ⟨?_, ?_, ?_⟩ <;> (try unfold L4.ok) <;> decide
-- REDC on a concrete T just below R·p
example : redc Bn256.p Bn256.np (R * Bn256.p - 1) < Bn256.p := by decide
-- reduced non-zero element for the inverse theorems
example : (GFp.newGFp 7).v < Bn256.p ∧ (GFp.newGFp 7).v ≠ 0 := by decide
example : addM Bn256.p (Bn256.p - 1) (Bn256.p - 1) = Bn256.p - 2 := by decide
example : subM Bn256.p 0 1 = Bn256.p - 1 := by decide
example : negM Bn256.p 0 = 0 := by decide
example : mulM Bn256.p Bn256.np (R - 1) GFp.r2.v < Bn256.p := by decide
example : GFp.invert (GFp.newGFp 2) * GFp.newGFp 2 = GFp.newGFp 1 := by decide +kernel
example : runFn Gen.Bn256Asm.gfpMul true id 1 GFp.r2.v = .ok (R % Bn256.p) := by decide +kernel
example : runFn Gen.Bn256Asm.gfpMul false (fun _ => .a) (R - 1) 0 = .ok (mulM Bn256.p Bn256.np (R - 1) (R - 1)) := by
  decide +kernel

end Dos.Props.C10

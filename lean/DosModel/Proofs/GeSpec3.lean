/-
C20 (round 4) — per-method specifications, continued: projective.Double, the conversions, Neg (also with the
receiver aliasing the argument), Zero, and the composites of point.go: Add, Sub, Neg, Null, and extended.Double.
-/
import DosModel.Proofs.GeSpec2

set_option exponentiation.threshold 600

namespace Dos.Ge
open Dos Dos.Ed25519 Dos.FeProg Dos.FeOps Dos.GeProg Dos.Ed25519Prime Dos.Edwards Dos.Gen.Ed25519Ge

theorem projRel {p : Proj} {P : Pt} (hp : GoodProj p P) :
    RegRel [some 2, some 1, some 1] p.regs [val p.X, val p.Y, val p.Z] :=
  regRel_some (R_val hp.bX) (regRel_some (R_val hp.bY) (regRel_some (R_val hp.bZ) regRel_nil))

theorem complRel {c : Compl} {P : Pt} (hc : GoodCompl c P) :
    RegRel [some 3, some 3, some 3, some 3] c.regs [val c.X, val c.Y, val c.Z, val c.T] :=
  regRel_some (R_val hc.bX) (regRel_some (R_val hc.bY) (regRel_some (R_val hc.bZ) (regRel_some (R_val hc.bT) regRel_nil)))

/-! ### projective.Double -/

theorem projDouble_spec {p : Proj} {P : Pt} (hp : GoodProj p P) : GoodCompl (projDouble p) (P + P) := by
  have hrel := RegRel.append (projRel hp) (junk4Rel 0 0 0 0)
  rw [← flatten2] at hrel
  obtain ⟨_, _, hget⟩ := call_refines projective_Double [p.regs, junk4] 1 0 (Or.inl rfl) hrel
    (M1 := [some 2, some 1, some 1, some 3, some 2, some 2, some 3, some 1, some 1, some 1, some 1]) (by decide)
  generalize hX : runBody fieldAlg 0 (seqBases projective_Double.objs 0) 0 projective_Double.body _ = X1 at hget
  have v0 : X1.getD 3 0 = (val p.X + val p.Y) * (val p.X + val p.Y) - (val p.Y * val p.Y + val p.X * val p.X) := by
    rw [← hX]; rfl
  have v1 : X1.getD 4 0 = val p.Y * val p.Y + val p.X * val p.X := by rw [← hX]; rfl
  have v2 : X1.getD 5 0 = val p.Y * val p.Y - val p.X * val p.X := by rw [← hX]; rfl
  have v3 : X1.getD 6 0 = 2 * (val p.Z * val p.Z) - (val p.Y * val p.Y - val p.X * val p.X) := by rw [← hX]; rfl
  have r0 := hget 3 3 (by decide)
  have r1 := hget 4 2 (by decide)
  have r2 := hget 5 2 (by decide)
  have r3 := hget 6 3 (by decide)
  rw [v0] at r0; rw [v1] at r1; rw [v2] at r2; rw [v3] at r3
  have h1 : OnCurve E25519.d (val p.X / val p.Z) (val p.Y / val p.Z) := onCurve_of hp.hx hp.hy
  obtain ⟨f1, f2, f3, f4⟩ := dbl_formula E25519 hp.z_ne h1 (XX := val p.X * val p.X) (by ring)
    (YY := val p.Y * val p.Y) (by ring) (ZZ2 := 2 * (val p.Z * val p.Z)) (by ring)
    (S := (val p.X + val p.Y) * (val p.X + val p.Y)) (by ring)
    (cY := val p.Y * val p.Y + val p.X * val p.X) rfl (cZ := val p.Y * val p.Y - val p.X * val p.X) rfl
    (cX := (val p.X + val p.Y) * (val p.X + val p.Y) - (val p.Y * val p.Y + val p.X * val p.X)) rfl
    (cT := 2 * (val p.Z * val p.Z) - (val p.Y * val p.Y - val p.X * val p.X)) rfl
  rw [pt_eq h1 hp.hx hp.hy] at f3 f4
  obtain ⟨eX, eY, eZ, eT⟩ := compl4_fields (call projective_Double [p.regs, junk4] 1 0) 3
  unfold projDouble
  rw [← eX] at r0; rw [← eY] at r1; rw [← eZ] at r2; rw [← eT] at r3
  exact
    { bX := b3 r0 (by omega), bY := b3 r1 (by omega), bZ := b3 r2 (by omega), bT := b3 r3 (by omega)
      z_ne := by rw [r2.2]; exact f1
      t_ne := by rw [r3.2]; exact f2
      hx := by rw [r0.2, r2.2]; exact f3
      hy := by rw [r1.2, r3.2]; exact f4 }

/-! ### conversions -/

theorem extToCached_spec {p : Ext} {P : Pt} (hp : GoodExt p P) : GoodCached (extToCached p) P := by
  have hrel := RegRel.append (extRel hp) (junk4Rel 0 0 0 0)
  rw [← flatten2] at hrel
  obtain ⟨_, _, hget⟩ := call_refines extended_ToCached [p.regs, junk4] 0 0 (Or.inl rfl) hrel
    (M1 := [some 2, some 1, some 1, some 1, some 3, some 3, some 1, some 1, some 1, some 1, some 1]) (by decide)
  generalize hX : runBody fieldAlg 0 (seqBases extended_ToCached.objs 0) 0 extended_ToCached.body _ = X1 at hget
  have v0 : X1.getD 4 0 = val p.Y + val p.X := by rw [← hX]; rfl
  have v1 : X1.getD 5 0 = val p.Y - val p.X := by rw [← hX]; rfl
  have v2 : X1.getD 6 0 = val p.Z := by rw [← hX]; rfl
  have v3 : X1.getD 7 0 = val p.T * (2 * E25519.d) := by rw [← hX]; rfl
  have r0 := hget 4 3 (by decide)
  have r1 := hget 5 3 (by decide)
  have r2 := hget 6 1 (by decide)
  have r3 := hget 7 1 (by decide)
  rw [v0] at r0; rw [v1] at r1; rw [v2] at r2; rw [v3] at r3
  obtain ⟨eX, eY, eZ, eT⟩ := cached4_fields (call extended_ToCached [p.regs, junk4] 0 0) 4
  unfold extToCached
  rw [← eX] at r0; rw [← eY] at r1; rw [← eZ] at r2; rw [← eT] at r3
  exact
    { bP := r0.1, bM := r1.1, bZ := r2.1, bT := r3.1
      rep := ⟨val p.X, val p.Y, val p.T, r0.2, r1.2, r3.2, by rw [r2.2]; exact hp.z_ne, by rw [r2.2]; exact hp.xy,
        by rw [r2.2]; exact hp.hx, by rw [r2.2]; exact hp.hy⟩ }

theorem extToProj_spec {p : Ext} {P : Pt} (hp : GoodExt p P) : GoodProj (extToProj p) P := by
  have hrel := RegRel.append (extRel hp) (junk3Rel 0 0 0)
  rw [← flatten2] at hrel
  obtain ⟨_, _, hget⟩ := call_refines extended_ToProjective [p.regs, junk3] 0 0 (Or.inl rfl) hrel
    (M1 := [some 2, some 1, some 1, some 1, some 2, some 1, some 1, some 1, some 1, some 1]) (by decide)
  generalize hX : runBody fieldAlg 0 (seqBases extended_ToProjective.objs 0) 0 extended_ToProjective.body _ = X1 at hget
  have v0 : X1.getD 4 0 = val p.X := by rw [← hX]; rfl
  have v1 : X1.getD 5 0 = val p.Y := by rw [← hX]; rfl
  have v2 : X1.getD 6 0 = val p.Z := by rw [← hX]; rfl
  have r0 := hget 4 2 (by decide)
  have r1 := hget 5 1 (by decide)
  have r2 := hget 6 1 (by decide)
  rw [v0] at r0; rw [v1] at r1; rw [v2] at r2
  obtain ⟨eX, eY, eZ⟩ := proj3_fields (call extended_ToProjective [p.regs, junk3] 0 0) 4
  unfold extToProj
  rw [← eX] at r0; rw [← eY] at r1; rw [← eZ] at r2
  exact
    { bX := r0.1, bY := r1.1, bZ := r2.1
      z_ne := by rw [r2.2]; exact hp.z_ne
      hx := by rw [r0.2, r2.2]; exact hp.hx
      hy := by rw [r1.2, r2.2]; exact hp.hy }

theorem complToProj_spec {c : Compl} {P : Pt} (hc : GoodCompl c P) : GoodProj (complToProj c) P := by
  have hrel := RegRel.append (complRel hc) (junk3Rel 0 0 0)
  rw [← flatten2] at hrel
  obtain ⟨_, _, hget⟩ := call_refines completed_ToProjective [c.regs, junk3] 0 0 (Or.inl rfl) hrel
    (M1 := [some 3, some 3, some 3, some 3, some 1, some 1, some 1, some 1, some 1, some 1]) (by decide)
  generalize hX : runBody fieldAlg 0 (seqBases completed_ToProjective.objs 0) 0 completed_ToProjective.body _ = X1 at hget
  have v0 : X1.getD 4 0 = val c.X * val c.T := by rw [← hX]; rfl
  have v1 : X1.getD 5 0 = val c.Y * val c.Z := by rw [← hX]; rfl
  have v2 : X1.getD 6 0 = val c.Z * val c.T := by rw [← hX]; rfl
  have r0 := hget 4 1 (by decide)
  have r1 := hget 5 1 (by decide)
  have r2 := hget 6 1 (by decide)
  rw [v0] at r0; rw [v1] at r1; rw [v2] at r2
  obtain ⟨f1, f2, f3⟩ := completed_toProjective hc.z_ne hc.t_ne hc.hx hc.hy
  obtain ⟨eX, eY, eZ⟩ := proj3_fields (call completed_ToProjective [c.regs, junk3] 0 0) 4
  unfold complToProj
  rw [← eX] at r0; rw [← eY] at r1; rw [← eZ] at r2
  exact
    { bX := b2 r0 (by omega), bY := r1.1, bZ := r2.1
      z_ne := by rw [r2.2]; exact f1
      hx := by rw [r0.2, r2.2]; exact f2
      hy := by rw [r1.2, r2.2]; exact f3 }

theorem complToExt_spec {c : Compl} {P : Pt} (hc : GoodCompl c P) : GoodExt (complToExt c) P := by
  have hrel := RegRel.append (complRel hc) (junk4Rel 0 0 0 0)
  rw [← flatten2] at hrel
  obtain ⟨_, _, hget⟩ := call_refines completed_ToExtended [c.regs, junk4] 0 0 (Or.inl rfl) hrel
    (M1 := [some 3, some 3, some 3, some 3, some 1, some 1, some 1, some 1, some 1, some 1, some 1]) (by decide)
  generalize hX : runBody fieldAlg 0 (seqBases completed_ToExtended.objs 0) 0 completed_ToExtended.body _ = X1 at hget
  have v0 : X1.getD 4 0 = val c.X * val c.T := by rw [← hX]; rfl
  have v1 : X1.getD 5 0 = val c.Y * val c.Z := by rw [← hX]; rfl
  have v2 : X1.getD 6 0 = val c.Z * val c.T := by rw [← hX]; rfl
  have v3 : X1.getD 7 0 = val c.X * val c.Y := by rw [← hX]; rfl
  have r0 := hget 4 1 (by decide)
  have r1 := hget 5 1 (by decide)
  have r2 := hget 6 1 (by decide)
  have r3 := hget 7 1 (by decide)
  rw [v0] at r0; rw [v1] at r1; rw [v2] at r2; rw [v3] at r3
  obtain ⟨f1, f2, f3, f4⟩ := completed_toExtended hc.z_ne hc.t_ne hc.hx hc.hy
  obtain ⟨eX, eY, eZ, eT⟩ := ext4_fields (call completed_ToExtended [c.regs, junk4] 0 0) 4
  unfold complToExt
  rw [← eX] at r0; rw [← eY] at r1; rw [← eZ] at r2; rw [← eT] at r3
  exact
    { bX := b2 r0 (by omega), bY := r1.1, bZ := r2.1, bT := r3.1
      z_ne := by rw [r2.2]; exact f1
      xy := by rw [r0.2, r1.2, r2.2, r3.2]; exact f4
      hx := by rw [r0.2, r2.2]; exact f2
      hy := by rw [r1.2, r2.2]; exact f3 }

/-! ### Neg -/

theorem neg_rep {X Y Z T : F} {P : Pt} (_hz : Z ≠ 0) (hxy : X * Y = Z * T) (hx : X / Z = P.x) (hy : Y / Z = P.y) :
    (-X) * Y = Z * (-T) ∧ (-X) / Z = (-P).x ∧ Y / Z = (-P).y := by
  refine ⟨by linear_combination -hxy, ?_, ?_⟩
  · rw [neg_div, hx]; rfl
  · rw [hy]; rfl

theorem extNeg_spec {s : Ext} {P : Pt} (hs : GoodExt s P) : GoodExt (extNeg s) (-P) := by
  have hrel := RegRel.append (junk4Rel 0 0 0 0) (extRel hs)
  rw [← flatten2] at hrel
  obtain ⟨_, _, hget⟩ := call_refines extended_Neg [junk4, s.regs] 0 0 (Or.inl rfl) hrel
    (M1 := [some 2, some 1, some 1, some 1, some 2, some 1, some 1, some 1, some 1, some 1, some 1]) (by decide)
  generalize hX : runBody fieldAlg 0 (seqBases extended_Neg.objs 0) 0 extended_Neg.body _ = X1 at hget
  have v0 : X1.getD 0 0 = -val s.X := by rw [← hX]; rfl
  have v1 : X1.getD 1 0 = val s.Y := by rw [← hX]; rfl
  have v2 : X1.getD 2 0 = val s.Z := by rw [← hX]; rfl
  have v3 : X1.getD 3 0 = -val s.T := by rw [← hX]; rfl
  have r0 := hget 0 2 (by decide)
  have r1 := hget 1 1 (by decide)
  have r2 := hget 2 1 (by decide)
  have r3 := hget 3 1 (by decide)
  rw [v0] at r0; rw [v1] at r1; rw [v2] at r2; rw [v3] at r3
  obtain ⟨f1, f2, f3⟩ := neg_rep hs.z_ne hs.xy hs.hx hs.hy
  obtain ⟨eX, eY, eZ, eT⟩ := ext4_fields (call extended_Neg [junk4, s.regs] 0 0) 0
  unfold extNeg
  rw [← eX] at r0; rw [← eY] at r1; rw [← eZ] at r2; rw [← eT] at r3
  exact
    { bX := r0.1, bY := r1.1, bZ := r2.1, bT := r3.1
      z_ne := by rw [r2.2]; exact hs.z_ne
      xy := by rw [r0.2, r1.2, r2.2, r3.2]; exact f1
      hx := by rw [r0.2, r2.2]; exact f2
      hy := by rw [r1.2, r2.2]; exact f3 }

/-- `p.Neg(p)`: receiver and argument share their registers — same result -/
theorem extNegInPlace_spec {p : Ext} {P : Pt} (hp : GoodExt p P) : GoodExt (extNegInPlace p) (-P) := by
  have hrel := RegRel.append (extRel hp) regRel_consts
  have habs : absBody [0, 0, 4, 5, 6] extended_Neg.body [some 2, some 1, some 1, some 1, some 1, some 1, some 1]
      = some [some 2, some 1, some 1, some 1, some 1, some 1, some 1] := by decide
  obtain ⟨_, _, hget⟩ := body_refines (b := 0) (Or.inl rfl) extended_Neg.body hrel habs
  generalize hX : runBody fieldAlg 0 [0, 0, 4, 5, 6] 0 extended_Neg.body _ = X1 at hget
  have v0 : X1.getD 0 0 = -val p.X := by rw [← hX]; rfl
  have v1 : X1.getD 1 0 = val p.Y := by rw [← hX]; rfl
  have v2 : X1.getD 2 0 = val p.Z := by rw [← hX]; rfl
  have v3 : X1.getD 3 0 = -val p.T := by rw [← hX]; rfl
  have r0 := hget 0 2 (by decide)
  have r1 := hget 1 1 (by decide)
  have r2 := hget 2 1 (by decide)
  have r3 := hget 3 1 (by decide)
  rw [v0] at r0; rw [v1] at r1; rw [v2] at r2; rw [v3] at r3
  obtain ⟨f1, f2, f3⟩ := neg_rep hp.z_ne hp.xy hp.hx hp.hy
  obtain ⟨eX, eY, eZ, eT⟩ := ext4_fields (runBody limbAlg zero10 [0, 0, 4, 5, 6] 0 extended_Neg.body (p.regs ++ consts)) 0
  unfold extNegInPlace z10
  rw [← eX] at r0; rw [← eY] at r1; rw [← eZ] at r2; rw [← eT] at r3
  exact
    { bX := r0.1, bY := r1.1, bZ := r2.1, bT := r3.1
      z_ne := by rw [r2.2]; exact hp.z_ne
      xy := by rw [r0.2, r1.2, r2.2, r3.2]; exact f1
      hx := by rw [r0.2, r2.2]; exact f2
      hy := by rw [r1.2, r2.2]; exact f3 }

/-! ### Zero -/

theorem extZero_spec : GoodExt extZero (0 : Pt) := by
  have hrel := junk4Rel 0 0 0 0
  rw [← flatten1 junk4] at hrel
  obtain ⟨_, _, hget⟩ := call_refines extended_Zero [junk4] 0 0 (Or.inl rfl) hrel
    (M1 := [some 1, some 1, some 1, some 1, some 1, some 1, some 1]) (by decide)
  generalize hX : runBody fieldAlg 0 (seqBases extended_Zero.objs 0) 0 extended_Zero.body _ = X1 at hget
  have v0 : X1.getD 0 0 = 0 := by rw [← hX]; rfl
  have v1 : X1.getD 1 0 = 1 := by rw [← hX]; rfl
  have v2 : X1.getD 2 0 = 1 := by rw [← hX]; rfl
  have v3 : X1.getD 3 0 = 0 := by rw [← hX]; rfl
  have r0 := hget 0 1 (by decide)
  have r1 := hget 1 1 (by decide)
  have r2 := hget 2 1 (by decide)
  have r3 := hget 3 1 (by decide)
  rw [v0] at r0; rw [v1] at r1; rw [v2] at r2; rw [v3] at r3
  obtain ⟨eX, eY, eZ, eT⟩ := ext4_fields (call extended_Zero [junk4] 0 0) 0
  unfold extZero
  rw [← eX] at r0; rw [← eY] at r1; rw [← eZ] at r2; rw [← eT] at r3
  exact
    { bX := b2 r0 (by omega), bY := r1.1, bZ := r2.1, bT := r3.1
      z_ne := by rw [r2.2]; exact one_ne_zero
      xy := by rw [r0.2, r1.2, r2.2, r3.2]; ring
      hx := by rw [r0.2, r2.2]; simp
      hy := by rw [r1.2, r2.2]; simp }

/-! ### point.go -/

/-- **point.Add**: `E2.ToCached(&t2); r.Add(&E1, &t2); r.ToExtended(&P)` is the group addition -/
theorem ptAdd_spec {p q : Ext} {P Q : Pt} (hp : GoodExt p P) (hq : GoodExt q Q) : GoodExt (ptAdd p q) (P + Q) :=
  complToExt_spec (complAdd_spec hp (extToCached_spec hq))

theorem ptSub_spec {p q : Ext} {P Q : Pt} (hp : GoodExt p P) (hq : GoodExt q Q) : GoodExt (ptSub p q) (P + -Q) :=
  complToExt_spec (complSub_spec hp (extToCached_spec hq))

theorem ptNeg_spec {p : Ext} {P : Pt} (hp : GoodExt p P) : GoodExt (ptNeg p) (-P) := extNeg_spec hp

theorem ptNull_spec : GoodExt ptNull (0 : Pt) := extZero_spec

/-- extended.Double: `p.ToProjective(&q); q.Double(r)` -/
theorem extDouble_spec {p : Ext} {P : Pt} (hp : GoodExt p P) : GoodCompl (extDouble p) (P + P) :=
  projDouble_spec (extToProj_spec hp)

end Dos.Ge

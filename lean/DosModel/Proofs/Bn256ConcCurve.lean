/-
The concrete affine G1 operations of `Model/Bn256.lean` stay on the curve: `G1.valid` (coordinates
< p, y² = x³ + 3) is preserved by `neg`, `double`, `add` and `smul`, and holds for the generator.
Hence every element reachable from the generator by scalar multiplication, addition and negation
is a valid element — the hypothesis of the C11 theorems.

Uses: p is prime (`Proofs/Primes.lean`, Pratt certificate checked by the kernel), so `ZMod p` is a
field and `finv a = a^(p−2)` is the inverse (Fermat).  The chord/tangent formulas are verified as
polynomial identities (cofactors found with sympy, checked here by `linear_combination`).
-/
import Mathlib.Data.ZMod.Basic
import Mathlib.FieldTheory.Finite.Basic
import Mathlib.Tactic.LinearCombination
import DosModel.Proofs.Primes
import DosModel.Proofs.Codec

namespace Dos.Bn256
open Dos

instance fact_p_prime : Fact (Nat.Prime p) := ⟨Dos.Primes.bn256_p_prime⟩

abbrev F := ZMod p

theorem cast_fadd (a b : Nat) : ((fadd a b : Nat) : F) = (a : F) + b := by
  simp [fadd, ZMod.natCast_mod]

theorem cast_fmul (a b : Nat) : ((fmul a b : Nat) : F) = (a : F) * b := by
  simp [fmul, ZMod.natCast_mod]

theorem cast_fsq (a : Nat) : ((fsq a : Nat) : F) = (a : F) * a := by
  simp [fsq, ZMod.natCast_mod]

theorem cast_fsub (a b : Nat) : ((fsub a b : Nat) : F) = (a : F) - b := by
  have hb : b % p ≤ p := Nat.le_of_lt (Nat.mod_lt _ Dos.Codec.p_pos)
  simp only [fsub, ZMod.natCast_mod, Nat.cast_add, Nat.cast_sub hb, ZMod.natCast_self]
  ring

theorem cast_fneg (a : Nat) : ((fneg a : Nat) : F) = -(a : F) := by
  have hb : a % p ≤ p := Nat.le_of_lt (Nat.mod_lt _ Dos.Codec.p_pos)
  simp only [fneg, ZMod.natCast_mod, Nat.cast_sub hb, ZMod.natCast_self]
  ring

/-- the square-and-multiply loop computes the power -/
theorem powAux_spec (m : Nat) : ∀ (fuel b e acc : Nat), e ≤ fuel →
    ((powAux m fuel b e acc : Nat) : ZMod m) = (acc : ZMod m) * (b : ZMod m) ^ e := by
  intro fuel
  induction fuel with
  | zero =>
    intro b e acc he
    have : e = 0 := by omega
    subst this; simp [powAux]
  | succ fuel ih =>
    intro b e acc he
    unfold powAux
    by_cases h0 : e = 0
    · subst h0; simp
    · simp only [h0, if_false]
      rw [ih _ _ _ (by omega)]
      have hsplit : e = 2 * (e / 2) + e % 2 := (Nat.div_add_mod e 2).symm
      by_cases hodd : e % 2 = 1
      · simp only [hodd, if_true, ZMod.natCast_mod, Nat.cast_mul]
        conv_rhs => rw [hsplit, hodd, pow_add, pow_mul, pow_one]
        ring
      · have hev : e % 2 = 0 := by omega
        simp only [hev, ZMod.natCast_mod, Nat.cast_mul]
        conv_rhs => rw [hsplit, hev, Nat.add_zero, pow_mul]
        simp [pow_two]

theorem cast_fpow (b e : Nat) : ((fpow b e : Nat) : F) = (b : F) ^ e := by
  unfold fpow powMod
  rw [powAux_spec p e (b % p) e (1 % p) (Nat.le_refl e)]
  simp [ZMod.natCast_mod]

/-- `finv` is the field inverse (Fermat; 0 ↦ 0) -/
theorem cast_finv (a : Nat) : ((finv a : Nat) : F) = (a : F)⁻¹ := by
  unfold finv
  rw [cast_fpow]
  by_cases h0 : (a : F) = 0
  · rw [h0, inv_zero]
    exact zero_pow (by decide)
  · have h1 : (a : F) ^ (p - 1) = 1 := ZMod.pow_card_sub_one_eq_one h0
    have h2 : (a : F) ^ (p - 2) * a = 1 := by
      rw [← pow_succ]
      have : p - 2 + 1 = p - 1 := by decide
      rw [this]; exact h1
    exact eq_inv_of_mul_eq_one_left h2

theorem fadd_lt (a b : Nat) : fadd a b < p := Nat.mod_lt _ Dos.Codec.p_pos
theorem fsub_lt (a b : Nat) : fsub a b < p := Nat.mod_lt _ Dos.Codec.p_pos
theorem fneg_lt (a : Nat) : fneg a < p := Nat.mod_lt _ Dos.Codec.p_pos
theorem fmul_lt (a b : Nat) : fmul a b < p := Nat.mod_lt _ Dos.Codec.p_pos
theorem fsq_lt (a : Nat) : fsq a < p := Nat.mod_lt _ Dos.Codec.p_pos

/-- the Boolean curve test is the curve equation in the field -/
theorem onCurve_iff (x y : Nat) :
    G1.onCurve (.aff x y) = true ↔ (y : F) ^ 2 = (x : F) ^ 3 + 3 := by
  simp only [G1.onCurve, beq_iff_eq, curveB]
  constructor
  · intro h
    have := congrArg (fun n : Nat => (n : F)) h
    simp only [cast_fsq, cast_fadd, cast_fmul] at this
    push_cast at this
    linear_combination this
  · intro h
    have e : ((fsq y : Nat) : F) = ((fadd (fmul (fsq x) x) 3 : Nat) : F) := by
      simp only [cast_fsq, cast_fadd, cast_fmul]
      push_cast
      linear_combination h
    have := (ZMod.natCast_eq_natCast_iff' _ _ _).mp e
    rwa [Nat.mod_eq_of_lt (fsq_lt y), Nat.mod_eq_of_lt (fadd_lt _ _)] at this

theorem mod_eq_zero_iff_cast (a : Nat) : a % p = 0 ↔ (a : F) = 0 := by
  rw [ZMod.natCast_eq_zero_iff]; exact (Nat.dvd_iff_mod_eq_zero).symm

theorem mod_eq_iff_cast (a b : Nat) : a % p = b % p ↔ (a : F) = b :=
  (ZMod.natCast_eq_natCast_iff' a b p).symm

theorem two_ne_zero_F : (2 : F) ≠ 0 := by
  have : ((2 : Nat) : F) ≠ 0 := by
    rw [Ne, ZMod.natCast_eq_zero_iff]; decide
  simpa using this

/-! ### closure -/

theorem valid_iff (x y : Nat) :
    G1.valid (.aff x y) = true ↔ x < p ∧ y < p ∧ (y : F) ^ 2 = (x : F) ^ 3 + 3 := by
  simp only [G1.valid, Bool.and_eq_true, decide_eq_true_eq, onCurve_iff, and_assoc]

theorem valid_neg (P : G1) (h : G1.valid P = true) : G1.valid (G1.neg P) = true := by
  cases P with
  | inf => rfl
  | aff x y =>
    rw [valid_iff] at h
    simp only [G1.neg]
    rw [valid_iff]
    refine ⟨h.1, fneg_lt y, ?_⟩
    rw [cast_fneg]; linear_combination h.2.2

theorem valid_double (P : G1) (h : G1.valid P = true) : G1.valid (G1.double P) = true := by
  cases P with
  | inf => rfl
  | aff x y =>
    rw [valid_iff] at h
    obtain ⟨_, _, hc⟩ := h
    simp only [G1.double]
    split
    · rfl
    · rename_i hy
      have hy' : (y : F) ≠ 0 := fun h0 => hy ((mod_eq_zero_iff_cast y).mpr h0)
      rw [valid_iff]
      refine ⟨fsub_lt _ _, fsub_lt _ _, ?_⟩
      simp only [cast_fsub, cast_fmul, cast_fsq, cast_fadd, cast_finv]
      push_cast
      have h2y : (y : F) + y ≠ 0 := by
        intro h0
        have : (2 : F) * y = 0 := by linear_combination h0
        rcases mul_eq_zero.mp this with h | h
        · exact two_ne_zero_F h
        · exact hy' h
      generalize hl : (3 : F) * (x * x) * ((y : F) + y)⁻¹ = l
      have hl' : l * (2 * y) = 3 * (x : F) ^ 2 := by
        have e : (2 : F) * y = y + y := by ring
        rw [← hl, e, mul_assoc, inv_mul_cancel₀ h2y]; ring
      linear_combination (l ^ 2 - 3 * x) * hl' + hc

theorem valid_add (P Q : G1) (hP : G1.valid P = true) (hQ : G1.valid Q = true) :
    G1.valid (G1.add P Q) = true := by
  cases P with
  | inf => simpa [G1.add] using hQ
  | aff x1 y1 =>
    cases Q with
    | inf => simpa [G1.add] using hP
    | aff x2 y2 =>
      simp only [G1.add]
      split
      · split
        · exact valid_double _ hP
        · rfl
      · rename_i hx
        have hx' : (x2 : F) - x1 ≠ 0 := by
          intro h0
          apply hx
          rw [mod_eq_iff_cast]
          linear_combination -h0
        rw [valid_iff] at hP hQ
        obtain ⟨_, _, h1⟩ := hP
        obtain ⟨_, _, h2⟩ := hQ
        rw [valid_iff]
        refine ⟨fsub_lt _ _, fsub_lt _ _, ?_⟩
        simp only [cast_fsub, cast_fmul, cast_fsq, cast_finv]
        generalize hl : ((y2 : F) - y1) * ((x2 : F) - x1)⁻¹ = l
        have hl' : l * ((x2 : F) - x1) = y2 - y1 := by
          rw [← hl, mul_assoc, inv_mul_cancel₀ hx', mul_one]
        have key : ((x2 : F) - x1) *
            ((l * (x1 - (l * l - x1 - x2)) - y1) ^ 2 - ((l * l - x1 - x2) ^ 3 + 3)) = 0 := by
          linear_combination
            (-l ^ 3 * x1 + l ^ 3 * x2 + l ^ 2 * y1 + l ^ 2 * y2 + 2 * l * x1 ^ 2 - l * x1 * x2 - l * x2 ^ 2
              - 2 * x1 * y1 - 2 * x1 * y2 - x2 * y1 - x2 * y2) * hl'
            + (-l ^ 2 + x1 + 2 * x2) * h1 + (l ^ 2 - 2 * x1 - x2) * h2
        have := (mul_eq_zero.mp key).resolve_left hx'
        linear_combination this

theorem valid_smulAux (P : G1) (hP : G1.valid P = true) :
    ∀ fuel k, G1.valid (G1.smulAux P fuel k) = true := by
  intro fuel
  induction fuel with
  | zero => intro k; rfl
  | succ fuel ih =>
    intro k
    unfold G1.smulAux
    split
    · rfl
    · simp only []
      split
      · exact valid_add _ _ (valid_double _ (ih _)) hP
      · exact valid_double _ (ih _)

theorem valid_smul (k : Nat) (P : G1) (hP : G1.valid P = true) : G1.valid (G1.smul k P) = true :=
  valid_smulAux P hP k k

/-- elements reachable from the generator by the group operations the library offers -/
inductive G1.Reachable : G1 → Prop
  | base : G1.Reachable g1gen
  | null : G1.Reachable .inf
  | neg {P} : G1.Reachable P → G1.Reachable (G1.neg P)
  | add {P Q} : G1.Reachable P → G1.Reachable Q → G1.Reachable (G1.add P Q)
  | smul {P} (k : Nat) : G1.Reachable P → G1.Reachable (G1.smul k P)

theorem reachable_valid {P : G1} (h : G1.Reachable P) : G1.valid P = true := by
  induction h with
  | base => decide
  | null => rfl
  | neg _ ih => exact valid_neg _ ih
  | add _ _ ih1 ih2 => exact valid_add _ _ ih1 ih2
  | smul k _ ih => exact valid_smul k _ ih

end Dos.Bn256

/-
C10 / E2 — the interpreted assembly of gfpNeg / gfpAdd / gfpSub (regenerated listing
`Gen/Bn256Asm.lean`, semantics `Model/AsmInterp.lean`) equals the limb model of
`Model/Mont.lean`, for EVERY machine state: any register contents, any flags, any
frame junk, any memory, any aliasing of the three pointer arguments, any values of the
package variables. The proofs are definitional unfolding (`rfl`, checked by the
kernel): the interpreter is evaluated on the symbolic state and must produce exactly
the limb expressions. A change of one instruction in gfp.s breaks them.
-/
import DosModel.Model.AsmInterp
import DosModel.Model.Mont
import DosModel.Gen.Bn256Asm

namespace Dos.Asm
open Dos.Mont Dos.Gen.Bn256Asm

/-- memory after the four `MOVQ Ri, 8i(DI)` stores of a result block -/
def store4 (blk : Blk) (v : L4) (m : Blk → Nat → Nat) : Blk → Nat → Nat :=
  fun k i => if k = blk ∧ i = 3 then v.l3 else if k = blk ∧ i = 2 then v.l2
    else if k = blk ∧ i = 1 then v.l1 else if k = blk ∧ i = 0 then v.l0 else m k i

def load4 (m : Blk → Nat → Nat) (blk : Blk) : L4 := ⟨m blk 0, m blk 1, m blk 2, m blk 3⟩

/-- the modulus the code reads from the package variable `p2` -/
def envP (e : Env) : L4 := ⟨e.p2 0, e.p2 1, e.p2 2, e.p2 3⟩

theorem gfpAdd_interp (e : Env) (s : State) (junk : Nat) :
    ∃ regs cf zf frame, call e gfpAdd s junk = .ok
      { regs := regs, cf := cf, zf := zf, frame := frame, alias := s.alias,
        mem := store4 (s.alias .c)
          (addLimbs (envP e) (load4 s.mem (s.alias .a)) (load4 s.mem (s.alias .b))) s.mem } :=
  ⟨_, _, _, _, rfl⟩

theorem gfpSub_interp (e : Env) (s : State) (junk : Nat) :
    ∃ regs cf zf frame, call e gfpSub s junk = .ok
      { regs := regs, cf := cf, zf := zf, frame := frame, alias := s.alias,
        mem := store4 (s.alias .c)
          (subLimbs (envP e) (load4 s.mem (s.alias .a)) (load4 s.mem (s.alias .b))) s.mem } :=
  ⟨_, _, _, _, rfl⟩

theorem gfpNeg_interp (e : Env) (s : State) (junk : Nat) :
    ∃ regs cf zf frame, call e gfpNeg s junk = .ok
      { regs := regs, cf := cf, zf := zf, frame := frame, alias := s.alias,
        mem := store4 (s.alias .c) (negLimbs (envP e) (load4 s.mem (s.alias .a))) s.mem } :=
  ⟨_, _, _, _, rfl⟩


/-! ### reading the result back -/

theorem load4_store4_same (blk : Blk) (v : L4) (m : Blk → Nat → Nat) : load4 (store4 blk v m) blk = v := by
  simp [load4, store4]

theorem store4_other (blk k : Blk) (v : L4) (m : Blk → Nat → Nat) (h : k ≠ blk) (i : Nat) :
    store4 blk v m k i = m k i := by
  simp [store4, h]

/-- words of a block beyond index 3 do not exist for the code: nothing else is written -/
theorem store4_high (blk k : Blk) (v : L4) (m : Blk → Nat → Nat) (i : Nat) (h : 4 ≤ i) :
    store4 blk v m k i = m k i := by
  have h3 : i ≠ 3 := by omega
  have h2 : i ≠ 2 := by omega
  have h1 : i ≠ 1 := by omega
  have h0 : i ≠ 0 := by omega
  simp [store4, h3, h2, h1, h0]

end Dos.Asm

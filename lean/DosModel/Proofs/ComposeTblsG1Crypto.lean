/-
Composition helper: the C01 `Crypto` interface instantiated with the DRIVER's concrete threshold BLS
(scalars `Zq r`, points `G1.Pt`, `g1Codec`) — `cryptoG1` — is, under `hr`, the SAME record as the abstract
instance `tblsCrypto codecE f (φ ∘ H)` over `E(F_p)` (naturality of `recover` and `blsVerify`), so every
theorem of `Props/C01Compose.lean` holds for it.
-/
import DosModel.Proofs.ComposeTblsG1Module
import DosModel.Proofs.ComposeTbls

set_option linter.unusedSectionVars false
set_option linter.style.haveILetI false

namespace Dos.Compose.TG1
open Dos Dos.G1 Dos.Share Dos.Tbls Dos.Query Dos.Compose Dos.Compose.Natural

/-- `tbls.Recover` / `bls.Verify` of the node, computed with the driver's own G1 arithmetic -/
def cryptoG1 (f : List (Zq G1.r)) (H : Bytes → Pt) (t n : Nat) : Crypto :=
  { recover := fun c sigs => recOut (Tbls.recover g1Codec f (H c) sigs t n)
    verify := fun c sig => blsVerify g1Codec (f.headD 0) (H c) sig }

theorem cryptoG1_eq (hr : ∀ P : E, G1.r • P = 0) (f : List (Zq G1.r)) (H : Bytes → Pt)
    (hH : ∀ c, Valid (H c)) (t n : Nat) :
    letI := moduleE hr
    cryptoG1 f H t n = tblsCrypto codecE f (fun c => φ (H c)) t n := by
  letI := moduleE hr
  unfold cryptoG1 tblsCrypto
  congr 1
  · funext c sigs
    rw [recover_eq_abstract hr mulBridge f (H c) (hH c) sigs t n]
  · funext c sig
    exact (blsVerify_nat (hom hr mulBridge) codecHom (f.headD 0) (H c) (hH c) sig).symm

/-- what the driver's `tbls.Sign` emits is what the abstract one emits -/
theorem tblsSign_eq (hr : ∀ P : E, G1.r • P = 0) (f : List (Zq G1.r)) (hm : Pt) (hv : Valid hm) (i : Nat) :
    letI := moduleE hr
    tblsSign codecE f (φ hm) i = tblsSign g1Codec f hm i := by
  letI := moduleE hr
  unfold tblsSign blsSign
  congr 1
  show G1.encode (ψ ((priEval f (i : Int)).val • φ hm)) = G1.encode (G1.mul (priEval f (i : Int)).val hm)
  rw [← (mulBridge _ hm hv).2, ψ_φ _ (mulBridge _ hm hv).1]

/-- the module structure as an instance under the hypothesis `#E(F_p) = r` given as a `Fact` (lets a
pairing on `E(F_p)` be an ordinary argument of a theorem) -/
noncomputable instance (priority := low) moduleEFact [h : Fact (∀ P : E, G1.r • P = 0)] :
    Module (Zq G1.r) E := moduleE h.out

end Dos.Compose.TG1

package pipeir

import (
	"fmt"
	"go/ast"
	"strings"
)

// callStmt: a call in statement position (`f(x)`, `a, b := f(x)`); the continuation may fork.
func (t *tr) callStmt(ce *ast.CallExpr, lhs []ast.Expr, define bool) []*cont {
	if len(lhs) > 0 {
		if id, ok := lhs[0].(*ast.Ident); ok {
			t.hint = id.Name
		}
	}
	rets := t.callMulti(ce)
	t.hint = ""
	for _, c := range rets {
		t.cur = c
		vals := c.vals
		c.vals = nil
		if len(vals) == 1 && len(lhs) > 1 {
			if tp, ok := vals[0].(avTuple); ok {
				vals = tp.l
			}
		}
		for i, l := range lhs {
			var v AV = avUnknown{}
			if i < len(vals) {
				v = vals[i]
			}
			t.bind(l, v, define)
		}
	}
	return t.mergeConts(rets)
}

// call: a call inside an expression; it must come back exactly once.
func (t *tr) call(ce *ast.CallExpr) []AV {
	rets := t.callMulti(ce)
	if len(rets) == 0 {
		t.cur = &cont{ps: newPS()} // not live: the call never returns
		return nil
	}
	if len(rets) > 1 {
		t.errorf(ce, "call %s inside an expression returns along %d different paths", short(t.fr().pkg.fset, ce.Fun), len(rets))
	}
	t.cur = rets[0]
	vals := rets[0].vals
	rets[0].vals = nil
	return vals
}

func (t *tr) ret(vals ...AV) []*cont {
	t.cur.vals = vals
	return one(t.cur)
}

func (t *tr) evalArgs(ce *ast.CallExpr) []AV {
	var args []AV
	for _, a := range ce.Args {
		v := t.eval(a)
		if tp, ok := v.(avTuple); ok && len(ce.Args) == 1 {
			return tp.l // f(g()) with a multi-valued g
		}
		args = append(args, v)
	}
	return args
}

func (t *tr) callMulti(ce *ast.CallExpr) []*cont {
	fr := t.fr()
	// builtins and conversions
	if id, ok := ce.Fun.(*ast.Ident); ok && t.lookupCell(id.Name) == nil {
		if _, isFunc := fr.pkg.funcs[id.Name]; !isFunc {
			if cs, ok := t.builtin(id.Name, ce); ok {
				return cs
			}
		}
	}
	switch ce.Fun.(type) {
	case *ast.ArrayType, *ast.MapType, *ast.ChanType, *ast.InterfaceType:
		return t.ret(t.eval(ce.Args[0])) // conversion
	}
	if se, ok := ce.Fun.(*ast.SelectorExpr); ok {
		base := t.eval(se.X)
		name := se.Sel.Name
		switch b := base.(type) {
		case avWg:
			switch name {
			case "Add":
				n, ok := t.eval(ce.Args[0]).(avInt)
				if !ok {
					t.errorf(ce, "wg.Add with an unknown count")
					return t.ret()
				}
				if t.cur.ps.eff {
					t.errorf(ce, "wg.Add after the goroutine's first blocking operation is not supported")
				}
				t.p.wgs[b.id].init += n.n
			case "Done":
				t.emit1("wgDone", b.id, t.site(ce, ""))
			case "Wait":
				t.emit1("wgWait", b.id, t.site(ce, ""))
			}
			return t.ret()
		case avPkg:
			return t.pkgCall(b, name, ce)
		case avTicker, avCtx, avTick:
			t.evalArgs(ce)
			return t.ret(avUnknown{})
		case *avStruct:
			switch f := t.selector(se).(type) {
			case *avFunc:
				return t.callFunc(f, ce)
			case avCancel:
				if f.k >= 0 {
					t.emit1("cancel", f.k, t.site(ce, ""))
				}
				return t.ret()
			}
		}
		args := t.evalArgs(ce)
		if t.cfg.opaque != nil {
			if conts, ok := t.cfg.opaque(t, base, name, ce, args); ok {
				return conts
			}
		}
		t.noteOpaque(ce, base, name, args)
		return t.ret(avUnknown{})
	}
	fv := t.eval(ce.Fun)
	switch f := fv.(type) {
	case *avFunc:
		return t.callFunc(f, ce)
	case avCancel:
		if f.k >= 0 {
			t.emit1("cancel", f.k, t.site(ce, ""))
		}
		return t.ret()
	}
	t.evalArgs(ce)
	return t.ret(avUnknown{})
}

func (t *tr) noteOpaque(ce *ast.CallExpr, base AV, name string, args []AV) {
	for _, a := range args {
		if _, ok := a.(avChan); ok {
			t.p.warn("%s: channel passed to the opaque call %s", t.fr().pkg.pos(ce), short(t.fr().pkg.fset, ce.Fun))
		}
	}
	// a method of this package with channel effects that we could not bind to its receiver
	if isUnknown(base) {
		for _, ms := range t.fr().pkg.methods {
			if fd, ok := ms[name]; ok && t.effectful(t.fr().pkg, fd.Body, fd.Type, map[ast.Node]bool{}) {
				t.p.warn("%s: call %s treated as an opaque terminating call", t.fr().pkg.pos(ce), short(t.fr().pkg.fset, ce.Fun))
			}
		}
	}
}

func (t *tr) callFunc(f *avFunc, ce *ast.CallExpr) []*cont {
	args := t.evalArgs(ce)
	if !t.effectful(f.pkg, f.body, f.typ, map[ast.Node]bool{}) {
		return t.ret(avUnknown{})
	}
	return t.inline(f, args, ce)
}

func (t *tr) builtin(name string, ce *ast.CallExpr) ([]*cont, bool) {
	switch name {
	case "close":
		ch, kind := t.chanOf(ce.Args[0])
		if kind != "chan" {
			t.errorf(ce, "close of an unresolved channel %s", short(t.fr().pkg.fset, ce.Args[0]))
			return t.ret(), true
		}
		t.emit1("close", ch, t.site(ce, ""))
		return t.ret(), true
	case "len", "cap":
		switch v := t.eval(ce.Args[0]).(type) {
		case avList:
			return t.ret(avInt{len(v.l)}), true
		case avEmpty, avNil:
			return t.ret(avInt{0}), true
		}
		return t.ret(avUnknown{}), true
	case "append":
		hint := t.hint
		base := t.eval(ce.Args[0])
		var l []AV
		tracked := false
		switch b := base.(type) {
		case avList:
			l = append(l, b.l...)
			tracked = true
		case avEmpty, avNil:
			tracked = true
		}
		for _, a := range ce.Args[1:] {
			t.hint = hint
			v := t.eval(a)
			if _, ok := v.(avChan); ok {
				tracked = true
			}
			if ce.Ellipsis.IsValid() {
				if vl, ok := v.(avList); ok {
					l = append(l, vl.l...)
					continue
				}
			}
			l = append(l, v)
		}
		if !tracked {
			return t.ret(avUnknown{}), true
		}
		return t.ret(avList{l}), true
	case "make":
		switch ty := ce.Args[0].(type) {
		case *ast.ChanType:
			cap := 0
			if len(ce.Args) > 1 {
				n, ok := t.eval(ce.Args[1]).(avInt)
				if !ok {
					t.errorf(ce, "make(chan) with an unknown capacity")
				}
				cap = n.n
			}
			h := t.hint
			if h == "" {
				h = "ch"
			}
			id := t.newNamedChan(t.fname()+"."+h, cap)
			t.p.chans[id].env = false
			return t.ret(avChan{id}), true
		case *ast.MapType:
			return t.ret(t.newMap(t.hint)), true
		case *ast.ArrayType:
			_ = ty
			if len(ce.Args) > 1 {
				if n, ok := t.eval(ce.Args[1]).(avInt); ok && n.n <= 16 {
					l := make([]AV, n.n)
					for i := range l {
						l[i] = avUnknown{}
					}
					if n.n == 0 {
						return t.ret(avEmpty{}), true
					}
					return t.ret(avList{l}), true
				}
			}
		}
		return t.ret(avUnknown{}), true
	case "delete":
		if m, ok := t.eval(ce.Args[0]).(avMap); ok {
			delete(t.cur.ps.maps, m.id)
		}
		return t.ret(), true
	case "new", "copy", "panic", "print", "println", "recover":
		return t.ret(avUnknown{}), true
	case "string", "int", "int64", "uint64", "uint32", "int32", "byte", "uint", "float64", "uint8", "error":
		if len(ce.Args) == 1 {
			return t.ret(t.eval(ce.Args[0])), true
		}
	}
	return nil, false
}

func (t *tr) pkgCall(b avPkg, name string, ce *ast.CallExpr) []*cont {
	switch b.path {
	case "context":
		switch name {
		case "Background", "TODO":
			return t.ret(avCtx{-1})
		case "WithValue":
			return t.ret(t.eval(ce.Args[0]))
		case "WithTimeout", "WithDeadline", "WithCancel":
			parent := t.eval(ce.Args[0])
			if c, ok := parent.(avCtx); ok && c.k >= 0 {
				// a child context: cancelled with its parent; its own cancel is not modelled
				return t.ret(avTuple{[]AV{c, avCancel{-1}}})
			}
			k := t.nextRoot
			if k < 0 {
				k = t.p.nctx
				t.p.nctx++
			}
			t.nextRoot = -1
			t.p.facts = append(t.p.facts, fmt.Sprintf("ctx%d: context.%s in %s", k, name, t.fname()))
			return t.ret(avTuple{[]AV{avCtx{k}, avCancel{k}}})
		}
		return t.ret(avUnknown{})
	case "time":
		switch name {
		case "After", "Tick":
			return t.ret(avTick{t.timerSrc(name, ce)})
		case "NewTicker", "NewTimer":
			return t.ret(avTicker{t.timerSrc(name, ce)})
		}
		t.evalArgs(ce)
		return t.ret(avUnknown{})
	}
	if (name == "New" || name == "Errorf") && (strings.HasSuffix(b.path, "errors") || b.path == "fmt") {
		t.evalArgs(ce)
		return t.ret(avConst{"error"}) // a non-nil error value
	}
	if dir := repoDir(b.path); dir != "" {
		p, err := t.ld.load(dir)
		if err == nil {
			if fd, ok := p.funcs[name]; ok {
				return t.callFunc(t.funcOf(p, fd, nil), ce)
			}
		}
	}
	args := t.evalArgs(ce)
	for _, a := range args {
		if _, ok := a.(avChan); ok && !strings.HasPrefix(b.path, "fmt") {
			t.p.warn("%s: channel passed to %s.%s", t.fr().pkg.pos(ce), b.path, name)
		}
	}
	return t.ret(avUnknown{})
}

// effectful: does this function body (transitively, inside the repo) touch channels,
// wait groups, contexts or start goroutines?
func (t *tr) effectful(p *pkgInfo, body *ast.BlockStmt, typ *ast.FuncType, seen map[ast.Node]bool) bool {
	if body == nil || seen[body] {
		return false
	}
	if v, ok := t.effMemo[body]; ok {
		return v
	}
	seen[body] = true
	res := false
	if typ != nil && typ.Results != nil {
		for _, f := range typ.Results.List {
			ast.Inspect(f.Type, func(n ast.Node) bool {
				if _, ok := n.(*ast.ChanType); ok {
					res = true
				}
				return true
			})
		}
	}
	ast.Inspect(body, func(n ast.Node) bool {
		if res {
			return false
		}
		switch x := n.(type) {
		case *ast.SelectStmt, *ast.SendStmt, *ast.GoStmt:
			res = true
		case *ast.UnaryExpr:
			if x.Op.String() == "<-" {
				res = true
			}
		case *ast.CallExpr:
			switch f := x.Fun.(type) {
			case *ast.Ident:
				if f.Name == "close" || f.Name == "cancel" {
					res = true
				} else if fd, ok := p.funcs[f.Name]; ok {
					if t.effectful(p, fd.Body, fd.Type, seen) {
						res = true
					}
				}
			case *ast.SelectorExpr:
				if (f.Sel.Name == "Wait" || f.Sel.Name == "Done") && len(x.Args) == 0 {
					res = true
				}
				if id, ok := f.X.(*ast.Ident); ok {
					// pkg.Func of this repository
					for _, file := range p.files {
						if path, ok := p.imports[file][id.Name]; ok {
							if dir := repoDir(path); dir != "" {
								if q, err := t.ld.load(dir); err == nil {
									if fd, ok := q.funcs[f.Sel.Name]; ok && t.effectful(q, fd.Body, fd.Type, seen) {
										res = true
									}
								}
							}
						}
					}
				}
				for _, ms := range p.methods {
					if fd, ok := ms[f.Sel.Name]; ok && t.effectful(p, fd.Body, fd.Type, seen) {
						res = true
					}
				}
			}
		}
		return !res
	})
	if len(seen) == 1 {
		t.effMemo[body] = res
	}
	return res
}

/-
Structure of `Model/Keccak.lean` (C06): `keccak256` IS the sponge construction —
  keccak256 msg = squeeze (foldl absorbBlock 0^1600 (blocks of  msg ‖ pad10*1))
where the padded message `msg ++ padSuffix (136 − |msg| mod 136)` is a whole number of 136-byte blocks,
the suffix is the LEGACY Keccak one (first byte carries only the pad bit 0x01 — no SHA-3 domain bits —,
last byte 0x80, a single 0x81 when one byte is missing), and the output is 32 bytes.
What is not proved: anything about the permutation beyond its definition (θ ρ π χ ι as written in the model;
its tables are pinned against golang.org/x/crypto/sha3 by `Props/C06Keccak.lean`, its values by
known-answer vectors).  Core Lean only.
-/
import DosModel.Model.Keccak

namespace Dos.Keccak
open Dos

/-- the rate-sized blocks `absorb` consumes … -/
def chunks : Nat → Bytes → List Bytes
  | 0, _ => []
  | f + 1, m => if m.length < rate then [] else m.take rate :: chunks f (m.drop rate)

/-- … and the remainder it returns -/
def rest : Nat → Bytes → Bytes
  | 0, m => m
  | f + 1, m => if m.length < rate then m else rest f (m.drop rate)

theorem absorb_eq : ∀ (f : Nat) (st : Array UInt64) (m : Bytes),
    absorb f st m = ((chunks f m).foldl absorbBlock st, rest f m) := by
  intro f
  induction f with
  | zero => intro st m; rfl
  | succ f ih =>
    intro st m
    simp only [absorb, chunks, rest]
    split
    · rfl
    · rw [ih]; rfl

theorem chunks_flatten : ∀ (f : Nat) (m : Bytes), (chunks f m).flatten ++ rest f m = m := by
  intro f
  induction f with
  | zero => intro m; rfl
  | succ f ih =>
    intro m
    simp only [chunks, rest]
    split
    · rfl
    · rw [List.flatten_cons, List.append_assoc, ih, List.take_append_drop]

theorem chunks_block_length : ∀ (f : Nat) (m : Bytes), ∀ b ∈ chunks f m, b.length = rate := by
  intro f
  induction f with
  | zero => intro m b hb; simp [chunks] at hb
  | succ f ih =>
    intro m b hb
    simp only [chunks] at hb
    split at hb
    · simp at hb
    · rename_i hlt
      rcases List.mem_cons.mp hb with rfl | hb
      · rw [List.length_take]; omega
      · exact ih _ b hb

theorem rest_spec : ∀ (f : Nat) (m : Bytes), m.length / rate < f →
    (rest f m).length = m.length % rate ∧ (chunks f m).length = m.length / rate := by
  have hr : rate = 136 := rfl
  intro f
  induction f with
  | zero => intro m h; exact absurd h (Nat.not_lt_zero _)
  | succ f ih =>
    intro m h
    simp only [chunks, rest]
    split
    · rename_i hlt
      exact ⟨(Nat.mod_eq_of_lt hlt).symm, by rw [Nat.div_eq_of_lt hlt]; rfl⟩
    · rename_i hge
      have hl : (m.drop rate).length = m.length - rate := List.length_drop
      have hlt : (m.drop rate).length / rate < f := by
        rw [hl]; rw [hr] at h hge ⊢; omega
      obtain ⟨h1, h2⟩ := ih (m.drop rate) hlt
      rw [hl] at h1 h2
      rw [hr] at h1 h2 hge ⊢
      refine ⟨by rw [h1]; omega, by rw [List.length_cons, h2]; omega⟩

/-- pad10*1 with the legacy first byte: `q` bytes, `1 ≤ q ≤ rate` -/
def padSuffix (q : Nat) : Bytes :=
  if q = 1 then [0x81] else [0x01] ++ List.replicate (q - 2) 0 ++ [0x80]

theorem padSuffix_length (q : Nat) (h : 1 ≤ q) : (padSuffix q).length = q := by
  unfold padSuffix
  split
  · simp_all
  · simp only [List.length_append, List.length_cons, List.length_nil, List.length_replicate]; omega

theorem pad_eq (m : Bytes) (h : m.length < rate) : pad m = m ++ padSuffix (rate - m.length) := by
  unfold pad padSuffix
  by_cases hz : rate - m.length - 1 = 0
  · have : rate - m.length = 1 := by omega
    simp [this]
  · have : ¬ rate - m.length = 1 := by omega
    have h2 : rate - m.length - 1 - 1 = rate - m.length - 2 := by omega
    simp only [hz, this, if_false, h2, List.append_assoc]

/-- the blocks the sponge absorbs: the full blocks of the message, then the padded remainder -/
def paddedBlocks (msg : Bytes) : List Bytes :=
  chunks (msg.length / rate + 1) msg ++ [pad (rest (msg.length / rate + 1) msg)]

/-- the first 32 bytes of the state, lanes little-endian -/
def squeeze (st : Array UInt64) : Bytes :=
  ((List.range 4).map fun i => bytesOfLane (st.getD i 0)).flatten

theorem keccak256_eq_sponge (msg : Bytes) :
    keccak256 msg = squeeze ((paddedBlocks msg).foldl absorbBlock (Array.replicate 25 0)) := by
  unfold keccak256 paddedBlocks
  rw [absorb_eq, List.foldl_append]
  rfl

theorem squeeze_length (st : Array UInt64) : (squeeze st).length = 32 := by
  simp [squeeze, bytesOfLane, List.range, List.range.loop]

theorem paddedBlocks_spec (msg : Bytes) :
    (∀ b ∈ paddedBlocks msg, b.length = rate) ∧
    (paddedBlocks msg).flatten = msg ++ padSuffix (rate - msg.length % rate) ∧
    (paddedBlocks msg).length = msg.length / rate + 1 ∧
    (msg ++ padSuffix (rate - msg.length % rate)).length = (msg.length / rate + 1) * rate := by
  have hr : rate = 136 := rfl
  obtain ⟨h1, h2⟩ := rest_spec (msg.length / rate + 1) msg (Nat.lt_succ_self _)
  have hlt : (rest (msg.length / rate + 1) msg).length < rate := by rw [h1]; exact Nat.mod_lt _ (by decide)
  have hpad := pad_eq _ hlt
  have hq : 1 ≤ rate - msg.length % rate := by
    have := Nat.mod_lt msg.length (show 0 < rate by decide); omega
  refine ⟨?_, ?_, ?_, ?_⟩
  · intro b hb
    rcases List.mem_append.mp hb with hb | hb
    · exact chunks_block_length _ _ b hb
    · rw [List.mem_singleton.mp hb, hpad, List.length_append, padSuffix_length _ (by omega)]; omega
  · unfold paddedBlocks
    rw [List.flatten_append, hpad, h1]
    simp only [List.flatten_cons, List.flatten_nil, List.append_nil]
    rw [← List.append_assoc, chunks_flatten]
  · unfold paddedBlocks
    rw [List.length_append, h2]; rfl
  · rw [List.length_append, padSuffix_length _ hq]
    have := Nat.div_add_mod msg.length rate
    have hm := Nat.mod_lt msg.length (show 0 < rate by decide)
    rw [Nat.add_mul, Nat.one_mul, Nat.mul_comm]
    omega

end Dos.Keccak

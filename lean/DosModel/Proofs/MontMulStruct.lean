/-
C10 layer 2/3 — the MULQ path of gfpMul, limb level, as a composition of the macro blocks of
mul.h: `mulRow` (one operand word times four words), `accRow` (add the shifted partial
result), `mul8` (the `mul` macro: 4×4 → 8 words), `redM` (the first part of `gfpReduce`:
m = low four words of T·np), `hi5` (the 512-bit addition keeping the high five words) and
`gfpCarry`. `mulLimbsMULQ_eq` shows (kernel-checked definitional unfolding) that the flat
model generated from the listing IS this composition; the arithmetic proofs are in
Proofs/MontMulSchool.lean and Proofs/MontMulRedc.lean.
-/
import Lean
import DosModel.Proofs.AsmMulLimbs

open Lean Elab Tactic Meta in
/-- `Eq.refl` checked by the kernel only (see Proofs/AsmMul.lean) -/
elab "kernel_rfl'" : tactic => do
  let g ← getMainGoal
  let t ← instantiateMVars (← g.getType)
  match t.eq? with
  | some (_, a, _) => g.assign (← mkEqRefl a)
  | none => throwError "kernel_rfl': goal is not an equality"

namespace Dos.Mont

structure L5 where
  l0 : Nat
  l1 : Nat
  l2 : Nat
  l3 : Nat
  l4 : Nat

structure L8 where
  l0 : Nat
  l1 : Nat
  l2 : Nat
  l3 : Nat
  l4 : Nat
  l5 : Nat
  l6 : Nat
  l7 : Nat

/-- one row of the `mul` macro: x · (b3:b2:b1:b0) as five words (MULQ, ADDQ, ADCQ $0) -/
def mulRow (x : Nat) (b : L4) : L5 :=
  let lo0 := mulLo x b.l0
  let hi0 := mulHi x b.l0
  let lo1 := mulLo x b.l1
  let hi1 := mulHi x b.l1
  let r1 := addLo hi0 lo1
  let c1 := addC hi0 lo1
  let d1 := adcLo hi1 0 c1
  let lo2 := mulLo x b.l2
  let hi2 := mulHi x b.l2
  let r2 := addLo d1 lo2
  let c2 := addC d1 lo2
  let d2 := adcLo hi2 0 c2
  let lo3 := mulLo x b.l3
  let hi3 := mulHi x b.l3
  let r3 := addLo d2 lo3
  let c3 := addC d2 lo3
  let r4 := adcLo hi3 0 c3
  ⟨lo0, r1, r2, r3, r4⟩

/-- add the four words s1..s4 left on the stack by the previous rows (ADDQ, ADCQ ×3, ADCQ $0) -/
def accRow (r : L5) (s1 s2 s3 s4 : Nat) : L5 :=
  let n0 := addLo r.l0 s1
  let c0 := addC r.l0 s1
  let n1 := adcLo r.l1 s2 c0
  let c1 := adcC r.l1 s2 c0
  let n2 := adcLo r.l2 s3 c1
  let c2 := adcC r.l2 s3 c1
  let n3 := adcLo r.l3 s4 c2
  let c3 := adcC r.l3 s4 c2
  let n4 := adcLo r.l4 0 c3
  ⟨n0, n1, n2, n3, n4⟩

/-- the `mul` macro: a · b as eight words -/
def mul8 (a b : L4) : L8 :=
  let r0 := mulRow a.l0 b
  let a1 := accRow (mulRow a.l1 b) r0.l1 r0.l2 r0.l3 r0.l4
  let a2 := accRow (mulRow a.l2 b) a1.l1 a1.l2 a1.l3 a1.l4
  let a3 := accRow (mulRow a.l3 b) a2.l1 a2.l2 a2.l3 a2.l4
  ⟨r0.l0, a1.l0, a2.l0, a3.l0, a3.l1, a3.l2, a3.l3, a3.l4⟩

/-- first part of `gfpReduce`: the low four words of (t3:t2:t1:t0) · np, truncated products -/
def redM (np : L4) (t0 t1 t2 t3 : Nat) : L4 :=
  -- np0 row, four words
  let a0 := mulLo np.l0 t0
  let h00 := mulHi np.l0 t0
  let l01 := mulLo np.l0 t1
  let h01 := mulHi np.l0 t1
  let a1 := addLo h00 l01
  let c := addC h00 l01
  let d := adcLo h01 0 c
  let l02 := mulLo np.l0 t2
  let h02 := mulHi np.l0 t2
  let a2 := addLo d l02
  let c := addC d l02
  let d := adcLo h02 0 c
  let l03 := mulLo np.l0 t3
  let a3 := addLo d l03
  -- np1 row, three words
  let b0 := mulLo np.l1 t0
  let h10 := mulHi np.l1 t0
  let l11 := mulLo np.l1 t1
  let h11 := mulHi np.l1 t1
  let b1 := addLo h10 l11
  let c := addC h10 l11
  let d := adcLo h11 0 c
  let l12 := mulLo np.l1 t2
  let b2 := addLo d l12
  let m1 := addLo a1 b0
  let c := addC a1 b0
  let e2 := adcLo a2 b1 c
  let c := adcC a2 b1 c
  let e3 := adcLo a3 b2 c
  -- np2 row, two words
  let c0 := mulLo np.l2 t0
  let h20 := mulHi np.l2 t0
  let l21 := mulLo np.l2 t1
  let c1 := addLo h20 l21
  let m2 := addLo e2 c0
  let c := addC e2 c0
  let f3 := adcLo e3 c1 c
  -- np3 row, one word
  let d0 := mulLo np.l3 t0
  let m3 := addLo f3 d0
  ⟨a0, m1, m2, m3⟩

/-- the 512-bit addition T + M of `gfpReduce`, of which only the high five words are kept -/
def hi5 (m t : L8) : L5 :=
  let c := addC m.l0 t.l0
  let c := adcC m.l1 t.l1 c
  let c := adcC m.l2 t.l2 c
  let c := adcC m.l3 t.l3 c
  let u0 := adcLo m.l4 t.l4 c
  let c := adcC m.l4 t.l4 c
  let u1 := adcLo m.l5 t.l5 c
  let c := adcC m.l5 t.l5 c
  let u2 := adcLo m.l6 t.l6 c
  let c := adcC m.l6 t.l6 c
  let u3 := adcLo m.l7 t.l7 c
  let c := adcC m.l7 t.l7 c
  let u4 := adcLo 0 0 c
  ⟨u0, u1, u2, u3, u4⟩

/-- gfpMul, MULQ path, as a composition of its macro blocks -/
def mulStructMULQ (p np a b : L4) : L4 :=
  let t := mul8 a b
  let m := redM np t.l0 t.l1 t.l2 t.l3
  let mp := mul8 p m
  let u := hi5 mp t
  carryLimbs p u.l0 u.l1 u.l2 u.l3 u.l4

set_option maxRecDepth 1000000 in
theorem mulLimbsMULQ_eq (p np a b : L4) : mulLimbsMULQ p np a b = mulStructMULQ p np a b := by
  kernel_rfl'

end Dos.Mont

package pipeir

// PipeSpawns: the inventory of `go` statements.  Every `go` statement of the repository's product code
// (all packages; test files and files behind a build constraint — the verification hooks — excluded)
// is listed with a position-independent key
//
//	(package directory, enclosing function or method, ordinal of the statement in that declaration
//	 in source order — nested function literals included —, callee text)
//
// together with the sub-list of the statements the translator actually turned into a goroutine of one
// of the emitted pipelines.  The theorem `spawn_inventory_complete` (Props/C14Spawns.lean) demands
// that every statement is translated or is an entry of the hand-maintained list of goroutines that
// are deliberately not modelled by C14 (Model/PipeSpawnKnown.lean): a NEW goroutine anywhere in the
// repository breaks the theorem until somebody decides where it belongs.

import (
	"fmt"
	"go/ast"
	"os"
	"path/filepath"
	"sort"
	"strings"

	"verifharness/extract/ex"
)

func init() {
	ex.Register(&ex.Extractor{Name: "PipeSpawns", Run: runSpawns})
}

// go statements that became goroutines of an emitted pipeline (set by tr.goStmt)
var visitedGo = map[*ast.GoStmt]bool{}

type built struct {
	ld    *loader
	pipes []*pipeline
	err   error
}

var builds = map[string]*built{}

// buildAll translates every pipeline of specs() once per repository path
func buildAll(repo string) *built {
	if b, ok := builds[repo]; ok {
		return b
	}
	b := &built{ld: &loader{repo: repo, pkgs: map[string]*pkgInfo{}}}
	builds[repo] = b
	for _, s := range specs() {
		p, err := s.mk(b.ld)
		if err != nil {
			b.err = err
			return b
		}
		b.pipes = append(b.pipes, p)
	}
	return b
}

type spawnKey struct {
	dir, fn string
	k       int
	callee  string
	pos     string
	stmt    *ast.GoStmt
}

func funcKey(fd *ast.FuncDecl) string {
	if fd.Recv != nil && len(fd.Recv.List) > 0 {
		t := fd.Recv.List[0].Type
		if s, ok := t.(*ast.StarExpr); ok {
			t = s.X
		}
		if id, ok := t.(*ast.Ident); ok {
			return id.Name + "." + fd.Name.Name
		}
	}
	return fd.Name.Name
}

// goDirs: every directory of the repository with Go files (not .git, vendor, testdata)
func goDirs(repo string) ([]string, error) {
	var dirs []string
	err := filepath.Walk(repo, func(path string, info os.FileInfo, err error) error {
		if err != nil {
			return err
		}
		if info.IsDir() {
			switch info.Name() {
			case ".git", "vendor", "testdata", "node_modules", "vault":
				return filepath.SkipDir
			}
			ms, _ := filepath.Glob(filepath.Join(path, "*.go"))
			for _, m := range ms {
				if !strings.HasSuffix(m, "_test.go") {
					rel, _ := filepath.Rel(repo, path)
					dirs = append(dirs, filepath.ToSlash(rel))
					break
				}
			}
		}
		return nil
	})
	sort.Strings(dirs)
	return dirs, err
}

func scanSpawns(ld *loader) ([]spawnKey, error) {
	dirs, err := goDirs(ld.repo)
	if err != nil {
		return nil, err
	}
	var out []spawnKey
	for _, dir := range dirs {
		p, err := ld.load(dir)
		if err != nil {
			// a directory whose only Go files are tests or hook files
			if strings.Contains(err.Error(), "no Go files") {
				continue
			}
			return nil, err
		}
		for _, f := range p.files {
			for _, d := range f.Decls {
				// a function or method, or the function literals of a package-level variable (handler tables)
				var root ast.Node
				name := ""
				switch x := d.(type) {
				case *ast.FuncDecl:
					if x.Body == nil {
						continue
					}
					root, name = x.Body, funcKey(x)
				case *ast.GenDecl:
					root = x
					for _, sp := range x.Specs {
						if vs, ok := sp.(*ast.ValueSpec); ok && len(vs.Names) > 0 && name == "" {
							name = "var " + vs.Names[0].Name
						}
					}
				default:
					continue
				}
				k := 0
				ast.Inspect(root, func(n ast.Node) bool {
					g, ok := n.(*ast.GoStmt)
					if !ok {
						return true
					}
					callee := "func"
					if _, lit := g.Call.Fun.(*ast.FuncLit); !lit {
						callee = shortN(p.fset, g.Call.Fun, 80)
					}
					out = append(out, spawnKey{dir: dir, fn: name, k: k, callee: callee, pos: p.pos(g), stmt: g})
					k++
					return true
				})
			}
		}
	}
	return out, nil
}

func (s spawnKey) lean() string {
	return fmt.Sprintf("(%s, %s, %d, %s)", leanStr(s.dir), leanStr(s.fn), s.k, leanStr(s.callee))
}

func runSpawns(repo string) (string, error) {
	b := buildAll(repo)
	if b.err != nil {
		return "", b.err
	}
	all, err := scanSpawns(b.ld)
	if err != nil {
		return "", err
	}
	var s strings.Builder
	s.WriteString(ex.Header("PipeSpawns", "every `go` statement of the repository (all packages; no test files, no files behind a build constraint)"))
	s.WriteString("namespace Dos.Gen.PipeSpawns\n\n")
	s.WriteString("/-- (package directory, enclosing function, ordinal of the `go` statement in it, callee) -/\nabbrev Key := String × String × Nat × String\n\n")
	s.WriteString("/-- every `go` statement of the product code -/\ndef all : List Key := [")
	for i, k := range all {
		if i > 0 {
			s.WriteString(",")
		}
		fmt.Fprintf(&s, "\n  %s /- %s -/", k.lean(), k.pos)
	}
	s.WriteString("]\n\n/-- the statements translated into a goroutine of an emitted pipeline (Gen/PipeIR.lean) -/\ndef translated : List Key := [")
	n := 0
	for _, k := range all {
		if !visitedGo[k.stmt] {
			continue
		}
		if n > 0 {
			s.WriteString(",")
		}
		fmt.Fprintf(&s, "\n  %s", k.lean())
		n++
	}
	s.WriteString("]\n\n/-- goroutines of the emitted pipelines that come from a translated `go` statement or a template root -/\n")
	g := 0
	for _, p := range b.pipes {
		g += len(p.gs)
	}
	fmt.Fprintf(&s, "def goroutinesEmitted : Nat := %d\n\n", g)
	loops, err := scanLoops(b.ld)
	if err != nil {
		return "", err
	}
	s.WriteString("/-- (package directory, enclosing function, ordinal of the loop in it, bound, header, class) -/\nabbrev LoopKey := String × String × Nat × String × String × String\n\n")
	s.WriteString("/-- every `for` / `range` statement of the packages the pipelines live in -/\ndef loops : List LoopKey := [")
	for i, l := range loops {
		if i > 0 {
			s.WriteString(",")
		}
		fmt.Fprintf(&s, "\n  %s /- %s -/", l.lean(), l.pos)
	}
	s.WriteString("]\n\n")
	ext, err := scanExternal(b.ld)
	if err != nil {
		return "", err
	}
	s.WriteString("/-- the external calls the translator treats as returning: (call, callee, what bounds it — `none` if nothing) -/\ndef externalCalls : List (String × String × String) := [")
	for i, e := range ext {
		if i > 0 {
			s.WriteString(",")
		}
		fmt.Fprintf(&s, "\n  (%s, %s, %s)", leanStr(e[0]), leanStr(e[1]), leanStr(e[2]))
	}
	s.WriteString("]\n\nend Dos.Gen.PipeSpawns\n")
	return s.String(), nil
}

// ---- loop inventory --------------------------------------------------------------------------
//
// Every `for` / `range` statement of the packages the pipelines live in, with a position-independent
// key and a syntactic classification of HOW IT CAN END:
//
//	bound: "range" (over a slice / map / channel: ends with the data or the channel),
//	       "count" (three-clause loop `for i := a; i < b; i++`), "cond" (`for cond {`), "forever" (`for {`)
//	class: "ctx-select" — the body has a `select` with a `<-….Done()` case (the loop can leave on the context),
//	       "chan-op"    — the body has another channel operation (select / send / receive),
//	       "opaque"     — neither: the loop ends only through its own condition, `break` or `return`.
//
// The translator turns a loop without channel operations into nothing at all (an internal choice);
// that such a loop ends is the assumption `Fair.data`.  The theorem `opaque_loops_are_pinned`
// (Props/C14Spawns.lean) pins the loops that rest on it: a NEW retry loop, or an existing loop whose
// `select` on the context is removed, is not in the list and breaks the theorem.

var loopDirs = []string{"dosnode", "share/dkg/pedersen", "utils", "p2p", "onchain"}

type loopFact struct {
	dir, fn       string
	k             int
	bound, header string
	class         string
	sleeps        bool
	pos           string
}

func isDoneRecv(e ast.Expr) bool {
	u, ok := e.(*ast.UnaryExpr)
	if !ok || u.Op.String() != "<-" {
		return false
	}
	c, ok := u.X.(*ast.CallExpr)
	if !ok {
		return false
	}
	se, ok := c.Fun.(*ast.SelectorExpr)
	return ok && se.Sel.Name == "Done"
}

func classifyBody(body *ast.BlockStmt) (class string, sleeps bool) {
	ctxSel, chanOp := false, false
	ast.Inspect(body, func(n ast.Node) bool {
		switch x := n.(type) {
		case *ast.FuncLit:
			return false // another goroutine's / a deferred body
		case *ast.SelectStmt:
			chanOp = true
			for _, cl := range x.Body.List {
				cc, ok := cl.(*ast.CommClause)
				if !ok || cc.Comm == nil {
					continue
				}
				switch c := cc.Comm.(type) {
				case *ast.ExprStmt:
					if isDoneRecv(c.X) {
						ctxSel = true
					}
				case *ast.AssignStmt:
					if len(c.Rhs) == 1 && isDoneRecv(c.Rhs[0]) {
						ctxSel = true
					}
				}
			}
		case *ast.SendStmt:
			chanOp = true
		case *ast.UnaryExpr:
			if x.Op.String() == "<-" {
				chanOp = true
			}
		case *ast.CallExpr:
			if se, ok := x.Fun.(*ast.SelectorExpr); ok && se.Sel.Name == "Sleep" {
				sleeps = true
			}
		}
		return true
	})
	switch {
	case ctxSel:
		return "ctx-select", sleeps
	case chanOp:
		return "chan-op", sleeps
	}
	return "opaque", sleeps
}

func scanLoops(ld *loader) ([]loopFact, error) {
	var out []loopFact
	for _, dir := range loopDirs {
		p, err := ld.load(dir)
		if err != nil {
			return nil, err
		}
		for _, f := range p.files {
			for _, d := range f.Decls {
				var root ast.Node
				name := ""
				switch x := d.(type) {
				case *ast.FuncDecl:
					if x.Body == nil {
						continue
					}
					root, name = x.Body, funcKey(x)
				case *ast.GenDecl:
					root = x
					for _, sp := range x.Specs {
						if vs, ok := sp.(*ast.ValueSpec); ok && len(vs.Names) > 0 && name == "" {
							name = "var " + vs.Names[0].Name
						}
					}
				default:
					continue
				}
				k := 0
				ast.Inspect(root, func(n ast.Node) bool {
					switch x := n.(type) {
					case *ast.ForStmt:
						lf := loopFact{dir: dir, fn: name, k: k, pos: p.pos(x)}
						switch {
						case x.Cond == nil:
							lf.bound, lf.header = "forever", "for"
						case x.Init != nil || x.Post != nil:
							lf.bound, lf.header = "count", "for "+shortN(p.fset, x.Cond, 80)
						default:
							lf.bound, lf.header = "cond", "for "+shortN(p.fset, x.Cond, 80)
						}
						lf.class, lf.sleeps = classifyBody(x.Body)
						out = append(out, lf)
						k++
					case *ast.BranchStmt:
						// a backward jump is a loop as well
						if x.Tok.String() == "goto" && x.Label != nil {
							out = append(out, loopFact{dir: dir, fn: name, k: k, pos: p.pos(x), bound: "goto", header: "goto " + x.Label.Name, class: "opaque"})
							k++
						}
					case *ast.RangeStmt:
						lf := loopFact{dir: dir, fn: name, k: k, pos: p.pos(x), bound: "range", header: "range " + shortN(p.fset, x.X, 80)}
						lf.class, lf.sleeps = classifyBody(x.Body)
						out = append(out, lf)
						k++
					}
					return true
				})
			}
		}
	}
	return out, nil
}

func (l loopFact) lean() string {
	return fmt.Sprintf("(%s, %s, %d, %s, %s, %s)", leanStr(l.dir), leanStr(l.fn), l.k, leanStr(l.bound), leanStr(l.header), leanStr(l.class))
}

// ---- external calls and what bounds them -----------------------------------------------------
//
// The translator treats p.Request / p.Reply, the chain calls of the stages and the HTTP fetch as opaque
// calls that return.  What makes them return is in the callee: a client timeout, a context with a
// timeout derived from the caller's.  These are extracted as facts (callee, mechanism, "none" when it
// is absent) so that removing one breaks `external_calls_are_bounded`.

type extFact struct{ call, dir, recv, fn, mech string }

var extCalls = []extFact{
	{"dataFetch (HTTP fetch of the query URL)", "dosnode", "", "dataFetch", "client-timeout"},
	{"p2p Request (dispatchSign, sendToMembers, genDealsAndSend)", "p2p", "server", "Request", "with-timeout"},
	{"p2p Reply (pdkg.Loop)", "p2p", "server", "Reply", "with-timeout"},
	{"chain DataReturn (reportQueryResult)", "onchain", "ethAdaptor", "DataReturn", "with-timeout"},
	{"chain UpdateRandomness (reportQueryResult)", "onchain", "ethAdaptor", "UpdateRandomness", "with-timeout"},
	{"chain RegisterGroupPubKey (registerGroup)", "onchain", "ethAdaptor", "RegisterGroupPubKey", "with-timeout"},
}

func scanExternal(ld *loader) ([][3]string, error) {
	var out [][3]string
	for _, e := range extCalls {
		p, err := ld.load(e.dir)
		if err != nil {
			return nil, err
		}
		var fd *ast.FuncDecl
		if e.recv == "" {
			fd = p.funcs[e.fn]
		} else {
			fd = p.methods[e.recv][e.fn]
		}
		bound := "none"
		if fd == nil {
			bound = "function not found"
		} else {
			ast.Inspect(fd.Body, func(n ast.Node) bool {
				switch x := n.(type) {
				case *ast.CompositeLit:
					if e.mech != "client-timeout" {
						return true
					}
					if se, ok := x.Type.(*ast.SelectorExpr); ok && se.Sel.Name == "Client" {
						for _, el := range x.Elts {
							if kv, ok := el.(*ast.KeyValueExpr); ok {
								if id, ok := kv.Key.(*ast.Ident); ok && id.Name == "Timeout" && bound == "none" {
									bound = "http.Client{Timeout: " + shortN(p.fset, kv.Value, 60) + "}"
								}
							}
						}
					}
				case *ast.CallExpr:
					if e.mech != "with-timeout" {
						return true
					}
					if se, ok := x.Fun.(*ast.SelectorExpr); ok && (se.Sel.Name == "WithTimeout" || se.Sel.Name == "WithDeadline") && bound == "none" {
						bound = shortN(p.fset, x, 80)
					}
				}
				return true
			})
		}
		out = append(out, [3]string{e.call, e.dir + "." + e.fn, bound})
	}
	return out, nil
}

/-
Helper lemmas for the ABI layer: event logs (`decodeLog` after `encodeLog`, when it panics, what it rejects).
-/
import DosModel.Proofs.AbiDecode
import DosModel.Proofs.AbiLayout

namespace Dos.Abi
open Dos Dos.ReqLoop

def tysOf (is : List Input) : List AbiType := is.map (·.ty)

theorem wtArgs_select (p : Input → Bool) : ∀ (is : List Input) (vs : List AbiVal),
    wtArgs (tysOf is) vs = true → wtArgs (tysOf (is.filter p)) (selectVals p is vs) = true := by
  intro is
  induction is with
  | nil => intro vs _; cases vs <;> simp [selectVals, tysOf, wtArgs]
  | cons i is ih =>
    intro vs h
    cases vs with
    | nil => simp [tysOf, wtArgs] at h
    | cons v vs =>
      simp only [tysOf, List.map_cons, wtArgs, Bool.and_eq_true] at h
      by_cases hp : p i = true
      · simp only [selectVals, hp, if_true, List.filter_cons_of_pos hp, tysOf, List.map_cons, wtArgs, Bool.and_eq_true]
        exact ⟨h.1, ih vs h.2⟩
      · have hp' : p i = false := by simpa using hp
        simp only [selectVals, hp', Bool.false_eq_true, if_false, List.filter_cons_of_neg hp]
        exact ih vs h.2

theorem tysWf_filter (p : Input → Bool) (is : List Input) (h : is.all Input.wf = true) :
    tysWf (tysOf (is.filter p)) = true := by
  simp only [tysWf, tysOf, List.all_map, List.all_eq_true, List.mem_filter] at h ⊢
  intro i hi
  have := h i hi.1
  simp only [Input.wf, Bool.and_eq_true] at this
  exact this.1

/-- merging the decoded halves of a well-typed value list gives the list back -/
theorem mergeVals_select : ∀ (is : List Input) (vs : List AbiVal), is.length = vs.length →
    mergeVals is ((selectVals (fun i => !i.indexed) is vs).map some) (selectVals (·.indexed) is vs) = vs.map some := by
  intro is
  induction is with
  | nil => intro vs h; cases vs <;> simp_all [mergeVals]
  | cons i is ih =>
    intro vs h
    cases vs with
    | nil => simp at h
    | cons v vs =>
      simp only [List.length_cons, Nat.add_right_cancel_iff] at h
      by_cases hi : i.indexed = true
      · simp only [selectVals, hi, if_true, Bool.not_true, Bool.false_eq_true, if_false, mergeVals, List.map_cons,
          ih vs h]
      · have hi' : i.indexed = false := by simpa using hi
        simp only [selectVals, hi', Bool.not_false, if_true, Bool.false_eq_true, if_false, mergeVals, List.map_cons,
          ih vs h]

theorem wtArgs_length : ∀ (tys : List AbiType) (vs : List AbiVal), wtArgs tys vs = true → tys.length = vs.length := by
  intro tys
  induction tys with
  | nil => intro vs h; cases vs <;> simp_all [wtArgs]
  | cons t ts ih =>
    intro vs h
    cases vs with
    | nil => simp [wtArgs] at h
    | cons v vs =>
      simp only [wtArgs, Bool.and_eq_true] at h
      simp [ih vs h.2]

/-- the topics of the indexed inputs decode to their values -/
theorem decTopics_select : ∀ (is : List Input) (vs : List AbiVal), is.all Input.wf = true →
    wtArgs (tysOf is) vs = true →
    decTopics (is.filter (·.indexed)) ((selectVals (·.indexed) is vs).map topicOf) = .ok (selectVals (·.indexed) is vs) := by
  intro is
  induction is with
  | nil => intro vs _ _; cases vs <;> simp [selectVals, decTopics]
  | cons i is ih =>
    intro vs hw h
    cases vs with
    | nil => simp [tysOf, wtArgs] at h
    | cons v vs =>
      simp only [tysOf, List.map_cons, wtArgs, Bool.and_eq_true] at h
      simp only [List.all_cons, Bool.and_eq_true] at hw
      by_cases hi : i.indexed = true
      · simp only [selectVals, hi, if_true, List.filter_cons_of_pos hi, List.map_cons, decTopics]
        have hwf := hw.1
        simp only [Input.wf, hi, Bool.not_true, Bool.false_or, Bool.and_eq_true] at hwf
        -- the input is a word type
        obtain ⟨hty, hel⟩ := hwf
        cases hti : i.ty with
        | elem e =>
          rw [hti] at h hty
          cases v <;> simp [AbiVal.wt] at h
          rename_i ev
          simp only [AbiType.wf] at hty
          have hlen := encEVal_length hty h.1
          have hword : wordAt (encEVal ev) 0 = .ok (encEVal ev) :=
            wordAt_eq (rest := []) (by simp) hlen
          simp only [decTopic, hti, topicOf, hword, decElem_encEVal hty h.1, ih vs hw.2 h.2, bind, Except.bind, pure,
            Except.pure]
        | sarray e n => simp [hti, AbiType.isElem] at hel
        | darray e => simp [hti, AbiType.isElem] at hel
        | bytes => simp [hti, AbiType.isElem] at hel
        | string => simp [hti, AbiType.isElem] at hel
      · have hi' : i.indexed = false := by simpa using hi
        simp only [selectVals, hi', Bool.false_eq_true, if_false, List.filter_cons_of_neg hi]
        exact ih vs hw.2 h.2

theorem encodeRaw_nil_left (vs : List AbiVal) : encodeRaw [] vs = [] := by
  cases vs <;> simp [encodeRaw, encGo]

theorem encodeRaw_ne_nil {tys : List AbiType} {vs : List AbiVal} (hw : tysWf tys = true) (hv : wtArgs tys vs = true)
    (hne : tys ≠ []) : (encodeRaw tys vs).isEmpty = false := by
  cases tys with
  | nil => exact absurd rfl hne
  | cons t ts =>
    have h1 := encGo_fst_length (t :: ts) vs (headLen (t :: ts)) hw hv
    simp only [tysWf, List.all_cons, Bool.and_eq_true] at hw
    have h2 := headSize_pos t hw.1
    have h1' : (encGo (headLen (t :: ts)) (t :: ts) vs).1.length = t.headSize + headLen ts := by
      rw [h1, headLen_cons]
    have : 0 < (encodeRaw (t :: ts) vs).length := by
      simp only [encodeRaw, List.length_append]; omega
    cases hx : encodeRaw (t :: ts) vs with
    | nil => rw [hx] at this; simp at this
    | cons a b => rfl

/-- what the binding reads from the log the contract emitted is what the contract put in -/
theorem decodeLog_encodeLog (id : Bytes) (s : EventSpec) (vs : List AbiVal) (hw : s.wf = true)
    (hv : wtArgs s.types vs = true) (hB : (encodeLog id s vs).data.length < 2 ^ 63) :
    decodeLog id s (encodeLog id s vs) = .ok (vs.map some) := by
  have hv' : wtArgs (tysOf s.inputs) vs = true := hv
  have hwf : s.inputs.all Input.wf = true := hw
  have hlen : s.inputs.length = vs.length := by
    have := wtArgs_length _ _ hv'
    simpa [tysOf] using this
  have hni_w := tysWf_filter (fun i => !i.indexed) s.inputs hwf
  have hni_v := wtArgs_select (fun i => !i.indexed) s.inputs vs hv'
  have htop := decTopics_select s.inputs vs hwf hv'
  have hmerge := mergeVals_select s.inputs vs hlen
  simp only [decodeLog, encodeLog, EventSpec.nonIndexed, EventSpec.indexed, ne_eq, not_true_eq_false, if_false]
  by_cases hne : s.inputs.filter (fun i => !i.indexed) = []
  · -- no data at all
    have hsel : selectVals (fun i => !i.indexed) s.inputs vs = [] := by
      have := wtArgs_length _ _ hni_v
      rw [hne] at this
      simpa [tysOf] using this.symm
    simp only [hne, List.map_nil, encodeRaw_nil_left, List.isEmpty_nil, if_true, htop, bind, Except.bind, pure,
      Except.pure]
    rw [hsel] at hmerge
    simp only [List.map_nil] at hmerge
    rw [hmerge]
  · have hne' : tysOf (s.inputs.filter (fun i => !i.indexed)) ≠ [] := by simpa [tysOf] using hne
    have hdata := encodeRaw_ne_nil hni_w hni_v hne'
    have hdec := decode_encode _ _ hni_w hni_v (by simpa [encodeLog, EventSpec.nonIndexed, tysOf] using hB)
    have hsel : (selectVals (fun i => !i.indexed) s.inputs vs).isEmpty = false := by
      have := wtArgs_length _ _ hni_v
      cases hx : selectVals (fun i => !i.indexed) s.inputs vs with
      | nil =>
        rw [hx] at this
        have h0 : (s.inputs.filter (fun i => !i.indexed)).length = 0 := by simpa [tysOf] using this
        exact absurd (List.eq_nil_of_length_eq_zero h0) hne
      | cons a b => rfl
    simp only [tysOf] at hdata hdec
    simp only [hdata, Bool.false_eq_true, if_false, hdec, hsel, Bool.false_and, htop, bind, Except.bind, pure, Except.pure]
    exact congrArg Except.ok hmerge

/-! ### what `UnpackLog` does with logs that no contract emitted -/

theorem decTopic_noPanic {i : Input} (hw : i.wf = true) (t : Bytes) : NoPanic (decTopic i t) := by
  simp only [decTopic]
  cases hti : i.ty with
  | elem e =>
    simp only [Input.wf, hti, Bool.and_eq_true, AbiType.wf] at hw
    apply noPanic_bind (wordAt_noPanic _ _)
    intro w hwd
    apply noPanic_bind (decElem_noPanic hw.1 (wordAt_len hwd))
    intro v _; exact noPanic_ok _
  | sarray e n => exact noPanic_ok _
  | darray e => exact noPanic_ok _
  | bytes => exact noPanic_ok _
  | string => exact noPanic_ok _

theorem decTopics_noPanic : ∀ (is : List Input) (ts : List Bytes), is.all Input.wf = true → NoPanic (decTopics is ts) := by
  intro is
  induction is with
  | nil => intro ts _; cases ts <;> simp only [decTopics] <;> first | exact noPanic_ok _ | exact noPanic_err
  | cons i is ih =>
    intro ts hw
    simp only [List.all_cons, Bool.and_eq_true] at hw
    cases ts with
    | nil => exact noPanic_err
    | cons t ts =>
      simp only [decTopics]
      apply noPanic_bind (decTopic_noPanic hw.1 t)
      intro v _
      apply noPanic_bind (ih ts hw.2)
      intro vs _; exact noPanic_ok _

theorem all_wf_filter (p : Input → Bool) (is : List Input) (h : is.all Input.wf = true) :
    (is.filter p).all Input.wf = true := by
  simp only [List.all_eq_true, List.mem_filter] at h ⊢
  intro i hi; exact h i hi.1

/-- a log with at least one topic never makes `UnpackLog` panic -/
theorem decodeLog_noPanic_of_topic (id : Bytes) (s : EventSpec) (hw : s.wf = true) (t0 : Bytes) (rest : List Bytes)
    (data : Bytes) : NoPanic (decodeLog id s { topics := t0 :: rest, data := data }) := by
  have hwf : s.inputs.all Input.wf = true := hw
  simp only [decodeLog]
  split
  · exact noPanic_err
  · apply noPanic_bind
    · split
      · exact noPanic_ok _
      · apply noPanic_bind (decGo_noPanic _ 0 data (tysWf_filter _ s.inputs hwf))
        intro vs _
        split
        · exact noPanic_err
        · exact noPanic_ok _
    · intro ns _
      apply noPanic_bind (decTopics_noPanic _ rest (all_wf_filter _ s.inputs hwf))
      intro xs _; exact noPanic_ok _

theorem mergeVals_none : ∀ (is : List Input), is.filter (·.indexed) = [] →
    mergeVals is ((is.filter (fun i => !i.indexed)).map (fun _ => none)) [] = is.map (fun _ => none) := by
  intro is
  induction is with
  | nil => intro _; simp [mergeVals]
  | cons i is ih =>
    intro h
    by_cases hi : i.indexed = true
    · simp [List.filter_cons_of_pos hi] at h
    · have hi' : i.indexed = false := by simpa using hi
      rw [List.filter_cons_of_neg hi] at h
      have hf : (i :: is).filter (fun i => !i.indexed) = i :: is.filter (fun i => !i.indexed) := by
        simp [List.filter_cons, hi']
      rw [hf]
      simp only [List.map_cons, mergeVals, hi', Bool.false_eq_true, if_false, ih h]

end Dos.Abi

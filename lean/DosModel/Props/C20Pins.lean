/-
C20 (round 5, review 5-F finding 3) — SOURCE PINS of everything in group/edwards25519 that is hand-modelled rather than
translated.  The extractors ed25519ge / ed25519fe regenerate, on every run, the statements of

  * ge.go: extended.Double, equal, negative, selectPreComputed, selectCached, geScalarMult, geScalarMultBase (token text),
    the field lists of the five point structs;
  * fe.go: feIsNegative, feIsNonZero, the byte shifts of load3 / load4;
  * point.go: the struct and the methods MarshalSize, MarshalBinary, UnmarshalBinary, Equal, Set, Clone, Null, Base, Add,
    Sub, Neg, Mul (printed source text, signature first);
  * scalar.go: the struct and the kyber.Scalar wrappers Equal, Set, Clone, setInt, SetInt64, toInt, Zero, One, Add, Sub,
    Neg, Mul, Div, Inv, Pick, SetBytes, MarshalSize, MarshalBinary, UnmarshalBinary;
  * const.go: prime, primeOrder;

and the theorems below compare them with the text the hand models (Model/Ed25519Ge.lean: extDouble, equal, negative,
selectCached, selectPreComputed, recode, geScalarMult, geScalarMultBase, mulScalar, ptAdd … ptEqual; Model/Ed25519Scalar.lean
and Drivers/C20.lean: scMarshal, scUnmarshal, scSetBytes, scInv, the `api`/`ali`/`apx` cases) were written against.
Until round 5 these definitions were referenced by no theorem (an edited recoding loop bound changed only a dead
definition: the tie was the correspondence run alone).  Now an edit of any of these bodies is a broken obligation, found in
seconds, in addition to the limb-for-limb comparison.  A pin says the source is the text the model was written against — that
the model renders that text faithfully stays a reading (trusted base), checked by the differential run.
-/
import DosModel.Gen.Ed25519Ge
import DosModel.Gen.Ed25519Fe
import DosModel.Model.Ed25519Scalar

namespace Dos.Props.C20Pins
open Dos

/-- ge.go: the hand-modelled routines, statement by statement (token text of the extractor), and the struct field lists -/
theorem ge_source_pinned :
    (Gen.Ed25519Ge.extended_Double_src =
    ["q projectiveGroupElement",
    "call p ToProjective u& q",
    "call q Double r"])
    ∧ (Gen.Ed25519Ge.equal_src =
    [":= x call uint32 ^ b c",
    "-- x",
    "return call int32 >> x 31"])
    ∧ (Gen.Ed25519Ge.negative_src =
    ["return & >> b 31 1"])
    ∧ (Gen.Ed25519Ge.selectPreComputed_src =
    ["minusT preComputedGroupElement",
    ":= bNegative call negative b",
    ":= bAbs - b << & u- bNegative b 1",
    "call t Zero",
    "for := i call int32 0 < i 8 ++ i { call t CMove u& index index base pos i call equal bAbs + i 1",
    "call minusT Neg t",
    "call t CMove u& minusT bNegative"])
    ∧ (Gen.Ed25519Ge.geScalarMultBase_src =
    ["e 64 int8",
    "range i v a { = index e * 2 i call int8 & v 15 = index e + * 2 i 1 call int8 & >> v 4 15",
    ":= carry call int8 0",
    "for := i 0 < i 63 ++ i { += index e i carry = carry >> + index e i 8 4 -= index e i << carry 4",
    "+= index e 63 carry",
    "call h Zero",
    "t preComputedGroupElement",
    "r completedGroupElement",
    "for := i call int32 1 < i 64 += i 2 { call selectPreComputed u& t / i 2 call int32 index e i call r MixedAdd h u& t call r ToExtended h",
    "s projectiveGroupElement",
    "call h Double u& r",
    "call r ToProjective u& s",
    "call s Double u& r",
    "call r ToProjective u& s",
    "call s Double u& r",
    "call r ToProjective u& s",
    "call s Double u& r",
    "call r ToExtended h",
    "for := i call int32 0 < i 64 += i 2 { call selectPreComputed u& t / i 2 call int32 index e i call r MixedAdd h u& t call r ToExtended h"])
    ∧ (Gen.Ed25519Ge.selectCached_src =
    [":= bNegative call negative b",
    ":= bAbs - b << & u- bNegative b 1",
    "call c Zero",
    "for := i call int32 0 < i 8 ++ i { call c CMove u& index Ai i call equal bAbs + i 1",
    "minusC cachedGroupElement",
    "call minusC Neg c",
    "call c CMove u& minusC bNegative"])
    ∧ (Gen.Ed25519Ge.geScalarMult_src =
    ["t completedGroupElement",
    "u extendedGroupElement",
    "r projectiveGroupElement",
    "c cachedGroupElement",
    "i int",
    "e 64 int8",
    "range i v a { = index e * 2 i call int8 & v 15 = index e + * 2 i 1 call int8 & >> v 4 15",
    ":= carry call int8 0",
    "for := i 0 < i 63 ++ i { += index e i carry = carry >> + index e i 8 4 -= index e i << carry 4",
    "+= index e 63 carry",
    "Ai 8 cachedGroupElement",
    "call A ToCached u& index Ai 0",
    "for := i 0 < i 7 ++ i { call t Add A u& index Ai i call t ToExtended u& u call u ToCached u& index Ai + i 1",
    "call u Zero",
    "call selectCached u& c u& Ai call int32 index e 63",
    "call t Add u& u u& c",
    "for = i 62 >= i 0 -- i { call t ToProjective u& r call r Double u& t call t ToProjective u& r call r Double u& t call t ToProjective u& r call r Double u& t call t ToProjective u& r call r Double u& t call t ToExtended u& u call selectCached u& c u& Ai call int32 index e i call t Add u& u u& c",
    "call t ToExtended h"])
    ∧ (Gen.Ed25519Ge.projective_fields = ["X", "Y", "Z"])
    ∧ (Gen.Ed25519Ge.extended_fields = ["X", "Y", "Z", "T"])
    ∧ (Gen.Ed25519Ge.completed_fields = ["X", "Y", "Z", "T"])
    ∧ (Gen.Ed25519Ge.precomp_fields = ["yPlusX", "yMinusX", "xy2d"])
    ∧ (Gen.Ed25519Ge.cached_fields = ["yPlusX", "yMinusX", "Z", "T2d"]) := by
  refine ⟨?_, ?_, ?_, ?_, ?_, ?_, ?_, ?_, ?_, ?_, ?_, ?_⟩ <;> rfl

example : Gen.Ed25519Ge.geScalarMult_src.length = 18 := rfl

/-- fe.go: feIsNegative, feIsNonZero (over feToBytes) and the byte positions load3 / load4 read -/
theorem fe_source_pinned :
    (Gen.Ed25519Fe.feIsNegative_src =
    ["s 32 byte",
    "call feToBytes u& s f",
    "return & index s 0 1"])
    ∧ (Gen.Ed25519Fe.feIsNonZero_src =
    ["s 32 byte",
    "call feToBytes u& s f",
    "x uint8",
    "range _ b s |= x b",
    "|= x >> x 4",
    "|= x >> x 2",
    "|= x >> x 1",
    "return call int32 & x 1"])
    ∧ (Gen.Ed25519Fe.load3_shifts = [0, 8, 16])
    ∧ (Gen.Ed25519Fe.load4_shifts = [0, 8, 16, 24]) := by
  refine ⟨?_, ?_, ?_, ?_⟩ <;> rfl

example : Gen.Ed25519Fe.feIsNegative_src.length = 3 := rfl

/-- point.go: the struct and every method the model covers; `Equal` compares all 32 bytes of the two encodings, `Mul` reduces a scalar with a[31] > 127 (fix ec5317f) and dispatches on `A == nil` -/
theorem point_source_pinned :
    (Gen.Ed25519Ge.point_MarshalSize_src =
    ["func() int",
    "return 32"])
    ∧ (Gen.Ed25519Ge.point_MarshalBinary_src =
    ["func() ([]byte, error)",
    "var b [32]byte",
    "P.ge.ToBytes(&b)",
    "return b[:], nil"])
    ∧ (Gen.Ed25519Ge.point_UnmarshalBinary_src =
    ["func(b []byte) error",
    "if !P.ge.FromBytes(b) { return errors.New(\"invalid Ed25519 curve point\") }",
    "return nil"])
    ∧ (Gen.Ed25519Ge.point_Equal_src =
    ["func(P2 kyber.Point) bool",
    "var b1, b2 [32]byte",
    "P.ge.ToBytes(&b1)",
    "P2.(*point).ge.ToBytes(&b2)",
    "for i := range b1 { if b1[i] != b2[i] { return false } }",
    "return true"])
    ∧ (Gen.Ed25519Ge.point_Set_src =
    ["func(P2 kyber.Point) kyber.Point",
    "P.ge = P2.(*point).ge",
    "return P"])
    ∧ (Gen.Ed25519Ge.point_Clone_src =
    ["func() kyber.Point",
    "return &point{ge: P.ge}"])
    ∧ (Gen.Ed25519Ge.point_Null_src =
    ["func() kyber.Point",
    "P.ge.Zero()",
    "return P"])
    ∧ (Gen.Ed25519Ge.point_Base_src =
    ["func() kyber.Point",
    "P.ge = baseext",
    "return P"])
    ∧ (Gen.Ed25519Ge.point_Add_src =
    ["func(P1, P2 kyber.Point) kyber.Point",
    "E1 := P1.(*point)",
    "E2 := P2.(*point)",
    "var t2 cachedGroupElement",
    "var r completedGroupElement",
    "E2.ge.ToCached(&t2)",
    "r.Add(&E1.ge, &t2)",
    "r.ToExtended(&P.ge)",
    "return P"])
    ∧ (Gen.Ed25519Ge.point_Sub_src =
    ["func(P1, P2 kyber.Point) kyber.Point",
    "E1 := P1.(*point)",
    "E2 := P2.(*point)",
    "var t2 cachedGroupElement",
    "var r completedGroupElement",
    "E2.ge.ToCached(&t2)",
    "r.Sub(&E1.ge, &t2)",
    "r.ToExtended(&P.ge)",
    "return P"])
    ∧ (Gen.Ed25519Ge.point_Neg_src =
    ["func(A kyber.Point) kyber.Point",
    "P.ge.Neg(&A.(*point).ge)",
    "return P"])
    ∧ (Gen.Ed25519Ge.point_Mul_src =
    ["func(s kyber.Scalar, A kyber.Point) kyber.Point",
    "a := &s.(*scalar).v",
    "if a[31] > 127 { var wide [64]byte var red [32]byte copy(wide[:], a[:]) scReduce(&red, &wide) a = &red }",
    "if A == nil { geScalarMultBase(&P.ge, a) } else { if P.varTime { geScalarMultVartime(&P.ge, a, &A.(*point).ge) } else { geScalarMult(&P.ge, a, &A.(*point).ge) } }",
    "return P"])
    ∧ (Gen.Ed25519Ge.point_type_src = "point struct { ge extendedGroupElement varTime bool }") := by
  refine ⟨?_, ?_, ?_, ?_, ?_, ?_, ?_, ?_, ?_, ?_, ?_, ?_, ?_⟩ <;> rfl

example : Gen.Ed25519Ge.point_Equal_src.length = 6 := rfl

/-- scalar.go: the struct and the kyber.Scalar wrappers over the translated limb routines -/
theorem scalar_wrappers_source_pinned :
    (Gen.Ed25519Ge.scalar_Equal_src =
    ["func(s2 kyber.Scalar) bool",
    "v1 := s.v[:]",
    "v2 := s2.(*scalar).v[:]",
    "return subtle.ConstantTimeCompare(v1, v2) != 0"])
    ∧ (Gen.Ed25519Ge.scalar_Set_src =
    ["func(a kyber.Scalar) kyber.Scalar",
    "s.v = a.(*scalar).v",
    "return s"])
    ∧ (Gen.Ed25519Ge.scalar_Clone_src =
    ["func() kyber.Scalar",
    "s2 := *s",
    "return &s2"])
    ∧ (Gen.Ed25519Ge.scalar_setInt_src =
    ["func(i *mod.Int) kyber.Scalar",
    "b := i.LittleEndian(32, 32)",
    "copy(s.v[:], b)",
    "return s"])
    ∧ (Gen.Ed25519Ge.scalar_SetInt64_src =
    ["func(v int64) kyber.Scalar",
    "return s.setInt(mod.NewInt64(v, primeOrder))"])
    ∧ (Gen.Ed25519Ge.scalar_toInt_src =
    ["func() *mod.Int",
    "return mod.NewIntBytes(s.v[:], primeOrder, mod.LittleEndian)"])
    ∧ (Gen.Ed25519Ge.scalar_Zero_src =
    ["func() kyber.Scalar",
    "s.v = [32]byte{0}",
    "return s"])
    ∧ (Gen.Ed25519Ge.scalar_One_src =
    ["func() kyber.Scalar",
    "s.v = [32]byte{1}",
    "return s"])
    ∧ (Gen.Ed25519Ge.scalar_Add_src =
    ["func(a, b kyber.Scalar) kyber.Scalar",
    "scAdd(&s.v, &a.(*scalar).v, &b.(*scalar).v)",
    "return s"])
    ∧ (Gen.Ed25519Ge.scalar_Sub_src =
    ["func(a, b kyber.Scalar) kyber.Scalar",
    "scSub(&s.v, &a.(*scalar).v, &b.(*scalar).v)",
    "return s"])
    ∧ (Gen.Ed25519Ge.scalar_Neg_src =
    ["func(a kyber.Scalar) kyber.Scalar",
    "var z scalar",
    "z.Zero()",
    "scSub(&s.v, &z.v, &a.(*scalar).v)",
    "return s"])
    ∧ (Gen.Ed25519Ge.scalar_Mul_src =
    ["func(a, b kyber.Scalar) kyber.Scalar",
    "scMul(&s.v, &a.(*scalar).v, &b.(*scalar).v)",
    "return s"])
    ∧ (Gen.Ed25519Ge.scalar_Div_src =
    ["func(a, b kyber.Scalar) kyber.Scalar",
    "var i scalar",
    "i.Inv(b)",
    "scMul(&s.v, &a.(*scalar).v, &i.v)",
    "return s"])
    ∧ (Gen.Ed25519Ge.scalar_Inv_src =
    ["func(a kyber.Scalar) kyber.Scalar",
    "var res scalar",
    "res.One()",
    "ac := a.(*scalar)",
    "for i := 255; i >= 0; i-- { bit := lMinus2.Bit(i) scMul(&res.v, &res.v, &res.v) if bit == 1 { scMul(&res.v, &res.v, &ac.v) } }",
    "s.v = res.v",
    "return s"])
    ∧ (Gen.Ed25519Ge.scalar_Pick_src =
    ["func(rand cipher.Stream) kyber.Scalar",
    "i := mod.NewInt(random.Int(primeOrder, rand), primeOrder)",
    "return s.setInt(i)"])
    ∧ (Gen.Ed25519Ge.scalar_SetBytes_src =
    ["func(b []byte) kyber.Scalar",
    "return s.setInt(mod.NewIntBytes(b, primeOrder, mod.LittleEndian))"])
    ∧ (Gen.Ed25519Ge.scalar_MarshalSize_src =
    ["func() int",
    "return 32"])
    ∧ (Gen.Ed25519Ge.scalar_MarshalBinary_src =
    ["func() ([]byte, error)",
    "return s.toInt().MarshalBinary()"])
    ∧ (Gen.Ed25519Ge.scalar_UnmarshalBinary_src =
    ["func(buf []byte) error",
    "if len(buf) != 32 { return errors.New(\"wrong size buffer\") }",
    "copy(s.v[:], buf)",
    "return nil"])
    ∧ (Gen.Ed25519Ge.scalar_type_src = "scalar struct { v [32]byte }") := by
  refine ⟨?_, ?_, ?_, ?_, ?_, ?_, ?_, ?_, ?_, ?_, ?_, ?_, ?_, ?_, ?_, ?_, ?_, ?_, ?_, ?_⟩ <;> rfl

example : Gen.Ed25519Ge.scalar_Inv_src.length = 7 := rfl

/-- MarshalTo / UnmarshalFrom of point.go and scalar.go forward to group/internal/marshalling, whose four functions write
`MarshalBinary()` to the writer, resp. `io.ReadFull` `MarshalSize()` bytes and hand them to `UnmarshalBinary` (a
`cipher.Stream` reader means `Pick`): the text the models `Api.marshalTo`, `Api.unmarshalFrom` and `Schnorr.sign` / `challenge`
(which treat MarshalTo as "append the encoding") were written against -/
theorem io_wrappers_source_pinned :
    (Gen.Ed25519Ge.point_MarshalTo_src =
    ["func(w io.Writer) (int, error)",
    "return marshalling.PointMarshalTo(P, w)"])
    ∧ (Gen.Ed25519Ge.point_UnmarshalFrom_src =
    ["func(r io.Reader) (int, error)",
    "return marshalling.PointUnmarshalFrom(P, r)"])
    ∧ (Gen.Ed25519Ge.scalar_MarshalTo_src =
    ["func(w io.Writer) (int, error)",
    "return marshalling.ScalarMarshalTo(s, w)"])
    ∧ (Gen.Ed25519Ge.scalar_UnmarshalFrom_src =
    ["func(r io.Reader) (int, error)",
    "return marshalling.ScalarUnmarshalFrom(s, r)"])
    ∧ (Gen.Ed25519Ge.marshalling_PointMarshalTo_src =
    ["func(p kyber.Point, w io.Writer) (int, error)",
    "buf, err := p.MarshalBinary()",
    "if err != nil { return 0, err }",
    "return w.Write(buf)"])
    ∧ (Gen.Ed25519Ge.marshalling_PointUnmarshalFrom_src =
    ["func(p kyber.Point, r io.Reader) (int, error)",
    "if strm, ok := r.(cipher.Stream); ok { p.Pick(strm) return -1, nil }",
    "buf := make([]byte, p.MarshalSize())",
    "n, err := io.ReadFull(r, buf)",
    "if err != nil { return n, err }",
    "return n, p.UnmarshalBinary(buf)"])
    ∧ (Gen.Ed25519Ge.marshalling_ScalarMarshalTo_src =
    ["func(s kyber.Scalar, w io.Writer) (int, error)",
    "buf, err := s.MarshalBinary()",
    "if err != nil { return 0, err }",
    "return w.Write(buf)"])
    ∧ (Gen.Ed25519Ge.marshalling_ScalarUnmarshalFrom_src =
    ["func(s kyber.Scalar, r io.Reader) (int, error)",
    "if strm, ok := r.(cipher.Stream); ok { s.Pick(strm) return -1, nil }",
    "buf := make([]byte, s.MarshalSize())",
    "n, err := io.ReadFull(r, buf)",
    "if err != nil { return n, err }",
    "return n, s.UnmarshalBinary(buf)"]) := by
  refine ⟨?_, ?_, ?_, ?_, ?_, ?_, ?_, ?_⟩ <;> rfl

example : Gen.Ed25519Ge.marshalling_PointUnmarshalFrom_src.length = 6 := rfl

/-- const.go: `prime` is 2^255 − 19 and `primeOrder` is ℓ; `bi` has its eight entries -/
theorem const_pins :
    Gen.Ed25519Ge.c_prime = 2 ^ 255 - 19 ∧ Gen.Ed25519Ge.c_primeOrder = Dos.Ed25519.ell ∧ Gen.Ed25519Ge.c_bi.length = 8 := by
  refine ⟨by decide, by decide, rfl⟩

example : Gen.Ed25519Ge.c_primeOrder % 2 = 1 := by decide

end Dos.Props.C20Pins

package c12

import (
	"context"
	"crypto/sha256"
	"fmt"
	"strconv"
	"strings"
	"sync"
	"time"

	"github.com/DOSNetwork/core/log"
	"github.com/DOSNetwork/core/share"
	dkg "github.com/DOSNetwork/core/share/dkg/pedersen"
	vss "github.com/DOSNetwork/core/share/vss/pedersen"
	"github.com/DOSNetwork/core/suites"
	"github.com/dedis/kyber"
	"github.com/dedis/kyber/sign/schnorr"

	"verifharness/internal/h"
)

var (
	suite    = suites.MustFind("bn256")
	initOnce sync.Once
)

func setup() {
	initOnce.Do(func() { log.Init([]byte("verifc12")) })
}

// deterministic scalar / key j (so that a case line means the same thing in every process)
func scalarOf(tag string, j int) kyber.Scalar {
	d := sha256.Sum256([]byte(fmt.Sprintf("c12-%s-%d", tag, j)))
	return suite.Scalar().SetBytes(d[:])
}
func pubOf(s kyber.Scalar) kyber.Point { return suite.Point().Mul(s, nil) }
func mustBin(p kyber.Point) []byte {
	b, err := p.MarshalBinary()
	if err != nil {
		panic(err)
	}
	return b
}

const stepWait = 5 * time.Second

func splitList(s, sep string) []string {
	if s == "-" {
		return nil
	}
	return strings.Split(s, sep)
}

func atoi(s string) int { return h.Atoi(s) }

// ---------------------------------------------------------------- sess

func opSess(evs string) (string, string) {
	s := dkg.VerifPNewSession()
	chans := map[string]chan []interface{}{}
	var outs []string
	poll := func() (int, bool) {
		for sid, c := range chans {
			select {
			case l, ok := <-c:
				delete(chans, sid)
				if ok {
					return len(l), true
				}
			default:
			}
		}
		return 0, false
	}
	for _, ev := range splitList(evs, ";") {
		w := strings.Split(ev, ":")
		switch w[0] {
		case "m":
			sid, it := w[1], w[2]
			var content interface{}
			switch it[0] {
			case 'p':
				content = &dkg.PublicKey{SessionId: sid, Index: uint32(atoi(it[1:]))}
			case 'd':
				content = &dkg.Deal{SessionId: sid, Index: uint32(atoi(it[1:]))}
			default: // r<dealer>.<responder|n>
				f := strings.Split(it[1:], ".")
				r := &dkg.Response{SessionId: sid, Index: uint32(atoi(f[0]))}
				if f[1] != "n" {
					r.Response = &vss.Response{Index: uint32(atoi(f[1]))}
				}
				content = r
			}
			b0 := s.Buffered(sid)
			s.PeerMsg(sid, content)
			if k, fired := poll(); fired {
				outs = append(outs, fmt.Sprintf("ok fire %d", k))
			} else if s.Buffered(sid) == b0 {
				outs = append(outs, "ok dup")
			} else {
				outs = append(outs, fmt.Sprintf("ok buf %d", s.Buffered(sid)))
			}
		case "r":
			sid := w[1]
			num, _ := strconv.Atoi(w[2])
			c := make(chan []interface{}, 1)
			chans[sid] = c
			s.Request(context.Background(), 0, sid, num, c)
			if k, fired := poll(); fired {
				outs = append(outs, fmt.Sprintf("ok fire %d", k))
			} else {
				outs = append(outs, fmt.Sprintf("ok reg %d", s.Buffered(sid)))
			}
		default:
			panic("bad sess event " + ev)
		}
	}
	// still serving: a fresh session completes
	oracle := ""
	c := make(chan []interface{}, 1)
	s.Request(context.Background(), 0, "zz-after", 1, c)
	s.PeerMsg("zz-after", &dkg.PublicKey{SessionId: "zz-after", Index: 7})
	select {
	case l, ok := <-c:
		if !ok || len(l) != 1 {
			oracle = "not-serving-sess: a fresh session did not deliver its message"
		}
	default:
		oracle = "not-serving-sess: a fresh session did not fire"
	}
	return strings.Join(outs, ";"), oracle
}

// ---------------------------------------------------------------- xpub

// elemOf: g<i> key of member i announced by member i, f<i> announced by somebody else, k<i> without Publickey, o another type
func elemOf(e string, ids [][]byte) interface{} {
	if e == "o" {
		return &dkg.Deal{Index: 1}
	}
	idx := atoi(e[1:])
	pk := &dkg.PublicKey{Index: uint32(idx)}
	switch e[0] {
	case 'k':
		return pk
	case 'f':
		pk.Publickey = &vss.PublicKey{Binary: []byte{0}, SenderId: []byte("somebody else")}
	default:
		pk.Publickey = &vss.PublicKey{Binary: []byte{0}}
		if idx < len(ids) {
			pk.Publickey.SenderId = ids[idx]
		}
	}
	return pk
}

func opXpub(ns, self, batches string) (string, string) {
	setup()
	n := atoi(ns)
	ctx, cancel := context.WithCancel(context.Background())
	defer cancel()
	selfc := make(chan interface{}, 1)
	peerc := make(chan []interface{})
	ids := make([][]byte, n)
	for i := range ids {
		ids[i] = []byte{byte(i)}
	}
	out, errc := dkg.VerifPExchangePub(ctx, selfc, peerc, ids, "s")
	selfc <- elemOf(self, ids)
	go func() {
		defer close(peerc)
		for _, b := range splitList(batches, "|") {
			var l []interface{}
			for _, e := range splitList(b, ",") {
				l = append(l, elemOf(e, ids))
			}
			select {
			case peerc <- l:
			case <-ctx.Done():
				return
			}
		}
	}()
	res := "dropped"
	to := time.After(stepWait)
	for out != nil || errc != nil {
		select {
		case l, ok := <-out:
			if !ok {
				out = nil
				continue
			}
			res = fmt.Sprintf("ok %d", len(l))
		case e, ok := <-errc:
			if !ok {
				errc = nil
				continue
			}
			if strings.Contains(e.Error(), "casting") {
				res = "err cast"
			} else if strings.Contains(e.Error(), dkg.ErrForeignPubKey.Error()) {
				res = "err foreign"
			} else {
				res = "err other:" + h.OneLine(e.Error())
			}
		case <-to:
			return "hang", "hang-xpub: exchangePub did not finish"
		}
	}
	return res, ""
}

// ---------------------------------------------------------------- gdkg

func keyBytes(tag string, ownSec kyber.Scalar) *vss.PublicKey {
	switch {
	case tag == "nil":
		return nil
	case tag == "own":
		return &vss.PublicKey{Binary: mustBin(pubOf(ownSec))}
	case tag == "id":
		return &vss.PublicKey{Binary: []byte{0}}
	case tag == "bad":
		return &vss.PublicKey{Binary: []byte{2, 3, 4}}
	case strings.HasPrefix(tag, "p"):
		return &vss.PublicKey{Binary: mustBin(pubOf(scalarOf("peer", atoi(tag[1:]))))}
	}
	panic("bad key tag " + tag)
}

func dkgErrKind(e error) string {
	s := e.Error()
	switch {
	case strings.Contains(s, "without key or with index"):
		return "badpk"
	case strings.Contains(s, "duplicated public key index"):
		return "dup"
	case strings.Contains(s, "duplicated share public key"):
		return "dupkey"
	case strings.Contains(s, "UnmarshalBinary failed"):
		return "unmarshal"
	case strings.Contains(s, "own public key not found"):
		return "notfound"
	case strings.Contains(s, "invalid"):
		return "badt"
	case strings.Contains(s, "casting failed"):
		return "cast"
	}
	return "other:" + h.OneLine(s)
}

func opGdkg(ns, pubs string) (string, string) {
	setup()
	n := atoi(ns)
	own := scalarOf("own", 0)
	var list []*dkg.PublicKey
	for _, p := range splitList(pubs, ",") {
		w := strings.Split(p, ":")
		list = append(list, &dkg.PublicKey{SessionId: "s", Index: uint32(atoi(w[0])), Publickey: keyBytes(w[1], own)})
	}
	ctx, cancel := context.WithCancel(context.Background())
	defer cancel()
	secrc := make(chan kyber.Scalar, 1)
	pubc := make(chan []*dkg.PublicKey, 1)
	secrc <- own
	pubc <- list
	out, errc := dkg.VerifGenDistKeyGenerator(ctx, secrc, pubc, n, suite, "s")
	res := "dropped"
	to := time.After(stepWait)
	for out != nil || errc != nil {
		select {
		case g, ok := <-out:
			if !ok {
				out = nil
				continue
			}
			if g != nil {
				res = "ok"
			}
		case e, ok := <-errc:
			if !ok {
				errc = nil
				continue
			}
			res = "err " + dkgErrKind(e)
		case <-to:
			return "hang", "hang-gdkg: genDistKeyGenerator did not finish"
		}
	}
	return res, ""
}

// ---------------------------------------------------------------- dkgs (ProcessDeal / ProcessResponse)

type dkgWorld struct {
	n, me int
	secs  []kyber.Scalar
	pubs  []kyber.Point
	g     *dkg.DistKeyGenerator
}

func newWorld(n, me int) *dkgWorld {
	w := &dkgWorld{n: n, me: me}
	for i := 0; i < n; i++ {
		s := scalarOf("member", i)
		w.secs = append(w.secs, s)
		w.pubs = append(w.pubs, pubOf(s))
	}
	g, err := dkg.NewDistKeyGenerator(suite, w.secs[me], w.pubs, n/2+1)
	if err != nil {
		panic("harness: NewDistKeyGenerator: " + err.Error())
	}
	// as genDealsAndSend does before the deal stage: own deal processed
	if _, err := g.Deals(); err != nil {
		panic("harness: Deals: " + err.Error())
	}
	w.g = g
	return w
}

// flipLast damages the scalar half of a Schnorr signature (the point half would fail to decode instead of failing to verify)
func flipLast(b []byte) []byte {
	c := append([]byte(nil), b...)
	if len(c) == 0 {
		return []byte{1}
	}
	c[len(c)-1] ^= 0x01
	return c
}

func flip(b []byte) []byte {
	c := append([]byte(nil), b...)
	if len(c) == 0 {
		return []byte{1}
	}
	c[len(c)/2] ^= 0x40
	return c
}

// buildEnc turns the abstract description into a concrete EncryptedDeal from dealer idx to w.me
func (w *dkgWorld) buildEnc(idx int, spec string) *vss.EncryptedDeal {
	if spec == "nil" {
		return nil
	}
	f := strings.Split(spec, "/")
	sigOK, dhOK, nl := f[1] == "1", f[2] == "1", atoi(f[3])
	dealer := idx
	if dealer >= w.n {
		dealer = 0
	}
	dsec, dpub := w.secs[dealer], w.pubs[dealer]
	var e *vss.EncryptedDeal
	var err error
	switch f[4] {
	case "F", "U":
		e, err = vss.VerifSealBytes(suite, dsec, w.pubs, w.me, []byte{1, 2, 3, 4, 5})
		if err == nil && f[4] == "F" {
			e.Cipher = flip(e.Cipher)
		}
	case "P":
		shareSpec, t, sidOK, shareOK := f[5], atoi(f[6]), f[7] == "1", f[8] == "1"
		tt := t
		if tt < 1 {
			tt = 1
		}
		if tt > w.n+2 {
			tt = w.n + 2
		}
		coeffs := make([]kyber.Scalar, tt)
		for i := range coeffs {
			coeffs[i] = scalarOf(fmt.Sprintf("coef-%d", idx), i)
		}
		poly := share.CoefficientsToPriPoly(suite, coeffs)
		_, commits := poly.Commit(suite.Point().Base()).Info()
		d := &vss.Deal{T: uint32(t), Commitments: commits}
		if sidOK {
			d.SessionID, _ = vss.VerifSessionID(suite, dpub, w.pubs, commits, t)
		} else {
			d.SessionID = []byte("not the session id of these commitments")
		}
		if shareSpec != "N" {
			iv := strings.Split(shareSpec[1:], "V")
			i := atoi(iv[0])
			ps := &share.PriShare{I: i}
			if iv[1] == "1" {
				if shareOK {
					ps.V = poly.Eval(i).V
				} else {
					ps.V = scalarOf("wrongshare", i)
				}
			}
			d.SecShare = ps
		}
		e, err = vss.VerifSeal(suite, dsec, w.pubs, w.me, d)
	default:
		panic("bad enc spec " + spec)
	}
	if err != nil {
		panic("harness: seal: " + err.Error())
	}
	if !dhOK {
		e.DHKey = []byte{2, 9, 9, 9, 9}
		e.Signature, _ = schnorr.Sign(suite, dsec, e.DHKey)
	}
	if !sigOK {
		e.Signature = flipLast(e.Signature)
	}
	e.Nonce = make([]byte, nl)
	return e
}

func dealErrKind(e error) string {
	s := e.Error()
	switch {
	case strings.Contains(s, "dist deal out of bounds"):
		return "oob"
	case strings.Contains(s, "already received dist deal"):
		return "already"
	case strings.Contains(s, "no encrypted deal"):
		return "nodeal"
	case strings.Contains(s, "schnorr"):
		return "sig"
	case strings.Contains(s, "bn256"):
		return "dhkey"
	case strings.Contains(s, "nonce length"):
		return "nonce"
	case strings.Contains(s, "message authentication failed"):
		return "open"
	case strings.Contains(s, "deal without a share"):
		return "noshare"
	case strings.Contains(s, "wrong index from deal"):
		return "wrongindex"
	case strings.Contains(s, "rotobuf") || strings.Contains(s, "decoding") || strings.Contains(s, "EOF"):
		return "decode"
	}
	return "other:" + h.OneLine(s)
}

func respErrKind(e error) string {
	s := e.Error()
	switch {
	case strings.Contains(s, "without a response"):
		return "noresp"
	case strings.Contains(s, "no deal for it"):
		return "nodeal"
	case strings.Contains(s, "need to receive deal before response"):
		return "nodealyet"
	case strings.Contains(s, "inconsistent sessionID"):
		return "sid"
	case strings.Contains(s, "out of bounds"):
		return "oob"
	case strings.Contains(s, "schnorr"), strings.Contains(s, "bn256"):
		return "sig"
	case strings.Contains(s, "already existing response"):
		return "dupresp"
	}
	return "other:" + h.OneLine(s)
}

func (w *dkgWorld) buildResp(idx int, spec string) *vss.Response {
	if spec == "nil" {
		return nil
	}
	f := strings.Split(spec, "/")
	sidOK, ri, sigOK, approve := f[1] == "1", atoi(f[2]), f[3] == "1", f[4] == "1"
	r := &vss.Response{Index: uint32(ri), Status: approve}
	var sid []byte
	if v := w.g.VerifVerifier(uint32(idx)); v != nil {
		sid = v.VerifAggSessionID()
	}
	if sidOK && sid != nil {
		r.SessionID = sid
	} else if sidOK {
		r.SessionID = nil
	} else {
		r.SessionID = []byte("another session")
	}
	signer := ri
	if signer >= w.n {
		signer = 0
	}
	r.Signature, _ = schnorr.Sign(suite, w.secs[signer], r.Hash(suite))
	if !sigOK {
		r.Signature = flipLast(r.Signature)
	}
	return r
}

func opDkgs(ns, mes, ops string) (string, string) {
	setup()
	w := newWorld(atoi(ns), atoi(mes))
	var outs []string
	for _, op := range splitList(ops, ";") {
		f := strings.SplitN(op, ":", 3)
		idx := atoi(f[1])
		switch f[0] {
		case "d":
			resp, err := w.g.ProcessDeal(&dkg.Deal{SessionId: "s", Index: uint32(idx), Deal: w.buildEnc(idx, f[2])})
			switch {
			case err != nil:
				outs = append(outs, "err "+dealErrKind(err))
			case resp.Response.Status == vss.StatusApproval:
				outs = append(outs, "ok approval")
			default:
				outs = append(outs, "err noapproval")
			}
		case "r":
			j, err := w.g.ProcessResponse(&dkg.Response{SessionId: "s", Index: uint32(idx), Response: w.buildResp(idx, f[2])})
			switch {
			case err != nil:
				outs = append(outs, "err "+respErrKind(err))
			case j != nil:
				outs = append(outs, "ok justification")
			default:
				outs = append(outs, "ok")
			}
		default:
			panic("bad dkgs op " + op)
		}
	}
	// still serving: an honest deal from a member that has none yet is approved
	oracle := ""
	for idx := 0; idx < w.n; idx++ {
		if idx != w.me && w.g.VerifVerifier(uint32(idx)) == nil {
			t := w.n/2 + 1
			resp, err := w.g.ProcessDeal(&dkg.Deal{Index: uint32(idx), Deal: w.buildEnc(idx, fmt.Sprintf("E/1/1/12/P/I%dV1/%d/1/1", w.me, t))})
			if err != nil || resp.Response.Status != vss.StatusApproval {
				oracle = fmt.Sprintf("not-serving-dkgs: honest deal from %d after the sequence: err=%v", idx, err)
			}
			break
		}
	}
	return strings.Join(outs, ";"), oracle
}

// ---------------------------------------------------------------- stage entry (nil generator) and casts

func opStage(which, have, el string) (string, string) {
	setup()
	n := 3
	castErr := false
	run := func() bool { // one attempt; returns false on hang
		ctx, cancel := context.WithCancel(context.Background())
		defer cancel()
		dkgc := make(chan *dkg.DistKeyGenerator, 1)
		inc := make(chan []interface{}, 1)
		if have == "1" {
			dkgc <- newWorld(n, 0).g
		} else {
			cancel() // the context is done before a generator arrives
		}
		var item interface{}
		if which == "deals" {
			item = &dkg.Deal{Index: 99}
			if el == "o" {
				item = &dkg.PublicKey{}
			}
		} else {
			item = &dkg.Response{Index: 99, Response: &vss.Response{}}
			if el == "o" {
				item = &dkg.Deal{}
			}
		}
		inc <- []interface{}{item}
		var errc chan error
		var o1 chan *dkg.DistKeyGenerator
		var o2 chan interface{}
		if which == "deals" {
			o1, o2, errc = dkg.VerifGetAndProcessDeals(ctx, dkgc, inc, "s")
		} else {
			o1, errc = dkg.VerifGetAndProcessResponses(ctx, dkgc, inc, "s")
		}
		to := time.After(stepWait)
		for o1 != nil || o2 != nil || errc != nil {
			select {
			case _, ok := <-o1:
				if !ok {
					o1 = nil
				}
			case _, ok := <-o2:
				if !ok {
					o2 = nil
				}
			case e, ok := <-errc:
				if !ok {
					errc = nil
				} else if strings.Contains(e.Error(), "casting failed") {
					castErr = true
				}
			case <-to:
				return false
			}
		}
		return true
	}
	tries := 1
	if have == "0" {
		tries = 24 // the select between ctx.Done and the ready input is random
	}
	for i := 0; i < tries; i++ {
		if !run() {
			return "hang", "hang-stage: stage did not finish"
		}
	}
	if have == "0" && !castErr {
		return "dropped", ""
	}
	if castErr {
		return "err cast", ""
	}
	return "ok", ""
}

// ---------------------------------------------------------------- dpk, tobig

func opDpk(l string) (string, string) {
	var p kyber.Point
	if atoi(l) < 129 {
		p = suite.Point().Null()
	} else {
		p = pubOf(scalarOf("gpk", 1))
	}
	if _, err := dkg.VerifPDecodePubKey(p); err != nil {
		if strings.Contains(err.Error(), "infinity") {
			return "err infinity", ""
		}
		return "err other:" + h.OneLine(err.Error()), ""
	}
	return "ok", ""
}

func opTobig(l string) (string, string) {
	b := make([]byte, atoi(l))
	for i := range b {
		b[i] = 0xff
	}
	x, y := (&vss.Signature{Signature: b}).ToBigInt()
	if x.Sign() == 0 && y.Sign() == 0 && len(b) > 0 {
		return "ok zero", ""
	}
	if len(b) == 0 {
		return "ok zero", ""
	}
	return "ok", ""
}

/-
C10 / E2 — abstract syntax of the amd64 subset used by group/bn256/gfp.s.
The data (`Gen/Bn256Asm.lean`) is regenerated from the Go assembler's own
listing on every run; the semantics is `Model/AsmInterp.lean`.
-/
namespace Dos.Asm

/-- the registers gfp.s touches (anything else is an extraction error) -/
inductive Reg
  | AX | BX | DX | DI | SI | R8 | R9 | R10 | R11 | R12 | R13 | R14 | R15
  deriving DecidableEq, Repr, Inhabited

/-- package-level variables the code reads (never writes) -/
inductive Glob
  | p2 | np | hasBMI2
  deriving DecidableEq, Repr

inductive Opd
  | imm (n : Nat)                  -- $n
  | reg (r : Reg)
  | mem (base : Reg) (off : Nat)   -- off(base): base holds one of the argument pointers
  | frame (off : Nat)              -- off(SP): the function's local frame
  | arg (off : Nat)                -- name+off(FP): pointer argument slot (0 = c, 8 = a, 16 = b)
  | glob (g : Glob) (off : Nat)    -- ·g+off(SB)
  deriving DecidableEq, Repr

/-- exactly the twelve opcodes of the listing -/
inductive Instr
  | movq (s d : Opd)
  | addq (s d : Opd)
  | adcq (s d : Opd)
  | subq (s d : Opd)
  | sbbq (s d : Opd)
  | mulq (s : Opd)                     -- DX:AX := AX * s
  | mulxq (s : Opd) (lo hi : Reg)      -- hi:lo := DX * s, flags untouched
  | cmovqcc (s : Opd) (d : Reg)        -- if CF = 0 then d := s
  | cmpb (a b : Opd)                   -- flags of (a - b) on bytes; only ZF is consumed (by JEQ)
  | jeq (target : Nat)                 -- index into the function's instruction list
  | jmp (target : Nat)
  | ret
  deriving DecidableEq, Repr

structure Func where
  name : String
  frame : Nat     -- bytes of local frame
  args : Nat      -- bytes of arguments
  code : List Instr

end Dos.Asm

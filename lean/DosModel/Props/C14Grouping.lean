/-
C14, continued — the key-generation pipeline (`handleGrouping` + `pdkg.Grouping` + `pdkg.Loop`),
regenerated from /repo on every run, and its recorded finding.  (Separate file: the rules are
evaluated by the kernel on a 350-node IR; Lake checks this file in parallel with Props/C14.lean.)
-/
import DosModel.Props.C14

namespace Dos.Props.C14
open Dos Dos.Pipe Dos.Gen.Pipes

theorem grouping_wf : subsetOf (violations grouping) Gen.PipeKnown.sites = true := by decide +kernel

/-- the key-generation pipeline (`handleGrouping` + `pdkg.Grouping` + `pdkg.Loop`): no channel panic
is reachable, and after the deadline a terminating schedule exists from every reachable state (EF;
termination with probability 1 under the fairness assumption, see Props/C14.lean) -/
theorem grouping_pipeline_can_always_terminate_and_never_crashes :
    NoCrash grouping ∧ ∀ s, Reach grouping s → s.ctxDone 0 = true → ∃ s', Path grouping s s' ∧ Quiet grouping s' := by
  have h := pipeline_can_always_terminate_and_never_crashes _ grouping_wf
  exact ⟨h.1, fun s hr hc => by obtain ⟨s', a, b, _⟩ := h.2 s hr hc; exact ⟨s', a, b⟩⟩

/-! ## every channel of a key-generation session is closed in the end

The full statement of the property also asks that every channel of a session is closed in the end:
rule W7 (a static pipeline goroutine closes it on every path, or its creator closes it or hands it
to the collector loop, which can always get to the close by its own ticker and the request's
context).  On this tree no violation at all is left in the key-generation pipeline (the reply
channels of incomplete requests are released by the expiry sweep of pdkg.Loop, fix 8d5de85). -/

/-- the full property for the key-generation pipeline: no rule W0–W7 is violated -/
theorem grouping_full : violations grouping = [] := by
  have h := grouping_wf
  have hk : Gen.PipeKnown.sites = [] := by decide
  rw [hk] at h
  unfold subsetOf at h
  cases hv : violations grouping with
  | nil => rfl
  | cons v vs =>
    rw [hv] at h
    simp at h

/-- the same for the three query pipelines -/
theorem query_full : violations query_sys = [] ∧ violations query_user = [] ∧ violations query_url = [] := by
  have hk : Gen.PipeKnown.sites = [] := by decide
  have f : ∀ p, subsetOf (violations p) Gen.PipeKnown.sites = true → violations p = [] := by
    intro p h
    rw [hk] at h
    unfold subsetOf at h
    cases hv : violations p with
    | nil => rfl
    | cons v vs => rw [hv] at h; simp at h
  exact ⟨f _ query_sys_wf, f _ query_user_wf, f _ query_url_wf⟩

end Dos.Props.C14

/-
C14 — pipeline IR (E4).  A pipeline is a finite set of goroutines, each a control-flow
graph over channel / wait-group / context operations, as emitted by
`go/extract/pipeir` from the goroutine bodies of /repo.  Core Lean only.

Representation (DESIGN §11): one CFG per goroutine, nodes addressed by their index
(`Pc`), deferred statements already inlined on every exit edge by the extractor,
data abstracted away (an `if` on data is a `branch`), maps keyed by the request id
folded into the program counter.  Blocking operations are all `sel` nodes: a bare
send is `sel [send c n]`, a bare receive / `range` head is `sel [recv c nOk nClosed]`.
-/
namespace Dos.Pipe

abbrev Ch := Nat   -- channel index into `Pipeline.chans`
abbrev Pc := Nat   -- node index into `Goroutine.nodes`
abbrev Gi := Nat   -- goroutine index into `Pipeline.gs`

/-- one alternative of a `select` (with its continuation) -/
inductive Alt where
  /-- `v, ok := <-c` : continue at `nOk` with a value, at `nCl` when `c` is closed and drained -/
  | recv (c : Ch) (nOk nCl : Pc)
  /-- `c <- v` -/
  | send (c : Ch) (n : Pc)
  /-- `<-ctx_k.Done()` -/
  | ctx (k : Nat) (n : Pc)
  /-- a timer / ticker channel (`<-time.After`, `<-ticker.C`): may fire at any moment -/
  | tick (n : Pc)
  /-- `default:` : taken only when no other alternative is ready -/
  | dflt (n : Pc)
  deriving DecidableEq, Repr, Inhabited, Hashable

inductive Node where
  | sel (alts : List Alt)
  | close (c : Ch) (n : Pc)
  /-- internal choice: data-dependent `if`/`switch`, outcome of a (terminating) call,
      head of a bounded data loop -/
  | branch (ns : List Pc)
  | wgDone (w : Nat) (n : Pc)
  | wgWait (w : Nat) (n : Pc)
  /-- `go G` for a goroutine that is not started by the constructor -/
  | spawn (g : Gi) (n : Pc)
  /-- `cancel()` of context `k` -/
  | cancel (k : Nat) (n : Pc)
  /-- function return / end of body (after the inlined deferred statements) -/
  | exit
  deriving DecidableEq, Repr, Inhabited, Hashable

/-- labels of CFG edges: what the goroutine does when it moves along the edge -/
inductive Lab where
  | tau | tick | dflt
  | recvOk (c : Ch) | recvCl (c : Ch) | send (c : Ch)
  | ctx (k : Nat)
  | close (c : Ch)
  | wgDone (w : Nat) | wgWait (w : Nat)
  | spawn (g : Gi) | cancel (k : Nat)
  deriving DecidableEq, Repr, Inhabited, Hashable

def Alt.edges : Alt → List (Lab × Pc)
  | .recv c a b => [(.recvOk c, a), (.recvCl c, b)]
  | .send c n => [(.send c, n)]
  | .ctx k n => [(.ctx k, n)]
  | .tick n => [(.tick, n)]
  | .dflt n => [(.dflt, n)]

def Node.edges : Node → List (Lab × Pc)
  | .sel alts => alts.flatMap Alt.edges
  | .close c n => [(.close c, n)]
  | .branch ns => ns.map (fun n => (.tau, n))
  | .wgDone w n => [(.wgDone w, n)]
  | .wgWait w n => [(.wgWait w, n)]
  | .spawn g n => [(.spawn g, n)]
  | .cancel k n => [(.cancel k, n)]
  | .exit => []

structure Goroutine where
  name : String
  nodes : List Node
  /-- source position / description per node (reports only) -/
  sites : List String := []
  /-- for a `branch` node: per successor, the data decisions (text, outcome) it stands for
      (scenario replays only) -/
  conds : List (List (List (String × Nat))) := []
  /-- started by the constructor (running in the initial state); otherwise started by a `spawn` node -/
  static : Bool := true
  /-- long-lived environment goroutine (collector loop, peers): not required to exit -/
  daemon : Bool := false
  deriving Repr, Inhabited

structure Chan where
  name : String
  cap : Nat
  /-- belongs to a long-lived object (node, client) or to the environment, not to this pipeline instance -/
  env : Bool := false
  deriving Repr, Inhabited

structure Wg where
  name : String
  /-- the counter after the constructor's `wg.Add` calls -/
  init : Nat
  deriving Repr, Inhabited

structure Pipeline where
  name : String
  chans : List Chan
  wgs : List Wg
  /-- number of contexts; context 0 is the pipeline's own (the one with the deadline) -/
  nctx : Nat
  gs : List Goroutine
  /-- hint for W3: a rank per goroutine (checked, never trusted) -/
  rank : List Nat := []
  deriving Repr, Inhabited

def Pipeline.node (p : Pipeline) (g : Gi) (pc : Pc) : Option Node :=
  match p.gs[g]? with
  | some gr => gr.nodes[pc]?
  | none => none

def Pipeline.cap (p : Pipeline) (c : Ch) : Nat :=
  match p.chans[c]? with
  | some ch => ch.cap
  | none => 0

def Pipeline.site (p : Pipeline) (g : Gi) (pc : Pc) : String :=
  match p.gs[g]? with
  | some gr => gr.name ++ "@" ++ (gr.sites[pc]?.getD (toString pc))
  | none => "?"

def Pipeline.gname (p : Pipeline) (g : Gi) : String :=
  match p.gs[g]? with
  | some gr => gr.name
  | none => "?"

def Pipeline.cname (p : Pipeline) (c : Ch) : String :=
  match p.chans[c]? with
  | some ch => ch.name
  | none => "?"

def Pipeline.wname (p : Pipeline) (w : Nat) : String :=
  match p.wgs[w]? with
  | some x => x.name
  | none => "?"

end Dos.Pipe

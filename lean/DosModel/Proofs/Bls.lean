/-
Helper lemmas for C06: `PairingCheck` computes the product of the pairings (skipping identity
pairs is harmless because e(O, ·) = e(·, O) = 1), for ANY operations that implement a bilinear map.
-/
import Mathlib.Algebra.Group.Basic
import Mathlib.Algebra.Group.TypeTags.Basic
import Mathlib.Algebra.Group.Int.Defs
import DosModel.Model.Bls

namespace Dos.Bls
open Dos Dos.Codec

variable {P1 P2 PT T : Type}

/-- The operations `PairingCheck` calls implement a bilinear map `e : P1 × P2 → T`:
`fe` is "final exponentiation" seen as a map from Miller-loop values to the target group. `miller`
is only constrained on non-identity arguments (the code never calls it on an identity). -/
structure IsPairing [AddCommGroup P1] [AddCommGroup P2] [CommGroup T]
    (o : PairingOps P1 P2 PT) (e : P1 → P2 → T) (fe : PT → T) : Prop where
  inf1 : ∀ a, o.isInf1 a = true ↔ a = 0
  inf2 : ∀ b, o.isInf2 b = true ↔ b = 0
  fe_one : fe o.one = 1
  fe_mul : ∀ x y, fe (o.mul x y) = fe x * fe y
  fe_miller : ∀ a b, a ≠ 0 → b ≠ 0 → fe (o.miller b a) = e a b
  final : ∀ x, o.finalIsOne x = true ↔ fe x = 1
  add_left : ∀ a a' b, e (a + a') b = e a b * e a' b
  add_right : ∀ a b b', e a (b + b') = e a b * e a b'

section
variable [AddCommGroup P1] [AddCommGroup P2] [CommGroup T]
variable {o : PairingOps P1 P2 PT} {e : P1 → P2 → T} {fe : PT → T}

theorem IsPairing.zero_left (h : IsPairing o e fe) (b : P2) : e 0 b = 1 := by
  have := h.add_left 0 0 b
  rw [add_zero] at this
  exact (mul_eq_left.mp this.symm)

theorem IsPairing.zero_right (h : IsPairing o e fe) (a : P1) : e a 0 = 1 := by
  have := h.add_right a 0 0
  rw [add_zero] at this
  exact (mul_eq_left.mp this.symm)

theorem IsPairing.neg_left (h : IsPairing o e fe) (a : P1) (b : P2) : e (-a) b = (e a b)⁻¹ := by
  have := h.add_left a (-a) b
  rw [add_neg_cancel, h.zero_left] at this
  exact (eq_inv_of_mul_eq_one_right this.symm)

theorem IsPairing.nsmul_left (h : IsPairing o e fe) (n : Nat) (a : P1) (b : P2) :
    e (n • a) b = e a b ^ n := by
  induction n with
  | zero => simp [h.zero_left]
  | succ n ih => rw [succ_nsmul, h.add_left, ih, pow_succ]

theorem IsPairing.nsmul_right (h : IsPairing o e fe) (n : Nat) (a : P1) (b : P2) :
    e a (n • b) = e a b ^ n := by
  induction n with
  | zero => simp [h.zero_right]
  | succ n ih => rw [succ_nsmul, h.add_right, ih, pow_succ]

/-- the product ∏ e(aᵢ, bᵢ) over the pairs `PairingCheck` is given -/
def pairProd (e : P1 → P2 → T) : List P1 → List P2 → T
  | a :: as, b :: bs => e a b * pairProd e as bs
  | _, _ => 1

theorem pairingAcc_spec (h : IsPairing o e fe) :
    ∀ (as : List P1) (bs : List P2) (acc : PT), as.length ≤ bs.length →
      ∃ acc', pairingAcc o as bs acc = some acc' ∧ fe acc' = fe acc * pairProd e as bs := by
  intro as
  induction as with
  | nil => intro bs acc _; exact ⟨acc, rfl, by simp [pairProd]⟩
  | cons a as ih =>
    intro bs acc hl
    cases bs with
    | nil => simp at hl
    | cons b bs =>
      have hl' : as.length ≤ bs.length := by simpa using hl
      by_cases hi : (o.isInf1 a || o.isInf2 b) = true
      · obtain ⟨acc', h1, h2⟩ := ih bs acc hl'
        refine ⟨acc', by simp only [pairingAcc, hi, if_true]; exact h1, ?_⟩
        have he : e a b = 1 := by
          rcases Bool.or_eq_true _ _ |>.mp hi with h1 | h1
          · rw [(h.inf1 a).mp h1]; exact h.zero_left b
          · rw [(h.inf2 b).mp h1]; exact h.zero_right a
        rw [h2, pairProd, he, one_mul]
      · obtain ⟨acc', h1, h2⟩ := ih bs (o.mul acc (o.miller b a)) hl'
        refine ⟨acc', by simp only [pairingAcc, hi]; exact h1, ?_⟩
        have hi' : o.isInf1 a = false ∧ o.isInf2 b = false := by
          simpa [Bool.or_eq_false_iff] using hi
        have ha : a ≠ 0 := fun h0 => by
          have := (h.inf1 a).mpr h0; rw [hi'.1] at this; cases this
        have hb : b ≠ 0 := fun h0 => by
          have := (h.inf2 b).mpr h0; rw [hi'.2] at this; cases this
        rw [h2, h.fe_mul, h.fe_miller a b ha hb, pairProd, mul_assoc]

omit [AddCommGroup P1] [AddCommGroup P2] in
theorem pairingAcc_short (o : PairingOps P1 P2 PT) :
    ∀ (as : List P1) (bs : List P2) (acc : PT), bs.length < as.length → pairingAcc o as bs acc = none := by
  intro as
  induction as with
  | nil => intro bs acc hl; simp at hl
  | cons a as ih =>
    intro bs acc hl
    cases bs with
    | nil => rfl
    | cons b bs =>
      have hl' : bs.length < as.length := by simpa using hl
      simp only [pairingAcc]
      split <;> exact ih _ _ hl'

theorem pairingCheck_spec (h : IsPairing o e fe) (as : List P1) (bs : List P2)
    (hl : as.length ≤ bs.length) :
    ∃ b, pairingCheck o as bs = .ok b ∧ (b = true ↔ pairProd e as bs = 1) := by
  obtain ⟨acc', h1, h2⟩ := pairingAcc_spec h as bs o.one hl
  refine ⟨o.finalIsOne acc', by simp [pairingCheck, h1], ?_⟩
  rw [h.final, h2, h.fe_one, one_mul]

end

/-! ### a concrete instance of `IsPairing` (non-vacuity): P1 = P2 = ℤ, e(a,b) = a·b in (ℤ,+) -/

def intOps : BlsOps Int Int Int where
  isInf1 := fun a => a == 0
  isInf2 := fun b => b == 0
  miller := fun b a => a * b
  one := 0
  mul := fun x y => x + y
  finalIsOne := fun x => x == 0
  hashScalar := fun m => m.length + 1
  baseMul1 := fun k => (k : Int)
  mul1 := fun k a => (k : Int) * a
  neg1 := fun a => -a
  base2 := 1
  unmarshal1 := fun b => match b with
    | [] => .err .short
    | x :: _ => .ok (x.toNat : Int)
  marshal1 := fun a => [UInt8.ofNat a.toNat]

theorem intOps_isPairing :
    IsPairing (T := Multiplicative Int) intOps.toPairingOps
      (fun a b => Multiplicative.ofAdd (a * b)) (fun x => Multiplicative.ofAdd x) where
  inf1 := by intro a; simp [intOps]
  inf2 := by intro b; simp [intOps]
  fe_one := rfl
  fe_mul := by intro x y; rfl
  fe_miller := by intro a b _ _; rfl
  final := by
    intro x
    simp only [intOps, beq_iff_eq]
    exact ⟨fun h => by rw [h]; rfl, fun h => by simpa using congrArg Multiplicative.toAdd h⟩
  add_left := by intro a a' b; show Multiplicative.ofAdd _ = Multiplicative.ofAdd (_ + _); rw [Int.add_mul]; rfl
  add_right := by intro a b b'; show Multiplicative.ofAdd _ = Multiplicative.ofAdd (_ + _); rw [Int.mul_add]; rfl

end Dos.Bls

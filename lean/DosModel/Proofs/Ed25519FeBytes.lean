/-
C20 (round 4) — byte-level correctness of the translated ref10 field routines `feToBytes` and `feFromBytes`
(Gen/Ed25519Fe.lean, regenerated from group/edwards25519/fe.go on every run), and of `feIsNegative`/`feIsNonZero`.

Unbounded-`Int` semantics (the generated functions):
  `feToBytes_init_eq`          : for limbs within 3 × the ref10 bound the q chain computes q = ⌊feVal h / p⌋
                                 (p = 2^255 − 19) and the phase before the carry chain is `h[0] += 19 q`
  `feToBytes_limbs_canonical`  : (T1) the carry chain leaves proper digits (h_even ∈ [0, 2^26), h_odd ∈ [0, 2^25))
                                 whose value is  feVal h mod p  — THE canonical representative (the dropped last carry is q)
  `feToBytes_pack`             : (T2) on digits the 32 byte expressions spell the little-endian value of the limb vector
  `feFromBytes_init_value`     : the loads of feFromBytes have the little-endian value of the 32 bytes, bit 255 cleared

Go's semantics (`evalW wrap`: the executable `FeOps.…` the driver runs):
  `feToBytes_spec`             : (T3) bytes = natLE 32 (feVal h mod p), limbs left in h = the digits of that value.
                                 31 byte expressions and the whole limb phase cannot overflow (interval analysis
                                 `feToBytes_check`); byte 12, `(h[3] >> 19) | (h[4] << 6)`, CAN leave int32
                                 (`feToBytes_byte12_overflow_witness`) and is treated under wrapping (`byte_bor_wrap32`)
  `feFromBytes_spec`           : (T4) any 32 bytes: result within 1 × the bound, value ≡ (leNat s mod 2^255) mod p
  `feIsNegative_spec`, `feIsNonZero_spec` : (T5)

Nothing of the generated code is written here: the generated definitions are unfolded (`unfold_fe`) and the
resulting linear integer facts (floor divisions by literals) are decided by `omega`; an altered shift, limb index,
constant, mask or byte expression in fe.go makes these proofs fail.
-/
import DosModel.Model.Ed25519FeOps
import DosModel.Proofs.Ed25519FeAlg
import DosModel.Proofs.Ed25519FeRanges
import DosModel.Proofs.Ed25519Bytes

set_option exponentiation.threshold 600

namespace Dos.FeProg
open Dos Dos.Ed25519 Dos.IntervalProg Dos.Gen.Ed25519Fe Dos.FeOps List

/-- proper radix-2^25.5 digits: even limbs in [0, 2^26), odd limbs in [0, 2^25) -/
def FeDigits (r : L10) : Prop :=
  (0 ≤ r.h0 ∧ r.h0 < 2 ^ 26) ∧ (0 ≤ r.h1 ∧ r.h1 < 2 ^ 25) ∧ (0 ≤ r.h2 ∧ r.h2 < 2 ^ 26) ∧ (0 ≤ r.h3 ∧ r.h3 < 2 ^ 25) ∧
  (0 ≤ r.h4 ∧ r.h4 < 2 ^ 26) ∧ (0 ≤ r.h5 ∧ r.h5 < 2 ^ 25) ∧ (0 ≤ r.h6 ∧ r.h6 < 2 ^ 26) ∧ (0 ≤ r.h7 ∧ r.h7 < 2 ^ 25) ∧
  (0 ≤ r.h8 ∧ r.h8 < 2 ^ 26) ∧ (0 ≤ r.h9 ∧ r.h9 < 2 ^ 25)

instance (r : L10) : Decidable (FeDigits r) := by unfold FeDigits; exact inferInstance

/-- a digit vector is below 2^255 -/
theorem FeDigits.feVal_range {r : L10} (hd : FeDigits r) : 0 ≤ feVal r ∧ feVal r < 2 ^ 255 := by
  unfold FeDigits at hd
  unfold feVal
  omega

theorem FeDigits.bounded {r : L10} (hd : FeDigits r) : Bounded 2 r := by
  unfold FeDigits at hd
  unfold Bounded evenB oddB
  omega

theorem FeDigits.in_digitItv {r : L10} : FeDigits r ↔ In r.toList digitItv := by
  unfold FeDigits L10.toList digitItv
  simp only [List.forall₂_cons, Itv.mem]
  constructor
  · intro h; simp only [List.Forall₂.nil, and_true]; omega
  · intro h; simp only [List.Forall₂.nil, and_true] at h; omega

/-! ### T1: the q chain and the carry chain -/

/-- **the q chain computes ⌊h / p⌋** (ref10's "basic claim", for limbs within 3 × the bound), and
`h[0] += 19 * q` is all the phase before the carry chain does.
(`q = ⌊(feVal h + ⌊(19 h9 + 2^24) / 2^25⌋) / 2^255⌋` by the nested floor divisions; that is `⌊feVal h / p⌋`.) -/
theorem feToBytes_init_eq (h : L10) (hb : Bounded 3 h) :
    feToBytes_init h.toList = ⟨h.h0 + 19 * (feVal h / pI), h.h1, h.h2, h.h3, h.h4, h.h5, h.h6, h.h7, h.h8, h.h9⟩ := by
  obtain ⟨h0, h1, h2, h3, h4, h5, h6, h7, h8, h9⟩ := h
  unfold_fe
  simp only [L10.toList, List.getD_cons_zero, List.getD_cons_succ, n32v_eq, shrI, shl,
    Int.shiftRight_eq_div_pow, Nat.cast_pow, Nat.cast_ofNat, feVal, pI, Bounded, evenB, oddB, L10.mk.injEq,
    and_true] at *
  omega

/-- the floor-carry chain from `h + 19 q`, q = ⌊h / p⌋: digits, and the value `h mod p` (the dropped carry is q).
No bound on `h` is needed here. -/
theorem feToBytes_carry (h : L10) (q : Int) (hq : q = feVal h / pI) :
    FeDigits (runBlocks feToBytes_blocks ⟨h.h0 + 19 * q, h.h1, h.h2, h.h3, h.h4, h.h5, h.h6, h.h7, h.h8, h.h9⟩) ∧
    feVal (runBlocks feToBytes_blocks ⟨h.h0 + 19 * q, h.h1, h.h2, h.h3, h.h4, h.h5, h.h6, h.h7, h.h8, h.h9⟩)
      = feVal h % pI := by
  obtain ⟨h0, h1, h2, h3, h4, h5, h6, h7, h8, h9⟩ := h
  unfold_fe
  simp only [runBlocks, List.foldl]
  unfold_fe
  simp only [n32v_eq, shrI, shl, Int.shiftRight_eq_div_pow, Nat.cast_pow, Nat.cast_ofNat, feVal, FeDigits, pI] at *
  omega

/-- **T1**: the limbs feToBytes leaves in `h` (unbounded-`Int` semantics) are THE canonical digit vector of
`feVal h mod p`. -/
theorem feToBytes_limbs_canonical (h : L10) (hb : Bounded 3 h) :
    FeDigits (runBlocks feToBytes_blocks (feToBytes_init h.toList)) ∧
    feVal (runBlocks feToBytes_blocks (feToBytes_init h.toList)) = feVal h % pI := by
  rw [feToBytes_init_eq h hb]
  exact feToBytes_carry h _ rfl

/-- the same, digit by digit -/
theorem feToBytes_limbs_canonical' (h : L10) (hb : Bounded 3 h) :
    let r := runBlocks feToBytes_blocks (feToBytes_init h.toList)
    (0 ≤ r.h0 ∧ r.h0 < 2 ^ 26 ∧ 0 ≤ r.h1 ∧ r.h1 < 2 ^ 25 ∧ 0 ≤ r.h2 ∧ r.h2 < 2 ^ 26 ∧ 0 ≤ r.h3 ∧ r.h3 < 2 ^ 25 ∧
     0 ≤ r.h4 ∧ r.h4 < 2 ^ 26 ∧ 0 ≤ r.h5 ∧ r.h5 < 2 ^ 25 ∧ 0 ≤ r.h6 ∧ r.h6 < 2 ^ 26 ∧ 0 ≤ r.h7 ∧ r.h7 < 2 ^ 25 ∧
     0 ≤ r.h8 ∧ r.h8 < 2 ^ 26 ∧ 0 ≤ r.h9 ∧ r.h9 < 2 ^ 25) ∧ feVal r = feVal h % pI := by
  obtain ⟨hd, hv⟩ := feToBytes_limbs_canonical h hb
  unfold FeDigits at hd
  dsimp only
  exact ⟨by omega, hv⟩

/-- the canonical representative is below p -/
theorem feToBytes_limbs_lt (h : L10) (hb : Bounded 3 h) :
    0 ≤ feVal (runBlocks feToBytes_blocks (feToBytes_init h.toList)) ∧
    feVal (runBlocks feToBytes_blocks (feToBytes_init h.toList)) < pI := by
  rw [(feToBytes_limbs_canonical h hb).2]
  unfold pI
  omega

/-! ### T2: the byte packing -/

namespace FeBytes

theorem leNat_take_drop (l : Bytes) (n : Nat) :
    leNat l = leNat (l.take n) + 256 ^ (l.take n).length * leNat (l.drop n) := by
  rw [← leNat_append, List.take_append_drop]

end FeBytes
open FeBytes

/-- bytes 0…15 spell limbs 0…4 (26 + 25 + 26 + 25 + 26 = 128 bits) -/
theorem feToBytes_pack_lo (r : L10) (hd : FeDigits r) :
    (leNat (((feToBytes_out r).map byte).take 16) : Int)
      = r.h0 + r.h1 * 2 ^ 26 + r.h2 * 2 ^ 51 + r.h3 * 2 ^ 77 + r.h4 * 2 ^ 102 := by
  obtain ⟨h0, h1, h2, h3, h4, h5, h6, h7, h8, h9⟩ := r
  unfold_fe
  simp only [FeDigits] at hd
  simp only [List.map, List.take]
  simp only [n32v_eq, shrI, Int.shiftRight_eq_div_pow, Nat.cast_pow, Nat.cast_ofNat]
  simp (disch := omega) only [bor_shl]
  simp only [leNat, byte, UInt8.toNat_ofNat']
  push_cast
  simp only [toNat_emod256]
  omega

/-- bytes 16…31 spell limbs 5…9 (25 + 26 + 25 + 26 + 25 = 127 bits) -/
theorem feToBytes_pack_hi (r : L10) (hd : FeDigits r) :
    (leNat (((feToBytes_out r).map byte).drop 16) : Int)
      = r.h5 + r.h6 * 2 ^ 25 + r.h7 * 2 ^ 51 + r.h8 * 2 ^ 76 + r.h9 * 2 ^ 102 := by
  obtain ⟨h0, h1, h2, h3, h4, h5, h6, h7, h8, h9⟩ := r
  unfold_fe
  simp only [FeDigits] at hd
  simp only [List.map, List.drop]
  simp only [n32v_eq, shrI, Int.shiftRight_eq_div_pow, Nat.cast_pow, Nat.cast_ofNat]
  simp (disch := omega) only [bor_shl]
  simp only [leNat, byte, UInt8.toNat_ofNat']
  push_cast
  simp only [toNat_emod256]
  omega

theorem feToBytes_out_length (r : L10) : ((feToBytes_out r).map byte).length = 32 := by
  unfold_fe
  rfl

theorem feToBytes_pack_int (r : L10) (hd : FeDigits r) : (leNat ((feToBytes_out r).map byte) : Int) = feVal r := by
  have hl : (((feToBytes_out r).map byte).take 16).length = 16 := by
    rw [List.length_take, feToBytes_out_length]; rfl
  rw [leNat_take_drop _ 16, hl]
  push_cast
  rw [feToBytes_pack_lo r hd, feToBytes_pack_hi r hd]
  unfold feVal
  omega

/-- **T2**: on a digit vector the 32 byte expressions of feToBytes spell its little-endian value -/
theorem feToBytes_pack (r : L10) (hd : FeDigits r) :
    leNat ((feToBytes_out r).map byte) = (feVal r).toNat ∧ ((feToBytes_out r).map byte).length = 32 := by
  refine ⟨?_, feToBytes_out_length r⟩
  have h := feToBytes_pack_int r hd
  omega

theorem feToBytes_pack_natLE (r : L10) (hd : FeDigits r) :
    (feToBytes_out r).map byte = natLE 32 (feVal r).toNat := by
  obtain ⟨h1, h2⟩ := feToBytes_pack r hd
  rw [← h1, ← h2, natLE_leNat]

/-! ### T3: Go's wrapping semantics (the executable `FeOps.feToBytes`) -/

namespace FeBytes

theorem map_eraseIdx {α β : Type} (f : α → β) : ∀ (l : List α) (n : Nat), (l.eraseIdx n).map f = (l.map f).eraseIdx n := by
  intro l
  induction l with
  | nil => intro n; rfl
  | cons a l ih =>
    intro n
    cases n with
    | zero => rfl
    | succ n => simp only [List.eraseIdx_cons_succ, List.map_cons, ih]

/-- two lists that agree outside position `n`, and at position `n` up to `f`, have the same image under `f` -/
theorem map_eq_of_eraseIdx {α β : Type} (f : α → β) (d : α) : ∀ (n : Nat) (A B : List α), A.length = B.length →
    A.eraseIdx n = B.eraseIdx n → f (A.getD n d) = f (B.getD n d) → A.map f = B.map f := by
  intro n
  induction n with
  | zero =>
    intro A B hl he hf
    cases A with
    | nil => cases B with | nil => rfl | cons _ _ => simp at hl
    | cons a A =>
      cases B with
      | nil => simp at hl
      | cons b B =>
        simp only [List.eraseIdx_cons_zero] at he
        simp only [List.getD_cons_zero] at hf
        simp only [List.map_cons, he, hf]
  | succ n ih =>
    intro A B hl he hf
    cases A with
    | nil => cases B with | nil => rfl | cons _ _ => simp at hl
    | cons a A =>
      cases B with
      | nil => simp at hl
      | cons b B =>
        simp only [List.eraseIdx_cons_succ, List.cons.injEq] at he
        simp only [List.getD_cons_succ] at hf
        simp only [List.map_cons, he.1, ih A B (by simpa using hl) he.2 hf]

theorem toL10_toList (s : L10) : toL10 s.toList = s := rfl

theorem toList_toL10 (l : List Int) (h : l.length = 10) : (toL10 l).toList = l := by
  rcases l with _ | ⟨a0, _ | ⟨a1, _ | ⟨a2, _ | ⟨a3, _ | ⟨a4, _ | ⟨a5, _ | ⟨a6, _ | ⟨a7, _ | ⟨a8, _ | ⟨a9, _ | ⟨_, _⟩⟩⟩⟩⟩⟩⟩⟩⟩⟩⟩ <;>
    simp at h
  rfl

theorem slice_toList (r : L10) : slice 0 10 r.toList = r.toList := rfl

theorem limbsW_length (w : Int → Int) (p : FeProg) (x : Env) : (p.limbsW w x).length = 10 := by
  unfold FeProg.limbsW slice
  simp

theorem runW_eq_map (w : Int → Int) (p : FeProg) (x : Env) :
    p.runW w x = p.out.map (fun e => e.evalW w (slice 0 10 (p.limbsW w x))) := rfl

theorem getD_map_lt {α β : Type} (f : α → β) (d : α) (d' : β) : ∀ (l : List α) (n : Nat), n < l.length →
    (l.map f).getD n d' = f (l.getD n d) := by
  intro l n hn
  simp [List.getD, List.getElem?_map, List.getElem?_eq_getElem hn]

end FeBytes

open FeBytes

/-! ### the program without byte 12 -/

theorem feToBytes_limbsW' (w : Int → Int) (x : Env) : feToBytes_prog'.limbsW w x = feToBytes_prog.limbsW w x := rfl

theorem feToBytes_runW' (w : Int → Int) (x : Env) :
    feToBytes_prog'.runW w x = (feToBytes_prog.runW w x).eraseIdx 12 := by
  unfold FeProg.runW FeProg.outW
  rw [feToBytes_limbsW']
  exact map_eraseIdx _ _ _

/-! ### byte 12 under Go's wrapping semantics -/

/-- `byte((a) | int32(y << 6))` with a < 64 and a 26-bit y: the int32 shift may wrap (y ≥ 2^25), the sign extension to
int64 then sets bits 32…63, the low 8 bits are those of `a + 64 y` all the same -/
theorem byte_bor_wrap32 (a y : Int) (ha : 0 ≤ a ∧ a < 64) (hy : 0 ≤ y ∧ y < 2 ^ 26) :
    byte (wrap (bor a (shrI (wrap (shl (wrap (shl y 6)) 32)) 32))) = byte (bor a (shrI (shl (shl y 6) 32) 32)) := by
  have e1 : wrap (shl y 6) = shl y 6 := by unfold wrap shl; omega
  rw [e1, n32_wrap _ (by unfold I64 minI64 maxI64 shl; omega)]
  have e2 : shrI (shl (shl y 6) 32) 32 = shl y 6 := n32v_eq _
  rw [e2]
  rcases (show wrap32 (shl y 6) = shl y 6 ∨ wrap32 (shl y 6) = shl y 6 - 4294967296 by unfold wrap32 shl; omega)
    with h | h
  · rw [h, bor_shl a y 6 ha.1 (by omega) (by omega) hy.1 (by omega)]
    have : wrap (a + y * 2 ^ 6) = a + y * 2 ^ 6 := by unfold wrap; omega
    rw [this]
  · rw [h]
    have e3 : bor a (shl y 6 - 4294967296) = bor a (shl (y + 288230376084602880) 6) := by
      unfold bor u64 shl
      congr 3
      omega
    rw [e3, bor_shl a _ 6 ha.1 (by omega) (by omega) (by omega) (by omega),
      bor_shl a y 6 ha.1 (by omega) (by omega) hy.1 (by omega)]
    unfold byte wrap
    congr 2
    omega

/-- byte 12 of feToBytes on a digit vector: Go's (wrapping) value and the unbounded value have the same low 8 bits -/
theorem feToBytes_byte12 (r : L10) (hd : FeDigits r) :
    byte ((feToBytes_prog.out.getD 12 (.c 0)).evalW wrap r.toList)
      = byte ((feToBytes_prog.out.getD 12 (.c 0)).evalW id r.toList) := by
  unfold FeDigits at hd
  simp only [feToBytes_prog, feToBytes_pout, List.getD_cons_succ, List.getD_cons_zero, n32, Expr.evalW, L10.toList, id]
  refine byte_bor_wrap32 _ _ ?_ ?_
  · unfold shrI; rw [Int.shiftRight_eq_div_pow]; omega
  · omega

/-- Go's semantics of feToBytes on limbs within 3 × the bound: the limbs left in `h` and the 32 bytes are those of the
unbounded-`Int` functions -/
theorem feToBytes_wrap (h : L10) (hb : Bounded 3 h) :
    feToBytes_prog.limbsW wrap h.toList = (runBlocks feToBytes_blocks (feToBytes_init h.toList)).toList ∧
    (feToBytes_prog.runW wrap h.toList).map byte
      = (feToBytes_out (runBlocks feToBytes_blocks (feToBytes_init h.toList))).map byte := by
  obtain ⟨hs, _, _⟩ := FeProg.check_sound feToBytes_check ((bounded_iff 3 h).1 hb)
  obtain ⟨e1, e2⟩ := FeProg.runW_wrap_eq hs
  rw [feToBytes_limbsW', feToBytes_limbsW'] at e1
  rw [feToBytes_runW', feToBytes_runW'] at e2
  obtain ⟨t1, t2⟩ := feToBytes_tie h.toList
  have hρ : feToBytes_prog.limbsW id h.toList = (runBlocks feToBytes_blocks (feToBytes_init h.toList)).toList := by
    rw [← t1, toList_toL10 _ (limbsW_length _ _ _)]
  have hd := (feToBytes_limbs_canonical h hb).1
  refine ⟨e1.trans hρ, ?_⟩
  rw [← t2]
  refine map_eq_of_eraseIdx byte 0 12 _ _ ?_ e2 ?_
  · simp only [runW_eq_map, List.length_map]
  · have h12 : 12 < feToBytes_prog.out.length := by decide
    rw [runW_eq_map, runW_eq_map, e1, hρ, slice_toList,
      getD_map_lt _ (.c 0) 0 _ 12 h12, getD_map_lt _ (.c 0) 0 _ 12 h12]
    exact feToBytes_byte12 _ hd

/-- **T3**: the executable Go-semantics `feToBytes` on limbs within 3 × the ref10 bound writes the 32 little-endian
bytes of THE canonical representative `feVal h mod p`, and leaves in `h` the digit vector of that representative. -/
theorem feToBytes_spec (h : L10) (hb : Bounded 3 h) :
    (FeOps.feToBytes h).1 = natLE 32 (feVal h % pI).toNat ∧ Bounded 2 (FeOps.feToBytes h).2 ∧
    feVal (FeOps.feToBytes h).2 = feVal h % pI := by
  obtain ⟨w1, w2⟩ := feToBytes_wrap h hb
  obtain ⟨hd, hv⟩ := feToBytes_limbs_canonical h hb
  have e2 : (FeOps.feToBytes h).2 = runBlocks feToBytes_blocks (feToBytes_init h.toList) := by
    show toL10 (feToBytes_prog.limbsW wrap h.toList) = _
    rw [w1, toL10_toList]
  refine ⟨?_, ?_, ?_⟩
  · show (feToBytes_prog.runW wrap h.toList).map byte = _
    rw [w2, feToBytes_pack_natLE _ hd, hv]
  · rw [e2]; exact hd.bounded
  · rw [e2]; exact hv

/-- the limbs left in `h` are proper digits -/
theorem feToBytes_spec_digits (h : L10) (hb : Bounded 3 h) : FeDigits (FeOps.feToBytes h).2 := by
  obtain ⟨w1, _⟩ := feToBytes_wrap h hb
  have e2 : (FeOps.feToBytes h).2 = runBlocks feToBytes_blocks (feToBytes_init h.toList) := by
    show toL10 (feToBytes_prog.limbsW wrap h.toList) = _
    rw [w1, toL10_toList]
  rw [e2]; exact (feToBytes_limbs_canonical h hb).1

/-- the overflow in byte 12 is real: on the digit vector with h4 = 2^25 the expression `int32(h[4] << 6)` is not
`Safe` (the unbounded value 2^31 is not an int32) -/
theorem feToBytes_byte12_overflow_witness :
    FeDigits ⟨0, 0, 0, 0, 2 ^ 25, 0, 0, 0, 0, 0⟩ ∧
    ¬ (feToBytes_prog.out.getD 12 (.c 0)).Safe (L10.toList ⟨0, 0, 0, 0, 2 ^ 25, 0, 0, 0, 0, 0⟩) := by
  refine ⟨by decide, ?_⟩
  simp only [feToBytes_prog, feToBytes_pout, List.getD_cons_succ, List.getD_cons_zero, n32, Expr.Safe, L10.toList,
    Expr.eval, Expr.evalW, id, I64, minI64, maxI64, shl, shrI]
  omega

/-! ### T5: feIsNegative, feIsNonZero -/

namespace FeBytes

theorem uint8_or_eq_zero (a b : UInt8) : a ||| b = 0 ↔ a = 0 ∧ b = 0 := by
  rw [← UInt8.toNat_inj, ← UInt8.toNat_inj (a := a), ← UInt8.toNat_inj (a := b), UInt8.toNat_or]
  exact Nat.or_eq_zero_iff

theorem foldl_or_eq_zero : ∀ (l : List UInt8) (acc : UInt8),
    l.foldl (fun x b => x ||| b) acc = 0 ↔ acc = 0 ∧ ∀ b ∈ l, b = 0 := by
  intro l
  induction l with
  | nil => intro acc; simp
  | cons a l ih =>
    intro acc
    rw [List.foldl_cons, ih, uint8_or_eq_zero]
    simp only [List.mem_cons, forall_eq_or_imp, and_assoc]

theorem leNat_zero_of_all_zero : ∀ (l : Bytes), (∀ b ∈ l, b = 0) → leNat l = 0 := by
  intro l
  induction l with
  | nil => intro _; rfl
  | cons a l ih =>
    intro h
    have h1 : a = 0 := h a (by simp)
    have h2 := ih (fun b hb => h b (by simp [hb]))
    subst h1
    simp only [leNat, h2]
    rfl

/-- the three shift-OR steps of feIsNonZero put "any bit set" into bit 0 -/
theorem bitfold_all : ∀ n : Nat, n < 256 →
    (let x := UInt8.ofNat n
     let x := x ||| (x >>> 4)
     let x := x ||| (x >>> 2)
     let x := x ||| (x >>> 1)
     (x &&& 1).toNat) = if n = 0 then 0 else 1 := by
  decide +kernel

theorem bitfold (x : UInt8) :
    (let x := x ||| (x >>> 4)
     let x := x ||| (x >>> 2)
     let x := x ||| (x >>> 1)
     (x &&& 1).toNat) = if x = 0 then 0 else 1 := by
  have h := bitfold_all x.toNat x.toNat_lt
  rw [UInt8.ofNat_toNat] at h
  rw [h]
  have : x.toNat = 0 ↔ x = 0 := by rw [← UInt8.toNat_inj]; rfl
  simp only [this]

end FeBytes
open FeBytes

/-- **feIsNegative**: the low bit of the canonical representative (and `f` is normalised as by feToBytes) -/
theorem feIsNegative_spec (h : L10) (hb : Bounded 3 h) :
    (FeOps.feIsNegative h).1.toNat = (feVal h % pI).toNat % 2 ∧ (FeOps.feIsNegative h).2 = (FeOps.feToBytes h).2 := by
  refine ⟨?_, rfl⟩
  show (((FeOps.feToBytes h).1.getD 0 0) &&& 1).toNat = _
  rw [(feToBytes_spec h hb).1]
  show ((UInt8.ofNat ((feVal h % pI).toNat % 256)) &&& 1).toNat = _
  rw [UInt8.toNat_and, UInt8.toNat_ofNat']
  show (feVal h % pI).toNat % 256 % 2 ^ 8 &&& 1 = _
  rw [Nat.and_one_is_mod]
  omega

/-- **feIsNonZero**: 1 iff the canonical representative is not 0 -/
theorem feIsNonZero_spec (h : L10) (hb : Bounded 3 h) :
    (FeOps.feIsNonZero h).1 = (if feVal h % pI = 0 then 0 else 1) ∧ (FeOps.feIsNonZero h).2 = (FeOps.feToBytes h).2 := by
  refine ⟨?_, rfl⟩
  have hN : 0 ≤ feVal h % pI ∧ feVal h % pI < pI := by unfold pI; omega
  have hx : (FeOps.feToBytes h).1.foldl (fun x b => x ||| b) 0 = 0 ↔ feVal h % pI = 0 := by
    rw [(feToBytes_spec h hb).1, foldl_or_eq_zero]
    constructor
    · rintro ⟨_, hz⟩
      have h1 := leNat_zero_of_all_zero _ hz
      rw [leNat_natLE_of_lt _ _ (by unfold pI at hN ⊢; omega)] at h1
      omega
    · intro hz
      rw [hz]
      exact ⟨rfl, by decide⟩
  show Int.ofNat _ = _
  rw [bitfold]
  simp only [hx]
  split <;> rfl

/-! ### T4: feFromBytes -/

/-- `x & 8388607` is `x mod 2^23` for a non-negative int64 -/
theorem band_mask23 (x : Int) (h0 : 0 ≤ x) (h : x < 18446744073709551616) : band x 8388607 = x % 8388608 := by
  unfold band
  rw [u64_of_nonneg x h0 h, u64_of_nonneg 8388607 (by decide) (by decide)]
  obtain ⟨a, rfl⟩ := Int.eq_ofNat_of_zero_le h0
  have : (8388607 : Int).toNat = 2 ^ 23 - 1 := by decide
  rw [this, Int.toNat_natCast, Nat.and_two_pow_sub_one_eq_mod]
  rfl

set_option maxHeartbeats 2000000 in
theorem feFromBytes_init_value_explicit (x0 x1 x2 x3 x4 x5 x6 x7 x8 x9 x10 x11 x12 x13 x14 x15 x16 x17 x18 x19 x20 x21 x22 x23 x24 x25 x26 x27 x28 x29 x30 x31 : UInt8) :
    feVal (feFromBytes_init (fromBytesRaw [x0, x1, x2, x3, x4, x5, x6, x7, x8, x9, x10, x11, x12, x13, x14, x15, x16, x17, x18, x19, x20, x21, x22, x23, x24, x25, x26, x27, x28, x29, x30, x31]))
      = ((leNat [x0, x1, x2, x3, x4, x5, x6, x7, x8, x9, x10, x11, x12, x13, x14, x15, x16, x17, x18, x19, x20, x21, x22, x23, x24, x25, x26, x27, x28, x29, x30, x31] % 2 ^ 255 : Nat) : Int) := by
  have h0 := x0.toNat_lt
  have h1 := x1.toNat_lt
  have h2 := x2.toNat_lt
  have h3 := x3.toNat_lt
  have h4 := x4.toNat_lt
  have h5 := x5.toNat_lt
  have h6 := x6.toNat_lt
  have h7 := x7.toNat_lt
  have h8 := x8.toNat_lt
  have h9 := x9.toNat_lt
  have h10 := x10.toNat_lt
  have h11 := x11.toNat_lt
  have h12 := x12.toNat_lt
  have h13 := x13.toNat_lt
  have h14 := x14.toNat_lt
  have h15 := x15.toNat_lt
  have h16 := x16.toNat_lt
  have h17 := x17.toNat_lt
  have h18 := x18.toNat_lt
  have h19 := x19.toNat_lt
  have h20 := x20.toNat_lt
  have h21 := x21.toNat_lt
  have h22 := x22.toNat_lt
  have h23 := x23.toNat_lt
  have h24 := x24.toNat_lt
  have h25 := x25.toNat_lt
  have h26 := x26.toNat_lt
  have h27 := x27.toNat_lt
  have h28 := x28.toNat_lt
  have h29 := x29.toNat_lt
  have h30 := x30.toNat_lt
  have h31 := x31.toNat_lt
  unfold fromBytesRaw
  unfold_fe
  simp only [List.map, rawVal, List.getD_cons_zero, List.getD_cons_succ, sl, List.drop_succ_cons, List.drop_zero,
    load3, load4, Int.ofNat_eq_natCast, feVal, shl]
  simp only [↓reduceIte, Nat.reduceEqDiff]
  simp (disch := omega) only [band_mask23]
  simp only [leNat]
  push_cast
  omega

/-- **the loads of feFromBytes**: the ten limbs before the carry phase have the little-endian value of the 32 bytes
with bit 255 cleared -/
theorem feFromBytes_init_value (s : Bytes) (hs : s.length = 32) :
    feVal (feFromBytes_init (fromBytesRaw s)) = ((leNat s % 2 ^ 255 : Nat) : Int) := by
  obtain ⟨x0, x1, x2, x3, x4, x5, x6, x7, x8, x9, x10, x11, x12, x13, x14, x15, x16, x17, x18, x19, x20, x21, x22, x23, x24, x25, x26, x27, x28, x29, x30, x31, rfl⟩ := bytes32 s hs
  exact feFromBytes_init_value_explicit _ _ _ _ _ _ _ _ _ _ _ _ _ _ _ _ _ _ _ _ _ _ _ _ _ _ _ _ _ _ _ _

theorem feFromBytes_out_toList (r : L10) : feFromBytes_out r = r.toList := by
  unfold_fe
  simp only [n32v_eq, L10.toList]

/-- Go's semantics of feFromBytes on any 32 bytes is the unbounded-`Int` function, nothing overflows, the result is
within 1 × the ref10 bound -/
theorem feFromBytes_wrap (s : Bytes) (hs : s.length = 32) :
    feFromBytes_prog.SafeFrom (fromBytesRaw s) ∧
    FeOps.feFromBytes s = runBlocks feFromBytes_blocks (feFromBytes_init (fromBytesRaw s)) ∧
    Bounded 1 (FeOps.feFromBytes s) := by
  have hin : In (fromBytesRaw s) feFromBytes_rawItv := feFromBytes_raw_in s hs
  obtain ⟨hsafe, _, i2⟩ := FeProg.check_sound feFromBytes_check hin
  obtain ⟨_, e2⟩ := FeProg.runW_wrap_eq hsafe
  obtain ⟨_, t2⟩ := feFromBytes_tie (fromBytesRaw s)
  rw [feFromBytes_out_toList] at t2
  have e : FeOps.feFromBytes s = runBlocks feFromBytes_blocks (feFromBytes_init (fromBytesRaw s)) := by
    unfold FeOps.feFromBytes
    rw [e2, t2, toL10_toList]
  refine ⟨hsafe, e, ?_⟩
  rw [e, bounded_iff, ← t2]
  exact i2

/-- **T4**: the executable Go-semantics `feFromBytes` on 32 bytes: result within 1 × the ref10 bound, value congruent
modulo p to the little-endian value of the bytes with bit 255 ignored (the carry chain folds 2^255 → 19, so the value
is congruent, not equal). -/
theorem feFromBytes_spec (s : Bytes) (hs : s.length = 32) :
    Bounded 1 (FeOps.feFromBytes s) ∧ ModP (feVal (FeOps.feFromBytes s)) ((leNat s % 2 ^ 255 : Nat) : Int) := by
  obtain ⟨_, e, hb⟩ := feFromBytes_wrap s hs
  refine ⟨hb, ?_⟩
  rw [e, ← feFromBytes_init_value s hs]
  exact runBlocks_preserves _ feFromBytes_blocks_preserve _

/-- as an equation between residues -/
theorem feFromBytes_spec_emod (s : Bytes) (hs : s.length = 32) :
    feVal (FeOps.feFromBytes s) % pI = ((leNat s % 2 ^ 255 : Nat) : Int) % pI :=
  (feFromBytes_spec s hs).2.emod

theorem Bounded.mono13 {r : L10} (h : Bounded 1 r) : Bounded 3 r := by
  unfold Bounded evenB oddB at *
  omega

/-- round trip: `feToBytes(feFromBytes(s))` writes the canonical encoding of (s with bit 255 cleared) mod p -/
theorem feToBytes_feFromBytes (s : Bytes) (hs : s.length = 32) :
    (FeOps.feToBytes (FeOps.feFromBytes s)).1 = natLE 32 (leNat s % 2 ^ 255 % fieldP) := by
  obtain ⟨hb, _⟩ := feFromBytes_spec s hs
  rw [(feToBytes_spec _ hb.mono13).1, feFromBytes_spec_emod s hs, ← fieldP_cast, ← Int.natCast_mod, Int.toNat_natCast]

end Dos.FeProg

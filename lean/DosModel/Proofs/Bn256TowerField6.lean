/-
C10 layer 4 — gfP6 over gfP2 over the prime field of bn256 is a FIELD: the norm
F = x³ξ² + y³ξ + z³ − 3ξxyz that `gfP6.Invert` inverts is non-zero for every non-zero element.
Elementary route (no polynomial ring): for a = xτ² + yτ + z the product (xτ − y)·a is the LINEAR
element uτ + v with u = xz − y², v = ξx² − yz, and norms multiply:
    u³ξ + v³ = (x³ξ − y³) · F(a)                       (a polynomial identity, `ring`).
If F(a) = 0 then u³ξ = −v³; ξ is not a cube in F_p² (Proofs/Bn256TowerField2.lean), so u = 0 and v = 0,
i.e. y² = xz and ξx² = yz; then ξx³ = y³ forces x = 0, hence y = 0, hence F(a) = z³ = 0 and z = 0.
Also: the norm is multiplicative, F(τ) = ξ, and therefore τ is not a square in gfP6 (ξ is not a square).
-/
import DosModel.Proofs.Bn256TowerField2
import DosModel.Proofs.Bn256Tower6

namespace Dos.Bn256
namespace TowerField

section ring
variable {α : Type} [CommRing α]
open Fp2 (xi)
open Fp6 (normF tau)

/-- norm of (xτ − y)·a, which is the linear element (xz − y²)τ + (ξx² − yz) -/
theorem normF_linear (a : Fp6 α) :
    (a.x * a.z - a.y * a.y) * (a.x * a.z - a.y * a.y) * (a.x * a.z - a.y * a.y) * xi +
      (xi * (a.x * a.x) - a.y * a.z) * (xi * (a.x * a.x) - a.y * a.z) * (xi * (a.x * a.x) - a.y * a.z) =
    (a.x * a.x * a.x * xi - a.y * a.y * a.y) * normF a := by
  simp only [normF]; ring

/-- the norm gfP6 → gfP2 is multiplicative (also `Fp6.normF_mul` of Proofs/Bn256FinalExp.lean; restated here to
keep the imports of this file small) -/
theorem normF_mul (a b : Fp6 α) : normF (a * b) = normF a * normF b := by
  rw [← Fp6.mul_eq, Fp6.mul_eq_spec]
  simp only [normF, Fp6.mulSpec]; ring

theorem normF_tau : normF (tau : Fp6 α) = xi := by
  simp only [normF, tau]; ring

end ring

open Fp2 (xi)

/-- **the norm of a non-zero element of gfP6 over F_p² is non-zero** (τ³ − ξ is irreducible) -/
theorem normF_ne_zero (a : Fp6 (ZMod p)) (ha : a ≠ 0) : Fp6.normF a ≠ 0 := by
  intro hN
  have hlin := normF_linear a
  rw [hN, mul_zero] at hlin
  -- u = 0
  have hu : a.x * a.z - a.y * a.y = 0 := by
    by_contra hu
    apply xi_not_cube (-(xi * (a.x * a.x) - a.y * a.z) / (a.x * a.z - a.y * a.y))
    rw [← pow_three', div_pow, div_eq_iff (pow_ne_zero 3 hu)]
    linear_combination (-1 : Fp2 (ZMod p)) * hlin
  rw [hu, zero_mul, zero_mul, zero_mul, zero_add] at hlin
  -- v = 0
  have hv : xi * (a.x * a.x) - a.y * a.z = 0 := by
    have h3 : (xi * (a.x * a.x) - a.y * a.z) ^ 3 = 0 := by rw [← hlin]; ring
    exact pow_eq_zero_iff (by norm_num) |>.mp h3
  -- x = 0
  have hx : a.x = 0 := by
    by_contra hx
    apply xi_not_cube (a.y / a.x)
    rw [← pow_three', div_pow, div_eq_iff (pow_ne_zero 3 hx)]
    linear_combination (-a.y) * hu - a.x * hv
  -- y = 0
  have hy : a.y = 0 := by
    rw [hx, zero_mul, zero_sub, neg_eq_zero] at hu
    exact mul_self_eq_zero.mp hu
  -- z = 0
  have hz : a.z = 0 := by
    have h3 : a.z ^ 3 = 0 := by
      rw [Fp6.normF_eq, hx, hy] at hN
      rw [← hN]; ring
    exact pow_eq_zero_iff (by norm_num) |>.mp h3
  exact ha (Fp6.ext' hx hy hz)

/-- over the base field of bn256, gfP6.Invert inverts EVERY non-zero element -/
theorem fp6_invert_all (a : Fp6 (ZMod p)) (ha : a ≠ 0) : a * Fp6.invert a = 1 :=
  Fp6.mul_invert a (fp2_invert_all _ (normF_ne_zero a ha))

theorem fp6_invert_zero : Fp6.invert (0 : Fp6 (ZMod p)) = 0 := by
  show Fp6.invert (Fp6.zero : Fp6 (ZMod p)) = Fp6.zero
  simp only [Fp6.invert, Fp6.zero, Fp2.mul_eq, Fp2.add_eq, Fp2.sub_eq, Fp2.mulXi_eq, Fp2.square_eq, Fp2.zero_eq,
    mul_zero, zero_mul, sub_zero, add_zero]

end TowerField

/-- gfP6 over the base field of bn256 is a FIELD whose operations are the transcribed functions -/
noncomputable instance instFieldFp6 : Field (Fp6 (ZMod p)) where
  toCommRing := Fp6.instCommRing
  inv := Fp6.invert
  exists_pair_ne := ⟨0, 1, by
    intro h
    have : (0 : Fp6 (ZMod p)).z.y = (1 : Fp6 (ZMod p)).z.y := congrArg (fun a => a.z.y) h
    exact zero_ne_one this⟩
  mul_inv_cancel a ha := TowerField.fp6_invert_all a ha
  inv_zero := TowerField.fp6_invert_zero
  nnqsmul := _
  qsmul := _

namespace TowerField

/-- **τ is not a square in gfP6** (its norm ξ is not a square in F_p²) -/
theorem tau_not_square (c : Fp6 (ZMod p)) : c * c ≠ Fp6.tau := by
  intro h
  apply xi_not_square (Fp6.normF c)
  rw [← normF_mul, h, normF_tau]

end TowerField
end Dos.Bn256

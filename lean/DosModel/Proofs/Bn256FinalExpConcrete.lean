/-
C10 — transport of the final-exponentiation theorems to the IMPLEMENTED final exponentiation
(`Bn256.finalExponentiation` = `finalExponentiationG` at the regenerated constants over the Montgomery
gfP, the function the driver runs and compares with optate.go):
* the regenerated constants, decoded into ZMod p, are an instance of `FrobConsts.Good`
  (`frobConstsFp_good`): the six relations are evaluated by the kernel in Montgomery arithmetic on reduced
  values and carried along the decoding homomorphism;
* on reduced gfP12 values the implemented final exponentiation stays reduced, decodes to the generic one
  over ZMod p (naturality, Proofs/Bn256NaturalTower.lean) and is therefore multiplicative;
* `pairingCheck` is true iff the product in F_p¹² of the decoded pairing values `optimalAte` is one,
  provided the Miller values are reduced.
-/
import DosModel.Proofs.Bn256NaturalTower
import DosModel.Proofs.Bn256FinalExp
import DosModel.Model.Bn256CPairing

namespace Dos.Bn256
open Dos.Mont

/-! ### reduced tower values and their lifts -/
def Red2 (a : F2) : Prop := a.x.v < p ∧ a.y.v < p
def Red6 (a : F6) : Prop := Red2 a.x ∧ Red2 a.y ∧ Red2 a.z
def Red12 (a : F12) : Prop := Red6 a.x ∧ Red6 a.y

def lift2R (a : F2) (h : Red2 a) : Fp2 GFpR := ⟨⟨a.x, h.1⟩, ⟨a.y, h.2⟩⟩
def lift6R (a : F6) (h : Red6 a) : Fp6 GFpR := ⟨lift2R a.x h.1, lift2R a.y h.2.1, lift2R a.z h.2.2⟩
def lift12R (a : F12) (h : Red12 a) : Fp12 GFpR := ⟨lift6R a.x h.1, lift6R a.y h.2⟩

abbrev valF : GFpR → GFp := fun x => x.1
abbrev val12 : Fp12 GFpR → F12 := Fp12.map valF
abbrev dec12R : Fp12 GFpR → Fp12 (ZMod p) := Fp12.map decR
/-- Montgomery decoding of a gfP12 value -/
def dec12 (a : F12) : Fp12 (ZMod p) := Fp12.map dec a

theorem val_lift12 (a : F12) (h : Red12 a) : val12 (lift12R a h) = a := rfl
theorem dec12_val (x : Fp12 GFpR) : dec12 (val12 x) = dec12R x := rfl
theorem red12_val (x : Fp12 GFpR) : Red12 (val12 x) :=
  ⟨⟨⟨x.x.x.x.2, x.x.x.y.2⟩, ⟨x.x.y.x.2, x.x.y.y.2⟩, ⟨x.x.z.x.2, x.x.z.y.2⟩⟩,
   ⟨⟨x.y.x.x.2, x.y.x.y.2⟩, ⟨x.y.y.x.2, x.y.y.y.2⟩, ⟨x.y.z.x.2, x.y.z.y.2⟩⟩⟩

/-! ### the constants -/
theorem frobConsts_reduced :
    Red2 frobConsts.xiToPMinus1Over6 ∧ Red2 frobConsts.xiToPMinus1Over3 ∧ Red2 frobConsts.xiToPMinus1Over2 ∧
    Red2 frobConsts.xiTo2PMinus2Over3 ∧ frobConsts.xiToPSquaredMinus1Over3.v < p ∧
    frobConsts.xiTo2PSquaredMinus2Over3.v < p ∧ frobConsts.xiToPSquaredMinus1Over6.v < p := by
  unfold Red2; decide

/-- the constants as reduced values -/
def frobConstsR : FrobConsts GFpR :=
  { xiToPMinus1Over6 := lift2R _ frobConsts_reduced.1
    xiToPMinus1Over3 := lift2R _ frobConsts_reduced.2.1
    xiToPMinus1Over2 := lift2R _ frobConsts_reduced.2.2.1
    xiTo2PMinus2Over3 := lift2R _ frobConsts_reduced.2.2.2.1
    xiToPSquaredMinus1Over3 := ⟨_, frobConsts_reduced.2.2.2.2.1⟩
    xiTo2PSquaredMinus2Over3 := ⟨_, frobConsts_reduced.2.2.2.2.2.1⟩
    xiToPSquaredMinus1Over6 := ⟨_, frobConsts_reduced.2.2.2.2.2.2⟩ }

theorem frobConstsR_val : frobConstsR.map valF = frobConsts := rfl

/-- **the code's Frobenius constants, decoded into F_p** -/
def frobConstsFp : FrobConsts (ZMod p) := frobConstsR.map decR

/-- ξ = i + 9 as a reduced Montgomery value -/
def xiR : Fp2 GFpR := ⟨⟨GFp.newGFp 1, by decide⟩, ⟨GFp.newGFp 9, by decide⟩⟩

theorem dec_xiR : Fp2.map decR xiR = (Fp2.xi : Fp2 (ZMod p)) := by
  have d9 : dec (GFp.newGFp 9) = 9 := by
    have h : (GFp.newGFp 9).v * GFp.rN1.v ≡ 9 [MOD p] := by decide
    have := (ZMod.natCast_eq_natCast_iff _ _ _).mpr h
    simpa [dec] using this
  show (⟨dec (GFp.newGFp 1), dec (GFp.newGFp 9)⟩ : Fp2 (ZMod p)) = ⟨1, 9⟩
  rw [d9, show dec (GFp.newGFp 1) = 1 from dec_one.2]

set_option maxRecDepth 1000000 in
/-- the six relations in Montgomery arithmetic (kernel evaluation on the regenerated literals) -/
theorem frobConsts_relations_mont :
    Fp2.mul frobConsts.xiToPMinus1Over3 frobConsts.xiToPMinus1Over3 = frobConsts.xiTo2PMinus2Over3 ∧
    Fp2.mul (Fp2.map valF xiR) (Fp2.mul frobConsts.xiToPMinus1Over3 frobConsts.xiTo2PMinus2Over3) =
      Fp2.conjugate (Fp2.map valF xiR) ∧
    Fp2.mul frobConsts.xiToPMinus1Over6 frobConsts.xiToPMinus1Over6 = frobConsts.xiToPMinus1Over3 ∧
    frobConsts.xiToPSquaredMinus1Over3 * frobConsts.xiToPSquaredMinus1Over3 = frobConsts.xiTo2PSquaredMinus2Over3 ∧
    frobConsts.xiToPSquaredMinus1Over3 * frobConsts.xiTo2PSquaredMinus2Over3 = (1 : GFp) ∧
    frobConsts.xiToPSquaredMinus1Over6 * frobConsts.xiToPSquaredMinus1Over6 = frobConsts.xiToPSquaredMinus1Over3 := by
  decide +kernel

/-- **`FrobConsts.Good` holds for the regenerated constants of the code** (decoded into the field F_p) -/
theorem frobConstsFp_good : frobConstsFp.Good := by
  obtain ⟨r1, r3, r4, s1, s12, s6⟩ := frobConsts_relations_mont
  have hv := Fp2.map_inj valHom
  -- the relations among reduced values (val is injective and commutes with the operations)
  have R1 : Fp2.mul frobConstsR.xiToPMinus1Over3 frobConstsR.xiToPMinus1Over3 = frobConstsR.xiTo2PMinus2Over3 :=
    hv (by rw [Fp2.map_mul' valHom]; exact r1)
  have R3 : Fp2.mul xiR (Fp2.mul frobConstsR.xiToPMinus1Over3 frobConstsR.xiTo2PMinus2Over3) = Fp2.conjugate xiR :=
    hv (by rw [Fp2.map_mul' valHom, Fp2.map_mul' valHom, Fp2.map_conjugate valHom]; exact r3)
  have R4 : Fp2.mul frobConstsR.xiToPMinus1Over6 frobConstsR.xiToPMinus1Over6 = frobConstsR.xiToPMinus1Over3 :=
    hv (by rw [Fp2.map_mul' valHom]; exact r4)
  have S1 : frobConstsR.xiToPSquaredMinus1Over3 * frobConstsR.xiToPSquaredMinus1Over3 =
      frobConstsR.xiTo2PSquaredMinus2Over3 := Subtype.ext s1
  have S12 : frobConstsR.xiToPSquaredMinus1Over3 * frobConstsR.xiTo2PSquaredMinus2Over3 = (1 : GFpR) :=
    Subtype.ext s12
  have S6 : frobConstsR.xiToPSquaredMinus1Over6 * frobConstsR.xiToPSquaredMinus1Over6 =
      frobConstsR.xiToPSquaredMinus1Over3 := Subtype.ext s6
  refine ⟨?_, ?_, ?_, ?_, ?_, ?_⟩
  · have := congrArg (Fp2.map decR) R1
    rw [Fp2.map_mul' decHom] at this; exact this
  · have := congrArg (Fp2.map decR) R3
    rw [Fp2.map_mul' decHom, Fp2.map_mul' decHom, Fp2.map_conjugate decHom, dec_xiR] at this; exact this
  · have := congrArg (Fp2.map decR) R4
    rw [Fp2.map_mul' decHom] at this; exact this
  · have := congrArg decR S1; rw [decHom.map_mul] at this; exact this
  · have := congrArg decR S12; rw [decHom.map_mul, decHom.map_one] at this; exact this
  · have := congrArg decR S6; rw [decHom.map_mul] at this; exact this

/-! ### the implemented final exponentiation on reduced values -/

theorem finalExp_val (x : Fp12 GFpR) :
    Bn256.finalExponentiation (val12 x) = val12 (finalExponentiationG frobConstsR uParam x) := by
  show finalExponentiationG frobConsts uParam (val12 x) = _
  rw [← frobConstsR_val]
  exact (map_finalExponentiationG valHom frobConstsR uParam x).symm

/-- decoding commutes with the implemented final exponentiation; reducedness is kept -/
theorem finalExp_dec (x : F12) (hx : Red12 x) :
    Red12 (Bn256.finalExponentiation x) ∧
    dec12 (Bn256.finalExponentiation x) = finalExponentiationG frobConstsFp uParam (dec12 x) := by
  have e : x = val12 (lift12R x hx) := rfl
  rw [e, finalExp_val]
  refine ⟨red12_val _, ?_⟩
  rw [dec12_val, dec12_val]
  exact map_finalExponentiationG decHom frobConstsR uParam _

theorem mul_dec (x y : F12) (hx : Red12 x) (hy : Red12 y) :
    Red12 (Fp12.mul x y) ∧ dec12 (Fp12.mul x y) = dec12 x * dec12 y := by
  have ex : x = val12 (lift12R x hx) := rfl
  have ey : y = val12 (lift12R y hy) := rfl
  rw [ex, ey, ← Fp12.map_mul' valHom]
  refine ⟨red12_val _, ?_⟩
  rw [dec12_val, dec12_val, dec12_val]
  exact Fp12.map_mul' decHom _ _

theorem one_dec : Red12 (Fp12.one : F12) ∧ dec12 (Fp12.one : F12) = 1 := by
  have e : (Fp12.one : F12) = val12 (Fp12.one : Fp12 GFpR) := (Fp12.map_one' valHom).symm
  rw [e]
  exact ⟨red12_val _, by rw [dec12_val]; exact Fp12.map_one' decHom⟩

theorem dec12_inj (x y : F12) (hx : Red12 x) (hy : Red12 y) (h : dec12 x = dec12 y) : x = y := by
  have ex : x = val12 (lift12R x hx) := rfl
  have ey : y = val12 (lift12R y hy) := rfl
  rw [ex, ey] at h ⊢
  rw [dec12_val, dec12_val] at h
  rw [Fp12.map_inj decHom h]

/-- **the implemented final exponentiation is multiplicative** on reduced gfP12 values -/
theorem finalExp_concrete_mul (x y : F12) (hx : Red12 x) (hy : Red12 y) :
    Bn256.finalExponentiation (Fp12.mul x y) =
      Fp12.mul (Bn256.finalExponentiation x) (Bn256.finalExponentiation y) := by
  obtain ⟨rxy, dxy⟩ := mul_dec x y hx hy
  obtain ⟨r1, d1⟩ := finalExp_dec _ rxy
  obtain ⟨rx, dx⟩ := finalExp_dec x hx
  obtain ⟨ry, dy⟩ := finalExp_dec y hy
  obtain ⟨r2, d2⟩ := mul_dec _ _ rx ry
  apply dec12_inj _ _ r1 r2
  rw [d1, dxy, d2, dx, dy]
  exact finalExp_mul frobConstsFp frobConstsFp_good uParam _ _

/-! ### the implemented PairingCheck -/

theorem check_fold (ps : List (G1J × G2J)) (hm : ∀ pq ∈ ps, Red12 (miller pq.2 pq.1)) :
    ∀ acc : F12, Red12 acc →
      Red12 (ps.foldl (fun acc pq => if pq.1.isInfinity || pq.2.isInfinity then acc
        else Fp12.mul acc (miller pq.2 pq.1)) acc) ∧
      dec12 (ps.foldl (fun acc pq => if pq.1.isInfinity || pq.2.isInfinity then acc
        else Fp12.mul acc (miller pq.2 pq.1)) acc) =
      ps.foldl (fun acc pq => if pq.1.isInfinity || pq.2.isInfinity then acc
        else acc * dec12 (miller pq.2 pq.1)) (dec12 acc) := by
  induction ps with
  | nil => intro acc h; exact ⟨h, rfl⟩
  | cons pq ps ih =>
    intro acc h
    simp only [List.foldl_cons]
    have hm' : ∀ x ∈ ps, Red12 (miller x.2 x.1) := fun x hx => hm x (List.mem_cons_of_mem _ hx)
    by_cases hi : (pq.1.isInfinity || pq.2.isInfinity) = true
    · simp only [hi, if_true]; exact ih hm' acc h
    · simp only [hi, Bool.false_eq_true, if_false]
      obtain ⟨r, d⟩ := mul_dec acc _ h (hm pq (List.mem_cons_self))
      have := ih hm' _ r
      rw [d] at this
      exact this

/-- **PairingCheck, concrete**: if the Miller values are reduced, the implemented check is true exactly when the
product in F_p¹² of the decoded pairing values `optimalAte(q, p)` is one — identities at any position included -/
theorem pairingCheck_concrete (ps : List (G1J × G2J)) (hm : ∀ pq ∈ ps, Red12 (miller pq.2 pq.1)) :
    pairingCheck ps = true ↔ (ps.map fun pq => dec12 (optimalAte pq.2 pq.1)).prod = 1 := by
  obtain ⟨r1, d1⟩ := one_dec
  obtain ⟨rf, df⟩ := check_fold ps hm Fp12.one r1
  obtain ⟨re, de⟩ := finalExp_dec _ rf
  have hcheck : pairingCheck ps = true ↔
      Bn256.finalExponentiation (ps.foldl (fun acc pq => if pq.1.isInfinity || pq.2.isInfinity then acc
        else Fp12.mul acc (miller pq.2 pq.1)) Fp12.one) = Fp12.one := by
    simp only [pairingCheck, pairingCheckAbs, Fp12.isOne, decide_eq_true_eq]
  rw [hcheck]
  have hmap : (ps.map fun pq => if pq.1.isInfinity || pq.2.isInfinity then (1 : Fp12 (ZMod p))
        else finalExponentiationG frobConstsFp uParam (dec12 (miller pq.2 pq.1))) =
      ps.map fun pq => dec12 (optimalAte pq.2 pq.1) := by
    apply List.map_congr_left
    intro pq hpq
    by_cases hi : (pq.1.isInfinity || pq.2.isInfinity) = true
    · have : optimalAte pq.2 pq.1 = Fp12.one := by
        simp only [optimalAte]; rw [Bool.or_comm] at hi; simp [hi]
      simp only [hi, if_true, this, d1]
    · have : optimalAte pq.2 pq.1 = Bn256.finalExponentiation (miller pq.2 pq.1) := by
        simp only [optimalAte]; rw [Bool.or_comm] at hi; simp [hi]
      simp only [hi, Bool.false_eq_true, if_false, this]
      exact ((finalExp_dec _ (hm pq hpq)).2).symm
  have key := pairing_fold (fun (a : G1J) => a.isInfinity) (fun (b : G2J) => b.isInfinity)
    (fun q p => dec12 (miller q p)) (finalExpHom frobConstsFp frobConstsFp_good uParam) ps 1
  simp only [finalExpHom, MonoidHom.coe_mk, OneHom.coe_mk, finalExp_one, one_mul] at key
  have hdec : dec12 (Bn256.finalExponentiation (ps.foldl (fun acc pq =>
      if pq.1.isInfinity || pq.2.isInfinity then acc else Fp12.mul acc (miller pq.2 pq.1)) Fp12.one)) =
      (ps.map fun pq => dec12 (optimalAte pq.2 pq.1)).prod := by
    rw [de, df, d1, key, hmap]
  constructor
  · intro h
    rw [← hdec, h, d1]
  · intro h
    apply dec12_inj _ _ re r1
    rw [hdec, h, d1]

end Dos.Bn256

package dkgnet

import (
	"context"
	"fmt"
	"math/big"
	"strings"
	"sync"
	"sync/atomic"
	"time"

	"github.com/golang/protobuf/proto"

	dkg "github.com/DOSNetwork/core/share/dkg/pedersen"
	vss "github.com/DOSNetwork/core/share/vss/pedersen"
	"github.com/dedis/kyber"

	"verifharness/internal/h"
)

// NetAdv (C05 round 5, review C finding 5): the adversarial run through the REAL pdkg.Loop / Grouping of the honest
// members over the in-memory network double. The Byzantine seats are NOT simulated inside a member: each is a node of
// the network driven by the harness, and whatever it sends reaches an honest member as a p2p.P2PMessage whose Sender
// the NETWORK set to the seat's transport identity (Net.Request) – the stamping of fix e9f475e (`stampSender(content,
// msg.Sender)` in Loop, `exchangePub` comparing SenderId with groupIds[Index]) is executed by the real code on the real
// message, not re-implemented by the harness. Honest long-term keys are drawn by the real genPub; a Byzantine seat learns
// them from the PublicKey messages it receives, like a real member.
//
//	netadv <seed> <n> <byz a.b> <start order of the honest members i.j.k> <defs> <events>
//
// <defs>/<events> are an `adv` line (RunSimLine) – the model runs exactly that – read here as the script of the
// Byzantine seats. Adversarial events are named x<b><kind><q>.<to> (b = the seat that sends it):
//
//	x<b>k<q>.<to>  K spec: sent EARLY (before any honest member calls Grouping), SenderId pre-filled as the spec says
//	x<b>d<q>.<to>  D spec (claim = sealer = b): b's deal for <to>, in the place of d<b>.<to>
//	x<b>r<q>.<to>  R / GR / RN specs in the place of r<b>.<to>: together they are b's Responses message for <to>
//	p<b>.<i> / d<b>.<i> / r<b>.<i>: seat b behaves like an honest member towards i (a real DistKeyGenerator of its own)
//
// Output "st=<per seat: D | F:<why> | w (still waiting when the network went quiet) | x (Byzantine)> keys=<classes, x>".
type NetAdvResult struct {
	N       int
	T       int
	Byz     map[int]bool
	St      []string
	Outs    []Outcome // honest members only, in index order
	Members []int
	// ForeignAccepted: honest members that went past the key exchange (they sent deals) although the FIRST PublicKey
	// message they got for some other member's index came from a seat that is not that member
	ForeignAccepted []string
}

var lastActivity int64

func touch() { atomic.StoreInt64(&lastActivity, time.Now().UnixNano()) }

func idleFor() time.Duration {
	return time.Duration(time.Now().UnixNano() - atomic.LoadInt64(&lastActivity))
}

// fatalKind maps an error of Grouping's error channel to the model's stage-failure name ("" = not fatal).
func fatalKind(s string) string {
	switch {
	case strings.Contains(s, "response no approval"):
		return "noapproval"
	case strings.Contains(s, "dkg is not certified"):
		return "notcertified"
	case strings.Contains(s, "different number of coefficients"):
		return "coeffs"
	case strings.Contains(s, "ProcessResponse failed"):
		return "response"
	case strings.Contains(s, "public key not announced"), strings.Contains(s, "duplicated share public key"),
		strings.Contains(s, "duplicated public key index"), strings.Contains(s, "public key message without key"),
		strings.Contains(s, "UnmarshalBinary failed"), strings.Contains(s, "NewDistKeyGenerator failed"):
		return "gen"
	}
	return ""
}

func sendRetry(ctx context.Context, nd *Node, to []byte, m proto.Message) {
	for ctx.Err() == nil {
		touch()
		if _, err := nd.Request(ctx, to, m); err == nil {
			touch()
			return
		}
		time.Sleep(100 * time.Millisecond)
	}
}

type advSeat struct {
	b    int
	sec  kyber.Scalar
	node *Node
	mu   sync.Mutex
	pkIn map[int][]byte
	dlIn map[int]*dkg.Deal
}

// RunNetAdvLine executes a netadv line.
func RunNetAdvLine(w []string) (string, *NetAdvResult) {
	InitLog()
	Quiet()
	seed, n := h.BigDec(w[1]).Uint64(), h.Atoi(w[2])
	byz := map[int]bool{}
	for _, x := range strings.Split(w[3], ".") {
		byz[h.Atoi(x)] = true
	}
	var order []int
	for _, x := range strings.Split(w[4], ".") {
		order = append(order, h.Atoi(x))
	}
	defs := map[string]string{}
	if w[5] != "-" {
		for _, d := range strings.Split(w[5], ";") {
			kv := strings.SplitN(d, "=", 2)
			defs[kv[0]] = kv[1]
		}
	}
	type xev struct {
		b    int
		spec string
		to   int
	}
	var early []xev
	dealSpec := map[[2]int]string{}
	respSpec := map[[2]int][]string{}
	for _, ev := range strings.Split(w[6], ",") {
		if ev[0] != 'x' {
			continue
		}
		p := strings.Split(ev[1:], ".")
		id, to := p[0], h.Atoi(p[1])
		q := 0
		for q < len(id) && id[q] >= '0' && id[q] <= '9' {
			q++
		}
		b, kind := h.Atoi(id[:q]), id[q]
		spec, ok := defs["X"+id]
		if !ok || !byz[b] {
			panic("netadv: bad adversarial event " + ev)
		}
		switch kind {
		case 'k':
			early = append(early, xev{b, spec, to})
		case 'd':
			dealSpec[[2]int{b, to}] = spec
		case 'r':
			respSpec[[2]int{b, to}] = append(respSpec[[2]int{b, to}], spec)
		default:
			panic("netadv: bad adversarial event " + ev)
		}
	}
	var ids [][]byte
	for k := 0; k < n; k++ {
		ids = append(ids, []byte(fmt.Sprintf("member-%02d-%016x", k, seed)))
	}
	nw := NewNet(ids)
	nw.AckWait = 3 * time.Second
	ctx, cancel := context.WithTimeout(context.Background(), 45*time.Second)
	defer cancel()
	sid := fmt.Sprintf("%x", seed|1)
	// the toolbox for adversarial deals / keys: only the Byzantine seats' secrets are known; honest public keys are
	// filled in when the seats have learned them from the wire
	tool := &Sim{N: n, T: n/2 + 1, Sid: sid, rng: h.NewRng(seed), polys: map[string][]*big.Int{}, Effective: map[string]bool{},
		Secs: make([]kyber.Scalar, n), Pubs: make([]kyber.Point, n), Ids: ids}
	var toolMu sync.Mutex
	seats := map[int]*advSeat{}
	for b := range byz {
		sc := Scalar(NonZero(tool.rng))
		tool.Secs[b], tool.Pubs[b] = sc, Pub(sc)
	}
	for b := 0; b < n; b++ {
		if byz[b] {
			seats[b] = &advSeat{b: b, sec: tool.Secs[b], node: nw.Node(b, ids), pkIn: map[int][]byte{}, dlIn: map[int]*dkg.Deal{}}
		}
	}
	touch()
	// the honest members' Loops
	pd := make([]dkg.PDKGInterface, n)
	for k := 0; k < n; k++ {
		if !byz[k] {
			pd[k] = dkg.NewPDKG(nw.Node(k, ids), Suite)
			go pd[k].Loop()
		}
	}
	// every Byzantine seat acknowledges what it receives (as a Loop does) and sorts it
	for _, s := range seats {
		go func(s *advSeat) {
			for {
				select {
				case <-ctx.Done():
					return
				case msg := <-s.node.sub:
					touch()
					_ = s.node.Reply(ctx, msg.Sender, msg.RequestNonce, nil)
					from, ok := nw.idx[string(msg.Sender)]
					if !ok {
						continue
					}
					s.mu.Lock()
					switch c := msg.Msg.Message.(type) {
					case *dkg.PublicKey:
						if int(c.Index) == from && c.Publickey != nil {
							if _, dup := s.pkIn[from]; !dup {
								s.pkIn[from] = c.Publickey.Binary
							}
						}
					case *dkg.Deal:
						if int(c.Index) == from {
							if _, dup := s.dlIn[from]; !dup {
								s.dlIn[from] = c
							}
						}
					}
					s.mu.Unlock()
				}
			}
		}(s)
	}
	// phase 0: the early messages
	forgedFor := map[int]string{}
	for _, e := range early {
		f := strings.Split(e.spec, ".")
		if claim := h.Atoi(f[1]); claim >= 0 && claim < n && claim != e.b && claim != e.to && !byz[e.to] {
			forgedFor[e.to] = fmt.Sprintf("index %d announced by seat %d", claim, e.b)
		}
		m := tool.AdvPk(h.Atoi(f[1]), f[3])
		if len(f) > 4 {
			switch f[4] {
			case "-":
			case "g":
				m.Publickey.SenderId = []byte("no-such-member")
			default:
				if k := h.Atoi(f[4]); k >= 0 && k < n {
					m.Publickey.SenderId = append([]byte{}, ids[k]...)
				}
			}
		}
		sendRetry(ctx, seats[e.b].node, ids[e.to], m)
	}
	// phase 1: the honest members call Grouping, in the given order
	type result struct {
		k  int
		st string
	}
	resc := make(chan result, n)
	nh := 0
	for q, k := range order {
		nh++
		go func(q, k int) {
			select {
			case <-time.After(time.Duration(q*40) * time.Millisecond):
			case <-ctx.Done():
			}
			touch()
			outc, errc, err := pd[k].Grouping(ctx, sid, ids)
			if err != nil {
				resc <- result{k, "F:grouping"}
				return
			}
			fatal := ""
			for outc != nil || errc != nil {
				select {
				case _, ok := <-outc:
					if !ok {
						outc = nil
						continue
					}
					touch()
					resc <- result{k, "D"}
					return
				case e, ok := <-errc:
					if !ok {
						errc = nil
						continue
					}
					touch()
					if e != nil && fatal == "" {
						fatal = fatalKind(h.OneLine(e.Error()))
					}
				case <-ctx.Done():
					if fatal != "" {
						resc <- result{k, "F:" + fatal}
					} else {
						resc <- result{k, "w"}
					}
					return
				}
			}
			if fatal == "" {
				fatal = "closed"
			}
			resc <- result{k, "F:" + fatal}
		}(q, k)
	}
	// the Byzantine seats' protocol
	waitFor := func(cond func() bool) bool {
		for ctx.Err() == nil {
			if cond() {
				return true
			}
			time.Sleep(5 * time.Millisecond)
		}
		return false
	}
	for _, s := range seats {
		go func(s *advSeat) {
			b := s.b
			pkm := &dkg.PublicKey{SessionId: sid, Index: uint32(b), Publickey: &vss.PublicKey{Binary: PointBytes(Pub(s.sec))}}
			for i := 0; i < n; i++ {
				if i != b {
					go sendRetry(ctx, s.node, ids[i], proto.Clone(pkm))
				}
			}
			if !waitFor(func() bool { s.mu.Lock(); defer s.mu.Unlock(); return len(s.pkIn) == n-1 }) {
				return
			}
			touch()
			pubs := make([]kyber.Point, n)
			for i := 0; i < n; i++ {
				if i == b {
					pubs[i] = Pub(s.sec)
					continue
				}
				pubs[i] = Suite.Point()
				if err := pubs[i].UnmarshalBinary(s.pkIn[i]); err != nil {
					return
				}
			}
			toolMu.Lock()
			for i := 0; i < n; i++ {
				if tool.Pubs[i] == nil || !byz[i] {
					tool.Pubs[i] = pubs[i]
				}
			}
			toolMu.Unlock()
			gen, err := dkg.NewDistKeyGenerator(Suite, s.sec, pubs, n/2+1)
			if err != nil {
				return
			}
			genuine, err := gen.Deals()
			if err != nil {
				return
			}
			touch()
			for i := 0; i < n; i++ {
				if i == b {
					continue
				}
				var d *dkg.Deal
				if spec, ok := dealSpec[[2]int{b, i}]; ok {
					f := strings.Split(spec, ".")
					toolMu.Lock()
					d = tool.AdvDeal(h.Atoi(f[1]), h.Atoi(f[2]), h.Atoi(f[3]), strings.Join(f[4:], "."))
					toolMu.Unlock()
				} else {
					d = genuine[i]
				}
				d.SessionId = sid
				go sendRetry(ctx, s.node, ids[i], d)
			}
			if !waitFor(func() bool { s.mu.Lock(); defer s.mu.Unlock(); return len(s.dlIn) == n-1 }) {
				return
			}
			touch()
			own := map[int]*dkg.Response{}
			for j := 0; j < n; j++ {
				if j == b {
					continue
				}
				func() {
					defer func() { recover() }()
					if r, err := gen.ProcessDeal(CloneDeal(s.dlIn[j])); err == nil {
						r.SessionId = sid
						own[j] = r
					}
				}()
				touch()
			}
			sidOf := func(spec string) []byte {
				switch {
				case strings.HasPrefix(spec, "cur"):
					j := h.Atoi(spec[3:])
					if j == b {
						return gen.VerifDealer().SessionID()
					}
					if v := gen.VerifVerifier(uint32(j)); v != nil {
						return v.VerifAggSessionID()
					}
					return nil
				case strings.HasPrefix(spec, "p"):
					parts := strings.Split(spec[1:], "_")
					toolMu.Lock()
					defer toolMu.Unlock()
					sealer, p := h.Atoi(parts[0]), h.Atoi(parts[1])
					out, _ := vss.VerifSessionID(Suite, tool.Pubs[sealer], tool.Pubs, Commit(tool.Poly(sealer, p, tool.T)), tool.T)
					return out
				}
				toolMu.Lock()
				defer toolMu.Unlock()
				return tool.rng.Bytes(32)
			}
			for i := 0; i < n; i++ {
				if i == b {
					continue
				}
				var rs []*dkg.Response
				if specs, ok := respSpec[[2]int{b, i}]; ok {
					for _, spec := range specs {
						f := strings.Split(spec, ".")
						switch f[0] {
						case "GR": // GR.<b>.<j>.<j2>
							if r := own[h.Atoi(f[2])]; r != nil {
								c := CloneResp(r)
								c.Index = uint32(h.Atoi(f[3]))
								rs = append(rs, c)
							}
						case "RN":
							rs = append(rs, &dkg.Response{SessionId: sid, Index: uint32(h.Atoi(f[1]))})
						case "R": // R.<dealer>.<responder>.<sid>.<a|c>.<signer>
							r := &vss.Response{SessionID: sidOf(f[3]), Index: uint32(h.Atoi(f[2])), Status: f[4] == "a"}
							switch f[5] {
							case "junk":
								toolMu.Lock()
								r.Signature = tool.rng.Bytes(161)
								toolMu.Unlock()
							case "none":
							default:
								if sk := tool.Secs[h.Atoi(f[5])]; sk != nil {
									r.Signature = SchnorrSign(sk, r.Hash(Suite))
								}
							}
							rs = append(rs, &dkg.Response{SessionId: sid, Index: uint32(h.Atoi(f[1])), Response: r})
						}
					}
				} else {
					for j := 0; j < n; j++ {
						if r := own[j]; r != nil {
							rs = append(rs, CloneResp(r))
						}
					}
				}
				go sendRetry(ctx, s.node, ids[i], &dkg.Responses{SessionId: sid, Response: rs})
			}
		}(s)
	}
	// collect: until every honest member has an answer or the network has been quiet for a while
	st := make([]string, n)
	got := 0
	quiet := 2500 * time.Millisecond
	tick := time.NewTicker(50 * time.Millisecond)
	defer tick.Stop()
	for got < nh {
		select {
		case r := <-resc:
			st[r.k] = r.st
			got++
		case <-tick.C:
			if idleFor() > quiet {
				cancel()
			}
		}
	}
	cancel()
	res := &NetAdvResult{N: n, T: n/2 + 1, Byz: byz, St: st}
	nw.mu.Lock()
	for _, d := range nw.Log {
		if what, ok := forgedFor[d.From]; ok && d.Kind == "deal" {
			res.ForeignAccepted = append(res.ForeignAccepted, fmt.Sprintf("member %d dealt (it got past the key exchange) although the first key it received for %s", d.From, what))
			delete(forgedFor, d.From)
		}
	}
	nw.mu.Unlock()
	outsAll := make([]Outcome, n)
	for k := 0; k < n; k++ {
		if byz[k] {
			st[k] = "x"
			continue
		}
		res.Members = append(res.Members, k)
		pp, sh := pd[k].GetGroupPublicPoly(sid), pd[k].GetShareSecurity(sid)
		if st[k] == "D" && pp != nil && sh != nil {
			_, commits := pp.Info()
			outsAll[k] = Outcome{Finished: true, Share: &dkg.DistKeyShare{Commits: commits, Share: sh}}
		} else if st[k] == "D" {
			st[k] = "F:noresult"
		}
		res.Outs = append(res.Outs, outsAll[k])
	}
	// key classes over the honest members, x for the Byzantine seats
	hk := KeyClasses(res.Outs)
	keys, q := "", 0
	for k := 0; k < n; k++ {
		if byz[k] {
			keys += "x"
		} else {
			keys += string(hk[q])
			q++
		}
	}
	return fmt.Sprintf("st=%s keys=%s", strings.Join(st, ","), keys), res
}

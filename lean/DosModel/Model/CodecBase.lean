/-
Outcome type and byte-level primitives shared by the codec models (`Model/Codec.lean`: the affine value-level
model of point.go; `Model/CodecRep.lean`: the representation-level transcription over any coordinate type).
Split from Model/Codec.lean (round 4) so that the representation-level model can be imported next to C10's
models (`Model/Bn256Curve.lean` …), which clash with `Model/Bn256.lean` on `Dos.Bn256.p`.  Core Lean only.
-/
import DosModel.Model.Util

namespace Dos.Codec
open Dos

inductive DecErr where
  | short      -- "not enough data"
  | malformed  -- "malformed point": bad tag, curve equation, subgroup
  | noncanon   -- "coordinate exceeds modulus"
  | size       -- scalar: "wrong size buffer"
  | range      -- scalar: "value out of range"
  | eof        -- UnmarshalFrom: reader empty
  | ueof       -- UnmarshalFrom: reader ended inside the element
  deriving DecidableEq, Repr

inductive Out (α : Type) where
  | ok (v : α)
  | err (e : DecErr)
  | panic (site : String)
  deriving Repr, DecidableEq

def Out.bind : Out α → (α → Out β) → Out β
  | .ok v, f => f v
  | .err e, _ => .err e
  | .panic s, _ => .panic s

instance : Monad Out where
  pure := .ok
  bind := Out.bind

def Out.isPanic : Out α → Bool
  | .panic _ => true
  | _ => false

/-- Go `buf[off:]` -/
def sliceFrom (buf : Bytes) (off : Nat) : Out Bytes :=
  if off ≤ buf.length then .ok (buf.drop off) else .panic "slice bounds out of range"

/-- `gfP.Unmarshal(in)` (repaired: overwrites): reads `in[0..31]` big-endian; indexes past a shorter slice panic -/
def gfpUnmarshal (inp : Bytes) : Out Nat :=
  if 32 ≤ inp.length then .ok (beNat (inp.take 32)) else .panic "index out of range"

/-- `gfP.Marshal` of a decoded coordinate -/
def be32 (n : Nat) : Bytes := natBE 32 n

/-- `n` consecutive reads `c_i.Unmarshal(buf[i*32:])` (G1: two, G2: four after the tag byte, GT: twelve):
read a coordinate, re-slice 32 bytes further (`buf[(i+1)*32:] = buf[i*32:][32:]`) -/
def readCoords : Nat → Bytes → Out (List Nat)
  | 0, _ => .ok []
  | n + 1, buf =>
    match gfpUnmarshal buf with
    | .ok c =>
      match sliceFrom buf 32 with
      | .ok rest =>
        match readCoords n rest with
        | .ok cs => .ok (c :: cs)
        | .err e => .err e
        | .panic s => .panic s
      | .err e => .err e
      | .panic s => .panic s
    | .err e => .err e
    | .panic s => .panic s

/-- Go `b[lo:hi]` -/
def sliceRange (b : Bytes) (lo hi : Nat) : Out Bytes :=
  if lo ≤ hi ∧ hi ≤ b.length then .ok ((b.drop lo).take (hi - lo))
  else .panic "slice bounds out of range"

def errName : DecErr → String
  | .short => "short" | .malformed => "malformed" | .noncanon => "noncanon"
  | .size => "size" | .range => "range" | .eof => "eof" | .ueof => "ueof"

def showOut (f : α → String) : Out α → String
  | .ok v => "ok " ++ f v
  | .err e => "err " ++ errName e
  | .panic s => "panic " ++ s

end Dos.Codec

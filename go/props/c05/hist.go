package c05

import (
	"fmt"
	"strings"

	"verifharness/internal/dkgnet"
	"verifharness/internal/h"
)

// hist lines (language: dkgnet.RunHistLine): HISTORIES of key generations run with the same long-term
// keys. Everything honest members sign or seal in any session of the history – and the answers of
// oracle queries (an adversarial deal handed to a fresh real generator of an honest member) – is
// material for the adversary in every session.

func execHist(w []string) (res h.Result) {
	impl, hs := dkgnet.RunHistLine(w[:8])
	res.Impl = impl
	res.Nontrivial = true
	fin := hs.HonestFinishers()
	var fs []string
	for _, c := range fin {
		fs = append(fs, fmt.Sprint(c))
	}
	res.Class = fmt.Sprintf("hist-n%d-S%d-honestfin%s", hs.N, hs.S, strings.Join(fs, "."))
	res.Oracle = hs.Oracle()
	return
}

type hinj struct {
	s, i int
	kind string // "d" | "r"
	pos  int
	rep  bool
	ref  string
}

func (x hinj) String() string {
	op := "+"
	if x.rep {
		op = "="
	}
	return fmt.Sprintf("%d.%d.%s.%d%s%s", x.s, x.i, x.kind, x.pos, op, x.ref)
}

func histLine(seed uint64, n, b, S int, bspec []string, queries []string, injs []hinj) string {
	q := "-"
	if len(queries) > 0 {
		q = strings.Join(queries, ";")
	}
	sc := "-"
	if len(injs) > 0 {
		var xs []string
		for _, x := range injs {
			xs = append(xs, x.String())
		}
		sc = strings.Join(xs, ",")
	}
	return fmt.Sprintf("hist %d %d %d %d %s %s %s", seed, n, b, S, strings.Join(bspec, ";"), q, sc)
}

func honestOf(n, b int) []int {
	var out []int
	for k := 0; k < n; k++ {
		if k != b {
			out = append(out, k)
		}
	}
	return out
}

// all gives every honest recipient the same variant
func all(n int, v string) string {
	var xs []string
	for k := 0; k < n-1; k++ {
		xs = append(xs, v)
	}
	return strings.Join(xs, ",")
}

// defResp lists member i's default response batch as (responder k, dealer j), given that every member
// emits its responses in the order of its default deal batch
func defResp(n, i int) [][2]int {
	var out [][2]int
	for k := 0; k < n; k++ {
		if k == i {
			continue
		}
		for j := 0; j < n; j++ {
			if j != k {
				out = append(out, [2]int{k, j})
			}
		}
	}
	return out
}

func posOf(n, i, k, j int) int {
	for q, x := range defResp(n, i) {
		if x[0] == k && x[1] == j {
			return q
		}
	}
	return -1
}

// twoFace: b ran two other key generations with the same keys, dealing polynomial 1 in one and polynomial 2
// in the other to everybody; in the attacked one it deals polynomial 1 to the victim a and polynomial 2 to
// the other honest members, and backs each view with the approvals the other side signed for exactly that
// polynomial in the other generations – delivered at the chosen positions relative to the genuine responses
// (where: "first", "before" / "after" the genuine response of that responder about b, "last"). att is the
// position of the attacked generation in the history (the others may run before, after or around it).
func twoFace(seed uint64, n, b, a, att int, whereA, whereO string) string {
	S := 3
	order := []int{}
	for s := 0; s < S; s++ {
		if s != att {
			order = append(order, s)
		}
	}
	s1, s2 := order[0], order[1] // s1: polynomial 1 for everybody, s2: polynomial 2 for everybody
	bspec := make([]string, S)
	bspec[s1], bspec[s2] = all(n, "good1"), all(n, "good2")
	var vs []string
	for _, i := range honestOf(n, b) {
		if i == a {
			vs = append(vs, "good1")
		} else {
			vs = append(vs, "good2")
		}
	}
	bspec[att] = strings.Join(vs, ",")
	place := func(i, k int, where string) int {
		switch where {
		case "first":
			return 0
		case "before":
			return posOf(n, i, k, b)
		case "after":
			return posOf(n, i, k, b) + 1
		}
		return len(defResp(n, i))
	}
	var injs []hinj
	for _, i := range honestOf(n, b) {
		for _, k := range honestOf(n, b) {
			if k == i {
				continue
			}
			if i == a { // a holds polynomial 1: it needs k's approval of polynomial 1, signed in s1
				injs = append(injs, hinj{att, i, "r", place(i, k, whereA), false, fmt.Sprintf("r:%d:%d:%d", s1, k, b)})
			} else if k == a { // i holds polynomial 2: it needs a's approval of polynomial 2, signed in s2
				injs = append(injs, hinj{att, i, "r", place(i, k, whereO), false, fmt.Sprintf("r:%d:%d:%d", s2, k, b)})
			}
		}
	}
	return histLine(seed, n, b, S, bspec, nil, injs)
}

// genHist: the generator of the history cases.
func genHist(tier string, rng *h.Rng, emit func(string)) {
	thorough := tier == "thorough"
	seed := func() uint64 { return rng.U64() >> 1 }
	wheres := []string{"first", "before", "after", "last"}
	for n := 3; n <= 5; n++ {
		bs := []int{n - 1}
		if n == 3 {
			bs = append(bs, 0)
		}
		for _, b := range bs {
			hon := honestOf(n, b)
			// 0. honest histories: the same polynomial of b in every generation, other polynomials, nothing injected
			emit(histLine(seed(), n, b, 2, []string{all(n, "g"), all(n, "g")}, nil, nil))
			emit(histLine(seed(), n, b, 3, []string{all(n, "good1"), all(n, "good1"), all(n, "good2")}, nil, nil))
			// 1. equivocation backed by cross-session approvals, every combination of positions relative to the
			// genuine responses, the attacked generation first / in the middle / last
			for _, a := range hon {
				for _, wa := range wheres {
					for _, wo := range wheres {
						for att := 0; att < 3; att++ {
							if !thorough {
								// quick: n = 3, b = n-1: every position pair with the attacked generation last; everything else sampled
								if att != 2 && rng.Intn(8) != 0 {
									continue
								}
								if (n > 3 || b != n-1) && rng.Intn(6*(n-2)*(n-2)) != 0 {
									continue
								}
							}
							emit(twoFace(seed(), n, b, a, att, wa, wo))
						}
					}
				}
			}
			// 2. one message of ANOTHER generation (b dealt the SAME polynomial there, so its session id is
			// valid here too, or another one) at every position of an honest member's batch
			for _, same := range []bool{true, false} {
				other := "good1"
				if !same {
					other = "good2"
				}
				bspec := []string{all(n, other), all(n, "good1")}
				for _, i := range hon {
					if !thorough && (n >= 4 || b != n-1) && i != hon[0] {
						continue
					}
					nd, nr := n-1, len(defResp(n, i))
					var cands []hinj
					for pos := 0; pos <= nr; pos++ {
						for _, k := range hon {
							if k == i {
								continue
							}
							for j := 0; j < n; j++ {
								if j == k {
									continue
								}
								// k's response about dealer j in the other generation
								cands = append(cands, hinj{1, i, "r", pos, false, fmt.Sprintf("r:0:%d:%d", k, j)})
							}
							// ... re-labelled to another dealer
							cands = append(cands, hinj{1, i, "r", pos, false, fmt.Sprintf("r:0:%d:%d:%d", k, b, hon[0])})
						}
						// the member's own old approval coming back
						cands = append(cands, hinj{1, i, "r", pos, false, fmt.Sprintf("r:0:%d:%d", i, b)})
					}
					for pos := 0; pos <= nd; pos++ {
						for _, j := range hon {
							if j == i {
								continue
							}
							// an honest dealer's deal of the other generation, before or instead of the current one
							cands = append(cands, hinj{1, i, "d", pos, false, fmt.Sprintf("d:0:%d:%d", j, i)})
							if pos < nd {
								cands = append(cands, hinj{1, i, "d", pos, true, fmt.Sprintf("d:0:%d:%d", j, i)})
							}
							// ... addressed to somebody else / presented under b's index
							cands = append(cands, hinj{1, i, "d", pos, false, fmt.Sprintf("d:0:%d:%d", j, hon[(indexOf(hon, i)+1)%len(hon)])})
							cands = append(cands, hinj{1, i, "d", pos, false, fmt.Sprintf("d:0:%d:%d:%d", j, i, b)})
						}
						cands = append(cands, hinj{1, i, "d", pos, false, fmt.Sprintf("B:0:%d", i)})
						cands = append(cands, hinj{1, i, "d", pos, false, fmt.Sprintf("B:0:%d:%d", i, hon[0])})
					}
					for _, c := range cands {
						if !thorough {
							// quick: n = 3, b = n-1, same polynomial: every response candidate, half of the deal candidates;
							// the rest sampled
							full := n == 3 && b == n-1 && same
							if full && c.kind == "d" && rng.Intn(2) != 0 {
								continue
							}
							if !full && rng.Intn(10*(n-2)*(n-2)) != 0 {
								continue
							}
						}
						emit(histLine(seed(), n, b, 2, bspec, nil, []hinj{c}))
					}
				}
			}
			// 3. oracle answers: a complaint / an approval an honest member signs for a deal of b in a run of its
			// own, delivered to another honest member (or back to the same one) at every position; b's dealing in
			// the attacked generation uses the same polynomial, so the session id fits
			for _, v := range []string{"bad1", "good1", "T1p1", "idx0p1", "xw1_2"} {
				for _, k := range hon {
					for _, i := range hon {
						if !thorough && ((n >= 4 || b != n-1) && (i != hon[0] || k != hon[1])) {
							continue
						}
						if !thorough && n >= 4 && v != "bad1" && v != "good1" {
							continue
						}
						nr := len(defResp(n, i))
						for pos := 0; pos <= nr; pos++ {
							if !thorough && pos != 0 && pos != nr && pos != posOf(n, i, k, b) && pos != posOf(n, i, k, b)+1 {
								continue
							}
							q := fmt.Sprintf("%d:%d:%d:%s", k, b, b, v)
							emit(histLine(seed(), n, b, 1, []string{all(n, "good1")}, []string{q}, []hinj{{0, i, "r", pos, false, "o:0"}}))
						}
					}
				}
			}
			// 4. equivocation in which one side is backed by ORACLE answers only (no complete earlier generation)
			for _, a := range hon {
				var vs []string
				var qs []string
				var injs []hinj
				for _, i := range hon {
					if i == a {
						vs = append(vs, "good1")
					} else {
						vs = append(vs, "good2")
					}
				}
				for _, i := range hon {
					for _, k := range hon {
						if k == i {
							continue
						}
						if i == a {
							qs = append(qs, fmt.Sprintf("%d:%d:%d:good1", k, b, b))
							injs = append(injs, hinj{0, i, "r", 0, false, fmt.Sprintf("o:%d", len(qs)-1)})
						} else if k == a {
							qs = append(qs, fmt.Sprintf("%d:%d:%d:good2", k, b, b))
							injs = append(injs, hinj{0, i, "r", 0, false, fmt.Sprintf("o:%d", len(qs)-1)})
						}
					}
				}
				emit(histLine(seed(), n, b, 1, []string{strings.Join(vs, ",")}, qs, injs))
			}
			// 5. pairs: a cross-session message combined with a single-session deviation of b's dealing or with a
			// second cross-session message
			np := 12 / (n - 2)
			if thorough {
				np = 400
			}
			variants := []string{"good1", "good2", "bad1", "xw1_2", "T1p1", "Tc1p1", "idx0p1", "clen1p1", "nilv", "sidraw", "junk", "nil", "g"}
			for c := 0; c < np; c++ {
				S := 2 + rng.Intn(2)
				var bspec []string
				for s := 0; s < S; s++ {
					var vs []string
					for range hon {
						vs = append(vs, variants[rng.Intn(len(variants))])
					}
					if rng.Intn(2) == 0 {
						vs = strings.Split(all(n, variants[rng.Intn(2)]), ",")
					}
					bspec = append(bspec, strings.Join(vs, ","))
				}
				var injs []hinj
				for q := 0; q < 1+rng.Intn(3); q++ {
					s, i := rng.Intn(S), hon[rng.Intn(len(hon))]
					s2 := rng.Intn(S)
					k := hon[rng.Intn(len(hon))]
					if rng.Intn(3) == 0 {
						injs = append(injs, hinj{s, i, "d", rng.Intn(n), rng.Intn(4) == 0, fmt.Sprintf("d:%d:%d:%d", s2, k, i)})
					} else {
						injs = append(injs, hinj{s, i, "r", rng.Intn(len(defResp(n, i)) + 1), false, fmt.Sprintf("r:%d:%d:%d", s2, k, rng.Intn(n))})
					}
				}
				emit(histLine(seed(), n, b, S, bspec, nil, injs))
			}
		}
	}
}

/-
Liveness of honest key generation, group level (C04.5): every run of the event system
`Model/DkgNet.lean` keeps the member invariant of every member (all messages in flight are
genuine), and a complete run ends with every member done.
-/
import DosModel.Proofs.DkgLiveEvents

set_option linter.unusedSectionVars false

namespace Dos.Dkg
open Dos Dos.Vss

variable {F G : Type} [Field F] [AddCommGroup G] [Module F G] [DecidableEq F] [DecidableEq G]

/-! ### what a member has sent, read off the invariant -/

def pkSel : Sent F G → Option (PkMsg G)
  | .pk x => some x
  | _ => none
def dealSel (i : Nat) : Sent F G → Option (DkgDeal F G)
  | .deal t x => if t = i then some x else none
  | _ => none
def respsSel : Sent F G → Option (List (DkgResp F G))
  | .resps x => some x
  | _ => none

theorem sentPk_eq (m : Member F G) : sentPk m = m.sent.findSome? pkSel := by
  unfold sentPk; congr
theorem sentDeal_eq (m : Member F G) (i : Nat) : sentDeal m i = m.sent.findSome? (dealSel i) := by
  unfold sentDeal; congr
theorem sentResps_eq (m : Member F G) : sentResps m = m.sent.findSome? respsSel := by
  unfold sentResps; congr

theorem findDeal_map (D : Nat → DkgDeal F G) (i : Nat) : ∀ (l : List (Nat × DkgDeal F G)) (tail : List (Sent F G)),
    (∀ x ∈ l, x.2 = D x.1) →
    (l.map (fun x => Sent.deal x.1 x.2) ++ tail).findSome? (dealSel i) =
      if i ∈ l.map (·.1) then some (D i) else tail.findSome? (dealSel i) := by
  intro l
  induction l with
  | nil => intro tail _; simp
  | cons a l ih =>
    intro tail h
    simp only [List.map_cons, List.cons_append, List.findSome?_cons, List.mem_cons, dealSel]
    by_cases ha : a.1 = i
    · simp [ha, h a (by simp)]
    · have hne : ¬ (i = a.1) := fun he => ha he.symm
      simp only [ha, if_false, hne, false_or]
      exact ih tail (fun x hx => h x (by simp [hx]))

theorem findPk_deals (l : List (Nat × DkgDeal F G)) (tail : List (Sent F G)) :
    (l.map (fun x => Sent.deal x.1 x.2) ++ tail).findSome? (pkSel (F := F) (G := G)) = tail.findSome? pkSel := by
  induction l with
  | nil => simp
  | cons a l ih => simp [List.findSome?_cons, pkSel, ih]

theorem findResps_deals (l : List (Nat × DkgDeal F G)) (tail : List (Sent F G)) :
    (l.map (fun x => Sent.deal x.1 x.2) ++ tail).findSome? (respsSel (F := F) (G := G)) = tail.findSome? respsSel := by
  induction l with
  | nil => simp
  | cons a l ih => simp [List.findSome?_cons, respsSel, ih]

theorem local_sent (c : Cfg F G) (ephs : List (List F)) (i : Nat) (m : Member F G) (st : Bool) (sp sd : List Nat)
    (sr : List (Nat × Nat)) (h : LocalInv c ephs i m st sp sd sr) :
    (∀ x, sentPk m = some x → x = c.pkMsg i) ∧ (st = true → sentPk m = some (c.pkMsg i)) ∧
    (∀ tgt x, sentDeal m tgt = some x → x = c.dealMsg ephs i tgt ∧ tgt < c.n ∧ tgt ≠ i) ∧
    (2 ≤ stageRank m.stage → ∀ tgt, tgt < c.n → tgt ≠ i → sentDeal m tgt = some (c.dealMsg ephs i tgt)) ∧
    (∀ xs, sentResps m = some xs → GoodResps c i xs) ∧
    (3 ≤ stageRank m.stage → ∃ xs, sentResps m = some xs) := by
  obtain ⟨gpk, gdl, grs, h, _⟩ := h
  simp only [sentPk_eq, sentDeal_eq, sentResps_eq]
  have hdeals : ∀ (tail : List (Sent F G)) (tgt : Nat),
      (Sent.pk (c.pkMsg i) :: sentDeals c ephs i ++ tail).findSome? (dealSel tgt) =
      if tgt < c.n ∧ tgt ≠ i then some (c.dealMsg ephs i tgt) else tail.findSome? (dealSel tgt) := by
    intro tail tgt
    rw [List.cons_append, List.findSome?_cons]
    simp only [dealSel, sentDeals]
    rw [findDeal_map (fun t => c.dealMsg ephs i t) tgt _ tail (by
      intro x hx
      simp only [List.mem_filterMap, List.mem_range] at hx
      obtain ⟨t, _, ht⟩ := hx
      by_cases hti : t = i
      · simp [hti] at ht
      · simp only [hti, if_false, Option.some.injEq] at ht; rw [← ht])]
    have hmem : tgt ∈ ((List.range c.n).filterMap (fun t => if t = i then none else some (t, c.dealMsg ephs i t))).map (·.1)
        ↔ tgt < c.n ∧ tgt ≠ i := by
      simp only [List.mem_map, List.mem_filterMap, List.mem_range]
      constructor
      · rintro ⟨x, ⟨t, ht, hx⟩, rfl⟩
        by_cases hti : t = i
        · simp [hti] at hx
        · simp only [hti, if_false, Option.some.injEq] at hx; rw [← hx]; exact ⟨ht, hti⟩
      · rintro ⟨h1, h2⟩
        exact ⟨(tgt, c.dealMsg ephs i tgt), ⟨tgt, h1, by simp [h2]⟩, rfl⟩
    by_cases hc : tgt < c.n ∧ tgt ≠ i
    · rw [if_pos (hmem.2 hc), if_pos hc]
    · rw [if_neg (fun hh => hc (hmem.1 hh)), if_neg hc]
  have hpkf : ∀ tail : List (Sent F G), (Sent.pk (c.pkMsg i) :: sentDeals c ephs i ++ tail).findSome? pkSel = some (c.pkMsg i) := by
    intro tail; simp [List.findSome?_cons, pkSel]
  have hrsf : ∀ tail : List (Sent F G), (Sent.pk (c.pkMsg i) :: sentDeals c ephs i ++ tail).findSome? respsSel
      = tail.findSome? respsSel := by
    intro tail
    rw [List.cons_append, List.findSome?_cons]
    simp only [respsSel, sentDeals]
    exact findResps_deals _ tail
  have hr5 : stageRank m.stage ≤ 4 := by
    have := h.hfail
    have : stageRank m.stage ≤ 5 := by cases m.stage <;> simp [stageRank]
    omega
  rcases Nat.lt_or_ge (stageRank m.stage) 1 with h0 | h1
  · have hs := h.hsent.1 (by omega)
    have hst : st = false := h.hst.2 (by omega)
    rw [hs]
    refine ⟨by simp, by simp [hst], by simp, fun hh => by omega, by simp, fun hh => by omega⟩
  · have hstt : st = true := by
      cases st with
      | true => rfl
      | false => have := h.hst.1 rfl; omega
    rcases Nat.lt_or_ge (stageRank m.stage) 2 with h1' | h2
    · have hs := h.hsent.2.1 (by omega)
      rw [hs]
      refine ⟨by simp [pkSel], fun _ => by simp [pkSel], by simp [dealSel], fun hh => by omega, by simp [respsSel], fun hh => by omega⟩
    · rcases Nat.lt_or_ge (stageRank m.stage) 3 with h2' | h3
      · have hs := h.hsent.2.2.1 (by omega)
        have hs' : m.sent = Sent.pk (c.pkMsg i) :: sentDeals c ephs i ++ [] := by simpa using hs
        rw [hs']
        refine ⟨fun x hx => by rw [hpkf] at hx; injection hx with hx; exact hx.symm, fun _ => hpkf [], ?_, ?_, ?_, fun hh => by omega⟩
        · intro tgt x hx
          rw [hdeals [] tgt] at hx
          by_cases hc : tgt < c.n ∧ tgt ≠ i
          · rw [if_pos hc] at hx; injection hx with hx; exact ⟨hx.symm, hc.1, hc.2⟩
          · rw [if_neg hc] at hx; simp at hx
        · intro _ tgt h1 h2
          rw [hdeals [] tgt, if_pos ⟨h1, h2⟩]
        · intro xs hx
          rw [hrsf] at hx; simp at hx
      · obtain ⟨rs, hgood, hs⟩ := h.hsent.2.2.2 h3
        rw [hs]
        refine ⟨fun x hx => by rw [hpkf] at hx; injection hx with hx; exact hx.symm, fun _ => hpkf _, ?_, ?_, ?_, ?_⟩
        · intro tgt x hx
          rw [hdeals [Sent.resps rs] tgt] at hx
          by_cases hc : tgt < c.n ∧ tgt ≠ i
          · rw [if_pos hc] at hx; injection hx with hx; exact ⟨hx.symm, hc.1, hc.2⟩
          · rw [if_neg hc] at hx; simp [dealSel] at hx
        · intro _ tgt h1 h2
          rw [hdeals [Sent.resps rs] tgt, if_pos ⟨h1, h2⟩]
        · intro xs hx
          rw [hrsf] at hx
          simp only [List.findSome?_cons, respsSel, Option.some.injEq] at hx
          rw [← hx]; exact hgood
        · intro _; exact ⟨rs, by rw [hrsf]; simp [respsSel]⟩

/-! ### the group -/

/-- what the log of effective deliveries says about member `i`'s inputs -/
def Linked (c : Cfg F G) (i : Nat) (dl : List Ev) (st : Bool) (sp sd : List Nat) (sr : List (Nat × Nat)) : Prop :=
  (Ev.start i ∈ dl → st = true) ∧ (∀ j, Ev.pk j i ∈ dl → j ∈ sp) ∧ (∀ j, Ev.deal j i ∈ dl → j ∈ sd) ∧
  (∀ k, Ev.resps k i ∈ dl → ∀ j ∈ others c.n k, (j, k) ∈ sr)

def SysInv (c : Cfg F G) (ephs : List (List F)) (s : Sys F G) : Prop :=
  s.ms.length = c.n ∧ ∀ i, i < c.n → ∃ m st sp sd sr, s.ms[i]? = some m ∧ LocalInv c ephs i m st sp sd sr ∧
    Linked c i s.delivered st sp sd sr

/-- the target of an event -/
def Ev.target : Ev → Nat
  | .start i => i | .pk _ i => i | .deal _ i => i | .resps _ i => i

theorem linked_other (c : Cfg F G) (k : Nat) (dl : List Ev) (e : Ev) (hk : e.target ≠ k) (st : Bool) (sp sd : List Nat)
    (sr : List (Nat × Nat)) (h : Linked c k dl st sp sd sr) : Linked c k (dl ++ [e]) st sp sd sr := by
  obtain ⟨h1, h2, h3, h4⟩ := h
  refine ⟨fun hm => h1 ?_, fun j hm => h2 j ?_, fun j hm => h3 j ?_, fun j hm => h4 j ?_⟩ <;>
  · rcases List.mem_append.1 hm with hm | hm
    · exact hm
    · simp only [List.mem_singleton] at hm
      rw [← hm] at hk; exact absurd rfl hk

/-- updating member `i` by an event aimed at it -/
theorem sysInv_upd (c : Cfg F G) (ephs : List (List F)) (s : Sys F G) (hs : SysInv c ephs s) (e : Ev)
    (f : Member F G → Member F G)
    (hnew : e.target < c.n → ∀ m st sp sd sr, s.ms[e.target]? = some m → LocalInv c ephs e.target m st sp sd sr →
      Linked c e.target s.delivered st sp sd sr →
      ∃ st' sp' sd' sr', LocalInv c ephs e.target (f m) st' sp' sd' sr' ∧ Linked c e.target (s.delivered ++ [e]) st' sp' sd' sr') :
    SysInv c ephs (s.upd e.target f e) := by
  obtain ⟨hlen, hmem⟩ := hs
  refine ⟨by simp [Sys.upd, hlen], ?_⟩
  intro k hk
  obtain ⟨m, st, sp, sd, sr, hm, hinv, hlink⟩ := hmem k hk
  by_cases hke : e.target = k
  · subst hke
    obtain ⟨st', sp', sd', sr', h1, h2⟩ := hnew hk m st sp sd sr hm hinv hlink
    exact ⟨f m, st', sp', sd', sr', by simp [Sys.upd, List.getElem?_modify, hm], h1, h2⟩
  · refine ⟨m, st, sp, sd, sr, ?_, hinv, linked_other c k s.delivered e hke st sp sd sr hlink⟩
    simp only [Sys.upd, List.getElem?_modify]
    simp [hke, hm]

theorem init_local (c : Cfg F G) (ephs : List (List F)) (i : Nat) (hi : i < c.n) :
    LocalInv c ephs i (Member.init c.n i (c.longs.getD i 0) (c.polys.getD i []) (ephs.getD i [])) false [] [] [] := by
  have p0 : ∀ {M κ : Type} [DecidableEq κ] (P : M → Prop) (key : M → κ) (K : List κ) (k : Nat),
      PairInv P key K k [] false ((⟨[], none⟩ : Pair M), (none : Option (List M))) := by
    intro M κ _ P key K k
    exact ⟨fun _ => ⟨by simp, by simp, fun h => (by cases h), fun _ => rfl, by simp⟩, fun b hb => (by cases hb)⟩
  refine ⟨none, none, none, ⟨rfl, rfl, rfl, rfl, rfl, p0 _ _ _ _, p0 _ _ _ _, p0 _ _ _ _, by simp, by simp, by simp,
    by simp [Member.init, stageRank], by simp [Member.init, stageRank], ?_, ?_, ?_, ?_, ?_, ?_,
    ⟨fun d hd => (by cases hd), fun d hd => (by cases hd), fun d ks hd => (by cases hd)⟩⟩, ?_⟩
  · exact ⟨fun _ => rfl, fun hh => by simp [Member.init, stageRank] at hh⟩
  · exact ⟨fun _ => rfl, fun hh => by simp [Member.init, stageRank] at hh⟩
  · exact ⟨fun _ => rfl, fun hh => by simp [Member.init, stageRank] at hh⟩
  · intro d hd; cases hd
  · intro d hd; cases hd
  · exact ⟨fun _ => rfl, fun hh => by simp [Member.init, stageRank] at hh, fun hh => by simp [Member.init, stageRank] at hh,
      fun hh => by simp [Member.init, stageRank] at hh⟩
  · exact ⟨fun hh => by simp [Member.init, stageRank] at hh, fun hh => by simp [Member.init, stageRank] at hh,
      fun hh => by simp [Member.init, stageRank] at hh⟩

theorem sysInv_init (c : Cfg F G) (ephs : List (List F)) : SysInv c ephs (initSys c ephs) := by
  refine ⟨by simp [initSys], ?_⟩
  intro i hi
  refine ⟨_, false, [], [], [], by simp [initSys, hi], init_local c ephs i hi, ?_⟩
  simp [Linked, initSys]

/-- how far a started member has got, from what it has received -/
theorem local_rank (c : Cfg F G) (ephs : List (List F)) (i : Nat) (hi : i < c.n)
    (m : Member F G) (sp sd : List Nat) (sr : List (Nat × Nat)) (h : LocalInv c ephs i m true sp sd sr)
    (hp : ∀ j ∈ others c.n i, j ∈ sp) :
    2 ≤ stageRank m.stage ∧ ((∀ j ∈ others c.n i, j ∈ sd) → 3 ≤ stageRank m.stage) := by
  obtain ⟨gpk, gdl, grs, h, hq⟩ := h
  have fired : ∀ {M κ : Type} [DecidableEq κ] (P : M → Prop) (key : M → κ) (K seen : List κ) (k : Nat) (st : Pair M × Option (List M)),
      K.Nodup → K.length = k → PairInv P key K k seen true st → (∀ x ∈ seen, x ∈ K) → (∀ x ∈ K, x ∈ seen) → st.2.isSome = true := by
    intro M κ _ P key K seen k st hnd hlen hinv hsub hall
    rcases hbox : st.2 with _ | b
    · exfalso
      obtain ⟨hnd', hmem, hreg, _, _⟩ := hinv.open_ hbox
      have hlt := (hreg rfl).2
      have h1 := nodup_subset_length_le hnd (fun x hx => (hmem x).2 (hall x hx))
      simp only [List.length_map] at h1
      omega
    · rfl
  have f0 := fired (GPk c i) keyPk (others c.n i) sp (c.n - 1) (m.pkP, gpk) (nodup_others c.n i) (length_others c.n i hi) h.ppk h.hsp hp
  simp only at f0
  have hne0 : stageRank m.stage ≠ 0 := by intro h0; have := h.hst.2 h0; cases this
  have h2 : 2 ≤ stageRank m.stage := by
    by_contra hlt
    have hr1 : stageRank m.stage = 1 := by omega
    have h1 := h.hpk.1 (by omega)
    have h2 := hq.1 hr1
    rw [h2] at h1; rw [← h1] at f0; cases f0
  refine ⟨h2, fun hd => ?_⟩
  have f1 := fired (GDl c i) keyDl (others c.n i) sd (c.n - 1) (m.dlP, gdl) (nodup_others c.n i) (length_others c.n i hi) h.pdl h.hsd hd
  simp only at f1
  by_contra hlt
  have hr2 : stageRank m.stage = 2 := by omega
  have h1 := h.hdl.1 (by omega)
  have h2' := hq.2.1 hr2
  rw [h2'] at h1; rw [← h1] at f1; cases f1

theorem member_lt (c : Cfg F G) (ephs : List (List F)) (s : Sys F G) (hs : SysInv c ephs s) (j : Nat) (mj : Member F G)
    (h : s.ms[j]? = some mj) : j < c.n := by
  rcases Nat.lt_or_ge j s.ms.length with hl | hl
  · rw [← hs.1]; exact hl
  · rw [List.getElem?_eq_none hl] at h; cases h

/-- **every event keeps the invariant of every member** -/
theorem sysInv_step (c : Cfg F G) (ephs : List (List F)) (hw : WellFormed c ephs) (s : Sys F G) (hs : SysInv c ephs s)
    (e : Ev) : SysInv c ephs (stepEv c.g s e) := by
  cases e with
  | start i =>
    show SysInv c ephs (s.upd (Ev.start i).target (Member.start c.g) (Ev.start i))
    apply sysInv_upd c ephs s hs
    intro hi m st sp sd sr _ hinv hlink
    refine ⟨true, sp, sd, sr, step_start c ephs hw i hi m st sp sd sr hinv, ?_⟩
    obtain ⟨_, h2, h3, h4⟩ := hlink
    refine ⟨fun _ => rfl, fun j hm => h2 j ?_, fun j hm => h3 j ?_, fun k hm => h4 k ?_⟩ <;>
    · rcases List.mem_append.1 hm with hm | hm
      · exact hm
      · simp at hm
  | pk j i =>
    simp only [stepEv]
    by_cases hji : j = i
    · simp only [hji, if_true]; exact hs
    · simp only [hji, if_false]
      rcases hmj : s.ms[j]? with _ | mj
      · simpa using hs
      · simp only [Option.bind_some]
        rcases hx : sentPk mj with _ | x
        · exact hs
        · simp only
          have hjn := member_lt c ephs s hs j mj hmj
          obtain ⟨mj', stj, spj, sdj, srj, hmj', hinvj, _⟩ := hs.2 j hjn
          rw [hmj] at hmj'; injection hmj' with hmj'; subst hmj'
          have hxe := (local_sent c ephs j mj stj spj sdj srj hinvj).1 x hx
          have hstamp : (fun m : Member F G => m.loopPk c.g j x) = (fun m => m.recvPk c.g x) := by
            funext m; rw [hxe]; rfl
          rw [hstamp]
          show SysInv c ephs (s.upd (Ev.pk j i).target (fun m => m.recvPk c.g x) (Ev.pk j i))
          apply sysInv_upd c ephs s hs
          intro hi m st sp sd sr _ hinv hlink
          have hg : GPk c i x := by rw [hxe]; exact ⟨hjn, hji, rfl⟩
          refine ⟨st, keyPk x :: sp, sd, sr, step_pk c ephs hw i hi m st sp sd sr hinv x hg, ?_⟩
          obtain ⟨h1, h2, h3, h4⟩ := hlink
          refine ⟨fun hm => h1 ?_, fun j' hm => ?_, fun j' hm => h3 j' ?_, fun k hm => h4 k ?_⟩
          · rcases List.mem_append.1 hm with hm | hm
            · exact hm
            · simp at hm
          · rcases List.mem_append.1 hm with hm | hm
            · exact List.mem_cons_of_mem _ (h2 j' hm)
            · simp only [List.mem_singleton, Ev.pk.injEq] at hm
              rw [hm.1, hxe]; exact List.mem_cons_self
          · rcases List.mem_append.1 hm with hm | hm
            · exact hm
            · simp at hm
          · rcases List.mem_append.1 hm with hm | hm
            · exact hm
            · simp at hm
  | deal j i =>
    simp only [stepEv]
    by_cases hji : j = i
    · simp only [hji, if_true]; exact hs
    · simp only [hji, if_false]
      rcases hmj : s.ms[j]? with _ | mj
      · simpa using hs
      · simp only [Option.bind_some]
        rcases hx : sentDeal mj i with _ | x
        · exact hs
        · simp only
          have hjn := member_lt c ephs s hs j mj hmj
          obtain ⟨mj', stj, spj, sdj, srj, hmj', hinvj, _⟩ := hs.2 j hjn
          rw [hmj] at hmj'; injection hmj' with hmj'; subst hmj'
          obtain ⟨hxe, hin, _⟩ := (local_sent c ephs j mj stj spj sdj srj hinvj).2.2.1 i x hx
          show SysInv c ephs (s.upd (Ev.deal j i).target (fun m => m.recvDeal c.g x) (Ev.deal j i))
          apply sysInv_upd c ephs s hs
          intro hi m st sp sd sr _ hinv hlink
          have hg : GDl c i x := by
            rw [hxe]
            obtain ⟨e, he⟩ := sealDeal_some c.g (c.longs.getD j 0) c.pubs i (by rw [c.pubs_length]; exact hi)
              ((ephs.getD j []).getD i 0) 0 (.deal (c.deal j i))
            exact ⟨⟨_, 0, e, hjn, he, he⟩, hji⟩
          refine ⟨st, sp, keyDl x :: sd, sr, step_dl c ephs hw i hi m st sp sd sr hinv x hg, ?_⟩
          obtain ⟨h1, h2, h3, h4⟩ := hlink
          refine ⟨fun hm => h1 ?_, fun j' hm => h2 j' ?_, fun j' hm => ?_, fun k hm => h4 k ?_⟩
          · rcases List.mem_append.1 hm with hm | hm
            · exact hm
            · simp at hm
          · rcases List.mem_append.1 hm with hm | hm
            · exact hm
            · simp at hm
          · rcases List.mem_append.1 hm with hm | hm
            · exact List.mem_cons_of_mem _ (h3 j' hm)
            · simp only [List.mem_singleton, Ev.deal.injEq] at hm
              rw [hm.1, hxe]; exact List.mem_cons_self
          · rcases List.mem_append.1 hm with hm | hm
            · exact hm
            · simp at hm
  | resps k i =>
    simp only [stepEv]
    by_cases hki : k = i
    · simp only [hki, if_true]; exact hs
    · simp only [hki, if_false]
      rcases hmk : s.ms[k]? with _ | mk
      · simpa using hs
      · simp only [Option.bind_some]
        rcases hx : sentResps mk with _ | xs
        · exact hs
        · simp only
          have hkn := member_lt c ephs s hs k mk hmk
          obtain ⟨mk', stk, spk, sdk, srk, hmk', hinvk, _⟩ := hs.2 k hkn
          rw [hmk] at hmk'; injection hmk' with hmk'; subst hmk'
          obtain ⟨js, _, hjs, hxs⟩ := (local_sent c ephs k mk stk spk sdk srk hinvk).2.2.2.2.1 xs hx
          show SysInv c ephs (s.upd (Ev.resps k i).target (fun m => m.recvResps c.g xs) (Ev.resps k i))
          apply sysInv_upd c ephs s hs
          intro hi m st sp sd sr _ hinv hlink
          have hg : ∀ x ∈ xs, GRs c i x := by
            intro x hx'
            rw [hxs] at hx'
            obtain ⟨j, hj, rfl⟩ := List.mem_map.1 hx'
            have hjo := (mem_others c.n k j).1 ((hjs j).1 hj)
            exact ⟨j, k, 0, hjo.1, hkn, hki, fun he => hjo.2 he.symm, rfl⟩
          refine ⟨st, sp, sd, (xs.map keyRs).reverse ++ sr, step_rss c ephs hw i hi xs m st sp sd sr hinv hg, ?_⟩
          obtain ⟨h1, h2, h3, h4⟩ := hlink
          refine ⟨fun hm => h1 ?_, fun j' hm => h2 j' ?_, fun j' hm => h3 j' ?_, fun k' hm => ?_⟩
          · rcases List.mem_append.1 hm with hm | hm
            · exact hm
            · simp at hm
          · rcases List.mem_append.1 hm with hm | hm
            · exact hm
            · simp at hm
          · rcases List.mem_append.1 hm with hm | hm
            · exact hm
            · simp at hm
          · intro j hj
            rcases List.mem_append.1 hm with hm | hm
            · exact List.mem_append_right _ (h4 k' hm j hj)
            · simp only [List.mem_singleton, Ev.resps.injEq] at hm
              obtain ⟨hk', _⟩ := hm
              subst hk'
              apply List.mem_append_left
              rw [List.mem_reverse, hxs, List.map_map]
              exact List.mem_map.2 ⟨j, (hjs j).2 hj, rfl⟩

theorem sysInv_run (c : Cfg F G) (ephs : List (List F)) (hw : WellFormed c ephs) (evs : List Ev) :
    SysInv c ephs (runEvents c ephs evs) := by
  unfold runEvents
  have : ∀ (evs : List Ev) (s : Sys F G), SysInv c ephs s → SysInv c ephs (evs.foldl (stepEv c.g) s) := by
    intro evs
    induction evs with
    | nil => intro s h; exact h
    | cons e es ih => intro s h; exact ih _ (sysInv_step c ephs hw s h e)
  exact this evs _ (sysInv_init c ephs)

/-- **C04.5 `complete_delivery_finishes`**: in every run of the member machines of a well-formed honest
group in which every member is started and every message that is sent is delivered to every other
member at least once – in any order, with any start skew, any number of re-deliveries – every member
finishes. -/
theorem complete_finishes (c : Cfg F G) (ephs : List (List F)) (hw : WellFormed c ephs) (evs : List Ev)
    (hcomp : Complete c.n (runEvents c ephs evs)) :
    ∀ i, i < c.n → ∃ m d ks, (runEvents c ephs evs).ms[i]? = some m ∧ m.stage = .done d ks := by
  have hinv := sysInv_run c ephs hw evs
  generalize runEvents c ephs evs = s at hcomp hinv
  obtain ⟨hstart, hdeliv⟩ := hcomp
  choose m st sp sd sr hm hloc hlink using hinv.2
  -- everybody was started
  have hst : ∀ i (hi : i < c.n), st i hi = true := fun i hi => (hlink i hi).1 (hstart i hi)
  -- hence everybody has everybody's public key
  have hsp : ∀ i (hi : i < c.n), ∀ j ∈ others c.n i, j ∈ sp i hi := by
    intro i hi j hj
    obtain ⟨hjn, hji⟩ := (mem_others c.n i j).1 hj
    have hsent := (local_sent c ephs j (m j hjn) (st j hjn) (sp j hjn) (sd j hjn) (sr j hjn) (hloc j hjn)).2.1 (hst j hjn)
    exact (hlink i hi).2.1 j ((hdeliv i j (m j hjn) hi hjn (Ne.symm hji) (hm j hjn)).1 (by rw [hsent]; rfl))
  have hloc' : ∀ i (hi : i < c.n), LocalInv c ephs i (m i hi) true (sp i hi) (sd i hi) (sr i hi) := by
    intro i hi; have := hloc i hi; rw [hst i hi] at this; exact this
  -- hence everybody has dealt, and everybody has everybody's deal
  have hr2 : ∀ i (hi : i < c.n), 2 ≤ stageRank (m i hi).stage := fun i hi => (local_rank c ephs i hi _ _ _ _ (hloc' i hi) (hsp i hi)).1
  have hsd : ∀ i (hi : i < c.n), ∀ j ∈ others c.n i, j ∈ sd i hi := by
    intro i hi j hj
    obtain ⟨hjn, hji⟩ := (mem_others c.n i j).1 hj
    have hsent := (local_sent c ephs j (m j hjn) (st j hjn) (sp j hjn) (sd j hjn) (sr j hjn) (hloc j hjn)).2.2.2.1 (hr2 j hjn) i hi (Ne.symm hji)
    exact (hlink i hi).2.2.1 j ((hdeliv i j (m j hjn) hi hjn (Ne.symm hji) (hm j hjn)).2.1 (by rw [hsent]; rfl))
  -- hence everybody has answered, and everybody has everybody's responses
  have hr3 : ∀ i (hi : i < c.n), 3 ≤ stageRank (m i hi).stage :=
    fun i hi => (local_rank c ephs i hi _ _ _ _ (hloc' i hi) (hsp i hi)).2 (hsd i hi)
  have hsr : ∀ i (hi : i < c.n), ∀ p ∈ respKeys c.n i, p ∈ sr i hi := by
    intro i hi p hp
    obtain ⟨hk, hki, hj, hjk⟩ := (mem_respKeys c.n i p).1 hp
    obtain ⟨xs, hsent⟩ := (local_sent c ephs p.2 (m p.2 hk) (st p.2 hk) (sp p.2 hk) (sd p.2 hk) (sr p.2 hk) (hloc p.2 hk)).2.2.2.2.2 (hr3 p.2 hk)
    have := (hlink i hi).2.2.2 p.2 ((hdeliv i p.2 (m p.2 hk) hi hk (Ne.symm hki) (hm p.2 hk)).2.2 (by rw [hsent]; rfl))
      p.1 ((mem_others c.n p.2 p.1).2 ⟨hj, hjk⟩)
    exact this
  intro i hi
  obtain ⟨d, ks, hdone⟩ := local_done c ephs i hi (m i hi) _ _ _ (hloc' i hi) (hsp i hi) (hsd i hi) (hsr i hi)
  exact ⟨m i hi, d, ks, hm i hi, hdone⟩

/-- **the event system only produces `HonestReach` states**: after ANY schedule (complete or not), the
generator a member of a well-formed honest group carries is a state in the sense of `HonestReach`,
no member has failed, and a member in stage `done` holds the key share `DistKeyShare()` returned on
that generator – the finishers of `runEvents` are finishers in the sense of the C04 theorems. -/
theorem runEvents_sound (c : Cfg F G) (ephs : List (List F)) (hw : WellFormed c ephs) (evs : List Ev)
    (i : Nat) (m : Member F G) (hm : (runEvents c ephs evs).ms[i]? = some m) :
    i < c.n ∧ (∀ why, m.stage ≠ .failed why) ∧
    (∀ d, m.stage = .waitDeals d → HonestReach c i d) ∧ (∀ d, m.stage = .waitResps d → HonestReach c i d) ∧
    (∀ d ks, m.stage = .done d ks → HonestReach c i d ∧ distKeyShare d = .ok ks) := by
  have hinv := sysInv_run c ephs hw evs
  have hi : i < c.n := by
    rw [← hinv.1]
    rcases Nat.lt_or_ge i (runEvents c ephs evs).ms.length with h | h
    · exact h
    · rw [List.getElem?_eq_none h] at hm; cases hm
  obtain ⟨m', st, sp, sd, sr, hm', ⟨gpk, gdl, grs, hloc, _⟩, _⟩ := hinv.2 i hi
  rw [hm] at hm'; injection hm' with hm'; subst hm'
  refine ⟨hi, ?_, hloc.hreach⟩
  intro why hs
  exact hloc.hfail (by rw [hs]; rfl)

end Dos.Dkg

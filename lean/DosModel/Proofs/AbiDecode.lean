/-
Helper lemmas for the ABI layer: the decoder never panics, what it returns is well-typed.
-/
import DosModel.Proofs.Abi

namespace Dos.Abi
open Dos Dos.ReqLoop

/-- the result is a value or an ordinary error -/
def NoPanic {α : Type} (r : Dec α) : Prop := ∀ s, r ≠ .error (.panic s)

theorem noPanic_ok {α : Type} (a : α) : NoPanic (.ok a : Dec α) := by intro s h; cases h
theorem noPanic_err {α : Type} : NoPanic (.error .err : Dec α) := by intro s h; cases h

theorem noPanic_bind {α β : Type} {x : Dec α} {f : α → Dec β} (hx : NoPanic x)
    (hf : ∀ a, x = .ok a → NoPanic (f a)) : NoPanic (x >>= f) := by
  cases x with
  | ok a => exact hf a rfl
  | error e =>
    intro s h
    simp only [bind, Except.bind] at h
    cases e with
    | err => cases h
    | panic s' => exact hx s' rfl

theorem slice_noPanic {site : String} {bs : Bytes} {a b : Nat} (h1 : a ≤ b) (h2 : b ≤ bs.length) :
    NoPanic (slice site bs a b) := by
  rw [slice_ok h1 h2]; exact noPanic_ok _

theorem slice_len {site : String} {bs r : Bytes} {a b : Nat} (h : slice site bs a b = .ok r) : r.length = b - a := by
  simp only [slice] at h
  split at h
  · rename_i hc
    cases h
    simp [List.length_take, List.length_drop]; omega
  · cases h

theorem wordAt_noPanic (bs : Bytes) (i : Nat) : NoPanic (wordAt bs i) := by
  simp only [wordAt]
  split
  · exact noPanic_err
  · exact slice_noPanic (by omega) (by omega)

theorem wordAt_len {bs w : Bytes} {i : Nat} (h : wordAt bs i = .ok w) : w.length = 32 := by
  simp only [wordAt] at h
  split at h
  · cases h
  · have := slice_len h; omega

theorem decElem_noPanic {e : Elem} (hw : e.wf = true) {w : Bytes} (hl : w.length = 32) : NoPanic (decElem e w) := by
  cases e with
  | uint b => simp only [decElem]; split <;> exact noPanic_ok _
  | address => exact noPanic_ok _
  | bool =>
    simp only [decElem]
    split
    · exact noPanic_ok _
    · split
      · exact noPanic_ok _
      · exact noPanic_err
  | fixedBytes n =>
    simp only [Elem.wf, Bool.and_eq_true, decide_eq_true_eq] at hw
    simp only [decElem]
    apply noPanic_bind (slice_noPanic (by omega) (by omega))
    intro a _; exact noPanic_ok _

theorem beNat_lt_256 {w : Bytes} (hl : w.length = 32) : beNat w < 2 ^ 256 := by
  have := beNat_lt w
  rw [hl, two_pow_256] at this
  exact this

theorem decElem_wt {e : Elem} (hw : e.wf = true) {w : Bytes} (hl : w.length = 32) {v : EVal}
    (h : decElem e w = .ok v) : v.wt e = true := by
  have hlt := beNat_lt_256 hl
  cases e with
  | uint b =>
    simp only [Elem.wf, Bool.or_eq_true, beq_iff_eq] at hw
    simp only [decElem] at h
    split at h
    · cases h
      simp only [EVal.wt, decide_eq_true_eq]
      exact Nat.mod_lt _ (Nat.pow_pos (by omega))
    · rename_i hc
      cases h
      simp only [Bool.or_eq_true, beq_iff_eq, not_or] at hc
      have : b = 256 := by omega
      simp only [EVal.wt, decide_eq_true_eq, this]
      exact hlt
  | address =>
    simp only [decElem] at h
    cases h
    simp only [EVal.wt, decide_eq_true_eq]
    exact Nat.mod_lt _ (Nat.pow_pos (by omega))
  | bool =>
    simp only [decElem] at h
    split at h
    · cases h; simp [EVal.wt]
    · split at h
      · cases h; simp [EVal.wt]
      · cases h
  | fixedBytes n =>
    simp only [Elem.wf, Bool.and_eq_true, decide_eq_true_eq] at hw
    simp only [decElem] at h
    rw [slice_ok (by omega) (by omega)] at h
    simp only [bind, Except.bind, pure, Except.pure] at h
    cases h
    simp [EVal.wt, List.length_take]
    omega

theorem decWords_noPanic {e : Elem} (hw : e.wf = true) (sub : Bytes) :
    ∀ (n start : Nat), NoPanic (decWords e sub n start) := by
  intro n
  induction n with
  | zero => intro start; exact noPanic_ok _
  | succ n ih =>
    intro start
    simp only [decWords]
    apply noPanic_bind (wordAt_noPanic _ _)
    intro w hwd
    apply noPanic_bind (decElem_noPanic hw (wordAt_len hwd))
    intro v _
    apply noPanic_bind (ih _)
    intro vs _; exact noPanic_ok _

theorem decWords_wt {e : Elem} (hw : e.wf = true) (sub : Bytes) :
    ∀ (n start : Nat) (l : List EVal), decWords e sub n start = .ok l → l.length = n ∧ l.all (EVal.wt e) = true := by
  intro n
  induction n with
  | zero => intro start l h; simp only [decWords] at h; cases h; simp
  | succ n ih =>
    intro start l h
    simp only [decWords, bind, Except.bind] at h
    split at h
    · cases h
    · rename_i w hwd
      split at h
      · cases h
      · rename_i v hv
        split at h
        · cases h
        · rename_i vs hvs
          simp only [pure, Except.pure] at h
          cases h
          have := ih _ _ hvs
          simp [this.1, this.2, decElem_wt hw (wordAt_len hwd) hv]

theorem forEach_noPanic {e : Elem} (hw : e.wf = true) (sub : Bytes) (n : Nat) : NoPanic (forEach e sub n) := by
  simp only [forEach]
  split
  · exact noPanic_err
  · exact decWords_noPanic hw sub n 0

theorem forEach_wt {e : Elem} (hw : e.wf = true) {sub : Bytes} {n : Nat} {l : List EVal}
    (h : forEach e sub n = .ok l) : l.length = n ∧ l.all (EVal.wt e) = true := by
  simp only [forEach] at h
  split at h
  · cases h
  · exact decWords_wt hw sub n 0 l h

theorem lengthPrefix_noPanic {bs : Bytes} {i : Nat} (hi : i + 32 ≤ bs.length) : NoPanic (lengthPrefix bs i) := by
  simp only [lengthPrefix]
  apply noPanic_bind (slice_noPanic (by omega) hi)
  intro w _
  split
  · exact noPanic_err
  · split
    · exact noPanic_err
    · apply noPanic_bind (slice_noPanic (by omega) (by omega))
      intro lw _
      split
      · exact noPanic_err
      · split
        · exact noPanic_err
        · exact noPanic_ok _

theorem lengthPrefix_bounds {bs : Bytes} {i start len : Nat} (h : lengthPrefix bs i = .ok (start, len)) :
    start + len ≤ bs.length := by
  simp only [lengthPrefix, bind, Except.bind] at h
  split at h
  · cases h
  · split at h
    · cases h
    · split at h
      · cases h
      · split at h
        · cases h
        · split at h
          · cases h
          · split at h
            · cases h
            · simp only [pure, Except.pure] at h
              cases h
              omega

theorem decOne_noPanic {t : AbiType} (hw : t.wf = true) (bs : Bytes) (i : Nat) : NoPanic (decOne t bs i) := by
  simp only [decOne]
  split
  · exact noPanic_err
  · rename_i hc
    have hi : i + 32 ≤ bs.length := by omega
    cases t with
    | elem e =>
      simp only [AbiType.wf] at hw
      apply noPanic_bind (wordAt_noPanic _ _)
      intro w hwd
      apply noPanic_bind (decElem_noPanic hw (wordAt_len hwd))
      intro v _; exact noPanic_ok _
    | sarray e n =>
      simp only [AbiType.wf, Bool.and_eq_true] at hw
      apply noPanic_bind (slice_noPanic (by omega) (Nat.le_refl _))
      intro sub _
      apply noPanic_bind (forEach_noPanic hw.1 _ _)
      intro l _; exact noPanic_ok _
    | darray e =>
      simp only [AbiType.wf] at hw
      apply noPanic_bind (lengthPrefix_noPanic hi)
      intro p hp
      obtain ⟨start, len⟩ := p
      have hb := lengthPrefix_bounds hp
      apply noPanic_bind (slice_noPanic (by omega) (Nat.le_refl _))
      intro sub _
      apply noPanic_bind (forEach_noPanic hw _ _)
      intro l _; exact noPanic_ok _
    | bytes =>
      apply noPanic_bind (lengthPrefix_noPanic hi)
      intro p hp
      obtain ⟨start, len⟩ := p
      have hb := lengthPrefix_bounds hp
      apply noPanic_bind (slice_noPanic (by omega) hb)
      intro c _; exact noPanic_ok _
    | string =>
      apply noPanic_bind (lengthPrefix_noPanic hi)
      intro p hp
      obtain ⟨start, len⟩ := p
      have hb := lengthPrefix_bounds hp
      apply noPanic_bind (slice_noPanic (by omega) hb)
      intro c _; exact noPanic_ok _

theorem decGo_noPanic : ∀ (tys : List AbiType) (i : Nat) (bs : Bytes), tysWf tys = true → NoPanic (decGo i tys bs) := by
  intro tys
  induction tys with
  | nil => intro i bs _; exact noPanic_ok _
  | cons t ts ih =>
    intro i bs hw
    simp only [tysWf, List.all_cons, Bool.and_eq_true] at hw
    simp only [decGo]
    apply noPanic_bind (decOne_noPanic hw.1 _ _)
    intro v _
    apply noPanic_bind (ih _ _ hw.2)
    intro vs _; exact noPanic_ok _

/-! ### what the decoder returns is in the range of its type -/

theorem bind_ok {α β : Type} {x : Dec α} {f : α → Dec β} {b : β} (h : x >>= f = .ok b) :
    ∃ a, x = .ok a ∧ f a = .ok b := by
  cases x with
  | ok a => exact ⟨a, rfl, h⟩
  | error e => simp [bind, Except.bind] at h

theorem decOne_wt {t : AbiType} (hw : t.wf = true) {bs : Bytes} {i : Nat} {v : AbiVal}
    (h : decOne t bs i = .ok v) : v.wt t = true := by
  simp only [decOne] at h
  split at h
  · cases h
  · cases t with
    | elem e =>
      simp only [AbiType.wf] at hw
      obtain ⟨w, hw1, h⟩ := bind_ok h
      obtain ⟨ev, hv, h⟩ := bind_ok h
      cases h
      simpa [AbiVal.wt] using decElem_wt hw (wordAt_len hw1) hv
    | sarray e n =>
      simp only [AbiType.wf, Bool.and_eq_true] at hw
      obtain ⟨sub, _, h⟩ := bind_ok h
      obtain ⟨l, hl, h⟩ := bind_ok h
      cases h
      have := forEach_wt hw.1 hl
      simp only [AbiVal.wt, Bool.and_eq_true, beq_iff_eq]
      exact this
    | darray e =>
      simp only [AbiType.wf] at hw
      obtain ⟨p, _, h⟩ := bind_ok h
      obtain ⟨start, len⟩ := p
      obtain ⟨sub, _, h⟩ := bind_ok h
      obtain ⟨l, hl, h⟩ := bind_ok h
      cases h
      simpa [AbiVal.wt] using (forEach_wt hw hl).2
    | bytes =>
      obtain ⟨p, _, h⟩ := bind_ok h
      obtain ⟨start, len⟩ := p
      obtain ⟨c, _, h⟩ := bind_ok h
      cases h; rfl
    | string =>
      obtain ⟨p, _, h⟩ := bind_ok h
      obtain ⟨start, len⟩ := p
      obtain ⟨c, _, h⟩ := bind_ok h
      cases h; rfl

theorem decGo_wt : ∀ (tys : List AbiType) (i : Nat) (bs : Bytes) (vs : List AbiVal), tysWf tys = true →
    decGo i tys bs = .ok vs → wtArgs tys vs = true := by
  intro tys
  induction tys with
  | nil => intro i bs vs _ h; simp only [decGo] at h; cases h; rfl
  | cons t ts ih =>
    intro i bs vs hw h
    simp only [tysWf, List.all_cons, Bool.and_eq_true] at hw
    simp only [decGo] at h
    obtain ⟨v, hv, h⟩ := bind_ok h
    obtain ⟨vs', hvs, h⟩ := bind_ok h
    cases h
    simp [wtArgs, decOne_wt hw.1 hv, ih _ _ _ hw.2 hvs]

end Dos.Abi

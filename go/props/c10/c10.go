// Package c10: bn256 field / tower / group / pairing arithmetic. The REAL code of
// group/bn256 (through zz_verif_bn256.go) is run on raw limb values; the Lean
// driver (interpreted gfp.s + Montgomery model + transcribed tower/curve/pairing)
// must print the same line; independently every result whose inputs satisfy the
// property's precondition is checked against math/big, go-ethereum's
// crypto/bn256/google and the EVM precompiles 0x06/0x07/0x08.
package c10

import (
	"bytes"
	"fmt"
	"math/big"
	"strings"

	"github.com/DOSNetwork/core/group/bn256"
	"github.com/dedis/kyber"
	"github.com/ethereum/go-ethereum/common"
	"github.com/ethereum/go-ethereum/core/vm"
	google "github.com/ethereum/go-ethereum/crypto/bn256/google"

	"verifharness/internal/h"
)

func init() {
	h.Register(&h.Prop{
		ID: "C10",
		Rule: "cases: f (gfpAdd/Sub/Neg/Mul on raw limbs, both hasBMI2 settings, 5 pointer-alias patterns; directed operands {0,1,p-1,p,p+1,2p±1,5p,2^256-1,all-ones limbs,2^64k,2^64k-1,R,R2,...}² + random reduced/unreduced/sparse), " +
			"fx (montEncode/Decode/Invert/newGFp), t2/t6/t12 (every tower operation incl. Frobenius, Exp, finalExponentiation), " +
			"g1/g2 (Add/Double/Mul/MakeAffine/Neg/IsOnCurve on Jacobian inputs with z≠1, receiver aliasing, scalars {0,1,r-1,r,r+1,2^256-1}, points {O,G,P&-P,P&P}), " +
			"miller/pair/check (bilinearity via known discrete logs, identities, P&-P), api (programs over the exported kyber Point API); " +
			"non-trivial = the case exercises a boundary (operand outside [2,p-2], unreduced, aliasing, identity, equal/opposite points, scalar >= r, z != 1) or is a pairing/tower/api case; distinct = distinct case line",
		Gen:  gen,
		Exec: exec,
	})
}

var cpuBMI2 = bn256.VerifCPUHasBMI2()

// ---------------------------------------------------------------- field primitives

func fieldCall(op string, c, a, b *fe) {
	switch op {
	case "add":
		bn256.VerifGfpAdd(c, a, b)
	case "sub":
		bn256.VerifGfpSub(c, a, b)
	case "neg":
		bn256.VerifGfpNeg(c, a)
	case "mul":
		bn256.VerifGfpMul(c, a, b)
	default:
		panic("unknown field op " + op)
	}
}

// run one primitive under a pointer-alias pattern; returns what is left in *c
func fieldRun(op, alias string, av, bv fe, bmi2 bool) fe {
	old := bn256.VerifSetBMI2(bmi2)
	defer bn256.VerifSetBMI2(old)
	xa, xb := av, bv
	xc := fe{0x5555555555555555, 0x5555555555555555, 0x5555555555555555, 0x5555555555555555}
	pc, pa, pb := &xc, &xa, &xb
	switch alias {
	case "n":
	case "ca":
		pc = pa
	case "cb":
		pc = pb
	case "ab":
		pb = pa
	case "cab":
		pb, pc = pa, pa
	default:
		panic("unknown alias " + alias)
	}
	fieldCall(op, pc, pa, pb)
	return *pc
}

func execField(w []string) h.Result {
	op, alias := w[1], w[2]
	av, bv := parseFe(w[3]), parseFe(w[4])
	if alias == "ab" || alias == "cab" {
		bv = av
	}
	r0 := fieldRun(op, alias, av, bv, false)
	r1 := r0
	if cpuBMI2 {
		r1 = fieldRun(op, alias, av, bv, true)
	}
	res := h.Result{Impl: hexFe(r0) + " " + hexFe(r1)}
	a, b := feToBig(av), feToBig(bv)
	aRed, bRed := a.Cmp(refP) < 0, b.Cmp(refP) < 0
	var want *big.Int
	cls := "unreduced"
	switch op {
	case "add":
		if aRed && bRed {
			want, cls = mod(new(big.Int).Add(a, b)), "reduced"
		}
	case "sub":
		if aRed && bRed {
			want, cls = mod(new(big.Int).Sub(a, b)), "reduced"
		}
	case "neg":
		if aRed {
			want, cls = mod(new(big.Int).Neg(a)), "reduced"
		}
	case "mul":
		// precondition of REDC: a·b < R·p (both reduced, or one arbitrary 256-bit and the other reduced)
		if new(big.Int).Mul(a, b).Cmp(new(big.Int).Mul(two256, refP)) < 0 {
			want = mod(new(big.Int).Mul(new(big.Int).Mul(a, b), refRinv))
			cls = "reduced"
			if !aRed || !bRed {
				cls = "encode-range"
			}
		}
	}
	res.Class = "f-" + op + "-" + cls + "-" + alias
	if r0 != r1 {
		res.Oracle = fmt.Sprintf("c10-bmi2-paths-differ: %s nobmi2=%s bmi2=%s", op, hexFe(r0), hexFe(r1))
	} else if want != nil && feToBig(r0).Cmp(want) != 0 {
		res.Oracle = fmt.Sprintf("c10-field-%s: got %s want %s", op, hexFe(r0), hexBig(want))
	}
	small := func(v *big.Int) bool {
		return v.Cmp(big.NewInt(2)) >= 0 && v.Cmp(new(big.Int).Sub(refP, big.NewInt(2))) <= 0
	}
	res.Nontrivial = alias != "n" || !small(a) || (op != "neg" && !small(b))
	return res
}

func execFx(w []string) h.Result {
	res := h.Result{Class: "fx-" + w[1], Nontrivial: true}
	switch w[1] {
	case "new":
		k := h.BigDec(w[2])
		r := bn256.VerifNewGFp(k.Int64())
		res.Impl = hexFe(r)
		if want := toMont(mod(k)); feToBig(r).Cmp(want) != 0 {
			res.Oracle = fmt.Sprintf("c10-newgfp: got %s want %s", hexFe(r), hexBig(want))
		}
		return res
	}
	a := parseFe(w[2])
	var r fe
	av := feToBig(a)
	var want *big.Int
	switch w[1] {
	case "enc":
		bn256.VerifMontEncode(&r, &a)
		want = toMont(av) // defined for every 256-bit input
	case "dec":
		bn256.VerifMontDecode(&r, &a)
		want = fromMont(av)
	case "inv":
		bn256.VerifGfpInvert(&r, &a)
		if av.Cmp(refP) < 0 {
			if av.Sign() == 0 {
				want = new(big.Int)
			} else {
				// a = xR ⇒ x⁻¹R = R²/a
				want = mod(new(big.Int).Mul(refR2, new(big.Int).ModInverse(av, refP)))
			}
		}
	default:
		panic("unknown fx op")
	}
	res.Impl = hexFe(r)
	if want != nil && feToBig(r).Cmp(want) != 0 {
		res.Oracle = fmt.Sprintf("c10-field-%s: got %s want %s", w[1], hexFe(r), hexBig(want))
	}
	return res
}

// ---------------------------------------------------------------- towers

var pBig = refP
var p2Big = new(big.Int).Mul(refP, refP)
var p4Big = new(big.Int).Mul(p2Big, p2Big)

func execT2(w []string) h.Result {
	alias := "n"
	if strings.HasSuffix(w[0], "a") {
		alias = w[2]
		w = append([]string{w[0], w[1]}, w[3:]...)
	}
	op := w[1]
	av := parseFes(w[2], 2)
	var a, b, r fe2
	pr, pa, pb := &r, &a, &b
	switch alias {
	case "n":
	case "ca":
		pr = pa
	case "cb":
		pr = pb
	case "ab":
		pb = pa
	case "cab":
		pb, pr = pa, pa
	default:
		panic("unknown alias " + alias)
	}
	copy(a[:], av)
	res := h.Result{Class: "t2-" + op, Nontrivial: true}
	ok := allReduced(av)
	ra := decR2(av)
	var want r2
	haveWant := true
	switch op {
	case "sq":
		asFp2(pr).Square(asFp2(pa))
		want = r2mul(ra, ra)
	case "inv":
		asFp2(pr).Invert(asFp2(pa))
		want = r2inv(ra)
	case "xi":
		asFp2(pr).MulXi(asFp2(pa))
		want = r2mul(refXi, ra)
	case "conj":
		asFp2(pr).Conjugate(asFp2(pa))
		want = r2{mod(new(big.Int).Neg(ra.x)), ra.y}
	case "neg":
		asFp2(pr).Neg(asFp2(pa))
		want = r2neg(ra)
	case "muls":
		s := parseFe(w[3])
		asFp2(pr).MulScalar(asFp2(pa), (*bn256.VerifGfP)(&s))
		ok = ok && allReduced([]fe{s})
		want = r2mul(ra, r2{new(big.Int), decFe(s)})
	default:
		bv := parseFes(w[3], 2)
		copy(b[:], bv)
		ok = ok && allReduced(bv)
		rb := decR2(bv)
		if alias == "ab" || alias == "cab" {
			rb, bv = ra, av
		}
		switch op {
		case "mul":
			asFp2(pr).Mul(asFp2(pa), asFp2(pb))
			want = r2mul(ra, rb)
		case "add":
			asFp2(pr).Add(asFp2(pa), asFp2(pb))
			want = r2add(ra, rb)
		case "sub":
			asFp2(pr).Sub(asFp2(pa), asFp2(pb))
			want = r2sub(ra, rb)
		default:
			panic("unknown t2 op " + op)
		}
	}
	r = *pr
	res.Impl = hexFes(r[:])
	if alias != "n" {
		res.Class += "-alias-" + alias
	}
	if ok && haveWant && hexFes(encR2(want)) != res.Impl {
		res.Oracle = fmt.Sprintf("c10-fp2-%s: got %s want %s", op, res.Impl, hexFes(encR2(want)))
	}
	if !ok {
		res.Class += "-unreduced"
	}
	return res
}

func execT6(w []string) h.Result {
	alias := "n"
	if strings.HasSuffix(w[0], "a") {
		alias = w[2]
		w = append([]string{w[0], w[1]}, w[3:]...)
	}
	op := w[1]
	av := parseFes(w[2], 6)
	var a, b, r fe6
	pr, pa, pb := &r, &a, &b
	switch alias {
	case "n":
	case "ca":
		pr = pa
	case "cb":
		pr = pb
	case "ab":
		pb = pa
	case "cab":
		pb, pr = pa, pa
	default:
		panic("unknown alias " + alias)
	}
	copy(a[:], av)
	res := h.Result{Class: "t6-" + op, Nontrivial: true}
	ok := allReduced(av)
	ra := decR6(av)
	var want r6
	switch op {
	case "sq":
		asFp6(pr).Square(asFp6(pa))
		want = r6mul(ra, ra)
	case "inv":
		asFp6(pr).Invert(asFp6(pa))
		// checked below by a·a⁻¹ = 1
	case "tau":
		asFp6(pr).MulTau(asFp6(pa))
		want = r6mul(refTau, ra)
	case "neg":
		asFp6(pr).Neg(asFp6(pa))
		want = r6neg(ra)
	case "frob":
		asFp6(pr).Frobenius(asFp6(pa))
		want = r6exp(ra, pBig)
	case "frob2":
		asFp6(pr).FrobeniusP2(asFp6(pa))
		want = r6exp(ra, p2Big)
	case "frob4":
		asFp6(pr).FrobeniusP4(asFp6(pa))
		want = r6exp(ra, p4Big)
	case "muls":
		sv := parseFes(w[3], 2)
		var s fe2
		copy(s[:], sv)
		asFp6(pr).MulScalar(asFp6(pa), asFp2(&s))
		ok = ok && allReduced(sv)
		want = r6mul(ra, r6{r2zero(), r2zero(), decR2(sv)})
	case "mulg":
		s := parseFe(w[3])
		asFp6(pr).MulGFP(asFp6(pa), (*bn256.VerifGfP)(&s))
		ok = ok && allReduced([]fe{s})
		want = r6mul(ra, r6{r2zero(), r2zero(), r2{new(big.Int), decFe(s)}})
	default:
		bv := parseFes(w[3], 6)
		copy(b[:], bv)
		ok = ok && allReduced(bv)
		rb := decR6(bv)
		if alias == "ab" || alias == "cab" {
			rb, bv = ra, av
		}
		switch op {
		case "mul":
			asFp6(pr).Mul(asFp6(pa), asFp6(pb))
			want = r6mul(ra, rb)
		case "add":
			asFp6(pr).Add(asFp6(pa), asFp6(pb))
			want = r6add(ra, rb)
		case "sub":
			asFp6(pr).Sub(asFp6(pa), asFp6(pb))
			want = r6sub(ra, rb)
		default:
			panic("unknown t6 op " + op)
		}
	}
	r = *pr
	res.Impl = hexFes(r[:])
	if alias != "n" {
		res.Class += "-alias-" + alias
	}
	if ok {
		if op == "inv" {
			got := decR6(r[:])
			if allReduced(r[:]) && !r6isZero(ra) && !r6eq(r6mul(ra, got), r6one()) {
				res.Oracle = "c10-fp6-inv: a * Invert(a) != 1 for " + w[2]
			}
		} else if hexFes(encR6(want)) != res.Impl {
			res.Oracle = fmt.Sprintf("c10-fp6-%s: got %s want %s", op, res.Impl, hexFes(encR6(want)))
		}
	} else {
		res.Class += "-unreduced"
	}
	return res
}

// the exponent of the final exponentiation, (p^12 − 1)/r
var finalExp = func() *big.Int {
	p12 := new(big.Int).Exp(refP, big.NewInt(12), nil)
	p12.Sub(p12, big.NewInt(1))
	return p12.Div(p12, refOrder)
}()

func execT12(w []string) h.Result {
	alias := "n"
	if strings.HasSuffix(w[0], "a") {
		alias = w[2]
		w = append([]string{w[0], w[1]}, w[3:]...)
	}
	op := w[1]
	av := parseFes(w[2], 12)
	var a, b, r fe12
	pr, pa, pb := &r, &a, &b
	switch alias {
	case "n":
	case "ca":
		pr = pa
	case "cb":
		pr = pb
	case "ab":
		pb = pa
	case "cab":
		pb, pr = pa, pa
	default:
		panic("unknown alias " + alias)
	}
	copy(a[:], av)
	res := h.Result{Class: "t12-" + op, Nontrivial: true}
	ok := allReduced(av)
	ra := decR12(av)
	var want r12
	haveWant := true
	switch op {
	case "sq":
		asFp12(pr).Square(asFp12(pa))
		want = r12mul(ra, ra)
	case "inv":
		asFp12(pr).Invert(asFp12(pa))
		haveWant = false
	case "conj":
		asFp12(pr).Conjugate(asFp12(pa))
		want = r12{r6neg(ra.x), ra.y}
	case "neg":
		asFp12(pr).Neg(asFp12(pa))
		want = r12neg(ra)
	case "frob":
		asFp12(pr).Frobenius(asFp12(pa))
		want = r12exp(ra, pBig)
	case "frob2":
		asFp12(pr).FrobeniusP2(asFp12(pa))
		want = r12exp(ra, p2Big)
	case "frob4":
		asFp12(pr).FrobeniusP4(asFp12(pa))
		want = r12exp(ra, p4Big)
	case "exp":
		k := h.BigDec(w[3])
		asFp12(pr).Exp(asFp12(pa), k)
		want = r12exp(ra, k)
	case "finexp":
		*pr = fromFp12(bn256.VerifFinalExponentiation(asFp12(pa)))
		if r12isZero(ra) {
			haveWant = false
		} else {
			want = r12exp(ra, finalExp)
		}
	default:
		bv := parseFes(w[3], 12)
		copy(b[:], bv)
		ok = ok && allReduced(bv)
		rb := decR12(bv)
		if alias == "ab" || alias == "cab" {
			rb, bv = ra, av
		}
		switch op {
		case "mul":
			asFp12(pr).Mul(asFp12(pa), asFp12(pb))
			want = r12mul(ra, rb)
		case "add":
			asFp12(pr).Add(asFp12(pa), asFp12(pb))
			want = r12add(ra, rb)
		case "sub":
			asFp12(pr).Sub(asFp12(pa), asFp12(pb))
			want = r12sub(ra, rb)
		default:
			panic("unknown t12 op " + op)
		}
	}
	r = *pr
	res.Impl = hexFes(r[:])
	if alias != "n" {
		res.Class += "-alias-" + alias
	}
	if ok {
		if op == "inv" {
			if allReduced(r[:]) && !r12isZero(ra) && !r12eq(r12mul(ra, decR12(r[:])), r12one()) {
				res.Oracle = "c10-fp12-inv: a * Invert(a) != 1"
			}
		} else if haveWant && hexFes(encR12(want)) != res.Impl {
			res.Oracle = fmt.Sprintf("c10-fp12-%s: got %s… want %s…", op, res.Impl[:64], hexFes(encR12(want))[:64])
		}
	} else {
		res.Class += "-unreduced"
	}
	return res
}

// ---------------------------------------------------------------- references for the groups

func precompile(addr byte, in []byte) ([]byte, error) {
	c := vm.PrecompiledContractsIstanbul[common.BytesToAddress([]byte{addr})]
	return c.Run(in)
}

func googleG1(a refPt) (*google.G1, error) {
	g := new(google.G1)
	_, err := g.Unmarshal(bytesG1(a))
	return g, err
}
func googleG2(a refPt) (*google.G2, error) {
	g := new(google.G2)
	_, err := g.Unmarshal(bytesG2(a))
	return g, err
}

func ptStr(a refPt) string {
	if a.inf {
		return "O"
	}
	return fmt.Sprintf("(%x.%x,%x.%x)", a.x.x, a.x.y, a.y.x, a.y.y)
}

// checkG1 compares an implementation result (affine, via big arithmetic) with the three references
func checkG1Add(got, a, b refPt) string {
	want := refAdd(a, b)
	if !refEq(got, want) {
		return fmt.Sprintf("c10-g1-add: math/big: got %s want %s", ptStr(got), ptStr(want))
	}
	ga, e1 := googleG1(a)
	gb, e2 := googleG1(b)
	if e1 != nil || e2 != nil {
		return "" // not a curve point for the reference
	}
	if gs := new(google.G1).Add(ga, gb).Marshal(); !bytes.Equal(gs, bytesG1(got)) {
		return fmt.Sprintf("c10-g1-add: bn256/google: got %x want %x", bytesG1(got), gs)
	}
	out, err := precompile(6, append(bytesG1(a), bytesG1(b)...))
	if err == nil && !bytes.Equal(out, bytesG1(got)) {
		return fmt.Sprintf("c10-g1-add: precompile 0x06: got %x want %x", bytesG1(got), out)
	}
	return ""
}

func checkG1Mul(got, a refPt, k *big.Int) string {
	want := refMul(a, k)
	if !refEq(got, want) {
		return fmt.Sprintf("c10-g1-mul: math/big: got %s want %s", ptStr(got), ptStr(want))
	}
	if wr := refMul(a, new(big.Int).Mod(k, refOrder)); !refEq(got, wr) {
		return fmt.Sprintf("c10-g1-mul: scalar reduced mod order gives %s, got %s", ptStr(wr), ptStr(got))
	}
	ga, err := googleG1(a)
	if err != nil {
		return ""
	}
	if gs := new(google.G1).ScalarMult(ga, k).Marshal(); !bytes.Equal(gs, bytesG1(got)) {
		return fmt.Sprintf("c10-g1-mul: bn256/google: got %x want %x", bytesG1(got), gs)
	}
	if k.BitLen() <= 256 {
		out, err := precompile(7, append(bytesG1(a), be32(k)...))
		if err == nil && !bytes.Equal(out, bytesG1(got)) {
			return fmt.Sprintf("c10-g1-mul: precompile 0x07: got %x want %x", bytesG1(got), out)
		}
	}
	return ""
}

func checkG2Add(got, a, b refPt) string {
	want := refAdd(a, b)
	if !refEq(got, want) {
		return fmt.Sprintf("c10-g2-add: math/big: got %s want %s", ptStr(got), ptStr(want))
	}
	ga, e1 := googleG2(a)
	gb, e2 := googleG2(b)
	if e1 != nil || e2 != nil {
		return "" // outside the order-r subgroup: only the curve law is checked
	}
	if gs := new(google.G2).Add(ga, gb).Marshal(); !bytes.Equal(gs, bytesG2(got)) {
		return fmt.Sprintf("c10-g2-add: bn256/google: got %x want %x", bytesG2(got), gs)
	}
	return ""
}

func checkG2Mul(got, a refPt, k *big.Int) string {
	want := refMul(a, k)
	if !refEq(got, want) {
		return fmt.Sprintf("c10-g2-mul: math/big: got %s want %s", ptStr(got), ptStr(want))
	}
	ga, err := googleG2(a)
	if err != nil {
		return ""
	}
	if wr := refMul(a, new(big.Int).Mod(k, refOrder)); !refEq(got, wr) {
		return fmt.Sprintf("c10-g2-mul: scalar reduced mod order gives %s, got %s", ptStr(wr), ptStr(got))
	}
	if gs := new(google.G2).ScalarMult(ga, k).Marshal(); !bytes.Equal(gs, bytesG2(got)) {
		return fmt.Sprintf("c10-g2-mul: bn256/google: got %x want %x", bytesG2(got), gs)
	}
	return ""
}

// ---------------------------------------------------------------- G1 / G2 raw operations

func pick3g1(alias string, c, a, b *g1raw) (*g1raw, *g1raw, *g1raw) {
	switch alias {
	case "n":
		return c, a, b
	case "ca":
		return a, a, b
	case "cb":
		return b, a, b
	case "ab":
		return c, a, a
	case "cab":
		return a, a, a
	}
	panic("unknown alias " + alias)
}
func pick3g2(alias string, c, a, b *g2raw) (*g2raw, *g2raw, *g2raw) {
	switch alias {
	case "n":
		return c, a, b
	case "ca":
		return a, a, b
	case "cb":
		return b, a, b
	case "ab":
		return c, a, a
	case "cab":
		return a, a, a
	}
	panic("unknown alias " + alias)
}

func g1Of(s string) g1raw {
	var p g1raw
	copy(p[:], parseFes(s, 4))
	return p
}
func g2Of(s string) g2raw {
	var p g2raw
	copy(p[:], parseFes(s, 8))
	return p
}

func ptClass(a refPt, raw []fe, zIdx, zLen int) string {
	if a.inf {
		return "O"
	}
	one := true
	for i := 0; i < zLen; i++ {
		w := new(big.Int)
		if i == zLen-1 {
			w = refR
		}
		if feToBig(raw[zIdx+i]).Cmp(w) != 0 {
			one = false
		}
	}
	if one {
		return "aff"
	}
	return "jac"
}

func execG1(w []string) h.Result {
	op := w[1]
	res := h.Result{Class: "g1-" + op, Nontrivial: true}
	switch op {
	case "add", "dbl":
		alias := w[2]
		c, a := g1Of(w[3]), g1Of(w[4])
		b := a
		if op == "add" {
			b = g1Of(w[5])
		}
		pc, pa, pb := pick3g1(alias, &c, &a, &b)
		av, bv := *pa, *pb
		if op == "add" {
			asG1(pc).Add(asG1(pa), asG1(pb))
		} else {
			asG1(pc).Double(asG1(pa))
			bv = av
		}
		r := *pc
		res.Impl = hexFes(r[:])
		valid := onCurveJacG1(av) && onCurveJacG1(bv)
		if valid {
			A, B := affG1(av), affG1(bv)
			res.Oracle = checkG1Add(affG1(r), A, B)
			rel := "P+Q"
			switch {
			case A.inf || B.inf:
				rel = "O"
			case refEq(A, B):
				rel = "P+P"
			case refEq(A, refNeg(B)):
				rel = "P-P"
			}
			res.Class += "-" + rel + "-" + ptClass(A, av[:], 2, 1) + ptClass(B, bv[:], 2, 1) + "-" + alias
		} else {
			res.Class += "-offcurve"
		}
	case "mul":
		a := g1Of(w[2])
		k := h.BigDec(w[3])
		var c g1raw
		asG1(&c).Mul(asG1(&a), k)
		res.Impl = hexFes(c[:])
		if onCurveJacG1(a) {
			res.Oracle = checkG1Mul(affG1(c), affG1(a), k)
			res.Class += "-" + scalarClass(k)
		} else {
			res.Class += "-offcurve"
		}
	case "aff":
		a := g1Of(w[2])
		orig := a
		asG1(&a).MakeAffine()
		res.Impl = hexFes(a[:])
		if allReduced(orig[:3]) {
			A := affG1(orig)
			want := jacG1(A, big.NewInt(1))
			if A.inf {
				want[2] = orig[2]
			}
			// an already normalised point is returned untouched (t included)
			if feToBig(orig[2]).Cmp(refR) == 0 {
				want = orig
			}
			if want != a {
				res.Oracle = fmt.Sprintf("c10-g1-makeaffine: got %s want %s", hexFes(a[:]), hexFes(want[:]))
			}
		}
	case "neg":
		a := g1Of(w[2])
		var c g1raw
		asG1(&c).Neg(asG1(&a))
		res.Impl = hexFes(c[:])
		if onCurveJacG1(a) && !refEq(affG1(c), refNeg(affG1(a))) {
			res.Oracle = "c10-g1-neg: not the negative"
		}
	case "onc":
		a := g1Of(w[2])
		orig := a
		got := asG1(&a).IsOnCurve()
		res.Impl = fmt.Sprint(got)
		if allReduced(orig[:3]) {
			if want := refOnCurveG1(affG1(orig)); want != got {
				res.Oracle = fmt.Sprintf("c10-g1-isoncurve: got %v want %v", got, want)
			}
		}
		res.Class += "-" + res.Impl
	default:
		panic("unknown g1 op " + op)
	}
	return res
}

func scalarClass(k *big.Int) string {
	switch {
	case k.Sign() == 0:
		return "k=0"
	case k.Cmp(big.NewInt(1)) == 0:
		return "k=1"
	case k.Cmp(refOrder) == 0:
		return "k=r"
	case k.Cmp(refOrder) > 0:
		return "k>r"
	case k.Cmp(new(big.Int).Sub(refOrder, big.NewInt(1))) == 0:
		return "k=r-1"
	}
	return "k<r"
}

func execG2(w []string) h.Result {
	op := w[1]
	res := h.Result{Class: "g2-" + op, Nontrivial: true}
	switch op {
	case "add", "dbl":
		alias := w[2]
		c, a := g2Of(w[3]), g2Of(w[4])
		b := a
		if op == "add" {
			b = g2Of(w[5])
		}
		pc, pa, pb := pick3g2(alias, &c, &a, &b)
		av, bv := *pa, *pb
		if op == "add" {
			asG2(pc).Add(asG2(pa), asG2(pb))
		} else {
			asG2(pc).Double(asG2(pa))
			bv = av
		}
		r := *pc
		res.Impl = hexFes(r[:])
		if onCurveJacG2(av) && onCurveJacG2(bv) {
			A, B := affG2(av), affG2(bv)
			res.Oracle = checkG2Add(affG2(r), A, B)
			rel := "P+Q"
			switch {
			case A.inf || B.inf:
				rel = "O"
			case refEq(A, B):
				rel = "P+P"
			case refEq(A, refNeg(B)):
				rel = "P-P"
			}
			res.Class += "-" + rel + "-" + ptClass(A, av[:], 4, 2) + ptClass(B, bv[:], 4, 2) + "-" + alias
		} else {
			res.Class += "-offcurve"
		}
	case "mul":
		a := g2Of(w[2])
		k := h.BigDec(w[3])
		var c g2raw
		asG2(&c).Mul(asG2(&a), k)
		res.Impl = hexFes(c[:])
		if onCurveJacG2(a) {
			res.Oracle = checkG2Mul(affG2(c), affG2(a), k)
			res.Class += "-" + scalarClass(k)
		} else {
			res.Class += "-offcurve"
		}
	case "aff":
		a := g2Of(w[2])
		orig := a
		asG2(&a).MakeAffine()
		res.Impl = hexFes(a[:])
		if allReduced(orig[:6]) {
			A := affG2(orig)
			want := jacG2(A, r2one())
			if A.inf {
				want[4], want[5] = orig[4], orig[5]
			}
			if feToBig(orig[4]).Sign() == 0 && feToBig(orig[5]).Cmp(refR) == 0 {
				want = orig
			}
			if want != a {
				res.Oracle = fmt.Sprintf("c10-g2-makeaffine: got %s want %s", hexFes(a[:]), hexFes(want[:]))
			}
		}
	case "neg":
		a := g2Of(w[2])
		var c g2raw
		asG2(&c).Neg(asG2(&a))
		res.Impl = hexFes(c[:])
		if onCurveJacG2(a) && !refEq(affG2(c), refNeg(affG2(a))) {
			res.Oracle = "c10-g2-neg: not the negative"
		}
	case "onc":
		a := g2Of(w[2])
		orig := a
		got := asG2(&a).IsOnCurve()
		res.Impl = fmt.Sprint(got)
		if allReduced(orig[:6]) {
			A := affG2(orig)
			want := refOnCurveG2(A) && refMul(A, refOrder).inf
			if want != got {
				res.Oracle = fmt.Sprintf("c10-g2-isoncurve: got %v want %v", got, want)
			}
		}
		res.Class += "-" + res.Impl
	default:
		panic("unknown g2 op " + op)
	}
	return res
}

// ---------------------------------------------------------------- pairing

var googleGTGen = google.Pair(new(google.G1).ScalarBaseMult(big.NewInt(1)), new(google.G2).ScalarBaseMult(big.NewInt(1)))

// valid pairing input: normalised-or-Jacobian with a consistent t (t = z², or the identity)
func validG2ForPairing(q g2raw) bool {
	if !onCurveJacG2(q) {
		return false
	}
	A := affG2(q)
	if A.inf {
		return true
	}
	if !refMul(A, refOrder).inf {
		return false
	}
	z := decR2(q[4:6])
	return allReduced(q[6:8]) && r2eq(decR2(q[6:8]), r2mul(z, z))
}

func execPair(w []string) h.Result {
	kind := w[0]
	q, p := g2Of(w[1]), g1Of(w[2])
	res := h.Result{Class: kind, Nontrivial: true}
	var r fe12
	if kind == "miller" {
		r = fromFp12(bn256.VerifMiller(asG2(&q), asG1(&p)))
		res.Impl = hexFes(r[:])
		return res // a Miller value is only defined up to the final exponentiation: model comparison only
	}
	qq, pp := q, p
	r = fromFp12(bn256.VerifOptimalAte(asG2(&qq), asG1(&pp)))
	res.Impl = hexFes(r[:])
	if !validG2ForPairing(q) || !onCurveJacG1(p) {
		res.Class += "-invalid-input"
		return res
	}
	P, Q := affG1(p), affG2(q)
	gp, e1 := googleG1(P)
	gq, e2 := googleG2(Q)
	if e1 != nil || e2 != nil {
		res.Oracle = fmt.Sprintf("c10-pair: reference rejects a valid input: %v %v", e1, e2)
		return res
	}
	got := bytesGT(decR12(r[:]))
	if !allReduced(r[:]) {
		res.Oracle = "c10-pair: unreduced coordinate in the result"
		return res
	}
	want := google.Pair(gp, gq).Marshal()
	if P.inf || Q.inf {
		res.Class += "-identity"
		want = bytesGT(r12one())
	}
	if !bytes.Equal(got, want) {
		res.Oracle = fmt.Sprintf("c10-pair: bn256/google: got %x… want %x…", got[:32], want[:32])
		return res
	}
	one := bytes.Equal(got, bytesGT(r12one()))
	if !P.inf && !Q.inf && one {
		res.Oracle = "c10-pair-degenerate: e(P,Q) = 1 for P, Q != O"
	}
	if len(w) >= 5 && w[3] != "-" {
		// bilinearity with known discrete logs: e(aG1, bG2) = e(G1,G2)^(ab)
		a, b := h.BigDec(w[3]), h.BigDec(w[4])
		ab := new(big.Int).Mod(new(big.Int).Mul(a, b), refOrder)
		wantB := new(google.GT).ScalarMult(googleGTGen, ab).Marshal()
		if ab.Sign() == 0 {
			wantB = bytesGT(r12one())
		}
		if !bytes.Equal(got, wantB) {
			res.Oracle = fmt.Sprintf("c10-pair-bilinear: e(%s·G1,%s·G2) != e(G1,G2)^(ab)", a, b)
		}
		res.Class += "-dlog"
	}
	return res
}

func execCheck(w []string) h.Result {
	res := h.Result{Class: "check", Nontrivial: true}
	var g1s []g1raw
	var g2s []g2raw
	if w[1] != "-" {
		for _, e := range strings.Split(w[1], "|") {
			pq := strings.Split(e, ";")
			g1s = append(g1s, g1Of(pq[0]))
			g2s = append(g2s, g2Of(pq[1]))
		}
	}
	// the real PairingCheck through the kyber interface, on points holding exactly these Jacobian values
	s := bn256.NewSuite()
	valid := true
	var in []byte
	var gps []*google.G1
	var gqs []*google.G2
	var prod *google.GT
	first := true
	ka, kb := kyberPoints(s, g1s, g2s)
	got := s.PairingCheck(ka, kb)
	res.Impl = fmt.Sprint(got)
	for i := range g1s {
		if !onCurveJacG1(g1s[i]) || !validG2ForPairing(g2s[i]) {
			valid = false
			break
		}
		P, Q := affG1(g1s[i]), affG2(g2s[i])
		gp, e1 := googleG1(P)
		gq, e2 := googleG2(Q)
		if e1 != nil || e2 != nil {
			valid = false
			break
		}
		gps, gqs = append(gps, gp), append(gqs, gq)
		in = append(in, bytesG1(P)...)
		in = append(in, bytesG2(Q)...)
		if !P.inf && !Q.inf {
			e := google.Pair(gp, gq)
			if first {
				prod, first = e, false
			} else {
				prod = new(google.GT).Add(prod, e)
			}
		}
	}
	if !valid {
		res.Class += "-invalid-input"
		return res
	}
	// property: check ⇔ product of the pairings is one (identities contribute one)
	wantProd := first || bytes.Equal(prod.Marshal(), bytesGT(r12one()))
	if got != wantProd {
		res.Oracle = fmt.Sprintf("c10-check-product: PairingCheck=%v but product of reference pairings is-one=%v", got, wantProd)
		return res
	}
	if g := google.PairingCheck(gps, gqs); g != got {
		res.Oracle = fmt.Sprintf("c10-check: bn256/google says %v, got %v", g, got)
		return res
	}
	out, err := precompile(8, in)
	if err == nil {
		pc := len(out) == 32 && out[31] == 1
		if pc != got {
			res.Oracle = fmt.Sprintf("c10-check: precompile 0x08 says %v, got %v", pc, got)
		}
	}
	res.Class += fmt.Sprintf("-%d-%v", len(g1s), got)
	return res
}

// checkl <g1|g1|…> <g2|g2|…>: PairingCheck on two slices whose lengths may differ (review F #8). point.go's loop is
// `for i := range a { … b[i] … }`: a shorter b is an index-out-of-range panic (Impl "panic"), a longer b is cut
// silently. The model states both (Model/Bn256CheckSlices.lean, Props/C10GT.kyber_pairingCheck_lengths); no clause of
// C10 speaks about unequal lengths and the only caller in /repo (bls.Verify) passes 2 and 2, so there is no property
// oracle for unequal lengths (model comparison only); for equal lengths the answer must be bn256/google's.
func execCheckL(w []string) h.Result {
	res := h.Result{Class: "checkl", Nontrivial: true}
	var g1s []g1raw
	var g2s []g2raw
	if w[1] != "-" {
		for _, e := range strings.Split(w[1], "|") {
			g1s = append(g1s, g1Of(e))
		}
	}
	if w[2] != "-" {
		for _, e := range strings.Split(w[2], "|") {
			g2s = append(g2s, g2Of(e))
		}
	}
	s := bn256.NewSuite()
	var ka, kb []kyber.Point
	for i := range g1s {
		p := s.G1().Point()
		*bn256.VerifG1Of(p) = *asG1(&g1s[i])
		ka = append(ka, p)
	}
	for i := range g2s {
		q := s.G2().Point()
		*bn256.VerifG2Of(q) = *asG2(&g2s[i])
		kb = append(kb, q)
	}
	res.Impl = func() (out string) {
		defer func() {
			if r := recover(); r != nil {
				if !strings.Contains(fmt.Sprint(r), "index out of range") {
					panic(r)
				}
				out = "panic"
			}
		}()
		return fmt.Sprint(s.PairingCheck(ka, kb))
	}()
	switch {
	case len(g2s) < len(g1s):
		res.Class += "-short-b"
		return res
	case len(g2s) > len(g1s):
		// no clause of C10 says what a longer b must do (cut, as the code does, or refuse): model comparison only
		res.Class += "-long-b"
		return res
	default:
		res.Class += "-equal"
	}
	var gps []*google.G1
	var gqs []*google.G2
	for i := range g1s {
		if !onCurveJacG1(g1s[i]) || !validG2ForPairing(g2s[i]) {
			res.Class += "-invalid-input"
			return res
		}
		gp, e1 := googleG1(affG1(g1s[i]))
		gq, e2 := googleG2(affG2(g2s[i]))
		if e1 != nil || e2 != nil {
			res.Class += "-invalid-input"
			return res
		}
		gps, gqs = append(gps, gp), append(gqs, gq)
	}
	if want := fmt.Sprint(google.PairingCheck(gps, gqs)); want != res.Impl {
		res.Oracle = fmt.Sprintf("c10-checkl: PairingCheck on %d and %d points = %s, bn256/google on the first %d pairs says %s", len(g1s), len(g2s), res.Impl, len(g1s), want)
	}
	return res
}

// exec runs a case on the host's default gfpMul path and — for every kind except `f`, which switches the
// flag per primitive itself — once more with hasBMI2 forced off (review F #7: tower, curve, pairing, kyber
// and api cases used to run on the default path only). The two runs must give the same canonical output
// (sig c10-bmi2-paths-differ) and each must satisfy the case's oracle.
func exec(line string) h.Result {
	w := strings.Fields(line)
	if len(w) == 0 {
		panic("empty case")
	}
	res := exec1(w)
	if !cpuBMI2 || w[0] == "f" {
		return res
	}
	r2 := func() h.Result {
		old := bn256.VerifSetBMI2(false)
		defer bn256.VerifSetBMI2(old)
		return exec1(w)
	}()
	if r2.Impl != res.Impl {
		res.Oracle = fmt.Sprintf("c10-bmi2-paths-differ: %s case: MULX path %.80s MULQ path %.80s", w[0], res.Impl, r2.Impl)
	} else if res.Oracle == "" && r2.Oracle != "" {
		res.Oracle = r2.Oracle + " (hasBMI2=false)"
	}
	return res
}

func exec1(w []string) h.Result {
	switch w[0] {
	case "f":
		return execField(w)
	case "fx":
		return execFx(w)
	case "t2", "t2a":
		return execT2(w)
	case "t6", "t6a":
		return execT6(w)
	case "t12", "t12a":
		return execT12(w)
	case "g1":
		return execG1(w)
	case "g2":
		return execG2(w)
	case "miller", "pair":
		return execPair(w)
	case "check":
		return execCheck(w)
	case "checkl":
		return execCheckL(w)
	case "api":
		return execAPI(w)
	case "k1", "k2", "kt":
		return execKyber(w)
	case "const":
		return execConst(w)
	}
	panic("unknown case kind " + w[0])
}

func execConst(w []string) h.Result {
	res := h.Result{Class: "const", Nontrivial: true}
	switch w[1] {
	case "curveGen":
		g := bn256.VerifCurveGen()
		r := fromG1(&g)
		res.Impl = hexFes(r[:])
		if A := affG1(r); A.inf || A.x.y.Cmp(big.NewInt(1)) != 0 || A.y.y.Cmp(big.NewInt(2)) != 0 {
			res.Oracle = "c10-const: G1 generator is not (1,2)"
		}
	case "twistGen":
		g := bn256.VerifTwistGen()
		r := fromG2(&g)
		res.Impl = hexFes(r[:])
		want := new(google.G2).ScalarBaseMult(big.NewInt(1)).Marshal()
		if !bytes.Equal(bytesG2(affG2(r)), want) {
			res.Oracle = "c10-const: G2 generator differs from the reference generator"
		}
	case "gtGen":
		g := bn256.VerifGTGen()
		r := fromFp12(&g)
		res.Impl = hexFes(r[:])
		if !bytes.Equal(bytesGT(decR12(r[:])), googleGTGen.Marshal()) {
			res.Oracle = "c10-const: GT generator is not e(G1,G2) of the reference"
		}
	case "gtInf":
		var r fe12
		r[11] = feFromBig(refR)
		res.Impl = hexFes(r[:])
		s := bn256.NewSuite()
		one := fromFp12(bn256.VerifGTOf(s.GT().Point().Null()))
		if one != r {
			res.Impl = hexFes(one[:])
			res.Oracle = "c10-const: GT identity is not one"
		}
	case "curveB":
		b := bn256.VerifCurveB()
		res.Impl = hexFe(b)
		if decFe(b).Cmp(big.NewInt(3)) != 0 {
			res.Oracle = "c10-const: curve b != 3"
		}
	case "twistB":
		b := bn256.VerifTwistB()
		r := fromFp2(&b)
		res.Impl = hexFes(r[:])
		if !r2eq(decR2(r[:]), refTwistB) {
			res.Oracle = "c10-const: twist b != 3/xi"
		}
	default:
		panic("unknown const")
	}
	return res
}

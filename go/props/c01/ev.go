package c01

// Chain-event cases: the path from an on-chain EVENT to the report, through the real
// onchainLoop (dosnode/dos_chain_handler.go), group table lookup, handleQuery and queryLoop of n
// real nodes that talk to each other through the P2P doubles (no scripted delivery order).
//
//	ev <kind> <n> <seed> <ids> <gid> <evgid> <last> <rid> <useed> <doc> <sel> <parsed> <dup>
//
//	gid    the group id under which every node's group table holds the group (a decoy group with other
//	       keys and another member order is held under gid+1)
//	evgid  DispatchedGroupId of the event (= gid, or a group nobody is in)
//	last   LastRandomness / LastSystemRandomness / Randomness;  rid  RequestId / QueryId;  useed  UserSeed
//	dup    how many times the event is delivered to every node; a suffix c (e.g. 1c): a LogStartCommitReveal
//	       event follows directly behind every delivery. onchainLoop hands handleCR the very *big.Int of the
//	       request event it also handed to the concurrently started handleQuery (randSeed): a second handler
//	       works on the same event-derived objects. The schedule is made deterministic without sleeping: the
//	       node's logger double holds handleQuery at its first log record (before it reads its numbers) until
//	       handleCR has passed its first statements (it then asks the chain double for the current block).
//	       The report must be the function of the event's fields AS THE CHAIN DOUBLE EMITTED THEM.

import (
	"bytes"
	"fmt"
	"math/big"
	"reflect"
	"strconv"
	"strings"
	"sync"
	"time"

	"github.com/DOSNetwork/core/dosnode"
	"github.com/DOSNetwork/core/onchain"
	"github.com/DOSNetwork/core/p2p"
	"github.com/ethereum/go-ethereum/common"
	"github.com/golang/protobuf/proto"

	"context"

	"verifharness/internal/doubles"
	"verifharness/internal/h"
)

type evCase struct {
	k          *kase
	gid, evgid *big.Int
	dup        int
	cr         bool // a commit-reveal event right behind the request event
}

// crChain: the chain double plus what handleCR needs. CurrentBlock is handleCR's first call after it
// has drawn its secret from randSeed: it opens the gate of the node's logger.
type crChain struct {
	*doubles.Chain
	gate *gate
}

type gate struct {
	once sync.Once
	ch   chan struct{}
}

func (g *gate) open() { g.once.Do(func() { close(g.ch) }) }

func (c crChain) CurrentBlock() (uint64, error)   { c.gate.open(); return 100, nil }
func (c crChain) Commit(*big.Int, [32]byte) error { return nil }
func (c crChain) Reveal(*big.Int, *big.Int) error { return nil }

// gateLogger holds the caller of Event("HandleQuery") - the first thing handleQuery does after building
// its context - until the gate opens (bounded: 3 s).
type gateLogger struct {
	*doubles.Logger
	gate *gate
}

func (l gateLogger) Event(e string, f map[string]interface{}) {
	if e == "HandleQuery" {
		select {
		case <-l.gate.ch:
		case <-time.After(3 * time.Second):
		}
	}
	l.Logger.Event(e, f)
}

func parseEv(line string) *evCase {
	w := strings.Fields(line)
	if len(w) != 14 || w[0] != "ev" {
		panic("bad ev case line")
	}
	k := &kase{kind: w[1], n: h.Atoi(w[2]), byz: map[int]bool{}}
	k.seed, _ = strconv.ParseUint(w[3], 10, 64)
	for _, s := range strings.Split(w[4], ";") {
		k.ids = append(k.ids, h.UnHex(s))
	}
	if len(k.ids) != k.n {
		panic("bad ev case line: ids")
	}
	e := &evCase{k: k, gid: h.BigDec(w[5]), evgid: h.BigDec(w[6]), cr: strings.HasSuffix(w[13], "c")}
	e.dup = h.Atoi(strings.TrimSuffix(w[13], "c"))
	k.last, k.rid, k.seed2 = h.BigDec(w[7]), h.BigDec(w[8]), h.BigDec(w[9])
	k.doc, k.sel, k.parsed = h.UnHex(w[10]), string(h.UnHex(w[11])), w[12]
	return e
}

func runEv(e *evCase) (impl, oracle, class string) {
	k := e.k
	g0 := mkGroup(k.n, k.seed, "grp")
	g := &group{n: g0.n, t: g0.t, ids: k.ids, pub: g0.pub, shares: g0.shares, secret: g0.secret}
	decoy := mkGroup(k.n, k.seed, "foreign")
	w := &world{k: k, g: g, other: decoy, sub: k.submitter()}
	c0, c0ok := k.content0(g, w.sub)
	w.contents = [][]byte{c0}
	member := e.evgid.Cmp(e.gid) == 0
	class = fmt.Sprintf("event %s n=%d member=%v dup=%d", k.kind, k.n, member, e.dup)
	if e.cr {
		class += " +commit-reveal event behind it"
	}
	url := ""
	if k.kind == "url" {
		url = docURL(k.doc)
		now := "err"
		if c0ok {
			now = h.Hex(c0[:len(c0)-len(g.ids[w.sub])])
		}
		if now != k.parsed {
			oracle = "nondeterministic: dataParse gives another result than when the case was generated"
		}
	}
	var decoyIDs [][]byte
	for i := k.n - 1; i >= 0; i-- {
		decoyIDs = append(decoyIDs, k.ids[i])
	}
	var mu sync.Mutex
	sends := 0
	for i := 0; i < k.n; i++ {
		nd := &node{idx: i, p: doubles.NewP2P(g.ids[i], 256), lg: doubles.NewLogger(), done: make(chan struct{})}
		nd.chain = &doubles.Chain{Addr: common.BytesToAddress(g.ids[i]), BlockTime: 1, Events: make(chan interface{}), Notify: make(chan struct{}, 4)}
		table := &doubles.DKG{Groups: map[string]doubles.Group{
			e.gid.Text(16): {IDs: g.ids, Pub: g.pub, Sec: g.shares[i]},
			new(big.Int).Add(e.gid, big.NewInt(1)).Text(16): {IDs: decoyIDs, Pub: decoy.pub, Sec: decoy.shares[k.n-1-i]},
		}}
		if e.cr {
			gt := &gate{ch: make(chan struct{})}
			nd.d = dosnode.VerifNewNode(g.ids[i], nd.p, crChain{nd.chain, gt}, table, 21, gateLogger{nd.lg, gt})
		} else {
			nd.d = dosnode.VerifNewNode(g.ids[i], nd.p, nd.chain, table, 21, nd.lg)
		}
		w.nodes = append(w.nodes, nd)
	}
	for _, nd := range w.nodes {
		nd := nd
		nd.p.OnRequest = func(_ context.Context, from, to []byte, m proto.Message) (p2p.P2PMessage, error) {
			mu.Lock()
			sends++
			mu.Unlock()
			if m == nil || reflect.ValueOf(m).IsNil() {
				// a nil share (nothing to sign): the real network cannot encode it, nothing is delivered
				return p2p.P2PMessage{}, fmt.Errorf("nil message")
			}
			for _, t := range w.nodes {
				if bytes.Equal(t.p.ID, to) {
					t := t
					c := proto.Clone(m)
					go t.p.DeliverTimeout(from, c, patience*20*time.Second)
				}
			}
			return p2p.P2PMessage{}, nil
		}
		go nd.d.VerifQueryLoop()
		go nd.d.VerifOnchainLoop()
	}
	defer func() {
		for _, nd := range w.nodes {
			nd.d.VerifCancel()
		}
	}()
	mkEvent := func() interface{} {
		switch k.kind {
		case "sys":
			return &onchain.LogUpdateRandom{LastRandomness: new(big.Int).Set(k.last), DispatchedGroupId: new(big.Int).Set(e.evgid)}
		case "user":
			return &onchain.LogRequestUserRandom{RequestId: new(big.Int).Set(k.rid), LastSystemRandomness: new(big.Int).Set(k.last),
				UserSeed: new(big.Int).Set(k.seed2), DispatchedGroupId: new(big.Int).Set(e.evgid)}
		}
		return &onchain.LogUrl{QueryId: new(big.Int).Set(k.rid), Timeout: big.NewInt(30), DataSource: url, Selector: k.sel,
			Randomness: new(big.Int).Set(k.last), DispatchedGroupId: new(big.Int).Set(e.evgid)}
	}
	send := func(nd *node, ev interface{}) bool {
		select {
		case nd.chain.Events <- ev:
			return true
		case <-time.After(patience * 15 * time.Second):
			return false
		}
	}
	for rep := 0; rep < e.dup; rep++ {
		for _, nd := range w.nodes {
			if !send(nd, mkEvent()) {
				return "stuck event", "stuck-onchain-loop: onchainLoop did not take a chain event for 15 s", class
			}
			if e.cr {
				cr := &onchain.LogStartCommitReveal{Cid: big.NewInt(int64(7 + rep)), StartBlock: big.NewInt(100),
					CommitDuration: big.NewInt(1), RevealDuration: big.NewInt(1), RevealThreshold: big.NewInt(1)}
				if !send(nd, cr) {
					return "stuck event", "stuck-onchain-loop: onchainLoop did not take a chain event for 15 s", class
				}
			}
		}
	}
	for _, nd := range w.nodes { // an event type the loop ignores: once taken, the previous one has been handled
		if !send(nd, struct{}{}) {
			return "stuck event", "stuck-onchain-loop: onchainLoop did not take a chain event for 15 s", class
		}
	}
	sn := w.nodes[w.sub]
	expectReport := member && c0ok
	if expectReport {
		select {
		case <-sn.chain.Notify:
		case <-time.After(patience * 10 * time.Second):
		}
		if e.dup > 1 { // a second pipeline may report as well
			time.Sleep(150 * time.Millisecond)
		}
	} else {
		time.Sleep(200 * time.Millisecond)
	}
	// observations
	parts := []string{"sub=" + strconv.Itoa(w.sub)}
	total := 0
	for _, nd := range w.nodes {
		reps := nd.chain.Reports()
		total += len(reps)
		if len(reps) == 0 {
			parts = append(parts, fmt.Sprintf("%d=-", nd.idx))
			continue
		}
		seen := map[string]bool{}
		for _, r := range reps {
			if r.Sig == nil {
				parts = append(parts, fmt.Sprintf("%d=%s/nil", nd.idx, r.Kind))
				continue
			}
			cls := "?"
			if gs, err := blsSign(g, c0); err == nil && bytes.Equal(gs, r.Sig.Signature) {
				cls = "g0"
			}
			line := fmt.Sprintf("%d=%s/%s/%d/%s/%s", nd.idx, r.Kind, h.Hex(r.Sig.RequestId), r.Sig.Index, h.Hex(r.Sig.Content), cls)
			if !seen[line] {
				seen[line] = true
				parts = append(parts, line)
			}
			if oracle != "" {
				continue
			}
			if nd.idx != w.sub {
				oracle = fmt.Sprintf("non-submitter-reported: member %d reported, the submitter the event defines is %d", nd.idx, w.sub)
			} else if o := w.checkReport(nd, r); o != "" {
				oracle = o
			} else if c0ok && k.kind != "sys" && !bytes.Equal(r.Sig.Content, c0[:len(c0)-len(g.ids[w.sub])]) {
				oracle = "wrong-result: the submitted result is not the function of the event's fields the property fixes"
			}
		}
		if oracle == "" && len(reps) > e.dup {
			oracle = fmt.Sprintf("extra-report: member %d reported %d times for %d deliveries of the event", nd.idx, len(reps), e.dup)
		}
	}
	if oracle == "" {
		switch {
		case !member && (total > 0 || sends > 0):
			oracle = fmt.Sprintf("not-a-member-acted: event for a group no node is in produced %d report(s) and %d share message(s)", total, sends)
		case expectReport && total == 0:
			oracle = "no-report-for-event: every member holds the dispatched group and nobody reported within 10 s"
		}
	}
	return strings.Join(parts, " "), oracle, class
}

func blsSign(g *group, c []byte) ([]byte, error) {
	if c == nil {
		return nil, fmt.Errorf("no content")
	}
	return blsSignRaw(g, c)
}

func genEv(tier string, rng *h.Rng, emit func(string)) {
	kinds := []string{"sys", "user", "url"}
	fl := 100
	count := 0
	line := func(b *build, gid, evgid *big.Int, dup int) string {
		var ids []string
		for _, id := range b.ids() {
			ids = append(ids, h.Hex(id))
		}
		parsed, sel := "-", "-"
		if b.kind == "url" {
			parsed = "err"
			if p, ok := b.dataOf(b.last); ok {
				parsed = h.Hex(p)
			}
		}
		if b.sel != "" {
			sel = h.Hex([]byte(b.sel))
		}
		return fmt.Sprintf("ev %s %d %d %s %s %s %s %s %s %s %s %s %d", b.kind, b.n, b.seed, strings.Join(ids, ";"), gid, evgid,
			b.last, b.rid, b.us, h.Hex(b.doc), sel, parsed, dup)
	}
	ns := []int{3, 4, 5}
	if tier == "thorough" {
		ns = []int{3, 4, 5, 6, 7}
	}
	for _, n := range ns {
		for ki, kind := range kinds {
			reps := 1
			if tier == "thorough" {
				reps = 4
			}
			for r := 0; r < reps; r++ {
				sub := (ki + count) % n
				count++
				b := newBuild(rng, kind, n, sub, fl, nil)
				fl++
				if kind == "user" && r == 0 { // fields of clearly different magnitude, so a swap shows
					b.us = new(big.Int).SetBytes(rng.Bytes(31))
					b.rid = big.NewInt(int64(1000 + rng.Intn(1000)))
				}
				gid := new(big.Int).SetBytes(rng.Bytes(1 + rng.Intn(32)))
				emit(line(b, gid, gid, 1))
				emit(line(b, gid, gid, 1) + "c") // the same event with a commit-reveal event right behind it
				if r == 0 {
					emit(line(b, gid, new(big.Int).Add(gid, big.NewInt(7)), 1)) // a group nobody is in
					if n <= 4 {
						emit(line(b, gid, gid, 2)) // the same event twice
					}
				}
			}
		}
	}
	// a url event whose selector fails everywhere: nobody can sign, nobody reports
	b := newBuild(rng, "url", 3, 1, fl, nil)
	b.doc, b.sel = []byte(`{"a":1`), "$.a"
	emit(line(b, big.NewInt(77), big.NewInt(77), 1))
}

/-
C20 — the loads of scalar.go: `2097151 & load3(a[:])`, `2097151 & (load4(a[2:]) >> 5)`, … , `load4(a[28:]) >> 7`
cut a 32-byte string into 12 limbs (radix 2^21, the last one 25 bits) with the same little-endian value.
-/
import DosModel.Proofs.Ed25519Pack

set_option exponentiation.threshold 600

namespace Dos.Ed25519
open Dos Dos.Gen.Ed25519Sc

/-- the twelve load expressions of scMulAdd / scAdd / scSub / scMul for one 32-byte operand -/
def unpack12 (shr : Shr) (a : Bytes) : List Int :=
  [band 2097151 (load3 (sl a 0)), band 2097151 (shr (load4 (sl a 2)) 5), band 2097151 (shr (load3 (sl a 5)) 2),
   band 2097151 (shr (load4 (sl a 7)) 7), band 2097151 (shr (load4 (sl a 10)) 4), band 2097151 (shr (load3 (sl a 13)) 1),
   band 2097151 (shr (load4 (sl a 15)) 6), band 2097151 (shr (load3 (sl a 18)) 3), band 2097151 (load3 (sl a 21)),
   band 2097151 (shr (load4 (sl a 23)) 5), band 2097151 (shr (load3 (sl a 26)) 2), shr (load4 (sl a 28)) 7]

/-- value of a list of 12 limbs -/
def value12L : List Int → Int
  | [a0, a1, a2, a3, a4, a5, a6, a7, a8, a9, a10, a11] => value12 a0 a1 a2 a3 a4 a5 a6 a7 a8 a9 a10 a11
  | _ => 0

theorem bytes32 (a : Bytes) (h : a.length = 32) :
    ∃ x0 x1 x2 x3 x4 x5 x6 x7 x8 x9 x10 x11 x12 x13 x14 x15 x16 x17 x18 x19 x20 x21 x22 x23 x24 x25 x26 x27 x28 x29 x30 x31 : UInt8, a = [x0, x1, x2, x3, x4, x5, x6, x7, x8, x9, x10, x11, x12, x13, x14, x15, x16, x17, x18, x19, x20, x21, x22, x23, x24, x25, x26, x27, x28, x29, x30, x31] := by
  rcases a with _ | ⟨x0, a⟩
  · simp at h
  rcases a with _ | ⟨x1, a⟩
  · simp at h
  rcases a with _ | ⟨x2, a⟩
  · simp at h
  rcases a with _ | ⟨x3, a⟩
  · simp at h
  rcases a with _ | ⟨x4, a⟩
  · simp at h
  rcases a with _ | ⟨x5, a⟩
  · simp at h
  rcases a with _ | ⟨x6, a⟩
  · simp at h
  rcases a with _ | ⟨x7, a⟩
  · simp at h
  rcases a with _ | ⟨x8, a⟩
  · simp at h
  rcases a with _ | ⟨x9, a⟩
  · simp at h
  rcases a with _ | ⟨x10, a⟩
  · simp at h
  rcases a with _ | ⟨x11, a⟩
  · simp at h
  rcases a with _ | ⟨x12, a⟩
  · simp at h
  rcases a with _ | ⟨x13, a⟩
  · simp at h
  rcases a with _ | ⟨x14, a⟩
  · simp at h
  rcases a with _ | ⟨x15, a⟩
  · simp at h
  rcases a with _ | ⟨x16, a⟩
  · simp at h
  rcases a with _ | ⟨x17, a⟩
  · simp at h
  rcases a with _ | ⟨x18, a⟩
  · simp at h
  rcases a with _ | ⟨x19, a⟩
  · simp at h
  rcases a with _ | ⟨x20, a⟩
  · simp at h
  rcases a with _ | ⟨x21, a⟩
  · simp at h
  rcases a with _ | ⟨x22, a⟩
  · simp at h
  rcases a with _ | ⟨x23, a⟩
  · simp at h
  rcases a with _ | ⟨x24, a⟩
  · simp at h
  rcases a with _ | ⟨x25, a⟩
  · simp at h
  rcases a with _ | ⟨x26, a⟩
  · simp at h
  rcases a with _ | ⟨x27, a⟩
  · simp at h
  rcases a with _ | ⟨x28, a⟩
  · simp at h
  rcases a with _ | ⟨x29, a⟩
  · simp at h
  rcases a with _ | ⟨x30, a⟩
  · simp at h
  rcases a with _ | ⟨x31, a⟩
  · simp at h
  cases a with
  | nil => exact ⟨x0, x1, x2, x3, x4, x5, x6, x7, x8, x9, x10, x11, x12, x13, x14, x15, x16, x17, x18, x19, x20, x21, x22, x23, x24, x25, x26, x27, x28, x29, x30, x31, rfl⟩
  | cons y ys => simp at h

set_option maxHeartbeats 2000000 in
theorem unpack12_value_explicit (x0 x1 x2 x3 x4 x5 x6 x7 x8 x9 x10 x11 x12 x13 x14 x15 x16 x17 x18 x19 x20 x21 x22 x23 x24 x25 x26 x27 x28 x29 x30 x31 : UInt8) :
    value12L (unpack12 shrI [x0, x1, x2, x3, x4, x5, x6, x7, x8, x9, x10, x11, x12, x13, x14, x15, x16, x17, x18, x19, x20, x21, x22, x23, x24, x25, x26, x27, x28, x29, x30, x31]) = (leNat [x0, x1, x2, x3, x4, x5, x6, x7, x8, x9, x10, x11, x12, x13, x14, x15, x16, x17, x18, x19, x20, x21, x22, x23, x24, x25, x26, x27, x28, x29, x30, x31] : Int) := by
  have h0 := x0.toNat_lt
  have h1 := x1.toNat_lt
  have h2 := x2.toNat_lt
  have h3 := x3.toNat_lt
  have h4 := x4.toNat_lt
  have h5 := x5.toNat_lt
  have h6 := x6.toNat_lt
  have h7 := x7.toNat_lt
  have h8 := x8.toNat_lt
  have h9 := x9.toNat_lt
  have h10 := x10.toNat_lt
  have h11 := x11.toNat_lt
  have h12 := x12.toNat_lt
  have h13 := x13.toNat_lt
  have h14 := x14.toNat_lt
  have h15 := x15.toNat_lt
  have h16 := x16.toNat_lt
  have h17 := x17.toNat_lt
  have h18 := x18.toNat_lt
  have h19 := x19.toNat_lt
  have h20 := x20.toNat_lt
  have h21 := x21.toNat_lt
  have h22 := x22.toNat_lt
  have h23 := x23.toNat_lt
  have h24 := x24.toNat_lt
  have h25 := x25.toNat_lt
  have h26 := x26.toNat_lt
  have h27 := x27.toNat_lt
  have h28 := x28.toNat_lt
  have h29 := x29.toNat_lt
  have h30 := x30.toNat_lt
  have h31 := x31.toNat_lt
  simp only [unpack12, sl, List.drop_succ_cons, List.drop_zero, load3, load4, value12L, value12, shrI,
    Int.shiftRight_eq_div_pow, Int.ofNat_eq_natCast]
  simp (disch := omega) only [band_mask21]
  simp only [leNat]
  push_cast
  omega

/-- **load**: the 12 limbs of a 32-byte string have its little-endian value -/
theorem unpack12_value (a : Bytes) (h : a.length = 32) : value12L (unpack12 shrI a) = (leNat a : Int) := by
  obtain ⟨x0, x1, x2, x3, x4, x5, x6, x7, x8, x9, x10, x11, x12, x13, x14, x15, x16, x17, x18, x19, x20, x21, x22, x23, x24, x25, x26, x27, x28, x29, x30, x31, rfl⟩ := bytes32 a h
  exact unpack12_value_explicit _ _ _ _ _ _ _ _ _ _ _ _ _ _ _ _ _ _ _ _ _ _ _ _ _ _ _ _ _ _ _ _

end Dos.Ed25519

/-
Helper lemmas for the subscription-table model (Model/P2PSub.lean): the string-keyed table of
messageDispatch refines the specification by type identity whenever the three key computations
agree on every type of the universe and separate every two of them.
-/
import DosModel.Model.P2PSub

namespace Dos.P2PSub

theorem Table.get_del (t : Table) (k k' : String) :
    Table.get (Table.del t k) k' = if k' = k then none else Table.get t k' := by
  induction t with
  | nil => simp [Table.del, Table.get]
  | cons e r ih =>
    obtain ⟨k0, ch⟩ := e
    by_cases h0 : k0 = k
    · have : Table.del ((k0, ch) :: r) k = Table.del r k := by simp [Table.del, h0]
      rw [this, ih]
      by_cases h1 : k' = k
      · simp [h1]
      · have : k0 ≠ k' := fun h => h1 (h ▸ h0)
        simp [h1, Table.get, this]
    · have : Table.del ((k0, ch) :: r) k = (k0, ch) :: Table.del r k := by simp [Table.del, h0]
      rw [this]
      by_cases h1 : k0 = k'
      · have : k' ≠ k := fun h => h0 (h1.trans h)
        simp [Table.get, h1, this]
      · simp only [Table.get, h1, if_false]
        exact ih

theorem Table.get_set (t : Table) (k k' : String) (ch : Nat) :
    Table.get (Table.set t k ch) k' = if k' = k then some ch else Table.get t k' := by
  by_cases h : k = k'
  · simp [Table.set, Table.get, h]
  · have h' : ¬ k' = k := fun e => h e.symm
    simp [Table.set, Table.get, h, h', Table.get_del]

/-- the three key computations agree on every type of `U`, separate every two types of `U`, and
a subscription / unsubscription handed a POINTER lands on a key no struct value has -/
structure Good (c : Cfg) (U : TypeId → Prop) : Prop where
  agreeD : ∀ T, U T → c.dispatch.key ⟨T, true⟩ = c.subscribe.key ⟨T, false⟩
  agreeU : ∀ T, U T → c.unsubscribe.key ⟨T, false⟩ = c.subscribe.key ⟨T, false⟩
  sep    : ∀ T T', U T → U T' → c.subscribe.key ⟨T, false⟩ = c.subscribe.key ⟨T', false⟩ → T = T'
  ptrS   : ∀ T T', U T → U T' → c.subscribe.key ⟨T, true⟩ ≠ c.subscribe.key ⟨T', false⟩
  ptrU   : ∀ T T', U T → U T' → c.unsubscribe.key ⟨T, true⟩ ≠ c.subscribe.key ⟨T', false⟩

/-- the same as a computation over a finite list of types -/
def goodCheck (c : Cfg) (reg : List TypeId) : Bool :=
  reg.all fun T =>
    c.dispatch.key ⟨T, true⟩ == c.subscribe.key ⟨T, false⟩ &&
    c.unsubscribe.key ⟨T, false⟩ == c.subscribe.key ⟨T, false⟩ &&
    reg.all fun T' =>
      (c.subscribe.key ⟨T, false⟩ != c.subscribe.key ⟨T', false⟩ || T == T') &&
      c.subscribe.key ⟨T, true⟩ != c.subscribe.key ⟨T', false⟩ &&
      c.unsubscribe.key ⟨T, true⟩ != c.subscribe.key ⟨T', false⟩

theorem good_of_check (c : Cfg) (reg : List TypeId) (h : goodCheck c reg = true) : Good c (· ∈ reg) := by
  simp only [goodCheck, List.all_eq_true, Bool.and_eq_true, beq_iff_eq, Bool.or_eq_true, bne_iff_ne] at h
  refine ⟨fun T hT => (h T hT).1.1, fun T hT => (h T hT).1.2, ?_, ?_, ?_⟩
  · intro T T' hT hT' e
    rcases ((h T hT).2 T' hT').1.1 with h1 | h1
    · exact absurd e h1
    · exact h1
  · intro T T' hT hT'
    exact ((h T hT).2 T' hT').1.2
  · intro T T' hT hT'
    exact ((h T hT).2 T' hT').2

/-- the table represents `cur`: every type's by-value key holds that type's current subscriber -/
def Rep (c : Cfg) (U : TypeId → Prop) (t : Table) (cur : TypeId → Option Nat) : Prop :=
  ∀ T, U T → Table.get t (c.subscribe.key ⟨T, false⟩) = cur T

theorem rep_empty (c : Cfg) (U : TypeId → Prop) : Rep c U [] (fun _ => none) := by
  intro T _; rfl

theorem rep_subscribe {c : Cfg} {U : TypeId → Prop} (g : Good c U) {t : Table} {cur : TypeId → Option Nat}
    (r : Rep c U t cur) (ch : Nat) (h : Handed) (hU : U h.ty) :
    Rep c U (Table.set t (c.subscribe.key h) ch)
      (fun ty => if h.ty = ty ∧ h.ptr = false then some ch else cur ty) := by
  intro T hT
  rw [Table.get_set]
  obtain ⟨ty, p⟩ := h
  cases p with
  | false =>
    by_cases e : ty = T
    · subst e; simp
    · have : c.subscribe.key ⟨T, false⟩ ≠ c.subscribe.key ⟨ty, false⟩ := fun k => e (g.sep T ty hT hU k).symm
      simp [this, e, r T hT]
  | true =>
    have : c.subscribe.key ⟨T, false⟩ ≠ c.subscribe.key ⟨ty, true⟩ := fun k => g.ptrS ty T hU hT k.symm
    simp [this, r T hT]

theorem rep_unsubscribe {c : Cfg} {U : TypeId → Prop} (g : Good c U) {t : Table} {cur : TypeId → Option Nat}
    (r : Rep c U t cur) (h : Handed) (hU : U h.ty) :
    Rep c U (Table.del t (c.unsubscribe.key h))
      (fun ty => if h.ty = ty ∧ h.ptr = false then none else cur ty) := by
  intro T hT
  rw [Table.get_del]
  obtain ⟨ty, p⟩ := h
  cases p with
  | false =>
    rw [g.agreeU ty hU]
    by_cases e : ty = T
    · subst e; simp
    · have : c.subscribe.key ⟨T, false⟩ ≠ c.subscribe.key ⟨ty, false⟩ := fun k => e (g.sep T ty hT hU k).symm
      simp [this, e, r T hT]
  | true =>
    have : c.subscribe.key ⟨T, false⟩ ≠ c.unsubscribe.key ⟨ty, true⟩ := fun k => g.ptrU ty T hU hT k.symm
    simp [this, r T hT]

theorem step_msg {c : Cfg} {U : TypeId → Prop} (g : Good c U) {t : Table} {cur : TypeId → Option Nat}
    (r : Rep c U t cur) (id : Nat) (T : TypeId) (hT : U T) :
    step c t (.msg id T) = (t, (cur T).map fun ch => ⟨ch, id⟩) := by
  simp only [step, g.agreeD T hT, r T hT]
  cases cur T <;> rfl

/-- refinement: on every history over types of `U` the table-driven loop delivers exactly what the
specification by type identity asks for — same messages, same channels, same order, each once -/
theorem run_eq_spec {c : Cfg} {U : TypeId → Prop} (g : Good c U) :
    ∀ (evs : List Ev) (t : Table) (cur : TypeId → Option Nat), Rep c U t cur → (∀ e ∈ evs, U e.ty) →
      (run c t evs).2 = specRun evs cur := by
  intro evs
  induction evs with
  | nil => intro t cur _ _; rfl
  | cons e es ih =>
    intro t cur r hU
    have hUe : U e.ty := hU e (List.mem_cons_self ..)
    have hUes : ∀ e' ∈ es, U e'.ty := fun e' h => hU e' (List.mem_cons_of_mem _ h)
    cases e with
    | subscribe ch h =>
      simp only [run, step, specRun]
      exact ih _ _ (rep_subscribe g r ch h hUe) hUes
    | unsubscribe h =>
      simp only [run, step, specRun]
      exact ih _ _ (rep_unsubscribe g r h hUe) hUes
    | msg id T =>
      have hs := step_msg g r id T hUe
      simp only [run, hs, specRun]
      cases hc : cur T with
      | none => simpa using ih t cur r hUes
      | some ch => simpa using ih t cur r hUes

/-- the table after a history still represents the specification's current-subscriber map -/
theorem rep_after {c : Cfg} {U : TypeId → Prop} (g : Good c U) :
    ∀ (evs : List Ev) (t : Table) (cur : TypeId → Option Nat), Rep c U t cur → (∀ e ∈ evs, U e.ty) →
      Rep c U (run c t evs).1 (fun T => subscriberOf T evs (cur T)) := by
  intro evs
  induction evs with
  | nil => intro t cur r _; exact r
  | cons e es ih =>
    intro t cur r hU
    have hUe : U e.ty := hU e (List.mem_cons_self ..)
    have hUes : ∀ e' ∈ es, U e'.ty := fun e' h => hU e' (List.mem_cons_of_mem _ h)
    cases e with
    | subscribe ch h =>
      simp only [run, step, subscriberOf]
      exact ih _ _ (rep_subscribe g r ch h hUe) hUes
    | unsubscribe h =>
      simp only [run, step, subscriberOf]
      exact ih _ _ (rep_unsubscribe g r h hUe) hUes
    | msg id T =>
      have hs := step_msg g r id T hUe
      simp only [run, hs, subscriberOf]
      exact ih t cur r hUes

theorem subscriberOf_append (T : TypeId) (a b : List Ev) (cur : Option Nat) :
    subscriberOf T (a ++ b) cur = subscriberOf T b (subscriberOf T a cur) := by
  induction a generalizing cur with
  | nil => rfl
  | cons e es ih => cases e <;> simp [subscriberOf, ih]

theorem run_append_fst (c : Cfg) (a b : List Ev) (t : Table) :
    (run c t (a ++ b)).1 = (run c (run c t a).1 b).1 := by
  induction a generalizing t with
  | nil => rfl
  | cons e es ih => simp [run, ih]

end Dos.P2PSub

/-
C14 helper: the executable successor function `succs` enumerates exactly the steps of the
relation `Step` (sound and complete).  Used by the verified explorer and by the driver.
-/
import DosModel.Model.PipeSem

namespace Dos.Pipe

theorem gs_lt_of_at {s : State} {g : Gi} {x : GSt} (h : s.gs[g]? = some x) : g < s.gs.length := by
  have := List.getElem?_eq_some_iff.mp h
  exact this.1

theorem mem_syncSuccs {p : Pipeline} {s : State} {g : Gi} {n : Pc} {c : Ch} {x : Ev × Cfg} :
    x ∈ syncSuccs p s g n c ↔
      p.cap c = 0 ∧ s.closed c = false ∧ ∃ g' pc' nd' n', g' ≠ g ∧ s.gs[g']? = some (.at pc') ∧
        p.node g' pc' = some nd' ∧ (Lab.recvOk c, n') ∈ nd'.edges ∧
        x = (.sync g g' c, .run ((s.setG g (.at n)).setG g' (.at n'))) := by
  unfold syncSuccs
  constructor
  · intro h
    split at h
    · rename_i hc
      refine ⟨hc.1, hc.2, ?_⟩
      simp only [List.mem_flatMap, List.mem_range] at h
      obtain ⟨g', _, hg'⟩ := h
      split at hg'
      · simp at hg'
      · rename_i hne
        split at hg'
        · rename_i pc' hat
          split at hg'
          · rename_i nd' hnd
            simp only [List.mem_filterMap] at hg'
            obtain ⟨e, he, hx⟩ := hg'
            split at hx
            · rename_i hl
              simp only [Option.some.injEq] at hx
              refine ⟨g', pc', nd', e.2, hne, hat, hnd, ?_, hx.symm⟩
              rw [← hl]; exact he
            · simp at hx
          · simp at hg'
        · simp at hg'
    · simp at h
  · rintro ⟨h0, hcl, g', pc', nd', n', hne, hat, hnd, hmem, rfl⟩
    rw [if_pos ⟨h0, hcl⟩]
    simp only [List.mem_flatMap, List.mem_range]
    refine ⟨g', gs_lt_of_at hat, ?_⟩
    rw [if_neg hne, hat]
    simp only [hnd, List.mem_filterMap]
    exact ⟨(Lab.recvOk c, n'), hmem, by simp⟩

theorem mem_succs_iff (p : Pipeline) (s : State) (e : Ev) (c : Cfg) :
    (e, c) ∈ succs p s ↔ Step p s e c := by
  constructor
  · intro h
    simp only [succs, List.mem_append] at h
    rcases h with h | h
    · simp only [envSuccs, List.mem_filterMap, List.mem_range] at h
      obtain ⟨k, hk, hx⟩ := h
      split at hx
      · rename_i hd
        simp only [Option.some.injEq, Prod.mk.injEq] at hx
        obtain ⟨rfl, rfl⟩ := hx
        exact Step.env k hk hd
      · simp at hx
    · simp only [List.mem_flatMap, List.mem_range] at h
      obtain ⟨g, _, hg⟩ := h
      unfold gSuccs at hg
      split at hg
      · rename_i pc hat
        split at hg
        · rename_i nd hnd
          simp only [List.mem_append] at hg
          rcases hg with hg | hg
          · split at hg
            · rename_i hex
              simp only [List.mem_singleton, Prod.mk.injEq] at hg
              obtain ⟨rfl, rfl⟩ := hg
              subst hex
              exact Step.exit g pc hat hnd
            · simp at hg
          · simp only [List.mem_flatMap] at hg
            obtain ⟨ed, hed, hx⟩ := hg
            obtain ⟨l, n⟩ := ed
            simp only [edgeSuccs, List.mem_append] at hx
            rcases hx with (hx | hx) | hx
            · split at hx
              · rename_i k hk
                simp only [List.mem_singleton, Prod.mk.injEq] at hx
                obtain ⟨rfl, rfl⟩ := hx
                exact Step.crash g pc nd l n k hat hnd hed hk
              · simp at hx
            · split at hx
              · rename_i hgd
                simp only [List.mem_singleton, Prod.mk.injEq] at hx
                obtain ⟨rfl, rfl⟩ := hx
                exact Step.act g pc nd l n hat hnd hed hgd.1 hgd.2
              · simp at hx
            · split at hx
              · rename_i c'
                obtain ⟨h0, hcl, g', pc', nd', n', hne, hat', hnd', hmem, hx⟩ := mem_syncSuccs.mp hx
                simp only [Prod.mk.injEq] at hx
                obtain ⟨rfl, rfl⟩ := hx
                exact Step.sync g pc nd n g' pc' nd' n' c' (Ne.symm hne) hat hnd hed hat' hnd' hmem h0 hcl
              · simp at hx
        · simp at hg
      · simp at hg
  · intro h
    simp only [succs, List.mem_append]
    cases h with
    | env k hk hd =>
      left
      simp only [envSuccs, List.mem_filterMap, List.mem_range]
      exact ⟨k, hk, by simp [hd]⟩
    | act g pc nd l n hat hnd hed hgd hdf =>
      right
      simp only [List.mem_flatMap, List.mem_range]
      refine ⟨g, gs_lt_of_at hat, ?_⟩
      simp only [gSuccs, hat, hnd, List.mem_append, List.mem_flatMap]
      right
      refine ⟨(l, n), hed, ?_⟩
      simp only [edgeSuccs, List.mem_append]
      left; right
      rw [if_pos ⟨hgd, hdf⟩]; simp
    | crash g pc nd l n k hat hnd hed hk =>
      right
      simp only [List.mem_flatMap, List.mem_range]
      refine ⟨g, gs_lt_of_at hat, ?_⟩
      simp only [gSuccs, hat, hnd, List.mem_append, List.mem_flatMap]
      right
      refine ⟨(l, n), hed, ?_⟩
      simp only [edgeSuccs, List.mem_append]
      left; left
      simp [hk]
    | sync g pc nd n g' pc' nd' n' c' hne hat hnd hed hat' hnd' hmem h0 hcl =>
      right
      simp only [List.mem_flatMap, List.mem_range]
      refine ⟨g, gs_lt_of_at hat, ?_⟩
      simp only [gSuccs, hat, hnd, List.mem_append, List.mem_flatMap]
      right
      refine ⟨(Lab.send c', n), hed, ?_⟩
      simp only [edgeSuccs, List.mem_append]
      right
      exact mem_syncSuccs.mpr ⟨h0, hcl, g', pc', nd', n', Ne.symm hne, hat', hnd', hmem, rfl⟩
    | exit g pc hat hnd =>
      right
      simp only [List.mem_flatMap, List.mem_range]
      refine ⟨g, gs_lt_of_at hat, ?_⟩
      simp only [gSuccs, hat, hnd, List.mem_append]
      left
      simp

end Dos.Pipe

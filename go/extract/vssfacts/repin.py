#!/usr/bin/env python3
"""Rewrite the statement of a `*_code_shape` pin theorem from the regenerated facts.

usage: repin.py <Gen/VssFacts.lean> <Props file> <theorem name> <def> [<def> ...]

Development aid of the C04/C05/C08 builder (not run by ./check): after a deliberate change of /repo
that has been re-modelled, the literal lists the pin theorem compares the regenerated facts with are
rewritten from the current facts. The lists named on the command line REPLACE the old conjuncts.
"""
import re, sys

gen, props, thm = sys.argv[1:4]
names = sys.argv[4:]
g = open(gen).read()
defs = {}
for m in re.finditer(r"def (\w+) : List String := \[\n(.*?)\n\]\n", g, re.S):
    defs[m.group(1)] = m.group(2)
parts = []
for n in names:
    body = defs[n]
    lines = ["      " + l.strip() for l in body.split("\n")]
    parts.append("    Gen.VssFacts.%s = [\n%s]" % (n, "\n".join(lines)))
stmt = " ∧\n".join(parts)
s = open(props).read()
m = re.search(r"theorem %s :\n(.*?\]) :=\n  ⟨(rfl(?:, rfl)*)⟩" % re.escape(thm), s, re.S)
assert m, "theorem not found"
s = s[:m.start(1)] + stmt + " :=\n  ⟨" + ", ".join(["rfl"] * len(names)) + "⟩" + s[m.end(0):]
open(props, "w").write(s)
print("rewrote", thm, "with", len(names), "lists")

/-
C14 — infinite runs of the pipeline semantics and the fairness notion under which
"every run terminates" (AF) is proved.  Core Lean only.

A **run** is an infinite sequence of states `st : Nat → State` with a trace
`ev : Nat → Option Ev`: at position `i` either a step of `Step` happens
(`ev i = some e`, `Step p (st i) e (.run (st (i+1)))`) or nothing happens
(`ev i = none`, `st (i+1) = st i`: a stutter).  Stutters may occur anywhere; it is the fairness
conditions that forbid stuttering while something has to happen.  A finite maximal run (everything
has returned, or a deadlock) is the run that stutters for ever from some position on, so finite and
infinite maximal runs are covered by one definition.  A run never enters the crash configuration;
for the pipelines the theorems talk about (`W0 ∧ SafeOk`) no crash step exists in a reachable
state (`safe_pipeline_never_crashes`), so nothing is excluded by that.

**Fairness** (`Fair`), four clauses, each stated relative to what the goroutine itself does:

* `weak` (scheduler; justified by Go's preemptive run-queue scheduler): a goroutine that has an enabled
  step of its own at every position from some position on eventually moves.
* `cancel` (choice inside `select`, the `<-ctx.Done()` alternative): if a goroutine infinitely often
  *moves away from* a `select` node in a state in which the alternative `<-ctx_k.Done()` of that node
  is enabled (context `k` is done), then it infinitely often moves along that alternative.  Go's
  `select` chooses uniformly at random among the ready alternatives, independently each time it is
  executed: the runs in which a ready alternative of probability ≥ 1/(number of alternatives) is
  passed over infinitely often have probability 0 (second Borel–Cantelli lemma).  This clause is
  exactly that probability-1 event, stated as a property of the run.  Weak fairness does not imply
  it (`Props/C14Fair.lean: weak_fairness_is_not_enough`).
* `timer` (the same for a timer / ticker alternative, which the model treats as always enabled):
  justified for a ticker and for a timer armed once before the loop (from the moment it has fired the
  alternative is ready at every execution of the `select`, which then picks it with probability
  ≥ 1/n each time); NOT justified for a `time.After(d)` that is re-armed in every iteration while a
  competing alternative is ready faster than `d` — assumption "timers fire".
* `data` (internal choice): if a goroutine infinitely often moves away from a `branch` node it
  infinitely often takes each of its successors.  This is the formal version of the assumption
  "data loops and external calls terminate": a data-dependent `if` / loop head / call outcome is an
  internal choice of the model, and a goroutine may not stay for ever in a cycle of the CFG by
  resolving such a choice the same way each time.  It is an ASSUMPTION about the code (bounded data
  loops, external calls with their own time-outs), not something the Go runtime gives.
-/
import DosModel.Model.PipeWf

namespace Dos.Pipe

/-- the event is a move of goroutine `g` (alone, as sender or as receiver of a rendezvous, or its return) -/
def Ev.moves (g : Gi) : Ev → Bool
  | .env _ => false
  | .act g' _ => g' == g
  | .sync g1 g2 _ => g1 == g || g2 == g
  | .exit g' => g' == g

structure Run (p : Pipeline) where
  st : Nat → State
  ev : Nat → Option Ev
  /-- the run starts in the initial state -/
  start : st 0 = init p
  step : ∀ i, match ev i with
    | some e => Step p (st i) e (.run (st (i + 1)))
    | none => st (i + 1) = st i

namespace Run
variable {p : Pipeline}

/-- `g` moves at position `i` -/
def movesAt (r : Run p) (g : Gi) (i : Nat) : Prop := ∃ e, r.ev i = some e ∧ e.moves g = true

/-- `g` stands at `pc` at position `i` and moves -/
def movesFrom (r : Run p) (g : Gi) (pc : Pc) (i : Nat) : Prop :=
  (r.st i).gs[g]? = some (.at pc) ∧ r.movesAt g i

/-- at position `i` goroutine `g` moves, alone, from `pc` along the edge `(l, n)` -/
def takes (r : Run p) (g : Gi) (pc : Pc) (l : Lab) (n : Pc) (i : Nat) : Prop :=
  (r.st i).gs[g]? = some (.at pc) ∧ r.ev i = some (.act g l) ∧ (r.st (i + 1)).gs[g]? = some (.at n)

end Run

/-- `g` has an enabled step of its own in `s` -/
def Enabled (p : Pipeline) (s : State) (g : Gi) : Prop :=
  ∃ e s', Step p s e (.run s') ∧ e.moves g = true

/-- infinitely often -/
def InfOften (P : Nat → Prop) : Prop := ∀ T, ∃ i, T ≤ i ∧ P i

/-- from some position on, always -/
def Eventually (P : Nat → Prop) : Prop := ∃ T, ∀ i, T ≤ i → P i

/-- weak fairness of goroutine `g`: continuously enabled from some position on ⇒ moves after it -/
def WeakFairG {p : Pipeline} (r : Run p) (g : Gi) : Prop :=
  ∀ T, (∀ i, T ≤ i → Enabled p (r.st i) g) → ∃ i, T ≤ i ∧ r.movesAt g i

/-- fairness of the choice of the edge `(l, n)` at node `pc` of `g`: infinitely often moving away from
    `pc` while the edge is enabled ⇒ infinitely often along the edge -/
def ChoiceFair {p : Pipeline} (r : Run p) (g : Gi) (pc : Pc) (l : Lab) (n : Pc) : Prop :=
  ∀ nd, p.node g pc = some nd → (l, n) ∈ nd.edges →
    InfOften (fun i => r.movesFrom g pc i ∧ guard p (r.st i) l = true) →
    InfOften (fun i => r.takes g pc l n i)

structure Fair {p : Pipeline} (r : Run p) : Prop where
  weak : ∀ g, WeakFairG r g
  cancel : ∀ g pc k n, ChoiceFair r g pc (.ctx k) n
  timer : ∀ g pc n, ChoiceFair r g pc .tick n
  data : ∀ g pc n, ChoiceFair r g pc .tau n

/-- weak fairness of every goroutine, and nothing else -/
def WeakFair {p : Pipeline} (r : Run p) : Prop := ∀ g, WeakFairG r g

/-- a pipeline (non-daemon) goroutine that has started and not returned -/
def Running (p : Pipeline) (s : State) (g : Gi) : Prop :=
  ∃ gr pc, p.gs[g]? = some gr ∧ gr.daemon = false ∧ s.gs[g]? = some (.at pc)

/-- no pipeline goroutine is running: each one has returned (or was never started) -/
def Quiet (p : Pipeline) (s : State) : Prop := ∀ g, ¬ Running p s g

/-- every channel that a static pipeline goroutine closes on every path to its exit is closed -/
def OwnedClosed (p : Pipeline) (s : State) : Prop :=
  ∀ (h : Gi) (gr : Goroutine) (c : Ch), p.gs[h]? = some gr → gr.static = true → gr.daemon = false →
    closesOnAllPaths gr c = true → c < p.chans.length → s.closed c = true

/-- the run terminates: from some position on, for ever, no pipeline goroutine runs and every
    channel with a pipeline closer is closed -/
def Run.Terminates {p : Pipeline} (r : Run p) : Prop :=
  Eventually (fun i => Quiet p (r.st i) ∧ OwnedClosed p (r.st i))

/-! ### extra checks for the collector theorem (W7, collector half)

`collectorCloses` (Model/PipeWf.lean) certifies with a distance labeling that from every node at which
the collector `d` holds the right to operate on `c` there is an escape edge towards `close c`.  The
semantic theorem needs two more edge-local facts about the same labeling `ownD`: it is closed forwards
(the collector keeps the right until it closes `c`), and every node in it passes W2/W3. -/

/-- the labeling `m` is closed forwards along the edges of every node that does not close `c` -/
def ownFwdOk (gr : Goroutine) (c : Ch) (m : List Bool) : Bool :=
  gr.nodes.zipIdx.all fun x =>
    !mark m x.2 || x.1.closes c || x.1.edges.all (fun e => mark m e.2)

/-- every node at which the collector holds `c` passes W2/W3 -/
def ownLiveOk (p : Pipeline) (d : Gi) (gr : Goroutine) (m : List Bool) : Bool :=
  gr.nodes.zipIdx.all fun x => !mark m x.2 || nodeLive p d x.1

/-- the collector side of W7 for `c` handed off on `r`, as used by the semantic theorem -/
def CollectorOk (p : Pipeline) (d : Gi) (gd : Goroutine) (c r : Ch) : Bool :=
  collectorCloses p d gd c r && ownFwdOk gd c (ownD gd c r) && ownLiveOk p d gd (ownD gd c r)

/-- the hand-offs of a pipeline: `(d, c, r)` = channel `c` follows discipline C with hand-off channel
    `r`, and `d` is the collector (the one goroutine that receives on `r`), which closes `c` somewhere -/
def handoffs (p : Pipeline) : List (Gi × Ch × Ch) :=
  -- hand-off channels: exactly one goroutine sends on `r`, exactly one (the collector) receives on it
  let rs := (List.range p.chans.length).filterMap fun r =>
    match p.gsWhere (fun gr => gr.hasSend r), p.gsWhere (fun gr => gr.hasRecv r) with
    | [_], [d] => some (r, d)
    | _, _ => none
  rs.flatMap fun x => match p.gs[x.2]? with
    | some gd => (List.range p.chans.length).filterMap fun c =>
        if gd.hasClose c && discCr p c x.1 then some (x.2, c, x.1) else none
    | none => []

/-- every collector of the pipeline passes `CollectorOk` for every channel it is handed -/
def CollectorsOk (p : Pipeline) : Bool :=
  (handoffs p).all fun x => match p.gs[x.1]? with
    | some gd => CollectorOk p x.1 gd x.2.1 x.2.2
    | none => false

/-- `CollectorsOk` and the number of hand-offs in one evaluation (kernel evaluation of `handoffs` on the
    key-generation pipeline is slow) -/
def collectorsCheck (p : Pipeline) (k : Nat) : Bool :=
  match handoffs p with
  | hs => hs.length == k && hs.all fun x => match p.gs[x.1]? with
    | some gd => CollectorOk p x.1 gd x.2.1 x.2.2
    | none => false

/-! ### W6 -/

/-- W6 as one decidable check: every channel somebody sends on has a receiver -/
def W6 (p : Pipeline) : Bool :=
  (List.range p.chans.length).all fun c => !p.gs.any (fun gr => gr.hasSend c) || p.gs.any (fun gr => gr.hasRecv c)

/-- nobody has a receive on `c` (W6 fails for `c` as soon as somebody sends on it) -/
def Receiverless (p : Pipeline) (c : Ch) : Prop := ∀ gr ∈ p.gs, gr.hasRecv c = false

/-- a consumer of `c` is ready for the sender `g`: room in the buffer, or (unbuffered) another
    goroutine stands at a receive on `c` -/
def ConsumerReady (p : Pipeline) (s : State) (g : Gi) (c : Ch) : Prop :=
  s.len c < p.cap c ∨
  (p.cap c = 0 ∧ ∃ g' pc' nd' n', g' ≠ g ∧ s.gs[g']? = some (.at pc') ∧ p.node g' pc' = some nd' ∧
    (Lab.recvOk c, n') ∈ nd'.edges)

end Dos.Pipe

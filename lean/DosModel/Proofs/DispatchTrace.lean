import DosModel.Proofs.DispatchStep

/-! What one event can do to a caller's result; facts about whole histories. -/
namespace Dos.Dispatch
open Dos

/-- how the caller's outcome can change in one step -/
def WChange (s : Sys) (e : Ev) (i : Nat) (w w' : Waiter) : Prop :=
  w' = w ∨ (w = .waiting ∧ (w' = .ctxErr ∨ ∃ v, w' = .got v ∧
    (∀ m, v = .msg m → ∃ k race win, e = .reply k m race win ∧ lookup s.conn.pending k = some i)))

theorem wchange_complete (s : Sys) (e : Ev) (i : Nat) (r : Req) (h : Holder) (v : Res) (w : Bool)
    (hv : ∀ m, v = .msg m → ∃ k race win, e = .reply k m race win ∧ lookup s.conn.pending k = some i) :
    WChange s e i r.waiter (r.complete h v w).waiter := by
  rcases complete_waiter r h v w with h1 | ⟨h1, _, h3⟩
  · left; exact h1
  · right; exact ⟨h1, Or.inr ⟨v, h3, hv⟩⟩

theorem step_waiter {s : Sys} (hs : Inv s) (e : Ev) (i : Nat) :
    WChange s e i (s.reqs i).waiter ((step s e).reqs i).waiter := by
  have hc := hs.core
  have same : ∀ (i' : Nat) (f : Req → Req), (∀ r, (f r).waiter = r.waiter) →
      WChange s e i (s.reqs i).waiter ((s.upd i' f).reqs i).waiter := by
    intro i' f hf
    left
    by_cases hj : i = i'
    · subst hj; rw [upd_reqs_same, hf]
    · rw [upd_reqs_other _ _ _ _ hj]
  have compl : ∀ (i' : Nat) (st : Stage) (h : Holder) (v : Res) (w : Bool), (∀ m, v ≠ .msg m) →
      WChange s e i (s.reqs i).waiter
        ((s.upd i' (fun r => ({ r with stage := st }).complete h v w)).reqs i).waiter := by
    intro i' st h v w hv
    by_cases hj : i = i'
    · subst hj; rw [upd_reqs_same]
      exact wchange_complete s e i { s.reqs i with stage := st } h v w (fun m hm => absurd hm (hv m))
    · rw [upd_reqs_other _ _ _ _ hj]; left; rfl
  cases e with
  | create t a =>
    simp only [step]
    show WChange _ _ _ _ (if i = s.n then _ else _ : Req).waiter
    split
    · rename_i hi
      left; rw [hc.absent i (by omega)]
    · left; rfl
  | toHandler i' => simp only [step]; split; exact same _ _ (fun _ => rfl); left; rfl
  | handlerFail i' win =>
    simp only [step]; split
    · exact compl _ _ _ _ _ (by intro m; simp)
    · left; rfl
  | toSendG i' => simp only [step]; split; exact same _ _ (fun _ => rfl); left; rfl
  | sendGDrop i' => simp only [step]; split; exact same _ _ (fun _ => rfl); left; rfl
  | sendGErr i' win =>
    simp only [step]; split
    · exact compl _ _ _ _ _ (by intro m; simp)
    · left; rfl
  | enqueue i' => simp only [step]; split; exact same _ _ (fun _ => rfl); left; rfl
  | dsend i' fwd =>
    simp only [step]; split
    · split
      · (try dsimp only); refine same i' _ ?_; intro r; rfl
      · (try dsimp only); refine same i' _ ?_; intro r; rfl
    · left; rfl
  | pack i' win =>
    simp only [step]; split
    · split
      · (try dsimp only); refine compl _ _ _ _ _ ?_; intro m; simp
      · (try dsimp only); refine same i' _ ?_; intro r; rfl
    · left; rfl
  | reply k m race win =>
    simp only [step]; split
    · left; rfl
    · split
      · left; rfl
      · rename_i i0 hl
        split
        · left; rfl
        · by_cases hj : i = i0
          · subst hj
            show WChange _ _ _ _ ((Sys.upd _ i _).reqs i).waiter
            rw [upd_reqs_same]
            have := wchange_complete s (.reply k m race win) i
              (if race = true then { s.reqs i with ctxDone := true } else s.reqs i) .table (.msg m) win
              (by intro m' hm'; injection hm' with hm'; subst hm'; exact ⟨k, race, win, rfl, hl⟩)
            have hw : (if race = true then { s.reqs i with ctxDone := true } else s.reqs i).waiter = (s.reqs i).waiter := by
              split <;> rfl
            rw [hw] at this; exact this
          · left
            show ((Sys.upd _ i0 _).reqs i).waiter = _
            rw [upd_reqs_other _ _ _ _ hj]
  | recv m => simp only [step]; split <;> (left; rfl)
  | cancel i' => simp only [step]; split; left; rfl; exact same _ _ (fun _ => rfl)
  | waiterCtx i' =>
    simp only [step]; split
    · rename_i hg
      by_cases hj : i = i'
      · subst hj; rw [upd_reqs_same]; right; exact ⟨hg.1, Or.inl rfl⟩
      · rw [upd_reqs_other _ _ _ _ hj]; left; rfl
    · left; rfl
  | close => left; rfl
  | idle => simp only [step]; split <;> (left; rfl)
  | ctxDone win =>
    simp only [step]; split
    · show WChange _ _ _ _ ((failAll win s.conn.pending s).reqs i).waiter
      rw [failAll_reqs]
      split
      · exact wchange_complete s _ i (s.reqs i) .table .errClosed _ (by intro m hm; simp at hm)
      · left; rfl
    · left; rfl

/-- once a caller has its result, nothing changes it -/
theorem step_waiter_stable {s : Sys} (hs : Inv s) (e : Ev) (i : Nat) (h : (s.reqs i).waiter ≠ .waiting) :
    ((step s e).reqs i).waiter = (s.reqs i).waiter := by
  rcases step_waiter hs e i with h1 | ⟨h1, _⟩
  · exact h1
  · exact absurd h1 h

theorem run_waiter_stable : ∀ (evs : List Ev) (s : Sys), Inv s → ∀ i, (s.reqs i).waiter ≠ .waiting →
    ((run s evs).reqs i).waiter = (s.reqs i).waiter := by
  intro evs
  induction evs with
  | nil => intro s _ i _; rfl
  | cons e es ih =>
    intro s hs i h
    have h1 := step_waiter_stable hs e i h
    have := ih (step s e) (step_inv hs e) i (by rw [h1]; exact h)
    simp only [run, List.foldl_cons] at this ⊢
    rw [this, h1]

/-- an assigned nonce is never changed -/
theorem step_nonce_stable {s : Sys} (hs : Inv s) (e : Ev) (i k : Nat) (h : (s.reqs i).nonce = some k) :
    ((step s e).reqs i).nonce = some k := by
  have hc := hs.core
  have same : ∀ (i' : Nat) (f : Req → Req), (∀ r, (f r).nonce = r.nonce) →
      ((s.upd i' f).reqs i).nonce = some k := by
    intro i' f hf
    by_cases hj : i = i'
    · subst hj; rw [upd_reqs_same, hf]; exact h
    · rw [upd_reqs_other _ _ _ _ hj]; exact h
  cases e with
  | create t a =>
    simp only [step]
    show (if i = s.n then _ else _ : Req).nonce = _
    split
    · rename_i hi
      rw [hc.absent i (by omega)] at h; simp at h
    · exact h
  | toHandler i' => simp only [step]; split; exact same _ _ (fun _ => rfl); exact h
  | handlerFail i' win => simp only [step]; split; exact same _ _ (fun _ => by simp); exact h
  | toSendG i' => simp only [step]; split; exact same _ _ (fun _ => rfl); exact h
  | sendGDrop i' => simp only [step]; split; exact same _ _ (fun _ => rfl); exact h
  | sendGErr i' win => simp only [step]; split; exact same _ _ (fun _ => by simp); exact h
  | enqueue i' => simp only [step]; split; exact same _ _ (fun _ => rfl); exact h
  | dsend i' fwd =>
    simp only [step]; split
    · rename_i hg
      have hne : i ≠ i' := by
        intro e; subst e
        have := (hc.req i).nonce (by rw [hg.1]; rfl)
        rw [this] at h; simp at h
      split
      · (try dsimp only); rw [upd_reqs_other _ _ _ _ hne]; exact h
      · (try dsimp only); rw [upd_reqs_other _ _ _ _ hne]; exact h
    · exact h
  | pack i' win =>
    simp only [step]; split
    · split
      · (try dsimp only); refine same i' _ ?_; intro r; simp
      · (try dsimp only); refine same i' _ ?_; intro r; rfl
    · exact h
  | reply k' m race win =>
    simp only [step]; split
    · exact h
    · split
      · exact h
      · split
        · exact h
        · rename_i i0 _ _
          show ((Sys.upd _ i0 _).reqs i).nonce = _
          by_cases hj : i = i0
          · subst hj; rw [upd_reqs_same, complete_nonce]
            split <;> exact h
          · rw [upd_reqs_other _ _ _ _ hj]; exact h
  | recv m => simp only [step]; split <;> exact h
  | cancel i' => simp only [step]; split; exact h; exact same _ _ (fun _ => rfl)
  | waiterCtx i' => simp only [step]; split; exact same _ _ (fun _ => rfl); exact h
  | close => exact h
  | idle => simp only [step]; split <;> exact h
  | ctxDone win =>
    simp only [step]; split
    · show ((failAll win s.conn.pending s).reqs i).nonce = _
      rw [failAll_reqs]; split
      · rw [complete_nonce]; exact h
      · exact h
    · exact h

/-- every reply value a caller holds was carried by a reply event bearing that caller's nonce -/
def Own (s : Sys) (hist : List Ev) : Prop :=
  ∀ i m, (s.reqs i).waiter = .got (.msg m) →
    ∃ k race win, Ev.reply k m race win ∈ hist ∧ (s.reqs i).nonce = some k

theorem step_own {s : Sys} (hs : Inv s) (hist : List Ev) (ho : Own s hist) (e : Ev) :
    Own (step s e) (hist ++ [e]) := by
  intro i m hw
  rcases step_waiter hs e i with h1 | ⟨h1, h2⟩
  · rw [h1] at hw
    obtain ⟨k, race, win, hm, hn⟩ := ho i m hw
    exact ⟨k, race, win, by simp [hm], step_nonce_stable hs e i k hn⟩
  · rcases h2 with h2 | ⟨v, hv, hmsg⟩
    · rw [h2] at hw; simp at hw
    · rw [hv] at hw; injection hw with hw
      obtain ⟨k, race, win, he, hl⟩ := hmsg m hw
      have hp := hs.pend k i (lookup_mem hl)
      exact ⟨k, race, win, by simp [he], step_nonce_stable hs e i k hp.2.1⟩

theorem run_own : ∀ (evs : List Ev) (s : Sys) (hist : List Ev), Inv s → Own s hist →
    Own (run s evs) (hist ++ evs) := by
  intro evs
  induction evs with
  | nil => intro s hist _ ho; simpa [run] using ho
  | cons e es ih =>
    intro s hist hs ho
    have := ih (step s e) (hist ++ [e]) (step_inv hs e) (step_own hs hist ho e)
    simpa [run] using this

/-- a registered request whose table copy has not fired has not been completed at all -/
theorem pend_fresh {s : Sys} (hs : Inv s) {k i : Nat} (h : (k, i) ∈ s.conn.pending) :
    (s.reqs i).closes = 0 ∧ ∀ hd, (s.reqs i).once hd = false := by
  have hp := hs.pend k i h
  have hr := hs.core.req i
  have hall : ∀ hd, (s.reqs i).once hd = false := by
    intro hd
    cases hh : (s.reqs i).once hd
    · rfl
    · have := hr.flags hd hh
      rw [hp.2.2.1] at this
      have hpt := hp.2.2.2.1
      cases hd
      · cases hst : (s.reqs i).stage <;> simp [hst, allowed, preTable] at this hpt
      · cases hst : (s.reqs i).stage <;> simp [hst, allowed, preTable] at this hpt
      · simp only [Req.once] at hh; rw [hp.2.2.2.2] at hh; simp at hh
      · cases hst : (s.reqs i).stage <;> simp [hst, allowed, preTable] at this hpt
  refine ⟨?_, hall⟩
  have h1 := hall .handler; have h2 := hall .sendG; have h3 := hall .table; have h4 := hall .pack
  simp only [Req.once] at h1 h2 h3 h4
  rw [hr.count, h1, h2, h3, h4]; rfl


/-! ### callHandler -/

theorem hstep_call_known (dl db : Bool) (h : Handler) (i p : Nat) (d : Dial) (hw : h.wedged = false)
    (hc : h.clients.contains p = true) : hstep dl db h (.call i p d) = (h, [.handed i p]) := by
  simp only [hstep, hw, hc]; rfl

theorem hstep_call_new (dl db : Bool) (h : Handler) (i p : Nat) (d : Dial) (hw : h.wedged = false)
    (hc : h.clients.contains p = false) :
    hstep dl db h (.call i p d) =
      match d with
      | .ok => ({ h with clients := p :: h.clients }, [.handed i p])
      | .refused => (h, [.failed i])
      | .hsFail => (h, [.failed i])
      | .silent => if dl then (h, [.failed i]) else ({ h with wedged := true }, [])
      | .blackhole => if db then (h, [.failed i]) else ({ h with wedged := true }, []) := by
  simp only [hstep, hw, hc]; rfl

theorem hstep_remove (dl db : Bool) (h : Handler) (p : Nat) (hw : h.wedged = false) :
    (hstep dl db h (.remove p)).1.wedged = false ∧ (hstep dl db h (.remove p)).2 = [] := by
  simp [hstep, hw]

/-- a wedged handler produces nothing any more, whatever is asked of it -/
theorem hrun_wedged (dl db : Bool) (h : Handler) (evs : List HEv) (hw : h.wedged = true) :
    hrun dl db h evs = (h, []) := by
  induction evs with
  | nil => rfl
  | cons e es ih =>
    have he : hstep dl db h e = (h, []) := by
      cases e <;> simp [hstep, hw]
    simp only [hrun, he, ih]; rfl

end Dos.Dispatch

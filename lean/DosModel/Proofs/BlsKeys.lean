/-
C06 helpers: what `Sign` and the key derivation emit for EVERY scalar — 0, values ≥ r included.
`g2gen_valid`, `g1gen_torsion`: r·g₂ = O (with g₂ on the twist) and r·g₁ = O by kernel evaluation of the
model's double-and-add (254 doublings each); from these, with the group laws of
`Proofs/ComposeBn256Group.lean`: x·g₂ is a valid G2 element for every x, x·P = (x mod r)·P for every
reachable G1 element and for g₂ — so the scalar a `kyber.Scalar` holds (always reduced mod r by `SetBytes`)
and the unreduced integer give the same signature and the same key.
-/
import DosModel.Proofs.BlsEval
import DosModel.Proofs.Bn256ConcCurve

namespace Dos.Bls
open Dos Dos.Bn256 Dos.Codec Dos.CodecBytes Dos.Compose

set_option maxRecDepth 100000 in
theorem g2gen_valid : G2.valid g2gen = true := by decide +kernel

set_option maxRecDepth 100000 in
theorem g1gen_torsion : G1.smul Bn256.r g1gen = .inf := by decide +kernel

theorem pubkey_valid (x : Nat) : G2.valid (G2.smul x g2gen) = true := (valid2_smul x g2gen g2gen_valid).1

theorem pubkey_mod_r (x : Nat) : G2.smul x g2gen = G2.smul (x % Bn256.r) g2gen := by
  apply pt2_inj (pubkey_valid x) (pubkey_valid _)
  rw [(valid2_smul x g2gen g2gen_valid).2, (valid2_smul _ g2gen g2gen_valid).2]
  obtain ⟨_, c1, s1⟩ := (valid2_iff g2gen).1 g2gen_valid
  have hr : Bn256.r • pt2 g2gen = 0 := (inSubgroup_iff g2gen c1).1 s1
  conv_lhs => rw [← Nat.div_add_mod x Bn256.r]
  rw [add_nsmul, mul_nsmul, hr, nsmul_zero, zero_add]

theorem reachable_torsion (P : G1) (h : G1.Reachable P) : Bn256.r • pt1 P = 0 := by
  induction h with
  | base => rw [← pt1_smul Bn256.r g1gen (by decide), g1gen_torsion]; rfl
  | null => exact nsmul_zero _
  | neg hA ih => rw [pt1_neg _ (reachable_valid hA), neg_nsmul, ih, neg_zero]
  | add hA hB ihA ihB =>
    rw [pt1_add _ _ (reachable_valid hA) (reachable_valid hB), nsmul_add, ihA, ihB, add_zero]
  | smul k hA ih => rw [pt1_smul k _ (reachable_valid hA), nsmul_left_comm, ih, nsmul_zero]

theorem g1_smul_mod_r (k : Nat) (P : G1) (h : G1.Reachable P) :
    G1.smul k P = G1.smul (k % Bn256.r) P := by
  have hv := reachable_valid h
  apply pt1_inj (valid_smul _ P hv) (valid_smul _ P hv)
  rw [pt1_smul _ P hv, pt1_smul _ P hv]
  conv_lhs => rw [← Nat.div_add_mod k Bn256.r]
  rw [add_nsmul, mul_nsmul, reachable_torsion P h, nsmul_zero, zero_add]

theorem be32_zero : be32 0 = List.replicate 32 0 := by decide

/-- the two words of a valid G1 element's encoding -/
theorem marshalG1_words (S : G1) (hv : G1.valid S = true) :
    ∃ wx wy, wx < p ∧ wy < p ∧ marshalG1 S = be32 wx ++ be32 wy ∧
      ((S = .inf ∧ wx = 0 ∧ wy = 0) ∨ (S = .aff wx wy ∧ G1.onCurve (.aff wx wy) = true)) := by
  cases S with
  | inf =>
    refine ⟨0, 0, by decide, by decide, ?_, .inl ⟨rfl, rfl, rfl⟩⟩
    rw [be32_zero]; rfl
  | aff x y =>
    simp only [G1.valid, Bool.and_eq_true, decide_eq_true_eq] at hv
    exact ⟨x, y, hv.1.1, hv.1.2, rfl, .inr ⟨rfl, hv.2⟩⟩

/-- the encoding of a valid G2 element -/
theorem marshalG2_words (X : G2) (hv : G2.valid X = true) :
    (X = .inf ∧ marshalG2 X = [0]) ∨
    ∃ a b c d, a < p ∧ b < p ∧ c < p ∧ d < p ∧ X = .aff ⟨a, b⟩ ⟨c, d⟩ ∧
      marshalG2 X = [1] ++ be32 a ++ be32 b ++ be32 c ++ be32 d ∧ (marshalG2 X).length = 129 ∧
      G2.onCurve X = true := by
  cases X with
  | inf => exact .inl ⟨rfl, rfl⟩
  | aff x y =>
    have hl := marshalG2_length_aff x y
    simp only [G2.valid, Bool.and_eq_true, decide_eq_true_eq] at hv
    obtain ⟨⟨⟨⟨⟨h1, h2⟩, h3⟩, h4⟩, h5⟩, _⟩ := hv
    exact .inr ⟨x.im, x.re, y.im, y.re, h1, h2, h3, h4, rfl, rfl, hl, h5⟩

end Dos.Bls

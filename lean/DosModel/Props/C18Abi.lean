/-
C18, ABI layer — "delivered … with every field equal to the ABI-decoded log", from the BYTES of the log
(topics, data) to the fields of the node event.

`Abi.decodeArgs` models go-ethereum v1.10.9 `abi.Arguments.UnpackValues`, `Abi.decodeLog` models
`bind.BoundContract.UnpackLog` (+ `abi.ParseTopics`), every Go slice expression with its bounds
(Model/Abi.lean); `EventAbi.events` are the fifteen events behind the subscription table as the contracts declare
them, `emit` the log a contract puts on the chain, `receive` what the binding makes of a raw log.
Theorems: the decoder never panics on any bytes, whatever it returns is in range, it is the left inverse of the
encoder, what it accepts besides canonical encodings (stated exactly, with witnesses), re-encoding what it
returned is a fixed point; receive ∘ emit = id for every event and all values; a log without topics is the one
input on which `UnpackLog` panics; and `decide` theorems over regenerated facts: the ABI embedded in the bindings,
the abigen event structs, the subscription table — composed into "node field f = ABI input number k".
The tie to the real bytes: `al` cases of the correspondence run push the MODEL's encoding (checked equal to
go-ethereum's packing) and damaged logs through the real subscription path and compare with `receive`.
Helper lemmas: Proofs/Abi*.lean.
-/
import DosModel.Proofs.Abi
import DosModel.Proofs.AbiDecode
import DosModel.Proofs.AbiLog
import DosModel.Proofs.AbiFacts

namespace Dos.Props.C18Abi
open Dos Dos.Abi Dos.EventAbi Dos.AbiCheck

/-! ### the decoder, for all types of the fragment and ALL byte strings -/

/-- **total.** On arbitrary bytes `UnpackValues` returns values or an error; no slice expression of the decoder
goes out of range. -/
theorem abi_decode_never_panics (tys : List AbiType) (bs : Bytes) (hw : tysWf tys = true) (site : String) :
    decodeArgs tys bs ≠ .error (.panic site) :=
  decGo_noPanic tys 0 bs hw site

example : decodeArgs [.string, .darray .address] (natBE 32 (2 ^ 256 - 1) ++ natBE 32 64) = .error .err := by
  decide +kernel

/-- **range.** Whatever the decoder returns is a well-typed argument list: integers below 2^bits, addresses below
2^160, booleans 0/1, `bytesN` of N bytes, static arrays of their length. -/
theorem abi_decode_returns_well_typed (tys : List AbiType) (bs : Bytes) (vs : List AbiVal) (hw : tysWf tys = true)
    (h : decodeArgs tys bs = .ok vs) : wtArgs tys vs = true :=
  decGo_wt tys 0 bs vs hw h

example : decodeArgs [.elem (.uint 8)] (List.replicate 32 0xff) = .ok [.elem (.num 255)] := by decide +kernel

/-- **left inverse.** Decoding the encoding of well-typed values gives the values. -/
theorem abi_decode_encode (tys : List AbiType) (vs : List AbiVal) (hw : tysWf tys = true) (hv : wtArgs tys vs = true)
    (hB : (encodeRaw tys vs).length < 2 ^ 63) : decodeArgs tys (encodeRaw tys vs) = .ok vs :=
  decode_encode tys vs hw hv hB

example : decodeArgs [.elem (.uint 256), .darray .address] (encodeRaw [.elem (.uint 256), .darray .address]
    [.elem (.num 7), .arr [.num 1, .num (2 ^ 160 - 1)]]) = .ok [.elem (.num 7), .arr [.num 1, .num (2 ^ 160 - 1)]] := by
  decide +kernel

/-- **canonical form.** If the decoder accepts `bs` and returns `vs`, then `vs` can be encoded and the encoding
decodes to `vs` again: re-encoding is a fixed point, `encodeRaw tys vs` is THE canonical representative of
everything that decodes to `vs`. -/
theorem abi_decode_canonical (tys : List AbiType) (bs : Bytes) (vs : List AbiVal) (hw : tysWf tys = true)
    (h : decodeArgs tys bs = .ok vs) (hB : (encodeRaw tys vs).length < 2 ^ 63) :
    encodeArgs tys vs = some (encodeRaw tys vs) ∧ decodeArgs tys (encodeRaw tys vs) = .ok vs := by
  have hv := decGo_wt tys 0 bs vs hw h
  exact ⟨by simp [encodeArgs, hv], decode_encode tys vs hw hv hB⟩

/-- **what is accepted besides the canonical form** (go-ethereum v1.10.9, each with a witness): the unused high
bytes of a `uint8` word and of an `address` word are ignored; the bytes after the first N of a `bytesN` word are
ignored; an offset may point anywhere inside the data — here two `string` arguments share one tail and the tail
precedes nothing; garbage in the padding of a `string` and after the last tail is ignored.  A `bool` word is the
one narrow type that is checked: anything but 0 or 1 is an error. -/
theorem abi_noncanonical_inputs :
    -- uint8: 0xff…ff07 reads as 7
    decodeArgs [.elem (.uint 8)] (List.replicate 31 0xff ++ [7]) = .ok [.elem (.num 7)] ∧
    -- address: the 12 high bytes are dropped
    decodeArgs [.elem .address] (List.replicate 12 0xee ++ natBE 20 5) = .ok [.elem (.num 5)] ∧
    -- bytes4: the 28 low bytes are dropped
    decodeArgs [.elem (.fixedBytes 4)] ([1, 2, 3, 4] ++ List.replicate 28 0xaa) = .ok [.elem (.fixed [1, 2, 3, 4])] ∧
    -- two strings, both offsets = 64, one tail "hi" with garbage padding, trailing garbage
    decodeArgs [.string, .string]
      (natBE 32 64 ++ natBE 32 64 ++ natBE 32 2 ++ ([104, 105] ++ List.replicate 30 0x99) ++ [1, 2, 3])
      = .ok [.blob [104, 105], .blob [104, 105]] ∧
    -- offset 0 points at the head itself: the length word IS the offset word, both read 0: the empty string
    decodeArgs [.string] (natBE 32 0 ++ List.replicate 32 0x41) = .ok [.blob []] ∧
    decodeArgs [.string] (natBE 32 0) = .ok [.blob []] ∧
    -- a length that reaches past the end of the data is an error
    decodeArgs [.string] (natBE 32 32 ++ natBE 32 32) = .error .err ∧
    -- bool: strict
    decodeArgs [.elem .bool] (natBE 32 2) = .error .err ∧
    decodeArgs [.elem .bool] ([1] ++ natBE 31 1) = .error .err := by
  decide +kernel

example : encodeRaw [.string, .string] [.blob [104, 105], .blob [104, 105]]
    ≠ natBE 32 64 ++ natBE 32 64 ++ natBE 32 2 ++ ([104, 105] ++ List.replicate 30 0x99) ++ [1, 2, 3] := by
  decide +kernel

/-! ### event logs -/

/-- the fifteen modelled events are inside the fragment; none has an indexed input -/
theorem modelled_events_wellformed :
    events.all (fun e => e.spec.wf && e.spec.indexed.isEmpty) = true := by decide

example : (eventOf 2).map (·.spec.name) = some "LogUrl" := by decide

/-- **receive ∘ emit = id.** For every event specification of the fragment, every hash and all well-typed
argument values: what `UnpackLog` writes into the binding struct from the log the contract emitted is, field by
field, the values the contract emitted. -/
theorem log_roundtrip (id : Bytes) (s : EventSpec) (vs : List AbiVal) (hw : s.wf = true)
    (hv : wtArgs s.types vs = true) (hB : (encodeLog id s vs).data.length < 2 ^ 63) :
    decodeLog id s (encodeLog id s vs) = .ok (vs.map some) :=
  decodeLog_encodeLog id s vs hw hv hB

/-- … in particular for each of the fifteen events behind the subscription table -/
theorem receive_emit (hash : Bytes → Bytes) (e : Ev) (he : e ∈ events) (vs : List AbiVal)
    (hv : wtArgs e.spec.types vs = true) (hB : (emit hash e vs).data.length < 2 ^ 63) :
    receive hash e (emit hash e vs) = .ok (vs.map some) := by
  have hw : e.spec.wf = true := by
    have := modelled_events_wellformed
    simp only [List.all_eq_true, Bool.and_eq_true] at this
    exact (this e he).1
  exact decodeLog_encodeLog _ e.spec vs hw hv hB

example : (eventOf 4).map (fun e => receive (fun b => b.take 32) e (emit (fun b => b.take 32) e
    [.elem (.num 7), .arr [.num 1, .num 2]])) = some (.ok [some (.elem (.num 7)), some (.arr [.num 1, .num 2])]) := by
  decide +kernel

/-- **the one panic.** `UnpackLog` reads `log.Topics[0]` unguarded: a log without topics is a run-time panic
(in the binding's watcher goroutine: the process dies) … -/
theorem log_without_topics_panics (id : Bytes) (s : EventSpec) (data : Bytes) :
    ∃ site, decodeLog id s { topics := [], data := data } = .error (.panic site) := ⟨_, rfl⟩

/-- … and the only one: with at least one topic, whatever the topics and the data are, the result is a decoded
log or an error. -/
theorem log_with_a_topic_never_panics (id : Bytes) (s : EventSpec) (hw : s.wf = true) (t0 : Bytes)
    (rest : List Bytes) (data : Bytes) (site : String) :
    decodeLog id s { topics := t0 :: rest, data := data } ≠ .error (.panic site) :=
  decodeLog_noPanic_of_topic id s hw t0 rest data site

example : decodeLog [1] ⟨"E", [⟨"a", .elem (.uint 256), false⟩]⟩ { topics := [[1]], data := [0] } = .error .err := by
  decide +kernel

/-- a first topic that is not the event id is an error -/
theorem log_wrong_event_id_rejected (id : Bytes) (s : EventSpec) (t0 : Bytes) (rest : List Bytes) (data : Bytes)
    (h : t0 ≠ id) : decodeLog id s { topics := t0 :: rest, data := data } = .error .err := by
  simp [decodeLog, h]

example : decodeLog [1] ⟨"E", []⟩ { topics := [[2]], data := [] } = .error .err := by decide

/-- for an event without indexed inputs any further topic is an error ("topic/field count mismatch") -/
theorem log_extra_topic_rejected (id : Bytes) (s : EventSpec) (hw : s.wf = true) (hi : s.indexed = [])
    (t1 : Bytes) (rest : List Bytes) (data : Bytes) :
    decodeLog id s { topics := id :: t1 :: rest, data := data } = .error .err := by
  have hnp := decodeLog_noPanic_of_topic id s hw id (t1 :: rest) data
  cases hd : decodeLog id s { topics := id :: t1 :: rest, data := data } with
  | error e =>
    cases e with
    | err => rfl
    | panic site => exact absurd hd (hnp site)
  | ok vals =>
    exfalso
    simp only [decodeLog, ne_eq, not_true_eq_false, if_false, hi, decTopics] at hd
    obtain ⟨ns, _, h2⟩ := bind_ok hd
    simp [bind, Except.bind] at h2

example : decodeLog [1] ⟨"E", []⟩ { topics := [[1], [1]], data := [] } = .error .err := by decide

/-- observation (go-ethereum v1.10.9: `if len(log.Data) > 0 { unpack }`): a log of the right event with EMPTY data
is accepted and leaves every field of the binding struct at its Go zero value (nil `*big.Int`s) — no contract emits
such a log for an event with inputs -/
theorem log_empty_data_leaves_zero_values (id : Bytes) (s : EventSpec) (hi : s.indexed = []) :
    decodeLog id s { topics := [id], data := [] } = .ok (s.inputs.map (fun _ => none)) := by
  have := mergeVals_none s.inputs hi
  simp only [decodeLog, ne_eq, not_true_eq_false, if_false, List.isEmpty_nil, if_true, hi, decTopics, bind, Except.bind,
    pure, Except.pure, EventSpec.nonIndexed]
  rw [this]

example : decodeLog [1] ⟨"E", [⟨"a", .elem (.uint 256), false⟩]⟩ { topics := [[1]], data := [] } = .ok [none] := by decide

/-! ### regenerated facts (Gen/AbiFacts.lean, Gen/EventTable.lean) -/

/-- the ABI embedded in the bindings declares each of the fifteen events exactly as the model assumes: input
names, types, order, nothing indexed, not anonymous -/
theorem abi_events_match_model : events.all eventMatches = true := by decide +kernel

example : (eventOf 2).map eventMatches = some true := by decide +kernel

/-- the abigen event structs: one field per ABI input, in ABI order, named `ToCamelCase(input name)`, of the Go
type of the input's ABI type, then `Raw` — so `Arguments.Copy` (by name for several inputs, field 0 for one) puts
decoded value number k into field number k -/
theorem binding_structs_match_abi : events.all bindingStructMatches = true := by decide +kernel

example : toCamelCase "dispatchedGroupId" = "DispatchedGroupId" ∧ toCamelCase "_secret_hash" = "SecretHash" := by
  decide +kernel

/-- **field ↔ ABI position.** For each of the seven events the node subscribes to, the table entry fills every
field of the node event from the ABI input at the position the property demands (same name; the two admitted
exceptions: `WorkingGroupSize` ← `numWorkingGroups`, input 2 of LogPublicKeyAccepted, whose input 1 `pubKey` has no
node field; `NodeId` ← `nodeId` through `Address.Bytes`) -/
theorem node_fields_from_abi_positions :
    nodeSubscribes.all (fun idx => match eventOf idx with
      | some e => some (nodeFieldSources e) == (modelFieldSources.find? (fun p => p.1 == idx)).map (·.2)
      | none => false) = true := by decide +kernel

example : (eventOf 2).map nodeFieldSources = some [("QueryId", some 0), ("Timeout", some 1), ("DataSource", some 2),
    ("Selector", some 3), ("Randomness", some 4), ("DispatchedGroupId", some 5)] := by decide +kernel

/-- **event ids.** Keccak-256 of the model's signature of each of the fifteen events, computed by the kernel, is
the id abigen quoted in the doc comment of the binding's Watch method (regenerated); pairwise different. -/
theorem event_ids_match_bindings :
    events.map topic0Hex = events.map docTopic0 ∧ (events.map topic0Hex).Nodup := by decide +kernel

example : (eventOf 2).map topic0Hex = some "05e1614af4efb13caeba2369a57a05ee5830f33364f82e2c899fd5710cb56ef3" := by
  decide +kernel

/-- **end to end.** For a subscribed event `e`, any hash and all well-typed values `vs`: from the log the contract
emits for `vs`, the binding decodes `vs`, and the table entry puts into node field `f` the value `vs[k]`, `k` the
position `modelFieldSources` demands for `f`. -/
theorem delivered_fields_are_the_emitted_values (hash : Bytes → Bytes) (idx : Nat) (e : Ev)
    (hs : idx ∈ nodeSubscribes) (he : eventOf idx = some e) (vs : List AbiVal) (hv : wtArgs e.spec.types vs = true)
    (hB : (emit hash e vs).data.length < 2 ^ 63) (f : String) (k : Nat) (srcs : List (String × Option Nat))
    (hm : modelFieldSources.find? (fun p => p.1 == idx) = some (idx, srcs))
    (hf : srcs.find? (fun p => p.1 == f) = some (f, some k)) :
    ∃ vals, receive hash e (emit hash e vs) = .ok vals ∧ deliveredField e vals f = (vs.map some)[k]? := by
  have hmem : e ∈ events := by
    simp only [eventOf] at he
    exact List.mem_of_find?_eq_some he
  refine ⟨vs.map some, receive_emit hash e hmem vs hv hB, ?_⟩
  have hall := node_fields_from_abi_positions
  simp only [List.all_eq_true] at hall
  have h1 := hall idx hs
  simp only [he, hm, Option.map_some, beq_iff_eq, Option.some.injEq] at h1
  simp only [deliveredField, h1, hf]

example : (eventOf 5).map (fun e => deliveredField e [some (.elem (.num 1)), some (.arr []), some (.elem (.num 9))] "WorkingGroupSize")
    = some (some (some (.elem (.num 9)))) := by decide +kernel

end Dos.Props.C18Abi

package c12

import (
	"strings"
)

// execLocal runs one case line on the real code in this (child) process.
func execLocal(line string) (impl, oracle string) {
	w := strings.Fields(line)
	switch w[0] {
	case "inv":
		return "inventory ok", "" // the inventory is the Lean side's business; a difference shows up as a disagreement
	case "sess":
		return opSess(w[1])
	case "xpub":
		return opXpub(w[1], w[2], w[3])
	case "gdkg":
		return opGdkg(w[1], w[2])
	case "dkgs":
		return opDkgs(w[1], w[2], w[3])
	case "stage":
		return opStage(w[1], w[2], w[3])
	case "dpk":
		return opDpk(w[1])
	case "tobig":
		return opTobig(w[1])
	case "qloop":
		return opQloop(w[1])
	case "rsign":
		return opRsign(w[1], w[2], w[3], w[5])
	case "subm":
		return opSubm(w[1], w[2])
	case "b32":
		return opB32(w[1])
	case "crseed":
		return opCrseed(w[1])
	case "dec":
		return opDec(w[1], w[2])
	case "dpipe":
		return opDpipe(w[1])
	case "rid":
		return opRid(w[1])
	case "conn":
		return opConn(w[1])
	case "chain":
		return opChain(w[1], w[2])
	case "chainraw":
		return opChainRaw(w[1], w[2])
	case "bootips":
		return opBootIps(w[1], w[2], w[3])
	case "conns":
		return opConns(w[1])
	case "disp":
		return opDisp(w[1])
	case "mdisp":
		return opMdisp(w[1])
	case "listen":
		return opListen(w[1])
	case "serf":
		return opSerf(w[1])
	case "fzraw":
		return opFzRaw(w[1])
	case "fzrid":
		return opFzRid(w[1], false)
	case "fzstream":
		return opFzRid(w[1], true)
	case "fzpipe":
		return opFzPipe(w[1])
	case "fzseal":
		return opFzSeal(w[1], w[2], w[3], w[4])
	case "fzmsg":
		return opFzMsg(w[1])
	case "fzshares":
		return opFzShares(w[1], w[2], w[3], w[4], w[5])
	case "fzloop":
		return opFzLoop()
	case "fzconn":
		return opFzConn(w[1])
	case "fzsim":
		return opFzSim(w[1], w[2], w[3], w[4])
	case "fzspin":
		return opFzSpin(w[1])
	case "fzfetch":
		return opFzFetch(w[1])
	case "fzparse":
		return opFzParse(w[1], w[2])
	case "deep":
		return opDeep(w[1], w[2])
	}
	panic("bad case line: " + line)
}

// honest lines (every field the honest value) are the trivial ones
var honest = map[string]bool{}

func nontrivial(line string) bool {
	if strings.HasPrefix(line, "fz") {
		return true
	}
	return !honest[line]
}

/-
C04 driver: maps a case line of go/props/c04 to the model's output line.
`lib` cases run the model of dkg.go (`Model/Dkg.lean`) with symbolic cryptography on the
discrete-log instance `Zr`; keys and polynomials are fixed small numbers (the real run uses
random ones – only result classes and equality classes of keys are compared).
-/
import DosModel.Model.Dkg
import DosModel.Model.VssZr
import DosModel.Model.DkgSim

open Dos Dos.Vss Dos.Dkg

namespace Dos.C04Drv

abbrev S := Zr
abbrev P := Zr
def g : P := Zr.g

def parseNat (s : String) : Nat := s.toNat?.getD 0

def longOf (k : Nat) : S := Zr.ofNat (1000 + 7 * k)
def polyOf (t k : Nat) : List S := (List.range t).map (fun m => Zr.ofNat (100 * k + 11 + 3 * m))
def ephsOf (n j : Nat) : List S := (List.range n).map (fun i => Zr.ofNat (9000 + 10 * j + i))

structure World where
  n : Nat
  gens : List (Option (Gen S P))
  dealsOf : List (List (Nat × DkgDeal S P))      -- per dealer: (recipient, message)
  resp : List (Nat × Nat × DkgResp S P)          -- (responder k, dealer j, message)

def mkWorld (n : Nat) : World :=
  let t := n / 2 + 1
  let pubs := (List.range n).map (fun k => longOf k • g)
  let init := (List.range n).map (fun k =>
    match newGen g (longOf k) pubs (polyOf t k) with
    | .error _ => (none, [])
    | .ok d =>
      match deals g d (ephsOf n k) with
      | .ok (d1, ds) => (some d1, ds)
      | _ => (none, []))
  { n := n, gens := init.map (·.1), dealsOf := init.map (·.2), resp := [] }

def getGen (w : World) (i : Nat) : Option (Gen S P) := (w.gens[i]?).join

def stepEv (acc : World × List String) (ev : String) : World × List String :=
  let (w, out) := acc
  let kind := ev.take 1
  let p := ((ev.drop 1).toString).splitOn "."
  if kind.toString = "d" then
    let j := parseNat (p.getD 0 ""); let i := parseNat (p.getD 1 "")
    match getGen w i, ((w.dealsOf[j]?).getD []).find? (fun x => x.1 = i) with
    | some d, some (_, m) =>
      let (d1, r) := processDeal g d m
      let w1 := { w with gens := w.gens.set i (some d1) }
      match r with
      | .error e => (w1, out ++ [e.name])
      | .ok rm =>
        let st := match rm.resp with | some r => r.status | none => false
        ({ w1 with resp := w1.resp ++ [(i, j, rm)] }, out ++ [if st then "a" else "c"])
    | _, _ => (w, out ++ ["bad"])
  else
    let k := parseNat (p.getD 0 ""); let j := parseNat (p.getD 1 ""); let i := parseNat (p.getD 2 "")
    match w.resp.find? (fun x => x.1 = k ∧ x.2.1 = j) with
    | none => (w, out ++ ["na"])
    | some (_, _, m) =>
      match getGen w i with
      | none => (w, out ++ ["bad"])
      | some d =>
        let (d1, r) := processResponse g d m
        let w1 := { w with gens := w.gens.set i (some d1) }
        match r with
        | .error e => (w1, out ++ [e.name])
        | .ok _ => (w1, out ++ ["ok"])

/-- equality classes of the finishers' commitment vectors, first seen = 0 -/
def keyClasses (outs : List (Option (KeyShare S P))) : String :=
  let step := fun (acc : List (List P) × String) (o : Option (KeyShare S P)) =>
    match o with
    | none => (acc.1, acc.2 ++ "-")
    | some ks =>
      match acc.1.findIdx? (fun c => c = ks.commits) with
      | some k => (acc.1, acc.2 ++ toString k)
      | none => (acc.1 ++ [ks.commits], acc.2 ++ toString acc.1.length)
  (outs.foldl step ([], "")).2

def finishLine (w : World) (evres : List String) : String :=
  let outs := (List.range w.n).map (fun k =>
    match getGen w k with
    | none => (none, "bad")
    | some d =>
      match distKeyShare d with
      | .ok ks => (some ks, "-")
      | .err e => (none, e.name)
      | .panic _ => (none, "panic"))
  let fin := String.join (outs.map (fun o => if o.1.isSome then "1" else "0"))
  s!"ev={String.intercalate "," evres} fin={fin} why={String.intercalate "," (outs.map (·.2))} keys={keyClasses (outs.map (·.1))}"

def runLib (w : List String) : String :=
  match w with
  | [_, _seed, n, evs] =>
    let n := parseNat n
    let world := mkWorld n
    let (w1, out) := if evs = "-" then (world, []) else (evs.splitOn ",").foldl stepEv (world, [])
    finishLine w1 out
  | _ => "bad-op"

def step (line : String) : String :=
  let w := words line
  match w.head? with
  | some "lib" => runLib w
  | some "mem" => Dos.DkgSim.runLine w
  | some "net" =>
    -- networked level: every policy lets every message through eventually, so the model's answer is
    -- `complete_delivery_finishes` + `agree`: everybody finishes on one key
    let n := parseNat (w.getD 2 "")
    s!"fin={String.join (List.replicate n "1")} keys={String.join (List.replicate n "0")}"
  | _ => "bad-op"

end Dos.C04Drv

def main : IO Unit := Dos.lineLoop Dos.C04Drv.step

package dkgnet

import (
	"fmt"
	"sort"
	"strings"

	dkg "github.com/DOSNetwork/core/share/dkg/pedersen"
	vss "github.com/DOSNetwork/core/share/vss/pedersen"

	"verifharness/internal/h"
)

// Lib is the LIBRARY-level adversarial run (C05 round 5, review C finding 1): n real DistKeyGenerators driven
// DIRECTLY – ProcessDeal / ProcessResponse / ProcessJustification, no session layer, no pipeline stage that stops
// at a complaint – with the observation point the property names: Certified() / QUAL() / DistKeyShare() of every
// honest member. It is the Go side of Model/DkgLibSim.lean.
//
//	libadv <seed> <n> <b> <events>
//
//	events (","):
//	  d<j>.<i>            member i processes the genuine deal of j's generator for i
//	  r<k>.<j>.<i>        member i processes the response member k's generator gave about dealer j (if it exists);
//	                      when i = j and the library answers with a justification it is recorded as (j, k)
//	  j<j>.<k>.<i>        member i processes the recorded justification of dealer j for complainer k
//	  <spec>@<i>          adversarial message to member i:
//	     D.<claim>.<sealer>.<rcpt>.<variant>             deal (Sim.AdvDeal); an answer is recorded as i's response
//	                                                     about dealer <claim> if i has none yet
//	     R.<dealer>.<responder>.<sid>.<a|c>.<signer>     response built from scratch (Sim.AdvResp)
//	     GR.<k>.<j>.<j2>                                 k's recorded response about j, Index := j2
//	     RN.<dealer>                                     dkg.Response without a vss response
//	     J.<dealer>.<complainer>.<sealer>.<variant>      justification carrying the plaintext Sim.AdvPlain(sealer,
//	                                                     complainer, variant) (the code never checks its signature)
//
// Output: "ev=<result per event> cert=<0|1 per member> qual=<sorted QUAL per member, '/'-separated> out=<per member>
// keys=<class per member>"; member b (the Byzantine seat) runs an honest generator too – it is the source of b's
// genuine messages – and is left out by the oracle.
type Lib struct {
	N, T, B  int
	Tool     *Sim
	Gens     []*dkg.DistKeyGenerator
	Deals    []map[int]*dkg.Deal
	Resp     map[[2]int]*dkg.Response      // (responder, dealer)
	Just     map[[2]int]*dkg.Justification // (dealer, complainer)
	Ev       []string
	Answered []map[int]string // per member: dealer index -> "a" | "c" (first answer ProcessDeal gave)
	// ApprovedInconsistent: member i approved an adversarial deal the harness built inconsistent
	ApprovedInconsistent []string
}

func NewLib(seed uint64, n, b int) *Lib {
	s := NewSim(seed, n)
	l := &Lib{N: n, T: s.T, B: b, Tool: s, Resp: map[[2]int]*dkg.Response{}, Just: map[[2]int]*dkg.Justification{}}
	for k := 0; k < n; k++ {
		g, err := dkg.VerifNewDistKeyGenerator(Suite, s.Secs[k], s.Pubs, s.T, Scalar(NonZero(s.rng)))
		if err != nil {
			panic("NewLib: " + err.Error())
		}
		ds, err := g.Deals()
		if err != nil {
			panic("NewLib Deals: " + err.Error())
		}
		l.Gens = append(l.Gens, g)
		l.Deals = append(l.Deals, ds)
		l.Answered = append(l.Answered, map[int]string{})
		s.M[k].gen = g // Sim.CurSid reads the dealer's session id from here
	}
	return l
}

func guard(f func() string) (out string) {
	defer func() {
		if r := recover(); r != nil {
			out = "panic"
		}
	}()
	return f()
}

func (l *Lib) processDeal(i int, d *dkg.Deal, info *SealedInfo) {
	l.Ev = append(l.Ev, guard(func() string {
		r, err := l.Gens[i].ProcessDeal(CloneDeal(d))
		if err != nil {
			return DkgErrKind(err)
		}
		code := "c"
		if r.Response.Status {
			code = "a"
		}
		j := int(d.Index)
		if _, ok := l.Answered[i][j]; !ok {
			l.Answered[i][j] = code
		}
		if _, ok := l.Resp[[2]int{i, j}]; !ok {
			l.Resp[[2]int{i, j}] = r
		}
		if info != nil && code == "a" && !(info.Consistent && info.Rcpt == i) {
			l.ApprovedInconsistent = append(l.ApprovedInconsistent, fmt.Sprintf("member %d approved the deal it got under index %d", i, j))
		}
		return code
	}))
}

func (l *Lib) processResp(i int, r *dkg.Response) {
	l.Ev = append(l.Ev, guard(func() string {
		c := CloneResp(r)
		j, err := l.Gens[i].ProcessResponse(c)
		if err != nil {
			return DkgErrKind(err)
		}
		if j != nil {
			key := [2]int{int(j.Index), int(j.Justification.Index)}
			if _, ok := l.Just[key]; !ok {
				l.Just[key] = j
			}
			return "j"
		}
		return "ok"
	}))
}

func (l *Lib) processJust(i int, j *dkg.Justification) {
	l.Ev = append(l.Ev, guard(func() string {
		// every recipient gets its own copy of the deal inside (the wire would give it one)
		d := *j.Justification.Deal
		c := &dkg.Justification{Index: j.Index, Justification: &vss.Justification{SessionID: j.Justification.SessionID,
			Index: j.Justification.Index, Deal: &d, Signature: j.Justification.Signature}}
		if v := l.Gens[i].VerifVerifier(j.Index); v != nil && !verifHasAgg(v) {
			return "nilagg" // Go: nil aggregator dereference (ProcessJustification is not reachable from the pipeline)
		}
		if err := l.Gens[i].ProcessJustification(c); err != nil {
			return DkgErrKind(err)
		}
		return "ok"
	}))
}

// verifHasAgg: a verifier whose slot was burnt by a ProcessDeal error has no aggregator; EnoughApprovals
// dereferences it, so its existence is probed through a recovered call.
func verifHasAgg(v *vss.Verifier) (ok bool) {
	defer func() {
		if recover() != nil {
			ok = false
		}
	}()
	v.EnoughApprovals()
	return true
}

// RunLibLine executes a libadv line.
func RunLibLine(w []string) (string, *Lib) {
	seed, n, b := h.BigDec(w[1]).Uint64(), h.Atoi(w[2]), h.Atoi(w[3])
	l := NewLib(seed, n, b)
	s := l.Tool
	if w[4] != "-" {
		for _, ev := range strings.Split(w[4], ",") {
			if at := strings.LastIndex(ev, "@"); at >= 0 {
				spec, to := ev[:at], h.Atoi(ev[at+1:])
				f := strings.Split(spec, ".")
				a := func(k int) int { return h.Atoi(f[k]) }
				switch f[0] {
				case "D":
					d := s.AdvDeal(a(1), a(2), a(3), strings.Join(f[4:], "."))
					info := s.Sealed[len(s.Sealed)-1]
					l.processDeal(to, d, &info)
				case "R":
					l.processResp(to, s.AdvResp(a(1), a(2), f[3], f[4] == "a", f[5]))
				case "GR":
					r := l.Resp[[2]int{a(1), a(2)}]
					if r == nil {
						l.Ev = append(l.Ev, "na")
						continue
					}
					c := CloneResp(r)
					c.Index = uint32(a(3))
					l.processResp(to, c)
				case "RN":
					l.processResp(to, &dkg.Response{SessionId: s.Sid, Index: uint32(a(1))})
				case "J":
					pd := s.AdvPlain(a(3), a(2), strings.Join(f[4:], "."))
					l.processJust(to, &dkg.Justification{Index: uint32(a(1)), Justification: &vss.Justification{
						SessionID: pd.SessionID, Index: uint32(a(2)), Deal: pd, Signature: s.rng.Bytes(161)}})
				default:
					panic("bad adversarial spec " + spec)
				}
				continue
			}
			p := strings.Split(ev[1:], ".")
			switch ev[0] {
			case 'd':
				j, i := h.Atoi(p[0]), h.Atoi(p[1])
				d := l.Deals[j][i]
				if d == nil {
					l.Ev = append(l.Ev, "na")
					continue
				}
				l.processDeal(i, d, nil)
			case 'r':
				k, j, i := h.Atoi(p[0]), h.Atoi(p[1]), h.Atoi(p[2])
				r := l.Resp[[2]int{k, j}]
				if r == nil {
					l.Ev = append(l.Ev, "na")
					continue
				}
				l.processResp(i, r)
			case 'j':
				j, k, i := h.Atoi(p[0]), h.Atoi(p[1]), h.Atoi(p[2])
				ju := l.Just[[2]int{j, k}]
				if ju == nil {
					l.Ev = append(l.Ev, "na")
					continue
				}
				l.processJust(i, ju)
			default:
				panic("bad event " + ev)
			}
		}
	}
	outs := l.Outcomes()
	var cert, qual, out []string
	for k := 0; k < n; k++ {
		c, q := guardCertQual(l.Gens[k])
		cert = append(cert, c)
		qual = append(qual, q)
		switch {
		case outs[k].Finished:
			out = append(out, "ok")
		default:
			out = append(out, outs[k].ErrKind)
		}
	}
	return fmt.Sprintf("ev=%s cert=%s qual=%s out=%s keys=%s", strings.Join(l.Ev, ","), strings.Join(cert, ""),
		strings.Join(qual, "/"), strings.Join(out, ","), KeyClasses(outs)), l
}

func guardCertQual(g *dkg.DistKeyGenerator) (cert, qual string) {
	defer func() {
		if recover() != nil {
			cert, qual = "p", "p"
		}
	}()
	cert = "0"
	if g.Certified() {
		cert = "1"
	}
	q := g.QUAL()
	sort.Ints(q)
	var qs []string
	for _, x := range q {
		qs = append(qs, fmt.Sprint(x))
	}
	qual = strings.Join(qs, ".")
	if qual == "" {
		qual = "-"
	}
	return
}

// Outcomes is Certified()/DistKeyShare() of every member (panics recovered).
func (l *Lib) Outcomes() []Outcome {
	outs := make([]Outcome, l.N)
	for k := range l.Gens {
		outs[k] = Finish(l.Gens[k])
		if strings.HasPrefix(outs[k].ErrKind, "panic:") {
			outs[k].ErrKind = "panic"
		}
	}
	return outs
}

// Oracle judges the joint outcome of the honest members (all but B) at the observation point the property names.
func (l *Lib) Oracle() string {
	outs := l.Outcomes()
	var members []int
	var houts []Outcome
	for k := 0; k < l.N; k++ {
		if k == l.B {
			continue
		}
		members = append(members, k)
		houts = append(houts, outs[k])
	}
	if o := JointOracle(members, houts, l.T, nil, nil, h.NewRng(1)); o != "" {
		return "lib-" + o
	}
	if len(l.ApprovedInconsistent) > 0 {
		return "lib-approved-inconsistent: " + l.ApprovedInconsistent[0] + " although its threshold, index, session id or share do not fit its commitments"
	}
	for _, k := range members {
		cert, qual := guardCertQual(l.Gens[k])
		if cert == "p" {
			return fmt.Sprintf("lib-panic: Certified()/QUAL() of member %d panicked", k)
		}
		if outs[k].ErrKind == "panic" {
			return fmt.Sprintf("lib-panic: DistKeyShare() of member %d panicked", k)
		}
		inQual := map[int]bool{}
		if qual != "-" {
			for _, x := range strings.Split(qual, ".") {
				inQual[h.Atoi(x)] = true
			}
		}
		for j := 0; j < l.N; j++ {
			if j == k {
				continue
			}
			ans := l.Answered[k][j]
			if inQual[j] && ans != "a" {
				what := "without having answered any deal of that dealer"
				if ans == "c" {
					what = "although it answered that dealer's deal with a complaint"
				}
				return fmt.Sprintf("lib-qual-without-approval: member %d has dealer %d in QUAL %s", k, j, what)
			}
			if outs[k].Finished && ans != "a" {
				return fmt.Sprintf("lib-finished-after-complaint: member %d finished (Certified, DistKeyShare) although it did not approve the deal of dealer %d (answer %q)", k, j, ans)
			}
		}
	}
	return ""
}

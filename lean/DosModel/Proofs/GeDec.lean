/-
C20 (round 4) — point DECOMPRESSION, part 1: the executable model `Ge.extFromBytes` of
`(*extendedGroupElement).FromBytes` (ge.go) is cut into its stages (head = feFromBytes + segment A, middle = the two
`feIsNonZero` tests with segments B, C, tail = `feIsNegative`, segment D, segment E) and every stage is related to
arithmetic in F by the generic refinement theorem `body_refines` (multiplier analysis decided by the kernel on the
regenerated segment, field run evaluated for an arbitrary algebra so that the kernel never unfolds the power).
`feIsNonZero` / `feIsNegative` normalise their argument in place: the register keeps its field value, its limbs
become digits (2 × bound) — `mut_R`.
-/
import DosModel.Proofs.GeEnc

set_option exponentiation.threshold 600

namespace Dos.Ge
open Dos Dos.Ed25519 Dos.FeProg Dos.FeOps Dos.GeProg Dos.Ed25519Prime Dos.Edwards Dos.Gen.Ed25519Ge

/-! ### the in-place normalisation of feToBytes / feIsNonZero / feIsNegative -/

theorem val_mod (l l' : L10) (h : feVal l' = feVal l % pI) : val l' = val l := by
  unfold val
  rw [h, pI_eq]
  exact ZMod.intCast_mod _ _

/-- the register left behind by feToBytes (feIsNonZero, feIsNegative): same field value, digits -/
theorem mut_R {k : Nat} {l : L10} {x : F} (h : R k l x) (hk : k ≤ 3) : R 2 (FeOps.feToBytes l).2 x := by
  obtain ⟨_, hb, hv⟩ := feToBytes_spec l (h.mono hk).1
  exact ⟨hb, (val_mod _ _ hv).trans h.2⟩

theorem val_eq_zero_iff (l : L10) : feVal l % pI = 0 ↔ val l = 0 := by
  unfold val
  rw [ZMod.intCast_zmod_eq_zero_iff_dvd, pI_eq]
  exact (Int.dvd_iff_emod_eq_zero ..).symm

theorem nonZero_R {k : Nat} {l : L10} {x : F} (h : R k l x) (hk : k ≤ 3) :
    (FeOps.feIsNonZero l).1 = (if x = 0 then 0 else 1) ∧ R 2 (FeOps.feIsNonZero l).2 x := by
  obtain ⟨h1, h2⟩ := feIsNonZero_spec l (h.mono hk).1
  refine ⟨?_, by rw [h2]; exact mut_R h hk⟩
  rw [h1, ← h.2]
  by_cases hz : feVal l % pI = 0
  · rw [if_pos hz, if_pos ((val_eq_zero_iff l).1 hz)]
  · rw [if_neg hz, if_neg (fun h0 => hz ((val_eq_zero_iff l).2 h0))]

theorem negative_R {k : Nat} {l : L10} {x : F} (h : R k l x) (hk : k ≤ 3) :
    (FeOps.feIsNegative l).1.toNat = x.val % 2 ∧ R 2 (FeOps.feIsNegative l).2 x := by
  obtain ⟨h1, h2⟩ := feIsNegative_spec l (h.mono hk).1
  refine ⟨?_, by rw [h2]; exact mut_R h hk⟩
  rw [h1, ← h.2, val_val]

/-! ### the sign bit of the input -/

theorem sign_bit (s : Bytes) (hs : s.length = 32) : ((s.getD 31 0) >>> 7).toNat = leNat s / 2 ^ 255 := by
  have h1 := FeBytes.leNat_take_drop s 31
  have hl : (s.take 31).length = 31 := by simp [hs]
  have hd : s.drop 31 = [s.getD 31 0] := by
    have : (s.drop 31).length = 1 := by simp [hs]
    match hq : s.drop 31, this with
    | [b], _ =>
      have : s.getD 31 0 = b := by
        have := congrArg (fun l => l.getD 0 0) hq
        simpa [List.getD] using this
      rw [this]
  rw [hl, hd] at h1
  have h2 : leNat [s.getD 31 0] = (s.getD 31 0).toNat := by simp [leNat]
  rw [h2] at h1
  have h3 := leNat_lt (s.take 31)
  rw [hl] at h3
  rw [UInt8.toNat_shiftRight, Nat.shiftRight_eq_div_pow, h1]
  have e : (2 : Nat) ^ 255 = 256 ^ 31 * 128 := by norm_num
  have e7 : (7 : UInt8).toNat % 8 = 7 := by decide
  rw [e, e7, ← Nat.div_div_eq_div_mul, Nat.add_mul_div_left _ _ (by positivity), Nat.div_eq_of_lt h3, Nat.zero_add]

theorem sign_le (s : Bytes) (hs : s.length = 32) : leNat s / 2 ^ 255 ≤ 1 := by
  have := leNat_lt s
  rw [hs] at this
  have e : (256 : Nat) ^ 32 = 2 ^ 255 * 2 := by norm_num
  rw [e] at this
  have := (Nat.div_lt_iff_lt_mul (by positivity)).2 this
  omega

/-! ### the stages of `extFromBytes` -/

/-- register file before segment A: p uninitialised (zero), `feFromBytes(&p.Y, s)`, locals zero, constants -/
def fbRegs0 (s : Bytes) : List L10 :=
  [z10, FeOps.feFromBytes s, z10, z10, z10, z10, z10, z10, z10, c_d, c_d2, c_sqrtM1]

/-- the two `feIsNonZero(&check)` tests with segments B and C -/
def fbMid (r : List L10) : Option (List L10) :=
  let nz := FeOps.feIsNonZero (r.getD 8 z10)
  let r := r.set 8 nz.2
  if nz.1 = 1 then
    let r := fbRun extended_FromBytes_B r
    let nz2 := FeOps.feIsNonZero (r.getD 8 z10)
    let r := r.set 8 nz2.2
    if nz2.1 = 1 then none else some (fbRun extended_FromBytes_C r)
  else some r

/-- `feIsNegative(&p.X)`, the conditional segment D, segment E -/
def fbTail (s : Bytes) (r : List L10) : Ext :=
  let ng := FeOps.feIsNegative (r.getD 0 z10)
  let r := r.set 0 ng.2
  let r := if ng.1 ≠ ((s.getD 31 0) >>> 7) then fbRun extended_FromBytes_D r else r
  ext4 (fbRun extended_FromBytes_E r) 0

theorem extFromBytes_len {s : Bytes} (h : s.length ≠ 32) : extFromBytes s = none := by
  unfold extFromBytes
  rw [if_pos h]

/-- the model, staged (the same computation) -/
theorem extFromBytes_staged (s : Bytes) (hs : s.length = 32) :
    extFromBytes s = (fbMid (fbRun extended_FromBytes_A (fbRegs0 s))).map (fbTail s) := by
  have hc : addr fbBases extended_FromBytes_check = 8 := by decide
  have hx : addr fbBases extended_FromBytes_x = 0 := by decide
  have hy : addr fbBases extended_FromBytes_y = 1 := by decide
  have hr : (junk4 ++ List.replicate 5 z10 ++ consts).set 1 (FeOps.feFromBytes s) = fbRegs0 s := rfl
  unfold extFromBytes
  rw [if_neg (by simp [hs])]
  simp only [hc, hx, hy, hr]
  generalize fbRun extended_FromBytes_A (fbRegs0 s) = r
  unfold fbMid
  simp only
  split_ifs <;> simp [fbTail]

/-! ### head: feFromBytes and segment A -/

/-- multipliers after segment A -/
def fbMA : List Mult :=
  [some 1, some 1, some 1, some 1, some 2, some 2, some 1, some 1, some 3, some 1, some 1, some 1]

/-- multipliers after the middle stage (both accepted paths) -/
def fbMT : List Mult :=
  [some 1, some 1, some 1, some 1, some 2, some 2, some 1, some 1, some 2, some 1, some 1, some 1]

theorem regs0_rel (s : Bytes) (hs : s.length = 32) :
    RegRel [some 1, some 1, some 1, some 1, some 1, some 1, some 1, some 1, some 1, some 1, some 1, some 1]
      (fbRegs0 s) [0, (((leNat s % 2 ^ 255 : ℕ) : ℕ) : F), 0, 0, 0, 0, 0, 0, 0, E25519.d, 2 * E25519.d, E25519.i] := by
  obtain ⟨hb, hv⟩ := feFromBytes_spec s hs
  have hy : R 1 (FeOps.feFromBytes s) (((leNat s % 2 ^ 255 : ℕ) : ℕ) : F) := ⟨hb, val_of_modP hv⟩
  have z := zero10_R
  exact regRel_some z (regRel_some hy (regRel_some z (regRel_some z (regRel_some z (regRel_some z (regRel_some z
    (regRel_some z (regRel_some z regRel_consts))))))))

theorem runBody_append {α : Type} (A : FeAlg α) (dflt : α) (bases : List Nat) (b : Int) (b1 b2 : List GStmt)
    (regs : List α) :
    runBody A dflt bases b (b1 ++ b2) regs = runBody A dflt bases b b2 (runBody A dflt bases b b1 regs) :=
  List.foldl_append

/-- segment A in four chunks (a long body evaluated in one go re-evaluates shared registers exponentially often) -/
def segA1 : List GStmt := extended_FromBytes_A.body.take 5
def segA2 : List GStmt := (extended_FromBytes_A.body.drop 5).take 5
def segA3 : List GStmt := (extended_FromBytes_A.body.drop 10).take 3
def segA4 : List GStmt := extended_FromBytes_A.body.drop 13

theorem segA_split : extended_FromBytes_A.body = segA1 ++ (segA2 ++ (segA3 ++ segA4)) := rfl

theorem segA1_run (A : FeAlg F) (x0 y z0 t0 u0 v0 w0 q0 c0 d d2 i : F) :
    runBody A 0 fbBases 0 segA1 [x0, y, z0, t0, u0, v0, w0, q0, c0, d, d2, i] =
      [x0, y, A.one, t0, A.sub (A.sq y) A.one, A.add (A.mul (A.sq y) d) A.one, w0, q0, c0, d, d2, i] := rfl

theorem segA2_run (A : FeAlg F) (x0 y o t0 u v w0 q0 c0 d d2 i : F) :
    runBody A 0 fbBases 0 segA2 [x0, y, o, t0, u, v, w0, q0, c0, d, d2, i] =
      [A.mul (A.mul (A.sq (A.mul (A.sq v) v)) v) u, y, o, t0, u, v, A.mul (A.sq v) v, q0, c0, d, d2, i] := rfl

theorem segA3_run (A : FeAlg F) (x y o t0 u v w q0 c0 d d2 i : F) :
    runBody A 0 fbBases 0 segA3 [x, y, o, t0, u, v, w, q0, c0, d, d2, i] =
      [A.mul (A.mul (A.pow22523 x) w) u, y, o, t0, u, v, w, q0, c0, d, d2, i] := rfl

theorem segA4_run (A : FeAlg F) (x y o t0 u v w q0 c0 d d2 i : F) :
    runBody A 0 fbBases 0 segA4 [x, y, o, t0, u, v, w, q0, c0, d, d2, i] =
      [x, y, o, t0, u, v, w, A.mul (A.sq x) v, A.sub (A.mul (A.sq x) v) u, d, d2, i] := rfl

/-- segment A on the field -/
theorem segA_run (y d d2 i : F) :
    runBody fieldAlg 0 fbBases 0 extended_FromBytes_A.body [0, y, 0, 0, 0, 0, 0, 0, 0, d, d2, i] =
      [powF ((y * y * d + 1) * (y * y * d + 1) * (y * y * d + 1) * ((y * y * d + 1) * (y * y * d + 1) * (y * y * d + 1))
            * (y * y * d + 1) * (y * y - 1)) * ((y * y * d + 1) * (y * y * d + 1) * (y * y * d + 1)) * (y * y - 1),
        y, 1, 0, y * y - 1, y * y * d + 1, (y * y * d + 1) * (y * y * d + 1) * (y * y * d + 1),
        (powF ((y * y * d + 1) * (y * y * d + 1) * (y * y * d + 1) * ((y * y * d + 1) * (y * y * d + 1) * (y * y * d + 1))
            * (y * y * d + 1) * (y * y - 1)) * ((y * y * d + 1) * (y * y * d + 1) * (y * y * d + 1)) * (y * y - 1))
          * (powF ((y * y * d + 1) * (y * y * d + 1) * (y * y * d + 1) * ((y * y * d + 1) * (y * y * d + 1) * (y * y * d + 1))
            * (y * y * d + 1) * (y * y - 1)) * ((y * y * d + 1) * (y * y * d + 1) * (y * y * d + 1)) * (y * y - 1))
          * (y * y * d + 1),
        (powF ((y * y * d + 1) * (y * y * d + 1) * (y * y * d + 1) * ((y * y * d + 1) * (y * y * d + 1) * (y * y * d + 1))
            * (y * y * d + 1) * (y * y - 1)) * ((y * y * d + 1) * (y * y * d + 1) * (y * y * d + 1)) * (y * y - 1))
          * (powF ((y * y * d + 1) * (y * y * d + 1) * (y * y * d + 1) * ((y * y * d + 1) * (y * y * d + 1) * (y * y * d + 1))
            * (y * y * d + 1) * (y * y - 1)) * ((y * y * d + 1) * (y * y * d + 1) * (y * y * d + 1)) * (y * y - 1))
          * (y * y * d + 1) - (y * y - 1),
        d, d2, i] := by
  rw [segA_split, runBody_append, runBody_append, runBody_append, segA1_run, segA2_run, segA3_run, segA4_run]
  rfl

/-- ref10's evaluation order of the candidate root -/
theorem cand_eval (u v : F) : powF (v * v * v * (v * v * v) * v * u) * (v * v * v) * u = cand u v := by
  unfold powF cand
  have e : v * v * v * (v * v * v) * v * u = u * v ^ 7 := by ring
  rw [e]
  generalize (u * v ^ 7) ^ ((Dos.Ed.p - 5) / 8) = w
  ring

/-- **head**: after `feFromBytes` and segment A the registers hold y, Z = 1, u = y² − 1, v = d y² + 1,
X = the candidate root, vxx = X² v, check = vxx − u -/
theorem head_spec (s : Bytes) (hs : s.length = 32) :
    ∃ u v v3 : F, u = (((leNat s % 2 ^ 255 : ℕ) : ℕ) : F) ^ 2 - 1 ∧
      v = E25519.d * (((leNat s % 2 ^ 255 : ℕ) : ℕ) : F) ^ 2 + 1 ∧
      RegRel fbMA (fbRun extended_FromBytes_A (fbRegs0 s))
        [cand u v, (((leNat s % 2 ^ 255 : ℕ) : ℕ) : F), 1, 0, u, v, v3, v * (cand u v) ^ 2,
          v * (cand u v) ^ 2 - u, E25519.d, 2 * E25519.d, E25519.i] := by
  generalize hy : (((leNat s % 2 ^ 255 : ℕ) : ℕ) : F) = y
  have h0 := regs0_rel s hs
  rw [hy] at h0
  have h1 := body_refines (b := 0) (Or.inl rfl) extended_FromBytes_A.body h0 (bases := fbBases) (M' := fbMA) (by decide)
  have run := segA_run y E25519.d (2 * E25519.d) E25519.i
  rw [run] at h1
  refine ⟨y * y - 1, y * y * E25519.d + 1, (y * y * E25519.d + 1) * (y * y * E25519.d + 1) * (y * y * E25519.d + 1),
    by ring, by ring, ?_⟩
  have hc := cand_eval (y * y - 1) (y * y * E25519.d + 1)
  generalize cand (y * y - 1) (y * y * E25519.d + 1) = c at hc ⊢
  have hvxx : (y * y * E25519.d + 1) * c ^ 2 = c * c * (y * y * E25519.d + 1) := by ring
  rw [hvxx, ← hc]
  exact h1

end Dos.Ge

/-
An honest group as an event system (C04 d): `n` member machines (`Model/DkgSession.lean`) and a
schedule, i.e. a list of events `start i` (member `i` calls `Grouping`) and deliveries of the
public key / the deal / the `Responses` message of one member to another.  A delivery of a message
that its sender has not produced yet does nothing (it cannot happen); every other interleaving,
skew and re-delivery is a schedule.  `delivered` logs the deliveries that took effect.
-/
import DosModel.Model.DkgSession

namespace Dos.Dkg
open Dos Dos.Vss

/-- the honest configuration of a group: base point, long-term keys and dealer polynomials -/
structure Cfg (S P : Type) where
  g : P
  longs : List S
  polys : List (List S)

inductive Ev where
  | start (i : Nat)
  | pk (j i : Nat)        -- member j's PublicKey message reaches member i
  | deal (j i : Nat)      -- dealer j's Deal for member i reaches member i
  | resps (k i : Nat)     -- member k's Responses message reaches member i
  deriving DecidableEq, Repr

structure Sys (S P : Type) where
  ms : List (Member S P)
  delivered : List Ev

section
variable {S P : Type} [DecidableEq S] [DecidableEq P]
variable [Zero P] [Add P] [SMul S P] [IntCast S] [Mul S] [Add S] [Zero S]

def Cfg.n (c : Cfg S P) : Nat := c.longs.length
def Cfg.pubs (c : Cfg S P) : List P := c.longs.map (fun x => x • c.g)

def sentPk (m : Member S P) : Option (PkMsg P) :=
  m.sent.findSome? (fun s => match s with | .pk x => some x | _ => none)
def sentDeal (m : Member S P) (to : Nat) : Option (DkgDeal S P) :=
  m.sent.findSome? (fun s => match s with | .deal t x => if t = to then some x else none | _ => none)
def sentResps (m : Member S P) : Option (List (DkgResp S P)) :=
  m.sent.findSome? (fun s => match s with | .resps x => some x | _ => none)

/-- every member in its initial state; `ephs[i]` are the ephemeral secrets member `i` will draw -/
def initSys (c : Cfg S P) (ephs : List (List S)) : Sys S P :=
  { ms := (List.range c.n).map (fun i =>
      Member.init c.n i (c.longs.getD i 0) (c.polys.getD i []) (ephs.getD i []))
    delivered := [] }

def Sys.upd (s : Sys S P) (i : Nat) (f : Member S P → Member S P) (e : Ev) : Sys S P :=
  { ms := s.ms.modify i f, delivered := s.delivered ++ [e] }

/-- one event; the transport never delivers a member's message to itself, and it authenticates the
sender: `Loop` records it on a `PublicKey` message (`stampSender`) -/
def stepEv (g : P) (s : Sys S P) (e : Ev) : Sys S P :=
  match e with
  | .start i => s.upd i (Member.start g) e
  | .pk j i =>
    if j = i then s else
    match (s.ms[j]?).bind sentPk with
    | some x => s.upd i (fun m => m.loopPk g j x) e   -- `Loop` stamps the transport sender
    | none => s
  | .deal j i =>
    if j = i then s else
    match (s.ms[j]?).bind (fun m => sentDeal m i) with
    | some x => s.upd i (fun m => m.recvDeal g x) e
    | none => s
  | .resps k i =>
    if k = i then s else
    match (s.ms[k]?).bind sentResps with
    | some xs => s.upd i (fun m => m.recvResps g xs) e
    | none => s

def runEvents (c : Cfg S P) (ephs : List (List S)) (evs : List Ev) : Sys S P :=
  evs.foldl (stepEv c.g) (initSys c ephs)

end

end Dos.Dkg

/-
C12 — the serving loops of the models are input-driven: one outcome per event, in order, nothing between two
events. (The loops are event-sequence semantics of `for { select { case e := <-ch: … } }`; that the GO loops have
this shape — no iteration without taking an event — is NOT proved here: it is a fact about the code, checked for the
one spin found so far by the CPU probe `fzspin`.)  Core Lean only.
-/
import DosModel.Model.HandlersNode
import DosModel.Model.HandlersP2P
import DosModel.Model.HandlersChain

namespace Dos.Handlers
open Dos

theorem sessRun_len (cfg : Cfg) : ∀ (es : List SessEv) (s : Sess), (sessRun cfg s es).2.length = es.length
  | [], _ => rfl
  | e :: es, s => by simp [sessRun, sessRun_len cfg es]

theorem dkgRun_len (cfg : Cfg) : ∀ (es : List DkgOp) (s : DkgSt), (dkgRun cfg s es).2.length = es.length
  | [], _ => rfl
  | e :: es, s => by simp [dkgRun, dkgRun_len cfg es]

theorem qRun_len (cfg : Cfg) : ∀ (es : List QEv) (s : QSt), (qRun cfg s es).2.length = es.length
  | [], _ => rfl
  | e :: es, s => by simp [qRun, qRun_len cfg es]

theorem rsRun_len (cfg : Cfg) (valid : Bytes → Bytes → Bool) (t n : Nat) :
    ∀ (es : List (Option Sign)) (s : RsSt), (rsRun cfg valid t n s es).2.length = es.length
  | [], _ => rfl
  | e :: es, s => by simp [rsRun, rsRun_len cfg valid t n es]

theorem dispRun_len (cfg : Cfg) : ∀ (es : List DispEv) (s : DispSt), (dispRun cfg s es).2.length = es.length
  | [], _ => rfl
  | e :: es, s => by simp [dispRun, dispRun_len cfg es]

theorem connRun_len (cfg : Cfg) : ∀ (es : List ConnEv) (s : ConnSt), (connRun cfg s es).2.length = es.length
  | [], _ => rfl
  | e :: es, s => by simp [connRun, connRun_len cfg es]

theorem chainRun_len (cfg : Cfg) (me : Nat) : ∀ (es : List ChainIn) (s : EvSt), (chainRun cfg me s es).2.length = es.length
  | [], _ => rfl
  | e :: es, s => by simp [chainRun, chainRun_len cfg me es]

end Dos.Handlers

/-
Liveness of honest key generation, member level: the invariant of one member machine that only
ever receives genuine messages (any order, any repetition, before or after its own start), and
`advance`: every stage whose batch has been handed over runs successfully.
-/
import DosModel.Proofs.DkgLiveGen
import DosModel.Proofs.DkgLiveKeys

set_option linter.unusedSectionVars false

namespace Dos.Dkg
open Dos Dos.Vss

variable {F G : Type} [Field F] [AddCommGroup G] [Module F G] [DecidableEq F] [DecidableEq G]

/-! ### genuine messages as member `i` receives them -/

def GPk (c : Cfg F G) (i : Nat) (m : PkMsg G) : Prop := m.index < c.n ∧ m.index ≠ i ∧ m = c.pkMsg m.index
def GDl (c : Cfg F G) (i : Nat) (m : DkgDeal F G) : Prop := GenuineDealFor c i m ∧ m.index ≠ i
def GRs (c : Cfg F G) (i : Nat) (m : DkgResp F G) : Prop :=
  ∃ j k rnd, j < c.n ∧ k < c.n ∧ k ≠ i ∧ k ≠ j ∧ m = ⟨j, some (c.resp j k rnd)⟩

def keyPk (m : PkMsg G) : Nat := m.index
def keyDl (m : DkgDeal F G) : Nat := m.index
def keyRs (m : DkgResp F G) : Nat × Nat := (m.index, (m.resp.map (·.index)).getD 0)

theorem dupPk_eq (a b : PkMsg G) : dupPk a b = decide (keyPk a = keyPk b) := rfl
theorem dupDeal_eq (a b : DkgDeal F G) : dupDeal a b = decide (keyDl a = keyDl b) := rfl
theorem dupResp_eq (c : Cfg F G) (i : Nat) (a b : DkgResp F G) (ha : GRs c i a) (hb : GRs c i b) :
    dupResp a b = decide (keyRs a = keyRs b) := by
  obtain ⟨j, k, rnd, _, _, _, _, rfl⟩ := ha
  obtain ⟨j', k', rnd', _, _, _, _, rfl⟩ := hb
  simp only [dupResp, keyRs, Cfg.resp, Option.map_some, Option.getD_some, Prod.mk.injEq]
  by_cases h1 : j = j' <;> by_cases h2 : k = k' <;> simp [h1, h2]

theorem keyRs_genuine (c : Cfg F G) (j k rnd : Nat) : keyRs (⟨j, some (c.resp j k rnd)⟩ : DkgResp F G) = (j, k) := rfl

/-- a genuine deal as member `i` receives it is a genuine deal in the sense of `HonestReach` -/
theorem genuineFor_genuine (c : Cfg F G) (ephs : List (List F)) (hw : WellFormed c ephs) (i : Nat) (m : DkgDeal F G)
    (h : GenuineDealFor c i m) : GenuineDeal c m := by
  obtain ⟨eph, rnd, e, hlt, hd, hs⟩ := h
  have hl : m.index < c.longs.length := hlt
  have hp : m.index < c.polys.length := by rw [hw.polys_len]; exact hlt
  refine ⟨m.index, i, c.longs.getD m.index 0, eph, c.polys.getD m.index [], rnd, by simp [List.getD_eq_getElem?_getD, hl],
    by simp [List.getD_eq_getElem?_getD, hp], ?_⟩
  rcases m with ⟨idx, dl⟩
  simp only at hd hs ⊢
  rw [hd, ← hs]; rfl

/-! ### the invariant -/

def stageRank : Stage F G → Nat
  | .idle => 0 | .waitPk => 1 | .waitDeals _ => 2 | .waitResps _ => 3 | .done _ _ => 4 | .failed _ => 5

/-- the deals `Deals()` sends -/
def sentDeals (c : Cfg F G) (ephs : List (List F)) (i : Nat) : List (Sent F G) :=
  ((List.range c.n).filterMap (fun tgt => if tgt = i then none else some (tgt, c.dealMsg ephs i tgt))).map
    (fun x => Sent.deal x.1 x.2)

/-- the `Responses` message of member `i`: one genuine approval per other dealer, in some order -/
def GoodResps (c : Cfg F G) (i : Nat) (rs : List (DkgResp F G)) : Prop :=
  ∃ js : List Nat, js.Nodup ∧ (∀ j, j ∈ js ↔ j ∈ others c.n i) ∧ rs = js.map (fun j => ⟨j, some (c.resp j i 0)⟩)

structure LocalPre (c : Cfg F G) (ephs : List (List F)) (i : Nat) (m : Member F G)
    (st : Bool) (sp sd : List Nat) (sr : List (Nat × Nat))
    (gpk : Option (List (PkMsg G))) (gdl : Option (List (DkgDeal F G))) (grs : Option (List (DkgResp F G))) : Prop where
  hn : m.n = c.n
  hidx : m.index = i
  hlong : m.long = c.longs.getD i 0
  hf : m.f = c.polys.getD i []
  hephs : m.ephs = ephs.getD i []
  ppk : PairInv (GPk c i) keyPk (others c.n i) (c.n - 1) sp st (m.pkP, gpk)
  pdl : PairInv (GDl c i) keyDl (others c.n i) (c.n - 1) sd st (m.dlP, gdl)
  prs : PairInv (GRs c i) keyRs (respKeys c.n i) ((c.n - 1) * (c.n - 1)) sr st (m.rsP, grs)
  hsp : ∀ x ∈ sp, x ∈ others c.n i
  hsd : ∀ x ∈ sd, x ∈ others c.n i
  hsr : ∀ x ∈ sr, x ∈ respKeys c.n i
  hfail : stageRank m.stage ≠ 5
  hst : st = false ↔ stageRank m.stage = 0
  hpk : (stageRank m.stage ≤ 1 → m.pkBox = gpk) ∧ (2 ≤ stageRank m.stage → m.pkBox = none ∧ gpk.isSome = true)
  hdl : (stageRank m.stage ≤ 2 → m.dlBox = gdl) ∧ (3 ≤ stageRank m.stage → m.dlBox = none ∧ gdl.isSome = true)
  hrs : (stageRank m.stage ≤ 3 → m.rsBox = grs) ∧ (4 ≤ stageRank m.stage → m.rsBox = none ∧ grs.isSome = true)
  hwd : ∀ d, m.stage = .waitDeals d → HState c i (DOf i []) (ROf i []) (RDOf i []) d
  hwr : ∀ d, m.stage = .waitResps d → HState c i (DOf i (others c.n i)) (ROf i []) (RDOf i []) d
  hsent : (stageRank m.stage = 0 → m.sent = []) ∧
    (stageRank m.stage = 1 → m.sent = [Sent.pk (c.pkMsg i)]) ∧
    (stageRank m.stage = 2 → m.sent = Sent.pk (c.pkMsg i) :: sentDeals c ephs i) ∧
    (3 ≤ stageRank m.stage → ∃ rs, GoodResps c i rs ∧
      m.sent = Sent.pk (c.pkMsg i) :: sentDeals c ephs i ++ [Sent.resps rs])
  hreach : (∀ d, m.stage = .waitDeals d → HonestReach c i d) ∧ (∀ d, m.stage = .waitResps d → HonestReach c i d) ∧
    (∀ d ks, m.stage = .done d ks → HonestReach c i d ∧ distKeyShare d = .ok ks)

/-- no stage is waiting for a batch that has already been handed over -/
def Quiescent (m : Member F G) : Prop :=
  (stageRank m.stage = 1 → m.pkBox = none) ∧ (stageRank m.stage = 2 → m.dlBox = none) ∧
  (stageRank m.stage = 3 → m.rsBox = none)

/-! ### one stage transition each -/

def afterPk (m : Member F G) (d1 : Gen F G) (ds : List (Sent F G)) : Member F G :=
  { m with pkBox := none, stage := .waitDeals d1, lastGen := some d1, sent := m.sent ++ ds }
def afterDl (m : Member F G) (d1 : Gen F G) (rs : List (DkgResp F G)) : Member F G :=
  { m with dlBox := none, stage := .waitResps d1, lastGen := some d1, sent := m.sent ++ [Sent.resps rs] }
def afterRs (m : Member F G) (d1 : Gen F G) (ks : KeyShare F G) : Member F G :=
  { m with rsBox := none, stage := .done d1 ks, lastGen := some d1 }

theorem adv_pk (c : Cfg F G) (ephs : List (List F)) (hw : WellFormed c ephs) (i : Nat) (hi : i < c.n)
    (m : Member F G) (st : Bool) (sp sd : List Nat) (sr : List (Nat × Nat)) (gpk gdl grs)
    (h : LocalPre c ephs i m st sp sd sr gpk gdl grs) (hs : m.stage = .waitPk) (batch : List (PkMsg G))
    (hb : m.pkBox = some batch) (fuel : Nat) :
    ∃ m', Member.advance c.g (fuel + 1) m = Member.advance c.g fuel m' ∧ stageRank m'.stage = 2 ∧
      LocalPre c ephs i m' st sp sd sr gpk gdl grs := by
  have hrank : stageRank m.stage = 1 := by rw [hs]; rfl
  have hg : gpk = some batch := by rw [← h.hpk.1 (by omega)]; exact hb
  obtain ⟨hnd, hlen, hsub, _, hP, _⟩ := h.ppk.fired batch hg
  have hfull := nodup_full hnd hsub (by rw [List.length_map, hlen, length_others c.n i hi])
  obtain ⟨d0, hbg, hng⟩ := buildGen_genuine c ephs hw i hi batch hP hnd
    (fun j hj hji => hfull j ((mem_others c.n i j).2 ⟨hj, hji⟩))
  obtain ⟨d1, hdl, hst1⟩ := deals_genuine c ephs hw i hi d0 hng
  have hown : (⟨m.index, some (m.long • c.g), m.index⟩ : PkMsg G) = c.pkMsg i := by rw [h.hidx, h.hlong]; rfl
  refine ⟨afterPk m d1 (sentDeals c ephs i), ?_, rfl, ?_⟩
  · have hbg' : buildGen c.g m.n m.long m.f ⟨m.index, some (m.long • c.g), m.index⟩ batch = some d0 := by
      rw [hown, h.hn, h.hlong, h.hf]; exact hbg
    have hdl' := hdl
    rw [← h.hephs] at hdl'
    rw [Member.advance]
    simp only [hs, hb, hbg', hdl']
    rfl
  · have hstt : st = true := by
      cases st with
      | true => rfl
      | false => have := h.hst.1 rfl; omega
    refine ⟨h.hn, h.hidx, h.hlong, h.hf, h.hephs, h.ppk, h.pdl, h.prs, h.hsp, h.hsd, h.hsr, by simp [stageRank, afterPk, afterDl, afterRs],
      by simp [stageRank, afterPk, afterDl, afterRs, hstt], ?_, ?_, ?_, ?_, ?_, ?_, ?_⟩
    rotate_right
    · refine ⟨fun d hd => ?_, fun d hd => (by cases hd), fun d ks hd => (by cases hd)⟩
      injection hd with hd; rw [← hd]
      have hl : i < c.longs.length := hi
      have hp : i < c.polys.length := by rw [hw.polys_len]; exact hi
      exact HonestReach.init (c.longs.getD i 0) (c.polys.getD i []) (ephs.getD i []) d0 d1 _
        (by simp [List.getD_eq_getElem?_getD, hl]) (by simp [List.getD_eq_getElem?_getD, hp]) hng hdl
    · exact ⟨fun hh => by simp [stageRank, afterPk, afterDl, afterRs] at hh, fun _ => ⟨rfl, by rw [hg]; rfl⟩⟩
    · exact ⟨fun _ => h.hdl.1 (by omega), fun hh => by simp [stageRank, afterPk, afterDl, afterRs] at hh⟩
    · exact ⟨fun _ => h.hrs.1 (by omega), fun hh => by simp [stageRank, afterPk, afterDl, afterRs] at hh⟩
    · intro d hd; injection hd with hd; rw [← hd]; exact hst1
    · intro d hd; cases hd
    · refine ⟨fun hh => by simp [stageRank, afterPk, afterDl, afterRs] at hh, fun hh => by simp [stageRank, afterPk, afterDl, afterRs] at hh, fun _ => ?_, fun hh => by simp [stageRank, afterPk, afterDl, afterRs] at hh⟩
      show m.sent ++ sentDeals c ephs i = _
      rw [h.hsent.2.1 hrank]; rfl

theorem adv_dl (c : Cfg F G) (ephs : List (List F)) (hw : WellFormed c ephs) (i : Nat) (hi : i < c.n)
    (m : Member F G) (st : Bool) (sp sd : List Nat) (sr : List (Nat × Nat)) (gpk gdl grs)
    (h : LocalPre c ephs i m st sp sd sr gpk gdl grs) (d : Gen F G) (hs : m.stage = .waitDeals d)
    (batch : List (DkgDeal F G)) (hb : m.dlBox = some batch) (fuel : Nat) :
    ∃ m', Member.advance c.g (fuel + 1) m = Member.advance c.g fuel m' ∧ stageRank m'.stage = 3 ∧
      LocalPre c ephs i m' st sp sd sr gpk gdl grs := by
  have hrank : stageRank m.stage = 2 := by rw [hs]; rfl
  have hg : gdl = some batch := by rw [← h.hdl.1 (by omega)]; exact hb
  obtain ⟨hnd, hlen, hsub, _, hP, _⟩ := h.pdl.fired batch hg
  have hfull := nodup_full hnd hsub (by rw [List.length_map, hlen, length_others c.n i hi])
  obtain ⟨d', hrun, hst'⟩ := runDeals_genuine c ephs hw i hi batch [] d [] (h.hwd d hs)
    (fun x hx => (hP x hx).1) hnd (fun x hx => ⟨(hP x hx).2, by simp⟩)
  have hst2 : HState c i (DOf i (others c.n i)) (ROf i []) (RDOf i []) d' := by
    refine HState.congr ?_ (fun _ _ _ => Iff.rfl) (fun _ => Iff.rfl) hst'
    intro x
    simp only [DOf, List.nil_append]
    constructor
    · rintro (hx | hx)
      · exact Or.inl hx
      · exact Or.inr (hsub x hx)
    · rintro (hx | hx)
      · exact Or.inl hx
      · exact Or.inr (hfull x hx)
  refine ⟨afterDl m d' (batch.map (fun x => ⟨x.index, some (c.resp x.index i 0)⟩)), ?_, rfl, ?_⟩
  · rw [Member.advance]
    simp only [hs, hb, hrun, List.nil_append]
    rfl
  · have hstt : st = true := by
      cases st with
      | true => rfl
      | false => have := h.hst.1 rfl; omega
    refine ⟨h.hn, h.hidx, h.hlong, h.hf, h.hephs, h.ppk, h.pdl, h.prs, h.hsp, h.hsd, h.hsr, by simp [stageRank, afterPk, afterDl, afterRs],
      by simp [stageRank, afterPk, afterDl, afterRs, hstt], ?_, ?_, ?_, ?_, ?_, ?_, ?_⟩
    rotate_right
    · refine ⟨fun d hd => (by cases hd), fun d2 hd => ?_, fun d ks hd => (by cases hd)⟩
      injection hd with hd; rw [← hd]
      exact runDeals_reach c i batch d [] d' _ (h.hreach.1 d hs)
        (fun x hx => genuineFor_genuine c ephs hw i x (hP x hx).1) hrun
    · exact ⟨fun hh => by simp [stageRank, afterPk, afterDl, afterRs] at hh, fun _ => h.hpk.2 (by omega)⟩
    · exact ⟨fun hh => by simp [stageRank, afterPk, afterDl, afterRs] at hh, fun _ => ⟨rfl, by rw [hg]; rfl⟩⟩
    · exact ⟨fun _ => h.hrs.1 (by omega), fun hh => by simp [stageRank, afterPk, afterDl, afterRs] at hh⟩
    · intro d2 hd; cases hd
    · intro d2 hd; injection hd with hd; rw [← hd]; exact hst2
    · refine ⟨fun hh => by simp [stageRank, afterPk, afterDl, afterRs] at hh, fun hh => by simp [stageRank, afterPk, afterDl, afterRs] at hh, fun hh => by simp [stageRank, afterPk, afterDl, afterRs] at hh, fun _ => ?_⟩
      refine ⟨batch.map (fun x => ⟨x.index, some (c.resp x.index i 0)⟩),
        ⟨batch.map keyDl, hnd, fun j => ⟨fun hj => hsub j hj, fun hj => hfull j hj⟩, ?_⟩, ?_⟩
      · simp [List.map_map, keyDl, Function.comp_def]
      · show m.sent ++ _ = _
        rw [h.hsent.2.2.1 hrank]

theorem adv_rs (c : Cfg F G) (ephs : List (List F)) (hw : WellFormed c ephs) (i : Nat) (hi : i < c.n)
    (m : Member F G) (st : Bool) (sp sd : List Nat) (sr : List (Nat × Nat)) (gpk gdl grs)
    (h : LocalPre c ephs i m st sp sd sr gpk gdl grs) (d : Gen F G) (hs : m.stage = .waitResps d)
    (batch : List (DkgResp F G)) (hb : m.rsBox = some batch) (fuel : Nat) :
    ∃ m', Member.advance c.g (fuel + 1) m = m' ∧ stageRank m'.stage = 4 ∧
      LocalPre c ephs i m' st sp sd sr gpk gdl grs := by
  have hrank : stageRank m.stage = 3 := by rw [hs]; rfl
  have hg : grs = some batch := by rw [← h.hrs.1 (by omega)]; exact hb
  obtain ⟨hnd, hlen, hsub, _, hP, _⟩ := h.prs.fired batch hg
  have hfull := nodup_full hnd hsub (by rw [List.length_map, hlen, length_respKeys c.n i hi])
  have hf2 : List.Forall₂ (fun x (p : Nat × Nat) => GenuineRespMsg c x p.1 p.2) batch (batch.map keyRs) := by
    have : ∀ (l : List (DkgResp F G)), (∀ x ∈ l, GRs c i x) →
        List.Forall₂ (fun x (p : Nat × Nat) => GenuineRespMsg c x p.1 p.2) l (l.map keyRs) := by
      intro l
      induction l with
      | nil => intro _; exact List.Forall₂.nil
      | cons x xs ih =>
        intro hl
        obtain ⟨j, k, rnd, _, _, _, _, hx⟩ := hl x (by simp)
        refine List.Forall₂.cons ?_ (ih (fun y hy => hl y (by simp [hy])))
        rw [hx, keyRs_genuine]; exact ⟨rnd, rfl⟩
    exact this batch hP
  obtain ⟨d', hrun, hst'⟩ := runResps_genuine c i (others c.n i) batch (batch.map keyRs) [] d (h.hwr d hs) hf2 hnd (by
    intro p hp
    obtain ⟨h1, h2, h3, h4⟩ := (mem_respKeys c.n i p).1 (hsub p hp)
    refine ⟨h3, h1, ?_, h2, fun he => h4 he.symm, by simp⟩
    by_cases hpi : p.1 = i
    · exact Or.inl hpi
    · exact Or.inr ((mem_others c.n i p.1).2 ⟨h3, hpi⟩))
  obtain ⟨ks, hks⟩ := distKeyShare_full c ephs hw i _ _ _ d' hst'
    (by
      intro j hj
      by_cases hji : j = i
      · exact Or.inl hji
      · exact Or.inr ((mem_others c.n i j).2 ⟨hj, hji⟩))
    (by
      intro j k hj hk
      by_cases hki : k = i
      · exact Or.inl hki
      · by_cases hkj : k = j
        · exact Or.inr (Or.inl hkj)
        · refine Or.inr (Or.inr ?_)
          simp only [List.nil_append]
          exact hfull (j, k) ((mem_respKeys c.n i (j, k)).2 ⟨hk, hki, hj, fun he => hkj he.symm⟩))
  refine ⟨afterRs m d' ks, ?_, rfl, ?_⟩
  · rw [Member.advance]
    simp only [hs, hb, hrun, genGroup, hks]
    rfl
  · have hstt : st = true := by
      cases st with
      | true => rfl
      | false => have := h.hst.1 rfl; omega
    refine ⟨h.hn, h.hidx, h.hlong, h.hf, h.hephs, h.ppk, h.pdl, h.prs, h.hsp, h.hsd, h.hsr, by simp [stageRank, afterRs],
      by simp [stageRank, afterRs, hstt], ?_, ?_, ?_, ?_, ?_, ?_, ?_⟩
    rotate_right
    · refine ⟨fun d hd => (by cases hd), fun d hd => (by cases hd), fun d2 ks2 hd => ?_⟩
      injection hd with hd1 hd2; rw [← hd1, ← hd2]
      exact ⟨runResps_reach c i batch d d' true (h.hreach.2.1 d hs) hrun, hks⟩
    · exact ⟨fun hh => by simp [stageRank, afterRs] at hh, fun _ => h.hpk.2 (by omega)⟩
    · exact ⟨fun hh => by simp [stageRank, afterRs] at hh, fun _ => h.hdl.2 (by omega)⟩
    · exact ⟨fun hh => by simp [stageRank, afterRs] at hh, fun _ => ⟨rfl, by rw [hg]; rfl⟩⟩
    · intro d2 hd; cases hd
    · intro d2 hd; cases hd
    · refine ⟨fun hh => by simp [stageRank, afterRs] at hh, fun hh => by simp [stageRank, afterRs] at hh,
        fun hh => by simp [stageRank, afterRs] at hh, fun _ => ?_⟩
      exact h.hsent.2.2.2 (by omega)

/-- **`advance` runs every stage whose batch has been handed over, successfully** -/
theorem advance_local (c : Cfg F G) (ephs : List (List F)) (hw : WellFormed c ephs) (i : Nat) (hi : i < c.n)
    (st : Bool) (sp sd : List Nat) (sr : List (Nat × Nat)) (gpk gdl grs) :
    ∀ (fuel : Nat) (m : Member F G), LocalPre c ephs i m st sp sd sr gpk gdl grs →
      LocalPre c ephs i (Member.advance c.g fuel m) st sp sd sr gpk gdl grs ∧
      (5 ≤ stageRank m.stage + fuel → Quiescent (Member.advance c.g fuel m)) := by
  intro fuel
  induction fuel with
  | zero =>
    intro m h
    refine ⟨by simpa [Member.advance] using h, fun hq => ?_⟩
    have := h.hfail
    simp only [Nat.add_zero] at hq
    have h4 : stageRank m.stage = 4 := by
      have : stageRank m.stage ≤ 5 := by cases m.stage <;> simp [stageRank]
      omega
    simp only [Member.advance]
    exact ⟨fun hh => by omega, fun hh => by omega, fun hh => by omega⟩
  | succ fuel ih =>
    intro m h
    rcases hs : m.stage with _ | _ | d | d | ⟨d, ks⟩ | why
    · -- idle
      have : Member.advance c.g (fuel + 1) m = m := by rw [Member.advance]; simp [hs]
      rw [this]
      exact ⟨h, fun _ => ⟨fun hh => by simp [hs, stageRank] at hh, fun hh => by simp [hs, stageRank] at hh,
        fun hh => by simp [hs, stageRank] at hh⟩⟩
    · -- waitPk
      rcases hb : m.pkBox with _ | batch
      · have : Member.advance c.g (fuel + 1) m = m := by rw [Member.advance]; simp [hs, hb]
        rw [this]
        exact ⟨h, fun _ => ⟨fun _ => hb, fun hh => by simp [hs, stageRank] at hh, fun hh => by simp [hs, stageRank] at hh⟩⟩
      · obtain ⟨m', he, hr, hp⟩ := adv_pk c ephs hw i hi m st sp sd sr gpk gdl grs h hs batch hb fuel
        rw [he]
        obtain ⟨i1, i2⟩ := ih m' hp
        exact ⟨i1, fun hq => i2 (by simp only [hs, stageRank] at hq; omega)⟩
    · -- waitDeals
      rcases hb : m.dlBox with _ | batch
      · have : Member.advance c.g (fuel + 1) m = m := by rw [Member.advance]; simp [hs, hb]
        rw [this]
        exact ⟨h, fun _ => ⟨fun hh => by simp [hs, stageRank] at hh, fun _ => hb, fun hh => by simp [hs, stageRank] at hh⟩⟩
      · obtain ⟨m', he, hr, hp⟩ := adv_dl c ephs hw i hi m st sp sd sr gpk gdl grs h d hs batch hb fuel
        rw [he]
        obtain ⟨i1, i2⟩ := ih m' hp
        exact ⟨i1, fun hq => i2 (by simp only [hs, stageRank] at hq; omega)⟩
    · -- waitResps
      rcases hb : m.rsBox with _ | batch
      · have : Member.advance c.g (fuel + 1) m = m := by rw [Member.advance]; simp [hs, hb]
        rw [this]
        exact ⟨h, fun _ => ⟨fun hh => by simp [hs, stageRank] at hh, fun hh => by simp [hs, stageRank] at hh, fun _ => hb⟩⟩
      · obtain ⟨m', he, hr, hp⟩ := adv_rs c ephs hw i hi m st sp sd sr gpk gdl grs h d hs batch hb fuel
        rw [he]
        exact ⟨hp, fun _ => ⟨fun hh => by omega, fun hh => by omega, fun hh => by omega⟩⟩
    · -- done
      have : Member.advance c.g (fuel + 1) m = m := by rw [Member.advance]; simp [hs]
      rw [this]
      exact ⟨h, fun _ => ⟨fun hh => by simp [hs, stageRank] at hh, fun hh => by simp [hs, stageRank] at hh,
        fun hh => by simp [hs, stageRank] at hh⟩⟩
    · exact absurd (by rw [hs]; rfl) h.hfail

end Dos.Dkg

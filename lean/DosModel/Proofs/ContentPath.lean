/-
Helper lemma for Props/C07.lean (round 4): what one node reports is the strip of the content it
signed, for every sequence of peer messages – derived from the stage invariants of Proofs/Query.lean.
-/
import DosModel.Proofs.Query

namespace Dos.Query
open Dos Dos.Content

/-- every report of `handleQuery` carries the own content `c0` minus its last `a` bytes, and `c0`
has at least `a` bytes -/
theorem report_is_strip (C : Crypto) (p a : Nat) (mb : Member) (r : Request) (fc : List (Option Msg))
    (c0 : Bytes) (hc0 : contentFor p r mb.me = some c0) :
    ∀ rep ∈ (handleQuery C p a mb r fc).reports, a ≤ c0.length ∧ rep.result = c0.take (c0.length - a) := by
  intro rep hrep
  unfold handleQuery at hrep
  cases hs : submitter mb.ids r.last with
  | none => simp [hs] at hrep
  | some sub =>
    simp only [hs] at hrep
    by_cases hme : mb.me ≠ sub
    · simp [hme] at hrep
    · have hsub : mb.me = sub := by simpa using hme
      subst hsub
      simp only [ne_eq, not_true_eq_false, if_false, hc0, Option.map_some] at hrep
      have hrep' := List.mem_of_mem_take hrep
      unfold recoverStage at hrep'
      rw [List.foldl_cons] at hrep'
      have hown := own_fold C (threshold mb.ids.length) a fc (r.kind.ptype, c0) _
        (first_own C (threshold mb.ids.length) a r.kind.ptype r.ridBytes c0 (mb.signOwn c0))
      have hsafe := safe_fold C (threshold mb.ids.length) a fc _
        (safe_step C (threshold mb.ids.length) a _
          (some ⟨r.kind.ptype, r.ridBytes, some c0, some (mb.signOwn c0)⟩) (safe_init C a))
      obtain ⟨c, hc, _, hal, hres⟩ := hsafe.reports rep hrep'
      rw [hown] at hc
      simp only [Option.some.injEq, Prod.mk.injEq] at hc
      obtain ⟨_, hcc⟩ := hc
      subst hcc
      exact ⟨hal, hres⟩

end Dos.Query

import DosModel.Model.Codec
/-
Line-protocol driver for C11: maps every case line of go/props/c11 to the output the MODEL
(`Model/Codec.lean` over `Model/Bn256.lean`) predicts for the real code.
-/
open Dos Dos.Bn256 Dos.Codec

namespace Dos.DrvC11

/-- the harness builds scalars with `Scalar().SetBytes(k mod 2^256)`, which reduces mod r -/
def sc (k : Nat) : Nat := (k % 2 ^ 256) % r

def showDec (m : α → Bytes) (o : Out α) : String := showOut (fun v => toHex (m v)) o

def b2s (b : Bool) : String := if b then "1" else "0"

def g1of (k : Nat) : G1 := G1.smul (sc k) g1gen
def g2of (k : Nat) : G2 := G2.smul (sc k) g2gen

def elemLine1 (P : G1) : String :=
  let enc := marshalG1 P
  let rt := match unmarshalG1 enc with
    | .ok Q => Q == P && marshalG1 Q == enc
    | _ => false
  s!"ok {toHex enc} rt={b2s rt} st={formOf1 (unmarshalG1Rep ⟨0, 0, 0, 0⟩ enc).1}"

def elemLine2 (P : G2) : String :=
  let enc := marshalG2 P
  let rt := match unmarshalG2 enc with
    | .ok Q => Q == P && marshalG2 Q == enc
    | _ => false
  s!"ok {toHex enc} rt={b2s rt} st={formOf2 (unmarshalG2Rep ⟨(0, 0), (0, 0), (0, 0), (0, 0)⟩ enc).1}"

/-- a receiver full of junk: the representation-level decoders are run on it, so a decoder that kept a field of
the receiver would show (`st=x`) -/
def junk1 : Rep1 := ⟨7, 7, 7, 7⟩
def junk2 : Rep2 := ⟨(7, 7), (7, 7), (7, 7), (7, 7)⟩

def sameOutcome (a : Out α) (b : Out Unit) : Bool :=
  match a, b with
  | .ok _, .ok _ => true
  | .err e, .err e' => e == e'
  | .panic _, .panic _ => true
  | _, _ => false

/-- a decode of G1 bytes: outcome and re-encoding by the affine model, form of the object left in the receiver by
the representation-level model (`st=`), and what computing with the decoded element gives (`u=` enc(3·Q + B)) -/
def decLine1 (b : Bytes) : String :=
  let o := unmarshalG1 b
  let r := unmarshalG1Rep junk1 b
  if !sameOutcome o r.2 then "model-inconsistent" else
  match o with
  | .ok P => s!"ok {toHex (marshalG1 P)} st={formOf1 r.1} u={toHex (marshalG1 (G1.add (G1.smul 3 P) g1gen))}"
  | o => showDec marshalG1 o

def decLine2 (b : Bytes) : String :=
  let o := unmarshalG2 b
  let r := unmarshalG2Rep junk2 b
  if !sameOutcome o r.2 then "model-inconsistent" else
  match o with
  | .ok P => s!"ok {toHex (marshalG2 P)} st={formOf2 r.1} u={toHex (marshalG2 (G2.add (G2.smul 3 P) g2gen))}"
  | o => showDec marshalG2 o

def decLineT (b : Bytes) : String :=
  let o := unmarshalGT b
  let r := unmarshalGTRep [] b
  if !sameOutcome o r.2 then "model-inconsistent" else showDec marshalGT o

def fromLine1 (b : Bytes) : String :=
  let (n, o) := unmarshalFrom 64 unmarshalG1 b
  match o with
  | .ok _ => s!"n={n} {decLine1 (b.take n)}"
  | o => s!"n={n} {showDec marshalG1 o}"

def fromLine2 (b : Bytes) : String :=
  let (n, o) := unmarshalFromG2 b
  match o with
  | .ok _ => s!"n={n} {decLine2 (b.take n)}"
  | o => s!"n={n} {showDec marshalG2 o}"

def fromLineT (b : Bytes) : String :=
  let (n, o) := unmarshalFrom 384 unmarshalGT b
  s!"n={n} {showDec marshalGT o}"

/-! expressions of the `rep` / `par` cases (reverse Polish, see go/props/c11/chain.go) -/

def evalTok1 (st : List G1) (tok : String) : Option (List G1) :=
  let arg := (tok.drop 1).toString.toNat?
  match tok.toList.head?, st with
  | some 'b', st => some (g1gen :: st)
  | some 'o', st => some (.inf :: st)
  | some 'k', st => arg.map fun k => g1of k :: st
  | some '+', b :: a :: st => some (G1.add a b :: st)
  | some '-', b :: a :: st => some (G1.add a (G1.neg b) :: st)
  | some 'n', a :: st => some (G1.neg a :: st)
  | some 'd', a :: st => some (G1.add a a :: st)
  | some 'm', a :: st => arg.map fun k => G1.smul (sc k) a :: st
  | some 'c', a :: st => match unmarshalG1 (marshalG1 a) with   -- Clone = decode(encode)
    | .ok q => some (q :: st)
    | _ => none
  | some 's', a :: st => some (a :: st)
  | _, _ => none

def evalTok2 (st : List G2) (tok : String) : Option (List G2) :=
  let arg := (tok.drop 1).toString.toNat?
  match tok.toList.head?, st with
  | some 'b', st => some (g2gen :: st)
  | some 'o', st => some (.inf :: st)
  | some 'k', st => arg.map fun k => g2of k :: st
  | some '+', b :: a :: st => some (G2.add a b :: st)
  | some '-', b :: a :: st => some (G2.add a (G2.neg b) :: st)
  | some 'n', a :: st => some (G2.neg a :: st)
  | some 'd', a :: st => some (G2.add a a :: st)
  | some 'm', a :: st => arg.map fun k => G2.smul (sc k) a :: st
  | some 'c', a :: st => match unmarshalG2 (marshalG2 a) with
    | .ok q => some (q :: st)
    | _ => none
  | some 's', a :: st => some (a :: st)
  | _, _ => none

/-- GT elements are decided in the dlog representation: e(aG1, bG2) = gT^(ab), Base = gT -/
def evalTokT (st : List Nat) (tok : String) : Option (List Nat) :=
  let body := (tok.drop 1).toString
  match tok.toList.head?, st with
  | some 'b', st => some (1 :: st)
  | some 'o', st => some (0 :: st)
  | some 'k', st => body.toNat?.map fun k => sc k :: st
  | some 'p', st => match body.splitOn ":" with
    | [a, b] => match a.toNat?, b.toNat? with
      | some a, some b => some ((sc a * sc b) % r :: st)
      | _, _ => none
    | _ => none
  | some '+', b :: a :: st => some ((a + b) % r :: st)
  | some '-', b :: a :: st => some ((a + (r - b % r)) % r :: st)
  | some 'n', a :: st => some ((r - a % r) % r :: st)
  | some 'd', a :: st => some ((a + a) % r :: st)
  | some 'm', a :: st => body.toNat?.map fun k => (a * sc k) % r :: st
  | some 'c', a :: st => some (a :: st)
  | some 's', a :: st => some (a :: st)
  | _, _ => none

def evalExpr (f : List α → String → Option (List α)) (e : String) : Option α :=
  match (e.splitOn ",").foldl (fun st tok => st.bind fun s => f s tok) (some []) with
  | some [v] => some v
  | _ => none

def strmLine (enc tail : Bytes) (res : Nat × String) : String :=
  let total := enc.length + tail.length
  s!"wrote={enc.length} n={res.1} {res.2} left={total - res.1}"

def step (line : String) : String :=
  match words line with
  | ["g1dec", hs] => match ofHex hs with
    | some b => decLine1 b
    | none => "bad-op"
  | ["g2dec", hs] => match ofHex hs with
    | some b => decLine2 b
    | none => "bad-op"
  | ["gtdec", hs] => match ofHex hs with
    | some b => decLineT b
    | none => "bad-op"
  | ["scdec", hs] => match ofHex hs with
    | some b => match unmarshalScalar b with
      | .ok v => showOut toHex (marshalScalar v)
      | .err e => "err " ++ errName e
      | .panic s => "panic " ++ s
    | none => "bad-op"
  | ["scenc", ks] => match ks.toNat? with
    | some k =>
      let s := sc k
      match marshalScalar s with
      | .ok enc =>
        let rt := match unmarshalScalar enc with
          | .ok v => v == s
          | _ => false
        s!"ok {toHex enc} rt={b2s rt}"
      | .err e => "err " ++ errName e
      | .panic st => "panic " ++ st
    | none => "bad-op"
  -- the repaired decoders do not look at the receiver: same answer as a fresh decode
  | ["g1into", _, hs] => match ofHex hs with
    | some b => decLine1 b
    | none => "bad-op"
  | ["g2into", _, hs] => match ofHex hs with
    | some b => decLine2 b
    | none => "bad-op"
  | ["gtinto", _, hs] => match ofHex hs with
    | some b => decLineT b
    | none => "bad-op"
  | ["g1mul", ks] => match ks.toNat? with
    | some k => elemLine1 (g1of k)
    | none => "bad-op"
  | ["g2mul", ks] => match ks.toNat? with
    | some k => elemLine2 (g2of k)
    | none => "bad-op"
  | ["g1add", a, b] => match a.toNat?, b.toNat? with
    | some a, some b => elemLine1 (G1.add (g1of a) (g1of b))
    | _, _ => "bad-op"
  | ["g1sub", a, b] => match a.toNat?, b.toNat? with
    | some a, some b => elemLine1 (G1.add (g1of a) (G1.neg (g1of b)))
    | _, _ => "bad-op"
  | ["g1neg", a] => match a.toNat? with
    | some a => elemLine1 (G1.neg (g1of a))
    | none => "bad-op"
  | ["g2add", a, b] => match a.toNat?, b.toNat? with
    | some a, some b => elemLine2 (G2.add (g2of a) (g2of b))
    | _, _ => "bad-op"
  | ["g2sub", a, b] => match a.toNat?, b.toNat? with
    | some a, some b => elemLine2 (G2.add (g2of a) (G2.neg (g2of b)))
    | _, _ => "bad-op"
  | ["g2neg", a] => match a.toNat? with
    | some a => elemLine2 (G2.neg (g2of a))
    | none => "bad-op"
  | ["g1eq", a, b, c, d] => match a.toNat?, b.toNat?, c.toNat?, d.toNat? with
    | some a, some b, some c, some d =>
      let P := G1.add (g1of a) (g1of b)
      let Q := G1.add (g1of c) (g1of d)
      s!"eq={b2s (P == Q)} enc={b2s (marshalG1 P == marshalG1 Q)}"
    | _, _, _, _ => "bad-op"
  | ["g2eq", a, b, c, d] => match a.toNat?, b.toNat?, c.toNat?, d.toNat? with
    | some a, some b, some c, some d =>
      let P := G2.add (g2of a) (g2of b)
      let Q := G2.add (g2of c) (g2of d)
      s!"eq={b2s (P == Q)} enc={b2s (marshalG2 P == marshalG2 Q)}"
    | _, _, _, _ => "bad-op"
  -- one receiver through a sequence of states: the model's decoders do not look at the receiver
  | ["seq", g, steps] =>
    let outs := (steps.splitOn ",").filterMap fun st =>
      let body := (st.drop 1).toString
      match st.toList.head?, ofHex body with
      | some 'd', some b =>
        some (match g with
          | "g1" => decLine1 b
          | "g2" => decLine2 b
          | _ => decLineT b)
      | some 'f', some b =>
        some (match g with
          | "g1" => fromLine1 b
          | "g2" => fromLine2 b
          | _ => fromLineT b)
      | _, _ => none
    String.intercalate ";" outs
  -- GT elements are pairing values e(aG1,bG2) = gT^(ab): decided in the dlog representation
  | ["gteq", a, b, c, d] => match a.toNat?, b.toNat?, c.toNat?, d.toNat? with
    | some a, some b, some c, some d =>
      let e := (sc a * sc b) % r == (sc c * sc d) % r
      s!"eq={b2s e} enc={b2s e}"
    | _, _, _, _ => "bad-op"
  | ["g1strm", ks, ts] => match ks.toNat?, ofHex ts with
    | some k, some tail =>
      let enc := marshalG1 (g1of k)
      let (n, o) := unmarshalFrom 64 unmarshalG1 (enc ++ tail)
      strmLine enc tail (n, match o with
        | .ok _ => decLine1 ((enc ++ tail).take n)
        | o => showDec marshalG1 o)
    | _, _ => "bad-op"
  | ["g2strm", ks, ts] => match ks.toNat?, ofHex ts with
    | some k, some tail =>
      let enc := marshalG2 (g2of k)
      let (n, o) := unmarshalFromG2 (enc ++ tail)
      strmLine enc tail (n, match o with
        | .ok _ => decLine2 ((enc ++ tail).take n)
        | o => showDec marshalG2 o)
    | _, _ => "bad-op"
  | ["g1from", hs] => match ofHex hs with
    | some b => fromLine1 b
    | none => "bad-op"
  | ["g2from", hs] => match ofHex hs with
    | some b => fromLine2 b
    | none => "bad-op"
  | ["gtfrom", hs] => match ofHex hs with
    | some b => fromLineT b
    | none => "bad-op"
  -- two representatives: decided on the elements (the affine model has one value per element)
  | ["g1rep", e1, e2] => match evalExpr evalTok1 e1, evalExpr evalTok1 e2 with
    | some P, some Q =>
      let e := b2s (equalG1 P Q)
      s!"eq={e} qe={b2s (equalG1 Q P)} enc={b2s (marshalG1 P == marshalG1 Q)} e1={toHex (marshalG1 P)} e2={toHex (marshalG1 Q)}"
    | _, _ => "bad-op"
  | ["g2rep", e1, e2] => match evalExpr evalTok2 e1, evalExpr evalTok2 e2 with
    | some P, some Q =>
      let e := b2s (equalG2 P Q)
      s!"eq={e} qe={b2s (equalG2 Q P)} enc={b2s (marshalG2 P == marshalG2 Q)} e1={toHex (marshalG2 P)} e2={toHex (marshalG2 Q)}"
    | _, _ => "bad-op"
  | ["gtrep", e1, e2] => match evalExpr evalTokT e1, evalExpr evalTokT e2 with
    | some a, some b => let e := b2s (a == b); s!"eq={e} qe={e} enc={e}"
    | _, _ => "bad-op"
  -- a history of Equal calls: every answer is the equality of the two elements (`Equal` keeps no state)
  | ["eqh", g, hist] =>
    let one (pr : String) : Option String :=
      match pr.splitOn "=" with
      | [e1, e2] =>
        match g with
        | "g1" => match evalExpr evalTok1 e1, evalExpr evalTok1 e2 with
          | some P, some Q => some s!"{b2s (equalG1 P Q)}{b2s (equalG1 Q P)}{b2s (marshalG1 P == marshalG1 Q)}"
          | _, _ => none
        | "g2" => match evalExpr evalTok2 e1, evalExpr evalTok2 e2 with
          | some P, some Q => some s!"{b2s (equalG2 P Q)}{b2s (equalG2 Q P)}{b2s (marshalG2 P == marshalG2 Q)}"
          | _, _ => none
        | _ => none
      | _ => none
    match (hist.splitOn ";").mapM one with
    | some outs => ";".intercalate outs
    | none => "bad-op"
  -- one shared object, n goroutines: every answer is the element's (the model is pure)
  | ["par", "g1", e, _, _] => match evalExpr evalTok1 e with
    | some P => s!"enc={toHex (marshalG1 P)} bad=0"
    | none => "bad-op"
  | ["par", "g2", e, _, _] => match evalExpr evalTok2 e with
    | some P => s!"enc={toHex (marshalG2 P)} bad=0"
    | none => "bad-op"
  | ["par", "gt", e, _, _] => match evalExpr evalTokT e with
    | some _ => "bad=0"
    | none => "bad-op"
  | _ => "bad-op"

end Dos.DrvC11

/-- all case lines are read first and evaluated as parallel tasks (a scalar multiplication of the
affine model costs ≈ 75 ms); output order = input order -/
partial def readLines (h : IO.FS.Stream) (acc : Array String) : IO (Array String) := do
  let line ← h.getLine
  if line.isEmpty then return acc
  let l := (line.trimAsciiEnd).toString
  if l.isEmpty then readLines h acc else readLines h (acc.push l)

def main : IO Unit := do
  let stdin ← IO.getStdin
  let lines ← readLines stdin #[]
  let tasks := lines.map (fun l => Task.spawn (fun _ => Dos.DrvC11.step l))
  let out ← IO.getStdout
  for t in tasks do
    out.putStrLn t.get
  out.flush

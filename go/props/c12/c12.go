// Package c12: no peer message, event field or fetched document can crash the node.
//
// Every case line is executed on the REAL code in a child process (most entry
// points spawn goroutines; a panic there cannot be recovered by the caller and
// kills the process — the child's death, its stderr and the topmost repository
// frame of the panicking goroutine are the observation).  The parent keeps one
// child alive and restarts it when it dies.
//
// Output line per case = outcome class(es) `ok … | err <kind> | dropped | panic <fn>`,
// compared byte for byte with the Lean driver (drv_c12).  Direct oracle (independent of
// the model): no panic, no hang, and the handler/loop still serves a following valid message.
package c12

import (
	"bufio"
	"bytes"
	"fmt"
	"io"
	"os"
	"os/exec"
	"regexp"
	"runtime"
	"strings"
	"sync"
	"syscall"
	"time"

	"verifharness/internal/h"
)

func init() {
	if os.Getenv("C12_CHILD") == "1" {
		childMain()
		os.Exit(0)
	}
	h.Register(&h.Prop{
		ID:   "C12",
		Rule: "cases: per entry point (sess xpub gdkg dkgs stage dpk tobig qloop rsign subm b32 crseed chain chainraw bootips dec dpipe rid disp conn conns mdisp listen serf inv) structured messages with every field nil/empty/short/long/identity/out-of-range singly (quick) and in pairs (thorough), each followed by a valid message to the same handler; fz* = arbitrary bytes to the packet decoder, the handshake, sealed deal plaintexts, share sets and documents/selectors to dataParse (oracle only: no panic, no hang); non-trivial = at least one field of the case is not the honest value (or the line is a fuzz case); distinct = distinct case line",
		Gen:  gen,
		Exec: execParent,
	})
}

// ---------------------------------------------------------------- child process

const marker = "\x01C12\x02"

// childMain: read case lines on stdin, run them on the real code, answer on the ORIGINAL
// stdout (fd 1 is redirected to /dev/null first: the repository prints progress with fmt.Println).
func childMain() {
	fd, err := syscall.Dup(1)
	if err != nil {
		fmt.Fprintln(os.Stderr, "c12 child: dup:", err)
		os.Exit(3)
	}
	out := os.NewFile(uintptr(fd), "result")
	if dn, err := os.OpenFile(os.DevNull, os.O_WRONLY, 0); err == nil {
		syscall.Dup2(int(dn.Fd()), 1)
		os.Stdout = dn
	}
	os.MkdirAll("vault", 0o755)
	sc := bufio.NewScanner(os.Stdin)
	sc.Buffer(make([]byte, 1<<20), 1<<28)
	for sc.Scan() {
		line := strings.TrimRight(sc.Text(), "\r\n")
		if line == "" {
			continue
		}
		impl, oracle := safeLocal(line)
		// a stage goroutine that is panicking closes its channels (deferred) before the process dies:
		// leave it the time to die, so that the crash is attributed to this case and not to the next
		switch op := strings.Fields(line)[0]; {
		case strings.Contains(impl, "dropped") && (op == "gdkg" || op == "xpub" || op == "stage" || op == "rsign"):
			time.Sleep(25 * time.Millisecond)
		case op == "rid" || op == "rsign" || op == "listen" || op == "dpipe" || op == "qloop" || op == "gdkg" || op == "xpub" || op == "stage" || strings.HasPrefix(op, "fz"):
			time.Sleep(2 * time.Millisecond)
		}
		fmt.Fprintf(out, "%s%s\t%s\n", marker, impl, oracle)
	}
}

// safeLocal runs one case in this process; a panic on the calling goroutine is recovered
// and attributed to the topmost repository frame.
func safeLocal(line string) (impl, oracle string) {
	defer func() {
		if e := recover(); e != nil {
			fn := topRepoFrameFromCallers()
			impl = "panic " + fn
			oracle = fmt.Sprintf("panic-in-%s: %s", fn, h.OneLine(fmt.Sprint(e)))
		}
	}()
	return execLocal(line)
}

var pkgName = map[string]string{
	"github.com/DOSNetwork/core/share/dkg/pedersen": "dkg",
	"github.com/DOSNetwork/core/share/vss/pedersen": "vss",
	"github.com/DOSNetwork/core/share":              "share",
	"github.com/DOSNetwork/core/sign/tbls":          "tbls",
	"github.com/DOSNetwork/core/p2p":                "p2p",
	"github.com/DOSNetwork/core/p2p/discover":       "discover",
	"github.com/DOSNetwork/core/dosnode":            "dosnode",
	"github.com/DOSNetwork/core/onchain":            "onchain",
}

var frameRe = regexp.MustCompile(`^(github\.com/DOSNetwork/core/[A-Za-z0-9_/]+)\.(.+)$`)

// normFrame turns a runtime function name into the inventory's naming (pkg.Recv.Method / pkg.Func),
// "" if the frame is not in one of the anchored packages.
func normFrame(fn string) string {
	fn = strings.TrimSpace(fn)
	if strings.HasSuffix(fn, ")") { // stack dump: name(args) – the argument list is the last parenthesised group
		if i := strings.LastIndex(fn, "("); i > 0 && !strings.HasSuffix(fn[:i], ".") {
			fn = fn[:i]
		}
	}
	m := frameRe.FindStringSubmatch(fn)
	if m == nil {
		return ""
	}
	pk, ok := pkgName[m[1]]
	if !ok {
		return ""
	}
	rest := m[2]
	rest = strings.NewReplacer("(*", "", ")", "").Replace(rest)
	// closures: f.func1, f.func1.2, f.gowrap1 …
	parts := strings.Split(rest, ".")
	var keep []string
	for _, p := range parts {
		if strings.HasPrefix(p, "func") || strings.HasPrefix(p, "gowrap") || (len(p) > 0 && p[0] >= '0' && p[0] <= '9') {
			break
		}
		keep = append(keep, p)
	}
	if len(keep) == 0 {
		return ""
	}
	if last := keep[len(keep)-1]; strings.HasPrefix(last, "Verif") && len(last) > 5 && last[5] >= 'A' && last[5] <= 'Z' {
		return "" // a verification hook (VerifXxx), not repository code
	}
	return pk + "." + strings.Join(keep, ".")
}

func topRepoFrameFromCallers() string {
	pc := make([]uintptr, 64)
	n := runtime.Callers(3, pc)
	frames := runtime.CallersFrames(pc[:n])
	for {
		f, more := frames.Next()
		if fn := normFrame(f.Function); fn != "" {
			return fn
		}
		if !more {
			break
		}
	}
	return "unknown"
}

// topRepoFrameFromDump: first anchored-package frame of the first goroutine in a crash dump.
func topRepoFrameFromDump(dump string) string {
	i := strings.Index(dump, "\ngoroutine ")
	if i < 0 {
		return "unknown"
	}
	for _, l := range strings.Split(dump[i+1:], "\n")[1:] {
		if l == "" {
			break
		}
		if strings.HasPrefix(l, "\t") || strings.HasPrefix(l, "created by") {
			continue
		}
		if fn := normFrame(l); fn != "" {
			return fn
		}
	}
	return "unknown"
}

// ---------------------------------------------------------------- parent side

type child struct {
	cmd    *exec.Cmd
	in     io.WriteCloser
	out    *bufio.Reader
	errBuf *tailBuf
	lines  chan string
}

type tailBuf struct {
	mu sync.Mutex
	b  []byte
}

func (t *tailBuf) Write(p []byte) (int, error) {
	t.mu.Lock()
	t.b = append(t.b, p...)
	if len(t.b) > 1<<18 {
		t.b = t.b[len(t.b)-1<<17:]
	}
	t.mu.Unlock()
	return len(p), nil
}
func (t *tailBuf) String() string { t.mu.Lock(); defer t.mu.Unlock(); return string(t.b) }

var cur *child

var hangs = map[string]int{}

func startChild() *child {
	c := &child{errBuf: &tailBuf{}, lines: make(chan string, 4)}
	c.cmd = exec.Command(os.Args[0], "exec", "C12")
	c.cmd.Env = append(os.Environ(), "C12_CHILD=1", "GOTRACEBACK=single")
	c.cmd.Stderr = c.errBuf
	var err error
	if c.in, err = c.cmd.StdinPipe(); err != nil {
		panic(err)
	}
	so, err := c.cmd.StdoutPipe()
	if err != nil {
		panic(err)
	}
	if err := c.cmd.Start(); err != nil {
		panic(err)
	}
	c.out = bufio.NewReaderSize(so, 1<<20)
	go func() {
		for {
			l, err := c.out.ReadString('\n')
			if strings.HasPrefix(l, marker) {
				c.lines <- strings.TrimRight(l[len(marker):], "\n")
			}
			if err != nil {
				close(c.lines)
				return
			}
		}
	}()
	return c
}

func (c *child) kill() {
	c.in.Close()
	c.cmd.Process.Kill()
	c.cmd.Wait()
}

var panicLineRe = regexp.MustCompile(`(?m)^(panic: .*|fatal error: .*)$`)

func caseTimeout(line string) time.Duration {
	if strings.HasPrefix(line, "fzparse") {
		return 5 * time.Second
	}
	if strings.HasPrefix(line, "fzloop") {
		return 100 * time.Second
	}
	return 60 * time.Second
}

// execParent: a hang verdict is a wall-clock verdict, and wall-clock verdicts turn machine load into alarms
// (review G #8: a `conns` line that takes 3 s alone got no answer within 60 s at load average 35). So a line
// that got no answer is run a second time, alone in a fresh child, before anything is reported; only the
// selector blow-ups that are known findings (5 s each, they hang by construction) are not retried.
func execParent(line string) (res h.Result) {
	res = execParentOnce(line)
	timing := false // verdicts that rest on a deadline: no answer, no round trip, loop not taking, CPU probe
	for _, p := range []string{"hang-", "not-serving-", "stuck-", "spin-"} {
		timing = timing || strings.HasPrefix(res.Oracle, p)
	}
	if timing && !strings.Contains(res.Oracle, "not run:") &&
		!strings.HasPrefix(res.Oracle, "hang-selector-blowup") && !strings.HasPrefix(res.Oracle, "hang-xpath-ancestor-axis") {
		op := strings.Fields(line)[0]
		if res.Impl == "hang" || strings.HasPrefix(res.Oracle, "hang-") {
			hangs[op]-- // the verdict of the first attempt is withdrawn
		}
		first := res.Oracle
		if cur != nil { // alone in a fresh process
			cur.kill()
			cur = nil
		}
		res = execParentOnce(line)
		if res.Oracle != "" {
			res.Oracle += " [second attempt, alone in a fresh process; first: " + h.OneLine(first) + "]"
		}
	}
	return
}

func execParentOnce(line string) (res h.Result) {
	defer func() {
		// fz* cases have no model: the compared line is constant, the observation is in the oracle and the class
		if strings.HasPrefix(line, "fz") {
			res.Impl = "nopanic"
		}
		// a payload with a nil *big.Int field handed to onchainLoop by the chain double: outside what the chain side
		// can deliver (the ABI decoder fills every integer; theorem translated_events_wellformed). The handlers have no
		// nil checks, the model says so, and these cases only confirm that model and code agree on WHERE it breaks.
		if strings.HasPrefix(line, "chain ") && strings.Contains(line, "nil") {
			res.Oracle = ""
			res.Class = "chain-nilfield"
		}
	}()
	op := strings.Fields(line)[0]
	res.Class = op
	res.Nontrivial = nontrivial(line)
	// fail fast: an entry point that hung three times in this run is not waited for again
	if hangs[op] >= 3 && !strings.HasPrefix(op, "fzparse") {
		res.Impl = "hang"
		res.Oracle = fmt.Sprintf("hang-%s: not run: this entry point already hung %d times in this run", op, hangs[op])
		res.Class = op + "-hang"
		return
	}
	defer func() {
		if res.Impl == "hang" || strings.HasPrefix(res.Oracle, "hang-") {
			hangs[op]++
		}
	}()
	if cur == nil {
		cur = startChild()
	}
	if _, err := io.WriteString(cur.in, line+"\n"); err != nil {
		// died between cases (a goroutine of an earlier case): restart once
		cur.kill()
		cur = startChild()
		io.WriteString(cur.in, line+"\n")
	}
	select {
	case l, ok := <-cur.lines:
		if !ok {
			cur.cmd.Wait()
			dump := cur.errBuf.String()
			cur = nil
			fn := topRepoFrameFromDump(dump)
			msg := "process died"
			if m := panicLineRe.FindString(dump); m != "" {
				msg = m
			}
			res.Impl = diedImpl(line, fn)
			res.Oracle = fmt.Sprintf("panic-in-%s: %s", fn, h.OneLine(msg))
			res.Class = op + "-panic"
			return
		}
		impl, oracle := l, ""
		if i := strings.Index(l, "\t"); i >= 0 {
			impl, oracle = l[:i], l[i+1:]
		}
		res.Impl, res.Oracle = impl, oracle
		res.Class = op + "-" + classOf(impl)
	case <-time.After(caseTimeout(line)):
		dump := ""
		cur.cmd.Process.Signal(syscall.SIGQUIT)
		time.Sleep(300 * time.Millisecond)
		dump = cur.errBuf.String()
		cur.kill()
		cur = nil
		res.Impl = "hang"
		sig := "hang-" + op
		if op == "fzparse" && blowupSelector(line) {
			sig = "hang-selector-blowup"
		} else if op == "fzparse" && strings.Contains(string(h.UnHex(strings.Fields(line)[1])), "ancestor") {
			sig = "hang-xpath-ancestor-axis"
		}
		res.Oracle = fmt.Sprintf("%s: no answer within %v; %s", sig, caseTimeout(line), h.OneLine(lastLines(dump, 6)))
		res.Class = op + "-hang"
	}
	return
}

// blowupSelector: a selector with many recursive-descent steps ($..a..a…, //a//a…): evaluation time and
// result size of the third-party engines grow exponentially in their number (known finding)
func blowupSelector(line string) bool {
	w := strings.Fields(line)
	if len(w) < 2 {
		return false
	}
	sel := string(h.UnHex(w[1]))
	return strings.Count(sel, "..")+strings.Count(sel, "//") >= 8
}

func lastLines(s string, n int) string {
	ls := strings.Split(strings.TrimSpace(s), "\n")
	if len(ls) > n {
		ls = ls[len(ls)-n:]
	}
	return strings.Join(ls, "\n")
}

// diedImpl: the canonical line of a case whose process died. For sequence ops the model
// prints the outcomes of the events before the fatal one too; the child cannot report
// them any more, so the whole line collapses to the panic (the driver side is compared
// on its last element only in that case – see sameOutcome in the check? no: the line is
// normalised here instead): we print "panic <fn>" and the oracle carries the rest.
func diedImpl(line, fn string) string { return "panic " + fn }

func classOf(impl string) string {
	switch {
	case strings.HasPrefix(impl, "nopanic"):
		return "nopanic"
	case strings.Contains(impl, "panic"):
		return "panic"
	case strings.Contains(impl, "err "):
		return "err"
	case strings.Contains(impl, "dropped"):
		return "dropped"
	}
	return "ok"
}

var _ = bytes.Equal

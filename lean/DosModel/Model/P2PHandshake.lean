/-
Symbolic model of the p2p handshake (p2p/client.go newClient / handShake / sendID / receiveID): what
the code binds to what.

Each end of a connection draws a fresh key pair (newClient), sends ONE plaintext, unsigned frame
`Package{Anything: ID{PublicKey, Id}, Sender: localID}` (sendID) and reads the other end's (receiveID:
decodeBytes with NO verify function).  receiveID takes the announced id as `remoteID`, refuses its own
id, decodes the presented G2 point, multiplies it by its own secret and cuts the AES key (bytes 0..32)
and the GCM nonce (bytes 32..44) out of the encoding of that ONE point — so key and nonce are the same
at both ends, in both directions, for the whole connection.

Diffie–Hellman is ideal (Dolev–Yao): a point `a·b·G` is named by the unordered pair of the two
secrets; it can be computed exactly by someone who holds one of the two secrets (and has seen the
other's public half, which travels in clear).
-/
import DosModel.Model.Util
import DosModel.Model.P2PSym

namespace Dos.P2PHandshake
open Dos

/-- the DH point sec·Pub(sec'), as the unordered pair of the two secret names -/
structure DHPoint where
  lo : Nat
  hi : Nat
  deriving DecidableEq, Repr

def dh (a b : Nat) : DHPoint := if a ≤ b then ⟨a, b⟩ else ⟨b, a⟩

/-- what the PublicKey field of an ID frame decodes to -/
inductive Presented
  | key (sk : Nat)   -- a valid G2 point: the public half of the pair whose secret is `sk`
  | identity         -- the point at infinity (the DH point then marshals to one byte)
  | garbage          -- bytes UnmarshalBinary refuses
  deriving DecidableEq, Repr

/-- the first frame read on a connection -/
inductive First
  | id (pres : Presented) (id : Bytes)   -- a Package carrying an ID; `id = []` also stands for an absent Id (GetId() = nil)
  | notID                                -- a well-formed Package carrying another message type
  | malformed                            -- does not decode (decodeBytes error), or the read failed
  deriving DecidableEq, Repr

inductive HsErr | read | casting | duplicateID | badKey | identityKey
  deriving DecidableEq, Repr

/-- the receiving end's view once the handshake is over -/
structure Session where
  remoteID  : Bytes
  remotePub : Nat        -- the signing key later packets are verified under: the PRESENTED key
  point     : DHPoint    -- AES key = bytes 0..32, GCM nonce = bytes 32..44 of its encoding
  deriving DecidableEq, Repr

inductive Outcome
  | ok (s : Session)
  | err (e : HsErr)
  deriving DecidableEq, Repr

/-- receiveID as the code is.  Note what is NOT checked: the announced id against anything (only against
the receiver's own id); an EMPTY id (`if c.remoteID == nil { err = … }` assigns an error that the next
statement overwrites — it is neither reported nor returned). -/
def receiveID (localID : Bytes) (localSec : Nat) : First → Outcome
  | .malformed => .err .read
  | .notID => .err .casting
  | .id pres rid =>
    if rid = localID then .err .duplicateID else
    match pres with
    | .garbage => .err .badKey
    | .identity => .err .identityKey
    | .key sk => .ok { remoteID := rid, remotePub := sk, point := dh localSec sk }

/-- sendID: the frame an honest end with identity `localID` and fresh secret `localSec` sends -/
def sendID (localID : Bytes) (localSec : Nat) : First := .id (.key localSec) localID

/-- ideal DH: who can compute a point — exactly the holders of one of its two secrets -/
def Knows (secrets : List Nat) (p : DHPoint) : Prop := p.lo ∈ secrets ∨ p.hi ∈ secrets

instance (secrets : List Nat) (p : DHPoint) : Decidable (Knows secrets p) := by
  unfold Knows; infer_instance

/-! ### driver: `hs <id hex> <kind>` and `hsmitm <n>` (go/props/c16/hs.go)

The node under test is "B" (0x42) with secret 2; the harness endpoint has secret 9. -/

def stepHs (idHex kind : String) : String :=
  match (if idHex == "-" then some [] else ofHex idHex) with
  | none => "bad-op"
  | some rid =>
    let pres : Option Presented := match kind with
      | "k" => some (.key 9)
      | "i" => some .identity
      | "g" => some .garbage
      | _ => none
    match pres with
    | none => "bad-op"
    | some pr =>
      match receiveID [0x42] 2 (.id pr rid) with
      | .ok s =>
        let sid := if s.remoteID.isEmpty then "-" else toHex s.remoteID
        s!"hs accepted=yes delivered=1 sender={sid} alive=yes"
      | .err _ => "hs accepted=no delivered=0 sender=- alive=yes"

def keyName (p : DHPoint) : Nat := p.lo * 1000 + p.hi

/-- `hsmitm <n>`: real nodes A (secret 1) and B (secret 2); a proxy ACTIVE DURING THE HANDSHAKE answers each
with a key pair of its own (5 towards A, 6 towards B), opens what A seals, signs the payload again
with 6 and seals it for B.  B verifies under the key presented to IT — the proxy's. -/
def stepHsMitm (checkAny drains : Bool) (n : Nat) : String :=
  match receiveID [0x41] 1 (.id (.key 5) [0x42]), receiveID [0x42] 2 (.id (.key 6) [0x41]) with
  | .ok sa, .ok sb =>
    let knows := decide (Knows [5, 6] sa.point) && decide (Knows [5, 6] sb.point)
    let cB : P2PSym.Conn :=
      { k := keyName sb.point, pk := sb.remotePub, known := P2PSym.knownType, checkAny := checkAny, self := 2, drains := drains }
    let frames := (List.range n).map fun i => P2PSym.pack 6 (keyName sb.point) [0x41] (P2PSym.msgOf i 0) i false
    let st := P2PSym.recvAll cB frames
    let both := if knows then "known" else "secret"
    s!"hsmitm both={both} a-peer={toHex sa.remoteID} b-peer={toHex sb.remoteID} delivered={st.out.length}/{n} alive=yes"
  | _, _ => "hsmitm failed"

end Dos.P2PHandshake

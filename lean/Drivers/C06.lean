import DosModel.Model.Bls
import DosModel.Model.BlsHist
/-
Line-protocol driver for C06.  Acceptance is decided by running the generic `Bls.verify` on the
instance `Bls.evalOps`: G1 concrete (affine model), the public key given by its discrete log
(the harness makes every key as x•g₂ and puts x in the case line), e(P, x) = x•P.  So
"accept" ⇔ the signature parses to a point S with  −S + x•(h•g₁) = O,  h = keccak256(msg) mod r
computed by the Lean Keccak of `Model/Keccak.lean`.
-/
open Dos Dos.Bn256 Dos.Codec Dos.Bls Dos.BlsHist

namespace Dos.DrvC06

def synBytes (n a b : Nat) : Bytes :=
  (List.range n).map (fun i => UInt8.ofNat ((a * i + b) % 256))

/-- message descriptor: `-` (empty), hex, or `syn:n:a:b` (byte i = (a·i+b) mod 256) -/
def msgOf (s : String) : Option Bytes :=
  match s.splitOn ":" with
  | ["syn", n, a, b] =>
    match n.toNat?, a.toNat?, b.toNat? with
    | some n, some a, some b => some (synBytes n a b)
    | _, _, _ => none
  | _ => ofHex s

/-- one step of a `hist` line → model steps (see `go/props/c06/hist.go` for the syntax) -/
def parseStep (s : String) : Option (List (Step Nat)) :=
  match s.splitOn ":" with
  | ["n", b, cap, hx] => do
    let b ← b.toNat?; let cap ← cap.toNat?; let bs ← ofHex hx
    pure [.upd (.alloc b cap bs)]
  | ["w", b, hx] => do
    let b ← b.toNat?; let bs ← ofHex hx
    pure [.upd (.write b bs)]
  | ["p", b, off, hx] => do
    let b ← b.toNat?; let off ← off.toNat?; let bs ← ofHex hx
    pure [.upd (.poke b off bs)]
  | ["a", b, hx] => do
    let b ← b.toNat?; let bs ← ofHex hx
    pure [.upd (.append b bs)]
  | ["sl", d, s, lo, hi] => do
    let d ← d.toNat?; let s ← s.toNat?; let lo ← lo.toNat?; let hi ← hi.toNat?
    pure [.upd (.slice d s lo hi)]
  | ["k", id, sk, _mode] => do
    let id ← id.toNat?; let sk ← sk.toNat?
    pure [.upd (.setKey id (sk % r))]
  -- the caller writes the key's encoding into buffer b and decodes the key object from that buffer
  | ["kb", id, b, sk] => do
    let id ← id.toNat?; let b ← b.toNat?; let sk ← sk.toNat?
    pure [.upd (.write b (marshalG2 (G2.smul (sk % r) g2gen))), .upd (.setKey id (sk % r))]
  | ["x", id, v] => do
    let id ← id.toNat?; let v ← v.toNat?
    pure [.upd (.setScalar id (v % r))]      -- `Scalar().SetBytes` reduces mod r
  | ["v", k, m, sg] => do
    let k ← k.toNat?; let m ← m.toNat?; let sg ← sg.toNat?
    pure [.call (.verify k m sg) none]
  | ["s", x, m] => do
    let x ← x.toNat?; let m ← m.toNat?
    pure [.call (.sign x m) none]
  | ["s", x, m, d] => do
    let x ← x.toNat?; let m ← m.toNat?; let d ← d.toNat?
    pure [.call (.sign x m) (some d)]
  | ["tv", ks, m, sg] => do
    let ks ← csvNat ks; let m ← m.toNat?; let sg ← sg.toNat?
    pure [.call (.tverify ks m sg) none]
  | _ => none

/-- a call of a `par` line on values: `v:<sk>:<msg>:<sig>` or `s:<sk>:<msg>` -/
def parseParCall (s : String) : Option (Args Nat) :=
  match s.splitOn ":" with
  | ["v", sk, m, sg] => do
    let sk ← sk.toNat?; let m ← ofHex m; let sg ← ofHex sg
    pure (.verify (sk % r) m sg)
  | ["s", sk, m] => do
    let sk ← sk.toNat?; let m ← ofHex m
    pure (.sign (sk % r) m)
  | _ => none

/-- `Signature.ToBigInt` as the harness prints it -/
def tbiLine (sig : Bytes) : String :=
  match sigToBigInt sig with
  | .ok (x, y) => s!"{x},{y}"
  | .err _ => "err"
  | .panic m => "panic " ++ m

/-- `decodePubKey` on the library's encoding of the key, as the harness prints it -/
def dpkLine (enc : Bytes) : String :=
  match decodePubKey enc with
  | .ok ws => "ok " ++ ",".intercalate (ws.map toString)
  | .err _ => "err"
  | .panic m => "panic " ++ m

def joinOutcomes (os : List Outcome) : String :=
  if os.isEmpty then "-" else "/".intercalate (os.map outcomeName)

def step (line : String) : String :=
  match words line with
  | ["verify", sk, ms, ss] =>
    match sk.toNat?, msgOf ms, ofHex ss with
    | some sk, some msg, some sig => verdictName (verify evalOps (sk % r) msg sig)
    | _, _, _ => "bad-op"
  | ["sign", sk, ms] =>
    match sk.toNat?, msgOf ms with
    | some sk, some msg =>
      let x := sk % r
      let sig := sign evalOps x msg
      let pk := marshalG2 (G2.smul x g2gen)
      s!"ok {toHex sig} pk={toHex pk} tbi={tbiLine sig} dpk={dpkLine pk}"
    | _, _ => "bad-op"
  | ["split", hs] =>
    match ofHex hs with
    | some b => tbiLine b
    | none => "bad-op"
  -- however the key object was built, `decodePubKey` sees the library's encoding of the element
  | ["dpk", sk, _how] =>
    match sk.toNat? with
    | some sk => dpkLine (marshalG2 (G2.smul (sk % r) g2gen))
    | none => "bad-op"
  -- `NewKeyPair` returns (x, x·g₂) for the x it picked: whatever x, key and signature are consistent
  -- (`pubkey_emits_canonical_words`, `evalOps_sign_verifies`); the harness decides it with math/big and the EVM
  | ["kp", _, _] => "keypair-consistent"
  -- `Verify` is a pure function of (key, message, signature): every goroutine of every round gets the same verdict
  | ["conc", sk, ms, ss, _, rounds, n] =>
    match sk.toNat?, msgOf ms, ofHex ss with
    | some sk, some msg, some sig => s!"all={verdictName (verify evalOps (sk % r) msg sig)} rounds={rounds} n={n}"
    | _, _, _ => "bad-op"
  -- a call history on shared mutable objects: the model has no hidden state (`hist_is_pointwise`)
  | ["hist", _tag, steps] =>
    match (steps.splitOn "/").mapM parseStep with
    | some ss => joinOutcomes (runHist evalOps evalKeyOps {} ss.flatten)
    | none => "bad-op"
  -- concurrent calls on values of their own: every round, every goroutine gets the one-shot outcome
  | ["par", _rounds, calls] =>
    match (calls.splitOn "/").mapM parseParCall with
    | some cs => joinOutcomes (cs.map (oneShot evalOps evalKeyOps))
    | none => "bad-op"
  | ["keccak", ms] =>
    match msgOf ms with
    | some msg => toHex (Keccak.keccak256 msg)
    | none => "bad-op"
  | _ => "bad-op"

end Dos.DrvC06

partial def readLines (h : IO.FS.Stream) (acc : Array String) : IO (Array String) := do
  let line ← h.getLine
  if line.isEmpty then return acc
  let l := (line.trimAsciiEnd).toString
  if l.isEmpty then readLines h acc else readLines h (acc.push l)

def main : IO Unit := do
  let stdin ← IO.getStdin
  let lines ← readLines stdin #[]
  let tasks := lines.map (fun l => Task.spawn (fun _ => Dos.DrvC06.step l))
  let out ← IO.getStdout
  for t in tasks do
    out.putStrLn t.get
  out.flush

/-
C04 composed with Primes and C09 — the generic theorems of `Props/C04.lean` instantiated at the scalar
field the code uses: `Zq Share.bn256Order` (numbers modulo the bn256 group order as regenerated from
/repo, `Gen/TblsFacts.lean`; a field because `Proofs/Primes.lean` proves the order prime, kernel
evaluated), with points in the discrete-log representation (the field as a module over itself, base
point any `g ≠ 0`).  The C04 driver computes with the same arithmetic (`Model/VssZr.lean`: residues
modulo the same number, `g = 1`).  No primality or characteristic hypothesis is left: `CharGt`
("1 … n are invertible") holds for every group size a Go `int` can express.
-/
import DosModel.Props.C04
import DosModel.Props.C09Compose

set_option linter.unusedSectionVars false

namespace Dos.Props.C04Compose
open Dos Dos.Vss Dos.Dkg Dos.Compose

/-- the scalars of bn256: a field, by `Primes.bn256_r_prime` -/
abbrev Fr := Dos.Zq Share.bn256Order

/-- **reconstruction over the bn256 scalars, for every schedule**: any slice of key shares of members
that are `done` after the schedule `evs`, `n/2+1` of them usable and at distinct indices, recovers the
sum of the dealers' secrets, and its commitment is the group key of every `done` member. -/
theorem run_reconstruct_bn256 (c : Cfg Fr Fr) (ephs : List (List Fr)) (hw : WellFormed c ephs) (evs : List Ev)
    (hn : c.n < 2 ^ 63) (dp : Bool) (shares : List (Option (Share.PriShare Fr)))
    (hval : ∀ iv ∈ shares.filterMap (Share.usablePri c.n), ∃ (k : Nat) (mk : Member Fr Fr) (d : Gen Fr Fr) (ks : KeyShare Fr Fr),
      (k : Int) = iv.1 ∧ (runEvents c ephs evs).ms[k]? = some mk ∧ mk.stage = .done d ks ∧ ks.shareV = iv.2)
    (hcnt : c.n / 2 + 1 ≤ (shares.filterMap (Share.usablePri c.n)).length)
    (hdist : (((shares.filterMap (Share.usablePri c.n)).take (c.n / 2 + 1)).map (·.1)).Nodup)
    (i : Nat) (m : Member Fr Fr) (d : Gen Fr Fr) (ks : KeyShare Fr Fr)
    (hm : (runEvents c ephs evs).ms[i]? = some m) (hs : m.stage = .done d ks) :
    Share.recoverSecret dp shares (c.n / 2 + 1) c.n = .ok ((c.polys.map (fun f => f.headD 0)).sum) ∧
    (c.polys.map (fun f => f.headD 0)).sum • c.g = ks.commits.headD 0 :=
  Props.C04.run_reconstruct c ephs hw evs
    (Props.C09Compose.charGt_bn256 c.n (Props.C09Compose.go_int_below_orders c.n hn).1) dp shares hval hcnt hdist i m d ks hm hs

/-- **complete honest runs over the bn256 scalars finish on one key**: `honest_run_complete_and_agree`
with no hypothesis on the field left. -/
theorem honest_run_complete_and_agree_bn256 (c : Cfg Fr Fr) (ephs : List (List Fr)) (hw : WellFormed c ephs)
    (evs : List Ev) (hcomp : Complete c.n (runEvents c ephs evs)) :
    (commit c.g (vecSum c.polys)).headD 0 = (c.polys.map (fun f => f.headD 0)).sum • c.g ∧
    ∀ i, i < c.n → ∃ m d ks, (runEvents c ephs evs).ms[i]? = some m ∧ m.stage = .done d ks ∧
      ks.commits = commit c.g (vecSum c.polys) ∧ ks.shareI = i ∧ ks.shareV = priEval (vecSum c.polys) (i : Int) ∧
      ks.shareV • c.g = pubEval (S := Fr) ks.commits (i : Int) :=
  Props.C04.honest_run_complete_and_agree c ephs hw evs hcomp

/-- **agreement over the bn256 scalars, any two schedules** -/
theorem run_agree_bn256 (c : Cfg Fr Fr) (ephs ephs' : List (List Fr)) (hw : WellFormed c ephs) (hw' : WellFormed c ephs')
    (evs evs' : List Ev) (i i' : Nat) (m m' : Member Fr Fr) (d d' : Gen Fr Fr) (ks ks' : KeyShare Fr Fr)
    (hm : (runEvents c ephs evs).ms[i]? = some m) (hm' : (runEvents c ephs' evs').ms[i']? = some m')
    (hs : m.stage = .done d ks) (hs' : m'.stage = .done d' ks') :
    ks.commits = ks'.commits ∧ ks.commits.headD 0 = ks'.commits.headD 0 :=
  Props.C04.run_agree c ephs ephs' hw hw' evs evs' i i' m m' d d' ks ks' hm hm' hs hs'

/-! ### non-vacuity: a well-formed configuration over the bn256 scalars -/
section Examples
def z (n : Nat) : Fr := Zq.ofNat _ n
def exCfg : Cfg Fr Fr := { g := z 1, longs := [z 5, z 7, z 9], polys := [[z 4, z 2], [z 6, z 1], [z 3, z 8]] }
def exEphs : List (List Fr) := [[z 11, z 12, z 13], [z 21, z 22, z 23], [z 31, z 32, z 33]]
example : WellFormed exCfg exEphs :=
  ⟨by decide +kernel, by decide +kernel, by decide +kernel, by decide +kernel, by decide +kernel, by decide +kernel,
    by decide +kernel⟩
end Examples

end Dos.Props.C04Compose

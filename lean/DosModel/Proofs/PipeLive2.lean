/-
C14 liveness, part 2: after cancellation, the escape edges of the pipeline goroutine of least
rank among the running ones are enabled (`escape_step`), hence that goroutine is never stuck
(`no_stuck_after_cancel` in Props/C14.lean).
-/
import DosModel.Proofs.PipeLive

namespace Dos.Pipe

/-- neither a send on / close of a closed channel nor a negative wait group is reachable -/
def NoCrash (p : Pipeline) : Prop := ∀ k, ¬ CrashReachable p k

theorem W0_edge {p : Pipeline} (h0 : W0 p = true) {g : Gi} {gr : Goroutine} (hg : p.gs[g]? = some gr)
    {pc : Pc} {nd : Node} (hn : gr.nodes[pc]? = some nd) {l : Lab} {n : Pc} (he : (l, n) ∈ nd.edges) :
    l.inRange p = true ∧ n < gr.nodes.length := by
  unfold W0 at h0
  rw [List.all_eq_true] at h0
  have := h0 gr (List.mem_of_getElem? hg)
  simp only [Bool.and_eq_true, List.all_eq_true, decide_eq_true_eq] at this
  exact this.2 nd (List.mem_of_getElem? hn) (l, n) he

theorem node_of {p : Pipeline} {g : Gi} {gr : Goroutine} {pc : Pc} {nd : Node}
    (hg : p.gs[g]? = some gr) (hn : gr.nodes[pc]? = some nd) : p.node g pc = some nd := by
  unfold Pipeline.node; rw [hg]; exact hn

theorem escEdges_sel (p : Pipeline) (g : Gi) (alts : List Alt) :
    escEdges p g (.sel alts) =
      if alts.any Alt.isCtx0 then (alts.filter Alt.isCtx0).flatMap Alt.edges
      else if alts.any Alt.isTick then (alts.filter Alt.isTick).flatMap Alt.edges
      else match alts with
        | [.recv c _ b] => if rangeOk p g c then [(.recvCl c, b)] else []
        | _ => [] := rfl

theorem esc_sub_edges {p : Pipeline} {g : Gi} {nd : Node} {l : Lab} {n : Pc}
    (h : (l, n) ∈ escEdges p g nd) : (l, n) ∈ nd.edges := by
  cases nd <;> try exact h
  case sel alts =>
    rw [escEdges_sel] at h
    rw [mem_edges_sel]
    split at h
    · simp only [List.mem_flatMap, List.mem_filter] at h
      obtain ⟨a, ⟨ha, _⟩, hae⟩ := h
      exact ⟨a, ha, hae⟩
    · split at h
      · simp only [List.mem_flatMap, List.mem_filter] at h
        obtain ⟨a, ⟨ha, _⟩, hae⟩ := h
        exact ⟨a, ha, hae⟩
      · split at h
        · rename_i c a b _ _
          split at h
          · simp only [List.mem_singleton, Prod.mk.injEq] at h
            obtain ⟨h1, h2⟩ := h
            subst h1; subst h2
            exact ⟨.recv c a n, by simp, by simp [Alt.edges]⟩
          · simp at h
        · simp at h

/-- what the liveness argument knows about a pipeline goroutine standing at a node -/
structure LiveAt (p : Pipeline) (s : State) (g : Gi) (gr : Goroutine) (pc : Pc) (nd : Node) : Prop where
  reach : Reach p s
  cancelled : s.ctxDone 0 = true
  hg : p.gs[g]? = some gr
  hn : gr.nodes[pc]? = some nd
  hat : s.gs[g]? = some (.at pc)
  lower : ∀ g' gr', p.gs[g']? = some gr' → gr'.static = true → gr'.daemon = false →
    rankOf p g' < rankOf p g → s.gs[g']? = some .done
  live : nodeLive p g nd = true

theorem rangeOk_parts {p : Pipeline} {g : Gi} {c : Ch} (h : rangeOk p g c = true) :
    ∃ hc grh, p.gs[hc]? = some grh ∧ grh.static = true ∧ grh.daemon = false ∧
      rankOf p hc < rankOf p g ∧ closesOnAllPaths grh c = true := by
  unfold rangeOk at h
  split at h
  · rename_i hc _
    split at h
    · rename_i grh hgr
      simp only [Bool.and_eq_true, Bool.not_eq_true', decide_eq_true_eq] at h
      exact ⟨hc, grh, hgr, h.1.1.1, h.1.1.2, h.1.2, h.2⟩
    · cases h
  · cases h

theorem waitOk_parts {p : Pipeline} {g : Gi} {w : Nat} (h : waitOk p g w = true) :
    W5w p w = true ∧ ∀ (g' : Gi) (gr' : Goroutine), p.gs[g']? = some gr' → owesAtEntry gr' w = true →
      gr'.static = true ∧ gr'.daemon = false ∧ rankOf p g' < rankOf p g := by
  unfold waitOk at h
  simp only [Bool.and_eq_true] at h
  refine ⟨h.1, ?_⟩
  intro g' gr' hg' ho
  have := zipIdx_all h.2 hg'
  simp only [ho, Bool.not_true, Bool.false_or, Bool.and_eq_true, Bool.not_eq_true', decide_eq_true_eq] at this
  exact ⟨this.1.1, this.1.2, this.2⟩

/-- the step along an edge, spelled out -/
def moved (s : State) (g : Gi) (l : Lab) (n : Pc) : State := (effect s l).setG g (.at n)

/-- **escape edges are enabled.**  After cancellation, for the pipeline goroutine `g` all of
whose lower-ranked pipeline goroutines have exited, every escape edge `(l, n)` of its current
node can be taken — except that a lone receive on a closed channel first drains the buffer. -/
theorem escape_step {p : Pipeline} (h0 : W0 p = true) (hsafe : NoCrash p)
    {s : State} {g : Gi} {gr : Goroutine} {pc : Pc} {nd : Node} (L : LiveAt p s g gr pc nd)
    {l : Lab} {n : Pc} (he : (l, n) ∈ escEdges p g nd) :
    Step p s (.act g l) (.run (moved s g l n)) ∨
    ∃ c n', l = .recvCl c ∧ 0 < s.len c ∧ (Lab.recvOk c, n') ∈ nd.edges ∧
      Step p s (.act g (.recvOk c)) (.run (moved s g (.recvOk c) n')) := by
  have hnd := node_of L.hg L.hn
  have hedge := esc_sub_edges he
  -- an enabled edge that is not `default`
  have take : ∀ l' n', (l', n') ∈ nd.edges → guard p s l' = true → l' ≠ .dflt →
      Step p s (.act g l') (.run (moved s g l' n')) :=
    fun l' n' hed hgd hnd' => Step.act g pc nd l' n' L.hat hnd hed hgd (fun h => absurd h hnd')
  cases nd with
  | sel alts =>
    rw [escEdges_sel] at he
    split at he
    · -- context alternative
      simp only [List.mem_flatMap, List.mem_filter] at he
      obtain ⟨a, ⟨_, hctx⟩, hae⟩ := he
      cases a <;> simp [Alt.isCtx0] at hctx
      case ctx k n0 =>
        subst hctx
        simp only [Alt.edges, List.mem_singleton, Prod.mk.injEq] at hae
        obtain ⟨h1, h2⟩ := hae
        subst h1; subst h2
        left
        exact take _ _ hedge (by simpa [guard] using L.cancelled) (by simp)
    · split at he
      · simp only [List.mem_flatMap, List.mem_filter] at he
        obtain ⟨a, ⟨_, htick⟩, hae⟩ := he
        cases a <;> simp [Alt.isTick] at htick
        case tick n0 =>
          simp only [Alt.edges, List.mem_singleton, Prod.mk.injEq] at hae
          obtain ⟨h1, h2⟩ := hae
          subst h1; subst h2
          left
          exact take _ _ hedge (by simp [guard]) (by simp)
      · split at he
        · rename_i c a b _ _
          split at he
          · rename_i hrange
            simp only [List.mem_singleton, Prod.mk.injEq] at he
            obtain ⟨h1, h2⟩ := he
            subst h1; subst h2
            obtain ⟨hc, grh, hgh, hst, hdm, hrk, hcl⟩ := rangeOk_parts hrange
            have hdone := L.lower hc grh hgh hst hdm hrk
            have hin : c < p.chans.length := by
              have := (W0_edge h0 L.hg L.hn hedge).1
              simpa [Lab.inRange] using this
            have hclosed := closer_closed hgh hcl hin s L.reach (Or.inl hdone)
            by_cases hlen : s.len c = 0
            · left
              exact take _ _ hedge (by simp [guard, hclosed, hlen]) (by simp)
            · right
              have hpos : 0 < s.len c := Nat.pos_of_ne_zero hlen
              have hed2 : (Lab.recvOk c, a) ∈ (Node.sel [Alt.recv c a n]).edges := by
                simp [Node.edges, Alt.edges]
              exact ⟨c, a, rfl, hpos, hed2, take _ _ hed2 (by simp [guard, hpos]) (by simp)⟩
          · simp at he
        · simp at he
  | close c n0 =>
    have he : (l, n) ∈ (Node.close c n0).edges := he
    simp only [Node.edges, List.mem_singleton, Prod.mk.injEq] at he
    obtain ⟨h1, h2⟩ := he
    subst h1; subst h2
    left
    apply take _ _ hedge _ (by simp)
    cases hcl : s.closed c with
    | false => simp [guard, hcl]
    | true =>
      exfalso
      exact hsafe (.closeClosed c) ⟨s, _, g, pc, L.reach,
        Step.crash g pc _ _ _ _ L.hat hnd hedge (by simp [crashOf, hcl])⟩
  | branch ns =>
    have he : (l, n) ∈ (Node.branch ns).edges := he
    simp only [Node.edges, List.mem_map] at he
    obtain ⟨n0, _, h⟩ := he
    simp only [Prod.mk.injEq] at h
    obtain ⟨h1, h2⟩ := h
    subst h1; subst h2
    left
    exact take _ _ hedge (by simp [guard]) (by simp)
  | wgDone w n0 =>
    have he : (l, n) ∈ (Node.wgDone w n0).edges := he
    simp only [Node.edges, List.mem_singleton, Prod.mk.injEq] at he
    obtain ⟨h1, h2⟩ := he
    subst h1; subst h2
    left
    apply take _ _ hedge _ (by simp)
    by_cases hz : s.wg w = 0
    · exfalso
      exact hsafe (.wgNegative w) ⟨s, _, g, pc, L.reach,
        Step.crash g pc _ _ _ _ L.hat hnd hedge (by simp [crashOf, hz])⟩
    · simp [guard]; omega
  | wgWait w n0 =>
    have he : (l, n) ∈ (Node.wgWait w n0).edges := he
    simp only [Node.edges, List.mem_singleton, Prod.mk.injEq] at he
    obtain ⟨h1, h2⟩ := he
    subst h1; subst h2
    left
    apply take _ _ hedge _ (by simp)
    have hlive := L.live
    simp only [nodeLive] at hlive
    obtain ⟨h5, hall⟩ := waitOk_parts hlive
    have hw := wgOk_of_W5w h5
    obtain ⟨hlen, hcnt⟩ := wg_counts_debt hw s L.reach
    have hzero : debt w p.gs s.gs = 0 := by
      apply debt_zero
      intro i gri st hgi hsi
      cases ho : owesAtEntry gri w with
      | true =>
        obtain ⟨hst, hdm, hrk⟩ := hall i gri hgi ho
        have := L.lower i gri hgi hst hdm hrk
        rw [hsi] at this; cases this
        exact owe_done gri w
      | false =>
        have := never_owes hgi (hw.owes gri (List.mem_of_getElem? hgi)) ho s L.reach
        rw [hsi] at this
        unfold owe; rw [this]; rfl
    simp [guard, hcnt, hzero]
  | spawn g' n0 =>
    have he : (l, n) ∈ (Node.spawn g' n0).edges := he
    simp only [Node.edges, List.mem_singleton, Prod.mk.injEq] at he
    obtain ⟨h1, h2⟩ := he
    subst h1; subst h2
    left
    exact take _ _ hedge (by simp [guard]) (by simp)
  | cancel k n0 =>
    have he : (l, n) ∈ (Node.cancel k n0).edges := he
    simp only [Node.edges, List.mem_singleton, Prod.mk.injEq] at he
    obtain ⟨h1, h2⟩ := he
    subst h1; subst h2
    left
    exact take _ _ hedge (by simp [guard]) (by simp)
  | exit =>
    have he : (l, n) ∈ (Node.exit).edges := he
    simp [Node.edges] at he

end Dos.Pipe

/-
C16, last clause — "each message the remote endpoint sends is delivered once TO THE SUBSCRIBER OF ITS
TYPE" (mechanism: dispatch by message type, p2p/server.go messageDispatch / SubscribeMsg /
UnSubscribeMsg).

Property theorems only (helpers: `Proofs/P2PSub.lean`).  Model `Model/P2PSub.lean`: the
string-keyed table `subscriptions` driven by the iterations of messageDispatch's loop, parametric
in how the key is computed at the three places that compute it; configuration and universe of
types regenerated from the source (`Model/P2PSubCfg.lean`: the three key expressions of
p2p/server.go, every protobuf type the repository registers).  The specification is read off the
history by TYPE IDENTITY (import path + name), with no strings: `subscriberOf`, `specRun`.
-/
import DosModel.Proofs.P2PSub
import DosModel.Model.P2PSubCfg

namespace Dos.Props.C16Sub
open Dos Dos.P2PSub

/-- regenerated: the statement skeleton of messageDispatch, SubscribeMsg, UnSubscribeMsg is the one the
model was transcribed from (one table, one write `subscriptions[sub.msgType] = sub.msgCh`, one
`delete(subscriptions, msgType)`, one lookup; ANY edit of these functions shows here first) -/
theorem c16_sub_skeleton : Gen.subTableSkeleton =
  [
    "messageDispatch | subscriptions := make(map[string]chan P2PMessage)",
    "messageDispatch | for | case msg, ok := <-n.peersFeed | if ok | if msg.Msg.Message == nil | continue",
    "messageDispatch | for | case msg, ok := <-n.peersFeed | if ok | messagetype := reflect.TypeOf(msg.Msg.Message).String()",
    "messageDispatch | for | case msg, ok := <-n.peersFeed | if ok | if len(messagetype) > 0 && messagetype[0] == '*' | messagetype = messagetype[1:]",
    "messageDispatch | for | case msg, ok := <-n.peersFeed | if ok | out := subscriptions[messagetype]",
    "messageDispatch | for | case msg, ok := <-n.peersFeed | if ok | if out := subscriptions[messagetype]; out != nil | case <-n.ctx.Done() | (empty)",
    "messageDispatch | for | case msg, ok := <-n.peersFeed | if ok | if out := subscriptions[messagetype]; out != nil | case out <- msg | (empty)",
    "messageDispatch | for | case sub, ok := <-n.subscribeMsg | if ok | subscriptions[sub.msgType] = sub.msgCh",
    "messageDispatch | for | case msgType, ok := <-n.unscribeMsg | if ok | delete(subscriptions, msgType)",
    "messageDispatch | for | case <-n.ctx.Done() | for _, outch := range subscriptions",
    "messageDispatch | for | case <-n.ctx.Done() | _, outch := range subscriptions | if outch != nil | close(outch)",
    "messageDispatch | for | case <-n.ctx.Done() | return",
    "SubscribeMsg(chanBuffer int, peersFeed ...interface{}) | for _, m := range peersFeed",
    "SubscribeMsg(chanBuffer int, peersFeed ...interface{}) | _, m := range peersFeed | if chanBuffer > 0 | outch = make(chan P2PMessage, chanBuffer)",
    "SubscribeMsg(chanBuffer int, peersFeed ...interface{}) | _, m := range peersFeed | else(chanBuffer > 0) | outch = make(chan P2PMessage)",
    "SubscribeMsg(chanBuffer int, peersFeed ...interface{}) | _, m := range peersFeed | eventList = append(eventList, outch)",
    "SubscribeMsg(chanBuffer int, peersFeed ...interface{}) | _, m := range peersFeed | case <-n.ctx.Done() | (empty)",
    "SubscribeMsg(chanBuffer int, peersFeed ...interface{}) | _, m := range peersFeed | case n.subscribeMsg <- &subscription{msgType: reflect.TypeOf(m).String(), msgCh: outch} | (empty)",
    "SubscribeMsg(chanBuffer int, peersFeed ...interface{}) | outch = merge(n.ctx, eventList...)",
    "SubscribeMsg(chanBuffer int, peersFeed ...interface{}) | return",
    "UnSubscribeMsg(peersFeed ...interface{}) | for _, m := range peersFeed",
    "UnSubscribeMsg(peersFeed ...interface{}) | _, m := range peersFeed | case <-n.ctx.Done() | (empty)",
    "UnSubscribeMsg(peersFeed ...interface{}) | _, m := range peersFeed | case n.unscribeMsg <- reflect.TypeOf(m).String() | (empty)",
    "UnSubscribeMsg(peersFeed ...interface{}) | return"] := by rfl

/-- regenerated: how the key is computed at the three places — messageDispatch prints the dynamic type
(a pointer to the struct) and cuts the '*' off, SubscribeMsg and UnSubscribeMsg print the type of what
they are handed — and what the repository's own subscribers hand in: struct values (composite
literals), each of a registered message type. -/
theorem c16_sub_keys :
    Cfg.code = ⟨.strStrip, .str, .str⟩ ∧ Gen.subscribersHandValues = true ∧
    (Gen.subscribedTypes.all fun (path, name) => regTypes.any fun T => T.path == path && T.name == name) = true := by
  decide

/-- **the three computations agree on, and separate, every registered message type** (kernel
evaluation over every pair of the regenerated registry, the colliding bare names
vss/dkg.PublicKey, vss/dkg.Response, vss/dkg.Responses, p2p/internal.Ping … included): the key a
message of type T is looked up with is the key a by-value subscription for T is filed under and the
key its unsubscription deletes; two different types never share a key; a subscription handed a
pointer lands on a key no message is ever looked up with. -/
theorem c16_sub_keys_separate : goodCheck Cfg.code regTypes = true := by decide

/-- **delivered once to the subscriber of its type, for EVERY history** of subscriptions,
unsubscriptions, re-subscriptions (by value or by pointer) and messages of registered types, in any
interleaving: what messageDispatch's table hands out is exactly — same messages, same channels, same
order, each once — what the specification by type identity asks for: each message to the channel
of the latest by-value subscription for ITS OWN type that has not been unsubscribed since, and to
nobody when there is none. -/
theorem delivered_once_to_subscriber_of_its_type (evs : List Ev) (hU : ∀ e ∈ evs, e.ty ∈ regTypes) :
    (run Cfg.code [] evs).2 = specRun evs (fun _ => none) :=
  run_eq_spec (good_of_check _ _ c16_sub_keys_separate) evs [] _ (rep_empty _ _) hU

example : (run Cfg.code [] [.subscribe 0 ⟨⟨"a/dkg", "dkg", "PublicKey"⟩, false⟩,
    .subscribe 1 ⟨⟨"a/vss", "vss", "PublicKey"⟩, false⟩, .msg 5 ⟨"a/vss", "vss", "PublicKey"⟩,
    .msg 6 ⟨"a/dkg", "dkg", "PublicKey"⟩, .unsubscribe ⟨⟨"a/vss", "vss", "PublicKey"⟩, false⟩,
    .msg 7 ⟨"a/vss", "vss", "PublicKey"⟩]).2 = [⟨1, 5⟩, ⟨0, 6⟩] := by decide

/-- **a delivered message reaches exactly the subscriber registered for its full type**: after any
history `pre`, the loop hands message `id` of type `T` to the channel `subscriberOf T pre` names
and to no other, and drops it when there is none. -/
theorem message_reaches_exactly_its_subscriber (pre : List Ev) (hU : ∀ e ∈ pre, e.ty ∈ regTypes)
    (id : Nat) (T : TypeId) (hT : T ∈ regTypes) :
    (step Cfg.code (run Cfg.code [] pre).1 (.msg id T)).2 =
      (subscriberOf T pre none).map fun ch => ⟨ch, id⟩ := by
  have g := good_of_check _ _ c16_sub_keys_separate
  have r := rep_after g pre [] _ (rep_empty _ _) hU
  rw [step_msg g r id T hT]

/-- **a later subscription for ANOTHER type never replaces it**: whatever type `h'.ty ≠ T` somebody
subscribes (or unsubscribes) afterwards, by value or by pointer, a message of type `T` still goes
where it went. -/
theorem other_type_never_replaces (pre : List Ev) (hU : ∀ e ∈ pre, e.ty ∈ regTypes)
    (id : Nat) (T : TypeId) (hT : T ∈ regTypes) (ch' : Nat) (h' : Handed) (hh : h'.ty ∈ regTypes) (hne : h'.ty ≠ T) :
    (step Cfg.code (run Cfg.code [] (pre ++ [.subscribe ch' h'])).1 (.msg id T)).2 =
      (step Cfg.code (run Cfg.code [] pre).1 (.msg id T)).2 ∧
    (step Cfg.code (run Cfg.code [] (pre ++ [.unsubscribe h'])).1 (.msg id T)).2 =
      (step Cfg.code (run Cfg.code [] pre).1 (.msg id T)).2 := by
  have hU1 : ∀ e ∈ pre ++ [Ev.subscribe ch' h'], e.ty ∈ regTypes := by
    intro e he
    rcases List.mem_append.mp he with h | h
    · exact hU e h
    · simp at h; subst h; exact hh
  have hU2 : ∀ e ∈ pre ++ [Ev.unsubscribe h'], e.ty ∈ regTypes := by
    intro e he
    rcases List.mem_append.mp he with h | h
    · exact hU e h
    · simp at h; subst h; exact hh
  rw [message_reaches_exactly_its_subscriber _ hU1 id T hT, message_reaches_exactly_its_subscriber _ hU2 id T hT,
    message_reaches_exactly_its_subscriber _ hU id T hT, subscriberOf_append, subscriberOf_append]
  simp [subscriberOf, hne]

/-- **an unsubscribed type is dropped** (until somebody subscribes it again), **and a re-subscription
takes over**: the latest by-value subscription for `T` is the one that gets `T`'s messages. -/
theorem unsubscribed_dropped_resubscribed_served (pre : List Ev) (hU : ∀ e ∈ pre, e.ty ∈ regTypes)
    (id : Nat) (T : TypeId) (hT : T ∈ regTypes) (ch : Nat) :
    (step Cfg.code (run Cfg.code [] (pre ++ [.unsubscribe ⟨T, false⟩])).1 (.msg id T)).2 = none ∧
    (step Cfg.code (run Cfg.code [] (pre ++ [.unsubscribe ⟨T, false⟩, .subscribe ch ⟨T, false⟩])).1 (.msg id T)).2 =
      some ⟨ch, id⟩ := by
  have hU1 : ∀ e ∈ pre ++ [Ev.unsubscribe ⟨T, false⟩], e.ty ∈ regTypes := by
    intro e he
    rcases List.mem_append.mp he with h | h
    · exact hU e h
    · simp at h; subst h; exact hT
  have hU2 : ∀ e ∈ pre ++ [Ev.unsubscribe ⟨T, false⟩, Ev.subscribe ch ⟨T, false⟩], e.ty ∈ regTypes := by
    intro e he
    rcases List.mem_append.mp he with h | h
    · exact hU e h
    · simp at h; rcases h with h | h <;> (subst h; exact hT)
  rw [message_reaches_exactly_its_subscriber _ hU1 id T hT, message_reaches_exactly_its_subscriber _ hU2 id T hT,
    subscriberOf_append, subscriberOf_append]
  simp [subscriberOf]

/-- Observation (the code as it is, not a violation of C16: no caller in the repository does it —
`c16_sub_keys`): a subscriber that hands SubscribeMsg a POINTER (`&Ping{}`) is filed under
"*p2p.Ping", a key no message is looked up with; it receives nothing and disturbs nobody. -/
theorem ptr_subscription_is_dead (pre : List Ev) (hU : ∀ e ∈ pre, e.ty ∈ regTypes)
    (id : Nat) (T T' : TypeId) (hT : T ∈ regTypes) (hT' : T' ∈ regTypes) (ch : Nat) :
    (step Cfg.code (run Cfg.code [] (pre ++ [.subscribe ch ⟨T', true⟩])).1 (.msg id T)).2 =
      (step Cfg.code (run Cfg.code [] pre).1 (.msg id T)).2 := by
  have hU1 : ∀ e ∈ pre ++ [Ev.subscribe ch ⟨T', true⟩], e.ty ∈ regTypes := by
    intro e he
    rcases List.mem_append.mp he with h | h
    · exact hU e h
    · simp at h; subst h; exact hT'
  rw [message_reaches_exactly_its_subscriber _ hU1 id T hT, message_reaches_exactly_its_subscriber _ hU id T hT,
    subscriberOf_append]
  simp [subscriberOf]

/-- the registered types the witnesses below use are the regenerated ones -/
def vssPK : TypeId := ⟨"github.com/DOSNetwork/core/share/vss/pedersen", "vss", "PublicKey"⟩
def dkgPK : TypeId := ⟨"github.com/DOSNetwork/core/share/dkg/pedersen", "dkg", "PublicKey"⟩

example : vssPK ∈ regTypes ∧ dkgPK ∈ regTypes ∧ vssPK ≠ dkgPK := by decide
example : (step Cfg.code (run Cfg.code [] [.subscribe 3 ⟨dkgPK, false⟩, .subscribe 4 ⟨vssPK, false⟩]).1 (.msg 9 dkgPK)).2 =
    some ⟨3, 9⟩ := by decide
example : subscriberOf dkgPK [.subscribe 3 ⟨dkgPK, false⟩, .subscribe 4 ⟨vssPK, false⟩] none = some 3 := by decide

/-- **why the package qualifier matters** (negation for the class "key without the package",
e.g. `reflect.Type.Name()`): with a bare-name key at all three places every subscriber still gets
its own messages, but a `vss.PublicKey` is handed to the subscriber of `dkg.PublicKey`, and when both
are subscribed the later subscription silently replaces the earlier one — the specification says
otherwise in both histories, and the separation check fails on the regenerated registry. -/
theorem bare_name_key_misroutes :
    let bare : Cfg := ⟨.bare, .bare, .bare⟩
    (run bare [] [.subscribe 0 ⟨dkgPK, false⟩, .msg 1 vssPK]).2 = [⟨0, 1⟩] ∧
    specRun [.subscribe 0 ⟨dkgPK, false⟩, .msg 1 vssPK] (fun _ => none) = [] ∧
    (run bare [] [.subscribe 0 ⟨vssPK, false⟩, .subscribe 1 ⟨dkgPK, false⟩, .msg 2 vssPK]).2 = [⟨1, 2⟩] ∧
    specRun [.subscribe 0 ⟨vssPK, false⟩, .subscribe 1 ⟨dkgPK, false⟩, .msg 2 vssPK] (fun _ => none) = [⟨0, 2⟩] ∧
    goodCheck bare regTypes = false := by
  decide

/-- … and why the '*' has to go on the dispatch side: printing the dynamic type as it is
("*vss.PublicKey") finds no by-value subscription at all. -/
theorem unstripped_key_delivers_nothing :
    (run ⟨.str, .str, .str⟩ [] [.subscribe 0 ⟨vssPK, false⟩, .msg 1 vssPK]).2 = [] ∧
    goodCheck ⟨.str, .str, .str⟩ regTypes = false := by
  decide

end Dos.Props.C16Sub
